/* C09 one library call from an ARBITRARY state of a connected stream pair (A <-> B):
 * KIND 1 p_socket_send(A)   2 p_socket_send_to(A)   3 p_socket_receive(A)   4 p_socket_receive_from(A)
 * Symbolic: receive-queue fill levels and contents, peer state (alive / half-closed / gone), pending
 * peer action that may happen while the call waits (data arrives / peer closes), blocking flag,
 * timeout, buffer length (incl. lengths >= 2^32 whose (socklen_t) cast drops the high bits), SIGPIPE
 * disposition scenario, and the fault schedule (<= FAULTS of EINTR / EAGAIN / short / hard errno) over
 * every poll/send/recv invocation made by the call.
 * Oracle (conservation per call, stated on the kernel queues, independent of how the library gets there):
 * a send that reports n bytes appended exactly the caller's first n bytes to the peer's queue; a receive
 * that reports n bytes returned exactly the first n queued bytes and left the rest queued in order; a call
 * that reports failure moved nothing.  The end-to-end comparison over several calls is C09_stream.c.
 * Also: blocking mode never reports would-block / interrupted; writing to a gone peer gives an error
 * and no SIGPIPE; errno -> PErrorIO for every code involved; non-blocking never waits. */
#include "C09_common.h"

#ifndef KIND
#define KIND 1
#endif
#define IS_SEND (KIND == 1 || KIND == 2)

static void handler(int s) { (void) s; }

void harness(void) {
  vm_alloc_install(); vs_reset();
  /* SIGPIPE scenario: 0 library initialised as documented (p_socket_init_once), 1 never initialised
   * ("on UNIX p_libsys_init does nothing"), 2 initialised, then the program installs its own handler */
  int sig_scn = ND_RANGE(0, 2);
  if (sig_scn != 1) p_socket_init_once();
  if (sig_scn == 2) vm_signal(SIGPIPE, handler);

  int fam = ND_BOOL() ? AF_INET : AF_INET6;
  int a = vs_mkfd(SOCK_STREAM, fam), b = vs_mkfd(SOCK_STREAM, fam);
  vs_pair(a, b);
  PSocket *A = p_socket_new_from_fd(a, NULL);
  VASSERT(A != NULL, "socket from a connected descriptor");
  /* arbitrary queue contents in both directions */
  int fill_a = ND_RANGE(0, VS_CAP), fill_b = ND_RANGE(0, VS_CAP);
  VFD(rx_len, a) = fill_a; VFD(rx_len, b) = fill_b;
  unsigned char pre_a[VS_CAP];
  for (int k = 0; k < VS_CAP; k++) { pre_a[k] = k < fill_a ? ND_UCHAR() : 0; VFD(rx, a)[k] = pre_a[k]; VFD(rx, b)[k] = k < fill_b ? ND_UCHAR() : 0; }
  /* peer state */
  int peer = ND_RANGE(0, 2);             /* 0 alive, 1 peer shut down its write side, 2 peer gone */
  if (peer >= 1) VFD(peer_eof, a) = 1;
  if (peer == 2) { VFD(peer_gone, a) = 1; VFD(open, b) = 0; }
  /* what the peer may do while A waits */
  vs.env_mask = (1 << VS_ENV_DATA) | (1 << VS_ENV_PEERCLOSE) | (1 << VS_ENV_DRAIN);
  vs.env_kind = peer == 0 ? ND_RANGE(VS_ENV_NONE, VS_ENV_DRAIN) : VS_ENV_NONE;
  vs.env_fd = a; vs.env_len = ND_RANGE(1, VS_CAP);
  for (int k = 0; k < VS_CAP; k++) vs.env_data[k] = ND_UCHAR();

  _Bool blocking = ND_BOOL();
  int T = ND_RANGE(0, 1000000);
  p_socket_set_blocking(A, nd_pbool(blocking));
  p_socket_set_timeout(A, T);
  vs.hard_errno = ND_INT();
  VASSUME(vs.hard_errno == ECONNRESET || vs.hard_errno == ENOBUFS || vs.hard_errno == ENOMEM || vs.hard_errno == ETIMEDOUT ||
          vs.hard_errno == ENOTCONN || vs.hard_errno == EPIPE || vs.hard_errno == EINVAL || vs.hard_errno == EBADF ||
          vs.hard_errno == ECONNREFUSED || vs.hard_errno == EHOSTUNREACH || vs.hard_errno == ENETUNREACH || vs.hard_errno == EACCES ||
          vs.hard_errno == ECONNABORTED || vs.hard_errno == EMSGSIZE);

  unsigned char buf[VS_CAP];
  int n = ND_RANGE(IS_SEND || KIND == 4 ? 1 : 0, VS_CAP);
  psize buflen = (psize) n + ((psize) ND_RANGE(0, 1) << 32);     /* high bits are cut by the (socklen_t) cast */
  PError *err = NULL;
  PSocketAddress *dest = NULL, *from = NULL;
  struct sockaddr_storage ss;
  if (KIND == 2) { int len = nd_native(fam, &ss); dest = p_socket_address_new_from_native(&ss, (psize) len); VASSERT(dest != NULL, "address"); }
  for (int k = 0; k < VS_CAP; k++) buf[k] = IS_SEND ? ND_UCHAR() : 0;
  int fill_before = IS_SEND ? VFD(rx_len, b) : VFD(rx_len, a);
  long long clock0 = vs.clock;
  int calls0 = vs.ncalls;

  vs_begin_call(FAULTS, VS_M_EINTR | VS_M_EAGAIN | VS_M_SHORT | VS_M_HARD);
  vs.nb_call = !blocking;
  pssize r;
  if (KIND == 1) r = p_socket_send(A, (const pchar *) buf, buflen, &err);
  else if (KIND == 2) r = p_socket_send_to(A, dest, (const pchar *) buf, buflen, &err);
  else if (KIND == 3) r = p_socket_receive(A, (pchar *) buf, buflen, &err);
  else r = p_socket_receive_from(A, &from, (pchar *) buf, buflen, &err);

  _Bool drained = vs.env_fired && vs.env_kind == VS_ENV_DRAIN;
  int j = ND_RANGE(0, VS_CAP - 1);        /* one symbolic byte position stands for all */
  if (r >= 0) {
    VASSERT(err == NULL, "success sets no error");
    VASSERT(r <= n, "never more than the (truncated) buffer length");
    if (IS_SEND) {
      VASSERT(peer != 2, "nothing can be sent to a gone peer");
      VASSERT(VFD(tx_total, a) == r, "the kernel took exactly the bytes reported sent");
      if (!drained) {
        VASSERT(VFD(rx_len, b) == fill_before + r, "exactly the reported bytes were queued at the peer");
        if (j < r) VASSERT(VFD(rx, b)[fill_before + j] == buf[j], "queued bytes = the caller's bytes, in order");
      }
    } else {
      VASSERT(VFD(rx_total, a) == r, "exactly the reported bytes were taken from the queue");
      if (j >= r) VASSERT(buf[j] == 0, "the caller's buffer is untouched beyond the returned count");
      if (j < r) VASSERT(buf[j] == (j < fill_a ? pre_a[j] : vs.env_data[j - fill_a]), "returned bytes = head of the queue, in order");
      if (j < VFD(rx_len, a) && j + r < VS_CAP) VASSERT(VFD(rx, a)[j] == (j + r < fill_a ? pre_a[j + r] : vs.env_data[j + r - fill_a]), "the rest stays queued, in order");
    }
    if (KIND == 4) VASSERT(from == NULL, "a stream has no datagram source address");
  } else {
    VASSERT(r == -1 && err != NULL, "failure returns -1 and an error object");
    VASSERT(IS_SEND ? (VFD(tx_total, a) == 0 && (drained || VFD(rx_len, b) == fill_before)) : VFD(rx_total, a) == 0, "a call that reports failure moved no data");
    int code = ERR_CODE(err), nat = ERR_NATIVE(err);
    if (code == P_ERROR_IO_TIMED_OUT && nat != ETIMEDOUT) {
      VASSERT(blocking && T > 0 && vs.last_poll_zero, "timed out: only a blocking socket with a timeout, after poll reported expiry");
    } else {
      VASSERT(nat == vs.last_fail_errno, "native code = errno of the system call that failed");
      VASSERT(code == ref_io_code(nat), "errno -> PErrorIO as documented");
      VASSERT(nat != EINTR, "an interrupted system call is never reported");
      if (blocking) VASSERT(code != P_ERROR_IO_WOULD_BLOCK && nat != EAGAIN, "blocking call never reports would-block");
      else VASSERT(vs.npoll == 0 && vs.clock == clock0, "non-blocking call does not wait");
      if (nat == EPIPE && IS_SEND) VASSERT(code == P_ERROR_IO_FAILED, "write to a gone peer is an error");
    }
    ERR_FREE(err);
  }
  if (!blocking) VASSERT(vs.npoll == 0 && vs.clock == clock0, "non-blocking call returns at once");
  /* peer gone + send: an error, and never a signal (send: MSG_NOSIGNAL in every scenario; send_to relies
   * on the SIGPIPE disposition installed by the library's own initialisation) */
  if (IS_SEND && peer == 2) VASSERT(r < 0, "write to a gone peer fails");
  if (KIND == 1 || sig_scn == 0) VASSERT(!vs.sigpipe_raised, "no SIGPIPE");
  VASSERT(vs.bad_access == 0, "only open descriptors are used");
  VASSERT(vs.ncalls > calls0, "harness: the call reached the kernel");

  if (dest) p_socket_address_free(dest);
  if (from) p_socket_address_free(from);
  p_socket_free(A);
  VASSERT(vm_live == 0 && VFD(closes, a) == 1 && vs.bad_close == 0, "everything released, descriptor closed once");
  VWITNESS("end");
  if (r >= 0 && blocking && vs.nfaults == FAULTS) VWITNESS("blocking success after the full fault budget");
  if (r >= 0 && r < n) VWITNESS("short transfer reported");
  if (r < 0 && blocking && vs_err_code == P_ERROR_IO_TIMED_OUT) VWITNESS("blocking timeout");
  if (r < 0 && !blocking && vs_err_code == P_ERROR_IO_WOULD_BLOCK) VWITNESS("non-blocking would-block");
  if (r < 0 && vs_err_native == vs.hard_errno && vs.nfaults > 0) VWITNESS("hard error reported");
#if IS_SEND
  if (r < 0 && vs_err_native == EPIPE && peer == 2) VWITNESS("write to gone peer");
#endif
  if (r >= 0 && vs.env_fired) VWITNESS("peer acted while the call was waiting");
  if (r >= 0 && buflen > 0xffffffffUL) VWITNESS("length with high bits");
}
