/* C18/C20 core scripts: shared vocabulary.
 * The failing allocator of models/alloc.c is installed through the real p_mem_set_vtable();
 * vm_fail_at = k (1-based index of the failing request, 0 = none), vm_fail_from = "k-th and all later fail".
 * Every script:  c18_begin(); ...calls + assertions...; c18_end(N)  with N = number of requests the
 * script makes when nothing fails (used only for the coverage witnesses, never asserted). */
#ifndef C18_CORE_H
#define C18_CORE_H
#include "verif.h"
#include "alloc.h"
#include <pmem.h>
#include <string.h>

#ifndef KMAX
#define KMAX 12
#endif

static int c18_base;

/* The failure point (k, mode) is a solver variable, but the script is executed once per value with
 * the value written back as a constant ("if (k == 3) { vm_fail_at = 3; script(); }"): symbolic
 * execution then follows each failure scenario on its own concrete path instead of merging heaps whose
 * shape depends on k (measured: merged 3-insert tree script 750 k steps / out of memory; split: seconds).
 * The same is done for the script variant (NCHOICE) and for the positions of environment failures (ENV_KMAX). */
static void script(void);
#ifndef NCHOICE
#define NCHOICE 1
#endif
#ifndef K_LO
#define K_LO 0
#endif
#ifndef K_HI
#define K_HI KMAX
#endif
#ifndef ENV_KMAX
#define ENV_KMAX 0            /* number of environment-model calls that may be chosen to fail (0: environment never fails) */
#endif
#ifndef ENV_MAXFAULTS
#define ENV_MAXFAULTS 2
#endif
static int c18_choice;        /* script variant */
static int c18_env_fault[2];  /* 1-based numbers of the environment-model calls that fail (0 = none); scripts copy them into their model */
static void c18_begin(void) { c18_base = vm_live; }

static void c18_run_choice(void) {
  int ch = ND_RANGE(0, NCHOICE - 1);
#ifdef MERGED_CHOICE
  c18_choice = ch; script(); return;
#endif
  for (int c = 0; c < NCHOICE; c++) if (ch == c) { c18_choice = c; script(); return; }          /* loop c18_run_choice.0 */
}
static void c18_run_env(void) {
#if ENV_KMAX > 0
  int e1 = ND_RANGE(0, ENV_KMAX), e2 = ND_RANGE(0, ENV_KMAX);
#  ifdef ENV_FIRST
  VASSUME(e1 == ENV_FIRST);                                 /* the runner splits the first failing call over queries */
#  endif
  for (int a = 0; a <= ENV_KMAX; a++)                       /* loop c18_run_env.1 */
    for (int b = 0; b <= ENV_KMAX; b++)                     /* loop c18_run_env.0 */
      if (b == 0 || (ENV_MAXFAULTS > 1 && a != 0 && b > a))
        if (e1 == a && e2 == b) { c18_env_fault[0] = a; c18_env_fault[1] = b; c18_run_choice(); return; }
  VASSUME(0);                                               /* (e1, e2) not an ordered pair: excluded */
#else
  c18_run_choice();
#endif
}
/* optional reference run(s) without failure, executed once before the failure point is chosen (-DC18_PROLOGUE in the harness);
 * c18_k0 = requests made by it: k counts from there */
static int c18_k0;
#ifdef C18_PROLOGUE
static void c18_prologue(void);
#endif
void harness(void) {
  vm_alloc_install();
#ifdef C18_PROLOGUE
  vm_fail_at = 0; vm_fail_from = 0;
  c18_prologue();
  c18_k0 = vm_nalloc;
#endif
#if defined(NOFAIL)
  vm_fail_at = 0; vm_fail_from = 0;                 /* C20: success paths w.r.t. memory */
  c18_run_env();
#else
  int k = ND_RANGE(K_LO, K_HI);                     /* the runner may split the range of k over several queries */
#  if defined(FAILMODE_ONCE)
  int from = 0;
#  elif defined(FAILMODE_FROM)
  int from = 1;
#  else
  int from = ND_RANGE(0, 1);
#  endif
  if (k == 0) VASSUME(from == 0);
#  ifdef MERGED    /* one symbolic run (cheaper for scripts with long straight-line parts, e.g. the hash table) */
  vm_fail_at = k ? c18_k0 + k : 0; vm_fail_from = from;
  c18_run_env();
#  else
  for (int kk = K_LO; kk <= K_HI; kk++)             /* loop harness.1 */
    for (int m = 0; m < 2; m++)                     /* loop harness.0 */
      if (k == kk && from == m) { vm_fail_at = kk ? c18_k0 + kk : 0; vm_fail_from = m; c18_run_env(); return; }
#  endif
#endif
}

/* the n-th request (1-based) counted from here is the failing one */
#define C18_NTH_FAILS(n)   (vm_fail_at != 0 && vm_fail_at == vm_nalloc + (n))
/* a request fails iff it is the k-th, or from-mode and later than k */
#define C18_FAILED_SINCE(f0) (vm_failed > (f0))

/* nsucc = requests of the success path; lastk = largest k whose failure is inside the checked classes (= nsucc unless the
 * last request itself is an excluded known-finding class) */
static void c18_end2(int nsucc, int lastk);
static void c18_end(int nsucc) { c18_end2(nsucc, nsucc); }
static void c18_end2(int nsucc, int lastk) {
#ifdef KF_DEMO_LEAK
  VKF(vm_live == c18_base, "no allocation made by the script is outstanding after all objects were freed");
#else
  VASSERT(vm_live == c18_base, "no allocation made by the script is outstanding after all objects were freed");
#endif
#ifdef KF_DEMO      /* known-finding demonstration: the script is restricted to the failing class */
#ifndef KF_DEMO_CUT
  VWITNESS("demonstration script ran to its end");
#endif
  (void) nsucc; (void) lastk;
#else
#if K_LO == 0
  if (vm_failed == 0) VWITNESS("run without allocation failure");
#  ifndef ENV_FIRST   /* with a forced environment failure the number of requests differs (error reports) */
  if (vm_failed == 0 && vm_nalloc - c18_k0 == nsucc) VWITNESS("success path makes the expected number of requests");
#  endif
#endif
#ifndef NOFAIL
  if (vm_failed > 0) VWITNESS("run with an injected allocation failure");
#  if K_HI >= KMAX && !defined(ENV_FIRST)
  if (vm_failed > 0 && vm_fail_at - c18_k0 == lastk) VWITNESS("k = last request of the script fails");
#  endif
#  if K_LO <= 1
  if (vm_failed > 0 && vm_fail_at - c18_k0 == 1) VWITNESS("k = first request of the script fails");
#  else
  if (vm_failed > 0 && vm_fail_at - c18_k0 == K_LO) VWITNESS("k = first value of this query's range fails");
#  endif
#  if !defined(FAILMODE_ONCE) && !defined(C18_STOPS_AT_FIRST_FAILURE)
  if (vm_failed > 1) VWITNESS("from-k-on mode: several requests failed");
#  endif
#endif
#endif
}

/* concrete-string equality without libc (keeps CBMC's strcmp model out) */
static int c18_streq(const char *a, const char *b) {
  int i;
  if (a == NULL || b == NULL) return 0;
  for (i = 0; i < 64; i++) { if (a[i] != b[i]) return 0; if (a[i] == 0) return 1; }
  return 0;
}
#endif
