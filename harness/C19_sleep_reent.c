/* C19 (sleep part, re-entrancy): two threads sleep concurrently and both are interrupted by handled signals.
 * Sleeper A = p_uthread_sleep(msec_a) of the harness; inside the clock model of one of A's kernel sleeps - at its
 * entry, or after an interruption has written A's remaining time and before A reads it - a symbolic choice runs a
 * COMPLETE p_uthread_sleep(msec_b) of another thread B (different symbolic duration, up to NINTR_B interruptions,
 * each writing a remainder).  All ghost state of the clock model (elapsed time, first request, last remainder) is
 * per sleeper (saved / restored around B).  Asserted for BOTH sleepers: never -1, first request >= msec, every
 * re-issued request >= the remaining time reported to THAT sleeper, return 0 only after a completed sleep.
 * Shared state between concurrent sleeps (e.g. a static remainder buffer) breaks the third assertion for A. */
#include "verif.h"
#include "clock_model.h"
#include <puthread.h>
#ifndef NINTR
#define NINTR 2
#endif
#ifndef NINTR_B
#define NINTR_B 2
#endif
static int in_b, b_ran, b_intr;
static puint32 msec_b;

static void check_sleeper(puint32 msec, pint r, const char *who) {
  (void) who;
  long long want_s = msec / 1000; long want_ns = (long) (msec % 1000) * 1000000L;
  VASSERT(r == 0, "a handled signal alone never makes p_uthread_sleep fail (also with another thread sleeping)");
  VASSERT(vm_sleep_calls >= 1 && (vm_sleep_first_req.tv_sec > want_s || (vm_sleep_first_req.tv_sec == want_s && vm_sleep_first_req.tv_nsec >= want_ns)),
          "the first kernel sleep asks for at least msec");
  if (r == 0) VASSERT(!vm_sleep_pending_rem, "return 0 only after a kernel sleep ran to completion");
}

void vm_sleep_hook(int point) {
  (void) point;
  if (in_b || b_ran) return;
  if (!ND_BOOL()) return;
  /* ---- thread B sleeps now, from start to end; A's ghost state is put aside */
  unsigned long long cs = vm_clock_s, cn = vm_clock_ns;
  struct timespec fr = vm_sleep_first_req, lr = vm_sleep_last_rem;
  int pr = vm_sleep_pending_rem, ca = vm_sleep_calls, il = vm_sleep_intr_left, it = vm_sleep_intr_taken;
  vm_clock_s = 0; vm_clock_ns = 0; vm_sleep_pending_rem = 0; vm_sleep_calls = 0; vm_sleep_intr_left = NINTR_B; vm_sleep_intr_taken = 0;
  in_b = 1; b_ran = 1;
  pint rb = p_uthread_sleep(msec_b);
  check_sleeper(msec_b, rb, "B");
  b_intr = vm_sleep_intr_taken;
  in_b = 0;
  vm_clock_s = cs; vm_clock_ns = cn; vm_sleep_first_req = fr; vm_sleep_last_rem = lr;
  vm_sleep_pending_rem = pr; vm_sleep_calls = ca; vm_sleep_intr_left = il; vm_sleep_intr_taken = it;
}

void harness(void) {
  puint32 msec_a = ND_UINT();
  msec_b = ND_UINT();
#ifdef SMALL_B
  VASSUME(msec_b < SMALL_B);
#endif
  vm_sleep_intr_left = NINTR;
  errno = ND_INT();
  pint r = p_uthread_sleep(msec_a);
  check_sleeper(msec_a, r, "A");
  VWITNESS("end");
  if (r == 0 && b_ran && b_intr > 0 && vm_sleep_intr_taken > 0) VWITNESS("both sleepers were interrupted, B ran inside A's kernel sleep");
  if (r == 0 && b_ran && msec_b < msec_a && b_intr > 0) VWITNESS("B shorter than A and interrupted");
}
