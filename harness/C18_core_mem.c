/* C18 core / pmem: the dispatch layer itself.  p_mem_set_vtable rejects incomplete tables and leaves
 * the installed table in force; zero-size requests and p_free(NULL) never reach the table; failing
 * p_malloc/p_malloc0/p_realloc return NULL (p_malloc0 does not touch the NULL block, p_realloc leaves
 * the old block valid and unchanged); p_mem_restore_vtable switches back to the C library. */
#include "C18_core.h"

static void script(void) {
  c18_begin();
  PMemVTable bad;
  bad.f_malloc = (ppointer (*)(psize)) vm_malloc; bad.f_realloc = NULL; bad.f_free = (void (*)(ppointer)) vm_free;
  VASSERT(p_mem_set_vtable(&bad) == FALSE && p_mem_set_vtable(NULL) == FALSE, "incomplete or missing table rejected");
  int n0 = vm_nalloc;
  VASSERT(p_malloc(0) == NULL && p_malloc0(0) == NULL && p_realloc(NULL, 0) == NULL && vm_nalloc == n0, "zero-size requests never reach the table");

  int f0 = vm_failed, live0 = vm_live;
  puchar *a = p_malloc(8);
  VASSERT(vm_nalloc == n0 + 1, "the rejected tables did not replace the installed one");
  if (C18_FAILED_SINCE(f0)) VASSERT(a == NULL && vm_live == live0, "failing p_malloc returns NULL");
  else { VASSERT(a != NULL && vm_live == live0 + 1, "p_malloc delivers a block"); a[0] = 0x5a; a[7] = 0xa5; }

  f0 = vm_failed; live0 = vm_live;
  puchar *b = p_malloc0(8);
  if (C18_FAILED_SINCE(f0)) VASSERT(b == NULL && vm_live == live0, "failing p_malloc0 returns NULL");
  else VASSERT(b != NULL && b[0] == 0 && b[3] == 0 && b[7] == 0, "p_malloc0 delivers a zeroed block");

  f0 = vm_failed; live0 = vm_live;
  puchar *c = p_realloc(NULL, 4);
  if (C18_FAILED_SINCE(f0)) VASSERT(c == NULL && vm_live == live0, "failing p_realloc(NULL, n) returns NULL");
  else VASSERT(c != NULL && vm_live == live0 + 1, "p_realloc(NULL, n) allocates");

  if (a != NULL) {
    f0 = vm_failed; live0 = vm_live;
    puchar *a2 = p_realloc(a, 16);
    if (C18_FAILED_SINCE(f0)) { VASSERT(a2 == NULL, "failing p_realloc returns NULL"); VASSERT(a[0] == 0x5a && a[7] == 0xa5 && vm_live == live0, "the old block stays valid and unchanged"); }
    else { VASSERT(a2 != NULL && a2[0] == 0x5a && a2[7] == 0xa5 && vm_live == live0, "p_realloc keeps the contents"); a = a2; }
    n0 = vm_nalloc;
    VASSERT(p_realloc(a, 0) == NULL && vm_nalloc == n0 && a[0] == 0x5a, "p_realloc(p, 0) returns NULL and leaves the block alone");
  }
  live0 = vm_live;
  p_free(NULL);
  VASSERT(vm_live == live0, "p_free(NULL) never reaches the table");
  p_free(a); p_free(b); p_free(c);
  c18_end(4);

  p_mem_restore_vtable();
  n0 = vm_nalloc;
  puchar *x = p_malloc(4);
  VASSERT(vm_nalloc == n0, "after p_mem_restore_vtable requests no longer reach the replaced table");
  if (x != NULL) x[3] = 1;
  p_free(x);
  VWITNESS("restored table used");
}
