/* C12/C13/C14 shared harness: ONE operation of the real PTree code from EVERY valid tree of
 * height <= H (inductive step), decided by the solver.
 *
 * Pre-state: built directly as individual heap node objects on the skeleton of the complete binary
 * tree of height H (positions 1..2^H-1, children 2i / 2i+1).  Symbolic: which positions are present
 * (closed under parent), RB colours / AVL balance factors (constrained by the representation
 * invariant).  Keys are order tokens: skeleton position i carries rank 2*inorder(i) (WLOG for a
 * total-order comparator: only comparison outcomes are observable; every (shape, relative position
 * of the operation key) pair is realised by some rank KPOS in 1..2N+1 -- odd = gap, even = node).
 * Key/value *identities* are distinct tokens (rank<<8 | id): the library must never dereference
 * them (integer addresses: any access is a CBMC pointer violation).
 *
 * compile-time parameters (runner): TT 0=BST 1=RB 2=AVL, H, OP, KPOS (operation key rank),
 *   NEWMODE 0=p_tree_new 1=p_tree_new_with_data 2=p_tree_new_full(+notifiers),
 *   CHK_MAP / CHK_BAL / CHK_OWN assertion groups (C12 / C13 / C14). */
#include "verif.h"
#include "alloc.h"
#include <pmem.h>
#include "ptree.c"
#include "ptree-bst.c"
#include "ptree-rb.c"
#include "ptree-avl.c"

#ifndef H
#define H 3
#endif
#ifndef TT
#define TT 1
#endif
#ifndef NEWMODE
#define NEWMODE 2
#endif
#define OP_INSERT 0
#define OP_REMOVE 1
#define OP_LOOKUP 2
#define OP_FOREACH 3
#define OP_CLEAR 4
#define OP_LEMMA 5

#define N ((1 << H) - 1)          /* skeleton positions 1..N */
#define NK (2 * N + 1)            /* key ranks 1..NK (even = skeleton node, odd = gap) */
#define PH (H + 1)                /* post-state height bound after one insert */

#if TT == 0
typedef PTreeBaseNode NODE;
#define TREETYPE P_TREE_TYPE_BINARY
#elif TT == 1
typedef PTreeRBNode NODE;
#define TREETYPE P_TREE_TYPE_RB
#else
typedef PTreeAVLNode NODE;
#define TREETYPE P_TREE_TYPE_AVL
#endif
#define B(x) ((PTreeBaseNode *) (x))

#define KEY(rank, id) ((ppointer) (size_t) (((rank) << 8) | (id)))
#define VAL(rank, id) ((ppointer) (size_t) (0x10000 | ((rank) << 8) | (id)))
#define RANK(p) ((int) ((((size_t) (p)) >> 8) & 0xff))
#define ID(p) ((int) (((size_t) (p)) & 0xff))
#define ISVAL(p) ((int) ((((size_t) (p)) >> 16) & 1))
#define ID_OLD 1   /* pairs of the pre-state */
#define ID_NEW 2   /* pair passed to the operation */
#define ID_PROBE 3 /* keys only used for searching (remove / lookup argument) */

#define UDATA ((ppointer) (size_t) 0x7001)
#define UDATA2 ((ppointer) (size_t) 0x7002)

/* ---- comparator: total order on ranks, arbitrary magnitude, counts calls ---------------------- */
static int cmp_calls, cmp_mag = 1;
static int phase;                          /* 0: the operation under test, 1: the following p_tree_free */
static unsigned char kd[2][NK + 1][4], vd[2][NK + 1][4];   /* destroy-notifier call counts [phase][rank][id] */
static int nd_calls;

static pint cmp3(pconstpointer a, pconstpointer b, ppointer data) {
  cmp_calls++;
#if NEWMODE == 0
  VASSERT(data == NULL, "p_tree_new: comparator data is NULL");
#else
  VASSERT(data == UDATA, "comparator receives the user data given at creation");
#endif
  int ra = RANK(a), rb = RANK(b);
#ifdef CHK_OWN
  VASSERT(ra >= 1 && ra <= NK && rb >= 1 && rb <= NK && ID(a) <= 3 && ID(b) <= 3, "comparator only sees keys given by the user");
  VASSERT(kd[0][ra][ID(a)] == 0 && kd[0][rb][ID(b)] == 0, "no key is compared after its destroy notifier ran");
#endif
  return ra < rb ? -cmp_mag : (ra > rb ? cmp_mag : 0);
}

/* ---- destroy notifiers -------------------------------------------------------------------------- */
static void key_destroyed(ppointer k) {
  VASSERT(!ISVAL(k) && RANK(k) >= 1 && RANK(k) <= NK && ID(k) >= 1 && ID(k) <= 2, "key notifier gets a key that was given to the tree");
  kd[phase][RANK(k)][ID(k)]++;
  nd_calls++;
}
static void val_destroyed(ppointer v) {
  VASSERT(ISVAL(v) && RANK(v) >= 1 && RANK(v) <= NK && ID(v) >= 1 && ID(v) <= 2, "value notifier gets a value that was given to the tree");
  vd[phase][RANK(v)][ID(v)]++;
  nd_calls++;
}

/* ---- skeleton ------------------------------------------------------------------------------------ */
static int sk_depth(int i) { return i < 2 ? 0 : i < 4 ? 1 : i < 8 ? 2 : i < 16 ? 3 : i < 32 ? 4 : 5; }
/* in-order index (1..N) of skeleton position i in the complete tree of height H */
static int sk_inorder(int i) { int d = sk_depth(i); int j = i - (1 << d); return (2 * j + 1) * (1 << (H - 1 - d)); }
/* skeleton position of in-order index r (1..N) */
static int sk_pos(int r) {
  int d = H - 1, m = r;
  if (m % 2 == 0) { m /= 2; d--; } else goto done;
  if (m % 2 == 0) { m /= 2; d--; } else goto done;
  if (m % 2 == 0) { m /= 2; d--; } else goto done;
  if (m % 2 == 0) { m /= 2; d--; } else goto done;
  if (m % 2 == 0) { m /= 2; d--; }
done:
  return (1 << d) + (m - 1) / 2;
}

static NODE *nd[2 * N + 2];
static _Bool pres[2 * N + 2];
static int ht[2 * N + 2];         /* heights of the pre-state subtrees */
static int bhh[2 * N + 2];        /* black heights (RB) */
static int colr[2 * N + 2];
static int pre_n;

/* reference map */
static _Bool exp_pres[NK + 2];
static ppointer exp_key[NK + 2], exp_val[NK + 2];
static int exp_n;

static PTree *tree;

static void build_pre_state(void) {
  int i;
  for (i = 1; i <= N; i++) {
    pres[i] = ND_BOOL();
    if (i > 1) VASSUME(!pres[i] || pres[i / 2]);
  }
  pre_n = 0;
  for (i = 1; i <= N; i++) {
    if (pres[i]) { nd[i] = (NODE *) vm_malloc(sizeof(NODE)); pre_n++; } else nd[i] = NULL;
  }
  for (i = N; i >= 1; i--) {
    int l = 2 * i, r = 2 * i + 1;
    if (pres[i]) {
      int rank = 2 * sk_inorder(i);
      NODE *x = nd[i];
      B(x)->left = pres[l] ? B(nd[l]) : NULL;
      B(x)->right = pres[r] ? B(nd[r]) : NULL;
      B(x)->key = KEY(rank, ID_OLD);
      B(x)->value = VAL(rank, ID_OLD);
      exp_pres[rank] = 1; exp_key[rank] = B(x)->key; exp_val[rank] = B(x)->value;
      ht[i] = 1 + (ht[l] > ht[r] ? ht[l] : ht[r]);
#if TT == 1
      x->parent = i > 1 ? nd[i / 2] : NULL;
      colr[i] = ND_BOOL() ? P_TREE_RB_COLOR_RED : P_TREE_RB_COLOR_BLACK;
      x->color = (PTreeRBColor) colr[i];
      /* representation invariant: no red node has a red child, equal black height */
      if (colr[i] == P_TREE_RB_COLOR_RED) {
        VASSUME(!pres[l] || colr[l] == P_TREE_RB_COLOR_BLACK);
        VASSUME(!pres[r] || colr[r] == P_TREE_RB_COLOR_BLACK);
      }
      VASSUME(bhh[l] == bhh[r]);
      bhh[i] = bhh[l] + (colr[i] == P_TREE_RB_COLOR_BLACK ? 1 : 0);
      if (i == 1) VASSUME(colr[i] == P_TREE_RB_COLOR_BLACK);
#elif TT == 2
      x->parent = i > 1 ? nd[i / 2] : NULL;
      VASSUME(ht[l] - ht[r] >= -1 && ht[l] - ht[r] <= 1);
      x->balance_factor = ht[l] - ht[r];
#endif
    } else {
      ht[i] = 0; bhh[i] = 0;
    }
  }
  exp_n = pre_n;
}

/* ---- generic post-state checker (follows pointers from the root; knows nothing about the skeleton) */
static int g_cnt;
#if TT == 1
#define IS_RED(x) (((NODE *) (x))->color == P_TREE_RB_COLOR_RED)
#else
#define IS_RED(x) 0
#endif
/* returns height | black-height << 8 */
static int chk_end(PTreeBaseNode *x) {
  VASSERT(x == NULL, "post-state height <= H+1");
  return 0;
}
#define CHKBODY(NEXT) \
  if (x == NULL) return 0; \
  int r = RANK(x->key); \
  VASSERT(lo < r && r < hi, "BST order: every key strictly inside the bounds given by its ancestors"); \
  VASSERT(r <= NK && exp_pres[r], "stored key belongs to the reference map"); \
  VASSERT(x->key == exp_key[r], "stored key object = reference (replace stores the new key)"); \
  VASSERT(x->value == exp_val[r], "stored value = reference"); \
  g_cnt++; \
  CHK_TYPED \
  int a = NEXT(x->left, x, lo, r, IS_RED(x)); int b = NEXT(x->right, x, r, hi, IS_RED(x)); \
  int hl = a & 0xff, hr = b & 0xff; \
  CHK_BAL_TYPED \
  return (1 + (hl > hr ? hl : hr)) | ((BLACKS) << 8);

#if TT == 0
#define CHK_TYPED
#define CHK_BAL_TYPED
#define BLACKS 0
#elif TT == 1
#define CHK_TYPED \
  VASSERT(((NODE *) x)->parent == (NODE *) par, "RB parent link consistent"); \
  VASSERT(((NODE *) x)->color == P_TREE_RB_COLOR_RED || ((NODE *) x)->color == P_TREE_RB_COLOR_BLACK, "RB colour is red or black"); \
  VASSERT(!(parred && IS_RED(x)), "RB: no red node has a red child"); \
  VASSERT(par != NULL || !IS_RED(x), "RB: root is black");
#define CHK_BAL_TYPED \
  VASSERT((a >> 8) == (b >> 8), "RB: equal black height of both subtrees");
#define BLACKS ((a >> 8) + (IS_RED(x) ? 0 : 1))
#else
#define CHK_TYPED \
  VASSERT(((NODE *) x)->parent == (NODE *) par, "AVL parent link consistent");
#define CHK_BAL_TYPED \
  VASSERT(hl - hr >= -1 && hl - hr <= 1, "AVL: subtree heights differ by at most one"); \
  VASSERT(((NODE *) x)->balance_factor == hl - hr, "AVL: stored balance factor = left height - right height");
#define BLACKS 0
#endif

static int chk_e(PTreeBaseNode *x, PTreeBaseNode *par, int lo, int hi, int parred) { (void) par; (void) lo; (void) hi; (void) parred; return chk_end(x); }
static int chk5(PTreeBaseNode *x, PTreeBaseNode *par, int lo, int hi, int parred) { CHKBODY(chk_e) }
static int chk4(PTreeBaseNode *x, PTreeBaseNode *par, int lo, int hi, int parred) { CHKBODY(chk5) }
static int chk3(PTreeBaseNode *x, PTreeBaseNode *par, int lo, int hi, int parred) { CHKBODY(chk4) }
static int chk2(PTreeBaseNode *x, PTreeBaseNode *par, int lo, int hi, int parred) { CHKBODY(chk3) }
static int chk1(PTreeBaseNode *x, PTreeBaseNode *par, int lo, int hi, int parred) { CHKBODY(chk2) }
#if PH == 5
#define CHKROOT chk1
#elif PH == 4
#define CHKROOT chk2
#elif PH == 3
#define CHKROOT chk3
#else
#error "unsupported H"
#endif

/* depth bounds of the property statement: floor(1.44*log2(n+2)) (AVL), floor(2*log2(n+1)) (RB), n = 0..31 */
static const int avl_bound[32] = {1,2,2,3,3,4,4,4,4,4,5,5,5,5,5,5,6,6,6,6,6,6,6,6,6,6,6,6,6,7,7,7};
static const int rb_bound[32]  = {0,2,3,4,4,5,5,6,6,6,6,7,7,7,7,8,8,8,8,8,8,8,8,9,9,9,9,9,9,9,9,10};

static int post_height;
static void check_post_state(void) {
  g_cnt = 0;
  int r = CHKROOT(tree->root, NULL, 0, NK + 1, 0);
  post_height = r & 0xff;
  VASSERT(g_cnt == exp_n, "number of stored pairs = size of the reference map (with BST order + membership: in-order content = reference)");
  VASSERT(p_tree_get_nnodes(tree) == exp_n, "nnodes = number of distinct keys");
  VASSERT(vm_live == exp_n + 1, "one node block per stored pair (+ the tree object): nothing leaked, nothing else allocated");
#if defined(CHK_BAL) && TT == 2
  VASSERT(post_height <= avl_bound[exp_n], "AVL: height <= floor(1.44*log2(n+2))");
#elif defined(CHK_BAL) && TT == 1
  VASSERT(post_height <= rb_bound[exp_n], "RB: height <= floor(2*log2(n+1))");
#endif
}

/* exactly-once accounting over the whole run (operation + p_tree_free) */
static void check_notifier_counts(int leave_rank, int leave_id, int after_free) {
  int r, id;
  for (r = 1; r <= NK; r++)
    for (id = 1; id <= 2; id++) {
      int stored_ever = (id == ID_OLD) ? ((r % 2 == 0) && pres[sk_pos(r / 2)]) : 0;
#if OP == OP_INSERT
      if (id == ID_NEW && r == KPOS) stored_ever = 1;
#endif
      int leaves_now = (r == leave_rank && id == leave_id);
#if OP == OP_CLEAR
      leaves_now = stored_ever;
#endif
#if NEWMODE == 2
      VASSERT(kd[0][r][id] == (leaves_now ? 1 : 0), "key notifier during the operation: exactly the key that leaves the tree, once");
      VASSERT(vd[0][r][id] == (leaves_now ? 1 : 0), "value notifier during the operation: exactly the value that leaves the tree, once");
      if (after_free) {
        VASSERT(kd[0][r][id] + kd[1][r][id] == (stored_ever ? 1 : 0), "every key ever stored is destroyed exactly once overall");
        VASSERT(vd[0][r][id] + vd[1][r][id] == (stored_ever ? 1 : 0), "every value ever stored is destroyed exactly once overall");
      }
#else
      VASSERT(kd[0][r][id] + kd[1][r][id] + vd[0][r][id] + vd[1][r][id] == 0, "no notifiers given: none called");
      (void) leaves_now; (void) stored_ever; (void) after_free;
#endif
    }
}

/* ---- foreach callback ---------------------------------------------------------------------------- */
static int fe_n, fe_stop, fe_last, fe_stopped;
static pboolean fe_cb(ppointer key, ppointer value, ppointer ud) {
  int r = RANK(key), x;
  VASSERT(ud == UDATA2, "foreach passes the user data through");
  VASSERT(!fe_stopped, "foreach: callback not called again after it asked to stop");
  VASSERT(r > fe_last, "foreach: strictly ascending key order");
  VASSERT(r <= NK && exp_pres[r] && exp_key[r] == key && exp_val[r] == value, "foreach: visited pair is a stored pair");
  for (x = 1; x <= NK; x++) if (x > fe_last && x < r) VASSERT(!exp_pres[x], "foreach: no stored key skipped");
  fe_last = r;
  fe_n++;
  if (fe_n >= fe_stop) { fe_stopped = 1; return TRUE; }
  return FALSE;
}

static void make_tree(void) {
  vm_alloc_install();
#if NEWMODE == 0
  tree = p_tree_new(TREETYPE, (PCompareFunc) cmp3);
#elif NEWMODE == 1
  tree = p_tree_new_with_data(TREETYPE, cmp3, UDATA);
#else
  tree = p_tree_new_full(TREETYPE, cmp3, UDATA, key_destroyed, val_destroyed);
#endif
  VASSERT(tree != NULL, "tree created");
  VASSERT(p_tree_get_type(tree) == TREETYPE && p_tree_get_nnodes(tree) == 0, "new tree: type as requested, empty");
  cmp_mag = ND_INT();
  VASSUME(cmp_mag >= 1);
}

/* ---- the step -------------------------------------------------------------------------------------- */
#ifdef KPOS
#define KEVEN (KPOS % 2 == 0)
#endif

void harness(void) {
  int i;
  make_tree();
  build_pre_state();
  tree->root = pres[1] ? B(nd[1]) : NULL;
  tree->nnodes = pre_n;
  PTreeBaseNode *oldroot = tree->root;
  (void) oldroot; (void) i;

#if OP == OP_INSERT || OP == OP_REMOVE
  int kp = KEVEN ? sk_pos(KPOS / 2) : 0;                 /* skeleton position carrying rank KPOS (if even) */
  _Bool was = KEVEN ? pres[kp] : 0;
  _Bool twoch = was && pres[2 * kp] && pres[2 * kp + 1];
  _Bool onech = was && (pres[2 * kp] != pres[2 * kp + 1]);
#endif

#if OP == OP_INSERT
  p_tree_insert(tree, KEY(KPOS, ID_NEW), VAL(KPOS, ID_NEW));
  exp_pres[KPOS] = 1; exp_key[KPOS] = KEY(KPOS, ID_NEW); exp_val[KPOS] = VAL(KPOS, ID_NEW);
  exp_n = pre_n + (was ? 0 : 1);
  check_post_state();
#ifdef CHK_OWN
  check_notifier_counts(was ? KPOS : 0, ID_OLD, 0);
#endif
#elif OP == OP_REMOVE
#if defined(KF_OPEN_C14_two_child_remove) && NEWMODE == 2
  VASSUME(!twoch);   /* open finding: removal of a node with two children destroys the wrong pair */
#endif
#ifdef KF_DEMO
  VASSUME(twoch);
#endif
  pboolean ret = p_tree_remove(tree, KEY(KPOS, ID_PROBE));
  VASSERT(ret == (was ? TRUE : FALSE), "remove returns TRUE iff the key was stored");
  if (was) { exp_pres[KPOS] = 0; exp_n = pre_n - 1; }
  check_post_state();
#ifdef CHK_OWN
  check_notifier_counts(was ? KPOS : 0, ID_OLD, 0);
#endif
#endif

#if OP == OP_INSERT || OP == OP_REMOVE
#ifdef CHK_LOOKUP_AFTER
  { /* lookup of an arbitrary key after the operation = reference */
    int q = ND_RANGE(1, NK);
    ppointer got = p_tree_lookup(tree, KEY(q, ID_PROBE));
    VASSERT(got == (exp_pres[q] ? exp_val[q] : NULL), "lookup after the operation = reference map (other keys unchanged)");
  }
#endif
#ifdef FREE_AFTER
  phase = 1;
  p_tree_free(tree);
  VASSERT(vm_live == 0, "p_tree_free releases every node and the tree");
#ifdef CHK_OWN
  check_notifier_counts(was ? KPOS : 0, ID_OLD, 1);
#endif
#endif
  VWITNESS("step done");
#if OP == OP_INSERT
#if KPOS % 2 == 0
  if (was) VWITNESS("replace of a stored key");
#endif
  if (!was && pre_n == N - 1 && H > 1) VWITNESS("insert into a tree with all but one skeleton positions filled");
  if (!was && tree->root != oldroot && pre_n > 0 && TT != 0) VWITNESS("insert rotated at the root");
  if (!was && post_height == H + 1) VWITNESS("insert increased the height beyond H");
#else
#if KPOS % 2 == 0
  if (was && !twoch && !onech) VWITNESS("remove of a leaf");
#if (KPOS / 2) % 2 == 0
#if !(defined(KF_OPEN_C14_two_child_remove) && NEWMODE == 2)
  if (twoch) VWITNESS("remove of a node with two children");
#endif
#ifndef KF_DEMO
  if (onech) VWITNESS("remove of a node with one child");
#endif
#endif
#endif
#ifndef KF_DEMO
  if (!was) VWITNESS("remove of an absent key");
#endif
#endif
#endif

#if OP == OP_LOOKUP
  {
#ifdef KPOS
    int q = KPOS;
#else
    int q = ND_RANGE(1, NK);
#endif
    cmp_calls = 0;
    ppointer got = p_tree_lookup(tree, KEY(q, ID_PROBE));
    VASSERT(got == (exp_pres[q] ? exp_val[q] : NULL), "lookup = reference map value or NULL");
    VASSERT(cmp_calls <= ht[1], "lookup compares against at most height-many keys");
#if defined(CHK_BAL) && TT == 2
    VASSERT(ht[1] <= avl_bound[pre_n], "AVL invariant => height <= floor(1.44*log2(n+2))");
    VASSERT(cmp_calls <= avl_bound[pre_n], "AVL lookup: comparisons <= floor(1.44*log2(n+2))");
#elif defined(CHK_BAL) && TT == 1
    VASSERT(ht[1] <= rb_bound[pre_n], "RB invariant => height <= floor(2*log2(n+1))");
    VASSERT(cmp_calls <= rb_bound[pre_n], "RB lookup: comparisons <= floor(2*log2(n+1))");
#endif
    VASSERT(vm_live == pre_n + 1, "lookup allocates/frees nothing");
    VWITNESS("lookup done");
    if (got != NULL) VWITNESS("lookup hit");
    if (got == NULL && pre_n > 0) VWITNESS("lookup miss in a non-empty tree");
    if (ht[1] == H) VWITNESS("tree of full height H");
  }
#endif

#if OP == OP_FOREACH
  fe_stop = ND_RANGE(1, N + 1);
  p_tree_foreach(tree, fe_cb, UDATA2);
  VASSERT(fe_n == (fe_stop < pre_n ? fe_stop : pre_n), "foreach visits exactly the min(stop, n) smallest keys");
  /* tree unchanged, pointer for pointer */
  VASSERT(tree->root == oldroot && tree->nnodes == pre_n, "foreach leaves root and count unchanged");
  for (i = 1; i <= N; i++) if (pres[i]) {
    VASSERT(B(nd[i])->left == (pres[2 * i] ? B(nd[2 * i]) : NULL), "foreach leaves every left link unchanged");
    VASSERT(B(nd[i])->right == (pres[2 * i + 1] ? B(nd[2 * i + 1]) : NULL), "foreach leaves every right link unchanged (Morris threads removed)");
    VASSERT(B(nd[i])->key == KEY(2 * sk_inorder(i), ID_OLD) && B(nd[i])->value == VAL(2 * sk_inorder(i), ID_OLD), "foreach leaves pairs unchanged");
  }
  VASSERT(vm_live == pre_n + 1, "foreach allocates/frees nothing");
  VASSERT(nd_calls == 0, "foreach calls no destroy notifier");
  VWITNESS("foreach done");
  if (fe_stopped && fe_n < pre_n) VWITNESS("foreach stopped early");
  if (fe_stopped && fe_n < pre_n && fe_n >= 2) VWITNESS("foreach stopped early after >= 2 visits");
  if (!fe_stopped && pre_n == N) VWITNESS("foreach ran over the full skeleton");
#endif

#if OP == OP_CLEAR
  p_tree_clear(tree);
  VASSERT(tree->root == NULL, "clear empties the tree");
  VASSERT(p_tree_get_nnodes(tree) == 0, "clear: nnodes = 0");
  VASSERT(vm_live == 1, "clear releases every node block");
  VASSERT(p_tree_lookup(tree, KEY(2, ID_PROBE)) == NULL, "lookup in a cleared tree finds nothing");
#ifdef CHK_OWN
  check_notifier_counts(0, 0, 0);
#endif
  /* the cleared tree is usable: insert one pair */
  phase = 1;
  p_tree_free(tree);
  VASSERT(vm_live == 0, "free after clear releases the tree object");
  VASSERT(nd_calls == (NEWMODE == 2 ? 2 * pre_n : 0), "free after clear calls no further notifier");
  VWITNESS("clear done");
  if (pre_n == N) VWITNESS("clear of the full skeleton");
  if (pre_n == 0) VWITNESS("clear of the empty tree");
#endif
}
