/* C12/C13/C14 shared harness: ONE operation of the real PTree code from EVERY valid tree of
 * height <= H (inductive step), decided by the solver.
 *
 * Pre-state: built directly as individual heap node objects on the skeleton of the complete binary
 * tree of height H (positions 1..2^H-1, children 2i / 2i+1).  Symbolic: which positions are present
 * (closed under parent), RB colours / AVL balance factors (constrained by the representation
 * invariant).  Keys are order tokens: skeleton position i carries rank 2*inorder(i) (WLOG for a
 * total-order comparator: only comparison outcomes are observable; every (shape, relative position
 * of the operation key) pair is realised by some rank in 1..2N+1 -- odd = gap, even = skeleton node).
 * Key/value *identities* are distinct tokens (rank<<8 | id): the library must never dereference
 * them (integer addresses: any access is a CBMC pointer violation).
 *
 * The runner additionally fixes WHERE the search for the operation key ends: skeleton position PPOS
 * (1..2N+1; positions > N are the NULL links below the bottom level) and HIT (1: the key is stored at
 * PPOS, 0: the search falls off the tree at PPOS).  All ancestors of PPOS are then present, PPOS itself
 * is present iff HIT; everything else stays symbolic.  This is a complete case split (every search
 * ends somewhere) and makes the search path concrete for the symbolic executor.
 *
 * For removals of a stored key REMCASE also fixes the neighbourhood deciding which node is unlinked
 * (see fixed_presence).  Without PPOS (cheap for BST only) insert = replace of an arbitrary stored key and
 * remove = removal of an arbitrary absent key, position symbolic.
 *
 * compile-time parameters (runner): TT 0=BST 1=RB 2=AVL, H, OP (insert/remove/lookup/foreach/clear), PPOS, HIT, REMCASE,
 *   NEWMODE 0=p_tree_new 1=p_tree_new_with_data, p_tree_new_full with 2=both notifiers 3=key notifier only 4=value notifier only
 *   5=symbolic choice; REPLACE_SYM (replace: identity of the new key / value symbolic: fresh, the stored one, one stored elsewhere); NULLTOK (which key / value token is the NULL pointer), ALLOC_FAIL (the node allocation of the insert fails),
 *   CMP_MAG n (comparator returns -n/0/n) or SYM_MAG (symbolic magnitude), FIXA(i) (optional: fixed colour / balance factor
 *   of chosen positions), CHK_LOOKUP_BEFORE / CHK_LOOKUP_AFTER (lookup of an arbitrary key before / after the step), FREE_AFTER (p_tree_free after the
 *   step + exactly-once accounting), CHK_MAP / CHK_BAL / CHK_OWN assertion groups (C12 / C13 / C14). */
#ifndef H
#define H 3
#endif
#define OP_INSERT 0
#define OP_REMOVE 1
#define OP_LOOKUP 2
#define OP_FOREACH 3
#define OP_CLEAR 4

#define N ((1 << H) - 1)          /* skeleton positions 1..N */
#define NK (2 * N + 1)            /* key ranks 1..NK (even = skeleton node, odd = gap) */
#define PH ((H + 1) > 5 ? 5 : (H + 1))   /* post-state height bound after one insert (checker supports <= 5) */
#if H > 4 && (OP == 0 || OP == 1)
#error "insert/remove steps are supported up to H = 4"
#endif
#define IDMAX 2                   /* storable identities: 1 = pre-state pair, 2 = pair given to the operation */
#define NPHASE 2                  /* 0: the operation under test, 1: the following p_tree_free */
#define ID_OLD 1
#define ID_NEW 2
#ifdef PPOS
/* rank of the operation key: the rank of skeleton node PPOS, or the gap rank of NULL link PPOS > N */
#define KPOS (PPOS <= N ? 2 * sk_inorder(PPOS) : 2 * (PPOS - N - 1) + 1)
#ifndef HIT
#define HIT 0
#endif
#endif
#include "trees_common.h"

/* ---- skeleton ------------------------------------------------------------------------------------ */
static int sk_depth(int i) { return i < 2 ? 0 : i < 4 ? 1 : i < 8 ? 2 : i < 16 ? 3 : i < 32 ? 4 : 5; }
/* in-order index (1..N) of skeleton position i in the complete tree of height H */
static int sk_inorder(int i) { int d = sk_depth(i); int j = i - (1 << d); return (2 * j + 1) * (1 << (H - 1 - d)); }
/* skeleton position of in-order index r (1..N) */
static int sk_pos(int r) {
  int d = H - 1, m = r;
  if (m % 2 == 0) { m /= 2; d--; } else goto done;
  if (m % 2 == 0) { m /= 2; d--; } else goto done;
  if (m % 2 == 0) { m /= 2; d--; } else goto done;
  if (m % 2 == 0) { m /= 2; d--; } else goto done;
  if (m % 2 == 0) { m /= 2; d--; }
done:
  return (1 << d) + (m - 1) / 2;
}

/* presence fixed by the runner's case split: 1 / 0, or -1 = symbolic.
 * REMCASE (remove of a stored key only) additionally fixes the neighbourhood that decides WHICH node
 * gets unlinked: 0 = PPOS is a leaf, 1 = only a left child, 2 = only a right child,
 * 3+j = two children and the in-order predecessor is j steps to the right of the left child. */
static int fixed_presence(int i) {
#ifdef PPOS
  if (i == PPOS) return HIT;
  if (i == PPOS / 2 || i == PPOS / 4 || i == PPOS / 8 || i == PPOS / 16 || i == PPOS / 32) return 1;
#ifdef REMCASE
  if (REMCASE == 0) { if (i == 2 * PPOS || i == 2 * PPOS + 1) return 0; }
  else if (REMCASE == 1) { if (i == 2 * PPOS) return 1; if (i == 2 * PPOS + 1) return 0; }
  else if (REMCASE == 2) { if (i == 2 * PPOS) return 0; if (i == 2 * PPOS + 1) return 1; }
  else {
    int q = 2 * PPOS, j = REMCASE - 3;
    if (i == 2 * PPOS + 1) return 1;
    if (i == q) return 1;
    if (j >= 1) { q = 2 * q + 1; if (i == q) return 1; }
    if (j >= 2) { q = 2 * q + 1; if (i == q) return 1; }
    if (j >= 3) { q = 2 * q + 1; if (i == q) return 1; }
    if (i == 2 * q + 1) return 0;
  }
#endif
#endif
  (void) i;
  return -1;
}

/* optional further case split by the runner: colour (1 red / 2 black) or balance factor of chosen
 * skeleton positions, as an expression in i; -2 = not fixed (symbolic) */
#ifndef FIXA
#define FIXA(i) (-2)
#endif

static NODE *nd[2 * N + 2];
static _Bool pres[2 * N + 2];
static int ht[2 * N + 2];         /* heights of the pre-state subtrees */
static int bhh[2 * N + 2];        /* black heights (RB) */
static int colr[2 * N + 2];
static int pre_n;

static void build_pre_state(void) {
  int i;
  for (i = 1; i <= N; i++) {
    int f = fixed_presence(i);
    if (f >= 0) pres[i] = (_Bool) f; else pres[i] = ND_BOOL();
    if (i > 1) VASSUME(!pres[i] || pres[i / 2]);
  }
  pre_n = 0;
  for (i = 1; i <= N; i++) {
    /* every skeleton position is a separate heap object with a concrete address; only the present
     * ones are linked and counted in the allocator ledger */
    nd[i] = (NODE *) malloc(sizeof(NODE));
    __CPROVER_assume(nd[i] != NULL);
    if (pres[i]) { vm_live++; pre_n++; }
  }
  for (i = N; i >= 1; i--) {
    int l = 2 * i, r = 2 * i + 1;
    if (pres[i]) {
      int rank = 2 * sk_inorder(i);
      NODE *x = nd[i];
      B(x)->left = pres[l] ? B(nd[l]) : NULL;
      B(x)->right = pres[r] ? B(nd[r]) : NULL;
      B(x)->key = KEY(rank, ID_OLD);
      B(x)->value = VAL(rank, ID_OLD);
      exp_pres[rank] = 1; exp_key[rank] = B(x)->key; exp_val[rank] = B(x)->value;
      ht[i] = 1 + (ht[l] > ht[r] ? ht[l] : ht[r]);
#if TT == 1
      x->parent = i > 1 ? nd[i / 2] : NULL;
      colr[i] = FIXA(i) != -2 ? FIXA(i) : (ND_BOOL() ? P_TREE_RB_COLOR_RED : P_TREE_RB_COLOR_BLACK);
      x->color = (PTreeRBColor) colr[i];
      /* representation invariant: no red node has a red child, equal black height */
      if (colr[i] == P_TREE_RB_COLOR_RED) {
        VASSUME(!pres[l] || colr[l] == P_TREE_RB_COLOR_BLACK);
        VASSUME(!pres[r] || colr[r] == P_TREE_RB_COLOR_BLACK);
      }
      VASSUME(bhh[l] == bhh[r]);
      bhh[i] = bhh[l] + (colr[i] == P_TREE_RB_COLOR_BLACK ? 1 : 0);
      if (i == 1) VASSUME(colr[i] == P_TREE_RB_COLOR_BLACK);
#elif TT == 2
      x->parent = i > 1 ? nd[i / 2] : NULL;
      VASSUME(ht[l] - ht[r] >= -1 && ht[l] - ht[r] <= 1);
      if (FIXA(i) != -2) { VASSUME(ht[l] - ht[r] == FIXA(i)); x->balance_factor = FIXA(i); }
      else x->balance_factor = ht[l] - ht[r];
#endif
    } else {
      ht[i] = 0; bhh[i] = 0;
    }
  }
  exp_n = pre_n;
}

static int op_rank;   /* rank of the operation key */
/* objects handed to the tree by the operation under test, per token (an object inserted twice is owed two notifications:
 * one per stored occurrence, each at the call where that occurrence leaves the tree) */
static unsigned char add_k[NK + 1][IDMAX + 2], add_v[NK + 1][IDMAX + 2];
/* exactly-once accounting over the whole run (operation + p_tree_free) */
static void check_notifier_counts(int leave_rank, int leave_id, int after_free) {
  int r, id;
  for (r = 1; r <= NK; r++)
    for (id = 1; id <= 2; id++) {
      int stored_ever = (id == ID_OLD) ? ((r % 2 == 0) && pres[sk_pos(r / 2)]) : 0;   /* pre-state occurrence */
      int nk = stored_ever + add_k[r][id], nv = stored_ever + add_v[r][id];               /* occurrences ever stored */
      int leaves_now = (r == leave_rank && id == leave_id);
#if OP == OP_CLEAR
      leaves_now = stored_ever;
#endif
      /* per configured notifier: exactly-once accounting; an unconfigured side is never called (and, being integer tokens,
       * never touched: any access would be a pointer violation) */
      if (has_kn) {
        VASSERT(kd[0][r][id] == (leaves_now ? 1 : 0), "key notifier during the operation: exactly the key that leaves the tree, once");
        if (after_free) VASSERT(kd[0][r][id] + kd[1][r][id] == nk, "every key ever stored is destroyed exactly once overall (once per insertion of the object)");
      } else
        VASSERT(kd[0][r][id] + kd[1][r][id] == 0, "no key notifier given: none called");
      if (has_vn) {
        VASSERT(vd[0][r][id] == (leaves_now ? 1 : 0), "value notifier during the operation: exactly the value that leaves the tree, once");
        if (after_free) VASSERT(vd[0][r][id] + vd[1][r][id] == nv, "every value ever stored is destroyed exactly once overall (once per insertion of the object)");
      } else
        VASSERT(vd[0][r][id] + vd[1][r][id] == 0, "no value notifier given: none called");
    }
}

/* the tree is pointer-for-pointer and field-for-field the pre-state (failed / no-op calls) */
static void check_unchanged(PTreeBaseNode *oldroot) {
  int i;
  VASSERT(tree->root == oldroot && tree->nnodes == pre_n, "no-op call: root and count unchanged");
  for (i = 1; i <= N; i++) if (pres[i]) {
    VASSERT(B(nd[i])->left == (pres[2 * i] ? B(nd[2 * i]) : NULL) && B(nd[i])->right == (pres[2 * i + 1] ? B(nd[2 * i + 1]) : NULL),
            "no-op call: every link unchanged");
    VASSERT(B(nd[i])->key == KEY(2 * sk_inorder(i), ID_OLD) && B(nd[i])->value == VAL(2 * sk_inorder(i), ID_OLD), "no-op call: every pair unchanged");
#if TT == 1
    VASSERT(nd[i]->parent == (i > 1 ? nd[i / 2] : NULL) && (int) nd[i]->color == colr[i], "no-op call: parent links and colours unchanged");
#elif TT == 2
    VASSERT(nd[i]->parent == (i > 1 ? nd[i / 2] : NULL) && nd[i]->balance_factor == ht[2 * i] - ht[2 * i + 1], "no-op call: parent links and balance factors unchanged");
#endif
  }
  VASSERT(vm_live == pre_n + 1, "no-op call: nothing allocated or released");
  VASSERT(nd_calls == 0, "no-op call: no destroy notifier called");
}

/* ---- foreach callback ---------------------------------------------------------------------------- */
static int fe_n, fe_stop, fe_last, fe_stopped;
/* value by which the callback asks to stop: pboolean is a plain int and 'TRUE' means any non-zero value (2, -1, 0x100 ...);
 * 'continue' is exactly 0.  FE_STOPVAL n: fixed by the runner, else symbolic non-zero */
static pboolean fe_stopval = TRUE;
static int fe_stop_left = -1;   /* does the node at which the stop was requested have a left child? */
static pboolean fe_cb(ppointer key, ppointer value, ppointer ud) {
  int r = RANK(key), x;
  VASSERT(ud == UDATA2, "foreach passes the user data through");
  VASSERT(!fe_stopped, "foreach: callback not called again after it asked to stop");
  VASSERT(r > fe_last, "foreach: strictly ascending key order");
  VASSERT(r <= NK && exp_pres[r] && exp_key[r] == key && exp_val[r] == value, "foreach: visited pair is a stored pair");
  for (x = 1; x <= NK; x++) if (x > fe_last && x < r) VASSERT(!exp_pres[x], "foreach: no stored key skipped");
  fe_last = r;
  fe_n++;
  if (fe_n >= fe_stop) { fe_stopped = 1; fe_stop_left = (r % 2 == 0 && r / 2 >= 1 && r / 2 <= N) ? pres[2 * sk_pos(r / 2)] : 0; return fe_stopval; }
  return FALSE;
}

/* ---- the step -------------------------------------------------------------------------------------- */

void harness(void) {
  int i;
#ifdef NULLTOK
  /* one key token and one value token are the NULL pointer:
   * 1: the pre-state pair at the operation rank (the pair that is removed / replaced), 2: the pair given to the operation,
   * 3: the key of the root position and the value of its left child (lookup / foreach / clear) */
#if NULLTOK == 1
  zk_rank = zv_rank = KPOS; zk_id = zv_id = ID_OLD;
#elif NULLTOK == 2
  zk_rank = zv_rank = KPOS; zk_id = zv_id = ID_NEW;
#else
  zk_rank = 2 * sk_inorder(1); zv_rank = 2 * sk_inorder(2); zk_id = zv_id = ID_OLD;
#endif
#endif
  make_tree();
  build_pre_state();
  tree->root = pres[1] ? B(nd[1]) : NULL;
  tree->nnodes = pre_n;
  PTreeBaseNode *oldroot = tree->root;
  (void) oldroot; (void) i;

#if (OP == OP_INSERT || OP == OP_REMOVE) && defined(PPOS)
  /* the search for the operation key ends at skeleton position PPOS (fixed by the runner) */
  const int kpos = KPOS;
  const _Bool was = HIT;
  _Bool twoch = was && pres[2 * PPOS] && pres[2 * PPOS + 1];
  _Bool onech = was && (pres[2 * PPOS] != pres[2 * PPOS + 1]);
  VASSERT(HIT == 0 || PPOS <= N, "harness: a hit is only possible at a skeleton node");
#elif OP == OP_INSERT
  /* no PPOS: REPLACE of an arbitrary stored key (symbolic position; no structural change expected) */
  const int kpos = ND_RANGE(1, NK);
  const _Bool was = 1;
  VASSUME(exp_pres[kpos]);
#elif OP == OP_REMOVE
  /* no PPOS: remove of an arbitrary ABSENT key (symbolic position; nothing may change) */
  const int kpos = ND_RANGE(1, NK);
  const _Bool was = 0;
  VASSUME(!exp_pres[kpos]);
#endif
#if OP == OP_INSERT || OP == OP_REMOVE
  op_rank = kpos;
#endif

#if (OP == OP_INSERT || OP == OP_REMOVE) && defined(CHK_LOOKUP_BEFORE)
  { /* an arbitrary lookup (any key, by the stored key object itself or by an equal key) precedes the operation: lookups must not
     * leave state behind that a later call trips over */
    int q0 = ND_RANGE(1, NK);
    ppointer got0 = p_tree_lookup(tree, KEY(q0, ND_BOOL() ? ID_OLD : ID_PROBE));
    VASSERT(got0 == (exp_pres[q0] ? exp_val[q0] : NULL), "lookup before the operation = reference map");
  }
#endif

#if OP == OP_INSERT && defined(ALLOC_FAIL)
  /* the node allocation of an insert of a NEW key fails: p_tree_insert has no result, but the tree must be exactly the
   * pre-state (in particular still valid), the count unchanged, no notifier called (the caller keeps the pair) */
  VASSERT(!was, "harness: allocation failure is about inserts of a new key");
  fail_node_alloc = 1;
  p_tree_insert(tree, KEY(kpos, ID_NEW), VAL(kpos, ID_NEW));
  fail_node_alloc = 0;
  VASSERT(failed_allocs == 1, "insert of a new key asks for exactly one node");
  check_unchanged(oldroot);
  check_post_state();
#ifdef CHK_OWN
  check_notifier_counts(0, 0, 0);
#endif
#elif OP == OP_INSERT
  ppointer newkey = KEY(kpos, ID_NEW), newval = VAL(kpos, ID_NEW);
#if defined(REPLACE_SYM) && defined(PPOS) && HIT
  /* replace: the identity of the new pair is symbolic -- the new value is a fresh object, the very object already stored
   * under this key, or an object stored under ANOTHER key (shared value); the new key is a fresh object or the stored key
   * object itself.  Whatever is chosen, the occurrence that leaves the tree is notified at this call, the new occurrence
   * when it leaves (p_tree_free): one notification per insertion. */
  int nvsel = ND_RANGE(0, 2), nksel = ND_RANGE(0, 1), orank = ND_RANGE(1, NK);
  if (nvsel == 2) VASSUME(orank != kpos && exp_pres[orank]);
  if (nksel == 1) newkey = KEY(kpos, ID_OLD);
  if (nvsel == 1) newval = VAL(kpos, ID_OLD);
  if (nvsel == 2) newval = VAL(orank, ID_OLD);
  add_k[kpos][nksel == 1 ? ID_OLD : ID_NEW]++;
  if (nvsel == 2) add_v[orank][ID_OLD]++; else add_v[kpos][nvsel == 1 ? ID_OLD : ID_NEW]++;
#else
  add_k[kpos][ID_NEW]++; add_v[kpos][ID_NEW]++;
#endif
  p_tree_insert(tree, newkey, newval);
  exp_pres[kpos] = 1; exp_key[kpos] = newkey; exp_val[kpos] = newval;
  exp_n = pre_n + (was ? 0 : 1);
  check_post_state();
#ifdef CHK_OWN
  check_notifier_counts(was ? kpos : 0, ID_OLD, 0);
#endif
#elif OP == OP_REMOVE
#if defined(KF_OPEN_C14_two_child_remove) && NEWMODE >= 2 && defined(PPOS)
  VASSUME(!twoch);   /* open finding: removal of a node with two children destroys the wrong pair */
#endif
#ifdef NULLTOK
  pboolean ret = p_tree_remove(tree, KEY(kpos, ID_OLD));     /* by the stored key object itself (the NULL pointer when NULLTOK == 1) */
#else
  pboolean ret = p_tree_remove(tree, KEY(kpos, ID_PROBE));
#endif
  VASSERT(ret == (was ? TRUE : FALSE), "remove returns TRUE iff the key was stored");
  if (was) { exp_pres[kpos] = 0; exp_n = pre_n - 1; }
  check_post_state();
#ifdef CHK_OWN
  check_notifier_counts(was ? kpos : 0, ID_OLD, 0);
#endif
#endif

#if OP == OP_INSERT || OP == OP_REMOVE
#if !defined(PPOS)
  /* replace / unsuccessful remove leave the structure pointer-for-pointer unchanged */
  VASSERT(tree->root == oldroot, "replace / unsuccessful remove: root unchanged");
  for (i = 1; i <= N; i++) if (pres[i]) {
    VASSERT(B(nd[i])->left == (pres[2 * i] ? B(nd[2 * i]) : NULL) && B(nd[i])->right == (pres[2 * i + 1] ? B(nd[2 * i + 1]) : NULL),
            "replace / unsuccessful remove: links unchanged");
  }
#endif
#ifdef CHK_LOOKUP_AFTER
  { /* lookup of an arbitrary key after the operation = reference */
    int q = ND_RANGE(1, NK);
    int qid = ND_RANGE(ID_OLD, ID_PROBE);      /* by the stored key object itself or by an equal key */
    ppointer got = p_tree_lookup(tree, KEY(q, qid));
    VASSERT(got == (exp_pres[q] ? exp_val[q] : NULL), "lookup after the operation = reference map (other keys unchanged)");
  }
#endif
#ifdef FREE_AFTER
  phase = 1;
  p_tree_free(tree);
  VASSERT(vm_live == 0, "p_tree_free releases every node and the tree");
#ifdef CHK_OWN
  check_notifier_counts(was ? kpos : 0, ID_OLD, 1);
#endif
#endif
  VWITNESS("step done");
  witness_notifier_config();
#if !defined(PPOS)
  if (pre_n == N) VWITNESS("operation on the full skeleton");
  if (kpos == 2) VWITNESS("operation key is the smallest skeleton rank");
#elif OP == OP_INSERT
#if HIT
  VWITNESS("replace of a stored key");
#ifdef REPLACE_SYM
  if (nvsel == 0 && nksel == 0) VWITNESS("replace by a fresh key object and a fresh value");
  if (nvsel == 1) VWITNESS("replace by the very value object already stored under the key");
  if (nksel == 1) VWITNESS("replace by the stored key object itself");
  if (nvsel == 2) VWITNESS("replace by a value object that is also stored under another key");
#endif
#elif defined(ALLOC_FAIL)
  VWITNESS("insert of a new key whose node allocation fails");
#else
  VWITNESS("insert of a new key");
#endif
#else
#if HIT
#if REMCASE == 0
  VASSERT(!twoch && !onech, "harness: leaf case");
  VWITNESS("remove of a leaf");
#elif REMCASE <= 2
  VASSERT(onech, "harness: one-child case");
  VWITNESS("remove of a node with one child");
#else
  VASSERT(twoch, "harness: two-children case");
  VWITNESS("remove of a node with two children");
#endif
#else
  VWITNESS("remove of an absent key");
#endif
#endif
#endif

#if OP == OP_LOOKUP
  {
#ifdef PPOS
    int q = KPOS;
#else
    int q = ND_RANGE(1, NK);
#endif
    int qid = ND_RANGE(ID_OLD, ID_PROBE);     /* by the stored key object itself (possibly the NULL pointer) or by an equal key */
    cmp_calls = 0;
    ppointer got = p_tree_lookup(tree, KEY(q, qid));
    VASSERT(got == (exp_pres[q] ? exp_val[q] : NULL), "lookup = reference map value or NULL");
    VASSERT(cmp_calls <= ht[1], "lookup compares against at most height-many keys");
#if defined(CHK_BAL) && TT == 2
    VASSERT(ht[1] <= avl_bound[pre_n], "AVL invariant => height <= floor(1.44*log2(n+2))");
    VASSERT(cmp_calls <= avl_bound[pre_n], "AVL lookup: comparisons <= floor(1.44*log2(n+2))");
#elif defined(CHK_BAL) && TT == 1
    VASSERT(ht[1] <= rb_bound[pre_n], "RB invariant => height <= floor(2*log2(n+1))");
    VASSERT(cmp_calls <= rb_bound[pre_n], "RB lookup: comparisons <= floor(2*log2(n+1))");
#endif
    VASSERT(vm_live == pre_n + 1, "lookup allocates/frees nothing");
    VWITNESS("lookup done");
    if (got != NULL) VWITNESS("lookup hit");
    if (got == NULL && pre_n > 0) VWITNESS("lookup miss in a non-empty tree");
    if (ht[1] == H) VWITNESS("tree of full height H");
  }
#endif

#if OP == OP_FOREACH
  fe_stop = ND_RANGE(1, N + 1);
#ifdef FE_STOPVAL
  fe_stopval = (pboolean) (FE_STOPVAL);
#else
  fe_stopval = (pboolean) ND_INT();
  VASSUME(fe_stopval != 0);
#endif
  p_tree_foreach(tree, fe_cb, UDATA2);
  VASSERT(fe_n == (fe_stop < pre_n ? fe_stop : pre_n), "foreach visits exactly the min(stop, n) smallest keys");
  /* tree unchanged, pointer for pointer */
  VASSERT(tree->root == oldroot && tree->nnodes == pre_n, "foreach leaves root and count unchanged");
  for (i = 1; i <= N; i++) if (pres[i]) {
    VASSERT(B(nd[i])->left == (pres[2 * i] ? B(nd[2 * i]) : NULL), "foreach leaves every left link unchanged");
    VASSERT(B(nd[i])->right == (pres[2 * i + 1] ? B(nd[2 * i + 1]) : NULL), "foreach leaves every right link unchanged (Morris threads removed)");
    VASSERT(B(nd[i])->key == KEY(2 * sk_inorder(i), ID_OLD) && B(nd[i])->value == VAL(2 * sk_inorder(i), ID_OLD), "foreach leaves pairs unchanged");
  }
  VASSERT(vm_live == pre_n + 1, "foreach allocates/frees nothing");
  VASSERT(nd_calls == 0, "foreach calls no destroy notifier");
  VWITNESS("foreach done");
  witness_notifier_config();
  if (fe_stopped && fe_n < pre_n) VWITNESS("foreach stopped early");
  if (fe_stopped && fe_n < pre_n && fe_stop_left == 1) VWITNESS("foreach stopped early at a node that has a left child (thread-return branch)");
  if (fe_stopped && fe_n < pre_n && fe_stop_left == 0) VWITNESS("foreach stopped early at a node without a left child");
#ifndef FE_STOPVAL
  if (fe_stopped && fe_n < pre_n && fe_stopval != TRUE) VWITNESS("foreach stopped early by a non-zero value other than TRUE");
#endif
  if (fe_stopped && fe_n < pre_n && fe_n >= 2) VWITNESS("foreach stopped early after >= 2 visits");
  if (!fe_stopped && pre_n == N) VWITNESS("foreach ran over the full skeleton");
#endif

#if OP == OP_CLEAR
  p_tree_clear(tree);
  VASSERT(tree->root == NULL, "clear empties the tree");
  VASSERT(p_tree_get_nnodes(tree) == 0, "clear: nnodes = 0");
  VASSERT(vm_live == 1, "clear releases every node block");
  VASSERT(p_tree_lookup(tree, KEY(2, ID_PROBE)) == NULL, "lookup in a cleared tree finds nothing");
#ifdef CHK_OWN
  check_notifier_counts(0, 0, 0);
#endif
  /* the cleared tree is usable: insert one pair */
  phase = 1;
  p_tree_free(tree);
  VASSERT(vm_live == 0, "free after clear releases the tree object");
  VASSERT(nd_calls == ((has_kn ? 1 : 0) + (has_vn ? 1 : 0)) * pre_n, "free after clear calls no further notifier");
  VWITNESS("clear done");
  witness_notifier_config();
  if (pre_n == N) VWITNESS("clear of the full skeleton");
  if (pre_n == 0) VWITNESS("clear of the empty tree");
#endif
}
