/* C10 modes and timeouts: ONE library call that cannot proceed at the moment it is made
 * OP 1 p_socket_receive (connected stream, nothing queued)      2 p_socket_send (peer's queue full)
 *    3 p_socket_accept (nothing pending)                         4 p_socket_connect (handshake pending)
 *    5 p_socket_io_condition_wait (POLLIN on empty / POLLOUT on full)   6 p_socket_receive_from (datagram, nothing queued)
 * with symbolic blocking flag, symbolic timeout argument (any int: negative values mean "none"),
 * poll interrupted by signals at symbolic points (<= FAULTS, each advancing the model clock by an
 * arbitrary part of the poll timeout) and a peer that may or may not act while the call waits.
 * Oracle (model clock, lower bounds only):
 *   blocking, T > 0 : a TIMED_OUT failure only after >= T ms on the clock, also across interrupted polls;
 *   blocking, T = 0 : never TIMED_OUT, every poll is made with an infinite timeout (the call returns only
 *                     because the peer acted or for a real error);
 *   non-blocking    : returns at once - no poll, no clock advance - with WOULD_BLOCK (connect: IN_PROGRESS);
 *                     only p_socket_io_condition_wait itself waits, bounded by T as above;
 *   success only if the operation really could proceed (the peer acted). */
#include "C09_common.h"

#ifndef OP
#define OP 1
#endif

void harness(void) {
  vm_alloc_install(); vs_reset();
  p_socket_init_once();
#ifdef FAMILY
  const int fam = FAMILY;
#else
  int fam = ND_BOOL() ? AF_INET : AF_INET6;
#endif
  struct sockaddr_storage sl;
  int len = nd_native(fam, &sl);
  PSocketAddress *addr = p_socket_address_new_from_native(&sl, (psize) len);
  VASSERT(addr != NULL, "address");
  int a, b = -1;
  _Bool want_in = 1;
#if OP == 1 || OP == 2 || OP == 5
  a = vs_mkfd(SOCK_STREAM, fam); b = vs_mkfd(SOCK_STREAM, fam); vs_pair(a, b);
#if OP == 5
  want_in = ND_BOOL();
#elif OP == 2
  want_in = 0;
#endif
  if (!want_in) { VFD(rx_len, b) = VS_CAP; for (int k = 0; k < VS_CAP; k++) VFD(rx, b)[k] = ND_UCHAR(); }
  vs.env_mask = (1 << VS_ENV_DATA) | (1 << VS_ENV_DRAIN) | (1 << VS_ENV_PEERCLOSE);
  vs.env_kind = ND_BOOL() ? (want_in ? VS_ENV_DATA : VS_ENV_DRAIN) : VS_ENV_NONE;
#elif OP == 3
  a = vs_mkfd(SOCK_STREAM, fam); vs_set_local(a, &sl, len); VFD(listening, a) = 1; VFD(backlog, a) = 5;
  vs.env_mask = 1 << VS_ENV_CONN;
  vs.env_kind = ND_BOOL() ? VS_ENV_CONN : VS_ENV_NONE;
  vs_preconn(a);
#elif OP == 4
  b = vs_mkfd(SOCK_STREAM, fam); vs_set_local(b, &sl, len); VFD(listening, b) = 1; VFD(backlog, b) = 5;
  a = vs_mkfd(SOCK_STREAM, fam);
#else
  a = vs_mkfd(SOCK_DGRAM, fam); vs_set_local(a, &sl, len);
  vs.env_mask = 1 << VS_ENV_DATA;
  vs.env_kind = ND_BOOL() ? VS_ENV_DATA : VS_ENV_NONE;
#endif
  vs.env_fd = a;
  vs.env_len = ND_RANGE(1, VS_CAP);
  for (int k = 0; k < VS_CAP; k++) vs.env_data[k] = ND_UCHAR();
  /* the wrapped descriptor may already have SO_KEEPALIVE on */
  _Bool ka0 = ND_BOOL(), ka1 = ND_BOOL();
  VFD(keepalive, a) = ka0;
  PSocket *S = p_socket_new_from_fd(a, NULL);
  VASSERT(S != NULL, "socket from descriptor");
  VASSERT((p_socket_get_keepalive(S) != 0) == ka0, "get_keepalive of a wrapped descriptor = the descriptor's SO_KEEPALIVE option");
  p_socket_set_keepalive(S, nd_pbool(ka1));
  VASSERT(VFD(keepalive, a) == ka1 && (p_socket_get_keepalive(S) != 0) == ka1, "set_keepalive(v): descriptor option and getter = truth(v)");
  _Bool blocking = ND_BOOL();
  int targ = ND_INT();
  p_socket_set_blocking(S, nd_pbool(blocking));
  p_socket_set_timeout(S, targ);
  const int T = targ < 0 ? 0 : targ;
  VASSERT(p_socket_get_timeout(S) == T && (p_socket_get_blocking(S) != 0) == blocking, "getters reflect the mode calls");
  VASSUME(T <= 1000000);

  unsigned char buf[VS_CAP];
  for (int k = 0; k < VS_CAP; k++) buf[k] = ND_UCHAR();
  PError *err = NULL;
  PSocketAddress *from = NULL;
  PSocket *X = NULL;
  long long clock0 = vs.clock;
  vs_begin_call(FAULTS, VS_M_EINTR);
  vs.nb_call = !blocking && OP != 5;      /* (io_condition_wait is the documented way to wait on a non-blocking socket) */
  long r;
#if OP == 1
  r = p_socket_receive(S, (pchar *) buf, VS_CAP, &err);
#elif OP == 2
  r = p_socket_send(S, (const pchar *) buf, (psize) ND_RANGE(1, VS_CAP), &err);
#elif OP == 3
  X = p_socket_accept(S, &err); r = X ? 0 : -1;
#elif OP == 4
  r = p_socket_connect(S, addr, &err) ? 0 : -1;
#elif OP == 5
  r = p_socket_io_condition_wait(S, want_in ? P_SOCKET_IO_CONDITION_POLLIN : P_SOCKET_IO_CONDITION_POLLOUT, &err) ? 0 : -1;
#else
  r = p_socket_receive_from(S, &from, (pchar *) buf, VS_CAP, &err);
#endif
  long long elapsed = vs.clock - clock0;
  const _Bool waits = blocking || OP == 5;      /* io_condition_wait waits in either mode */

  if (r >= 0) {
    VASSERT(err == NULL, "no error on success");
#if OP == 4
    VASSERT(VFD(connected, a) && p_socket_is_connected(S) && blocking, "connect reports success only when the handshake is over");
#else
    VASSERT(vs.env_fired, "the call succeeds only because the peer acted");
    VASSERT(waits, "and only a waiting call can have seen that");
#endif
  } else {
    VASSERT(err != NULL, "failure sets an error");
    int code = ERR_CODE(err), nat = ERR_NATIVE(err);
    if (!waits) {
      VASSERT(code == (OP == 4 ? P_ERROR_IO_IN_PROGRESS : P_ERROR_IO_WOULD_BLOCK), "non-blocking: would-block / in-progress");
      VASSERT(OP == 4 ? (nat == EINPROGRESS || nat == EALREADY) : nat == EAGAIN, "native code of the would-block condition");
    } else {
      VASSERT(code == P_ERROR_IO_TIMED_OUT, "a waiting call that cannot proceed fails with TIMED_OUT only");
      VASSERT(T > 0, "never TIMED_OUT without a timeout");
      VASSERT(elapsed >= T, "TIMED_OUT not before the timeout has elapsed");
    }
    ERR_FREE(err);
  }
  if (!waits) VASSERT(vs.npoll == 0 && elapsed == 0, "non-blocking call returns at once: no poll, no time");
  if (waits && T == 0) VASSERT(vs.npoll >= 1 && vs.npoll_inf == vs.npoll, "no timeout: every poll waits indefinitely");
  if (waits && T > 0) VASSERT(vs.npoll_inf == 0, "with a timeout no poll waits indefinitely");
  VASSERT(vs.bad_access == 0, "only open descriptors");

  if (X) { VASSERT(VFD(cloexec, p_socket_get_fd(X)), "accepted descriptor is close-on-exec"); p_socket_free(X); }
  if (from) p_socket_address_free(from);
  p_socket_free(S);
  p_socket_address_free(addr);
  VASSERT(vm_live == 0 && !VFD(open, a) && vs.bad_close == 0, "released");
  VWITNESS("end");
  if (r < 0 && waits && vs.nfaults == FAULTS) VWITNESS("timed out after the full number of interrupted polls");
#if OP != 5
  if (r < 0 && !blocking) VWITNESS("non-blocking would-block");
#endif
  if (r >= 0 && T == 0) VWITNESS("indefinite wait ended by the peer");
  if (r >= 0 && T > 0 && vs.nfaults > 0) VWITNESS("timed wait ended by the peer after an interrupted poll");
}
