/* C16 (c) p_strtod (the locale-free conversion behind p_ini_file_parameter_double) on every string of
 * <= DLEN characters over [0-9 . e E + -]: if the string is a decimal number in the documented
 * notation (sign? digits* [. digits*] [e|E sign? digits+], at least one mantissa digit) with at most 4
 * mantissa digits and a decimal exponent of magnitude <= 22, the result is within relative 1e-14 of
 * M * 10^e computed with ONE correctly rounded IEEE operation from exact operands (M < 10^4 and
 * 10^|e| <= 10^22 are exact doubles).  -DSHAPE=k splits by the position of the exponent marker. */
#include "verif.h"
#include "alloc.h"
#include <pmem.h>
#include <pstring.h>
#ifndef DLEN
#define DLEN 5
#endif
static const double P10[23] = {1e0, 1e1, 1e2, 1e3, 1e4, 1e5, 1e6, 1e7, 1e8, 1e9, 1e10, 1e11, 1e12, 1e13, 1e14, 1e15, 1e16, 1e17, 1e18,
                               1e19, 1e20, 1e21, 1e22};
static int dig(char c) { return c >= '0' && c <= '9'; }
void harness(void) {
  char s[DLEN + 1];
  int i, k, n = DLEN, neg = 0, eneg = 0, nd = 0, fd = 0, M = 0, E = 0, ed = 0, ok = 1, e10;
  double r, expect, diff, mag;
  vm_alloc_install();
  for (i = 0; i < DLEN; i++) {
    char c = (char) ND_UCHAR();
    VASSUME(c == 0 || dig(c) || c == '.' || c == 'e' || c == 'E' || c == '+' || c == '-');
    s[i] = c;
  }
  s[DLEN] = '\0';
  for (i = DLEN - 1; i >= 0; i--) if (s[i] == '\0') n = i;
#ifdef SHAPE
  /* split: SHAPE = index of the exponent marker, DLEN = no exponent marker */
  for (i = 0; i < DLEN; i++) if (i < n) { if (i == SHAPE) VASSUME(s[i] == 'e' || s[i] == 'E'); else VASSUME(s[i] != 'e' && s[i] != 'E'); }
  if (SHAPE < DLEN) VASSUME(n > SHAPE);
#endif
  /* reference scan (independent of p_strtod's structure: one pass with an explicit state) */
  i = 0;
  if (i < n && (s[i] == '-' || s[i] == '+')) { neg = s[i] == '-'; i++; }
  for (k = 0; k < DLEN; k++) if (k == i && i < n && dig(s[i])) { M = M * 10 + (s[i] - '0'); nd++; i++; }
  if (i < n && s[i] == '.') {
    i++;
    for (k = 0; k < DLEN; k++) if (k == i && i < n && dig(s[i])) { M = M * 10 + (s[i] - '0'); nd++; fd++; i++; }
  }
  if (nd == 0) ok = 0;
  if (i < n && (s[i] == 'e' || s[i] == 'E')) {
    i++;
    if (i < n && (s[i] == '-' || s[i] == '+')) { eneg = s[i] == '-'; i++; }
    for (k = 0; k < DLEN; k++) if (k == i && i < n && dig(s[i])) { E = E * 10 + (s[i] - '0'); ed++; i++; }
    if (ed == 0) ok = 0;
  }
  if (i != n) ok = 0;            /* trailing garbage */
  e10 = (eneg ? -E : E) - fd;
  r = p_strtod(s);
  if (ok && nd <= 4 && e10 >= -22 && e10 <= 22) {
    double p10 = 1.0;
    for (k = 0; k <= 22; k++) if (k == (e10 < 0 ? -e10 : e10)) p10 = P10[k];     /* select first: ONE division / multiplication circuit */
    expect = e10 < 0 ? (double) M / p10 : (double) M * p10;
    if (neg) expect = -expect;
    diff = r - expect; if (diff < 0) diff = -diff;
    mag = expect < 0 ? -expect : expect;
    VASSERT(diff <= 1e-14 * mag, "p_strtod: decimal notation converts to the number it denotes (relative error <= 1e-14)");
    if (M == 0) VASSERT(r == 0.0, "p_strtod: zero mantissa gives zero");
    if (M > 0) VWITNESS("a non-zero number in the documented notation was compared");
#ifdef WIT_POINT
    if (fd > 0 && M > 0) VWITNESS("number with a decimal point");
    if (neg && M > 0) VWITNESS("negative number");
#endif
#ifdef WIT_EXP
    if (ed > 0 && eneg && M > 0) VWITNESS("negative exponent");
    if (ed > 0 && !eneg && E > 0 && M > 0) VWITNESS("positive exponent");
#endif
  }
  VWITNESS("end of harness");
}
