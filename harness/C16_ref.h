/* Reference INI reader written from the documentation in src/pinifile.h (NOT from pinifile.c):
 *   - a section starts with a line "[name]"; following "key = value" lines belong to it; sections
 *     without keys are skipped;
 *   - a value is split off at the FIRST '='; surrounding blanks are removed; a value may be enclosed in
 *     "" or '' (then ';' and '#' inside belong to the value); everything after ';' or '#' outside
 *     quotes is a comment; a line whose first non-blank character is ';' or '#' is a comment line;
 *   - repeated key in a section: the last assignment is used;
 *   - lines before the first section contribute nothing;
 *   - a UTF-8 byte-order mark at the beginning of the file is skipped.
 * Lines on which the documentation is silent or ambiguous are classified R_UNSPEC and the harness
 * does not compare such files (they are still covered by the robustness queries):
 *   NUL or \r \v \f in the line; first byte of the line 0xEF/0xFE/0xFF (BOM look-alike) other than the file-initial UTF-8 BOM;
 *   '[' line that does not end in ']', or whose name is empty or contains ']' ';' '#';
 *   non-comment line without '='; empty key; key containing ';' or '#';
 *   empty unquoted value; opening quote without closing quote; text other than a comment after the
 *   closing quote; quoted text with leading/trailing blanks (the documentation does not say whether
 *   blanks inside quotes are kept); a second section with the name of an earlier one. */
#ifndef C16_REF_H
#define C16_REF_H
#ifndef RL
#define RL (MAXLINE + 1)        /* longest line body + NUL */
#endif
#ifndef RNS
#define RNS 3                   /* sections in the reference store */
#endif
#ifndef RNK
#define RNK 3                   /* assignments per section */
#endif
enum { R_NOTHING, R_SECTION, R_KEY, R_UNSPEC };
typedef struct { int kind; char key[RL]; char val[RL]; } RLine;
typedef struct { char name[RL]; int nk; char k[RNK][RL]; char v[RNK][RL]; } RSec;
static RSec r_sec[RNS];
static int r_ns, r_cur = -1, r_unspec, r_overflow, r_comment_eq, r_quoted_pair;

static int r_blank(char c) { return c == ' ' || c == '\t'; }
static int r_streq(const char *a, const char *b) {
  int i;
  for (i = 0; i < RL; i++) { if (a[i] != b[i]) return 0; if (a[i] == '\0') return 1; }
  return 1;
}
/* out[] = l[a..b) */
static void r_copy(char *out, const char *l, int a, int b) {
  int i;
  for (i = 0; i < RL; i++) out[i] = (i < b - a) ? l[a + i] : '\0';
}

/* classify one line body l[0..len), len <= MAXLINE, no '\n' inside */
static void r_line(const char *l, int len, RLine *o) {
  int i, a, b, eq, ra, cut, close, has;
  o->kind = R_UNSPEC; o->key[0] = '\0'; o->val[0] = '\0';
  for (i = 0; i < RL - 1; i++) if (i < len && (l[i] == '\0' || l[i] == '\r' || l[i] == '\v' || l[i] == '\f')) return;
  if (len > 0 && (l[0] == (char) 0xEF || l[0] == (char) 0xFE || l[0] == (char) 0xFF)) return;
  a = 0; for (i = 0; i < RL - 1; i++) if (i == a && i < len && r_blank(l[i])) a++;
  b = len; for (i = RL - 2; i >= 0; i--) if (i == b - 1 && i >= a && r_blank(l[i])) b--;
  if (a >= b) { o->kind = R_NOTHING; return; }
  if (l[a] == ';' || l[a] == '#') {
    /* comment line.  Class of the open finding C16_comment_line_key: the comment contains '=' and the
     * first character after it (blanks skipped) exists and is not ';' or '#' (then one of the parser's
     * key=value patterns matches and the comment is stored as a key) */
    eq = -1; for (i = RL - 2; i >= 0; i--) if (i >= a && i < b && l[i] == '=') eq = i;
    has = 0;
    if (eq >= 0) {
      ra = eq + 1; for (i = 0; i < RL - 1; i++) if (i == ra && i < b && r_blank(l[i])) ra++;
      for (i = 0; i < RL - 1; i++) if (i == ra && i < b && l[i] != ';' && l[i] != '#') has = 1;
    }
    if (has) r_comment_eq = 1;
#ifdef KF_OPEN_C16_comment_line_key
    if (has) return;             /* excluded while the finding is open */
#endif
    o->kind = R_NOTHING; return;
  }
  if (l[a] == '[') {
    int na = a + 1, nb = b - 1;
    if (l[b - 1] != ']' || b - a < 2) return;
    for (i = 0; i < RL - 1; i++) if (i >= na && i < nb && (l[i] == ']' || l[i] == ';' || l[i] == '#')) return;
    for (i = 0; i < RL - 1; i++) if (i == na && i < nb && r_blank(l[i])) na++;
    for (i = RL - 2; i >= 0; i--) if (i == nb - 1 && i >= na && r_blank(l[i])) nb--;
    if (na >= nb) return;
    r_copy(o->key, l, na, nb);
    o->kind = R_SECTION; return;
  }
  eq = -1; for (i = RL - 2; i >= 0; i--) if (i >= a && i < b && l[i] == '=') eq = i;
  if (eq < 0) return;
  { /* key */
    int ka = a, kb = eq;
    for (i = RL - 2; i >= 0; i--) if (i == kb - 1 && i >= ka && r_blank(l[i])) kb--;
    if (ka >= kb) return;
    for (i = 0; i < RL - 1; i++) if (i >= ka && i < kb && (l[i] == ';' || l[i] == '#')) return;
    r_copy(o->key, l, ka, kb);
  }
  ra = eq + 1; for (i = 0; i < RL - 1; i++) if (i == ra && i < b && r_blank(l[i])) ra++;
  if (ra >= b) return;
  if (l[ra] == '"' || l[ra] == '\'') {
    close = -1; for (i = RL - 2; i >= 0; i--) if (i > ra && i < b && l[i] == l[ra]) close = i;
    if (close < 0) return;
    if (close > ra + 1 && (r_blank(l[ra + 1]) || r_blank(l[close - 1]))) return;
    cut = close + 1; for (i = 0; i < RL - 1; i++) if (i == cut && i < b && r_blank(l[i])) cut++;
    if (cut < b && l[cut] != ';' && l[cut] != '#') return;
    if (close == ra + 3 && l[ra + 1] == l[ra + 2] && (l[ra + 1] == '"' || l[ra + 1] == '\'')) {
      r_quoted_pair = 1;
#ifdef KF_OPEN_C16_quoted_empty_pair
      return;                    /* open finding: '""' / "''" (excluded class) */
#endif
    }
    r_copy(o->val, l, ra + 1, close);
    o->kind = R_KEY; return;
  }
  cut = b; for (i = RL - 2; i >= 0; i--) if (i >= ra && i < b && (l[i] == ';' || l[i] == '#')) cut = i;
  for (i = RL - 2; i >= 0; i--) if (i == cut - 1 && i >= ra && r_blank(l[i])) cut--;
  if (ra >= cut) return;
  r_copy(o->val, l, ra, cut);
  o->kind = R_KEY;
}

/* feed one line into the reference store.
 * NOTE (CBMC 6.11): rows of the store are always selected by a loop over a CONCRETE index
 * ("for m: if (m == idx) use(row[m])").  A pointer like s->k[idx] with a symbolic idx into the nested
 * array is mis-resolved by CBMC (it becomes k[0][idx*RL], an unconstrained out-of-row element). */
static void r_feed(const char *l, int len) {
  RLine o;
  int j, m;
  r_line(l, len, &o);
  if (o.kind == R_UNSPEC) { r_unspec = 1; return; }
  if (o.kind == R_SECTION) {
    for (j = 0; j < RNS; j++) if (j < r_ns && r_streq(r_sec[j].name, o.key)) r_unspec = 1;
    if (r_ns >= RNS) { r_overflow = 1; return; }
    for (j = 0; j < RNS; j++) if (j == r_ns) { r_copy(r_sec[j].name, o.key, 0, RL - 1); r_sec[j].nk = 0; }
    r_cur = r_ns++;
  } else if (o.kind == R_KEY && r_cur >= 0) {
    for (j = 0; j < RNS; j++) if (j == r_cur) {
      if (r_sec[j].nk >= RNK) { r_overflow = 1; return; }
      for (m = 0; m < RNK; m++) if (m == r_sec[j].nk) {
        r_copy(r_sec[j].k[m], o.key, 0, RL - 1);
        r_copy(r_sec[j].v[m], o.val, 0, RL - 1);
      }
      r_sec[j].nk++;
    }
  }
}

/* feed a concrete multi-line text (every line terminated by '\n') */
static void r_feed_text(const char *t) {
  int i, start = 0;
  for (i = 0; t[i] != '\0'; i++) if (t[i] == '\n') { r_feed(t + start, i - start); start = i + 1; }
}
#endif
