/* C18/C20 core / pinifile.c: p_ini_file_new -> p_ini_file_parse (concrete in-memory file through
 * models/stdio_model.c) -> sections / keys / typed getters -> p_ini_file_free under the failing allocator.
 * File (-DINIFILE=1): "[s]\na=1\n"; 2: "[s]\na=1\nl={1 2}\n[t]\nb=2\n"; 3: "[s]\na=1\n[t]\nb=2\n" (a second header follows a section
 * that was linked into the file); 4: "[e]\n[t]\nb=2\n" (a second header follows an EMPTY section, which the parser frees).
 * Documented: p_ini_file_new NULL; getters return the default value / NULL.  p_ini_file_parse has no
 * failure value for memory shortage: sections/keys that could not be stored are silently missing
 * (accepted as degraded result); whatever is stored must be well formed, and nothing may leak. */
#if defined(KF_DEMO_C18_ini_parse_key_node) || defined(KF_DEMO_C18_ini_parse_last_section_node) || defined(KF_DEMO_C18_ini_parse_section_node) || \
    defined(KF_DEMO_C18_ini_sections_node) || defined(KF_DEMO_C18_ini_keys_node) || defined(KF_DEMO_C18_ini_list_node)
#define KF_DEMO 1
#define KF_DEMO_LEAK 1      /* the demonstrated failure is the final ledger assertion */
#endif
#include "C18_core.h"
#include "stdio_model.h"
#include <pinifile.h>
#include <plist.h>
#include <perror.h>
#ifndef INIFILE
#define INIFILE 1
#endif
#define EXCLUDE_NTH(n) VASSUME(!C18_NTH_FAILS(n))
#define DEMO_NTH(n)    VASSUME(C18_NTH_FAILS(n))
#define X(n) EXCLUDE_NTH(n);
/* Per file: text; sections listed without failure (NSEC) and the names that may be listed (SECB: second name, or a name that appears
 * only after a failure); the section/key/value the readers ask for; keys of that section without failure (NKEYS), second key name
 * (KEYB), key that may land in it when a later header line is lost (KEYX); requests of p_ini_file_parse (NPARSE); and the request
 * numbers inside p_ini_file_parse that belong to the open known findings: list node after a parsed key (KF_KEY), list node for the
 * previous section at a new header (KF_SEC), list node for the last section at end of file (KF_LAST; KF_LAST_FROM: additional
 * positions in from-k-on mode - a section holds a key, every later line is dropped, the node for it fails at the end). */
#if INIFILE == 1       /* 1 line copy, 2 name copy, 3-4 section, 5-7 copies, 8-10 parameter, 11 key node, 12 section node */
#  define FTEXT "[s]\na=1\n"
#  define NSEC 1
#  define SECA "s"
#  define SECB NULL
#  define QSEC "s"
#  define QKEY "a"
#  define QVAL "1"
#  define QINT 1
#  define NKEYS 1
#  define KEYB NULL
#  define KEYX NULL
#  define NPARSE 12
#  define KF_KEY X(11)
#  define KF_SEC
#  define KF_LAST X(12)
#  define KF_LAST_FROM
#elif INIFILE == 2     /* 1-4 [s]; 5-11 a=1; 12-18 l={1 2}; 19-20 [t] copies, 21 node for s, 22-23 section t; 24-30 b=2; 31 node for t */
#  define FTEXT "[s]\na=1\nl={1 2}\n[t]\nb=2\n"
#  define NSEC 2
#  define SECA "s"
#  define SECB "t"
#  define QSEC "s"
#  define QKEY "a"
#  define QVAL "1"
#  define QINT 1
#  define NKEYS 2
#  define KEYB "l"
#  define KEYX "b"
#  define HAS_LIST 1
#  define NPARSE 31
#  define KF_KEY X(11) X(18) X(30)
#  define KF_SEC X(21)
#  define KF_LAST X(31)
#  define KF_LAST_FROM X(12) X(13) X(14) X(15) X(16) X(17) X(18) X(19) X(20)
#elif INIFILE == 3     /* 1-4 [s]; 5-11 a=1; 12-13 [t] copies, 14 node for s, 15-16 section t; 17-23 b=2; 24 node for t */
#  define FTEXT "[s]\na=1\n[t]\nb=2\n"
#  define NSEC 2
#  define SECA "s"
#  define SECB "t"
#  define QSEC "s"
#  define QKEY "a"
#  define QVAL "1"
#  define QINT 1
#  define NKEYS 1
#  define KEYB NULL
#  define KEYX "b"
#  define NPARSE 24
#  define KF_KEY X(11) X(23)
#  define KF_SEC X(14)
#  define KF_LAST X(24)
#  define KF_LAST_FROM X(12) X(13)
#else                  /* 4: 1-4 [e]; 5-6 [t] copies (empty section e is freed), 7-8 section t; 9-15 b=2; 16 node for t */
#  define FTEXT "[e]\n[t]\nb=2\n"
#  define NSEC 1
#  define SECA "t"
#  define SECB "e"     /* listed instead of t when the copy of the "[t]" line fails: key b then lands in e */
#  define QSEC "t"
#  define QKEY "b"
#  define QVAL "2"
#  define QINT 2
#  define NKEYS 1
#  define KEYB NULL
#  define KEYX NULL
#  define NPARSE 16
#  define KF_KEY X(15)
#  define KF_SEC
#  define KF_LAST X(16)
#  define KF_LAST_FROM
#endif
#ifdef HAS_LIST
#  define NLIST 5
#else
#  define NLIST 0
#endif
#define NSUCC (2 + NPARSE + 2 * NSEC + 2 * NKEYS + 3 + NLIST)

static void put_file(const char *s) { int i; for (i = 0; s[i] != 0; i++) vm_file_data[i] = (unsigned char) s[i]; vm_file_len = i; }

/* releases a list of heap strings (p_list_foreach is replaced by a model restricted to pinifile.c's own callbacks) */
static int free_strings(PList *l, const char *a, const char *b, const char *c, int *nulls) {
  int n = 0;
  for (PList *p = l; p != NULL; p = p->next, n++) {
    if (p->data == NULL) (*nulls)++;
    else { VASSERT(c18_streq(p->data, a) || (b != NULL && c18_streq(p->data, b)) || (c != NULL && c18_streq(p->data, c)), "listed name is one of the file's names"); p_free(p->data); }
  }
  p_list_free(l);
  return n;
}

static void script(void) {
  c18_begin();
  put_file(FTEXT);
#ifdef INI_MISSING_CHOICE
  vm_file_missing = c18_choice;         /* C20: script variant 1 = the file cannot be opened */
#endif
  int missing = vm_file_missing;
  int f0 = vm_failed;
  PIniFile *ini = p_ini_file_new("f.ini");
  if (C18_FAILED_SINCE(f0)) {
    VASSERT(ini == NULL, "p_ini_file_new returns NULL when one of its two allocations fails");
    VASSERT(vm_live == c18_base, "failed p_ini_file_new leaves nothing allocated");
    VASSERT(p_ini_file_parse(NULL, NULL) == FALSE && p_ini_file_sections(NULL) == NULL, "NULL object: failure values");
    p_ini_file_free(NULL);
    c18_end(0);
    return;
  }
  VASSERT(ini != NULL, "p_ini_file_new succeeds when no allocation fails");

  /* ---- parse (request numbers inside the call: see the per-file table above) */
  f0 = vm_failed;
#ifdef KF_OPEN_C18_ini_parse_key_node
  KF_KEY
#endif
#ifdef KF_OPEN_C18_ini_parse_section_node
  KF_SEC
#endif
#ifdef KF_OPEN_C18_ini_parse_last_section_node
  KF_LAST
  if (vm_fail_from) { KF_LAST_FROM }
#endif
#if INIFILE == 1
#  ifdef KF_DEMO_C18_ini_parse_key_node
  DEMO_NTH(11);
#  endif
#  ifdef KF_DEMO_C18_ini_parse_last_section_node
  DEMO_NTH(12);
#  endif
#elif INIFILE == 2
#  ifdef KF_DEMO_C18_ini_parse_section_node
  DEMO_NTH(21);
#  endif
#endif
  PError *err = NULL;
  pboolean ok = p_ini_file_parse(ini, &err);
  int pfail = C18_FAILED_SINCE(f0);
  if (missing) {
    VASSERT(ok == FALSE && p_ini_file_is_parsed(ini) == FALSE, "parse of an unreadable file returns FALSE");
    if (err == NULL) VASSERT(pfail, "the failure is reported unless the report cannot be allocated");
    VASSERT(vm_open_files == 0 && vm_fclose_calls == 0, "no stream to close");
    p_error_free(err); err = NULL;
  } else {
    VASSERT(ok == TRUE && err == NULL, "parse of a readable file returns TRUE without error report");
    VASSERT(vm_open_files == 0 && vm_fclose_calls == vm_fopen_calls, "the file is closed exactly once");
    VASSERT(p_ini_file_is_parsed(ini) == TRUE, "parsed flag set");
  }

  /* Every reader below is called a second time when the first call met an allocation failure: the object must then deliver what
   * it delivers without the failure (the failed read left it unchanged and usable). */
  int retried_ok = 0;
  /* ---- sections: per section a name copy (1) and a list node (2) */
#ifdef KF_OPEN_C18_ini_sections_node
  EXCLUDE_NTH(2);
#  if NSEC > 1
  EXCLUDE_NTH(4);
#  endif
#endif
#ifdef KF_DEMO_C18_ini_sections_node
  DEMO_NTH(2);
#endif
  for (int attempt = 0; attempt < 2; attempt++) {
    f0 = vm_failed;
    int nulls = 0;
    PList *secs = p_ini_file_sections(ini);
    int sfail = C18_FAILED_SINCE(f0);
    int ns = free_strings(secs, SECA, (NSEC > 1 || pfail) ? SECB : NULL, NULL, &nulls);
    VASSERT(ns <= NSEC, "not more sections than in the file");
    if (missing) VASSERT(ns == 0, "nothing listed for an unparsed object");
    else if (!pfail && !sfail) VASSERT(ns == NSEC && nulls == 0, "all sections listed when no allocation failed (also when an earlier attempt failed)");
    if (!sfail) { VASSERT(nulls == 0, "a NULL name is listed only when its copy could not be allocated"); if (attempt == 1) retried_ok = 1; break; }
  }

  /* ---- keys of section s */
#ifdef KF_OPEN_C18_ini_keys_node
  EXCLUDE_NTH(2);
#  if NKEYS > 1
  EXCLUDE_NTH(4);
#  endif
#endif
#ifdef KF_DEMO_C18_ini_keys_node
  DEMO_NTH(2);
#endif
  for (int attempt = 0; attempt < 2; attempt++) {
    f0 = vm_failed;
    int nulls = 0;
    PList *keys = p_ini_file_keys(ini, QSEC);
    int kfail = C18_FAILED_SINCE(f0);
    /* files 2, 3: when the copy of the "[t]" line cannot be allocated the line is skipped and key b lands in section s (accepted as degraded) */
    int nk = free_strings(keys, QKEY, KEYB, pfail ? KEYX : NULL, &nulls);
    VASSERT(nk <= NKEYS + ((pfail && KEYX != NULL) ? 1 : 0), "not more keys than in the section");
    if (missing) VASSERT(nk == 0, "nothing listed for an unparsed object");
    else if (!pfail && !kfail) VASSERT(nk == NKEYS && nulls == 0, "all keys listed when no allocation failed (also when an earlier attempt failed)");
    if (!kfail) { if (attempt == 1) retried_ok = 1; break; }
  }

  /* ---- typed getters */
  pboolean has_a = p_ini_file_is_key_exists(ini, QSEC, QKEY);
  if (missing) VASSERT(has_a == FALSE, "no key in an unparsed object");
  else if (!pfail) VASSERT(has_a == TRUE, "key present when the parse met no allocation failure");
  int live0 = vm_live;
  for (int attempt = 0; attempt < 2; attempt++) {
    f0 = vm_failed;
    pchar *str = p_ini_file_parameter_string(ini, QSEC, QKEY, "dflt");
    int gfail = C18_FAILED_SINCE(f0);
    if (gfail) VASSERT(str == NULL || c18_streq(str, "dflt"), "p_ini_file_parameter_string returns NULL or the default when a copy cannot be allocated");
    else VASSERT(str != NULL && c18_streq(str, has_a ? QVAL : "dflt"), "stored value, or the default for a key that was not stored (also when an earlier attempt failed)");
    p_free(str);
    VASSERT(vm_live == live0, "string getter: everything handed out was released");
    if (!gfail) { if (attempt == 1) retried_ok = 1; break; }
  }
  for (int attempt = 0; attempt < 2; attempt++) {
    f0 = vm_failed;
    pint iv = p_ini_file_parameter_int(ini, QSEC, QKEY, 7);
    int gfail = C18_FAILED_SINCE(f0);
    VASSERT(iv == ((has_a && !gfail) ? QINT : 7), "integer value, or the default when the key is missing or the lookup copy cannot be allocated");
    VASSERT(vm_live == live0, "integer getter leaves nothing allocated");
    if (!gfail) { if (attempt == 1) retried_ok = 1; break; }
  }
  for (int attempt = 0; attempt < 2; attempt++) {
    f0 = vm_failed;
    pboolean bv = p_ini_file_parameter_boolean(ini, QSEC, QKEY, FALSE);
    int gfail = C18_FAILED_SINCE(f0);
    VASSERT(bv == ((has_a && !gfail) ? TRUE : FALSE), "boolean value or default");
    VASSERT(vm_live == live0, "boolean getter leaves nothing allocated");
    if (!gfail) { if (attempt == 1) retried_ok = 1; break; }
  }
#ifdef HAS_LIST
#  ifdef KF_OPEN_C18_ini_list_node
  EXCLUDE_NTH(3); EXCLUDE_NTH(5);
#  endif
#  ifdef KF_DEMO_C18_ini_list_node
  DEMO_NTH(3);
#  endif
  for (int attempt = 0; attempt < 2; attempt++) {
    f0 = vm_failed;
    int nulls = 0;
    PList *items = p_ini_file_parameter_list(ini, "s", "l");
    int lfail = C18_FAILED_SINCE(f0);
    int ni = free_strings(items, "1", "2", NULL, &nulls);
    VASSERT(ni <= 2, "not more items than in the value");
    if (!pfail && !lfail && !missing) VASSERT(ni == 2 && nulls == 0, "both list items delivered when no allocation failed (also when an earlier attempt failed)");
#ifdef KF_DEMO_C18_ini_list_node
    VKF(vm_live == live0, "list getter: everything handed out was released");
#else
    VASSERT(vm_live == live0, "list getter: everything handed out was released");
#endif
    if (!lfail) { if (attempt == 1) retried_ok = 1; break; }
  }
#endif

  p_ini_file_free(ini);
#if defined(HAS_LIST) && defined(KF_OPEN_C18_ini_list_node)
  c18_end2(NSUCC, NSUCC - 1);     /* the very last request (list node of the 2nd item) is a known-finding class */
#else
  c18_end(NSUCC);
#endif
#if !defined(KF_DEMO) && K_LO == 0
  if (!pfail && has_a) VWITNESS("file parsed completely");
#endif
#ifdef INI_MISSING_CHOICE
  if (missing) VWITNESS("unreadable file");
#endif
#if !defined(KF_DEMO) && !defined(NOFAIL) && K_HI >= KMAX
  if (retried_ok && !pfail) VWITNESS("a reader failed once and delivered the complete result when retried");
#else
  (void) retried_ok;
#endif
}
