/* C01 sequential "nested-context" query: mutual exclusion when two threads' FIRST lock calls on a fresh lock overlap.
 * CBMC's native threads abort on pointer-typed shared writes after the first spawn ("pointer handling for concurrency
 * is unsound"), so anything the lock code does with pointers inside lock/trylock (e.g. creating its backing object lazily)
 * is invisible to the thread queries (they end INCONCLUSIVE on such a tree).  Here the two contexts are emulated
 * sequentially, pointer checks on:
 *   context A calls p_spinlock_lock / p_spinlock_trylock (symbolic choice) on a FRESH lock object;
 *   every platform-model entry inside that call - the allocator (p_malloc0), each pthread_* call, each __atomic / __sync
 *   builtin - is a preemption point: a symbolic choice runs, once, context B's COMPLETE p_spinlock_lock / p_spinlock_trylock
 *   (symbolic choice) on the same object.
 * Decided: if B acquired, A's call does not also return as holder while B still holds (A blocking = infeasible path; A's
 * trylock must be FALSE); afterwards B's unlock really frees the lock (A's trylock TRUE) and A's unlock TRUE.
 * Covers every interleaving in which B's whole operation falls between two platform steps of A's operation (A1 B A2).
 *   -DLK_SPIN + -DLK_ATOMICS (pspinlock-c11.c / -sync.c, hook = VMA_PRE_HOOK) or -DLK_PTHREAD (pspinlock-sim.c over the
 *   pthread model, hooks = VM_PRE_HOOK and ST_PRE_HOOK);  -DLK_MUTEX: the same for PMutex.
 */
#include "verif.h"
void c01_preempt(void);
void c01_preempt_w(const volatile void *w);
#if defined(LK_ATOMICS)
#define VMA_IMPL
#include "atomics_model.h"
#define ST_ONLY_SPIN
#endif
#include <pthread.h>
#ifdef LK_PTHREAD
#include "pthread_model.h"
#define SET_CTX(t) (vm_self = (t))
#else
#define SET_CTX(t) ((void) 0)
#endif
#include <pmem.h>
#include <pmutex.h>
#include <pspinlock.h>
#include "C01_store.h"

#ifdef LK_MUTEX
typedef PMutex LK;
#define LK_NEW     p_mutex_new
#define LK_LOCK    p_mutex_lock
#define LK_TRYLOCK p_mutex_trylock
#define LK_UNLOCK  p_mutex_unlock
#else
typedef PSpinLock LK;
#define LK_NEW     p_spinlock_new
#define LK_LOCK    p_spinlock_lock
#define LK_TRYLOCK p_spinlock_trylock
#define LK_UNLOCK  p_spinlock_unlock
#endif

static LK *S;
static int armed, in_b, b_ran, b_try, b_got, n_points;

void c01_preempt(void) {
  if (!armed || in_b) return;
  n_points++;
  if (b_ran) return;
  if (!ND_BOOL()) return;
  b_ran = 1; in_b = 1;
  SET_CTX(1);
  b_got = b_try ? LK_TRYLOCK(S) : LK_LOCK(S);
  SET_CTX(0);
  in_b = 0;
}
void c01_preempt_w(const volatile void *w) { (void) w; c01_preempt(); }

void harness(void) {
  S = LK_NEW();
  VASSERT(S != NULL, "lock object created");
  int a_try = ND_RANGE(0, 1);
  b_try = ND_RANGE(0, 1);
  SET_CTX(0);
  armed = 1;
  pboolean a_ok = a_try ? LK_TRYLOCK(S) : LK_LOCK(S);
  armed = 0;
  VASSERT(n_points >= 1, "A's call passed at least one preemption point");
  VASSERT(!(a_ok && b_got), "mutual exclusion: A's first lock call returns as holder while B, whose complete lock call ran inside it, still holds the lock");
  VASSERT(a_try || a_ok, "lock returns TRUE");
  VASSERT(a_ok || b_got, "A's trylock fails only because B holds the lock");
  if (b_got) {
    VWITNESS("B acquired inside A's call, A's trylock returned FALSE");
    SET_CTX(1);
    VASSERT(LK_UNLOCK(S) == TRUE, "B: unlock TRUE");
    SET_CTX(0);
    VASSERT(LK_TRYLOCK(S) == TRUE, "after B's unlock A's trylock returns TRUE");
  } else {
    if (!b_ran) VWITNESS("A acquired without preemption");
  }
  /* A holds now */
  SET_CTX(1);
  VASSERT(LK_TRYLOCK(S) == FALSE, "B's trylock is FALSE while A holds");
  SET_CTX(0);
  VASSERT(LK_UNLOCK(S) == TRUE, "A: unlock TRUE");
  VWITNESS("end");
}
