/* C15: PList vs. an array model; symbolic data pointers; list built by a symbolic mix of
 * append/prepend, then one symbolic operation, then full comparison incl. foreach order. */
#include "verif.h"
#include "alloc.h"
#include <pmem.h>
#include <plist.h>
#ifndef LMAX
#define LMAX 4
#endif
static ppointer ref[LMAX + 1]; static int rn;
static ppointer seen[LMAX + 1]; static int sn; static ppointer ud_seen;
static void visit(ppointer data, ppointer user) { if (sn <= LMAX) seen[sn] = data; sn++; ud_seen = user; }

static void compare(PList *l) {
  int i = 0;
  for (PList *p = l; p != NULL; p = p->next, i++) { VASSERT(i < rn, "list not longer than model"); VASSERT(p->data == ref[i], "element = model element"); }
  VASSERT(i == rn, "list length = model length");
  VASSERT(p_list_length(l) == (psize) rn, "p_list_length = model length");
  PList *last = p_list_last(l);
  VASSERT(rn == 0 ? last == NULL : (last != NULL && last->data == ref[rn - 1] && last->next == NULL), "p_list_last = last model element");
}

void harness(void) {
  vm_alloc_install();
  PList *l = NULL;
  int n = ND_RANGE(0, LMAX);
  for (int i = 0; i < LMAX; i++) if (i < n) {
    ppointer d = (ppointer) ND_ULL();
    if (ND_BOOL()) { l = p_list_append(l, d); ref[rn++] = d; }
    else { l = p_list_prepend(l, d); for (int j = LMAX; j > 0; j--) ref[j] = ref[j - 1]; ref[0] = d; rn++; }
  }
  compare(l);
  int op = ND_RANGE(0, 2);
  if (op == 0) {          /* remove first occurrence */
    ppointer d = (ppointer) ND_ULL();
    int k = -1; for (int i = LMAX - 1; i >= 0; i--) if (i < rn && ref[i] == d) k = i;
    l = p_list_remove(l, d);
    if (k >= 0) { for (int i = 0; i < LMAX; i++) if (i >= k && i < rn - 1) ref[i] = ref[i + 1]; rn--; }
    VASSERT(vm_live == rn, "remove frees exactly the removed node");
  } else if (op == 1) {   /* reverse */
    l = p_list_reverse(l);
    for (int i = 0; i < LMAX / 2; i++) if (i < rn - 1 - i) { ppointer t = ref[i]; ref[i] = ref[rn - 1 - i]; ref[rn - 1 - i] = t; }
  } else {                /* foreach in order, with user data */
    ppointer ud = (ppointer) ND_ULL();
    p_list_foreach(l, visit, ud);
    VASSERT(sn == rn, "foreach visits every element once");
    for (int i = 0; i < LMAX; i++) if (i < rn) VASSERT(seen[i] == ref[i], "foreach visits in list order");
    VASSERT(rn == 0 || ud_seen == ud, "foreach passes user data");
  }
  compare(l);
  p_list_free(l);
  VASSERT(vm_live == 0, "free releases every node");
  VWITNESS("end");
  if (rn == LMAX) VWITNESS("full-length list");
}
