/* C14 (destroy-notifier ownership) instance of the shared tree step harness */
#define CHK_OWN 1
#include "trees_step.h"
