/* C18 core / pstring: p_strdup, p_strchomp (both allocation sites: the trimmed copy and the
 * empty-string copy), p_strtod (allocates a chomped copy) under the failing allocator.
 * Documented failure values: NULL for the string producers, 0 for p_strtod. */
#include "C18_core.h"
#include <pstring.h>

static void script(void) {
  c18_begin();
  static const char src[] = " ab\t";
  int f0 = vm_failed;
  pchar *s1 = p_strdup("abc");
  if (C18_FAILED_SINCE(f0)) VASSERT(s1 == NULL, "p_strdup returns NULL when its allocation fails");
  else VASSERT(s1 != NULL && c18_streq(s1, "abc"), "p_strdup copies the string");
  f0 = vm_failed;
  pchar *s2 = p_strchomp(src);
  if (C18_FAILED_SINCE(f0)) VASSERT(s2 == NULL, "p_strchomp returns NULL when its allocation fails");
  else VASSERT(s2 != NULL && c18_streq(s2, "ab"), "p_strchomp trims");
  VASSERT(src[0] == ' ' && src[1] == 'a' && src[2] == 'b' && src[3] == '\t' && src[4] == 0, "source string unchanged");
  f0 = vm_failed;
  pchar *s3 = p_strchomp("  ");
  if (C18_FAILED_SINCE(f0)) VASSERT(s3 == NULL, "p_strchomp (all blank) returns NULL when its allocation fails");
  else VASSERT(s3 != NULL && s3[0] == 0, "p_strchomp of blanks is the empty string");
  f0 = vm_failed;
  int live0 = vm_live;
  double d = p_strtod(" 2.5");
  if (C18_FAILED_SINCE(f0)) VASSERT(d == 0.0, "p_strtod returns 0 when its internal copy cannot be allocated");
  else VASSERT(d == 2.5, "p_strtod converts");
  VASSERT(vm_live == live0, "p_strtod leaves nothing allocated");
  p_free(s1); p_free(s2); p_free(s3);
  c18_end(4);
}
