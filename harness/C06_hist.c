/* C06: symbolic history of PSemaphore calls over 2 names x NH handles in 2 emulated processes
 * (real psemaphore-posix.c over models/kernel_ipc.c) against a per-name generation reference.
 *
 * Reference (from the property statement and psemaphore.h):
 *   r_exists[n], r_val[n], r_gen[n]   the counter currently published under name n
 *   new(OPEN,i):  exists ? handle joins the current generation, i ignored : fresh generation, value i, handle owns it
 *   new(CREATE,i): fresh generation with value i whether or not the name existed (handle owns it only if it did not)
 *   acquire/release through a handle of the CURRENT generation: -1 (never blocks while r_val>0) / +1
 *   free of an owner (creator or take_ownership): the name is gone, next open starts fresh
 *   handles of superseded generations: nothing is asserted about them, and they must not disturb the
 *   current counter (checked because the kernel state is compared with the reference after every call)
 */
#include "verif.h"
#include "alloc.h"
#include "kernel_ipc.h"
#include <pmem.h>
#include <psemaphore.h>

#ifndef NOPS
#define NOPS 4
#endif
#ifndef NH
#define NH 3
#endif
#ifndef VMAX
#define VMAX 3
#endif

static PSemaphore *h[NH];
static int h_live[NH], h_name[NH], h_gen[NH], h_owner[NH], h_mode[NH], h_init[NH];
static int r_exists[2], r_val[2], r_gen[2], gen_ctr;
static int n_new, n_create_existing, n_ownerfree, n_acq, n_stale, n_nested, n_intr;

#define PROC_OF(k) ((k) & 1)

static PSemaphore *new_named(int n, int init, PSemaphoreAccessMode mode) {
  /* concrete name at each call site (keeps strlen/strcpy and the key stub concrete) */
  if (n == 0) return p_semaphore_new("a", init, mode, NULL);
  return p_semaphore_new("b", init, mode, NULL);
}

static void check_state(void) {
  for (int n = 0; n < 2; n++) {
    int obj = vk_sem_linked(n);          /* key stub: name a -> slot 0, b -> slot 1 */
    VASSERT((obj >= 0) == (r_exists[n] != 0), "name is linked in the system iff the reference says the semaphore exists");
    if (obj >= 0 && r_exists[n])
      VASSERT(vk_sem_value(obj) == r_val[n], "counter published under the name = reference value");
  }
}

/* reference effect of an open (shared by p_semaphore_new and, System V only, by the re-attach of a handle whose set was removed) */
static void ref_open(int k, int n, int mode, int init) {
  h_owner[k] = 0;
  if (!r_exists[n]) { r_exists[n] = 1; r_val[n] = init; r_gen[n] = ++gen_ctr; h_owner[k] = 1; }
  else if (mode == P_SEM_ACCESS_CREATE) {
    r_val[n] = init; n_create_existing++;
#ifndef SYSV
    r_gen[n] = ++gen_ctr;          /* POSIX: unlink + a new object, older handles stay on the old one */
#endif                             /* System V: SETVAL on the same set, every attached handle sees the new value */
  }
  h_gen[k] = r_gen[n];
}

static int is_current(int k) { int n = h_name[k]; return r_exists[n] && h_gen[k] == r_gen[n]; }

/* acquire / release through handle k, executed by its process */
#ifdef SYSV
/* System V: a handle whose set was removed (IPC_RMID by an owner free) finds that out at its next acquire / release
 * (EIDRM / EINVAL) and re-attaches by name with the mode and initial value it was opened with: for the reference this
 * is one more open at that moment.  The interrupted release itself is not repeated by the library (returns TRUE). */
static int reattach(int k) {
  if (is_current(k)) return 0;
  ref_open(k, h_name[k], h_mode[k], h_init[k]);
  n_stale++;
  return 1;
}
#endif

static void op_acquire(int k) {
  int n = h_name[k];
  vk_cur = PROC_OF(k);
#ifdef SYSV
  reattach(k);
#endif
  vk_expect_noblock = is_current(k) && r_val[n] > 0;
#ifdef EINTR_MAX
  /* handled signals: sem_wait fails with EINTR at a symbolic subset (<= EINTR_MAX) of its invocations in this acquire;
   * "an acquire returns only by consuming a unit" - interrupted or not */
  vk_eintr_budget = ND_RANGE(0, EINTR_MAX);
  int seen0 = vk_eintr_seen;
#endif
  pboolean ok = p_semaphore_acquire(h[k], NULL);
  vk_expect_noblock = 0;
#ifdef EINTR_MAX
  vk_eintr_budget = 0;
  if (vk_eintr_seen > seen0) n_intr++;
#endif
  if (is_current(k)) {
    VASSERT(ok == TRUE, "acquire on a current handle returns TRUE");
    VASSERT(r_val[n] > 0, "acquire returned although the reference counter is 0 (unit not consumed from the shared counter)");
    r_val[n]--;
    n_acq++;
  } else n_stale++;
}

static void op_release(int k) {
  int n = h_name[k];
  vk_cur = PROC_OF(k);
#ifdef SYSV
  int re = reattach(k);
#else
  int re = 0;
#endif
  pboolean ok = p_semaphore_release(h[k], NULL);
  if (is_current(k)) {
    VASSERT(ok == TRUE, "release on a current handle returns TRUE");
    if (!re) r_val[n]++;
  } else n_stale++;
}

/* nested-atomic emulation: while an acquire/release of one process is inside the kernel model the
 * other process may run one whole acquire/release of its own */
static int outer_k = -1;
void vk_other(void) {
#ifdef PREEMPT
  int k = ND_RANGE(0, NH - 1);
  VASSUME(h_live[k] && PROC_OF(k) == vk_cur);
  int save = vk_expect_noblock;
  if (ND_BOOL()) op_acquire(k); else op_release(k);
  n_nested++;
  /* the outer call's expectation is re-evaluated against the reference after the nested call */
  (void) save;
  if (outer_k >= 0) vk_expect_noblock = is_current(outer_k) && r_val[h_name[outer_k]] > 0;
#endif
}

void harness(void) {
  vm_alloc_install();
  for (int i = 0; i < NOPS; i++) {
    int op = ND_RANGE(0, 4);
    int k = ND_RANGE(0, NH - 1);
#ifdef PROLOGUE2
    /* deeper histories at the same cost: the first two calls are opens of name a through handles 0 and 1 (modes and
     * initial values stay symbolic), the remaining NOPS-2 calls are free */
    if (i < 2) VASSUME(op == 0 && k == i);
#endif
    vk_cur = PROC_OF(k);
    if (op == 0) {
      VASSUME(!h_live[k]);
      int n = ND_RANGE(0, 1);
#if defined(PROLOGUE2) || defined(ONE_NAME)
      VASSUME(n == 0);
#endif
      int mode = ND_RANGE(0, 1);
      int init = ND_RANGE(0, VMAX);
#ifdef KF_OPEN_C06_create_existing
      VASSUME(!(mode == P_SEM_ACCESS_CREATE && r_exists[n]));
#endif
      PSemaphore *s = new_named(n, init, (PSemaphoreAccessMode) mode);
#ifdef KF_DEMO_CREATE_EXISTING
      if (mode == P_SEM_ACCESS_CREATE && r_exists[n]) {
        VKF(s != NULL, "p_semaphore_new(CREATE) on an existing name returns a handle");
        VASSUME(s != NULL);
      }
#endif
      VASSERT(s != NULL, "p_semaphore_new succeeds (OPEN and CREATE, name existing or not)");
      VASSUME(s != NULL);
      h[k] = s; h_live[k] = 1; h_name[k] = n; h_mode[k] = mode; h_init[k] = init;
      ref_open(k, n, mode, init);
      n_new++;
    } else if (op == 1) {
      VASSUME(h_live[k]);
#ifdef PREEMPT
      outer_k = k; vk_preempt_on = 1;
#endif
      op_acquire(k);
      vk_preempt_on = 0; outer_k = -1;
    } else if (op == 2) {
      VASSUME(h_live[k]);
      VASSUME(r_val[h_name[k]] < VMAX + 2);
#ifdef PREEMPT
      outer_k = k; vk_preempt_on = 1;
#endif
      op_release(k);
      vk_preempt_on = 0; outer_k = -1;
    } else if (op == 3) {
      VASSUME(h_live[k]);
      p_semaphore_take_ownership(h[k]);
      h_owner[k] = 1;
    } else {
      VASSUME(h_live[k]);
      p_semaphore_free(h[k]);
      h_live[k] = 0;
#ifdef SYSV
      if (h_owner[k] && is_current(k)) { r_exists[h_name[k]] = 0; n_ownerfree++; }   /* IPC_RMID acts on the handle's own set id */
#else
      if (h_owner[k]) { r_exists[h_name[k]] = 0; n_ownerfree++; }
#endif
    }
    check_state();
  }
  VWITNESS("end of history");
  if (n_ownerfree >= 1 && n_new >= 2) VWITNESS("owner free followed/preceded by another open");
  if (n_acq >= 1 && n_new >= 2) VWITNESS("acquire with two handles opened");
#if !defined(KF_OPEN_C06_create_existing) && !defined(KF_DEMO_CREATE_EXISTING)
  if (n_create_existing >= 1) VWITNESS("CREATE on an existing name");
#endif
#ifdef PREEMPT
  if (n_nested >= 1) VWITNESS("nested acquire/release of the other process");
#endif
#ifdef EINTR_MAX
  if (n_intr >= 1 && n_acq >= 1) VWITNESS("acquire on a current handle interrupted and completed");
#endif
}
