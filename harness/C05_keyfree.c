/* C05: a TLS reference key is freed with p_uthread_local_free WHILE a thread still holds a non-NULL value under
 * it; the thread then ends (p_uthread_exit or plain return = symbolic).  Documented contract of
 * p_uthread_local_free: "doesn't remove the TLS key itself but only removes a reference used to access the TLS
 * slot" - so the destroy notifier must still run exactly once for the value left at thread exit.
 * Order decided here:  thread A stores v under K  <  K freed  <  A ends, with the key freed
 *   FREE_SELF : by A itself,
 *   otherwise : by thread B, which runs (whole body) inside A between A's store and A's end (nesting depth 2:
 *               B inside A inside main's join), optionally after storing and replacing values of its own.
 * Real puthread.c + puthread-posix.c; model: pthread_key_delete really disables the destructor and forgets the
 * values (POSIX), so a p_uthread_local_free that deletes the platform key is seen. */
#include "verif.h"
#include "alloc.h"
#include "thread_emul.h"
#include <pmem.h>
#include <puthread.h>

/* a pboolean argument with the given truth value: ANY int whose truthiness is `want` (pboolean is a plain int;
 * every non-zero value is a legitimate TRUE, e.g. `flags & 4` or -1) */
static pboolean nd_pbool(_Bool want) { int v = ND_INT(); VASSUME((v != 0) == want); return (pboolean) v; }
extern void p_uthread_init(void);
extern void p_uthread_shutdown(void);

static PUThread *h[2];
static PUThreadKey *K;
static char vals[4];
static int dcount[4], body_end[2], exit_code[2], key_freed;

void c05_tls_dtor(ppointer v) {
  long id = (char *) v - vals;
  VASSERT(v != NULL && id >= 1 && id <= 3, "destroy notifier receives a stored value");
  if (id >= 1 && id <= 3) dcount[id]++;
}
static ppointer h_malloc(psize n) { return vm_malloc(n); }
static ppointer h_realloc(ppointer p, psize n) { return vm_realloc(p, n); }
static void h_free(ppointer p) { vm_free(p); }

static void finish(int i) {                     /* both exit styles */
  body_end[i] = 1;
  if (ND_BOOL()) { exit_code[i] = ND_INT(); p_uthread_exit(exit_code[i]); }
}

static ppointer thr_main(ppointer data) {
  int i = te_cur - 1;
  VASSERT(data == (ppointer) &body_end[i], "thread function receives its data pointer");
  if (i == 0) {                                 /* thread A: holds a value under K when K is freed */
    p_uthread_set_local(K, &vals[1]);
    VASSERT(p_uthread_get_local(K) == (ppointer) &vals[1], "value stored");
#ifdef FREE_SELF
    p_uthread_local_free(K);
#else
    te_run_pending();                           /* thread B runs here, nested inside A */
    VASSERT(te_state[2] == TE_FINISHED, "B ran inside A");
#endif
#ifndef FREE_SELF
    VASSERT(key_freed, "B freed the reference key while A holds a value");
#endif
    VASSERT(dcount[1] == 0, "freeing the reference key destroys no value");
    finish(0);
  } else {                                      /* thread B: may use the key itself, then frees the reference */
    if (ND_BOOL()) {
      p_uthread_set_local(K, &vals[2]);
      if (ND_BOOL()) { p_uthread_replace_local(K, &vals[3]); VASSERT(dcount[2] == 1, "replace destroys B's old value once"); }
    }
    p_uthread_local_free(K);
    key_freed = 1;
    finish(1);
  }
  return NULL;
}

void te_hook_thread_ending(int slot) { (void) slot; }
void te_hook_thread_finished(int slot) {
  if (slot == 1) VASSERT(dcount[1] == 1, "value left by a thread under a key whose reference was freed meanwhile is still destroyed exactly once at thread exit");
}

void harness(void) {
  PMemVTable vt;
  vt.f_malloc = h_malloc; vt.f_realloc = h_realloc; vt.f_free = h_free;
  p_mem_set_vtable(&vt);
  p_uthread_init();
  K = p_uthread_local_new(c05_tls_dtor);
  VASSUME(K != NULL);
  PUThread *mc = p_uthread_current();           /* the library key exists */
  VASSUME(mc != NULL);
  te_no_preempt = 1;                            /* the order store < free < end is fixed by the script */
#ifdef FREE_SELF
#define NTHR 1
#else
#define NTHR 2
#endif
  for (int i = 0; i < NTHR; i++) {
    te_next_slot = i + 1;
    h[i] = p_uthread_create(thr_main, &body_end[i], nd_pbool(1), NULL);
    VASSERT(h[i] != NULL, "create succeeds");
  }
  for (int i = 0; i < NTHR; i++) {
    pint r = p_uthread_join(h[i]);              /* joining A runs A (and B inside it) */
    VASSERT(body_end[i] && te_state[i + 1] == TE_FINISHED, "join returns after the thread finished");
    VASSERT(r == exit_code[i], "join yields the exit code");
    p_uthread_unref(h[i]);
  }
  VASSERT(dcount[1] == 1, "A's value destroyed exactly once");
  VASSERT(dcount[2] <= 1 && dcount[3] <= 1, "no value of B destroyed twice");
  p_uthread_shutdown();
  VASSERT(vm_live == 0, "every library allocation released");
  VWITNESS("end");
  if (exit_code[0] != 0) VWITNESS("A ended through p_uthread_exit with a code");
  if (body_end[0] && exit_code[0] == 0) VWITNESS("A ended (plain return or code 0)");
#ifndef FREE_SELF
  if (dcount[3] == 1) VWITNESS("B stored, replaced, left a value and freed the key");
#endif
}
