/* C20 (thread module): resource neutrality of the puthread script of C18_thread_uthread.c, on the success path and
 * with the f-th fallible pthread call failing (entries harness_f<f>); full ledger: allocations, platform TLS keys,
 * unreaped threads, attribute objects. */
#define C20_MODE 1
#include "C18_thread_uthread.c"
