/* C07 crash recovery: process P (0) works on name "a" (optionally Q (1) opened it before) and is
 * SIGKILLed before a symbolic one of its IPC system calls or while idle; a fresh process R then runs
 * the clean-up documented in pshm.h (p_shm_new; take ownership; p_shm_free; create again), which must
 * end with the old name gone and a fresh segment of the newly requested size with a free lock. */
#include "verif.h"
#include "alloc.h"
#include "kernel_ipc.h"
#include <pmem.h>
#include <pshm.h>
/* access permission of every open is symbolic: ownership, naming, sizes, lock and clean-up must not depend on it */
#define ND_PERM() (ND_BOOL() ? P_SHM_ACCESS_READWRITE : P_SHM_ACCESS_READONLY)
#define SHM_SLOT 2
#define SEM_SLOT 4
#ifndef PCALLS
#define PCALLS 3
#endif

void vk_other(void) {}

void harness(void) {
  vm_alloc_install();
  PShm *q0 = NULL;
  if (ND_BOOL()) {               /* the segment already exists, created by Q which stays alive */
    vk_cur = 1;
    q0 = p_shm_new("a", (unsigned long) ND_RANGE(1, VK_SEGMAX), ND_PERM(), NULL);
    VASSERT(q0 != NULL, "prologue create succeeds");
    VASSUME(q0 != NULL);
  }
  vk_cur = 0;
  vk_crash_at[0] = ND_RANGE(0, 16);
  PShm *p = NULL;
  int locked = 0;
  for (int i = 0; i < PCALLS; i++) {
    int op = ND_RANGE(0, 4);
    if (op == 0) {
      VASSUME(p == NULL);
      p = p_shm_new("a", (unsigned long) ND_RANGE(1, VK_SEGMAX), ND_PERM(), NULL);
      if (!vk_dead[0]) { VASSERT(p != NULL, "P: new succeeds while alive"); VASSUME(p != NULL); }
    } else if (op == 1) {
      VASSUME(p != NULL && !vk_dead[0] && !locked);
      (void) p_shm_lock(p, NULL);
      locked = 1;
    } else if (op == 2) {
      VASSUME(p != NULL && !vk_dead[0] && locked);
      (void) p_shm_unlock(p, NULL);
      locked = 0;
    } else if (op == 3) {
      VASSUME(p != NULL);
      p_shm_take_ownership(p);
    } else {
      VASSUME(p != NULL);
      p_shm_free(p);
      p = NULL;
    }
  }
  int crashed_inside = vk_dead[0];
  vk_kill(0);
#ifdef KF_OPEN_C07_crash_zero_size
  /* known finding: killed between shm_open(O_CREAT|O_EXCL) and ftruncate -> zero-length segment */
  { int o = vk_shm_linked(SHM_SLOT); VASSUME(!(o >= 0 && vk_shm_size(o) == 0)); }
#endif
  int left_shm = vk_shm_linked(SHM_SLOT), left_sem = vk_sem_linked(SEM_SLOT);

  /* recovery by a fresh process in P's place */
  vk_no_rescuer = 1;            /* everybody else is dead: nothing in the clean-up may wait for a semaphore */
  vk_dead[0] = 0; vk_crash_at[0] = 0; vk_cur = 0;
  unsigned long s1 = (unsigned long) ND_RANGE(1, VK_SEGMAX), s2 = (unsigned long) ND_RANGE(1, VK_SEGMAX);
  PShm *s = p_shm_new("a", s1, ND_PERM(), NULL);
  if (s != NULL) { p_shm_take_ownership(s); p_shm_free(s); }
  /* (a first attempt that fails is tolerated as long as creating again works) */
  PShm *c = p_shm_new("a", s2, ND_PERM(), NULL);
#ifdef KF_DEMO_ZERO
  if (left_shm >= 0 && vk_shm_size(left_shm) == 0) { VKF(c != NULL, "recovery after a kill between shm_open and ftruncate: p_shm_new succeeds"); VASSUME(c != NULL); }
#endif
  vk_no_rescuer = 0;
  VASSERT(c != NULL, "recovery: creating the segment again succeeds");
  VASSUME(c != NULL);
  unsigned char *a = (unsigned char *) p_shm_get_address(c);
  int obj = vk_shm_obj_at(a);
  VASSERT(obj >= 0 && obj == vk_shm_linked(SHM_SLOT), "recovery: new handle maps the segment published under the name");
  VASSUME(obj >= 0);
  VASSERT(obj != left_shm, "recovery: the old segment is gone, the name refers to a fresh one");
  VASSERT(p_shm_get_size(c) == s2 && (unsigned long) vk_shm_size(obj) == s2, "recovery: fresh segment has the newly requested size");
  unsigned long o = (unsigned long) ND_RANGE(0, VK_SEGMAX - 1);
  if (o < s2) VASSERT(a[o] == 0, "recovery: fresh segment reads as zero");
  VASSERT(vk_sem_linked(SEM_SLOT) >= 0 && vk_sem_linked(SEM_SLOT) != left_sem, "recovery: fresh lock semaphore");
  vk_expect_noblock = 1;
  pboolean ok = p_shm_lock(c, NULL);
  vk_expect_noblock = 0;
  VASSERT(ok == TRUE, "recovery: the lock of the fresh segment is free (even if the dead process held the old one)");
  VWITNESS("recovery completed");
  if (crashed_inside) VWITNESS("crash switch fired inside P's calls");
  if (crashed_inside && q0 != NULL) VWITNESS("crash with the segment pre-existing");
#ifndef KF_DEMO_ZERO
  if (!crashed_inside && locked) VWITNESS("P killed while holding the lock");
#endif
}
