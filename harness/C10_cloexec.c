/* C10 close-on-exec: every descriptor the library creates - p_socket_new for each family / type / protocol
 * combination the kernel accepts, and p_socket_accept - carries FD_CLOEXEC in the kernel's descriptor
 * table (and is non-blocking, as documented), whether or not the kernel honours SOCK_CLOEXEC at socket()
 * time (-DNO_SOCK_CLOEXEC: a kernel that ignores the flag, so only the fcntl path can set it). */
#include "C09_common.h"

#ifndef FAMILY
#define FAMILY AF_INET
#endif
#ifndef STREAM
#define STREAM 1
#endif

void harness(void) {
  vm_alloc_install(); vs_reset();
  p_socket_init_once();
#ifdef NO_SOCK_CLOEXEC
  vs.ignore_sock_cloexec = 1;
#endif
  PError *err = NULL;
  /* (protocol fixed per query: a symbolic argument of socket() would make the descriptor number symbolic) */
#ifdef PROTO_DEFAULT
  const PSocketProtocol proto = P_SOCKET_PROTOCOL_DEFAULT;
#else
  const PSocketProtocol proto = STREAM ? P_SOCKET_PROTOCOL_TCP : P_SOCKET_PROTOCOL_UDP;
#endif
  PSocket *S = p_socket_new((PSocketFamily) FAMILY, STREAM ? P_SOCKET_TYPE_STREAM : P_SOCKET_TYPE_DATAGRAM, proto, &err);
  VASSERT(S != NULL && err == NULL, "socket created");
  const int fd = p_socket_get_fd(S);
  VASSERT(VFD(open, fd) && VFD(cloexec, fd), "descriptor from p_socket_new is close-on-exec");
  VASSERT(VFD(nonblock, fd), "descriptor from p_socket_new is non-blocking");
  VASSERT(p_socket_get_protocol(S) == proto && p_socket_get_blocking(S) && p_socket_get_timeout(S) == 0 && p_socket_get_listen_backlog(S) == 5 &&
          !p_socket_get_keepalive(S) && !p_socket_is_connected(S) && !p_socket_is_closed(S), "initial getters");
  PSocket *X = NULL;
#if STREAM
  struct sockaddr_storage sl;
  int len = nd_native(FAMILY, &sl);
  PSocketAddress *addr = p_socket_address_new_from_native(&sl, (psize) len);
  VASSERT(addr != NULL && p_socket_bind(S, addr, TRUE, &err) && p_socket_listen(S, &err), "bind + listen");
  _Bool lka = ND_BOOL(), xka = ND_BOOL();
  p_socket_set_keepalive(S, nd_pbool(lka));       /* the accepted descriptor inherits the listener's option */
  VASSERT(VFD(keepalive, fd) == lka && (p_socket_get_keepalive(S) != 0) == lka, "listener: option and getter = truth(v)");
  vs_preconn(fd);
  vs.env_mask = 1 << VS_ENV_CONN; vs.env_kind = VS_ENV_CONN; vs.env_fd = fd;
  _Bool early = ND_BOOL();
  if (early) vs_env_fire();             /* client already queued / arrives while accept waits */
  p_socket_set_blocking(S, nd_pbool(early ? ND_BOOL() : TRUE));
  vs_begin_call(FAULTS, VS_M_EINTR | VS_M_EAGAIN);
  vs.nb_call = !p_socket_get_blocking(S);
  X = p_socket_accept(S, &err);
  if (X == NULL) VASSERT(!p_socket_get_blocking(S) && vs.nfaults > 0, "accept fails only by a spurious would-block on a non-blocking listener");
  else {
    const int xfd = p_socket_get_fd(X);
    VASSERT(xfd != fd && VFD(open, xfd) && VFD(cloexec, xfd), "descriptor from p_socket_accept is close-on-exec");
    VASSERT(VFD(nonblock, xfd), "descriptor from p_socket_accept is non-blocking");
    VASSERT(VFD(keepalive, xfd) == lka && (p_socket_get_keepalive(X) != 0) == lka, "get_keepalive of an accepted socket = the descriptor's (inherited) SO_KEEPALIVE option");
    p_socket_set_keepalive(X, nd_pbool(xka));
    VASSERT(VFD(keepalive, xfd) == xka && (p_socket_get_keepalive(X) != 0) == xka, "set_keepalive(v) on the accepted socket: descriptor option and getter = truth(v)");
    p_socket_free(X);
  }
  p_socket_address_free(addr);
#endif
  p_socket_free(S);
  VASSERT(vm_live == 0 && vs_open_count() == 0 && vs.bad_close == 0 && vs.bad_access == 0, "released");
  VWITNESS("end");
#if STREAM
  if (X != NULL && !early) VWITNESS("accepted a client that arrived during the wait");
#endif
}
