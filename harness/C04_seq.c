/* C04 sequential + interference harness (Engine A, all operand values, any number of other threads).
 * Each of the 16 p_atomic_* functions is run once on a word with symbolic content and symbolic operands (full 32/64 bit).
 * "Other threads" are modelled by interference: at every point where the calling thread is NOT inside its indivisible access
 *   c11/sync : immediately before and immediately after each builtin operation (VMA_PRE_HOOK / VMA_POST_HOOK of atomics_model.h)
 *   sim      : before the global mutex is acquired and after it is released (hooks of models/C04_mutex.c)
 * the word may be overwritten with an arbitrary value (symbolic choice; "no interference" is one of the choices, which gives
 * the plain single-threaded claim).  s1 = word right after the pre-interference, s2 = word right before the post-interference.
 * Asserted for every op: exactly ONE indivisible access is made, it is made on the right word, the value returned is f_ret(s1, operands)
 * and the word it leaves is f_new(s1, operands) with f = wrapping C word arithmetic.  An implementation that splits the access
 * (load ... store, store after unlock, read before lock) or computes another function fails for some operand or interference.
 * sync get/set are fence + plain access: the fence hook checks the documented placement (store before fence / load after fence). */
#define VMA_IMPL
#include "atomics_model.h"
#include "verif.h"
#include <patomic.h>
#include <pmem.h>
__CPROVER_thread_local int c04_tid;
extern void p_atomic_thread_init(void);
extern void p_atomic_thread_shutdown(void);
extern int c04_mx_owner, c04_mx_inited, c04_mx_locks, c04_mx_unlocks;

static volatile puint X;  static volatile psize XW;
static puint s1, s2, sF;  static psize s1w, s2w, sFw;
static int npre, npost, nhavoc, other_word;

static void interfere(void) { if (ND_BOOL()) { X = ND_UINT(); XW = ND_ULL(); nhavoc++; } }
static void pre(const volatile void *w) {
  npre++;
  if (w != NULL && w != (const volatile void *) &X && w != (const volatile void *) &XW) other_word++;
  sF = X; sFw = XW;
  interfere();
  s1 = X; s1w = XW;
}
static void post(const volatile void *w) {
  (void) w; npost++;
  s2 = X; s2w = XW;
  interfere();
}
#ifdef MODEL_SIM
void c04_lock_hook(void)   { VASSERT(c04_mx_owner == 1, "sim: mutex held inside the critical section"); pre(NULL); }
void c04_unlock_hook(void) { post(NULL); }
#else
void c04_pre(const volatile void *w)  { pre(w); }
void c04_post(const volatile void *w) { post(w); }
#endif

#define START() do { npre = npost = 0; X = ND_UINT(); XW = ND_ULL(); } while (0)
#define ONE(name) VASSERT(npre == 1 && npost == 1 && other_word == 0, name ": exactly one indivisible access, on the given word")

void harness(void) {
#ifdef MODEL_SIM
  p_mem_restore_vtable();
#endif
  p_atomic_thread_init();
  c04_tid = 0;
  { /* ---- int get */
    START(); puint r = (puint) p_atomic_int_get((const volatile pint *) &X); ONE("int_get");
#ifdef MODEL_SYNC   /* fence, then plain load: a change of the word at/after the fence must be observed */
    VASSERT(r == X, "int_get (sync): the load is performed after the full fence");
#else
    VASSERT(r == s1, "int_get returns the current word");
#endif
    VASSERT(s2 == s1, "int_get leaves the word unchanged");
  }
  { /* ---- int set */
    puint v = ND_UINT(); START(); p_atomic_int_set((volatile pint *) &X, (pint) v); ONE("int_set");
#ifdef MODEL_SYNC
    VASSERT(sF == v, "int_set (sync): the store is performed before the full fence");
#else
    VASSERT(s2 == v, "int_set stores the value");
#endif
  }
  { /* ---- int inc */
    START(); p_atomic_int_inc((volatile pint *) &X); ONE("int_inc");
    VASSERT(s2 == (puint) (s1 + 1u), "int_inc stores old + 1 (wrapping)");
    if (s1 == 0x7fffffffu) VWITNESS("inc at INT_MAX");
  }
  { /* ---- int dec_and_test */
    START(); pboolean r = p_atomic_int_dec_and_test((volatile pint *) &X); ONE("int_dec_and_test");
    VASSERT(s2 == (puint) (s1 - 1u), "int_dec_and_test stores old - 1 (wrapping)");
    VASSERT((r == TRUE) == (s2 == 0) && (r == TRUE || r == FALSE), "int_dec_and_test returns TRUE exactly when the new value is zero");
    if (r) VWITNESS("dec reaches zero");
    if (s1 == 0x80000000u) VWITNESS("dec at INT_MIN");
  }
  { /* ---- int CAS */
    puint o = ND_UINT(), n = ND_UINT(); START(); pboolean r = p_atomic_int_compare_and_exchange((volatile pint *) &X, (pint) o, (pint) n); ONE("int_cas");
    VASSERT((r != FALSE) == (s1 == o), "int_compare_and_exchange succeeds exactly when word == expected");
    VASSERT(s2 == (s1 == o ? n : s1), "int_compare_and_exchange stores the new value iff it succeeds");
    VASSERT(r == TRUE || r == FALSE, "int_compare_and_exchange returns a pboolean");
    if (r) VWITNESS("cas succeeds"); else VWITNESS("cas fails");
  }
  { /* ---- int add */
    puint v = ND_UINT(); START(); puint r = (puint) p_atomic_int_add((volatile pint *) &X, (pint) v); ONE("int_add");
    VASSERT(r == s1, "int_add returns the old word");
    VASSERT(s2 == (puint) (s1 + v), "int_add stores old + val (wrapping)");
    if ((pint) s1 > 0 && (pint) v > 0 && (pint) (s1 + v) < 0) VWITNESS("add wraps");
  }
  { puint v = ND_UINT(); START(); puint r = p_atomic_int_and(&X, v); ONE("int_and");
    VASSERT(r == s1, "int_and returns the old word"); VASSERT(s2 == (s1 & v), "int_and stores old & val"); }
  { puint v = ND_UINT(); START(); puint r = p_atomic_int_or(&X, v); ONE("int_or");
    VASSERT(r == s1, "int_or returns the old word"); VASSERT(s2 == (s1 | v), "int_or stores old | val"); }
  { puint v = ND_UINT(); START(); puint r = p_atomic_int_xor(&X, v); ONE("int_xor");
    VASSERT(r == s1, "int_xor returns the old word"); VASSERT(s2 == (s1 ^ v), "int_xor stores old ^ val"); }
  /* ---- pointer-sized variants */
  { START(); psize r = (psize) p_atomic_pointer_get((const volatile void *) &XW); ONE("pointer_get");
#ifdef MODEL_SYNC
    VASSERT(r == XW, "pointer_get (sync): the load is performed after the full fence");
#else
    VASSERT(r == s1w, "pointer_get returns the current word");
#endif
    VASSERT(s2w == s1w, "pointer_get leaves the word unchanged"); }
  { psize v = ND_ULL(); START(); p_atomic_pointer_set((volatile void *) &XW, (ppointer) v); ONE("pointer_set");
#ifdef MODEL_SYNC
    VASSERT(sFw == v, "pointer_set (sync): the store is performed before the full fence");
#else
    VASSERT(s2w == v, "pointer_set stores the value");
#endif
  }
  { psize o = ND_ULL(), n = ND_ULL(); START();
    pboolean r = p_atomic_pointer_compare_and_exchange((volatile void *) &XW, (ppointer) o, (ppointer) n); ONE("pointer_cas");
    VASSERT((r != FALSE) == (s1w == o), "pointer_compare_and_exchange succeeds exactly when word == expected");
    VASSERT(s2w == (s1w == o ? n : s1w), "pointer_compare_and_exchange stores the new value iff it succeeds");
    VASSERT(r == TRUE || r == FALSE, "pointer_compare_and_exchange returns a pboolean");
    if (r) VWITNESS("pointer cas succeeds"); else VWITNESS("pointer cas fails");
  }
  { psize v = ND_ULL(); START(); psize r = (psize) p_atomic_pointer_add((volatile void *) &XW, (pssize) v); ONE("pointer_add");
    VASSERT(r == s1w, "pointer_add returns the old word"); VASSERT(s2w == (psize) (s1w + v), "pointer_add stores old + val (wrapping)");
    if (s1w + v < s1w) VWITNESS("pointer add wraps"); }
  { psize v = ND_ULL(); START(); psize r = p_atomic_pointer_and((volatile void *) &XW, v); ONE("pointer_and");
    VASSERT(r == s1w, "pointer_and returns the old word"); VASSERT(s2w == (s1w & v), "pointer_and stores old & val"); }
  { psize v = ND_ULL(); START(); psize r = p_atomic_pointer_or((volatile void *) &XW, v); ONE("pointer_or");
    VASSERT(r == s1w, "pointer_or returns the old word"); VASSERT(s2w == (s1w | v), "pointer_or stores old | val"); }
  { psize v = ND_ULL(); START(); psize r = p_atomic_pointer_xor((volatile void *) &XW, v); ONE("pointer_xor");
    VASSERT(r == s1w, "pointer_xor returns the old word"); VASSERT(s2w == (s1w ^ v), "pointer_xor stores old ^ val"); }
#ifdef MODEL_SIM
  VASSERT(c04_mx_locks == 16 && c04_mx_unlocks == 16 && c04_mx_owner == 0, "sim: every operation locks and unlocks the global mutex exactly once");
  VASSERT(p_atomic_is_lock_free() == FALSE, "sim reports not lock-free");
  p_atomic_thread_shutdown();
  VASSERT(c04_mx_inited == 0, "sim: shutdown destroys the mutex");
#else
  VASSERT(p_atomic_is_lock_free() == TRUE, "c11/sync report lock-free");
#endif
  if (nhavoc == 0) VWITNESS("no interference at all (single-threaded run)");
  if (nhavoc >= 32) VWITNESS("interference before and after every operation");
  VWITNESS("end");
}
