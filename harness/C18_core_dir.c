/* C18/C20 core / pdir-posix.c: p_dir_new -> p_dir_get_path -> p_dir_get_next_entry until the end ->
 * p_dir_rewind -> one more entry -> p_dir_free, plus p_dir_create / p_dir_remove, against
 * models/dir_model.c (DIR-stream ledger).
 *   C18 queries: failing allocator (k symbolic), environment never fails (ENV_KMAX=0).
 *   C20 queries: -DNOFAIL (no allocation failure) and ENV_KMAX>0: <= ENV_MAXFAULTS failures at symbolic positions of opendir/readdir/stat/mkdir/rmdir.
 * Documented results (pdir.h): p_dir_new NULL (+ error), p_dir_get_path NULL, p_dir_get_next_entry NULL (+ error);
 * accepted as degraded: an entry of type OTHER when the path for stat() cannot be allocated or stat() fails;
 * an error report that is missing or has no message when its own allocations fail. */
#if defined(KF_DEMO_C18_dir_new_path) || defined(KF_DEMO_C18_dir_new_orig_path) || defined(KF_DEMO_C18_dir_entry_name)
#define KF_DEMO 1
#endif
#if defined(KF_DEMO_C18_dir_new_path) || defined(KF_DEMO_C18_dir_entry_name)
#define KF_DEMO_CUT 1     /* the demonstrated failure ends the path (models/dir_model.c vm_kf_strlen): no end-of-script witnesses */
#endif
#include "C18_core.h"
#include "dir_model.h"
#include <pdir.h>
#include <perror.h>
#ifndef NENT
#define NENT 2
#endif
static const char *const names[3] = {"a", "bc", "def"};

/* known-finding plumbing: class = "the n-th request of THIS call is the failing one" */
#define EXCLUDE_NTH(n) VASSUME(!C18_NTH_FAILS(n))
#define DEMO_NTH(n)    VASSUME(C18_NTH_FAILS(n))

static void finish(PDir *d, PError *err, int nsucc) {
  p_dir_free(d);
  p_error_free(err);
  VASSERT(vm_dir_open == 0 && vm_dir_opened == vm_dir_closed, "every directory stream opened by the script is closed");
  c18_end(nsucc);
#if ENV_KMAX > 0
#  ifdef ENV_FIRST
  if (vm_dir_faults >= 1) VWITNESS("the forced environment failure was injected");
#  else
  if (vm_dir_faults == ENV_MAXFAULTS) VWITNESS("all allowed environment failures injected");
  if (vm_dir_faults == 0) VWITNESS("environment without failure");
#  endif
#endif
}

static void script(void) {
  c18_begin();
  vm_dir_fault_at[0] = c18_env_fault[0]; vm_dir_fault_at[1] = c18_env_fault[1];
#ifdef NENT_SYMBOLIC
  vm_dir_nentries = c18_choice;            /* NCHOICE = NENT + 1: directory with 0..NENT entries */
#else
  vm_dir_nentries = NENT;
#endif
  PError *err = NULL;
  int f0 = vm_failed, r0 = vm_dir_faults;
#ifdef KF_OPEN_C18_dir_new_path
  EXCLUDE_NTH(2);
#endif
#ifdef KF_OPEN_C18_dir_new_orig_path
  EXCLUDE_NTH(3);
#endif
#ifdef KF_DEMO_C18_dir_new_path
  DEMO_NTH(2);
#endif
#ifdef KF_DEMO_C18_dir_new_orig_path
  DEMO_NTH(3);
#endif
#ifdef KF_DEMO
  VWITNESS("demonstration: p_dir_new called in the failing class");
#endif
  PDir *d = p_dir_new("/tmp/x/", &err);
  int afail = C18_FAILED_SINCE(f0), rfail = vm_dir_faults > r0;
  if (d == NULL) {
    VASSERT(afail || rfail, "p_dir_new fails only when opendir or an allocation fails");
    VASSERT(vm_dir_open == 0, "failed p_dir_new leaves no directory stream open");
    if (err == NULL) VASSERT(afail, "the error report is missing only when its own allocation failed");
    else if (rfail) VASSERT(p_error_get_domain(err) == P_ERROR_DOMAIN_IO, "opendir failure reported as I/O error");
    else VASSERT(p_error_get_code(err) == (pint) P_ERROR_IO_NO_RESOURCES, "allocation failure reported as NO_RESOURCES");
    p_error_free(err); err = NULL;
    VASSERT(vm_live == c18_base, "failed p_dir_new leaves nothing allocated");
    finish(NULL, NULL, 0);
    return;
  }
  VASSERT(err == NULL, "no error report on success");
  VASSERT(vm_dir_open == 1, "one stream open");

  f0 = vm_failed;
  int live0 = vm_live;
  pchar *path = p_dir_get_path(d);
  if (C18_FAILED_SINCE(f0)) { VASSERT(path == NULL, "p_dir_get_path returns NULL when its allocation fails"); VASSERT(vm_live == live0, "nothing allocated"); }
  else {
#ifdef KF_DEMO_C18_dir_new_orig_path
    VKF(path != NULL, "p_dir_get_path delivers the path of a PDir that p_dir_new returned as success");
#else
    VASSERT(path != NULL && c18_streq(path, "/tmp/x/"), "p_dir_get_path delivers the original path when no allocation fails");
#endif
  }
  p_free(path);

  int delivered = 0, prev_afail = 0, prev_index = -1, continued = 0;
  for (int i = 0; i < NENT + 2; i++) {
    PError *perr = NULL;
    if (i == NENT + 1) VASSERT(p_dir_rewind(d, NULL) == TRUE, "rewind succeeds");
    f0 = vm_failed; r0 = vm_dir_faults;
    int s0 = vm_dir_stat_calls, rd0 = vm_dir_readdir_calls;
#ifdef KF_OPEN_C18_dir_entry_name
    EXCLUDE_NTH(2);
#endif
#ifdef KF_DEMO_C18_dir_entry_name
    if (i == 0) DEMO_NTH(2); 
#endif
#ifdef KF_DEMO_C18_dir_entry_name
    if (i == 0) VWITNESS("demonstration: p_dir_get_next_entry called in the failing class");
#endif
    PDirEntry *e = p_dir_get_next_entry(d, &perr);
    afail = C18_FAILED_SINCE(f0); rfail = vm_dir_faults > r0;
    VASSERT(vm_dir_readdir_calls > rd0, "the stream is read");
    if (e == NULL) {
      if (!afail && !rfail) { VASSERT(vm_dir_last_index == vm_dir_nentries - 1 || vm_dir_nentries == 0 || i == NENT + 1, "NULL without failure only at the end of the directory"); VASSERT(perr == NULL, "end of directory is not an error"); }
      if (perr == NULL && rfail && vm_dir_stat_calls == s0) VASSERT(afail, "readdir failure is reported unless the report cannot be allocated");
    } else {
      delivered++;
      VASSERT(vm_dir_last_index >= 0 && c18_streq(e->name, names[vm_dir_last_index]), "entry carries the name readdir delivered");
      /* the call after one that failed for lack of memory continues the enumeration with the following entry */
      if (prev_afail && i != NENT + 1) { VASSERT(vm_dir_last_index == prev_index + 1, "enumeration continues after a call that failed for lack of memory"); continued = 1; }
      VASSERT(e->type == P_DIR_ENTRY_TYPE_DIR || e->type == P_DIR_ENTRY_TYPE_FILE || e->type == P_DIR_ENTRY_TYPE_OTHER, "valid type");
      if (afail || rfail) VASSERT(e->type == P_DIR_ENTRY_TYPE_OTHER, "degraded entry (no stat) has type OTHER");
      VASSERT(perr == NULL, "no error report with a delivered entry");
      p_dir_entry_free(e);
    }
    p_error_free(perr);
    VASSERT(vm_dir_open == 1, "stream stays open");
    prev_afail = afail && e == NULL; prev_index = vm_dir_last_index;
  }

  /* directory creation / removal: no allocation unless an error is reported */
  PError *cerr = NULL;
  f0 = vm_failed; r0 = vm_dir_faults;
  pboolean ok = p_dir_create("/tmp/y", 0755, &cerr);
  if (!ok) { VASSERT(vm_dir_faults > r0, "p_dir_create fails only when mkdir fails"); if (cerr == NULL) VASSERT(C18_FAILED_SINCE(f0), "failure reported"); }
  else VASSERT(cerr == NULL, "no report on success");
  p_error_free(cerr); cerr = NULL;
  f0 = vm_failed;
  ok = p_dir_remove("/tmp/y", &cerr);
  if (!ok && cerr == NULL) VASSERT(C18_FAILED_SINCE(f0), "p_dir_remove failure reported unless the report cannot be allocated");
  if (ok) VASSERT(cerr == NULL, "no report on success");
  p_error_free(cerr);

  finish(d, err, 4 + 3 * (NENT + 1));
#if !defined(KF_DEMO) && !defined(NOFAIL) && ENV_KMAX == 0
  if (continued) VWITNESS("a call failed for lack of memory and the next one delivered the following entry");
#else
  (void) continued;
#endif
#if !defined(KF_DEMO) && !defined(ENV_FIRST)
  if (delivered == NENT + 1) VWITNESS("all entries delivered, and the first one again after rewind");
#endif
}
