/* C13 (balance invariants, depth bound) instance of the shared tree step harness */
#define CHK_BAL 1
#include "trees_step.h"
