/* C07: p_shm_lock / p_shm_unlock as ONE system-wide mutex per name under handled signals: sem_wait is
 * interrupted (EINTR) at a symbolic subset (<= EINTR_MAX) of its invocations while process P (0) locks;
 * process Q (1) may or may not hold the lock.  p_shm_lock returns only with the unit taken: TRUE, the
 * lock value goes 1 -> 0, and it never returns while Q holds the lock (a return of FALSE there is the
 * caller proceeding without mutual exclusion). */
#include "verif.h"
#include "alloc.h"
#include "kernel_ipc.h"
#include <pmem.h>
#include <pshm.h>
/* access permission of every open is symbolic: ownership, naming, sizes, lock and clean-up must not depend on it */
#define ND_PERM() (ND_BOOL() ? P_SHM_ACCESS_READWRITE : P_SHM_ACCESS_READONLY)
#ifndef EINTR_MAX
#define EINTR_MAX 2
#endif
#define SEM_SLOT 4
void vk_other(void) {}
void harness(void) {
  vm_alloc_install();
  unsigned long sz = (unsigned long) ND_RANGE(1, VK_SEGMAX);
  vk_cur = 0; PShm *p = p_shm_new("a", sz, ND_PERM(), NULL);
  vk_cur = 1; PShm *q = p_shm_new("a", sz, ND_PERM(), NULL);
  VASSERT(p != NULL && q != NULL, "both processes attached");
  VASSUME(p != NULL && q != NULL);
  int so = vk_sem_linked(SEM_SLOT);
  int q_holds = ND_BOOL();
  if (q_holds) { vk_cur = 1; vk_expect_noblock = 1; VASSERT(p_shm_lock(q, NULL) == TRUE, "Q takes the free lock"); vk_expect_noblock = 0; }
  vk_cur = 0;
  vk_eintr_budget = ND_RANGE(0, EINTR_MAX);
  vk_expect_noblock = !q_holds;
  PError *err = NULL;
  pboolean ok = p_shm_lock(p, &err);        /* with Q holding the lock a correct call never returns: the path ends in the model */
  vk_expect_noblock = 0;
  vk_eintr_budget = 0;
  VASSERT(!q_holds, "p_shm_lock returned although another process holds the lock of this name");
  VASSERT(ok == TRUE && err == NULL, "p_shm_lock returns TRUE, without error, when the lock is free - interrupted or not");
  VASSERT(vk_sem_value(so) == 0, "the unit is taken exactly once");
  VASSERT(p_shm_unlock(p, NULL) == TRUE && vk_sem_value(so) == 1, "unlock releases it");
  VWITNESS("lock under interruptions completed");
  if (vk_eintr_seen == EINTR_MAX) VWITNESS("sem_wait interrupted EINTR_MAX times before the lock was taken");
}
