/* shared by the socket harnesses (C09, C10, C18/C19/C20 socket parts) */
#ifndef C09_COMMON_H
#define C09_COMMON_H
#include "verif.h"
#include "alloc.h"
#include "kernel_sock.h"
#include <errno.h>
#undef errno
#include <pmem.h>
#include <perror.h>
#include <psocketaddress.h>
#include <psocket.h>

pboolean p_socket_init_once(void);

#ifndef FAULTS
#define FAULTS 2
#endif

/* descriptor attribute: VFD(field, fd) from kernel_sock.h */

/* error recorder (models/sock_errrec.c) */
extern int vs_err_code, vs_err_native, vs_err_sets;
#ifdef ERRREC
#define ERR_CODE(e)   vs_err_code
#define ERR_NATIVE(e) vs_err_native
#define ERR_FREE(e)   ((void) 0)
#else
#define ERR_CODE(e)   p_error_get_code(e)
#define ERR_NATIVE(e) p_error_get_native_code(e)
#define ERR_FREE(e)   p_error_free(e)
#endif

/* errno -> PErrorIO as documented in perrortypes.h, written independently of perror.c for the codes
 * the socket layer can meet */
static inline int ref_io_code(int e) {
  switch (e) {
  case EAGAIN: return P_ERROR_IO_WOULD_BLOCK;
  case EINPROGRESS: case EALREADY: return P_ERROR_IO_IN_PROGRESS;
  case EISCONN: return P_ERROR_IO_CONNECTED;
  case ECONNREFUSED: return P_ERROR_IO_CONNECTION_REFUSED;
  case ENOTCONN: return P_ERROR_IO_NOT_CONNECTED;
  case ECONNABORTED: return P_ERROR_IO_ABORTED;
  case EADDRINUSE: return P_ERROR_IO_ADDRESS_IN_USE;
  case ETIMEDOUT: return P_ERROR_IO_TIMED_OUT;
  case EINVAL: case EBADF: case ENOTSOCK: case EFAULT: return P_ERROR_IO_INVALID_ARGUMENT;
  case ENOMEM: case ENOBUFS: case EMFILE: case ENFILE: return P_ERROR_IO_NO_RESOURCES;
  case EACCES: case EPERM: return P_ERROR_IO_ACCESS_DENIED;
  case EOPNOTSUPP: case EAFNOSUPPORT: case EPROTONOSUPPORT: case ENOPROTOOPT: return P_ERROR_IO_NOT_SUPPORTED;
  case ENETUNREACH: case EHOSTUNREACH: case EADDRNOTAVAIL: return P_ERROR_IO_NOT_AVAILABLE;
  default: return P_ERROR_IO_FAILED;    /* EPIPE, ECONNRESET, EMSGSIZE, EDESTADDRREQ, ... : general error */
  }
}

/* symbolic native address of the given family: port and address bytes arbitrary (port != 0) */
static inline int nd_native(int family, struct sockaddr_storage *ss) {
  unsigned char *p = (unsigned char *) ss;
  for (int k = 0; k < (int) sizeof(struct sockaddr_in6); k++) p[k] = 0;
  if (family == AF_INET) {
    struct sockaddr_in *s4 = (struct sockaddr_in *) ss;
    s4->sin_family = AF_INET; s4->sin_port = (in_port_t) ND_UINT(); s4->sin_addr.s_addr = ND_UINT();
    VASSUME(s4->sin_port != 0);
    return (int) sizeof(struct sockaddr_in);
  } else {
    struct sockaddr_in6 *s6 = (struct sockaddr_in6 *) ss;
    s6->sin6_family = AF_INET6; s6->sin6_port = (in_port_t) ND_UINT();
    unsigned long long hi = ND_ULL(), lo = ND_ULL();
    for (int k = 0; k < 8; k++) { s6->sin6_addr.s6_addr[k] = (unsigned char) (hi >> (8 * k)); s6->sin6_addr.s6_addr[8 + k] = (unsigned char) (lo >> (8 * k)); }
    s6->sin6_flowinfo = ND_UINT(); s6->sin6_scope_id = ND_UINT();
    VASSUME(s6->sin6_port != 0);
    return (int) sizeof(struct sockaddr_in6);
  }
}

/* a pboolean argument with the given truth value: ANY int whose truthiness is `want` (pboolean is a plain
 * int; every non-zero value is a legitimate TRUE, e.g. `flags & 0x2`) */
static inline pboolean nd_pbool(_Bool want) {
  int v = ND_INT();
  VASSUME((v != 0) == want);
  return (pboolean) v;
}

/* byte-wise equality of two buffers of n <= VS_ALEN bytes, decided at ONE symbolic position (the solver
 * ranges over all positions): same verdict as a comparison loop, much smaller formula */
static inline _Bool same_bytes(const void *a, const void *b, int n) {
  int k = ND_RANGE(0, VS_ALEN - 1);
  return k >= n || ((const unsigned char *) a)[k] == ((const unsigned char *) b)[k];
}
/* CBMC 6.11 pitfall (probed, reproduced in 10 lines): a pointer into a ROW of a global 2-D array
 * dereferenced with a SYMBOLIC index reads unconstrained garbage (direct 2-D indexing and constant indices
 * through the pointer are fine).  Kernel-table rows are therefore copied with constant indices before
 * they are compared at a symbolic position. */
static inline _Bool same_row(const unsigned char *row, const void *b, int n) {
  unsigned char tmp[VS_ALEN];
  for (int k = 0; k < VS_ALEN; k++) tmp[k] = k < n ? row[k] : 0;
  return same_bytes(tmp, b, n);
}
#endif
