/* C02 sequential queries on the real code (one thread, both implementations):
 *  default   : trylock semantics on a quiescent lock and under holds taken by the same thread:
 *              free -> reader_trylock TRUE, second reader TRUE (sharing), writer_trylock FALSE and returns;
 *              after both reader unlocks writer_trylock TRUE; under the writer reader_trylock / writer_trylock FALSE;
 *              after writer unlock the lock is free again (blocking calls return immediately on a free lock).
 *  -DRC_MAP  : -DVM_PT_FAULTS: the first pthread call inside an operation fails with a symbolic non-zero code:
 *              the operation reports FALSE (p_rwlock_new: NULL) and nothing is granted.
 *  -DIMPL_GENERAL selects the storage/ghost for prwlock-general.c, otherwise prwlock-posix.c.
 */
#include "verif.h"
#include "pthread_model.h"
#include <pmem.h>
#include <pmutex.h>
#include <pcondvariable.h>
#include <prwlock.h>

#include "C01_store.h"

#ifdef IMPL_GENERAL
#define READERS() ((int) (st_rw.active_threads & 0x7FFF))
#define WRITERS() ((int) ((st_rw.active_threads & 0x3FFF8000) >> 15))
#define QUIET()   (st_rw.active_threads == 0 && st_rw.waiting_threads == 0 && vm_mutex_owner(0) == 0)
#else
#define READERS() vm_rwlock_readers(0)
#define WRITERS() (vm_rwlock_writer(0) != 0)
#define QUIET()   (vm_rwlock_readers(0) == 0 && vm_rwlock_writer(0) == 0)
#endif

void harness(void) {
#ifndef RC_MAP
  PRWLock *l = p_rwlock_new();
  VASSERT(l != NULL, "p_rwlock_new succeeds");
  VASSERT(QUIET(), "new lock is free");
  int first = ND_RANGE(0, 1);   /* trylock or blocking call first: both must grant on a free lock */
  VASSERT((first ? p_rwlock_reader_lock(l) : p_rwlock_reader_trylock(l)) == TRUE, "reader (try)lock on a free lock returns TRUE");
  VASSERT(READERS() == 1 && WRITERS() == 0, "one reader recorded");
  VASSERT(p_rwlock_reader_trylock(l) == TRUE, "second reader trylock returns TRUE (readers share)");
  VASSERT(READERS() == 2 && WRITERS() == 0, "two readers recorded");
  VASSERT(p_rwlock_writer_trylock(l) == FALSE, "writer trylock under readers returns FALSE");
  VWITNESS("writer trylock under readers returned (did not block)");
  VASSERT(READERS() == 2 && WRITERS() == 0, "failed writer trylock changes nothing");
  VASSERT(p_rwlock_reader_unlock(l) == TRUE, "reader unlock TRUE");
  VASSERT(p_rwlock_writer_trylock(l) == FALSE, "writer trylock under one remaining reader returns FALSE");
  VASSERT(p_rwlock_reader_unlock(l) == TRUE, "reader unlock TRUE (2)");
  VASSERT(QUIET(), "free after the last reader left");
  VASSERT((first ? p_rwlock_writer_lock(l) : p_rwlock_writer_trylock(l)) == TRUE, "writer (try)lock on a free lock returns TRUE");
  VASSERT(READERS() == 0 && WRITERS() == 1, "one writer recorded");
  VASSERT(p_rwlock_reader_trylock(l) == FALSE, "reader trylock under a writer returns FALSE");
  VASSERT(p_rwlock_writer_trylock(l) == FALSE, "writer trylock under a writer returns FALSE");
  VWITNESS("trylocks under a writer returned (did not block)");
  VASSERT(READERS() == 0 && WRITERS() == 1, "failed trylocks change nothing");
  VASSERT(p_rwlock_writer_unlock(l) == TRUE, "writer unlock TRUE");
  VASSERT(QUIET(), "free after the writer left");
  VASSERT(p_rwlock_reader_trylock(l) == TRUE && p_rwlock_reader_unlock(l) == TRUE, "reader trylock after writer unlock TRUE");
  VASSERT(p_rwlock_reader_lock(NULL) == FALSE && p_rwlock_reader_trylock(NULL) == FALSE && p_rwlock_reader_unlock(NULL) == FALSE &&
          p_rwlock_writer_lock(NULL) == FALSE && p_rwlock_writer_trylock(NULL) == FALSE && p_rwlock_writer_unlock(NULL) == FALSE,
          "NULL lock => FALSE");
  p_rwlock_free(l);
  VASSERT(st_nfree == st_nalloc, "free releases what new allocated");
  VWITNESS("end");
#else
  int code = ND_INT();
  VASSUME(code != 0);
  vm_fault_code = code;
  int which = ND_RANGE(0, 6);
#ifndef IMPL_GENERAL
  if (which == 0) {
    vm_fault_armed = 1;
    PRWLock *l0 = p_rwlock_new();
    VASSERT(l0 == NULL, "pthread_rwlock_init failure => p_rwlock_new returns NULL");
    VASSERT(st_nfree == st_nalloc, "p_rwlock_new releases the block on failure");
    VWITNESS("init failure");
    return;
  }
#else
  VASSUME(which != 0);   /* creation failure of the general model is C18's subject (known use-after-free there) */
#endif
  PRWLock *l = p_rwlock_new();
  VASSERT(l != NULL, "p_rwlock_new succeeds");
  pboolean r = TRUE;
  int rd = 0, wr = 0;
  /* every case is a separate straight-line path (no state merge before a blocking call) */
  if (which == 1)      { vm_fault_armed = 1; r = p_rwlock_reader_lock(l); }
  else if (which == 2) { vm_fault_armed = 1; r = p_rwlock_reader_trylock(l); }
  else if (which == 3) { vm_fault_armed = 1; r = p_rwlock_writer_lock(l); }
  else if (which == 4) { vm_fault_armed = 1; r = p_rwlock_writer_trylock(l); }
  else if (which == 5) {
    VASSERT(p_rwlock_reader_trylock(l) == TRUE, "reader trylock TRUE");
    rd = 1; vm_fault_armed = 1; r = p_rwlock_reader_unlock(l);
  } else {
    VASSERT(p_rwlock_writer_trylock(l) == TRUE, "writer trylock TRUE");
    wr = 1; vm_fault_armed = 1; r = p_rwlock_writer_unlock(l);
  }
  VASSERT(vm_fault_armed == 0 && vm_fault_hits == 1, "the operation made the (failing) platform call");
  VASSERT(r == FALSE, "platform call fails with a non-zero code => the operation returns FALSE");
  VASSERT(READERS() == rd && WRITERS() == wr, "a failed operation grants / releases nothing");
  if (which == 1) VWITNESS("reader_lock failure");
  if (which == 4) VWITNESS("writer_trylock failure");
  if (which == 6) VWITNESS("writer_unlock failure");
  VWITNESS("end");
#endif
}
