/* C07 recovery from an ARBITRARY leftover kernel state of the name (whatever any sequence of killed
 * processes - users, owners in the middle of p_shm_free, cleaners themselves - may have left behind):
 *   segment linked or not, of any size 0..VK_SEGMAX with arbitrary bytes; lock semaphore linked or not,
 *   with any value 0..2; no process attached.
 * A fresh process then follows pshm.h: p_shm_new; (look at it); take ownership; p_shm_free; p_shm_new.
 *   - if no segment was left, the FIRST p_shm_new already creates one: it must be fresh (requested size,
 *     zeroed) and its lock must be free whatever semaphore was lying around;
 *   - after the clean-up the final handle is a fresh zeroed segment of the newly requested size whose lock
 *     is one free mutex: lock succeeds, a second locker blocks, unlock makes it available again.
 * Excluded exactly: the open finding C07_crash_zero_size (leftover segment of length 0; demonstrated by crash_recovery_kfdemo). */
#include "verif.h"
#include "alloc.h"
#include "kernel_ipc.h"
#include <pmem.h>
#include <pshm.h>
/* access permission of every open is symbolic: ownership, naming, sizes, lock and clean-up must not depend on it */
#define ND_PERM() (ND_BOOL() ? P_SHM_ACCESS_READWRITE : P_SHM_ACCESS_READONLY)
#define SHM_SLOT 2
#define SEM_SLOT 4

void vk_other(void) {}

static void check_fresh(PShm *h, unsigned long want, int old_shm, int old_sem, int proc) {
  unsigned char *a = (unsigned char *) p_shm_get_address(h);
  int obj = vk_shm_obj_at(a);
  VASSERT(obj >= 0 && obj == vk_shm_linked(SHM_SLOT), "handle maps the segment published under the name");
  VASSUME(obj >= 0);
  VASSERT(obj != old_shm, "the segment is a fresh one, not the leftover");
  VASSERT(p_shm_get_size(h) == want && (unsigned long) vk_shm_size(obj) == want, "fresh segment has exactly the requested size");
  VASSERT((unsigned long) vk_map_len(proc, a) >= want, "mapped completely");
  unsigned long o = (unsigned long) ND_RANGE(0, VK_SEGMAX - 1);
  if (o < want) VASSERT(a[o] == 0, "fresh segment reads as zero");
  int so = vk_sem_linked(SEM_SLOT);
  VASSERT(so >= 0 && so != old_sem, "fresh lock semaphore, not the leftover");
  VASSERT(so >= 0 && vk_sem_value(so) == 1, "the lock of a fresh segment is free (exactly one unit)");
}

void harness(void) {
  vm_alloc_install();
  /* ---- arbitrary leftover ---- */
  int left_shm = -1, left_sem = -1;
  if (ND_BOOL()) {
    long sz = ND_RANGE(0, VK_SEGMAX);
#ifdef KF_OPEN_C07_crash_zero_size
    VASSUME(sz != 0);
#endif
    left_shm = vk_setup_shm(SHM_SLOT, sz);
    unsigned char *m = vk_shm_mem(left_shm);
    for (int i = 0; i < VK_SEGMAX; i++) m[i] = ND_UCHAR();
  }
  if (ND_BOOL()) left_sem = vk_setup_sem(SEM_SLOT, ND_RANGE(0, 2));
#ifdef KF_OPEN_C06_create_existing
  VASSUME(!(left_shm < 0 && left_sem >= 0));   /* creator meets an existing lock semaphore: CREATE on an existing name */
#endif
  /* ---- documented clean-up by a fresh process ---- */
  vk_no_rescuer = 1;            /* everybody else is dead: nothing in the clean-up may wait for a semaphore */
  vk_cur = 0;
  unsigned long s1 = (unsigned long) ND_RANGE(1, VK_SEGMAX), s2 = (unsigned long) ND_RANGE(1, VK_SEGMAX);
  PShm *s = p_shm_new("a", s1, ND_PERM(), NULL);
  if (left_shm < 0) {
    VASSERT(s != NULL, "no segment left behind: p_shm_new creates one, whatever lock semaphore is lying around");
    VASSUME(s != NULL);
    check_fresh(s, s1, -1, left_sem, 0);
    vk_expect_noblock = 1;
    VASSERT(p_shm_lock(s, NULL) == TRUE, "first lock of a freshly created segment does not block");
    vk_expect_noblock = 0;
    VASSERT(p_shm_unlock(s, NULL) == TRUE, "unlock");
  }
  if (s != NULL) { p_shm_take_ownership(s); p_shm_free(s); }
  if (s != NULL) VASSERT(vk_shm_linked(SHM_SLOT) < 0 && vk_sem_linked(SEM_SLOT) < 0, "owner free removed segment and lock semaphore from the system");
  PShm *c = p_shm_new("a", s2, ND_PERM(), NULL);
  vk_no_rescuer = 0;
  VASSERT(c != NULL, "clean-up then create again succeeds from every leftover state");
  VASSUME(c != NULL);
  check_fresh(c, s2, left_shm, left_sem, 0);
  /* one system-wide mutex */
  vk_expect_noblock = 1;
  VASSERT(p_shm_lock(c, NULL) == TRUE, "lock of the recovered segment succeeds");
  vk_expect_noblock = 0;
  int so = vk_sem_linked(SEM_SLOT);
  if (ND_BOOL()) {
    /* a second process opens the segment and tries to lock: it must block (path ends in the model) */
    vk_cur = 1;
    PShm *q = p_shm_new("a", s2, ND_PERM(), NULL);
    VASSERT(q != NULL && p_shm_get_address(q) == p_shm_get_address(c), "second process attaches to the same segment");
    VASSUME(q != NULL);
    (void) p_shm_lock(q, NULL);
    VASSERT(0, "second locker got the lock while the first holds it");
  }
  VASSERT(p_shm_unlock(c, NULL) == TRUE && vk_sem_value(so) == 1, "unlock makes the lock available again");
  VWITNESS("recovery completed");
  if (left_shm >= 0 && left_sem >= 0 && vk_sem_value(left_sem) == 0) VWITNESS("leftover segment with its lock held by a dead process");
  if (left_shm < 0 && left_sem >= 0) VWITNESS("leftover lock semaphore without segment (cleaner killed between shm_unlink and sem_unlink)");
  if (left_shm >= 0 && left_sem < 0) VWITNESS("leftover segment without lock semaphore");
  if (left_shm < 0 && left_sem < 0) VWITNESS("nothing left behind");
}
