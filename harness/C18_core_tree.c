/* C18 core / ptree (-DTTYPE=0 BST, 1 RB, 2 AVL): new -> TOPS inserts (ascending keys: rotations in the
 * balanced kinds; one symbolic re-insert = replacement) -> remove -> clear/free, under the failing
 * allocator.  Documented: p_tree_new* returns NULL; p_tree_insert has no result - the pair is simply
 * not stored, node count and every stored pair stay as they were. */
#include "C18_core.h"
#include <ptree.h>
#ifndef TOPS
#define TOPS 4
#endif
#ifndef TTYPE
#define TTYPE 1
#endif
static pint cmp(pconstpointer a, pconstpointer b, ppointer data) {
  (void) data;
  return (size_t) a < (size_t) b ? -1 : ((size_t) a > (size_t) b ? 1 : 0);
}
static size_t rk[TOPS], rv[TOPS]; static int rn;          /* model: sorted by key */
static size_t seen_k[TOPS + 1], seen_v[TOPS + 1]; static int sn;
static pboolean visit(ppointer k, ppointer v, ppointer ud) { (void) ud; if (sn <= TOPS) { seen_k[sn] = (size_t) k; seen_v[sn] = (size_t) v; } sn++; return FALSE; }

static void same_as_model(PTree *t) {
  VASSERT(p_tree_get_nnodes(t) == rn, "node count = number of stored pairs");
  sn = 0;
  p_tree_foreach(t, visit, NULL);
  VASSERT(sn == rn, "traversal visits every stored pair once");
  for (int i = 0; i < TOPS; i++) if (i < rn) {
    VASSERT(seen_k[i] == rk[i] && seen_v[i] == rv[i], "in-order traversal = model (pairs unchanged)");
    VASSERT(p_tree_lookup(t, (ppointer) rk[i]) == (ppointer) rv[i], "stored pair found by lookup");
  }
}
static int ref_find(size_t k) { for (int i = 0; i < TOPS; i++) if (i < rn && rk[i] == k) return i; return -1; }
static void ref_insert(size_t k, size_t v) {
  int pos = 0;
  for (int i = 0; i < TOPS; i++) if (i < rn && rk[i] < k) pos = i + 1;
  for (int j = TOPS - 1; j > 0; j--) if (j > pos) { rk[j] = rk[j - 1]; rv[j] = rv[j - 1]; }
  rk[pos] = k; rv[pos] = v; rn++;
}

static void script(void) {
  c18_begin();
  int f0 = vm_failed;
  PTree *t = p_tree_new_with_data((PTreeType) TTYPE, cmp, NULL);
  if (C18_FAILED_SINCE(f0)) {
    VASSERT(t == NULL, "p_tree_new_with_data returns NULL when its allocation fails");
    p_tree_insert(NULL, (ppointer) 1, (ppointer) 2); p_tree_free(NULL);
    c18_end(0);
    return;
  }
  VASSERT(t != NULL, "p_tree_new_with_data succeeds when no allocation fails");
  int retried_ok = 0;
  for (int i = 0; i < TOPS; i++) {
    size_t k = (i == TOPS - 1 && c18_choice) ? 1 : (size_t) (i + 1), v = 100 + i;
    int at = ref_find(k);
    for (int attempt = 0; attempt < 2; attempt++) {      /* a failed insert is retried once */
      int live0 = vm_live;
      f0 = vm_failed;
      p_tree_insert(t, (ppointer) k, (ppointer) v);
      if (at >= 0) { rv[at] = v; VASSERT(vm_live == live0, "replacing a pair leaves the number of blocks unchanged"); break; }
      if (C18_FAILED_SINCE(f0)) { VASSERT(vm_live == live0, "failed insert leaves nothing allocated"); same_as_model(t); continue; }
      ref_insert(k, v);
      if (attempt == 1) retried_ok = 1;
      break;
    }
    same_as_model(t);
  }
  /* still usable: remove the smallest stored key */
  if (rn > 0) {
    VASSERT(p_tree_remove(t, (ppointer) rk[0]) == TRUE, "remove of a stored key succeeds after failures");
    for (int j = 0; j < TOPS - 1; j++) { rk[j] = rk[j + 1]; rv[j] = rv[j + 1]; }
    rn--;
    same_as_model(t);
  }
  p_tree_free(t);
  c18_end(1 + TOPS);
  if (rn == TOPS - 1) VWITNESS("all inserts stored");
#ifndef NOFAIL
  if (retried_ok) VWITNESS("a failed insert succeeded when retried: node count, in-order content and lookups as without the failure");
#endif
  if (vm_failed == 0 && rn == TOPS - 2) VWITNESS("a replacement happened");
}
