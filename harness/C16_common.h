/* Shared by the C16 harnesses: symbolic file construction over the character classes that
 * pinifile.c/pstring.c distinguish, and the consistency walk over the public API. */
#ifndef C16_COMMON_H
#define C16_COMMON_H
#include "verif.h"
#include "alloc.h"
#include "stdio_model.h"
#include "cstring_model.h"
#include <pmem.h>
#include <plist.h>
#include <pstring.h>
#include <pinifile.h>

#ifndef MAXLINE
#define MAXLINE PLIBSYS_VERIF_INI_MAX_LINE
#endif

/* one representative per character class the parser distinguishes (every comparison in
 * p_ini_file_parse, its sscanf formats, p_strchomp and the getters is against one of these, against
 * isspace/isdigit, or between two input characters): brackets, '=', comment markers, both quotes,
 * blank (space, tab), new-line, two letters, two digits, braces, sign, point, NUL */
static inline char c16_sym_char(void) {
  char c = (char) ND_UCHAR();
#if defined(ALPHA_ANY)
  /* any byte */
#elif defined(ALPHA_BOM)
  VASSUME(c == (char) 0xEF || c == (char) 0xBB || c == (char) 0xBF || c == (char) 0xFE || c == (char) 0xFF || c == 0 ||
          c == 'a' || c == '=' || c == '\n' || c == '[' || c == ']');
#else
  VASSUME(c == '[' || c == ']' || c == '=' || c == ';' || c == '#' || c == '"' || c == '\'' || c == ' ' || c == '\n' ||
          c == 'a' || c == '1'
#ifdef ALPHA_WIDE
          || c == '\t' || c == 'b' || c == '0' || c == '{' || c == '}' || c == '-' || c == '.' || c == 0 || c == '\r'
#endif
          );
#endif
  return c;
}

static inline int c16_put(int pos, const char *s) {
  int i;
  for (i = 0; s[i] != '\0'; i++) vm_file_data[pos + i] = (unsigned char) s[i];
  return pos + i;
}

/* "consistent object" clause of C16, through the public API only:
 * every listed section has >= 1 key; every listed key exists and has a retrievable string.
 * Returns the number of sections; *nkeys = total number of listed keys. */
static inline int c16_consistent(PIniFile *ini, int *nkeys) {
  PList *secs, *s, *keys, *k;
  int ns = 0, nk = 0;
  VASSERT(p_ini_file_is_parsed(ini), "parsed flag set after a successful parse");
  secs = p_ini_file_sections(ini);
  for (s = secs; s != NULL; s = s->next) {
    VASSERT(s->data != NULL, "listed section has a name");
    keys = p_ini_file_keys(ini, (const pchar *) s->data);
    VASSERT(keys != NULL, "every listed section has at least one key");
    for (k = keys; k != NULL; k = k->next) {
      pchar *v;
      VASSERT(k->data != NULL, "listed key has a name");
      VASSERT(p_ini_file_is_key_exists(ini, (const pchar *) s->data, (const pchar *) k->data), "every listed key exists");
      v = p_ini_file_parameter_string(ini, (const pchar *) s->data, (const pchar *) k->data, NULL);
      VASSERT(v != NULL, "every listed key has a retrievable string value");
      p_free(v);
      p_free(k->data);
      nk++;
    }
    p_list_free(keys);
    p_free(s->data);
    ns++;
  }
  p_list_free(secs);
  *nkeys = nk;
  return ns;
}
#endif
