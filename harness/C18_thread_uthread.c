/* C18 / C20 (thread module): one script over the REAL puthread.c + puthread-posix.c (+ patomic-c11.c,
 * pspinlock-c11.c, pstring.c, pmem.c):
 *   p_uthread_init; local_new; set_local; get_local; replace_local; create(joinable, named) ; join; unref;
 *   p_uthread_current (main); local_free; p_uthread_shutdown
 * with  C18: the k-th allocation request after p_uthread_init failing (only it / it and all later ones),
 *       C20: the f-th fallible pthread call failing (pthread_key_create, pthread_setspecific, pthread_attr_*,
 *            pthread_create [EAGAIN or EPERM -> library retries once], pthread_key_delete, pthread_setname_np).
 * k / f are CONCRETE per query (entry points harness_k<k>_{once,from} / harness_f<f>, all from the same binary):
 * a symbolic failure point turns the handle pointer into NULL-or-object and CBMC's function-pointer removal then
 * tries every candidate for base_thread->func.  Data (exit code, values) stays symbolic.
 * INIT_FAIL entries put the failure inside p_uthread_init itself.
 * Asserted: every call returns its failure value or works; stored values are read back or (after a failure) NULL;
 * created thread runs, join yields its exit code; no invalid memory access; at the end every ledger (allocations,
 * platform keys, threads, attribute objects) is back at its initial value.
 * The created thread runs when main joins it (no preemption: interleavings are C05's subject). */
#include "verif.h"
#include "alloc.h"
#include "thread_emul.h"
#include <pmem.h>
#include <puthread.h>

#if (defined(C20_MODE) && defined(KF_OPEN_C20_thread_selfkey_failure)) || (!defined(C20_MODE) && defined(KF_OPEN_C18_thread_selfkey_failure))
#define SELFKEY_OPEN 1
#endif
static pboolean nd_pbool(_Bool want) { int v = ND_INT(); VASSUME((v != 0) == want); return (pboolean) v; }   /* any truthy / falsy int */
extern void p_uthread_init(void);
extern void p_uthread_shutdown(void);

static PUThreadKey *key;
static char v1, v2, v3;
static int d1, d2, d3, ran, exited_with, cur_ok, stored3;
static PUThread *hnd;
static int done, excluded;

void c18_tls_dtor(ppointer v) {
  VASSERT(v == (ppointer) &v1 || v == (ppointer) &v2 || v == (ppointer) &v3, "destroy notifier gets a stored value");
  if (v == (ppointer) &v1) d1++; else if (v == (ppointer) &v2) d2++; else d3++;
}

static ppointer thr_main(ppointer data) {
  VASSERT(data == (ppointer) &ran, "thread function receives its data");
  ran = 1;
  cur_ok = (p_uthread_current() == hnd);
  p_uthread_set_local(key, &v3);
  stored3 = (p_uthread_get_local(key) == (ppointer) &v3);
  exited_with = ND_INT();
  p_uthread_exit(exited_with);
  return NULL;
}

static void script(int k, int from, int f, int init_fail) {
  vm_alloc_install();
  te_no_preempt = (init_fail != 2);             /* init_fail == 2: the new thread may be scheduled inside pthread_create */
  if (init_fail) { vm_fail_at = k; vm_fail_from = from; te_fault_at = f; }
  p_uthread_init();
  int base = vm_nalloc, live_init = vm_live;
  if (!init_fail) { vm_fail_at = k ? base + k : 0; vm_fail_from = from; te_fault_at = f; }
#define FAILED (vm_failed + te_faults_taken)

  key = p_uthread_local_new(c18_tls_dtor);
  VASSERT(key != NULL || FAILED > 0, "local_new fails only when something failed");

  p_uthread_set_local(key, &v1);
  ppointer g = p_uthread_get_local(key);
  VASSERT(g == (ppointer) &v1 || (g == NULL && FAILED > 0), "get_local: the stored value, or NULL after a failure");
  int stored1 = (g != NULL);
  p_uthread_replace_local(key, &v2);
  g = p_uthread_get_local(key);
  VASSERT(g == (ppointer) &v2 || (FAILED > 0 && (g == NULL || g == (ppointer) &v1)), "get_local after replace: the new value (after a failure: NULL or still the old one)");
  VASSERT(d1 == (stored1 && g != NULL) || FAILED > 0, "replace_local destroys the displaced value exactly once");
  VASSERT(d1 <= 1 && d2 == 0, "no value destroyed twice, the current value not at all");

  te_next_slot = 1;
  int failed_before_create = FAILED;
  /* joinable: any truthy int - except in the preemption entry (init_fail == 2), where a symbolic detach state would make
   * every later model entry of main a candidate point for the thread and multiply the script by ~20 */
  hnd = p_uthread_create(thr_main, &ran, init_fail == 2 ? TRUE : nd_pbool(1), "ab");
  VASSERT(hnd != NULL || FAILED > failed_before_create, "create fails only when something failed");
  if (hnd != NULL) {
    pint r = p_uthread_join(hnd);
    VASSERT(ran && te_state[1] == TE_FINISHED, "join returns after the thread ran");
    /* finding C18_thread_selfkey_failure: the new thread's own first TLS store (self pointer, in pp_uthread_proxy) needs
     * an allocation; when exactly that one fails the thread has no identity: exit code lost, handle never released */
    int lost_self = (!cur_ok && FAILED > 0);
#ifdef KF_DEMO
    VKF(!lost_self, "created thread lost its self pointer: p_uthread_current is a foreign handle, p_uthread_exit returns, join yields 0, handle leaks");
    excluded = 1; return;
#endif
#ifdef SELFKEY_OPEN
    if (lost_self) { excluded = 1; return; }                      /* excluded class; everything else is still decided */
#endif
    VASSERT(cur_ok, "p_uthread_current in the created thread is its handle");
    VASSERT(r == exited_with, "join yields the exit code");
    p_uthread_unref(hnd);
  }
  PUThread *c = p_uthread_current();
  VASSERT(c != NULL || FAILED > 0, "p_uthread_current fails only when something failed");
  VASSERT(c == NULL || c != hnd, "main's handle is its own");
  PUThread *c2 = p_uthread_current();
  /* same root cause as the selfkey finding: a failed store of the self pointer is swallowed (p_uthread_set_local is
   * void); for a foreign thread p_uthread_current then hands out a block nobody owns and allocates another next time */
  int main_lost = (c != NULL && c2 != c);
  VASSERT(!main_lost || FAILED > 0, "p_uthread_current is stable");
#ifdef KF_DEMO_MAINCUR
  VKF(!main_lost, "p_uthread_current: store of the new handle failed, block leaked, next call returns another handle");
  excluded = 1; return;
#endif
#ifdef SELFKEY_OPEN
  if (main_lost) { excluded = 1; return; }
#else
  VASSERT(!main_lost, "p_uthread_current returns the same handle again (a failed store would leak the first one)");
#endif

  p_uthread_local_free(key);
  p_uthread_shutdown();

  /* ---- ledgers.  Platform TLS keys are deliberately kept by p_uthread_local_free (documented: "doesn't remove the
   * TLS key itself") and are not a resource C20 lists; but the heap block holding the key id (key->key, allocated
   * lazily) is a library allocation that local_free forgets: finding C20_thread_local_free_leak (property C20).  The C18
   * part accounts these blocks separately so that it stays exact about everything else; the C20 part demands the full
   * allocation ledger unless that finding is open */
  VASSERT(te_keys_live <= 2 && te_keys_created - te_keys_deleted == te_keys_live, "at most one platform key per PUThreadKey");
#ifdef KF_DEMO_LEAK
  VKF(vm_live == 0, "p_uthread_local_free / p_uthread_shutdown leave the lazily allocated key blocks allocated");
#elif defined(C20_MODE) && !defined(KF_OPEN_C20_thread_local_free_leak)
  VASSERT(vm_live == 0, "allocation ledger back to the initial value");
#else
  VASSERT(vm_live == 0 || vm_live == te_keys_live, "allocation ledger back to the initial value (or plus one block per platform key: open finding local_free_leak)");
#endif
  VASSERT(te_threads_unreaped == 0 && te_attr_live == 0, "no thread / attribute object left");
  VASSERT(d3 == stored3 && d2 == 0, "value left by the thread destroyed exactly once at its exit; main's current value never");
  (void) live_init;
  done = 1;
}
#define WIT_FAIL  VWITNESS("entry ran"); if (FAILED > 0 && (done || excluded)) VWITNESS("the failure was injected")
#define WIT_OK    VWITNESS("entry ran"); if (done && hnd != NULL && exited_with != 0) VWITNESS("no failure: thread created, joined, non-zero exit code")

#define ENTRY_K(k) void harness_k##k##_once(void) { script(k, 0, 0, 0); WIT_FAIL; } void harness_k##k##_from(void) { script(k, 1, 0, 0); WIT_FAIL; }
#define ENTRY_F(f) void harness_f##f(void) { te_create_errno_choice = 0; script(0, 0, f, 0); WIT_FAIL; }
void harness_k0(void) { script(0, 0, 0, 0); WIT_OK; }
ENTRY_K(1) ENTRY_K(2) ENTRY_K(3) ENTRY_K(4) ENTRY_K(5) ENTRY_K(6)
ENTRY_F(1) ENTRY_F(2) ENTRY_F(3) ENTRY_F(4) ENTRY_F(5) ENTRY_F(6) ENTRY_F(7) ENTRY_F(8) ENTRY_F(9) ENTRY_F(10) ENTRY_F(11) ENTRY_F(12) ENTRY_F(13)
void harness_f7_eperm(void) { te_create_errno_choice = 1; script(0, 0, 7, 0); WIT_FAIL; }   /* EPERM: the library retries once */
/* failure inside p_uthread_init (its 1st / 2nd allocation) */
void harness_init_k1(void) { script(1, 0, 0, 1); WIT_FAIL; }
void harness_init_k2(void) { script(2, 0, 0, 1); WIT_FAIL; }
void harness_init_k1_from(void) { script(1, 1, 0, 1); WIT_FAIL; }
/* finding C18_thread_init_spinlock: p_uthread_init's spinlock allocation fails (unreported, void function); later
 * p_uthread_create runs without the start-up handshake: the new thread, scheduled before create has filled in the
 * handle, calls a NULL thread function */
void harness_init_k2_preempt(void) { script(2, 0, 0, 2); VWITNESS("entry ran"); }

