/* C03 sequential queries on the real pcondvariable-posix.c (+ pmutex-posix.c) over the pthread model.
 *  -DQ_EFFECT : waiter sets are constructed directly in the model: any subset WA of threads {1,2,3} waits on condition A,
 *               the others either wait on condition B or do not wait.  p_cond_variable_broadcast(A) must leave every member
 *               of WA woken; p_cond_variable_signal(A) must wake at least one member of a non-empty WA; neither touches a
 *               waiter of B (wakes happen on THAT condition object); both return TRUE.
 *  -DQ_HANDOFF: the caller (thread 0) owns mutex M[mi] (two mutexes, two conditions, symbolic choice) and calls
 *               p_cond_variable_wait(C[ci], M[mi]); the model records which (cond, mutex) pair the platform received; the
 *               wait ends by a spurious wake-up (-DVM_SPURIOUS=1).  Decided: the platform got exactly that pair, the call
 *               returns TRUE with M[mi] owned by the caller and the other mutex untouched.
 *  -DQ_RC     : (-DVM_PT_FAULTS) symbolic non-zero result of the platform call => FALSE (p_cond_variable_new: NULL).
 */
#include "verif.h"
#include "pthread_model.h"
#include <pmem.h>
#include <pmutex.h>
#include <pcondvariable.h>

#include "C01_store.h"

void harness(void) {
#if defined(Q_EFFECT)
  PMutex *m = p_mutex_new();
  PCondVariable *A = p_cond_variable_new(), *B = p_cond_variable_new();
  VASSERT(m && A && B, "objects created");
  int ia = vm_cv_index((pthread_cond_t *) A), ib = vm_cv_index((pthread_cond_t *) B);
  VASSERT(ia >= 0 && ib >= 0 && ia != ib, "both condition objects are registered with the platform (handle at offset 0)");
  /* where[t]: 0 = not waiting, 1 = waits on A, 2 = waits on B */
  int w1 = ND_RANGE(0, 2), w2 = ND_RANGE(0, 2), w3 = ND_RANGE(0, 2);
  vm_thread_register(0); vm_thread_register(1); vm_thread_register(2); vm_thread_register(3);
  if (w1) vm_set_waiting(1, w1 == 1 ? ia : ib, 0);
  if (w2) vm_set_waiting(2, w2 == 1 ? ia : ib, 0);
  if (w3) vm_set_waiting(3, w3 == 1 ? ia : ib, 0);
  int na = (w1 == 1) + (w2 == 1) + (w3 == 1);
  int op = ND_RANGE(0, 1);
  pboolean ok = op ? p_cond_variable_broadcast(A) : p_cond_variable_signal(A);
  VASSERT(ok == TRUE, "signal / broadcast return TRUE");
  int k1 = vm_is_woken(1), k2 = vm_is_woken(2), k3 = vm_is_woken(3);
  VASSERT(!(w1 != 1 && k1) && !(w2 != 1 && k2) && !(w3 != 1 && k3), "only waiters of THAT condition object are woken");
  if (op) {
    VASSERT((w1 != 1 || k1) && (w2 != 1 || k2) && (w3 != 1 || k3), "broadcast wakes ALL threads waiting on the condition");
    if (na == 3) VWITNESS("broadcast with three waiters");
  } else {
    VASSERT(na == 0 || (k1 + k2 + k3) >= 1, "signal wakes at least one thread waiting on the condition");
    if (na >= 2) VWITNESS("signal with several waiters");
  }
  VASSERT(vm_nsignal + vm_nbroadcast == 1, "exactly one platform wake call was made");
  if (na == 0) VWITNESS("no waiter");
  VWITNESS("end");
#elif defined(Q_HANDOFF)
  PMutex *M[2]; PCondVariable *C[2];
  M[0] = p_mutex_new(); M[1] = p_mutex_new();
  C[0] = p_cond_variable_new(); C[1] = p_cond_variable_new();
  VASSERT(M[0] && M[1] && C[0] && C[1], "objects created");
  vm_thread_register(0); vm_thread_register(1);     /* thread 1 exists and runs: no deadlock alarm when 0 blocks */
  int mi = ND_RANGE(0, 1), ci = ND_RANGE(0, 1);
  PMutex *m = mi ? M[1] : M[0];
  PCondVariable *c = ci ? C[1] : C[0];
  int pm = vm_mtx_index((pthread_mutex_t *) m), pc = vm_cv_index((pthread_cond_t *) c);
  VASSERT(pm >= 0 && pc >= 0, "objects are registered with the platform");
  VASSERT(p_mutex_lock(m) == TRUE, "lock TRUE");
  pboolean ok = p_cond_variable_wait(c, m);
  VASSERT(ok == TRUE, "wait returns TRUE");
  VASSERT(vm_last_wait_cv == pc, "the platform waited on the given condition object");
  VASSERT(vm_last_wait_mtx == pm, "the platform released / re-acquired the given mutex");
  VASSERT(vm_mutex_owner(pm) == vm_self + 1, "wait returns with the given mutex owned by the caller");
  VASSERT(vm_mutex_owner(1 - pm) == 0, "the other mutex is untouched");
  VASSERT(p_mutex_unlock(m) == TRUE, "unlock TRUE");
  VASSERT(p_cond_variable_wait(NULL, m) == FALSE && p_cond_variable_wait(c, NULL) == FALSE, "NULL arguments => FALSE");
  if (mi == 1 && ci == 0) VWITNESS("pair (C0, M1)");
  VWITNESS("end");
#else
  int code = ND_INT();
  VASSUME(code != 0);
  vm_fault_code = code;
  int which = ND_RANGE(0, 3);
  if (which == 0) {
    vm_fault_armed = 1;
    PCondVariable *c0 = p_cond_variable_new();
    VASSERT(c0 == NULL, "pthread_cond_init failure => p_cond_variable_new returns NULL");
    VASSERT(st_nfree == st_nalloc, "p_cond_variable_new releases the block on failure");
    VWITNESS("init failure");
  } else {
    PMutex *m = p_mutex_new();
    PCondVariable *c = p_cond_variable_new();
    VASSERT(m && c, "objects created");
    pboolean r;
    if (which == 1) {
      VASSERT(p_mutex_lock(m) == TRUE, "lock TRUE");
      vm_fault_armed = 1;
      r = p_cond_variable_wait(c, m);
      VASSERT(vm_mutex_owner(0) == vm_self + 1, "failed wait leaves the mutex with the caller");
    } else if (which == 2) { vm_fault_armed = 1; r = p_cond_variable_signal(c); }
    else { vm_fault_armed = 1; r = p_cond_variable_broadcast(c); }
    VASSERT(vm_fault_armed == 0 && vm_fault_hits == 1, "the operation made the (failing) platform call");
    VASSERT(r == FALSE, "platform call fails with a non-zero code => FALSE");
    VASSERT(p_cond_variable_signal(NULL) == FALSE && p_cond_variable_broadcast(NULL) == FALSE, "NULL condition => FALSE");
    if (which == 1) VWITNESS("wait failure");
    if (which == 3) VWITNESS("broadcast failure");
  }
  VWITNESS("end");
#endif
}
