/* C18 core / perror: new_literal, copy, set_error, set_error_p, set_message, clear, free under the
 * failing allocator.  p_error_new_literal/copy: NULL when the object cannot be allocated; when only
 * the message copy fails the error object is delivered with code and native code set and a NULL
 * message (p_error_get_message documents NULL as its failure value) - accepted as degraded result.
 * Setters have no result: the object must stay valid (message NULL or the new text, never dangling). */
#include "C18_core.h"
#include <perror.h>

static void check(PError *e, int code, int native, const char *msg, int msg_may_be_null) {
  VASSERT(p_error_get_code(e) == code && p_error_get_native_code(e) == native, "code and native code as set");
  const pchar *m = p_error_get_message(e);
  if (m == NULL) VASSERT(msg_may_be_null, "message is NULL only if its copy could not be allocated");
  else VASSERT(c18_streq(m, msg), "message text as set");
}

static void script(void) {
  c18_begin();
  int f0 = vm_failed, n0 = vm_nalloc;
  PError *e = p_error_new_literal(5, 7, "first");
  if (e == NULL) { VASSERT(C18_FAILED_SINCE(f0), "p_error_new_literal fails only on allocation failure"); VASSERT(vm_live == c18_base, "failed constructor leaves nothing allocated"); }
  else check(e, 5, 7, "first", C18_FAILED_SINCE(f0));
  if (vm_failed == f0) VASSERT(e != NULL, "p_error_new_literal succeeds when no allocation fails");
  (void) n0;

  f0 = vm_failed;
  int live0 = vm_live;
  PError *c = p_error_copy(e);
  if (e == NULL) VASSERT(c == NULL, "copy of NULL is NULL");
  else if (c == NULL) { VASSERT(C18_FAILED_SINCE(f0), "p_error_copy fails only on allocation failure"); VASSERT(vm_live == live0, "failed copy leaves nothing allocated"); }
  else check(c, 5, 7, "first", C18_FAILED_SINCE(f0) || p_error_get_message(e) == NULL);
  if (e != NULL) check(e, 5, 7, "first", 1);                /* source untouched by the copy */

  int retried_ok = 0;
  for (int attempt = 0; attempt < 2; attempt++) {      /* a setter whose message copy failed is retried once: result as without the failure */
    f0 = vm_failed;
    p_error_set_error(e, 6, 8, "second");
    if (e != NULL) check(e, 6, 8, "second", C18_FAILED_SINCE(f0));
    if (!C18_FAILED_SINCE(f0)) { if (attempt == 1 && e != NULL) retried_ok = 1; break; }
  }
  for (int attempt = 0; attempt < 2; attempt++) {
    f0 = vm_failed;
    p_error_set_message(c, "third");
    if (c != NULL) check(c, 5, 7, "third", C18_FAILED_SINCE(f0));
    if (!C18_FAILED_SINCE(f0)) { if (attempt == 1 && c != NULL) retried_ok = 1; break; }
  }

  PError *p = NULL;
  f0 = vm_failed; live0 = vm_live;
  p_error_set_error_p(&p, 1, 2, "fourth");
  if (p == NULL) { VASSERT(C18_FAILED_SINCE(f0), "p_error_set_error_p leaves *error NULL only on allocation failure"); VASSERT(vm_live == live0, "nothing allocated"); }
  else check(p, 1, 2, "fourth", C18_FAILED_SINCE(f0));
  PError *p_before = p;
  p_error_set_error_p(&p, 9, 9, "ignored");                /* documented: does nothing when *error is set */
  if (p_before != NULL) { VASSERT(p == p_before, "existing *error is kept"); VASSERT(p_error_get_code(p) == 1, "existing error unchanged"); }

  p_error_clear(e);
  if (e != NULL) VASSERT(p_error_get_message(e) == NULL && p_error_get_code(e) == 0, "clear resets");
  p_error_free(e); p_error_free(c); p_error_free(p);
  c18_end(8);
#ifndef NOFAIL
  if (retried_ok) VWITNESS("a setter failed once and delivered the new text when retried");
#else
  (void) retried_ok;
#endif
}
