/* C18/C20 core / plibraryloader-posix.c: two loaders for the same library (new -> get_symbol present /
 * absent -> get_last_error -> free) against models/dl_model.c (handle ledger).
 *   C18: failing allocator, environment never fails.   C20: -DNOFAIL, ENV_KMAX>0: <= ENV_MAXFAULTS failures at symbolic positions of access/dlopen/dlsym.
 * Documented: p_library_loader_new NULL; p_library_loader_get_last_error NULL. */
#include "C18_core.h"
#include "dl_model.h"
#include <plibraryloader.h>

static void script(void) {
  c18_begin();
  vm_dl_fault_at[0] = c18_env_fault[0]; vm_dl_fault_at[1] = c18_env_fault[1];
  PLibraryLoader *l[2];
  for (int i = 0; i < 2; i++) {
    int f0 = vm_failed, r0 = vm_dl_faults, live0 = vm_live, open0 = vm_dl_open;
    l[i] = p_library_loader_new("/lib/libx.so");
    if (l[i] == NULL) {
      VASSERT(C18_FAILED_SINCE(f0) || vm_dl_faults > r0, "p_library_loader_new fails only when access/dlopen or the allocation fails");
      VASSERT(vm_live == live0, "failed p_library_loader_new leaves nothing allocated");
      VASSERT(vm_dl_open == open0, "failed p_library_loader_new leaves no library handle open");
    } else {
      VASSERT(!C18_FAILED_SINCE(f0), "no loader object without its allocation");
      VASSERT(vm_dl_open == open0 + 1, "one library handle per loader");
    }
  }
  for (int i = 0; i < 2; i++) {
    int r0 = vm_dl_faults, live0 = vm_live;
    PFuncAddr f = p_library_loader_get_symbol(l[i], "present");
    if (l[i] == NULL) VASSERT(f == NULL, "NULL loader: NULL symbol");
    else if (vm_dl_faults == r0) VASSERT(f != NULL, "present symbol found");
    VASSERT(p_library_loader_get_symbol(l[i], "zabsent") == NULL, "absent symbol: NULL");
    VASSERT(vm_live == live0, "symbol lookup allocates nothing");
    int f0 = vm_failed;
    pchar *msg = p_library_loader_get_last_error(l[i]);
    if (C18_FAILED_SINCE(f0)) { VASSERT(msg == NULL, "p_library_loader_get_last_error returns NULL when the copy cannot be allocated"); VASSERT(vm_live == live0, "nothing allocated"); }
    else if (l[i] != NULL) VASSERT(msg != NULL && msg[0] == 'd', "pending loader error text delivered");
    p_free(msg);
  }
  int open1 = vm_dl_open;
  p_library_loader_free(l[0]);
  VASSERT(vm_dl_open == open1 - (l[0] != NULL), "free closes exactly its own handle");
  p_library_loader_free(l[1]);
  VASSERT(vm_dl_open == 0 && vm_dl_opened == vm_dl_closed, "every library handle opened by the script is closed");
  c18_end(4);
#if ENV_KMAX > 0
  if (vm_dl_faults == ENV_MAXFAULTS) VWITNESS("all allowed environment failures injected");
#  ifndef ENV_FIRST
  if (vm_dl_faults == 0) VWITNESS("environment without failure");
#  endif
#endif
  if (l[0] != NULL && l[1] != NULL) VWITNESS("both loaders created");
}
