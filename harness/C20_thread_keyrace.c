/* C20 (thread module): the lazily created platform key raced on first use (harness/C05_keyrace.c: main and 1 or 2
 * created threads first-use a fresh user key / the library key, a pending thread may run inside another thread's
 * pp_uthread_get_tls_key), followed by p_uthread_local_free + p_uthread_shutdown and the full ledger comparison:
 * a block or platform key left behind by the LOSER of the compare-and-exchange is unreachable for local_free. */
#define C20_MODE 1
#include "C05_keyrace.c"
