/* C04: set/get act as barriers.  Two threads, litmus tests through the REAL p_atomic_{int,pointer}_{set,get}.
 *  LIT_MP        message passing: T1 { data = 1 (plain); set(F,1) }  T0 { if (get(F) == 1) read data }
 *                  - value assertion "data == 1" (decides under --mm sc and --mm tso)
 *                  - with -DVMA_HB: ghost happens-before tracker says the plain read is race-free
 *                    (fails when set is weaker than release or get weaker than acquire; sim: through the mutex edges)
 *  LIT_SB        store buffering: T1 { set(F,1); r1 = get(G) }  T0 { set(G,1); r0 = get(F) }   never r0 == r1 == 0
 *  LIT_SB_GET    T1 { F = 1 (plain); r1 = get(G) }  T0 { G = 1 (plain); r0 = get(F) }          (get is a full barrier; sync model, tso)
 *  LIT_SB_SET    T1 { set(F,1); r1 = G (plain) }    T0 { set(G,1); r0 = F (plain) }            (set is a full barrier; sync model, tso)
 * -DWIDE uses the pointer-sized variants on psize words. */
#define VMA_IMPL
#include "atomics_model.h"
#include "verif.h"
#include <patomic.h>
#include <pmem.h>
__CPROVER_thread_local int c04_tid;
void c04_lock_hook(void) {}
void c04_unlock_hook(void) {}
extern void p_atomic_thread_init(void);
extern int c04_mx_owner;

#ifdef WIDE
static volatile psize F, G;
#define SET(p, v) p_atomic_pointer_set((volatile void *) (p), (ppointer) (psize) (v))
#define GET(p)    ((unsigned long long) (psize) p_atomic_pointer_get((const volatile void *) (p)))
#else
static volatile pint F, G;
#define SET(p, v) p_atomic_int_set((p), (pint) (v))
#define GET(p)    ((unsigned long long) (puint) p_atomic_int_get((p)))
#endif
static int data;
static unsigned long long r0, r1;
static int done1;

void harness(void) {
#ifdef MODEL_SIM
  p_mem_restore_vtable();   /* what p_libsys_init does before p_atomic_thread_init */
#endif
  p_atomic_thread_init();
#ifdef VMA_HB
  vma_hb_track(&F); vma_hb_track(&G);
#ifdef MODEL_SIM
  vma_hb_track(&c04_mx_owner);
#endif
#endif
  VMA_HB_THREAD(0); c04_tid = 0;
  VMA_HB_FORK(1);
#if defined(LIT_MP)
  __CPROVER_ASYNC_1: {
    VMA_HB_THREAD(1); c04_tid = 1;
    VATOMIC_BEGIN(); data = 1; (void) VMA_HB_ACCESS(0u, 0); VATOMIC_END();
    SET(&F, 1);
  }
  r0 = GET(&F);
  if (r0 == 1) {
    int d, rf;
    VATOMIC_BEGIN(); d = data; rf = VMA_HB_ACCESS(1u << 0, 1); VATOMIC_END();
    VASSERT(d == 1, "MP: data written before set(flag) is visible after get(flag) returned the flag");
    VASSERT(rf, "MP: plain read after get(flag)==1 happens-after the plain write before set(flag) (no data race)");
    VWITNESS("MP flag seen");
  } else {
    VASSERT(r0 == 0, "MP: get returns a value that was stored");
    VWITNESS("MP flag not seen");
  }
#else
  __CPROVER_ASYNC_1: {
    VMA_HB_THREAD(1); c04_tid = 1;
#if defined(LIT_SB_GET)
    F = 1;
#else
    SET(&F, 1);
#endif
#if defined(LIT_SB_SET)
    r1 = G;
#else
    r1 = GET(&G);
#endif
    done1 = 1;
  }
#if defined(LIT_SB_GET)
  G = 1;
#else
  SET(&G, 1);
#endif
#if defined(LIT_SB_SET)
  r0 = F;
#else
  r0 = GET(&F);
#endif
  VASSUME(done1 == 1);
  VASSERT(!(r0 == 0 && r1 == 0), "SB: both threads cannot miss the other's store (set/get are full barriers)");
  VASSERT(r0 <= 1 && r1 <= 1, "SB: values read were stored");
  if (r0 == 1 && r1 == 1) VWITNESS("SB both see");
  if (r0 == 0 && r1 == 1) VWITNESS("SB 0 misses");
  if (r0 == 1 && r1 == 0) VWITNESS("SB 1 misses");
#endif
}
