/* C08 inductive step: the real pshmbuffer.c over a thin PShm model (one segment object, ghost lock).
 * The buffer object is built by the real p_shm_buffer_new(name, S); then the segment is put into an
 * ARBITRARY valid ring state (read_pos, write_pos < S+1, arbitrary bytes) and ONE operation (-DOP=n)
 * with any 64-bit length runs.  Post-conditions: FIFO semantics on the abstraction alpha = bytes from
 * read_pos to write_pos; used + free = capacity S; positions stay below the modulus; every memcpy/
 * memset range lies inside the segment or inside the caller's len-byte buffer; the segment is only
 * touched with the lock held; the lock is released on every exit path.
 * Every valid ring state is reachable through the API from the empty buffer (write k, read k moves
 * both positions; bytes are whatever was written), so the pre-state needs no reachability side query. */
#include "verif.h"
#include "alloc.h"
#include <pmem.h>
#include <pshm.h>
#include <pshmbuffer.h>

#ifndef MMAX
#define MMAX 9            /* largest ring modulus (capacity + 1) */
#endif
#define HDR 16
#ifndef OP
#define OP 0
#endif

struct PShm_ { int dummy; };
static struct PShm_ the_shm;
static _Alignas(8) unsigned char seg[HDR + MMAX];
static unsigned long seg_size;          /* logical segment size = HDR + modulus */
static int lock_held, lock_taken, lock_fail;
static unsigned char ubuf[MMAX + 1];    /* caller buffer; logical size = ubuf_len (ghost) */
static unsigned long long ubuf_len;
static int seg_touched;

/* ---- thin PShm model ---- */
PShm *p_shm_new(const pchar *name, psize size, PShmAccessPerms perms, PError **error) {
  (void) name; (void) perms; (void) error;
  seg_size = size;
  return &the_shm;
}
void p_shm_free(PShm *shm) { (void) shm; }
void p_shm_take_ownership(PShm *shm) { (void) shm; }
ppointer p_shm_get_address(const PShm *shm) { VASSERT(shm == &the_shm, "PShm handle passed through"); return seg; }
psize p_shm_get_size(const PShm *shm) { (void) shm; return seg_size; }
pboolean p_shm_lock(PShm *shm, PError **error) {
  (void) shm; (void) error;
  VASSERT(!lock_held, "lock is not taken twice (self-deadlock)");
  if (lock_fail) return FALSE;
  lock_held = 1; lock_taken++;
  return TRUE;
}
pboolean p_shm_unlock(PShm *shm, PError **error) {
  (void) shm; (void) error;
  VASSERT(lock_held, "unlock only while holding the lock");
  lock_held = 0;
  return TRUE;
}

/* ---- every memcpy/memset range of pshmbuffer.c ---- */
void vm_mem_access(const void *p, size_t n, int is_write) {
  (void) is_write;
  if (__CPROVER_same_object(p, seg)) {
    VASSERT(lock_held, "segment is accessed only with the lock held");
    VASSERT(__CPROVER_POINTER_OFFSET(p) + n <= seg_size, "access stays inside the segment");
    seg_touched = 1;
  } else if (__CPROVER_same_object(p, ubuf)) {
    VASSERT(__CPROVER_POINTER_OFFSET(p) + n <= ubuf_len, "access stays inside the caller's buffer of len bytes");
  }
}

static unsigned long rd_pos(int which) { return *(unsigned long *) (seg + 8 * which); }

void harness(void) {
  vm_alloc_install();
  unsigned long S = (unsigned long) ND_RANGE(1, MMAX - 1);     /* capacity */
  unsigned long M = S + 1;                                       /* ring modulus */
  PShmBuffer *b = p_shm_buffer_new("a", S, NULL);
  VASSERT(b != NULL, "buffer created");
  VASSUME(b != NULL);
  VASSERT(seg_size == S + HDR + 1, "segment requested with header + capacity + 1 bytes");
  VASSUME(seg_size == S + HDR + 1);

  /* arbitrary valid ring state */
  unsigned long rp = (unsigned long) ND_RANGE(0, MMAX - 1), wp = (unsigned long) ND_RANGE(0, MMAX - 1);
  VASSUME(rp < M && wp < M);
  *(unsigned long *) (seg + 0) = rp;
  *(unsigned long *) (seg + 8) = wp;
  unsigned char old[MMAX];
  for (int i = 0; i < MMAX; i++) { unsigned char c = ND_UCHAR(); seg[HDR + i] = c; old[i] = c; }
  for (int i = 0; i < MMAX + 1; i++) ubuf[i] = ND_UCHAR();
  unsigned char ucopy[MMAX + 1];
  for (int i = 0; i < MMAX + 1; i++) ucopy[i] = ubuf[i];
  unsigned long used = (wp >= rp) ? wp - rp : M - (rp - wp);
  unsigned long freesp = S - used;
  unsigned long long len = ND_ULL();                              /* ANY 64-bit length */
  ubuf_len = len;
  lock_fail = ND_BOOL();                                          /* p_shm_lock may fail */
  unsigned long j = (unsigned long) ND_RANGE(0, MMAX - 1);        /* arbitrary probe index */

#if OP == 0   /* ---- write ---- */
  pssize r = p_shm_buffer_write(b, ubuf, (psize) len, NULL);
  unsigned long rp2 = rd_pos(0), wp2 = rd_pos(1);
  if (len == 0 || lock_fail) {
    VASSERT(r == -1, "write: invalid length / lock failure is reported as -1");
    VASSERT(rp2 == rp && wp2 == wp, "write: failed call leaves the queue unchanged");
    VASSERT(lock_fail || !seg_touched, "write: len == 0 is rejected without touching the segment");
  } else if (len <= freesp) {
    VASSERT(r == (pssize) len, "write: len fits the free space -> returns len");
    VASSERT(rp2 == rp, "write: read position untouched");
    VASSERT(wp2 == (wp + len) % M, "write: write position advanced by len modulo the ring size");
    if (j < used) VASSERT(seg[HDR + (rp + j) % M] == old[(rp + j) % M], "write: bytes already queued are preserved");
    if (j < len) VASSERT(seg[HDR + (wp + j) % M] == ucopy[j], "write: the len new bytes are appended in order");
    if (len == freesp) VWITNESS("write of exactly the free space");
    if (wp + len > M) VWITNESS("write wrapping around the end of the ring");
  } else {
    VASSERT(r == 0, "write: len exceeds the free space -> returns 0");
    VASSERT(rp2 == rp && wp2 == wp, "write: nothing appended when it does not fit");
    if (j < M) VASSERT(seg[HDR + j] == old[j], "write: ring bytes untouched when it does not fit");
    if (len == freesp + 1) VWITNESS("write of free space + 1");
    if (len >= (1ULL << 31)) VWITNESS("write with a length >= 2^31");
  }
  for (int i = 0; i < MMAX + 1; i++) VASSERT(ubuf[i] == ucopy[i], "write: caller data not modified");
#elif OP == 1 /* ---- read ---- */
  pint r = p_shm_buffer_read(b, ubuf, (psize) len, NULL);
  unsigned long rp2 = rd_pos(0), wp2 = rd_pos(1);
  if (len == 0 || lock_fail) {
    VASSERT(r == -1, "read: invalid length / lock failure is reported as -1");
    VASSERT(rp2 == rp && wp2 == wp, "read: failed call leaves the queue unchanged");
  } else {
    unsigned long k = (len < used) ? (unsigned long) len : used;
    VASSERT(r == (pint) k, "read: returns min(len, used)");
    VASSERT(wp2 == wp, "read: write position untouched");
    VASSERT(rp2 == (rp + k) % M, "read: read position advanced by the number of bytes returned");
    if (j < k) VASSERT(ubuf[j] == old[(rp + j) % M], "read: oldest bytes delivered in order");
    if (j >= k && j < MMAX + 1) VASSERT(ubuf[j] == ucopy[j], "read: storage beyond the returned count untouched");
    if (j < M) VASSERT(seg[HDR + j] == old[j], "read: ring bytes not modified");
    if (k > 0 && rp + k > M) VWITNESS("read wrapping around the end of the ring");
    if (k > 0 && k < used) VWITNESS("partial read");
    if (used == 0) VWITNESS("read from an empty buffer");
    if (len >= (1ULL << 31) && used > 0) VWITNESS("read with a length >= 2^31");
  }
#elif OP == 2 /* ---- clear ---- */
  p_shm_buffer_clear(b);
  unsigned long rp2 = rd_pos(0), wp2 = rd_pos(1);
  if (lock_fail) VASSERT(rp2 == rp && wp2 == wp && !seg_touched, "clear: nothing happens when the lock cannot be taken");
  else {
    VASSERT(rp2 == wp2, "clear: buffer is empty afterwards");
    VASSERT(rp2 < M, "clear: positions valid");
    VASSERT(lock_taken == 1, "clear: runs under the lock");
    pssize u = p_shm_buffer_get_used_space(b, NULL), f = p_shm_buffer_get_free_space(b, NULL);
    VASSERT(u == 0 && f == (pssize) S, "clear: used = 0 and free = capacity afterwards");
  }
#elif OP == 3 /* ---- get_free_space ---- */
  pssize r = p_shm_buffer_get_free_space(b, NULL);
  if (lock_fail) VASSERT(r == -1, "get_free_space: lock failure is reported as -1");
  else { VASSERT(r == (pssize) freesp, "get_free_space = capacity - used"); VASSERT(lock_taken == 1, "get_free_space: runs under the lock"); }
  VASSERT(rd_pos(0) == rp && rd_pos(1) == wp, "get_free_space: queue unchanged");
#else         /* ---- get_used_space ---- */
  pssize r = p_shm_buffer_get_used_space(b, NULL);
  if (lock_fail) VASSERT(r == -1, "get_used_space: lock failure is reported as -1");
  else {
    VASSERT(r == (pssize) used, "get_used_space = bytes queued");
    pssize f = p_shm_buffer_get_free_space(b, NULL);
    VASSERT(r + f == (pssize) S, "used + free = capacity");
  }
  VASSERT(rd_pos(0) == rp && rd_pos(1) == wp, "get_used_space: queue unchanged");
#endif
  VASSERT(!lock_held, "lock released on every exit path");
  VASSERT(rd_pos(0) < M && rd_pos(1) < M, "positions stay below the ring modulus");
  p_shm_buffer_free(b);
  VASSERT(vm_live == 0, "buffer object released");
  VWITNESS("step completed");
  if (!lock_fail && used == S) VWITNESS("full buffer");
  if (!lock_fail && used == 0) VWITNESS("empty buffer");
  if (!lock_fail && S == MMAX - 1) VWITNESS("largest modulus");
  if (lock_fail) VWITNESS("lock failure path");
}
