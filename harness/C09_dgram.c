/* C09 datagrams: three bound datagram sockets A, C (senders) and B (receiver) with arbitrary addresses
 * of one family, built in the kernel model and wrapped by the real p_socket_new_from_fd.
 * Script: A sends datagram 1 to B (p_socket_send_to, or p_socket_connect + p_socket_send when
 * -DCONNECTED), C sends datagram 2 to B, then B receives twice (receive_from, then receive_from or
 * receive) with arbitrary buffer lengths.  Every call has a symbolic blocking flag and fault schedule.
 * Oracle: each receive returns exactly one queued datagram cut to the buffer length (the excess is
 * discarded, the next receive starts at the next datagram), byte-exact, and receive_from reports the
 * sender's bound address, compared through the real PSocketAddress conversions. */
#include "C09_common.h"

static unsigned char d1[VS_CAP], d2[VS_CAP];

static void no_blocking_error(PError *err, _Bool blocking) {
  VASSERT(err != NULL, "failure sets an error");
  int code = ERR_CODE(err), nat = ERR_NATIVE(err);
  if (blocking) VASSERT(code != P_ERROR_IO_WOULD_BLOCK && nat != EAGAIN && nat != EINTR, "blocking call never reports would-block / interrupted");
  else VASSERT(code == P_ERROR_IO_WOULD_BLOCK && nat == EAGAIN && vs.npoll == 0, "non-blocking: WOULD_BLOCK at once");
  ERR_FREE(err);
}

static PSocket *mk(int fam, struct sockaddr_storage *ss, int *fd) {
  int len = nd_native(fam, ss);
  *fd = vs_mkfd(SOCK_DGRAM, fam);
  vs_set_local(*fd, ss, len);
  PSocket *s = p_socket_new_from_fd(*fd, NULL);
  VASSERT(s != NULL && p_socket_get_type(s) == P_SOCKET_TYPE_DATAGRAM && !p_socket_is_connected(s), "datagram socket from descriptor");
  return s;
}

static void check_from(PSocketAddress *from, const struct sockaddr_storage *expect, int fam) {
  struct sockaddr_storage got;
  VASSERT(from != NULL, "receive_from reports a source address");
  VASSERT(p_socket_address_get_family(from) == (PSocketFamily) fam, "source address family");
  psize len = p_socket_address_get_native_size(from);
  VASSERT(len == (fam == AF_INET ? sizeof(struct sockaddr_in) : sizeof(struct sockaddr_in6)), "source address native size");
  for (int k = 0; k < VS_ALEN; k++) ((unsigned char *) &got)[k] = 0;
  VASSERT(p_socket_address_to_native(from, &got, sizeof got), "source address converts back");
  VASSERT(same_bytes(&got, expect, (int) len), "receive_from reports exactly the sender's address (port, address, flow, scope)");
  p_socket_address_free(from);
}

void harness(void) {
  vm_alloc_install(); vs_reset();
  p_socket_init_once();
#ifdef FAMILY
  int fam = FAMILY;
#else
  int fam = ND_BOOL() ? AF_INET : AF_INET6;
#endif
  struct sockaddr_storage sa, sb, sc;
  int a, b, c;
  PSocket *A = mk(fam, &sa, &a), *B = mk(fam, &sb, &b), *C = mk(fam, &sc, &c);
  /* distinct ports (the model routes by family + port) */
  VASSUME(((struct sockaddr_in *) &sa)->sin_port != ((struct sockaddr_in *) &sb)->sin_port);
  VASSUME(((struct sockaddr_in *) &sc)->sin_port != ((struct sockaddr_in *) &sb)->sin_port);
  VASSUME(((struct sockaddr_in *) &sa)->sin_port != ((struct sockaddr_in *) &sc)->sin_port);
  PSocketAddress *addrB = p_socket_address_new_from_native(&sb, sizeof sb);
  VASSERT(addrB != NULL, "address of B");
  int n1 = ND_RANGE(1, VS_CAP), n2 = ND_RANGE(1, VS_CAP);
  for (int k = 0; k < VS_CAP; k++) { d1[k] = ND_UCHAR(); d2[k] = ND_UCHAR(); }
  PError *err = NULL;
  _Bool blk;
  pssize r;

  /* datagram 1: A -> B */
  blk = ND_BOOL(); p_socket_set_blocking(A, nd_pbool(blk));
#ifdef CONNECTED
  vs_begin_call(FAULTS, VS_M_EINTR);
  VASSERT(p_socket_connect(A, addrB, &err) && err == NULL && p_socket_is_connected(A), "connect of a datagram socket sets the default destination");
  vs_begin_call(FAULTS, VS_M_EINTR | VS_M_EAGAIN);
  vs.nb_call = !blk;
  r = p_socket_send(A, (const pchar *) d1, (psize) n1, &err);
#else
  vs_begin_call(FAULTS, VS_M_EINTR | VS_M_EAGAIN);
  vs.nb_call = !blk;
  r = p_socket_send_to(A, addrB, (const pchar *) d1, (psize) n1, &err);
#endif
  _Bool s1 = r >= 0;
  if (s1) VASSERT(r == n1 && err == NULL, "whole datagram sent"); else { no_blocking_error(err, blk); err = NULL; }
  /* datagram 2: C -> B */
  blk = ND_BOOL(); p_socket_set_blocking(C, nd_pbool(blk));
  vs_begin_call(FAULTS, VS_M_EINTR | VS_M_EAGAIN);
  vs.nb_call = !blk;
  r = p_socket_send_to(C, addrB, (const pchar *) d2, (psize) n2, &err);
  _Bool s2 = r >= 0;
  if (s2) VASSERT(r == n2 && err == NULL, "whole datagram sent"); else { no_blocking_error(err, blk); err = NULL; }
  VASSERT(VFD(dq_n, b) == (int) s1 + (int) s2, "exactly one queued datagram per successful send, none for a failed one");

  /* B receives */
  unsigned char buf[VS_CAP];
  int got = 0;
  _Bool cut = 0;
  for (int i = 0; i < 2; i++) {
    int bl = ND_RANGE(1, VS_CAP);
    PSocketAddress *from = NULL;
    _Bool use_from = (i == 0) || ND_BOOL();
    blk = ND_BOOL(); p_socket_set_blocking(B, nd_pbool(blk));
    p_socket_set_timeout(B, 0);
    vs_begin_call(FAULTS, VS_M_EINTR | VS_M_EAGAIN);
    vs.nb_call = !blk;
    unsigned char fillb = ND_UCHAR();          /* what the caller's buffer held before */
    int jb = ND_RANGE(0, VS_CAP - 1);
    for (int k = 0; k < VS_CAP; k++) buf[k] = fillb;
    if (use_from) r = p_socket_receive_from(B, &from, (pchar *) buf, (psize) bl, &err);
    else r = p_socket_receive(B, (pchar *) buf, (psize) bl, &err);
    if (r >= 0) {
      /* which datagram must this be? the first still queued one */
      _Bool first = (got == 0 && s1);
      int n = first ? n1 : n2;
      VASSERT(got < (int) s1 + (int) s2, "no datagram out of thin air");
      VASSERT(err == NULL, "no error on success");
      VASSERT(r == (n < bl ? n : bl), "exactly one datagram, cut to the buffer length (returned count = bytes stored, never the longer datagram length)");
      if (jb >= r) VASSERT(buf[jb] == fillb, "the caller's buffer is untouched beyond the returned count");
      if (n > bl) cut = 1;
      VASSERT(first ? same_bytes(buf, d1, (int) r) : same_bytes(buf, d2, (int) r), "datagram payload byte-exact");
      if (use_from) check_from(from, first ? &sa : &sc, fam);
      got++;
    } else {
      if (blk) VASSERT(0, "blocking receive without timeout either returns a datagram or keeps waiting");
      no_blocking_error(err, blk); err = NULL;
    }
  }
  VASSERT(VFD(dq_n, b) == (int) s1 + (int) s2 - got, "datagrams are consumed one per receive");
  VASSERT(vs.bad_access == 0 && !vs.sigpipe_raised, "only open descriptors, no signal");
  p_socket_address_free(addrB);
  p_socket_free(A); p_socket_free(B); p_socket_free(C);
  VASSERT(vm_live == 0 && vs_open_count() == 0 && vs.bad_close == 0, "everything released");
  VWITNESS("end");
  if (got == 2 && n1 > 1) VWITNESS("two datagrams received, in order");
  if (got == 2 && cut && n1 > 2) VWITNESS("a datagram longer than the receive buffer was cut, the next one arrived intact");
  if (got == 2 && vs.nfaults >= FAULTS) VWITNESS("two datagrams received under faults");
}
