/* C18 / C20 (IPC part): create - use - free scripts for PSemaphore, PShm, PShmBuffer in process 0 over the
 * kernel model, with the REAL pipc.c key derivation (SHA-1 of the concrete names; model name table in
 * string mode), under
 *   -DMODE_ALLOC : the allocator installed through p_mem_set_vtable fails request number k = FAIL_AT (only that
 *                  one, or that one and all later ones: symbolic); the runner enumerates k over all requests
 *                  of the script                                                                     (C18)
 *   -DMODE_SYS   : up to 2 of the system calls sem_open/shm_open/ftruncate/fstat/mmap fail (ENOMEM/EACCES)
 *                  at symbolic positions                                                            (C20)
 * The object may or may not exist beforehand (created by process 1).  Assertions: constructors return NULL
 * only when something was made to fail, a handle otherwise; no invalid access (CBMC checks on every
 * dereference); after the script (objects freed by an owner) the ledgers are back: allocations, semaphore
 * handles, descriptors (each closed exactly once), mapped pages, names created by the script. */
#include "verif.h"
#include "alloc.h"
#include "kernel_ipc.h"
#include <pmem.h>
#include <perror.h>
#include <psemaphore.h>
#include <pshm.h>
#include <pshmbuffer.h>
#ifndef SCRIPT
#define SCRIPT 0
#endif
#ifndef KMAX
#define KMAX 16
#endif

void vk_other(void) {}

void harness(void) {
  vm_alloc_install();
  /* pre: 0 = the name does not exist; 1 = process 1 holds a LIVE handle of the same kind with data in it;
   * 2 (buffer script only) = a raw segment too small for a buffer exists */
#if SCRIPT == 2
  int pre = ND_RANGE(0, 2);
#else
  int pre = ND_RANGE(0, 1);
#endif
#ifdef PRE_ONLY
  VASSUME(pre == PRE_ONLY);      /* runner case split on the pre-state */
#endif
  int existed = pre != 0;
  unsigned long sz0 = (unsigned long) ND_RANGE(1, VK_SEGMAX), sz = (unsigned long) ND_RANGE(1, VK_SEGMAX);
#if SCRIPT == 2
  VASSUME(sz + 17 <= VK_SEGMAX);
  if (pre == 1) VASSUME(sz0 >= 19);            /* buffer of capacity sz0 - 17 >= 2 */
  if (pre == 2) VASSUME(sz0 <= 17);
#endif
  /* prologue by process 1 (never fails, not part of the ledger of process 0) */
  void *other = NULL;
  PShmBuffer *h1 = NULL;
  if (existed) {
    vk_cur = 1;
#if SCRIPT == 0
    other = p_semaphore_new("a", 1, P_SEM_ACCESS_OPEN, NULL);
#elif SCRIPT == 1
    other = p_shm_new("a", sz0, P_SHM_ACCESS_READWRITE, NULL);
    if (other != NULL) ((unsigned char *) p_shm_get_address((PShm *) other))[0] = 0x5A;
#else
    if (pre == 1) {
      unsigned char d0[2] = { 7, 9 };
      h1 = p_shm_buffer_new("a", sz0 - 17, NULL);
      VASSUME(h1 != NULL);
      VASSUME(p_shm_buffer_write(h1, d0, 2, NULL) == 2);
      other = h1;
    } else
      other = p_shm_new("a", sz0, P_SHM_ACCESS_READWRITE, NULL);
#endif
    VASSUME(other != NULL);
  }
  int live0 = vm_live, names0 = vk_names_linked();
  vk_cur = 0;
#ifdef MODE_ALLOC
  vm_nalloc = 0;
#ifdef FAIL_AT
  vm_fail_at = FAIL_AT;          /* runner case split: one query per request index (keeps the SHA-1 data concrete) */
#else
  vm_fail_at = ND_RANGE(0, KMAX);
#endif
  vm_fail_from = ND_BOOL();
#endif
#ifdef MODE_SYS
  vk_fault_budget = ND_RANGE(0, 2);
#endif
  PError *err = NULL;
  int got = 0;
#if SCRIPT == 0
  int mode = ND_RANGE(0, 1);
#ifdef KF_OPEN_C06_create_existing
  VASSUME(!(existed && mode == P_SEM_ACCESS_CREATE));
#endif
  PSemaphore *s = p_semaphore_new("a", 1, (PSemaphoreAccessMode) mode, &err);
  if (s != NULL) {
    got = 1;
    vk_expect_noblock = 1;
    VASSERT(p_semaphore_acquire(s, NULL) == TRUE, "handle returned under failure injection is usable");
    vk_expect_noblock = 0;
    VASSERT(p_semaphore_release(s, NULL) == TRUE, "release works");
    p_semaphore_take_ownership(s);
    p_semaphore_free(s);
  }
#elif SCRIPT == 1
#ifdef KF_OPEN_C20_shm_munmap_clamped
  /* opening an existing larger segment with a smaller size: munmap(clamped size) leaves tail pages mapped */
  VASSUME(!(existed && (sz + VK_PAGE - 1) / VK_PAGE < (sz0 + VK_PAGE - 1) / VK_PAGE));
#endif
#ifdef KF_DEMO_MUNMAP
  VASSUME(existed && (sz + VK_PAGE - 1) / VK_PAGE < (sz0 + VK_PAGE - 1) / VK_PAGE);
#endif
  int rw = ND_BOOL();                      /* access permission symbolic: the ledgers must not depend on it */
  PShm *m = p_shm_new("a", sz, rw ? P_SHM_ACCESS_READWRITE : P_SHM_ACCESS_READONLY, &err);
  if (m != NULL) {
    got = 1;
    unsigned char *a = (unsigned char *) p_shm_get_address(m);
    unsigned long o = (unsigned long) ND_RANGE(0, VK_SEGMAX - 1);
    VASSERT(a != NULL && p_shm_get_size(m) > 0 && p_shm_get_size(m) <= (unsigned long) vk_map_len(0, a), "handle returned under failure injection is mapped");
    if (rw && o < p_shm_get_size(m) && o > 0) a[o] = 1;
    vk_expect_noblock = 1;
    VASSERT(p_shm_lock(m, NULL) == TRUE, "lock usable");
    vk_expect_noblock = 0;
    VASSERT(p_shm_unlock(m, NULL) == TRUE, "unlock works");
    p_shm_take_ownership(m);
    p_shm_free(m);
  }
#else
#ifdef KF_OPEN_C20_shm_munmap_clamped
  VASSUME(!(existed && (sz + 17 + VK_PAGE - 1) / VK_PAGE < (sz0 + VK_PAGE - 1) / VK_PAGE));
#endif
#ifdef KF_OPEN_C08_smaller_size
  VASSUME(!(existed && sz + 17 < sz0));
#endif
  PShmBuffer *b = p_shm_buffer_new("a", sz, &err);
  if (b != NULL) {
    got = 1;
    unsigned char d[2] = { 7, 9 }, r[2] = { 0, 0 };
    if (!existed && sz >= 2) {
      VASSERT(p_shm_buffer_write(b, d, 2, NULL) == 2, "buffer returned under failure injection accepts data");
      VASSERT(p_shm_buffer_read(b, r, 2, NULL) == 2 && r[0] == 7 && r[1] == 9, "and returns it");
    }
    if (pre == 1) VASSERT(p_shm_buffer_get_used_space(b, NULL) == 2, "handle on an existing buffer sees the data queued in it");
    p_shm_buffer_take_ownership(b);
    p_shm_buffer_free(b);
  }
#endif
  /* ---- outcome ---- */
  int injected = 0;
#ifdef MODE_ALLOC
  VASSERT(vm_nalloc <= KMAX, "harness: KMAX covers every allocation request of the script");
#endif
#ifdef MODE_ALLOC
  injected += vm_failed;
  vm_fail_at = 0; vm_fail_from = 0;
#endif
#ifdef MODE_SYS
  injected += vk_fault_seen;
  vk_fault_budget = 0;
#endif
#if SCRIPT == 2
  /* an existing segment too small for a buffer header is a documented reason for NULL */
  if (!got && pre == 2) injected++;
#endif
  if (!got) VASSERT(injected > 0, "constructor fails only when an allocation or a system call was made to fail");
  if (got && injected == 0) VASSERT(err == NULL, "no error object on success");
  if (!got && err != NULL) {
    VASSERT(p_error_get_code(err) >= (pint) P_ERROR_DOMAIN_IPC, "failure is reported in the IPC error domain");
  }
  if (err != NULL) p_error_free(err);
  /* ---- ledgers ---- */
  VASSERT(vm_live == live0, "allocation ledger back to its value before the script");
  VASSERT(vk_sem_handles(0) == 0, "no semaphore handle left open");
  VASSERT(vk_open_fds(0) == 0 && vk_bad_close == 0, "every descriptor opened by the library is closed exactly once");
#ifdef KF_DEMO_MUNMAP
  VKF(vk_mapped_pages(0) == 0, "no page left mapped after p_shm_free");
#else
  VASSERT(vk_mapped_pages(0) == 0, "no page left mapped (munmap covers what mmap mapped)");
#endif
  VASSERT(vk_bad_munmap == 0, "munmap only of mapped addresses");
  if (!existed) VASSERT(vk_names_linked() == names0, "no IPC name created by the script is left in the system");
  else VASSERT(vk_names_linked() <= names0, "no additional IPC name left in the system");
  if (existed && got) VASSERT(vk_names_linked() == 0, "owner free removed the pre-existing names");
  /* "objects that existed before the call remain valid and unchanged": a FAILED open of an existing object must not
   * unlink, reset or detach it - the live handle of process 1 keeps working and a further open attaches to the same object */
  int replacing = 0;
#if SCRIPT == 0
  replacing = (mode == P_SEM_ACCESS_CREATE);   /* CREATE mode replaces the counter on purpose (unlink + create): not an "open" */
#endif
  if (existed && !got && !replacing) {
    VASSERT(vk_names_linked() == names0, "a failed open leaves the existing names linked");
#if SCRIPT == 0
    VASSERT(vk_sem_value(0) == 1, "a failed open leaves the existing counter untouched");
    PSemaphore *third = p_semaphore_new("a", 3, P_SEM_ACCESS_OPEN, NULL);
    VASSERT(third != NULL, "a further open succeeds");
    VASSUME(third != NULL);
    VASSERT(p_semaphore_release(third, NULL) == TRUE && vk_sem_value(0) == 2, "a further open attaches to the SAME counter");
    vk_expect_noblock = 1;
    VASSERT(p_semaphore_acquire(third, NULL) == TRUE && vk_sem_value(0) == 1, "and operates on it");
    vk_expect_noblock = 0;
    p_semaphore_free(third);
#elif SCRIPT == 1
    unsigned char *oa = (unsigned char *) p_shm_get_address((PShm *) other);
    VASSERT(oa[0] == 0x5A, "a failed open leaves the existing bytes untouched");
    PShm *third = p_shm_new("a", sz0, P_SHM_ACCESS_READWRITE, NULL);
    VASSERT(third != NULL && p_shm_get_address(third) == (ppointer) oa, "a further open attaches to the SAME segment");
    VASSUME(third != NULL);
    VASSERT(vk_sem_value(0) == 1, "lock of the existing segment untouched");
    vk_expect_noblock = 1;
    VASSERT(p_shm_lock(third, NULL) == TRUE && vk_sem_value(0) == 0, "a further open attaches to the SAME lock");
    vk_expect_noblock = 0;
    VASSERT(p_shm_unlock(third, NULL) == TRUE, "unlock");
    p_shm_free(third);
#else
    if (pre == 1) {
      PShmBuffer *third = p_shm_buffer_new("a", sz0 - 17, NULL);
      VASSERT(third != NULL, "a further open of the buffer succeeds");
      VASSUME(third != NULL);
      VASSERT(p_shm_buffer_get_used_space(third, NULL) == 2, "a further open attaches to the SAME buffer (sees the queued data)");
      p_shm_buffer_free(third);
      unsigned char r1[2] = { 0, 0 };
      vk_cur = 1;
      VASSERT(p_shm_buffer_read(h1, r1, 2, NULL) == 2 && r1[0] == 7 && r1[1] == 9, "the live handle still reads its data after the failed open");
    }
#endif
  }
  /* the other process' object is untouched by whatever failed in process 0 */
  if (existed) {
    vk_cur = 1;
#if SCRIPT == 0
    VASSERT(p_semaphore_release((PSemaphore *) other, NULL) == TRUE, "object of the other process still usable");
#elif SCRIPT == 1
    VASSERT(p_shm_get_size((PShm *) other) == sz0 && p_shm_get_address((PShm *) other) != NULL, "object of the other process unchanged");
#else
    if (pre == 2) VASSERT(p_shm_get_size((PShm *) other) == sz0 && p_shm_get_address((PShm *) other) != NULL, "object of the other process unchanged");
    else VASSERT(p_shm_buffer_get_free_space(h1, NULL) >= 0, "buffer handle of the other process still usable");
#endif
  }
  VWITNESS("script completed");
#if (!defined(FAIL_AT) || defined(FAIL_LAST))
  if (got && injected == 0) VWITNESS("success path");
#endif
#if !defined(FAIL_LAST)
  if (!got) VWITNESS("constructor failed");
  if (pre == 1 && !got) VWITNESS("failure while opening an existing object with a live handle");
#endif
}
