/* C09 connection establishment through the real API only: listener L (p_socket_new, bind, listen),
 * client C (p_socket_new, p_socket_connect), accepted socket S (p_socket_accept), then one payload
 * C -> S.  Symbolic: address, whether anybody listens at the target (refused), whether the kernel
 * completes the handshake at once or reports EINPROGRESS, blocking flags, timeouts, and the fault
 * schedule (EINTR on connect - with the attempt either not started or continuing asynchronously -,
 * EINTR on poll, EINTR/EAGAIN on accept/send/recv).
 * Oracle: blocking connect/accept complete or fail for a real reason (refused / timed out), never
 * would-block / in-progress / interrupted; non-blocking connect reports IN_PROGRESS at once and the
 * documented continuation (wait for POLLOUT, check_connect_result) yields the real outcome; the accepted
 * socket is the client's peer (addresses through the real conversions, payload byte-exact). */
#include "C09_common.h"

#ifndef FAMILY
#define FAMILY AF_INET
#endif

static void native_of(PSocketAddress *x, struct sockaddr_storage *out) {
  for (int k = 0; k < VS_ALEN; k++) ((unsigned char *) out)[k] = 0;
  VASSERT(x != NULL && p_socket_address_to_native(x, out, sizeof *out), "address converts to native");
}

void harness(void) {
  vm_alloc_install(); vs_reset();
  p_socket_init_once();
  const int fam = FAMILY;
  PError *err = NULL;
  struct sockaddr_storage sl, so;
  int len = nd_native(fam, &sl);
  nd_native(fam, &so);
  VASSUME(((struct sockaddr_in *) &so)->sin_port != ((struct sockaddr_in *) &sl)->sin_port);
  PSocketAddress *laddr = p_socket_address_new_from_native(&sl, (psize) len), *other = p_socket_address_new_from_native(&so, (psize) len);
  VASSERT(laddr != NULL && other != NULL, "addresses");

  PSocket *L = p_socket_new((PSocketFamily) fam, P_SOCKET_TYPE_STREAM, P_SOCKET_PROTOCOL_TCP, &err);
  VASSERT(L != NULL && err == NULL, "listener created");
  VASSERT(p_socket_bind(L, laddr, TRUE, &err) && err == NULL, "bind");
  VASSERT(p_socket_listen(L, &err) && err == NULL, "listen");
  int lfd = p_socket_get_fd(L);
  VASSERT(VFD(listening, lfd) && VFD(backlog, lfd) == 5 && same_row(VFD(local, lfd), &sl, len), "kernel: listening on the given address with the default backlog");

  PSocket *C = p_socket_new((PSocketFamily) fam, P_SOCKET_TYPE_STREAM, P_SOCKET_PROTOCOL_DEFAULT, &err);
  VASSERT(C != NULL && err == NULL, "client created");
  int cfd = p_socket_get_fd(C);
  _Bool refused = ND_BOOL(), blocking = ND_BOOL();
  int T = ND_RANGE(0, 1000000);
  VFD(conn_immediate, cfd) = ND_BOOL();
  p_socket_set_blocking(C, nd_pbool(blocking)); p_socket_set_timeout(C, T);
  long long clock0 = vs.clock;
  vs_begin_call(FAULTS, VS_M_EINTR);
  vs.nb_call = !blocking;
  pboolean ok = p_socket_connect(C, refused ? other : laddr, &err);
  _Bool established = 0;
  if (ok) {
    VASSERT(err == NULL && !refused, "connect succeeds only when somebody listens");
    VASSERT(p_socket_is_connected(C) && VFD(connected, cfd) && !VFD(connecting, cfd), "connected in the kernel and in the getter");
    established = 1;
  } else {
    VASSERT(err != NULL && !p_socket_is_connected(C), "failed connect: error object, not connected");
    int code = ERR_CODE(err), nat = ERR_NATIVE(err);
    if (blocking) {
      VASSERT(code != P_ERROR_IO_WOULD_BLOCK && code != P_ERROR_IO_IN_PROGRESS, "blocking connect never reports would-block / in-progress");
      if (code == P_ERROR_IO_TIMED_OUT) VASSERT(T > 0 && vs.last_poll_zero, "timed out only with a timeout, after poll reported expiry");
      else VASSERT(refused && code == P_ERROR_IO_CONNECTION_REFUSED && nat == ECONNREFUSED, "blocking connect fails only for a real reason");
    } else {
      VASSERT(vs.npoll == 0 && vs.clock == clock0, "non-blocking connect does not wait");
      VASSERT((code == P_ERROR_IO_IN_PROGRESS && (nat == EINPROGRESS || nat == EALREADY)) ||
              (refused && code == P_ERROR_IO_CONNECTION_REFUSED && nat == ECONNREFUSED), "non-blocking connect: IN_PROGRESS (or the final refusal)");
      if (code == P_ERROR_IO_IN_PROGRESS) {
        /* documented continuation */
        ERR_FREE(err); err = NULL;
        p_socket_set_timeout(C, 0);
        vs_begin_call(FAULTS, VS_M_EINTR);
        VASSERT(p_socket_io_condition_wait(C, P_SOCKET_IO_CONDITION_POLLOUT, &err) && err == NULL, "waiting for POLLOUT without timeout returns when the handshake is over");
        pboolean cr = p_socket_check_connect_result(C, &err);
        VASSERT(cr == !refused && p_socket_is_connected(C) == cr, "check_connect_result reports the real outcome");
        if (!cr) VASSERT(err != NULL && ERR_CODE(err) == P_ERROR_IO_CONNECTION_REFUSED, "refusal reported"); else VASSERT(err == NULL, "no error");
        established = cr;
      }
    }
    if (err) { ERR_FREE(err); err = NULL; }
  }

  PSocket *S = NULL;
  if (established) {
    _Bool lblk = ND_BOOL();
    p_socket_set_blocking(L, nd_pbool(lblk));
    vs_begin_call(FAULTS, VS_M_EINTR | VS_M_EAGAIN);
    vs.nb_call = !lblk;
    S = p_socket_accept(L, &err);
    if (S == NULL) {
      VASSERT(!lblk, "blocking accept with a pending connection returns it");
      VASSERT(err != NULL && ERR_CODE(err) == P_ERROR_IO_WOULD_BLOCK && ERR_NATIVE(err) == EAGAIN && vs.npoll == 0, "non-blocking accept: would-block at once");
      ERR_FREE(err); err = NULL;
    } else {
      VASSERT(err == NULL, "no error on success");
      int sfd = p_socket_get_fd(S);
      VASSERT(sfd != lfd && sfd != cfd && VFD(open, sfd) && VFD(peer, sfd) == cfd - VS_FD0, "accepted descriptor is the client's peer");
      VASSERT(p_socket_is_connected(S) && !p_socket_is_closed(S) && p_socket_get_blocking(S) && p_socket_get_timeout(S) == 0, "accepted socket: connected, blocking, no timeout");
      VASSERT(p_socket_get_family(S) == (PSocketFamily) fam && p_socket_get_type(S) == P_SOCKET_TYPE_STREAM && p_socket_get_protocol(S) == P_SOCKET_PROTOCOL_TCP, "accepted socket: family/type/protocol of the listener");
      VASSERT(VFD(cloexec, sfd) && VFD(nonblock, sfd), "accepted descriptor: close-on-exec, non-blocking");
      /* addresses seen from both ends, through the real conversions */
      PSocketAddress *ra = p_socket_get_remote_address(S, &err), *la = p_socket_get_local_address(C, &err);
      struct sockaddr_storage n1, n2;
      native_of(ra, &n1); native_of(la, &n2);
      VASSERT(same_bytes(&n1, &n2, len), "remote address of the accepted socket = local address of the client");
      p_socket_address_free(ra); p_socket_address_free(la);
      ra = p_socket_get_remote_address(C, &err); native_of(ra, &n1);
      VASSERT(same_bytes(&n1, &sl, len), "remote address of the client = listening address");
      p_socket_address_free(ra);
      /* one payload C -> S */
      unsigned char out[VS_CAP], in[VS_CAP];
      int n = ND_RANGE(1, VS_CAP);
      for (int k = 0; k < VS_CAP; k++) { out[k] = ND_UCHAR(); in[k] = 0; }
      p_socket_set_timeout(C, 0); p_socket_set_blocking(C, TRUE);
      vs_begin_call(FAULTS, VS_M_EINTR | VS_M_EAGAIN | VS_M_SHORT);
      pssize ws = p_socket_send(C, (const pchar *) out, (psize) n, &err);
      VASSERT(ws >= 1 && ws <= n && err == NULL, "blocking send on the fresh connection");
      vs_begin_call(FAULTS, VS_M_EINTR | VS_M_EAGAIN | VS_M_SHORT);
      pssize rs = p_socket_receive(S, (pchar *) in, VS_CAP, &err);
      VASSERT(rs >= 1 && rs <= ws && err == NULL && same_bytes(in, out, (int) rs), "accepted socket receives the client's bytes");
    }
  }
  VASSERT(vs.bad_access == 0 && !vs.sigpipe_raised, "only open descriptors, no signal");
  if (S) p_socket_free(S);
  p_socket_free(C); p_socket_free(L);
  p_socket_address_free(laddr); p_socket_address_free(other);
  VASSERT(vm_live == 0 && vs_open_count() == 0 && vs.bad_close == 0, "everything released");
  VWITNESS("end");
  if (S != NULL && vs.nfaults >= 2) VWITNESS("accepted under faults");
  if (ok && blocking && !VFD(conn_immediate, cfd)) VWITNESS("blocking connect through EINPROGRESS");
  if (!ok && refused && blocking) VWITNESS("blocking connect refused");
  if (!ok && !blocking && established) VWITNESS("non-blocking connect completed by the documented continuation");
}
