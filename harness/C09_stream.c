/* C09 stream: a connected stream pair (A <-> B) built directly in the kernel model, wrapped by the
 * real p_socket_new_from_fd.  NSTEPS library calls, each a p_socket_send on A or a p_socket_receive
 * on B with symbolic payload / length / blocking flag / timeout, every underlying poll/send/recv
 * invocation taking its behaviour from the symbolic fault schedule (<= FAULTS faults per call).
 * Oracle: the concatenation of the bytes returned by receives is, byte for byte, the prefix of the
 * concatenation of the bytes REPORTED sent, and what is still queued in the kernel is exactly the rest;
 * a blocking call never reports would-block / interrupted. */
#include "C09_common.h"

#ifndef NSTEPS
#define NSTEPS 3
#endif
#define LOGN (NSTEPS * VS_CAP)

/* The two byte streams are compared at ONE symbolic stream position w (the solver ranges over all w):
 * sent_w / rcvd_w = the byte reported sent / returned by receive at stream offset w.  Equivalent to
 * comparing whole logs, without symbolic-index array writes (measured: 10x cheaper for the SAT solver). */
static int w;
static unsigned char sent_w, rcvd_w;
static int nsent, nrcvd;

static void check_failure(PError *err, _Bool blocking, int T, long long clock0) {
  VASSERT(err != NULL, "failed call reports an error object");
  int code = ERR_CODE(err), nat = ERR_NATIVE(err);
  if (blocking) {
    /* peer alive, no hard faults: the only genuine reason to fail is the timeout */
    VASSERT(code != P_ERROR_IO_WOULD_BLOCK, "blocking call never reports WOULD_BLOCK");
    VASSERT(code == P_ERROR_IO_TIMED_OUT, "blocking call fails only for a real reason (here: timeout)");
    VASSERT(T > 0 && vs.last_poll_zero, "timed-out error only with a timeout set and after poll reported expiry");
    /* (how long it waited is decided per call in C10's timeout queries) */
  } else {
    VASSERT(code == P_ERROR_IO_WOULD_BLOCK && nat == EAGAIN, "non-blocking call that cannot proceed: WOULD_BLOCK");
    VASSERT(vs.npoll == 0 && vs.clock == clock0, "non-blocking call does not wait");
  }
  ERR_FREE(err);
}

void harness(void) {
  vm_alloc_install(); vs_reset();
  p_socket_init_once();
  int fam = ND_BOOL() ? AF_INET : AF_INET6;
  int a = vs_mkfd(SOCK_STREAM, fam), b = vs_mkfd(SOCK_STREAM, fam);
  vs_pair(a, b);
  PSocket *A = p_socket_new_from_fd(a, NULL), *B = p_socket_new_from_fd(b, NULL);
  VASSERT(A != NULL && B != NULL, "sockets from connected descriptors");
  VASSERT(p_socket_is_connected(A) && p_socket_is_connected(B), "connected state detected from the descriptor");
  VASSERT(VFD(nonblock, a) && VFD(nonblock, b), "descriptor is put into non-blocking mode");
  _Bool blocked_step = 0, short_seen = 0;
  w = ND_RANGE(0, LOGN - 1);
  int first_len = 0, sends_ok = 0;

  for (int s = 0; s < NSTEPS; s++) {
    _Bool is_send = ND_BOOL(), blocking = ND_BOOL();
    int T = ND_RANGE(0, 1000000);
    PSocket *S = is_send ? A : B;
    p_socket_set_blocking(S, nd_pbool(blocking));
    p_socket_set_timeout(S, T);
    unsigned char buf[VS_CAP];
    PError *err = NULL;
    long long clock0 = vs.clock;
    int faults0 = vs.nfaults;
    vs_begin_call(FAULTS, VS_M_EINTR | VS_M_EAGAIN | VS_M_SHORT);
    vs.nb_call = !blocking;
    if (is_send) {
      int n = ND_RANGE(1, VS_CAP);
      for (int k = 0; k < VS_CAP; k++) buf[k] = ND_UCHAR();
      pssize r = p_socket_send(A, (const pchar *) buf, (psize) n, &err);
      if (r >= 0) {
        VASSERT(err == NULL, "successful send sets no error");
        VASSERT(r >= 1 && r <= n, "send reports between 1 and buflen bytes");
        if (w >= nsent && w < nsent + r) sent_w = buf[w - nsent];
        nsent += (int) r;
        if (r < n) short_seen = 1;
        if (sends_ok == 0) first_len = (int) r;
        sends_ok++;
      } else check_failure(err, blocking, T, clock0);
    } else {
      int n = ND_RANGE(0, VS_CAP);
      pssize r = p_socket_receive(B, (pchar *) buf, (psize) n, &err);
      if (r >= 0) {
        VASSERT(err == NULL, "successful receive sets no error");
        VASSERT(r <= n, "receive returns at most buflen bytes");
        if (w >= nrcvd && w < nrcvd + r) rcvd_w = buf[w - nrcvd];
        nrcvd += (int) r;
      } else check_failure(err, blocking, T, clock0);
    }
    if (blocking && vs.nfaults - faults0 == FAULTS) blocked_step = 1;
  }

  VASSERT(nrcvd <= nsent, "nothing received that was not sent");
  if (w < nrcvd) VASSERT(rcvd_w == sent_w, "received stream = prefix of the stream reported sent, byte for byte");
  VASSERT(VFD(rx_len, b) == nsent - nrcvd, "bytes reported sent and not yet received are exactly what the kernel still holds");
  if (w >= nrcvd && w < nsent) VASSERT(VFD(rx, b)[w - nrcvd] == sent_w, "queued bytes = rest of the sent stream, in order");
  VASSERT(VFD(tx_total, a) == nsent && VFD(rx_total, b) == nrcvd, "byte counts reported = byte counts moved by the kernel");
  VASSERT(!vs.sigpipe_raised, "no SIGPIPE");
  VASSERT(vs.bad_access == 0, "no access to a descriptor that is not open");
  p_socket_free(A); p_socket_free(B);
  VASSERT(vm_live == 0 && vs_open_count() == 0 && vs.bad_close == 0, "everything released");
  VWITNESS("end of script");
  if (sends_ok >= 2 && nrcvd > first_len) VWITNESS("received bytes of two different sends");
  if (blocked_step) VWITNESS("blocking call with the full fault budget used");
  if (short_seen && nrcvd > 0) VWITNESS("short send followed by receive");
}
