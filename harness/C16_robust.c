/* C16 (a) robustness: PREFIX (concrete) followed by 0..NSYM symbolic characters; p_ini_file_parse on
 * the real pinifile.c/pstring.c/plist.c/pmem.c returns TRUE, every CBMC memory check passes, the
 * object is consistent, and freeing it is memory-safe.
 *   -DPREFIX="..."   concrete head of the file
 *   -DNSYM=n         number of symbolic characters; -DNMIN=m minimum (default 0)
 *   -DFIRST=c        first symbolic character fixed (split for parallelism)
 *   -DFILLER=n       a line of n filler characters 'a' precedes the symbolic part (fgets split at MAXLINE) */
#include "C16_common.h"
#ifndef PREFIX
#define PREFIX ""
#endif
#ifndef NMIN
#define NMIN 0
#endif

void harness(void) {
  PIniFile *ini;
  int pos, n, i, ns, nk;
  vm_alloc_install();
  pos = c16_put(0, PREFIX);
#ifdef FILLER
  for (i = 0; i < FILLER; i++) vm_file_data[pos++] = 'a';
#endif
  n = ND_RANGE(NMIN, NSYM);
  for (i = 0; i < NSYM; i++) {
    char c = c16_sym_char();
#ifdef FIRST
    if (i == 0) VASSUME(c == FIRST);
#endif
    vm_file_data[pos + i] = (unsigned char) c;
  }
  vm_file_len = pos + n;

  ini = p_ini_file_new("f");
  VASSERT(ini != NULL, "p_ini_file_new succeeds");
  VASSERT(p_ini_file_parse(ini, NULL) == TRUE, "parse of a readable file returns TRUE");
  ns = c16_consistent(ini, &nk);
  if (ns >= 1 && nk >= 1) VWITNESS("a section with a key was listed");
  if (ns == 0) VWITNESS("no section listed");
#ifdef WIT_TWO_SECTIONS
  if (ns >= 2) VWITNESS("two sections listed");
#endif
#ifdef WIT_SPLIT
  if (vm_fgets_calls >= 4) VWITNESS("fgets split a long line");
#endif
  p_ini_file_free(ini);
  VWITNESS("end of harness");
}
