/* C16 (a) robustness: file = PREFIX (concrete) + FILLER x 'a' + symbolic part + SUFFIX (concrete).
 * The symbolic part is either one line body of exactly LEN characters without new-line (-DLEN=n; the
 * line positions are then concrete and only this line's processing is symbolic), or 0..NSYM characters
 * that may be new-lines (-DNSYM=n; symbolic line structure, short).  Checked: p_ini_file_parse on the
 * real pinifile.c/pstring.c/plist.c/pmem.c returns TRUE, every CBMC memory-safety check passes
 * (stack buffers are exact, string blocks are VM_STRBLK bytes), the object is consistent (every listed
 * section has a key, every listed key exists and has a retrievable string), free is memory-safe.
 *   -DFIRST=c   first symbolic character fixed to c (split for parallelism)
 *   -DNOTFIRST="chars"  first symbolic character is none of these (the remainder class of the split) */
#include "C16_common.h"
#ifndef PREFIX
#define PREFIX ""
#endif
#ifndef SUFFIX
#define SUFFIX ""
#endif
#ifndef FILLER
#define FILLER 0
#endif
#ifdef LEN
#define NCH LEN
#else
#define NCH NSYM
#endif

void harness(void) {
  PIniFile *ini;
  int pos, n, i, ns, nk;
  vm_alloc_install();
  pos = c16_put(0, PREFIX);
  for (i = 0; i < FILLER; i++) vm_file_data[pos++] = 'a';
#ifdef LEN
  n = LEN;
#else
  n = ND_RANGE(0, NSYM);
#endif
  for (i = 0; i < NCH; i++) {
    char c = c16_sym_char();
#ifdef LEN
    VASSUME(c != '\n');
#endif
#ifdef FIRST
    if (i == 0) VASSUME(c == FIRST);
#endif
#ifdef NOTFIRST
    if (i == 0) VASSUME(vm_strchr(NOTFIRST, c) == NULL || c == 0);
#endif
    vm_file_data[pos + i] = (unsigned char) c;
  }
  pos += n;
#ifdef LEN
  pos = c16_put(pos, SUFFIX);
#endif
  vm_file_len = pos;

  ini = p_ini_file_new("f");
  VASSERT(ini != NULL, "p_ini_file_new succeeds");
  VASSERT(p_ini_file_parse(ini, NULL) == TRUE, "parse of a readable file returns TRUE");
  ns = c16_consistent(ini, &nk);
#ifdef WIT_KEYS
  if (nk >= WIT_KEYS) VWITNESS("expected number of keys can be listed");
#endif
#ifdef WIT_SECS
  if (ns >= WIT_SECS) VWITNESS("expected number of sections can be listed");
#endif
#ifdef WIT_NOSEC
  if (ns == 0) VWITNESS("no section listed");
#endif
#ifdef WIT_SPLIT
  if (vm_fgets_calls >= WIT_SPLIT) VWITNESS("fgets split the long line");
#endif
  p_ini_file_free(ini);
  VWITNESS("end of harness");
}
