/* C06: one p_semaphore_new of process P (0) overlapped by a whole call of process Q (1) (nested-atomic emulation,
 * depth 1): before P's PREEMPT_AT-th system call inside p_semaphore_new("a", n, OPEN|CREATE) process Q runs
 *   QOP 0: p_semaphore_free of its OWNER handle of the name (sem_close + sem_unlink), or
 *   QOP 1: a whole p_semaphore_new("a", v, CREATE).
 * (If P makes fewer system calls, Q's call simply follows.)  Pre-state: the name exists (created by Q with value
 * vq, Q is its owner) or - QOP 1 only - does not exist.  Whatever the interleaving:
 *   - P's call either fails cleanly (NULL, no handle of P left open), or
 *   - its handle is attached to a counter whose value fits a serial order of the two calls: the counter that already
 *     existed (value vq), the one Q's CREATE made (value v), or one P itself created - and a counter created by P holds
 *     EXACTLY n (OPEN on a missing name and CREATE both publish the given value);
 *   - a name that is linked afterwards refers to P's or Q's counter, and a linked counter created by P holds n. */
#include "verif.h"
#include "alloc.h"
#include "kernel_ipc.h"
#include <pmem.h>
#include <psemaphore.h>
#ifndef QOP
#define QOP 0
#endif
#ifndef VMAX
#define VMAX 3
#endif
#define NOBJ 4

static PSemaphore *q, *q2;
static int q_ran, v_new;

static void q_call(void) {
  vk_cur = 1;
#if QOP == 0
  p_semaphore_free(q); q = NULL;
#else
  q2 = p_semaphore_new("a", v_new, P_SEM_ACCESS_CREATE, NULL);
#endif
  q_ran = 1;
}
void vk_other(void) { q_call(); }

/* which kernel object does a handle operate on: release one unit through it and see which counter moved */
static int probe(PSemaphore *h, int proc, int *before) {
  int val[NOBJ], obj = -1;
  for (int i = 0; i < NOBJ; i++) val[i] = vk_sem_value(i);
  vk_cur = proc;
  VASSERT(p_semaphore_release(h, NULL) == TRUE, "release through the handle works");
  for (int i = 0; i < NOBJ; i++) if (vk_sem_value(i) != val[i]) { VASSERT(obj < 0 && vk_sem_value(i) == val[i] + 1, "exactly one counter moves by one"); obj = i; }
  VASSERT(obj >= 0, "the handle operates on a counter");
  *before = obj >= 0 ? val[obj] : -1;
  return obj;
}

void harness(void) {
  vm_alloc_install();
  int vq = ND_RANGE(0, VMAX), n = ND_RANGE(0, VMAX), mode = ND_RANGE(0, 1);
  v_new = ND_RANGE(0, VMAX);
  int existed = 1;
#if QOP == 1
  existed = ND_BOOL();
#endif
  int old = -1;
  if (existed) {
    vk_cur = 1;
    q = p_semaphore_new("a", vq, P_SEM_ACCESS_OPEN, NULL);     /* creator = owner */
    VASSERT(q != NULL, "prologue");
    VASSUME(q != NULL);
    old = vk_sem_linked(0);
  }
  /* P's call, preempted */
  vk_cur = 0;
  vk_preempt_at = PREEMPT_AT;
  vk_preempt_on = 1;
  PSemaphore *p = p_semaphore_new("a", n, (PSemaphoreAccessMode) mode, NULL);
  vk_preempt_on = 0;
  int nested = q_ran;
  if (!q_ran) q_call();
  VWITNESS("both calls completed");
#if PREEMPT_AT <= 3
  if (nested) VWITNESS("Q's call ran inside P's p_semaphore_new");
#endif
#if QOP == 1
  VASSERT(q2 != NULL, "Q's CREATE succeeds");
  VASSUME(q2 != NULL);
#endif
  int linked = vk_sem_linked(0);
  if (p == NULL) {
    VASSERT(vk_sem_handles(0) == 0, "failed p_semaphore_new leaves no handle open");
    return;
  }
  int pb, qb = -1, pobj = probe(p, 0, &pb), qobj = -1;
  VASSUME(pobj >= 0);
#if QOP == 1
  qobj = probe(q2, 1, &qb);
#endif
  /* value of P's counter right after the two calls */
  if (pobj == old) VASSERT(pb == vq, "P joined the existing counter: value untouched");
  else if (pobj == qobj) VASSERT(pb == v_new, "P joined the counter Q's CREATE made: exactly Q's value");
  else VASSERT(pb == n, "a counter created by P's open (OPEN on a missing name / CREATE) holds EXACTLY the given initial value");
  if (linked >= 0) VASSERT(linked == pobj || linked == qobj, "the name refers to P's or Q's counter");
  VWITNESS("P's handle checked");
}
