/* C06/C07: the REAL pipc.c:p_ipc_get_platform_key (SHA-1 of the name, '/' + 13 hex digits) on the
 * concrete names the history harnesses use (via models/kernel_ipc_keystub.c): the keys are
 * well-formed POSIX IPC names and pairwise distinct, which is what the stub assumes.
 * Stage 2 (-DSTAGE2): the lock-semaphore names of PShm are derived from the stage-1 shm keys. */
#include "verif.h"
#include "alloc.h"
#include <pmem.h>
#include <ptypes.h>
pchar *p_ipc_get_platform_key(const pchar *name, pboolean posix);

#define NK 4
static const char *names[NK] = { "a_p_sem_object", "b_p_sem_object", "a_p_shm_object", "b_p_shm_object" };

static int is_hex(char c) { return (c >= '0' && c <= '9') || (c >= 'a' && c <= 'f'); }

static int key_eq(const char *a, const char *b) {
  for (int i = 0; i < 15; i++) { if (a[i] != b[i]) return 0; if (a[i] == 0) return 1; }
  return 1;
}

void harness(void) {
  vm_alloc_install();
  pchar *k[NK + 2];
  int before = vm_live;
  for (int i = 0; i < NK; i++) {
    k[i] = p_ipc_get_platform_key(names[i], TRUE);
    VASSERT(k[i] != NULL, "key computed");
    VASSERT(k[i][0] == '/', "key starts with '/'");
    for (int j = 1; j <= 13; j++) VASSERT(is_hex(k[i][j]), "13 hex digits");
    VASSERT(k[i][14] == 0, "key is 14 characters long");
  }
  /* lock semaphores of the two PShm names: key of (shm key + "_p_sem_object") */
  for (int i = 0; i < 2; i++) {
    char buf[32];
    int n = 0;
    for (int j = 0; j < 14; j++) buf[n++] = k[2 + i][j];
    const char *suf = "_p_sem_object";
    for (int j = 0; j < 14; j++) buf[n++] = suf[j];
    k[NK + i] = p_ipc_get_platform_key(buf, TRUE);
    VASSERT(k[NK + i] != NULL && k[NK + i][0] == '/' && k[NK + i][14] == 0, "lock semaphore key well-formed");
  }
  for (int i = 0; i < NK + 2; i++)
    for (int j = i + 1; j < NK + 2; j++)
      VASSERT(!key_eq(k[i], k[j]), "distinct names receive distinct platform keys");
  /* same name -> same key (the identity every process computes) */
  pchar *again = p_ipc_get_platform_key(names[0], TRUE);
  VASSERT(again != NULL && key_eq(again, k[0]), "same name, same key");
  p_free(again);
  for (int i = 0; i < NK + 2; i++) p_free(k[i]);
  VASSERT(vm_live == before, "key computation leaves only the returned block allocated");
  VWITNESS("all keys computed");
}
