/* C02, harness 1 (CBMC native threads).  Units under test, selected by the query:
 *   general: the real prwlock-general.c on top of the real pmutex-posix.c and pcondvariable-posix.c over the
 *            pthread model (mutex + 2 condition variables);
 *   posix  : the real prwlock-posix.c over the pthread model's rwlock.
 *
 * Threads are configured by -DT1=.. -DT2=.. [-DT3=..] with roles
 *   'R' reader_lock, 'W' writer_lock, 'r' reader_trylock, 'w' writer_trylock   (one round each; ROUNDS=2: two)
 * Ghost readers/writers counters are updated between a successful lock and the unlock; the exclusion
 * assertion sits inside the atomic section of the acting thread.  Completion (no deadlock / lost wake-up)
 * is decided by the transition-time check of the pthread model (vm_thread_finish / cond_wait).
 * -DVM_SPURIOUS=n: every thread may be woken spuriously up to n times.
 * -DSHARE_WITNESS: witness that two readers are inside at the same time.
 * -DRENDEZVOUS (two 'R' threads only): each reader stays inside until the other one is inside too; the run must still
 *   complete (a reader lock that excludes other readers blocks both for ever -> deadlock assertion of the model).
 */
#include "verif.h"
#include "pthread_model.h"
#include <pmem.h>
#include <pmutex.h>
#include <pcondvariable.h>
#include <prwlock.h>

#ifndef ROUNDS
#define ROUNDS 1
#endif

static PRWLock *L;
int g_readers, g_writers;        /* ghost: threads between lock-return and unlock-call */
int g_shared_seen;               /* two readers were inside simultaneously */
int g_acq;                       /* number of successful acquisitions (all threads) */

#include "C01_store.h"

static void enter_read(void) {
  VATOMIC_BEGIN();
  g_readers++; g_acq++;
  VASSERT(g_writers == 0, "reader inside => no writer inside");
  if (g_readers >= 2) g_shared_seen = 1;
  VATOMIC_END();
}
static void leave_read(void) { VATOMIC_BEGIN(); g_readers--; VATOMIC_END(); }
static void enter_write(void) {
  VATOMIC_BEGIN();
  g_writers++; g_acq++;
  VASSERT(g_writers == 1, "at most one writer inside");
  VASSERT(g_readers == 0, "writer inside => no reader inside");
  VATOMIC_END();
}
static void leave_write(void) { VATOMIC_BEGIN(); g_writers--; VATOMIC_END(); }

static void act(char role) {
  pboolean ok;
  switch (role) {
  case 'R':
    ok = p_rwlock_reader_lock(L);
    VASSERT(ok == TRUE, "reader_lock returns TRUE (no platform failure in this run)");
    enter_read();
#ifdef RENDEZVOUS   /* two reader threads (ids 0, 1): neither leaves before the other one is inside as well */
    vm_event_set(vm_self); vm_event_wait(1 - vm_self);
#endif
    leave_read();
    ok = p_rwlock_reader_unlock(L);
    VASSERT(ok == TRUE, "reader_unlock returns TRUE");
    break;
  case 'W':
    ok = p_rwlock_writer_lock(L);
    VASSERT(ok == TRUE, "writer_lock returns TRUE (no platform failure in this run)");
    enter_write(); leave_write();
    ok = p_rwlock_writer_unlock(L);
    VASSERT(ok == TRUE, "writer_unlock returns TRUE");
    break;
  case 'r':
    ok = p_rwlock_reader_trylock(L);
    if (ok) { enter_read(); leave_read(); ok = p_rwlock_reader_unlock(L); VASSERT(ok == TRUE, "reader_unlock returns TRUE"); }
    break;
  case 'w':
    ok = p_rwlock_writer_trylock(L);
    if (ok) { enter_write(); leave_write(); ok = p_rwlock_writer_unlock(L); VASSERT(ok == TRUE, "writer_unlock returns TRUE"); }
    break;
  }
}

static void finish(void) {
  vm_thread_finish();
  VATOMIC_BEGIN();
  if (vm_all_finished()) {
    VASSERT(g_readers == 0 && g_writers == 0, "all threads done: nobody inside");
#ifdef MIN_ACQ
    VASSERT(g_acq >= MIN_ACQ, "every blocking lock call acquired");
#endif
    VWITNESS("all threads ran to completion");
#ifdef SHARE_WITNESS
    if (g_shared_seen) VWITNESS("two readers were inside at the same time");
#endif
#ifdef RENDEZVOUS
    VASSERT(g_shared_seen, "readers share: both readers were inside at the same time");
#endif
  }
  VATOMIC_END();
}

static void thread(int id, char role) {
  vm_thread_begin(id);
  for (int i = 0; i < ROUNDS; i++) act(role);
  finish();
}

void harness(void) {
  L = p_rwlock_new();
  VASSERT(L != NULL, "p_rwlock_new succeeds");
  vm_thread_register(0); vm_thread_register(1);
#ifdef T3
  vm_thread_register(2);
#endif
  __CPROVER_ASYNC_1: thread(0, T1);
  __CPROVER_ASYNC_2: thread(1, T2);
#ifdef T3
  __CPROVER_ASYNC_3: thread(2, T3);
#endif
}
