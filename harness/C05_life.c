/* C05: thread handle life cycle, join/exit code and TLS on the REAL puthread.c + puthread-posix.c +
 * patomic-c11.c + pspinlock-c11.c, threads emulated sequentially (models/thread_emul.c).
 *
 * Skeleton (chosen by the runner, keeps every POINTER concrete for CBMC; all DATA and the schedule symbolic):
 *   thread A is created first; thread B is created before symbolic step POS_B (or never); each is joinable or
 *   detached (JOINABLE_A / JOINABLE_B), named or not (NAMED).
 * Main thread: NOPS symbolic steps, each one of
 *   ref(i), unref(i), join(i), p_uthread_current, TLS set / replace / get, yield     (i = symbolic thread).
 * Created threads (<= 2): symbolic body of TOPS calls over TLS set / replace /
 *   get on two keys (one with, one without destroy notifier), p_uthread_current, ref+unref of the own handle,
 *   p_uthread_exit(code) with a symbolic code, or plain return.
 * Families (smaller bodies, chosen by the runner): FAM_LIFE = no TLS calls, FAM_TLS = no ref/current calls in
 * the thread bodies and no ref in main; neither = everything.
 * Where each created thread runs relative to the others is a symbolic choice at every model entry
 * (atomics, spinlock, pthread calls, free), nested up to TE_DEPTH.
 *
 * Oracle (ghost state only; never reads library internals):
 *   - ghost reference count of a handle = references held by main (1 from create + refs - unrefs) + 1 while the
 *     thread has not ended; the handle block must reach the allocator's free exactly once, and only when that
 *     count is 0; at every quiescent point "count == 0  =>  freed".  Use after free / double free are CBMC's
 *     pointer checks on the real code.
 *   - join on a joinable thread returns only when the thread is finished, returns the code given to
 *     p_uthread_exit (0 on plain return); join on a detached thread returns -1.
 *   - TLS: ghost table value[thread][key]; get returns it; destructor call counters per value:
 *     +1 expected for a non-NULL value displaced by replace_local, +1 for every non-NULL value left at thread
 *     end (keys with a destroy notifier), never for set_local; checked at thread end and at the end.
 *   - at the end: one live platform key per used PUThreadKey, allocation ledger back to the base line.
 * With -DPREWARM main has used every key once before the history (platform keys exist); the lazy first-use
 * creation and its race are the subject of harness/C05_keyrace.c.                                        */
#include "verif.h"
#include "alloc.h"
#include "thread_emul.h"
#include <pmem.h>
#include <puthread.h>

#ifndef NOPS
#define NOPS 4
#endif
#ifndef TOPS
#define TOPS 2
#endif
#ifndef POS_B
#define POS_B 99                             /* B is never created */
#endif
#ifndef JOINABLE_A
#define JOINABLE_A 1
#endif
#ifndef JOINABLE_B
#define JOINABLE_B 1
#endif
#define NTH 2
#define NKEY 2
#define NVAL (NOPS + NTH * TOPS)
#ifdef NAMED
#define THREAD_NAME "ab"
#else
#define THREAD_NAME NULL
#endif

/* a pboolean argument with the given truth value: ANY int whose truthiness is `want` (pboolean is a plain int;
 * every non-zero value is a legitimate TRUE, e.g. `flags & 4` or -1) */
static pboolean nd_pbool(_Bool want) { int v = ND_INT(); VASSUME((v != 0) == want); return (pboolean) v; }
extern void p_uthread_init(void);
extern void p_uthread_shutdown(void);

static PUThread *h[NTH];
static int created[NTH], is_joinable[NTH], joined[NTH], main_refs[NTH], freed[NTH];
static int exit_code[NTH], body_end[NTH], wrote[NTH];
static PUThread *cur_seen[NTH];
static PUThread *main_cur;
static PUThreadKey *key[NKEY];
static const int has_dtor[NKEY] = { 1, 0 };  /* key 0 with destroy notifier, key 1 without */
static int key_used[NKEY], lib_key_used;
static int gval[NTH + 1][NKEY];            /* ghost TLS: value id, 0 = NULL; row = thread slot (0 = main) */
static char vals[NVAL + 1];
static int dcount[NVAL + 1], dexpect[NVAL + 1];

static ppointer valptr(int id) { return id == 0 ? NULL : (ppointer) &vals[id]; }

void c05_tls_dtor(ppointer v) {
  VASSERT(v != NULL, "destroy notifier is never called with NULL");
  long id = (char *) v - vals;
  VASSERT(id >= 1 && id <= NVAL, "destroy notifier receives a value that was stored");
  if (id >= 1 && id <= NVAL) dcount[id]++;
}

/* ---- allocator wrappers: free is a preemption point; observation of the handle blocks */
static ppointer h_malloc(psize n) { return vm_malloc(n); }   /* a fresh block is private: no preemption point */
static ppointer h_realloc(ppointer p, psize n) { return vm_realloc(p, n); }
static void h_free(ppointer p) {
  te_preempt();
  for (int i = 0; i < NTH; i++)
    if (created[i] && p == (ppointer) h[i]) {
      freed[i]++;
      VASSERT(freed[i] == 1, "handle released exactly once");
      VASSERT(main_refs[i] == 0 && te_state[i + 1] >= TE_ENDING,
              "handle released only after the creator's, the explicit and the running thread's references are gone");
    }
  vm_free(p);
}

static void check_handles(void) {
  for (int i = 0; i < NTH; i++)
    if (created[i] && main_refs[i] == 0 && te_state[i + 1] == TE_FINISHED)
      VASSERT(freed[i] == 1, "handle released once the last reference is gone");
}

/* ---- TLS operation by thread `slot` on key k (both concrete at every call site) producing value id `id` */
static void tls_op(int slot, int k, int id) {
  int kind = ND_RANGE(0, 2);
  int newid = ND_BOOL() ? id : 0;             /* NULL may be stored as well */
  int old = gval[slot][k];
  key_used[k] = 1;
  if (kind == 0) {
    p_uthread_set_local(key[k], valptr(newid));
    gval[slot][k] = newid;
    VASSERT(dcount[old] == dexpect[old], "set_local never runs the destroy notifier");
  } else if (kind == 1) {
    if (old != 0 && has_dtor[k]) dexpect[old]++;
    p_uthread_replace_local(key[k], valptr(newid));
    gval[slot][k] = newid;
    VASSERT(dcount[old] == dexpect[old], "replace_local runs the destroy notifier exactly once for a non-NULL old value");
  } else {
    ppointer g = p_uthread_get_local(key[k]);
    VASSERT(g == valptr(old), "get_local returns this thread's own last value for the key");
  }
}

void te_hook_thread_ending(int slot) {
  for (int k = 0; k < NKEY; k++)
    if (gval[slot][k] != 0 && has_dtor[k]) { dexpect[gval[slot][k]]++; gval[slot][k] = 0; }
}
void te_hook_thread_finished(int slot) {
  int i = slot - 1;
  for (int s = 0; s < TOPS; s++) {            /* the values this thread stored (ids are static per thread and step) */
    int id = 1 + NOPS + i * TOPS + s;
    VASSERT(dcount[id] == dexpect[id], "thread exit runs the destroy notifier exactly once per non-NULL value left");
  }
}

/* ---- body of a created thread */
static ppointer thr_main(ppointer data) {
  int slot = te_cur, i = slot - 1;
  VASSERT(data == (ppointer) &wrote[i], "thread function receives the data pointer given to create");
  wrote[i] = 41 + i;
  for (int s = 0; s < TOPS; s++) {
    int op = ND_RANGE(0, 5);
    int id = 1 + NOPS + i * TOPS + s;
#ifndef FAM_LIFE
    if (op == 0) tls_op(slot, 0, id);
    else if (op == 1) tls_op(slot, 1, id);
#else
    if (op <= 1) { }
#endif
#ifdef FAM_TLS
    else if (op <= 3) { }
#else
    else if (op == 2) {
      PUThread *c = p_uthread_current();
      VASSERT(c != NULL, "p_uthread_current non-NULL in a created thread");
      cur_seen[i] = c;
    } else if (op == 3) {
      PUThread *c = p_uthread_current();
      p_uthread_ref(c);
      p_uthread_unref(c);
    }
#endif
    else if (op == 4) {
      int code = ND_INT();
      exit_code[i] = code;
      body_end[i] = 1;
      p_uthread_exit(code);
      return NULL;                            /* sequential stand-in for "pthread_exit does not return" */
    }
  }
  body_end[i] = 1;
  return NULL;
}

static void do_create(int i) {
  is_joinable[i] = (i == 0) ? JOINABLE_A : JOINABLE_B;   /* concrete per query: a symbolic flag would make create's
                                                           * error exits (and with them the handle pointer) symbolic */
  te_next_slot = i + 1;
  PUThread *t = p_uthread_create(thr_main, &wrote[i], nd_pbool(is_joinable[i]), THREAD_NAME);
  VASSERT(t != NULL, "create succeeds when nothing fails");
  h[i] = t; created[i] = 1; main_refs[i] = 1; lib_key_used = 1;
}

static void do_join(int i) {
  pint r = p_uthread_join(h[i]);
  if (is_joinable[i]) {
    joined[i] = 1;
    VASSERT(te_state[i + 1] == TE_FINISHED && body_end[i], "join returns only after the thread has finished");
    VASSERT(wrote[i] == 41 + i, "writes of the thread are visible after join");
    VASSERT(r == exit_code[i], "join yields the code passed to p_uthread_exit, 0 on plain return");
  } else
    VASSERT(r == -1, "join on a non-joinable thread fails with -1");
}

/* one operation on the handle of thread i (concrete i) */
static void handle_op(int i, int op) {
  VASSUME(main_refs[i] > 0);                  /* main only uses handles it holds a reference to */
  if (op == 0) { p_uthread_ref(h[i]); main_refs[i]++; }
  else if (op == 1) { main_refs[i]--; p_uthread_unref(h[i]); }
  else { VASSUME(!joined[i]); do_join(i); }
}

void harness(void) {
  PMemVTable vt;
  vt.f_malloc = h_malloc; vt.f_realloc = h_realloc; vt.f_free = h_free;
  p_mem_set_vtable(&vt);
  p_uthread_init();
  key[0] = p_uthread_local_new(c05_tls_dtor);
  key[1] = p_uthread_local_new(NULL);
  VASSUME(key[0] != NULL && key[1] != NULL);
  int base_live = vm_live;                    /* spinlock + library key object + 2 key objects */
#ifdef PREWARM
  /* every key has been used once by main before the history starts: the lazily created platform keys exist
   * (their first-use race is decided by harness/C05_keyrace.c) */
  main_cur = p_uthread_current(); lib_key_used = 1;
  VASSUME(main_cur != NULL);
  for (int k = 0; k < NKEY; k++) { p_uthread_set_local(key[k], NULL); key_used[k] = 1; }
  VASSERT(te_keys_live == NKEY + 1, "one platform key per used PUThreadKey");
#endif

  do_create(0);
  for (int s = 0; s < NOPS; s++) {
    if (s == POS_B) do_create(1);
    int op = ND_RANGE(0, 5);
    te_preempt();
    if (op <= 2) {
#ifdef FAM_TLS
      VASSUME(op != 0);                        /* TLS family: main only unrefs / joins */
#endif
      if (created[1] && ND_BOOL()) handle_op(1, op); else handle_op(0, op);
    }
#ifndef FAM_LIFE
    else if (op == 3 || op == 4) {
      /* with PREWARM a TLS operation only touches the caller's own slot of an existing key: it commutes with
       * everything other threads do, so the yield above is the only preemption point it needs */
#ifdef PREWARM
      te_no_preempt = 1;
#endif
      if (op == 4) tls_op(0, 0, 1 + s);
      else {
        PUThread *c = p_uthread_current();
        VASSERT(c != NULL && (main_cur == NULL || main_cur == c), "p_uthread_current is stable for the main thread");
        VASSERT(c != h[0] && c != h[1], "p_uthread_current of main is not a created thread's handle");
        main_cur = c; lib_key_used = 1;
      }
      te_no_preempt = 0;
    }
#endif
    /* op 5: only the yield above */
    check_handles();
  }

  /* ---- drain: everything pending runs, main joins and drops what it still holds */
  te_run_pending();
  for (int i = 0; i < NTH; i++) if (created[i]) {
    VASSERT(te_state[i + 1] == TE_FINISHED && body_end[i], "every created thread ran to its end");
    VASSERT(cur_seen[i] == NULL || cur_seen[i] == h[i], "p_uthread_current in a created thread is the handle returned by create");
    if (main_refs[i] > 0 && is_joinable[i] && !joined[i]) do_join(i);
    for (int r = 0; r < NOPS + 1; r++) if (main_refs[i] > 0) { main_refs[i]--; p_uthread_unref(h[i]); }
    VASSERT(freed[i] == 1, "handle released exactly once after the last reference");
  }
  for (int id = 1; id <= NVAL; id++)
    VASSERT(dcount[id] == dexpect[id], "destroy notifier calls = values displaced by replace_local + values left at thread exit");
  VASSERT(te_keys_live == key_used[0] + key_used[1] + lib_key_used,
          "one platform key per used PUThreadKey (the loser of the first-use race deletes its key)");
  VASSERT(vm_live == base_live + te_keys_live + (main_cur != NULL),
          "no block besides live key blocks and the main thread's own handle remains (names freed)");
  VASSERT(te_threads_unreaped == (created[0] && is_joinable[0] && !joined[0]) + (created[1] && is_joinable[1] && !joined[1]),
          "model ledger: only never-joined joinable threads remain unreaped");

  VWITNESS("end of history");
  if (te_preemptions > 0) VWITNESS("a thread ran inside another thread's operation");
#if JOINABLE_A
  if (exit_code[0] != 0 && joined[0]) VWITNESS("joined a thread that exited with a non-zero code");
#else
  if (freed[0] && te_preemptions > 0) VWITNESS("detached thread ran inside a main operation and its handle was released");
#endif
#ifndef FAM_LIFE
  if (dexpect[1 + NOPS] == 1) VWITNESS("destroy notifier expected for a value of thread A");
#endif
#if POS_B < NOPS
  if (te_depth == 0 && te_preemptions > 1) VWITNESS("both created threads preempted somebody");
#endif
}
