/* C12/C13/C14: from-empty API histories (cross-check of the inductive step harness through the PUBLIC
 * API only): NOPS symbolic operations insert/remove with symbolic keys from a universe of U ranks on a
 * tree created by p_tree_new*; after every call the observable results (return value, nnodes, lookup
 * of an arbitrary key, notifier calls of exactly this call) are compared with a reference map; at the
 * end the whole structure is checked from the root, then p_tree_free and exactly-once accounting.
 * Parameters: TT, NOPS, NEWMODE (notifier configuration, see trees_common.h), NULLTOK (rank whose first-call pair is NULL/NULL),
 * CHK_MAP / CHK_BAL / CHK_OWN. */
#ifndef NOPS
#define NOPS 3
#endif
#ifndef U
#define U 5
#endif
#define NK U
#define PH NOPS
#define IDMAX NOPS              /* the pair inserted by call i has identity i+1 */
#define NPHASE (NOPS + 1)       /* one accounting phase per call + the final p_tree_free */
#include "trees_common.h"

static _Bool ever_key[NK + 1][IDMAX + 2];   /* tokens ever given to the tree */

/* notifier calls of phase ph must be exactly {(lr, lid)} (lr = 0: none) */
static void check_phase(int ph, int lr, int lid) {
  int r, id;
  for (r = 1; r <= NK; r++)
    for (id = 1; id <= IDMAX; id++) {
      int leaves = (r == lr && id == lid);
      if (has_kn) VASSERT(kd[ph][r][id] == (leaves ? 1 : 0), "key notifier during this call: exactly the key that leaves the tree, once");
      else VASSERT(kd[ph][r][id] == 0, "no key notifier given: none called");
      if (has_vn) VASSERT(vd[ph][r][id] == (leaves ? 1 : 0), "value notifier during this call: exactly the value that leaves the tree, once");
      else VASSERT(vd[ph][r][id] == 0, "no value notifier given: none called");
    }
}

#ifdef KF_OPEN_C14_two_child_remove
/* open finding: is the stored node of this rank one with two children? (looks at the structure only
 * to delimit the recorded failing class; not used by any assertion) */
static int has_two_children(int r) {
  PTreeBaseNode *x = tree->root;
  int d;
  for (d = 0; d < NOPS; d++) {
    if (x == NULL) return 0;
    if (RANK(x->key) == r) return x->left != NULL && x->right != NULL;
    x = r < RANK(x->key) ? x->left : x->right;
  }
  return 0;
}
#endif

void harness(void) {
  int i, replaced = 0, removed = 0;
#ifdef NULLTOK
  /* the pair inserted by the FIRST call, if its key has rank NULLTOK, is (NULL key, NULL value) */
  zk_rank = zv_rank = NULLTOK; zk_id = zv_id = 1;
#endif
  make_tree();
  for (i = 0; i < NOPS; i++) {
#ifdef NFIX
    /* the first NFIX calls are inserts of the keys KEYSEQ chosen by the runner (one query per order
     * pattern of the prefix); the remaining calls have symbolic kind and key */
    static const int keyseq[] = { KEYSEQ };
    int op = i < NFIX ? 0 : ND_RANGE(0, 1);
    int r = i < NFIX ? keyseq[i] : ND_RANGE(1, U);
#else
    int op = ND_RANGE(0, 1);
    int r = ND_RANGE(1, U);
#endif
    int lr = 0, lid = 0;
    phase = i;
    if (op == 0) {
      if (exp_pres[r]) { lr = r; lid = ID(exp_key[r]); replaced++; } else exp_n++;
      p_tree_insert(tree, KEY(r, i + 1), VAL(r, i + 1));
      exp_pres[r] = 1; exp_key[r] = KEY(r, i + 1); exp_val[r] = VAL(r, i + 1);
      ever_key[r][i + 1] = 1;
    } else {
#if defined(KF_OPEN_C14_two_child_remove) && NEWMODE >= 2
      VASSUME(!has_two_children(r));
#endif
#ifdef NULLTOK
      /* remove by the stored key object itself when there is one (the NULL pointer for the NULL-keyed pair) */
      pboolean ret = p_tree_remove(tree, exp_pres[r] ? exp_key[r] : KEY(r, ID_PROBE));
#else
      pboolean ret = p_tree_remove(tree, KEY(r, ID_PROBE));
#endif
      VASSERT(ret == (exp_pres[r] ? TRUE : FALSE), "remove returns TRUE iff the key was stored");
      if (exp_pres[r]) { lr = r; lid = ID(exp_key[r]); exp_pres[r] = 0; exp_n--; removed++; }
    }
    VASSERT(p_tree_get_nnodes(tree) == exp_n, "nnodes = number of distinct keys after every call");
#ifdef CHK_OWN
    check_phase(i, lr, lid);
#endif
    (void) lr; (void) lid;
  }
  {
    int q = ND_RANGE(1, U);
    ppointer got = p_tree_lookup(tree, KEY(q, ID_PROBE));
    VASSERT(got == (exp_pres[q] ? exp_val[q] : NULL), "lookup of an arbitrary key after the history = reference map");
  }
  check_post_state();
  phase = NOPS;
  p_tree_free(tree);
  VASSERT(vm_live == 0, "p_tree_free releases every node and the tree");
#ifdef CHK_OWN
  {
    int r, id, ph;
    for (r = 1; r <= NK; r++)
      for (id = 1; id <= IDMAX; id++) {
        int k = 0, v = 0;
        for (ph = 0; ph < NPHASE; ph++) { k += kd[ph][r][id]; v += vd[ph][r][id]; }
        VASSERT(k == ((has_kn && ever_key[r][id]) ? 1 : 0), "every key ever stored is destroyed exactly once over the whole history + free (iff a key notifier was given)");
        VASSERT(v == ((has_vn && ever_key[r][id]) ? 1 : 0), "every value ever stored is destroyed exactly once over the whole history + free (iff a value notifier was given)");
      }
  }
#endif
  VWITNESS("history done");
  witness_notifier_config();
#ifndef PREFIX_DUP
  if (exp_n == NOPS) VWITNESS("NOPS distinct keys stored");
#endif
#if !defined(NFIX) || defined(PREFIX_DUP)
  if (replaced) VWITNESS("history with a replace");
#endif
  if (removed) VWITNESS("history with a successful remove");
#if TT != 0 && NOPS >= 3
  if (exp_n == NOPS) VASSERT(post_height < NOPS, "a balanced tree of NOPS >= 3 keys is lower than a list");
#endif
}
