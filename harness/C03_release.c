/* C03 sequential query "the wait releases the mutex AS SEEN THROUGH THE PUBLIC API" (two contexts, nested emulation).
 *
 * Context A (thread id 0) locks M with p_mutex_lock and calls p_cond_variable_wait(C, M).  The pthread model is built with
 * -DVM_CW_HOOK=other_context -DVM_CW_RELEASE: at the blocking point of pthread_cond_wait - after the atomic release of the
 * platform mutex - the hook runs context B (thread id 1) to completion THROUGH THE PUBLIC PMutex / PCondVariable API:
 *     B: p_mutex_trylock(M) must be TRUE  (or, other symbolic choice, p_mutex_lock(M) must return TRUE): nobody holds M
 *        while A is blocked - whatever private bookkeeping the wrapper keeps next to the native handle must agree with the
 *        platform here, otherwise a producer using trylock never gets in and the exchange never completes;
 *     B: a second p_mutex_trylock(M) is FALSE (B holds it), p_mutex_unlock(M) TRUE, p_cond_variable_signal(C) TRUE and the
 *        model shows waiter A woken (the wake reaches THAT waiter).
 * Then the waiter re-acquires; p_cond_variable_wait must return TRUE with M owned by A; B's p_mutex_trylock(M) is now FALSE
 * (A holds it through the public API as well), and after A's p_mutex_unlock B's trylock is TRUE again.
 * C is chosen symbolically among two condition variables; A performs TWO consecutive waits on it, each with an independently
 * symbolic mutex out of two (equal or different): every wait must hand the mutex of THAT call to the platform (a wrapper that
 * remembers the mutex of the first wait fails the second), release it at the blocking point and re-own it on return; the
 * mutex not passed stays untouched.
 */
#include "verif.h"
#include "pthread_model.h"
#include <pmem.h>
#include <pmutex.h>
#include <pcondvariable.h>
#include "C01_store.h"

static PMutex *M, *M_other;
static PCondVariable *C;
static int hook_runs, b_used_lock, first_mi;

/* context B, run at A's blocking point */
void other_context(int ci, int mi) {
  int a = vm_self;
  hook_runs++;
  VASSERT(mi == vm_mtx_index((pthread_mutex_t *) M) && ci == vm_cv_index((pthread_cond_t *) C), "the platform waits on the given (condition, mutex) pair");
  vm_set_waiting(a, ci, mi);              /* A is a registered, not yet woken waiter of C */
  vm_self = 1;
  b_used_lock = ND_RANGE(0, 1);
  if (b_used_lock) {
    VASSERT(p_mutex_lock(M) == TRUE, "while A is blocked in wait, p_mutex_lock(M) by another thread returns TRUE");
  } else {
    VASSERT(p_mutex_trylock(M) == TRUE, "while A is blocked in wait, p_mutex_trylock(M) by another thread returns TRUE (wait released M)");
  }
  VASSERT(vm_mutex_owner(mi) == 2, "B owns the platform mutex of M");
  VASSERT(p_mutex_trylock(M_other) == TRUE && p_mutex_unlock(M_other) == TRUE, "the other mutex is free and unaffected");
  VASSERT(p_mutex_unlock(M) == TRUE, "B: p_mutex_unlock(M) TRUE");
  VASSERT(vm_mutex_owner(mi) == 0, "B released M");
  VASSERT(p_cond_variable_signal(C) == TRUE, "B: p_cond_variable_signal(C) TRUE");
  VASSERT(vm_is_woken(a), "the signal wakes the waiter blocked on C");
  vm_self = a;
  vm_thread_register(a);                  /* A runs again */
}

/* one complete wait of A on C with the mutex chosen for THIS call */
static void one_wait(PMutex *m0, PMutex *m1, int nth) {
  int mi = ND_RANGE(0, 1);
  M = mi ? m1 : m0; M_other = mi ? m0 : m1;
  vm_self = 0;
  VASSERT(p_mutex_lock(M) == TRUE, "A: p_mutex_lock(M) TRUE");
  pboolean ok = p_cond_variable_wait(C, M);
  VASSERT(hook_runs == nth, "the wrapper reached the platform wait exactly once per call");
  VASSERT(ok == TRUE, "A: p_cond_variable_wait returns TRUE");
  VASSERT(vm_mutex_owner(vm_mtx_index((pthread_mutex_t *) M)) == 1, "wait returns with the platform mutex of M owned by A");
  VASSERT(vm_mutex_owner(vm_mtx_index((pthread_mutex_t *) M_other)) == 0, "the mutex NOT passed to this wait is untouched");
  vm_self = 1;
  VASSERT(p_mutex_trylock(M) == FALSE, "after the wait returned, p_mutex_trylock(M) by another thread is FALSE (A holds M)");
  vm_self = 0;
  VASSERT(p_mutex_unlock(M) == TRUE, "A: p_mutex_unlock(M) TRUE");
  vm_self = 1;
  VASSERT(p_mutex_trylock(M) == TRUE && p_mutex_unlock(M) == TRUE, "after A's unlock another thread gets M");
  vm_self = 0;
  if (nth == 1) first_mi = mi;
  if (nth == 2 && mi != first_mi) VWITNESS("second wait on the same condition with a DIFFERENT mutex");
  if (nth == 2 && mi == first_mi) VWITNESS("second wait on the same condition with the same mutex");
}

void harness(void) {
  PMutex *m0 = p_mutex_new(), *m1 = p_mutex_new();
  PCondVariable *c0 = p_cond_variable_new(), *c1 = p_cond_variable_new();
  VASSERT(m0 && m1 && c0 && c1, "objects created");
  vm_thread_register(0); vm_thread_register(1);
  int ci = ND_RANGE(0, 1);
  C = ci ? c1 : c0;
  /* two consecutive waits on the SAME condition object, each completed before the next starts, mutexes chosen independently:
   * the platform must get the mutex passed to THAT call (a wrapper remembering the first mutex fails the second wait) */
  one_wait(m0, m1, 1);
  one_wait(m0, m1, 2);
  if (b_used_lock) VWITNESS("B used p_mutex_lock (last wait)");
  VWITNESS("end");
}
