/* C03 sequential query "the wait releases the mutex AS SEEN THROUGH THE PUBLIC API" (two contexts, nested emulation).
 *
 * Context A (thread id 0) locks M with p_mutex_lock and calls p_cond_variable_wait(C, M).  The pthread model is built with
 * -DVM_CW_HOOK=other_context -DVM_CW_RELEASE: at the blocking point of pthread_cond_wait - after the atomic release of the
 * platform mutex - the hook runs context B (thread id 1) to completion THROUGH THE PUBLIC PMutex / PCondVariable API:
 *     B: p_mutex_trylock(M) must be TRUE  (or, other symbolic choice, p_mutex_lock(M) must return TRUE): nobody holds M
 *        while A is blocked - whatever private bookkeeping the wrapper keeps next to the native handle must agree with the
 *        platform here, otherwise a producer using trylock never gets in and the exchange never completes;
 *     B: a second p_mutex_trylock(M) is FALSE (B holds it), p_mutex_unlock(M) TRUE, p_cond_variable_signal(C) TRUE and the
 *        model shows waiter A woken (the wake reaches THAT waiter).
 * Then the waiter re-acquires; p_cond_variable_wait must return TRUE with M owned by A; B's p_mutex_trylock(M) is now FALSE
 * (A holds it through the public API as well), and after A's p_mutex_unlock B's trylock is TRUE again.
 * M and C are chosen symbolically among two mutexes / two condition variables (the other pair must stay untouched).
 */
#include "verif.h"
#include "pthread_model.h"
#include <pmem.h>
#include <pmutex.h>
#include <pcondvariable.h>
#include "C01_store.h"

static PMutex *M, *M_other;
static PCondVariable *C;
static int hook_runs, b_used_lock;

/* context B, run at A's blocking point */
void other_context(int ci, int mi) {
  int a = vm_self;
  hook_runs++;
  VASSERT(mi == vm_mtx_index((pthread_mutex_t *) M) && ci == vm_cv_index((pthread_cond_t *) C), "the platform waits on the given (condition, mutex) pair");
  vm_set_waiting(a, ci, mi);              /* A is a registered, not yet woken waiter of C */
  vm_self = 1;
  b_used_lock = ND_RANGE(0, 1);
  if (b_used_lock) {
    VASSERT(p_mutex_lock(M) == TRUE, "while A is blocked in wait, p_mutex_lock(M) by another thread returns TRUE");
  } else {
    VASSERT(p_mutex_trylock(M) == TRUE, "while A is blocked in wait, p_mutex_trylock(M) by another thread returns TRUE (wait released M)");
  }
  VASSERT(vm_mutex_owner(mi) == 2, "B owns the platform mutex of M");
  VASSERT(p_mutex_trylock(M_other) == TRUE && p_mutex_unlock(M_other) == TRUE, "the other mutex is free and unaffected");
  VASSERT(p_mutex_unlock(M) == TRUE, "B: p_mutex_unlock(M) TRUE");
  VASSERT(vm_mutex_owner(mi) == 0, "B released M");
  VASSERT(p_cond_variable_signal(C) == TRUE, "B: p_cond_variable_signal(C) TRUE");
  VASSERT(vm_is_woken(a), "the signal wakes the waiter blocked on C");
  vm_self = a;
  vm_thread_register(a);                  /* A runs again */
}

void harness(void) {
  PMutex *m0 = p_mutex_new(), *m1 = p_mutex_new();
  PCondVariable *c0 = p_cond_variable_new(), *c1 = p_cond_variable_new();
  VASSERT(m0 && m1 && c0 && c1, "objects created");
  vm_thread_register(0); vm_thread_register(1);
  int mi = ND_RANGE(0, 1), ci = ND_RANGE(0, 1);
  M = mi ? m1 : m0; M_other = mi ? m0 : m1;
  C = ci ? c1 : c0;
  vm_self = 0;
  VASSERT(p_mutex_lock(M) == TRUE, "A: p_mutex_lock(M) TRUE");
  pboolean ok = p_cond_variable_wait(C, M);
  VASSERT(hook_runs == 1, "the wrapper reached the platform wait exactly once");
  VASSERT(ok == TRUE, "A: p_cond_variable_wait returns TRUE");
  VASSERT(vm_mutex_owner(vm_mtx_index((pthread_mutex_t *) M)) == 1, "wait returns with the platform mutex of M owned by A");
  vm_self = 1;
  VASSERT(p_mutex_trylock(M) == FALSE, "after the wait returned, p_mutex_trylock(M) by another thread is FALSE (A holds M)");
  vm_self = 0;
  VASSERT(p_mutex_unlock(M) == TRUE, "A: p_mutex_unlock(M) TRUE");
  vm_self = 1;
  VASSERT(p_mutex_trylock(M) == TRUE && p_mutex_unlock(M) == TRUE, "after A's unlock another thread gets M");
  vm_self = 0;
  if (b_used_lock) VWITNESS("B used p_mutex_lock");
  if (!b_used_lock && mi == 1 && ci == 0) VWITNESS("B used p_mutex_trylock, pair (C0, M1)");
  VWITNESS("end");
}
