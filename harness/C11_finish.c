/* C11 (a) FINISH step of the real <alg>_finish (+ _digest); the static compression function is replaced by a MONITOR.
 *
 *  DATA mode (default): for EVERY buffer fill left in [0, block) (enumerated, so offsets are concrete) from a context with
 *     a concrete counter of many set bits, symbolic pending bytes / stale buffer bytes / chaining state:
 *     the blocks handed to the compression function are exactly   pending || pad || zeros || length field   (<= 2 blocks;
 *     MD5/SHA-1/SHA-2: 0x80, length = 8*L in the algorithm's byte order and width; SHA-3: 0x06 .. 0x80 in one block;
 *     GOST: zero-filled block only if left > 0, then the 256-bit bit counter, then the 256-bit checksum),
 *     and the digest bytes are the state words left by the LAST compression call in the algorithm's byte order, truncated to
 *     the variant's output length.
 *  FLEN mode (-DCNT): the length field and the number of blocks for EVERY counter value of the full width (symbolic L);
 *     memcpy/memset abstracted to no-ops (the field is written after them / taken from the counter itself). */
#include "verif.h"
#include "C11_alg.h"

#define B C11_BLOCK
#define NW (B / C11_W)
#ifndef LEFT_LO          /* DATA mode: range of buffer fills enumerated by this query (the runner splits [0, block)) */
# define LEFT_LO 0
#endif
#ifndef LEFT_HI
# define LEFT_HI B
#endif
#if ALG == ALG_GOST
# define MAXBLK 3
#else
# define MAXBLK 2
#endif

static unsigned char G[B];
static c11_word H[MAXBLK + 1][C11_STATE_W];
static c11_word EW[MAXBLK][NW];
static unsigned nblk, nb_expected;
static unsigned char lf_expected[32];

#ifdef CNT
/* data movement into the context (its buffer) is abstracted away; copies/fills of other objects (GOST's local len256) are
 * executed byte by byte */
static int into_ctx(const void *d) { return __CPROVER_POINTER_OBJECT(d) == __CPROVER_POINTER_OBJECT(c11_ctx()); }
void *c11_memcpy(void *d, const void *s, size_t n)
{
  size_t i;
  if (!into_ctx(d)) for (i = 0; i < n; i++) ((unsigned char *) d)[i] = ((const unsigned char *) s)[i];
  return d;
}
void *c11_memset(void *d, int c, size_t n)
{
  size_t i;
  if (!into_ctx(d)) for (i = 0; i < n; i++) ((unsigned char *) d)[i] = (unsigned char) c;
  return d;
}
#endif

#if ALG == ALG_GOST
/* the 256-bit adder is an uninterpreted, monitored operation here (see C11_update.c; the real adder: gost_sum256 query) */
static unsigned nsum;
static uint32_t SA[2][8], SB[2][8], ST[2][8], S0[8];
static int STGT[2];
void C11_SUM256(uint32_t a[8], const uint32_t b[8])
{
  unsigned k = nsum, i;
  VASSERT(k < 1, "finish adds at most the one zero-filled block to the checksum");
  if (k < 2) {
    STGT[k] = (a == c11_sum()) ? 1 : 0;
    for (i = 0; i < 8; i++) { SA[k][i] = a[i]; SB[k][i] = b[i]; a[i] = ST[k][i]; }
  }
  nsum = k + 1;
}
#endif

static int state_is(unsigned k)
{
  int ok = 1; unsigned i; c11_word *s = c11_state();
  for (i = 0; i < C11_STATE_W; i++) ok &= (s[i] == H[k][i]);
  return ok;
}

/* the bytes of the length field for counter value L: (L * 8 / unit) in the algorithm's width and byte order */
static void length_field(c11_u256 L)
{
  unsigned j;
#if ALG == ALG_GOST
  for (j = 0; j < 32; j++) lf_expected[j] = (unsigned char) (L.l[j / 8] >> (8 * (j % 8)));   /* bit counter as it is, LE */
#elif C11_LF == 8
  uint64_t bits = L.l[0] << 3;
  for (j = 0; j < 8; j++) lf_expected[j] = (unsigned char) (bits >> (8 * (C11_BE ? 7 - j : j)));
#elif C11_LF == 16
  uint64_t lo = L.l[0] << 3, hi = (L.l[1] << 3) | (L.l[0] >> 61);
  for (j = 0; j < 8; j++) { lf_expected[j] = (unsigned char) (hi >> (8 * (7 - j))); lf_expected[8 + j] = (unsigned char) (lo >> (8 * (7 - j))); }
#else
  (void) L; (void) j;
#endif
}

void C11_MON(void *ctx, const c11_word *d)
{
  unsigned j; int ok = 1; unsigned k = nblk;
  VASSERT(ctx == c11_ctx(), "compression function called on the context being finished");
  VASSERT(k < nb_expected, "finish compresses no more blocks than the padding needs");
#ifndef CNT
  for (j = 0; j < NW; j++) ok &= (d[j] == EW[k][j]);
  VASSERT(ok, "padding block == pending bytes, pad byte(s), zero fill, length field in the algorithm's byte order");
#else
# if ALG == ALG_GOST
  if (k == nb_expected - 2) {
    for (j = 0; j < 32; j++) ok &= (c11_block_byte(d, j) == lf_expected[j]);
    VASSERT(ok, "GOST: length block == 256-bit bit counter");
  }
# elif C11_LF > 0
  if (k == nb_expected - 1) {
    for (j = 0; j < C11_LF; j++) ok &= (c11_block_byte(d, B - C11_LF + j) == lf_expected[j]);
    VASSERT(ok, "length field == 8 * byte counter, in the algorithm's width and byte order, for every counter value");
  }
# endif
#endif
  VASSERT(state_is(k), "chaining state untouched between compression calls");
  for (j = 0; j < C11_STATE_W; j++) c11_state()[j] = H[k + 1][j];
  nblk = k + 1;
}

static void set_pre(c11_u256 L)
{
  unsigned i;
  c11_set_variant();
  c11_set_count(L);
  c11_load_buf();
  for (i = 0; i < C11_STATE_W; i++) c11_state()[i] = H[0][i];
#if ALG == ALG_GOST
  for (i = 0; i < 8; i++) c11_sum()[i] = S0[i];
  nsum = 0;
#endif
  nblk = 0;
}

static unsigned blocks_for(unsigned left)
{
#if ALG == ALG_SHA3
  (void) left; return 1;
#elif ALG == ALG_GOST
  return (left ? 1 : 0) + 2;
#else
  return left < B - C11_LF ? 1 : 2;
#endif
}

/* a concrete counter with block offset `left` and bits set in every limb (so every shifted-out bit matters) */
static c11_u256 busy_counter(unsigned left)
{
  c11_u256 r = {{0, 0, 0, 0}};
#if ALG == ALG_SHA3
  r.l[0] = left;
#elif ALG == ALG_GOST
  r.l[0] = 0xA1B2C3D4E5F60700ULL + 8 * left; r.l[1] = 0x8877665544332211ULL; r.l[2] = 0xF0E1D2C3B4A59687ULL; r.l[3] = 0x0123456789ABCDEFULL;
#elif C11_CNT_BITS == 64
  r.l[0] = (0xA1B2C3D4E5F60780ULL & ~(uint64_t) (B - 1)) + left;
#else
  r.l[0] = (0xA1B2C3D4E5F60780ULL & ~(uint64_t) (B - 1)) + left; r.l[1] = 0xB7A6958473625140ULL;
#endif
  return r;
}

static void check_digest(void)
{
  const unsigned char *dg = c11_digest();
  unsigned i; int ok = 1;
  for (i = 0; i < C11_OUT; i++) {
    c11_word w = H[nb_expected][i / C11_W];
#if C11_BE
    ok &= (dg[i] == (unsigned char) (w >> (8 * (C11_W - 1 - i % C11_W))));
#else
    ok &= (dg[i] == (unsigned char) (w >> (8 * (i % C11_W))));
#endif
  }
  VASSERT(ok, "digest bytes == state words after the last compression call, algorithm byte order, variant's output length");
}

void harness(void)
{
  unsigned i, k, left;
  c11_u256 L;
  for (i = 0; i < B; i++) c11_image_buf()[i] = G[i] = ND_UCHAR();
  for (k = 0; k <= MAXBLK; k++) for (i = 0; i < C11_STATE_W; i++) H[k][i] = (c11_word) ND_ULL();
#if ALG == ALG_GOST
  for (i = 0; i < 8; i++) { S0[i] = ND_UINT(); ST[0][i] = ND_UINT(); ST[1][i] = ND_UINT(); }
#endif

#ifdef CNT
  for (i = 0; i < 4; i++) L.l[i] = ND_ULL();
# if ALG == ALG_GOST
  VASSUME((L.l[0] & 7) == 0);
  left = (unsigned) ((L.l[0] & 0xFF) >> 3);
# else
  if (C11_CNT_BITS <= 64) L.l[1] = 0;
  L.l[2] = L.l[3] = 0;
  left = (unsigned) (L.l[0] % B);
# endif
  nb_expected = blocks_for(left);
  length_field(L);
  set_pre(L);
  c11_finish();
  VASSERT(nblk == nb_expected, "number of padding blocks");
  check_digest();
  if (nblk == MAXBLK) VWITNESS("finish with an extra padding block");
  if (nblk == MAXBLK - 1) VWITNESS("finish with the minimal number of blocks");
#else
  for (left = LEFT_LO; left < LEFT_HI; left++) {
    unsigned char st[MAXBLK * B];
    unsigned n;
    L = busy_counter(left);
    nb_expected = blocks_for(left);
    length_field(L);
    /* the expected padded stream */
    for (i = 0; i < MAXBLK * B; i++) st[i] = 0;
    for (i = 0; i < left; i++) st[i] = G[i];
# if ALG == ALG_SHA3
    st[left] = 0x06; st[B - 1] |= 0x80;
# elif ALG == ALG_GOST
    {
      unsigned w, j; unsigned o = left ? B : 0;
      for (i = 0; i < 32; i++) st[o + i] = lf_expected[i];
      /* checksum block: the old checksum, or the (uninterpreted) result of adding the zero-filled block */
      for (w = 0; w < 8; w++) for (j = 0; j < 4; j++) st[o + 32 + 4 * w + j] = (unsigned char) ((left ? ST[0][w] : S0[w]) >> (8 * j));
    }
# else
    st[left] = 0x80;
    for (i = 0; i < C11_LF; i++) st[nb_expected * B - C11_LF + i] = lf_expected[i];
# endif
    for (k = 0; k < MAXBLK; k++) for (n = 0; n < NW; n++) EW[k][n] = c11_word_of(st + k * B + n * C11_W);
    set_pre(L);
    c11_finish();
    VASSERT(nblk == nb_expected, "number of padding blocks");
    check_digest();
# if ALG == ALG_GOST
    {
      int bad = (nsum != (left ? 1u : 0u)); unsigned w;
      if (left) { bad |= (STGT[0] != 1); for (w = 0; w < 8; w++) bad |= (SA[0][w] != S0[w]) | (SB[0][w] != EW[0][w]); }
      VASSERT(!bad, "GOST: checksum (+)= the zero-filled last block exactly when bytes are pending");
    }
# endif
    if (left == LEFT_HI - 1) VWITNESS("last buffer fill of the range finished");
  }
  VWITNESS("every buffer fill of the range finished");
#endif
}
