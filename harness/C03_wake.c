/* C03 thread query "a genuine wake-up is delivered to the API caller" (wake-delivery monitor of the pthread model,
 * -DVM_WAKE_MONITOR), two-waiter scenario:
 *     W1: lock M; p_cond_variable_wait(C, M); (returned: tells the model the wake-up was delivered); unlock M
 *     W2: lock M; p_cond_variable_broadcast(C)   -- wakes W1 if it is waiting
 *         p_cond_variable_wait(C, M)             -- W2 itself enters the wait on the same condition BEFORE the woken W1
 *                                                   has re-acquired M (W2 still holds M when it enters)
 * with -DNTHREADS=3 the broadcast is issued by a third thread B and W2 is a second plain waiter.
 * The property "a broadcast wakes all waiting threads" means for the public API: W1, woken by the broadcast, RETURNS from
 * p_cond_variable_wait.  The model asserts at every pthread_cond_wait entry that the caller has no genuine (signal/broadcast)
 * wake-up that the library has not yet handed back to the API caller; a library that re-blocks a woken thread internally
 * (e.g. a shared "signalled" flag cleared by the next waiter) is caught as a safety violation, no unwinding involved.
 * Spurious model wake-ups (-DVM_SPURIOUS) do not set the mark: looping on those inside the library is legal.
 * Threads that stay blocked at the end (W2) are intended: nobody finishes "officially", so the deadlock check is silent.
 */
#include "verif.h"
#include "pthread_model.h"
#include <pmem.h>
#include <pmutex.h>
#include <pcondvariable.h>
#include "C01_store.h"

#ifndef NTHREADS
#define NTHREADS 2
#endif

static PMutex *M;
static PCondVariable *C;
int g_w1_returned;

static void waiter(int id, int is_first) {
  vm_thread_begin(id);
  pboolean ok = p_mutex_lock(M);
  VASSERT(ok == TRUE, "p_mutex_lock TRUE");
  ok = p_cond_variable_wait(C, M);
  vm_wake_delivered();
  VASSERT(ok == TRUE, "p_cond_variable_wait TRUE");
  VATOMIC_BEGIN();
  VASSERT(vm_mutex_owner(0) == vm_self + 1, "wait returns with M owned by the caller");
  if (is_first) { g_w1_returned = 1; VWITNESS("W1 returned from p_cond_variable_wait"); }
  VATOMIC_END();
  ok = p_mutex_unlock(M);
  VASSERT(ok == TRUE, "p_mutex_unlock TRUE");
}

static void broadcaster_then_waiter(int id) {
  vm_thread_begin(id);
  pboolean ok = p_mutex_lock(M);
  VASSERT(ok == TRUE, "p_mutex_lock TRUE");
  ok = p_cond_variable_broadcast(C);
  VASSERT(ok == TRUE, "p_cond_variable_broadcast TRUE");
  ok = p_cond_variable_wait(C, M);     /* enters the wait while the woken W1 has not yet re-acquired M */
  vm_wake_delivered();
  VASSERT(ok == TRUE, "p_cond_variable_wait TRUE");
  ok = p_mutex_unlock(M);
  VASSERT(ok == TRUE, "p_mutex_unlock TRUE");
}

static void broadcaster(int id) {
  vm_thread_begin(id);
  pboolean ok = p_mutex_lock(M);
  VASSERT(ok == TRUE, "p_mutex_lock TRUE");
  ok = p_cond_variable_broadcast(C);
  VASSERT(ok == TRUE, "p_cond_variable_broadcast TRUE");
  ok = p_mutex_unlock(M);
  VASSERT(ok == TRUE, "p_mutex_unlock TRUE");
}

void harness(void) {
  M = p_mutex_new();
  C = p_cond_variable_new();
  VASSERT(M != NULL && C != NULL, "objects created");
  vm_thread_register(0); vm_thread_register(1);
#if NTHREADS >= 3
  vm_thread_register(2);
#endif
  __CPROVER_ASYNC_1: waiter(0, 1);
#if NTHREADS >= 3
  __CPROVER_ASYNC_2: waiter(1, 0);
  __CPROVER_ASYNC_3: broadcaster(2);
#else
  __CPROVER_ASYNC_2: broadcaster_then_waiter(1);
#endif
}
