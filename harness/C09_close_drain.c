/* C09 "no loss at the end of the stream": A sends (symbolic payload, length, blocking flag, fault schedule)
 * with an ARBITRARY I/O timeout set on it (any int: negative/0 = none, 1..999 ms, >= 1000 ms), then the
 * sender closes or frees its socket (p_socket_close + p_socket_free, or p_socket_free alone, optionally after
 * p_socket_shutdown of the write side) while the bytes it was told are sent are still queued in the kernel;
 * only then the receiver B (symbolic blocking flag, fault schedule) drains.
 * Oracle: closing is graceful - the kernel still holds exactly the bytes reported sent; the receiver's
 * successful receives return exactly those bytes, in order, then end-of-stream (0), never an error such as a
 * connection reset.  (The kernel model implements SO_LINGER: a close with {l_onoff=1, l_linger=0} aborts the
 * connection and drops the queue.) */
#include "C09_common.h"

#ifndef NRECV
#define NRECV (FAULTS + 2)      /* <= FAULTS short reads + the rest + end-of-stream */
#endif

void harness(void) {
  vm_alloc_install(); vs_reset();
  p_socket_init_once();
  int fam = ND_BOOL() ? AF_INET : AF_INET6;
  int a = vs_mkfd(SOCK_STREAM, fam), b = vs_mkfd(SOCK_STREAM, fam);
  vs_pair(a, b);
  PSocket *A = p_socket_new_from_fd(a, NULL), *B = p_socket_new_from_fd(b, NULL);
  VASSERT(A != NULL && B != NULL, "sockets from connected descriptors");
  PError *err = NULL;

  /* sender */
  _Bool ablk = ND_BOOL();
  int targ = ND_INT();
  p_socket_set_blocking(A, nd_pbool(ablk));
  p_socket_set_timeout(A, targ);
  unsigned char out[VS_CAP], in[VS_CAP];
  int n = ND_RANGE(1, VS_CAP);
  for (int k = 0; k < VS_CAP; k++) out[k] = ND_UCHAR();
  vs_begin_call(FAULTS, VS_M_EINTR | VS_M_EAGAIN | VS_M_SHORT);
  vs.nb_call = !ablk;
  pssize sent = p_socket_send(A, (const pchar *) out, (psize) n, &err);
  if (sent < 0) { VASSERT(err != NULL && !ablk, "queue empty: only a non-blocking send can fail (spurious would-block)"); ERR_FREE(err); err = NULL; sent = 0; }
  VASSERT(sent <= n && VFD(rx_len, b) == sent, "bytes reported sent are queued for the receiver");

  /* the sender goes away while its data is still in flight */
  int how = ND_RANGE(0, 2);            /* 0 close + free, 1 free only, 2 shutdown(write) + close + free */
  vs_begin_call(0, 0);
  if (how == 2) VASSERT(p_socket_shutdown(A, FALSE, nd_pbool(1), &err) && err == NULL, "shutdown of the write side");
  if (how != 1) VASSERT(p_socket_close(A, &err) && err == NULL, "close succeeds");
  p_socket_free(A);
  VASSERT(!VFD(open, a) && VFD(closes, a) == 1, "sender's descriptor closed once");
  VASSERT(VFD(rx_len, b) == sent && !VFD(reset, b), "closing the sender loses none of the bytes it reported as sent (graceful close, no reset)");

  /* receiver drains */
  int got = 0, j = ND_RANGE(0, VS_CAP - 1);
  _Bool eof = 0;
  for (int r = 0; r < NRECV; r++) {
    if (eof) break;
    _Bool bblk = ND_BOOL();
    p_socket_set_blocking(B, nd_pbool(bblk));
    for (int k = 0; k < VS_CAP; k++) in[k] = 0;
    vs_begin_call(r == 0 ? FAULTS : 0, VS_M_EINTR | VS_M_SHORT);
    vs.nb_call = !bblk;
    pssize x = p_socket_receive(B, (pchar *) in, VS_CAP, &err);
    VASSERT(x >= 0 && err == NULL, "the receiver gets data or end-of-stream, never an error (no reset, no would-block: something is always ready)");
    if (x == 0) { eof = 1; VASSERT(got == sent, "end-of-stream only after every byte reported sent was delivered"); }
    else {
      VASSERT(got + x <= sent, "nothing is received that was not sent");
      if (j >= got && j < got + x) VASSERT(in[j - got] == out[j], "received bytes = sent bytes, in order");
      got += (int) x;
    }
  }
  VASSERT(eof && got == sent, "the receiver saw all the bytes and then end-of-stream");
  VASSERT(vs.bad_access == 0 && !vs.sigpipe_raised, "only open descriptors, no signal");
  p_socket_free(B);
  VASSERT(vm_live == 0 && vs_open_count() == 0 && vs.bad_close == 0, "everything released");
  VWITNESS("end");
  if (sent > 1 && targ >= 1 && targ <= 999 && how == 0) VWITNESS("sender with a sub-second timeout closed with data in flight");
  if (sent > 0 && targ >= 1000 && how == 1) VWITNESS("sender with a timeout >= 1 s freed with data in flight");
  if (sent > 0 && targ <= 0 && how == 2) VWITNESS("sender without timeout, shutdown + close");
}
