/* C18 core / plist: LOPS symbolic append/prepend operations with symbolic data under the failing
 * allocator; a failed operation is retried once and must then give the result of the un-failed operation.  Documented failure result (plist.h): the list is returned unchanged. */
#include "C18_core.h"
#include <plist.h>
#ifndef LOPS
#define LOPS 3
#endif
static ppointer ref[LOPS + 1]; static int rn;

static void compare(PList *l) {
  int i = 0;
  for (PList *p = l; p != NULL; p = p->next, i++) { VASSERT(i < rn, "list not longer than model"); VASSERT(p->data == ref[i], "element = model element"); }
  VASSERT(i == rn, "list length = model length");
}

static void script(void) {
  c18_begin();
  PList *l = NULL;
  int retried_ok = 0;
  for (int i = 0; i < LOPS; i++) {
    ppointer d = (ppointer) ND_ULL();
    int app = ND_BOOL();
    for (int attempt = 0; attempt < 2; attempt++) {      /* an operation that failed for lack of memory is retried once */
      int f0 = vm_failed, live0 = vm_live;
      PList *old = l;
      l = app ? p_list_append(l, d) : p_list_prepend(l, d);
      if (C18_FAILED_SINCE(f0)) {
        VASSERT(l == old, "p_list_append/prepend returns the unchanged list on allocation failure");
        VASSERT(vm_live == live0, "failed operation leaves nothing allocated");
        compare(l);          /* elements that existed before are unchanged */
        continue;
      }
      if (app) ref[rn++] = d;
      else { for (int j = LOPS; j > 0; j--) ref[j] = ref[j - 1]; ref[0] = d; rn++; }
      compare(l);            /* the new element is where the un-failed operation puts it, also when this is the retry */
      if (attempt == 1) retried_ok = 1;
      break;
    }
  }
  VASSERT(p_list_length(l) == (psize) rn, "list usable after failures: length");
  l = p_list_reverse(l);
  for (int i = 0; i < LOPS / 2; i++) if (i < rn - 1 - i) { ppointer t = ref[i]; ref[i] = ref[rn - 1 - i]; ref[rn - 1 - i] = t; }
  compare(l);
  p_list_free(l);
  c18_end(LOPS);
  if (rn == LOPS) VWITNESS("all operations succeeded");
#ifndef NOFAIL
  if (rn == 0 && vm_failed == 2 * LOPS) VWITNESS("all operations and their retries failed");
  if (retried_ok && rn == LOPS) VWITNESS("a failed operation succeeded when retried; the list is complete");
#endif
}
