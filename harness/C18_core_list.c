/* C18 core / plist: LOPS symbolic append/prepend operations with symbolic data under the failing
 * allocator.  Documented failure result (plist.h): the list is returned unchanged. */
#include "C18_core.h"
#include <plist.h>
#ifndef LOPS
#define LOPS 3
#endif
static ppointer ref[LOPS + 1]; static int rn;

static void compare(PList *l) {
  int i = 0;
  for (PList *p = l; p != NULL; p = p->next, i++) { VASSERT(i < rn, "list not longer than model"); VASSERT(p->data == ref[i], "element = model element"); }
  VASSERT(i == rn, "list length = model length");
}

static void script(void) {
  c18_begin();
  PList *l = NULL;
  for (int i = 0; i < LOPS; i++) {
    ppointer d = (ppointer) ND_ULL();
    int f0 = vm_failed, live0 = vm_live;
    PList *old = l;
    if (ND_BOOL()) {
      l = p_list_append(l, d);
      if (C18_FAILED_SINCE(f0)) VASSERT(l == old, "p_list_append returns the unchanged list on allocation failure");
      else ref[rn++] = d;
    } else {
      l = p_list_prepend(l, d);
      if (C18_FAILED_SINCE(f0)) VASSERT(l == old, "p_list_prepend returns the unchanged list on allocation failure");
      else { for (int j = LOPS; j > 0; j--) ref[j] = ref[j - 1]; ref[0] = d; rn++; }
    }
    compare(l);            /* elements that existed before are unchanged, new one only on success */
    if (C18_FAILED_SINCE(f0)) VASSERT(vm_live == live0, "failed operation leaves nothing allocated");
  }
  VASSERT(p_list_length(l) == (psize) rn, "list usable after failures: length");
  l = p_list_reverse(l);
  for (int i = 0; i < LOPS / 2; i++) if (i < rn - 1 - i) { ppointer t = ref[i]; ref[i] = ref[rn - 1 - i]; ref[rn - 1 - i] = t; }
  compare(l);
  p_list_free(l);
  c18_end(LOPS);
  if (rn == LOPS) VWITNESS("all operations succeeded");
#ifndef NOFAIL
  if (rn == 0 && vm_failed == LOPS) VWITNESS("all operations failed");
#endif
}
