/* C11 wrapper UNIT: textually includes the REAL algorithm source of $VERIF_REPO/src (found through the
 * runner's -I<repo>/src), so the real context struct, the real update/finish code and the real static
 * helpers are compiled unchanged; adds nothing but field accessors for the harness.  It is compiled by
 * the runner as a repo unit with --export-file-local-symbols, and the body of the static compression
 * function is removed (goto-instrument --remove-function-body) so that the harness' block MONITOR takes
 * its place.  Trusted base: the accessors below (they only name fields). */
#include <string.h>
#include <stdlib.h>
#include "C11_alg.h"
#ifdef C11_OWN_MEMCPY
/* counter-arithmetic queries only (CNT/FLEN modes of the harnesses): data movement is abstracted away there, the
 * harness supplies c11_memcpy/c11_memset; every other query uses CBMC's built-in memcpy/memset with all checks */
void *c11_memcpy(void *d, const void *s, size_t n);
void *c11_memset(void *d, int c, size_t n);
# define memcpy c11_memcpy
# define memset c11_memset
#endif

#if ALG == ALG_MD5
# include "pcryptohash-md5.c"
typedef PHashMD5 c11_real;
# define UPD p_crypto_hash_md5_update
# define FIN p_crypto_hash_md5_finish
# define DIG p_crypto_hash_md5_digest
# define RST p_crypto_hash_md5_reset
#elif ALG == ALG_SHA1
# include "pcryptohash-sha1.c"
typedef PHashSHA1 c11_real;
# define UPD p_crypto_hash_sha1_update
# define FIN p_crypto_hash_sha1_finish
# define DIG p_crypto_hash_sha1_digest
# define RST p_crypto_hash_sha1_reset
#elif ALG == ALG_SHA256
# include "pcryptohash-sha2-256.c"
typedef PHashSHA2_256 c11_real;
# define UPD p_crypto_hash_sha2_256_update
# define FIN p_crypto_hash_sha2_256_finish
# define DIG p_crypto_hash_sha2_256_digest
# define RST p_crypto_hash_sha2_256_reset
#elif ALG == ALG_SHA512
# include "pcryptohash-sha2-512.c"
typedef PHashSHA2_512 c11_real;
# define UPD p_crypto_hash_sha2_512_update
# define FIN p_crypto_hash_sha2_512_finish
# define DIG p_crypto_hash_sha2_512_digest
# define RST p_crypto_hash_sha2_512_reset
#elif ALG == ALG_SHA3
# include "pcryptohash-sha3.c"
typedef PHashSHA3 c11_real;
# define UPD p_crypto_hash_sha3_update
# define FIN p_crypto_hash_sha3_finish
# define DIG p_crypto_hash_sha3_digest
# define RST p_crypto_hash_sha3_reset
#elif ALG == ALG_GOST
# include "pcryptohash-gost3411.c"
typedef PHashGOST3411 c11_real;
# define UPD p_crypto_hash_gost3411_update
# define FIN p_crypto_hash_gost3411_finish
# define DIG p_crypto_hash_gost3411_digest
# define RST p_crypto_hash_gost3411_reset
#endif

static c11_real c11_the_ctx;
static c11_real c11_image;     /* holds the pre-state image of the pending-bytes buffer (filled once by the harness) */

void *c11_ctx(void) { return &c11_the_ctx; }
void c11_update(const unsigned char *d, size_t n) { UPD (&c11_the_ctx, d, n); }
void c11_finish(void) { FIN (&c11_the_ctx); }
const unsigned char *c11_digest(void) { return DIG (&c11_the_ctx); }
void c11_reset(void) { RST (&c11_the_ctx); }
c11_word *c11_state(void) { return c11_the_ctx.hash; }

#if ALG == ALG_MD5 || ALG == ALG_SHA1 || ALG == ALG_SHA256
unsigned char *c11_buf(void) { return c11_the_ctx.buf.buf; }
unsigned char *c11_image_buf(void) { return c11_image.buf.buf; }
void c11_load_buf(void) { c11_the_ctx.buf = c11_image.buf; }
unsigned char c11_buf_at(unsigned i) { return c11_the_ctx.buf.buf[i]; }
void c11_set_count(c11_u256 v) { c11_the_ctx.len_low = (puint32) v.l[0]; c11_the_ctx.len_high = (puint32) (v.l[0] >> 32); }
c11_u256 c11_get_count(void) { c11_u256 r = {{ (uint64_t) c11_the_ctx.len_low | ((uint64_t) c11_the_ctx.len_high << 32), 0, 0, 0 }}; return r; }
# if ALG == ALG_SHA256
void c11_set_variant(void) { c11_the_ctx.is224 = VARIANT ? TRUE : FALSE; }
# else
void c11_set_variant(void) { }
# endif
#elif ALG == ALG_SHA512
unsigned char *c11_buf(void) { return c11_the_ctx.buf.buf; }
unsigned char *c11_image_buf(void) { return c11_image.buf.buf; }
void c11_load_buf(void) { c11_the_ctx.buf = c11_image.buf; }
unsigned char c11_buf_at(unsigned i) { return c11_the_ctx.buf.buf[i]; }
void c11_set_count(c11_u256 v) { c11_the_ctx.len_low = v.l[0]; c11_the_ctx.len_high = v.l[1]; }
c11_u256 c11_get_count(void) { c11_u256 r = {{ c11_the_ctx.len_low, c11_the_ctx.len_high, 0, 0 }}; return r; }
void c11_set_variant(void) { c11_the_ctx.is384 = VARIANT ? TRUE : FALSE; }
#elif ALG == ALG_SHA3
unsigned char *c11_buf(void) { return c11_the_ctx.buf.buf; }
unsigned char *c11_image_buf(void) { return c11_image.buf.buf; }
void c11_load_buf(void) { c11_the_ctx.buf = c11_image.buf; }
unsigned char c11_buf_at(unsigned i) { return c11_the_ctx.buf.buf[i]; }
void c11_set_count(c11_u256 v) { c11_the_ctx.len = (puint32) v.l[0]; }
c11_u256 c11_get_count(void) { c11_u256 r = {{ c11_the_ctx.len, 0, 0, 0 }}; return r; }
void c11_set_variant(void) { c11_the_ctx.block_size = C11_BLOCK; }
#elif ALG == ALG_GOST
unsigned char *c11_buf(void) { return (unsigned char *) c11_the_ctx.buf; }
unsigned char *c11_image_buf(void) { return (unsigned char *) c11_image.buf; }
void c11_load_buf(void) { int i; for (i = 0; i < 8; i++) c11_the_ctx.buf[i] = c11_image.buf[i]; }
unsigned char c11_buf_at(unsigned i) { return (unsigned char) (c11_the_ctx.buf[i / 4] >> (8 * (i % 4))); }
void c11_set_count(c11_u256 v) { int i; for (i = 0; i < 4; i++) { c11_the_ctx.len[2 * i] = (puint32) v.l[i]; c11_the_ctx.len[2 * i + 1] = (puint32) (v.l[i] >> 32); } }
c11_u256 c11_get_count(void) { c11_u256 r; int i; for (i = 0; i < 4; i++) r.l[i] = (uint64_t) c11_the_ctx.len[2 * i] | ((uint64_t) c11_the_ctx.len[2 * i + 1] << 32); return r; }
void c11_set_variant(void) { }
uint32_t *c11_sum(void) { return c11_the_ctx.sum; }
uint32_t *c11_len(void) { return c11_the_ctx.len; }
#endif
