/* C05: first use of a TLS key (lazy creation of the platform key published with CAS) raced by several threads,
 * on the REAL puthread-posix.c pp_uthread_get_tls_key + puthread.c, sequential thread emulation.
 *
 * RACE_LIB: the library's own key (thread self pointer) is first used concurrently by main (p_uthread_current) and by
 * the proxies of one or two created threads; otherwise the user key K is first used concurrently by main and the threads; a pending thread may run to completion at every model
 * entry of another thread's operation (between the atomic load that saw NULL, pthread_key_create and the CAS),
 * nested up to TE_DEPTH (2 = thread B inside thread A inside main).
 * Oracle: every thread reads back its own value, p_uthread_current in a created thread is its handle, join codes
 * are right, at the end exactly ONE platform key per PUThreadKey is alive (the CAS loser deleted its key), the
 * loser's block is freed (allocation ledger), destroy notifier ran exactly once per value left at thread exit. */
#include "verif.h"
#include "alloc.h"
#include "thread_emul.h"
#include <pmem.h>
#include <puthread.h>

#ifdef TWO
#define NTH 2
#else
#define NTH 1
#endif
/* a pboolean argument with the given truth value: ANY int whose truthiness is `want` (pboolean is a plain int;
 * every non-zero value is a legitimate TRUE, e.g. `flags & 4` or -1) */
static pboolean nd_pbool(_Bool want) { int v = ND_INT(); VASSUME((v != 0) == want); return (pboolean) v; }
extern void p_uthread_init(void);
extern void p_uthread_shutdown(void);

static PUThread *h[2];
static PUThreadKey *K;
static char vals[4];
static int dcount[4], left[4];
static PUThread *cur_seen[2];
static int body_end[2], exit_code[2];

void c05_tls_dtor(ppointer v) {
  long id = (char *) v - vals;
  VASSERT(v != NULL && id >= 1 && id <= 3, "destroy notifier receives a stored value");
  if (id >= 1 && id <= 3) dcount[id]++;
}
static ppointer h_malloc(psize n) { return vm_malloc(n); }
static ppointer h_realloc(ppointer p, psize n) { return vm_realloc(p, n); }
static void h_free(ppointer p) { vm_free(p); }

static void use_key(int id) {                 /* first use of K by this thread, then read back */
  if (ND_BOOL()) p_uthread_set_local(K, &vals[id]); else p_uthread_replace_local(K, &vals[id]);
  VASSERT(dcount[id] == 0, "storing a first value runs no destroy notifier");
  ppointer g = p_uthread_get_local(K);
  VASSERT(g == (ppointer) &vals[id], "get_local returns this thread's own value although the key was created concurrently");
}

static ppointer thr_main(ppointer data) {
  int i = te_cur - 1;
  VASSERT(data == (ppointer) &body_end[i], "thread function receives its data pointer");
#ifdef RACE_LIB
  cur_seen[i] = p_uthread_current();          /* (the proxy has already used the library key: set self pointer) */
#else
  use_key(2 + i);
  left[2 + i] = 1;
#endif
  body_end[i] = 1;
  if (ND_BOOL()) { exit_code[i] = ND_INT(); p_uthread_exit(exit_code[i]); }
  return NULL;
}

void te_hook_thread_ending(int slot) { (void) slot; }
void te_hook_thread_finished(int slot) {
  VASSERT(dcount[1 + slot] == left[1 + slot], "thread exit runs the destroy notifier exactly once for the value left");
}

void harness(void) {
  PMemVTable vt;
  vt.f_malloc = h_malloc; vt.f_realloc = h_realloc; vt.f_free = h_free;
  p_mem_set_vtable(&vt);
  p_uthread_init();
  K = p_uthread_local_new(c05_tls_dtor);
  VASSUME(K != NULL);
  int base_live = vm_live;
  PUThread *mc = NULL;
#ifndef RACE_LIB
  mc = p_uthread_current();                   /* RACE_K: the library key exists already; only K is raced */
  VASSUME(mc != NULL);
#endif
  te_no_preempt = 1;                          /* the creates themselves are C05_life's subject; threads stay pending */
  for (int i = 0; i < NTH; i++) {
    te_next_slot = i + 1;
    h[i] = p_uthread_create(thr_main, &body_end[i], nd_pbool(1), NULL);
    VASSERT(h[i] != NULL, "create succeeds");
  }
  te_no_preempt = 0;
#ifdef RACE_LIB
  mc = p_uthread_current();                   /* main's first use of the library key, racing with the threads' proxies */
  VASSERT(mc != NULL && mc != h[0] && mc != h[1], "main's own handle is distinct");
#else
  use_key(1);                                 /* main's first use of K, racing with the threads */
#endif
  te_run_pending();
  te_no_preempt = 1;                          /* nothing is pending any more */
  for (int i = 0; i < NTH; i++) {
    pint r = p_uthread_join(h[i]);
    VASSERT(body_end[i] && te_state[i + 1] == TE_FINISHED, "join returns after the thread finished");
    VASSERT(r == exit_code[i], "join yields the exit code");
    VASSERT(cur_seen[i] == NULL || cur_seen[i] == h[i], "p_uthread_current in a created thread is its handle");
    p_uthread_unref(h[i]);
  }
  VASSERT(p_uthread_current() == mc, "main's handle stable");
#ifdef RACE_LIB
  VASSERT(te_keys_live == 1, "exactly one platform key for the library's PUThreadKey after the race");
#else
  VASSERT(p_uthread_get_local(K) == (ppointer) &vals[1], "main's value untouched by the other threads");
  VASSERT(dcount[1] == 0 && dcount[2] == 1 && (NTH < 2 || dcount[3] == 1), "destroy notifier: once per value left at thread exit, never for main's");
  VASSERT(te_keys_live == 2, "exactly one platform key per PUThreadKey after the race");
#endif
  VASSERT(te_keys_created - te_keys_deleted == te_keys_live, "every losing key was deleted");
  VASSERT(vm_live == base_live + te_keys_live + 1, "every losing key block was freed; handles released; main's handle remains");
#ifdef C20_MODE
  /* C20: give everything back and compare the ledgers with the state before p_uthread_init */
  p_uthread_local_free(K);
  p_uthread_shutdown();
  VASSERT(vm_live == 0, "no library allocation left after the raced first use, local_free and shutdown (the CAS loser's block included)");
  VASSERT(te_threads_unreaped == 0 && te_attr_live == 0, "no thread / attribute object left");
  VASSERT(te_keys_created - te_keys_deleted <= 2, "at most one platform key per PUThreadKey stays (documented), duplicates deleted");
#endif
  VWITNESS("end");
  if (te_keys_deleted > 0) VWITNESS("a first-use race was lost and resolved");
#if defined(TWO) && TE_DEPTH >= 2
  if (te_keys_deleted > 1) VWITNESS("two races lost (B inside A inside main)");
#elif defined(TWO)
  if (te_preemptions > 1) VWITNESS("both threads ran inside main's operation");
#endif
  if (te_preemptions > 0 && exit_code[0] != 0) VWITNESS("preempting thread exited with a code");
}
