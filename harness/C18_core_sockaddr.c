/* C18 core / psocketaddress: every constructor (text IPv4, text IPv6 through getaddrinfo, rejected
 * text, any, loopback, from native, rejected family) and p_socket_address_get_address under the
 * failing allocator.  Documented: constructors return NULL, get_address NULL. */
#include "C18_core.h"
#include "C18_core_netstub.h"
#include <psocketaddress.h>
#define NA 6
static PSocketAddress *a[NA]; static int fam[NA], port[NA];

static int nsf0;
static void ctor_result(int i, PSocketAddress *r, int f0, int live0, int family, int prt, const char *what) {
  (void) what;
  a[i] = r; fam[i] = family; port[i] = prt;
  if (ns_faults > nsf0) { VASSERT(r == NULL, "constructor returns NULL when the resolver fails"); VASSERT(vm_live == live0, "nothing allocated"); }
  else if (C18_FAILED_SINCE(f0)) { VASSERT(r == NULL, "constructor returns NULL when its allocation fails"); VASSERT(vm_live == live0, "failed constructor leaves nothing allocated"); }
  else {
    VASSERT(r != NULL, "constructor succeeds when no allocation fails");
    if (r != NULL) VASSERT((int) p_socket_address_get_family(r) == family && p_socket_address_get_port(r) == prt, "family and port as requested");
  }
  VASSERT(ns_ai_live == 0, "getaddrinfo result released");
}
static void all_unchanged(void) {
  for (int i = 0; i < NA; i++) if (a[i] != NULL)
    VASSERT((int) p_socket_address_get_family(a[i]) == fam[i] && p_socket_address_get_port(a[i]) == port[i], "existing address objects unchanged");
}

static void script(void) {
  c18_begin();
  int f0, live0;
#define CTOR(i, call, family, prt) f0 = vm_failed; live0 = vm_live; nsf0 = ns_faults; ctor_result(i, call, f0, live0, family, prt, #call); all_unchanged()
  CTOR(0, p_socket_address_new("127.0.0.1", 80), P_SOCKET_FAMILY_INET, 80);
  CTOR(1, p_socket_address_new("::1", 81), P_SOCKET_FAMILY_INET6, 81);
  /* rejected text: object allocated, then released again */
  f0 = vm_failed; live0 = vm_live;
  VASSERT(p_socket_address_new("nonsense", 1) == NULL, "unparsable text gives NULL");
  VASSERT(vm_live == live0, "rejected text leaves nothing allocated");
  CTOR(2, p_socket_address_new_any(P_SOCKET_FAMILY_INET6, 5), P_SOCKET_FAMILY_INET6, 5);
  CTOR(3, p_socket_address_new_loopback(P_SOCKET_FAMILY_INET, 6), P_SOCKET_FAMILY_INET, 6);
  struct sockaddr_in sin = {0};
  sin.sin_family = AF_INET; sin.sin_port = p_htons(7); sin.sin_addr.s_addr = 0x0100007f;
  CTOR(4, p_socket_address_new_from_native(&sin, sizeof sin), P_SOCKET_FAMILY_INET, 7);
  live0 = vm_live;
  VASSERT(p_socket_address_new_any(P_SOCKET_FAMILY_UNKNOWN, 1) == NULL && p_socket_address_new_loopback(P_SOCKET_FAMILY_UNKNOWN, 1) == NULL, "unknown family gives NULL");
  VASSERT(vm_live == live0, "rejected family leaves nothing allocated");
  struct sockaddr_in6 sin6 = {0};
  sin6.sin6_family = AF_INET6; sin6.sin6_port = p_htons(8);
  CTOR(5, p_socket_address_new_from_native(&sin6, sizeof sin6), P_SOCKET_FAMILY_INET6, 8);

  int retried_ok = 0;
  for (int i = 0; i < 2; i++)
    for (int attempt = 0; attempt < 2; attempt++) {      /* a failed read is retried once: text as without the failure */
      f0 = vm_failed; live0 = vm_live;
      pchar *s = p_socket_address_get_address(a[i]);
      int failed = C18_FAILED_SINCE(f0);
      if (a[i] == NULL) VASSERT(s == NULL, "NULL address: NULL text");
      else if (failed) { VASSERT(s == NULL, "p_socket_address_get_address returns NULL when the text cannot be allocated"); VASSERT(vm_live == live0, "nothing allocated"); }
      else { VASSERT(s != NULL && s[0] == (i == 0 ? '4' : '6') && s[3] == 0, "text delivered (also when an earlier attempt failed)"); if (attempt == 1) retried_ok = 1; }
      p_free(s);
      all_unchanged();
      if (!failed) break;
    }
  for (int i = 0; i < NA; i++) p_socket_address_free(a[i]);
  VASSERT(ns_ai_live == 0, "no getaddrinfo result outstanding");
  c18_end(11);
  if (ns_ai_total == 1) VWITNESS("IPv6 text went through getaddrinfo/freeaddrinfo");
#ifndef NOFAIL
  if (retried_ok) VWITNESS("get_address failed once and delivered the text when retried");
#endif
#ifdef NS_SYM_FAIL
  if (ns_faults == 1) VWITNESS("resolver failure injected");
#endif
}
