/* C10 closed state: a socket created by the real p_socket_new (stream|datagram, v4|v6), brought into one
 * of several states (fresh / bound / listening / connected), with arbitrary blocking flag and timeout,
 * is closed with p_socket_close.  Then NCALLS arbitrary I/O calls, a second close and free follow.
 * Oracle: close succeeds with exactly one close(fd) in the kernel ledger; afterwards every I/O call
 * fails with P_ERROR_IO_NOT_AVAILABLE and the kernel model sees NO system call at all (so no descriptor,
 * not even a stale or recycled one, is touched); a second close returns TRUE without a system call;
 * free does not close again; the getters show closed / not connected / fd -1. */
#include "C09_common.h"

#ifndef NCALLS
#define NCALLS 2
#endif

void harness(void) {
  vm_alloc_install(); vs_reset();
  p_socket_init_once();
  /* family and type are fixed per query (-DFAMILY, -DSTREAM): socket() failing on a symbolic family would
   * make the descriptor number symbolic and every kernel-table access a case split */
  const int fam = FAMILY;
  const _Bool stream = STREAM;
  PError *err = NULL;
  struct sockaddr_storage sl;
  int len = nd_native(fam, &sl);
  PSocketAddress *addr = p_socket_address_new_from_native(&sl, (psize) len);
  VASSERT(addr != NULL, "address");
  /* a remote listener at addr (model level), so that connect can succeed */
  int pre = ND_RANGE(0, 3);      /* 0 fresh, 1 bound, 2 listening, 3 connected */
  /* (descriptor numbers are kept concrete: a symbolic descriptor makes every kernel-table access a case split) */
  int lfd = vs_mkfd(SOCK_STREAM, fam);
  if (pre == 3 && stream) { vs_set_local(lfd, &sl, len); VFD(listening, lfd) = 1; }

  PSocket *S = p_socket_new((PSocketFamily) fam, stream ? P_SOCKET_TYPE_STREAM : P_SOCKET_TYPE_DATAGRAM, P_SOCKET_PROTOCOL_DEFAULT, &err);
  VASSERT(S != NULL && err == NULL, "socket created");
  int fd = p_socket_get_fd(S);
  VASSERT(fd >= VS_FD0 && VFD(open, fd) && !p_socket_is_closed(S), "open descriptor");
  if (pre == 1 || pre == 2) VASSERT(p_socket_bind(S, addr, ND_BOOL(), &err), "bind");
  if (pre == 2 && stream) VASSERT(p_socket_listen(S, &err), "listen");
  if (pre == 3) { VFD(conn_immediate, fd) = 1; VASSERT(p_socket_connect(S, addr, &err) && p_socket_is_connected(S), "connect"); }
  p_socket_set_blocking(S, nd_pbool(ND_BOOL()));
  p_socket_set_timeout(S, ND_INT());
  p_socket_set_keepalive(S, nd_pbool(ND_BOOL()));
  pboolean ka = p_socket_get_keepalive(S), bl = p_socket_get_blocking(S);
  pint to = p_socket_get_timeout(S), backlog = p_socket_get_listen_backlog(S);

  int nclose0 = vs.nclose;
  VASSERT(p_socket_close(S, &err) && err == NULL, "close succeeds");
  VASSERT(vs.nclose == nclose0 + 1 && !VFD(open, fd) && VFD(closes, fd) == 1, "exactly one close(fd)");
  VASSERT(p_socket_is_closed(S) && !p_socket_is_connected(S) && p_socket_get_fd(S) == -1, "closed, not connected, no descriptor");
  VASSERT(p_socket_get_keepalive(S) == ka && p_socket_get_blocking(S) == bl && p_socket_get_timeout(S) == to && p_socket_get_listen_backlog(S) == backlog,
          "mode getters unaffected by close");

  unsigned char buf[VS_CAP];
  for (int k = 0; k < VS_CAP; k++) buf[k] = ND_UCHAR();
  int seen = 0;
  for (int c = 0; c < NCALLS; c++) {
    int op = ND_RANGE(0, 10);
    int calls0 = vs.ncalls; long long clock0 = vs.clock;
    vs_begin_call(0, 0);
    PSocketAddress *from = NULL;
    err = NULL;
    long r;
    switch (op) {
    case 0: r = p_socket_bind(S, addr, nd_pbool(ND_BOOL()), &err) ? 0 : -1; break;
    case 1: r = p_socket_listen(S, &err) ? 0 : -1; break;
    case 2: r = p_socket_connect(S, addr, &err) ? 0 : -1; break;
    case 3: { PSocket *x = p_socket_accept(S, &err); VASSERT(x == NULL, "accept on a closed socket yields nothing"); r = -1; break; }
    case 4: r = p_socket_send(S, (const pchar *) buf, (psize) ND_RANGE(1, VS_CAP), &err); break;
    case 5: r = p_socket_send_to(S, addr, (const pchar *) buf, (psize) ND_RANGE(1, VS_CAP), &err); break;
    case 6: r = p_socket_receive(S, (pchar *) buf, (psize) ND_RANGE(1, VS_CAP), &err); break;
    case 7: r = p_socket_receive_from(S, &from, (pchar *) buf, (psize) ND_RANGE(1, VS_CAP), &err); break;
    case 8: { _Bool rd = ND_BOOL(), wr = ND_BOOL(); VASSUME(rd || wr); r = p_socket_shutdown(S, nd_pbool(rd), nd_pbool(wr), &err) ? 0 : -1; break; }
    case 9: r = p_socket_set_buffer_size(S, ND_BOOL() ? P_SOCKET_DIRECTION_RCV : P_SOCKET_DIRECTION_SND, (psize) ND_RANGE(0, 65536), &err) ? 0 : -1; break;
    default: r = p_socket_io_condition_wait(S, ND_BOOL() ? P_SOCKET_IO_CONDITION_POLLIN : P_SOCKET_IO_CONDITION_POLLOUT, &err) ? 0 : -1; break;
    }
    VASSERT(r == -1, "I/O call on a closed socket fails");
    VASSERT(err != NULL && ERR_CODE(err) == P_ERROR_IO_NOT_AVAILABLE, "... with P_ERROR_IO_NOT_AVAILABLE");
    VASSERT(vs.ncalls == calls0 && vs.npoll == 0 && vs.clock == clock0, "... without any system call (no descriptor touched, no waiting)");
    VASSERT(from == NULL, "no address produced");
    VASSERT(p_socket_is_closed(S) && !p_socket_is_connected(S) && p_socket_get_fd(S) == -1, "still closed");
    ERR_FREE(err);
    seen |= 1 << op;
  }
  int calls0 = vs.ncalls;
  err = NULL;
  VASSERT(p_socket_close(S, &err) && err == NULL && vs.ncalls == calls0, "second close: TRUE, no system call");
  p_socket_free(S);
  VASSERT(vs.ncalls == calls0 && vs.nclose == nclose0 + 1 && vs.bad_close == 0 && vs.bad_access == 0, "free after close: descriptor not closed again, nothing touched");
  p_socket_address_free(addr);
  VASSERT(vm_live == 0, "memory released");
  VWITNESS("end");
#if STREAM
  if (pre == 3) VWITNESS("closed a connected stream socket");
  if (pre == 2 && (seen & (1 << 3))) VWITNESS("accept on a closed listener");
#else
  if (pre == 3) VWITNESS("closed a connected datagram socket");
#endif
  if (seen == ((1 << 10) | (1 << 7))) VWITNESS("io_condition_wait and receive_from on closed socket");
}
