/* C18 core / pcryptohash: for each hash type of the list -DTYPES (script variant = index; all 11 over the queries): new (object + context)
 * -> update with 3 concrete bytes -> get_string (allocates the hex text; closes the context) ->
 * get_digest -> free, under the failing allocator.  Documented: new returns NULL, get_string NULL. */
#define C18_STOPS_AT_FIRST_FAILURE   /* a failed constructor ends the script: at most one request fails */
#include "C18_core.h"
#include <pcryptohash.h>
/* Only the units of the listed types are linked (the other constructors referenced by pcryptohash.c stay
 * body-less and unreachable).  The static compression functions are replaced by no-ops (their arithmetic is the subject of C11) */
#define STUB(file, name, ctype, dtype) struct ctype; \
  void __CPROVER_file_local_pcryptohash_##file##_c_pp_crypto_hash_##name##_process(struct ctype *ctx, const dtype *data) { (void) ctx; (void) data; }
STUB(md5, md5, PHashMD5_, puint32) STUB(sha1, sha1, PHashSHA1_, puint32) STUB(sha2_256, sha2_256, PHashSHA2_256_, puint32)
STUB(sha2_512, sha2_512, PHashSHA2_512_, puint64) STUB(sha3, sha3, PHashSHA3_, puint64) STUB(gost3411, gost3411, PHashGOST3411_, puint32)
#ifndef TYPES
#define TYPES 0, 1, 2, 3, 4, 5, 6, 7, 8, 9, 10
#endif
static const int types[] = {TYPES};          /* script variant c18_choice -> hash type */
static const unsigned hlen[11] = {16, 20, 28, 32, 48, 64, 28, 32, 48, 64, 32};

static void script(void) {
  c18_begin();
  PCryptoHashType type = (PCryptoHashType) types[c18_choice];
  int f0 = vm_failed;
  PCryptoHash *h = p_crypto_hash_new(type);
  if (C18_FAILED_SINCE(f0)) {
    VASSERT(h == NULL, "p_crypto_hash_new returns NULL when the object or the context cannot be allocated");
    VASSERT(vm_live == c18_base, "failed p_crypto_hash_new leaves nothing allocated");
    VASSERT(p_crypto_hash_get_string(NULL) == NULL, "NULL hash: NULL string");
    p_crypto_hash_free(NULL);
    c18_end(0);
    return;
  }
  VASSERT(h != NULL, "p_crypto_hash_new succeeds when no allocation fails");
  VASSERT(p_crypto_hash_get_length(h) == (pssize) hlen[types[c18_choice]] && p_crypto_hash_get_type(h) == type, "type and length");
  p_crypto_hash_update(h, (const puchar *) "abc", 3);
  f0 = vm_failed;
  int live0 = vm_live;
  pchar *s = p_crypto_hash_get_string(h);
  if (C18_FAILED_SINCE(f0)) { VASSERT(s == NULL, "p_crypto_hash_get_string returns NULL when the text cannot be allocated"); VASSERT(vm_live == live0, "nothing allocated"); }
  else {
    VASSERT(s != NULL, "p_crypto_hash_get_string succeeds when no allocation fails");
    if (s != NULL) {
      VASSERT(s[2 * hlen[types[c18_choice]]] == 0, "hex text terminated at 2*length");
      char c0 = s[0];
      VASSERT((c0 >= '0' && c0 <= '9') || (c0 >= 'a' && c0 <= 'f'), "hex text");
    }
  }
  /* the context is still usable: digest can be fetched (allocates nothing) */
  puchar buf[64]; psize len = sizeof buf;
  p_crypto_hash_get_digest(h, buf, &len);
  VASSERT(len == hlen[types[c18_choice]], "digest delivered after a failed get_string");
  if (s != NULL) {
    static const char hex[] = "0123456789abcdef";
    VASSERT(s[0] == hex[buf[0] >> 4] && s[1] == hex[buf[0] & 15], "text = hex of the digest");
  }
  p_free(s);
  p_crypto_hash_free(h);
  c18_end(3);
}
