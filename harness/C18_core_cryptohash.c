/* C18 core / pcryptohash: for each hash type of the list -DTYPES (script variant = index; all 11 over the queries):
 *   new (object + context) -> update "abc" -> get_string (allocates the hex text; closes the context) -> [retry get_string when it
 *   failed] -> update "de" (documented: ignored, the context is closed) -> get_digest -> reset -> update "f" -> get_digest -> free
 * under the failing allocator, compared with a REFERENCE RUN of the same calls without failure that is executed once before the
 * failure point is chosen (c18_prologue): after a get_string that failed for lack of memory the pre-existing hash object must
 * still deliver exactly the text and the digests of the un-failed run ("objects that existed before the call remain valid and
 * unchanged" - here: changed only in the documented way, closed and finished).
 * Documented: new returns NULL, get_string NULL. */
#define C18_PROLOGUE
#include "C18_core.h"
#include <pcryptohash.h>
/* Only the units of the listed types are linked (the other constructors referenced by pcryptohash.c stay body-less and
 * unreachable).  The static compression functions (their arithmetic is C11's subject) are replaced by a cheap mixing step that
 * makes every call VISIBLE in the digest: state[0] ^= 0xA5, state[1] = 3*state[1] + first data byte, on the state the unit's own
 * *_digest() accessor points to.  A digest taken from an unfinished context therefore differs from the finished one. */
#define STUB(file, name, ctype, dtype) struct ctype; \
  extern const puchar *p_crypto_hash_##name##_digest(struct ctype *ctx); \
  void __CPROVER_file_local_pcryptohash_##file##_c_pp_crypto_hash_##name##_process(struct ctype *ctx, const dtype *data) { \
    puchar *st = (puchar *) p_crypto_hash_##name##_digest(ctx); \
    st[0] ^= 0xA5; st[1] = (puchar) (3 * st[1] + ((const puchar *) data)[0]); }
#ifdef WITH_SHA3
STUB(sha3, sha3, PHashSHA3_, puint64)
#else
STUB(md5, md5, PHashMD5_, puint32) STUB(sha1, sha1, PHashSHA1_, puint32) STUB(sha2_256, sha2_256, PHashSHA2_256_, puint32)
STUB(sha2_512, sha2_512, PHashSHA2_512_, puint64) STUB(gost3411, gost3411, PHashGOST3411_, puint32)
#endif
#ifndef TYPES
#define TYPES 0, 1, 2, 3, 4, 5, 10
#endif
static const int types[] = {TYPES};          /* script variant c18_choice -> hash type */
static const unsigned hlen[11] = {16, 20, 28, 32, 48, 64, 28, 32, 48, 64, 32};
#define HEXMAX 129
static char   ref_str[NCHOICE][HEXMAX];      /* un-failed run: hex text, digest after the ignored update, digest after reset + update */
static puchar ref_d1[NCHOICE][64], ref_d2[NCHOICE][64];
static int    ref_ok[NCHOICE];

static void c18_prologue(void) {
  for (int c = 0; c < NCHOICE; c++) {
    unsigned n = hlen[types[c]];
    PCryptoHash *h = p_crypto_hash_new((PCryptoHashType) types[c]);
    if (h == NULL) continue;
    p_crypto_hash_update(h, (const puchar *) "abc", 3);
    pchar *s = p_crypto_hash_get_string(h);
    if (s != NULL) { for (unsigned i = 0; i < 2 * n + 1 && i < HEXMAX; i++) ref_str[c][i] = s[i]; ref_ok[c] = 1; }
    p_free(s);
    p_crypto_hash_update(h, (const puchar *) "de", 2);
    psize len = 64; p_crypto_hash_get_digest(h, ref_d1[c], &len);
    p_crypto_hash_reset(h);
    p_crypto_hash_update(h, (const puchar *) "f", 1);
    len = 64; p_crypto_hash_get_digest(h, ref_d2[c], &len);
    p_crypto_hash_free(h);
  }
}

static void same_digest(const puchar *got, const puchar *ref, unsigned n, psize len) {
  VASSERT(len == n, "digest delivered");
  int same = 1;
  for (unsigned i = 0; i < 64; i++) if (i < n && got[i] != ref[i]) same = 0;
  VASSERT(same, "digest = digest of the run without allocation failure");
}

static void script(void) {
  c18_begin();
  int c = c18_choice;
  unsigned n = hlen[types[c]];
  PCryptoHashType type = (PCryptoHashType) types[c];
  VASSERT(ref_ok[c], "reference run completed");
  int f0 = vm_failed;
  PCryptoHash *h = p_crypto_hash_new(type);
  if (C18_FAILED_SINCE(f0)) {
    VASSERT(h == NULL, "p_crypto_hash_new returns NULL when the object or the context cannot be allocated");
    VASSERT(vm_live == c18_base, "failed p_crypto_hash_new leaves nothing allocated");
    VASSERT(p_crypto_hash_get_string(NULL) == NULL, "NULL hash: NULL string");
    p_crypto_hash_free(NULL);
    /* retry of the constructor */
    f0 = vm_failed;
    h = p_crypto_hash_new(type);
    if (C18_FAILED_SINCE(f0)) { VASSERT(h == NULL && vm_live == c18_base, "retried constructor fails cleanly again"); c18_end2(0, KMAX + 1); return; }
    VASSERT(h != NULL, "retried p_crypto_hash_new succeeds when no allocation fails");
  }
  VASSERT(h != NULL, "p_crypto_hash_new succeeds when no allocation fails");
  VASSERT(p_crypto_hash_get_length(h) == (pssize) n && p_crypto_hash_get_type(h) == type, "type and length");
  p_crypto_hash_update(h, (const puchar *) "abc", 3);
  pchar *s = NULL;
  int tries = 0;
  for (int attempt = 0; attempt < 2 && s == NULL; attempt++, tries++) {      /* a failed read is retried once */
    f0 = vm_failed;
    int live0 = vm_live;
    s = p_crypto_hash_get_string(h);
    if (C18_FAILED_SINCE(f0)) { VASSERT(s == NULL, "p_crypto_hash_get_string returns NULL when the text cannot be allocated"); VASSERT(vm_live == live0, "nothing allocated"); }
    else {
      VASSERT(s != NULL, "p_crypto_hash_get_string succeeds when no allocation fails");
      int same = s != NULL;
      if (s != NULL) for (unsigned i = 0; i < HEXMAX; i++) if (i < 2 * n + 1 && s[i] != ref_str[c][i]) same = 0;
      VASSERT(same, "hex text = text of the run without allocation failure (also when an earlier attempt failed)");
    }
  }
  p_free(s);
  /* the object is still the one the un-failed run has at this point: closed (update ignored), finished, same digest */
  p_crypto_hash_update(h, (const puchar *) "de", 2);
  puchar buf[64]; psize len = sizeof buf;
  p_crypto_hash_get_digest(h, buf, &len);
  same_digest(buf, ref_d1[c], n, len);
  p_crypto_hash_reset(h);
  p_crypto_hash_update(h, (const puchar *) "f", 1);
  len = sizeof buf;
  p_crypto_hash_get_digest(h, buf, &len);
  same_digest(buf, ref_d2[c], n, len);
  p_crypto_hash_free(h);
  c18_end2(3, 3);
#ifndef NOFAIL
  if (tries == 2 && s != NULL) VWITNESS("get_string failed once and succeeded when retried");
#endif
}
