/* C07 first-open race (nested-atomic emulation, depth 1): process P (0) calls p_shm_new on a name
 * that does not exist; at a symbolic one of P's system-call entries process Q (1) runs its own whole
 * p_shm_new on the same name.  Whatever the interleaving, the handles obtained must address the
 * segment published under the name and share ONE lock. */
#include "verif.h"
#include "alloc.h"
#include "kernel_ipc.h"
#include <pmem.h>
#include <pshm.h>
/* access permission of every open is symbolic: ownership, naming, sizes, lock and clean-up must not depend on it */
#define ND_PERM() (ND_BOOL() ? P_SHM_ACCESS_READWRITE : P_SHM_ACCESS_READONLY)
#define SHM_SLOT 2
#define SEM_SLOT 4

static PShm *hq;
static int q_ran, q_at;          /* Q ran before P's q_at-th system call */
static unsigned long size_q;

void vk_other(void) {
  q_at = vk_nsys[0] + 1;
  hq = p_shm_new("a", size_q, ND_PERM(), NULL);
  q_ran = 1;
}

static void check_handle(PShm *s, int p) {
  unsigned char *a = (unsigned char *) p_shm_get_address(s);
  unsigned long gs = p_shm_get_size(s);
  int obj = vk_shm_obj_at(a);
  VASSERT(a != NULL && obj >= 0, "handle has a mapped address");
  VASSUME(obj >= 0);
#ifdef KF_DEMO_RACE
  VKF(obj == vk_shm_linked(SHM_SLOT), "after interleaved first opens every handle addresses the segment published under the name");
#else
  VASSERT(obj == vk_shm_linked(SHM_SLOT), "after interleaved first opens every handle addresses the segment published under the name");
#endif
  VASSERT(gs > 0 && gs <= (unsigned long) vk_shm_size(obj) && gs <= (unsigned long) vk_map_len(p, a), "bytes below p_shm_get_size are inside segment and mapping");
}

void harness(void) {
  vm_alloc_install();
  unsigned long size_p = (unsigned long) ND_RANGE(1, VK_SEGMAX);
  size_q = (unsigned long) ND_RANGE(1, VK_SEGMAX);
  vk_cur = 0;
#ifdef PREEMPT_AT
  vk_preempt_at = PREEMPT_AT;    /* runner case split: Q runs before P's PREEMPT_AT-th system call */
#endif
  vk_preempt_on = 1;
  PShm *hp = p_shm_new("a", size_p, ND_PERM(), NULL);
  vk_preempt_on = 0;
  if (!q_ran) {                  /* not preempted: Q simply comes afterwards */
    vk_cur = 1;
    q_at = 99;
    hq = p_shm_new("a", size_q, ND_PERM(), NULL);
    q_ran = 1;
  }
  /* a p_shm_new that loses the race may fail (it then holds nothing); the handles that were handed
   * out must be coherent */
  if (q_at == 1 || q_at == 99) VASSERT(hp != NULL && hq != NULL, "without overlap both opens succeed");
  if (hp != NULL) check_handle(hp, 0);
  if (hq != NULL) check_handle(hq, 1);
  VWITNESS("race scenario completed");
#if !defined(PREEMPT_AT) || PREEMPT_AT >= 2
  if (q_at >= 2 && q_at < 99) VWITNESS("Q's open nested inside P's open");
#endif
  if (hp != NULL && hq != NULL) {
    VASSERT(p_shm_get_address(hp) == p_shm_get_address(hq), "both handles map the same segment");
    if (size_p == size_q) VASSERT(p_shm_get_size(hp) == p_shm_get_size(hq), "equal size arguments, equal reported sizes");
    /* one system-wide mutex: P takes the (fresh, free) lock, then Q's lock call must not return */
    vk_cur = 0;
    vk_expect_noblock = 1;
    pboolean ok = p_shm_lock(hp, NULL);
    vk_expect_noblock = 0;
    VASSERT(ok == TRUE, "lock of a fresh segment is free");
    vk_cur = 1;
    pboolean ok2 = p_shm_lock(hq, NULL);      /* blocks in a correct implementation: path ends in the model */
    (void) ok2;
#ifdef KF_DEMO_RACE
    VKF(0, "second process acquired the lock of the same name while the first holds it (two lock semaphores)");
#else
    VASSERT(0, "second process acquired the lock of the same name while the first holds it (two lock semaphores)");
#endif
  }
}
