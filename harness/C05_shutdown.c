/* C05: library life-cycle call p_uthread_shutdown made BY A CREATED THREAD that has obtained its own handle with
 * p_uthread_current, after which that thread ends (the model then runs the TLS destructors still registered for it).
 * p_uthread_shutdown drops the calling thread's own reference AND must clear the caller's TLS slot: the platform key
 * and its cleanup destructor stay registered, so a stale slot would make thread exit unref the handle a second time
 * (use after free / double free; CBMC pointer checks on the real code).
 * Script: init -> create T (joinable or detached = JOINABLE_T, pboolean value symbolic) -> T: p_uthread_current,
 * [ref + unref], p_uthread_shutdown, plain return -> T ends -> main: [join], unref -> ledger.
 * Ghost reference count: creator + T's own; T's own is given back by shutdown, the creator's by main's unref: the
 * handle block must reach free exactly once, at main's unref, and never be touched afterwards. */
#include "verif.h"
#include "alloc.h"
#include "thread_emul.h"
#include <pmem.h>
#include <puthread.h>
#ifndef JOINABLE_T
#define JOINABLE_T 1
#endif
static pboolean nd_pbool(_Bool want) { int v = ND_INT(); VASSUME((v != 0) == want); return (pboolean) v; }
extern void p_uthread_init(void);
extern void p_uthread_shutdown(void);

static PUThread *hnd;
static int body_end, freed, main_unrefs, wrote;
void c05_tls_dtor(ppointer v) { (void) v; VASSERT(0, "no user destroy notifier in this script"); }

static ppointer h_malloc(psize n) { return vm_malloc(n); }
static ppointer h_realloc(ppointer p, psize n) { return vm_realloc(p, n); }
static void h_free(ppointer p) {
  if (hnd != NULL && p == (ppointer) hnd) {
    freed++;
    VASSERT(freed == 1, "handle released exactly once");
    VASSERT(main_unrefs == 1 && te_state[1] >= TE_ENDING, "handle released only when the creator's reference goes, after the thread's own went in shutdown");
  }
  vm_free(p);
}

static ppointer thr_main(ppointer data) {
  VASSERT(data == (ppointer) &wrote, "thread function receives its data pointer");
  wrote = 7;
  PUThread *c = p_uthread_current();
  VASSERT(c == hnd, "p_uthread_current in the created thread is its handle");
  if (ND_BOOL()) { p_uthread_ref(c); p_uthread_unref(c); }
  p_uthread_shutdown();
  VASSERT(freed == 0, "shutdown gives back the thread's own reference only: the creator still holds the handle");
  body_end = 1;
  return NULL;
}
void te_hook_thread_ending(int slot) { (void) slot; }
void te_hook_thread_finished(int slot) { (void) slot; VASSERT(freed == 0, "thread exit after shutdown does not release the handle the creator still holds"); }

void harness(void) {
  PMemVTable vt;
  vt.f_malloc = h_malloc; vt.f_realloc = h_realloc; vt.f_free = h_free;
  p_mem_set_vtable(&vt);
  p_uthread_init();
  te_no_preempt = 1;                            /* T runs when main waits for it / at the drain: the order is the script's */
  te_next_slot = 1;
  hnd = p_uthread_create(thr_main, &wrote, nd_pbool(JOINABLE_T), NULL);
  VASSERT(hnd != NULL, "create succeeds");
#if JOINABLE_T
  pint r = p_uthread_join(hnd);
  VASSERT(body_end && te_state[1] == TE_FINISHED && wrote == 7, "join returns after the thread finished");
  VASSERT(r == 0, "plain return yields 0");
#else
  te_run_pending();
  VASSERT(body_end && te_state[1] == TE_FINISHED, "detached thread ran to its end");
#endif
  main_unrefs = 1;
  p_uthread_unref(hnd);
  VASSERT(freed == 1, "handle released exactly once after the last reference");
  VASSERT(vm_live == 0, "shutdown + unref released every library allocation");
  VASSERT(te_threads_unreaped == 0, "thread reaped");
  VWITNESS("end");
}
