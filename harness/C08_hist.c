/* C08 histories with two handles of one buffer name over the kernel model (real pshmbuffer.c +
 * pshm-posix.c + psemaphore-posix.c): process 0 creates the buffer with capacity S1, process 1 opens
 * the SAME name with size argument S2 (equal, larger, smaller, 0); then a few operations through
 * alternating handles are compared with ONE reference queue of capacity S1
 * ("opening an existing buffer ignores the size argument"). */
#include "verif.h"
#include "alloc.h"
#include "kernel_ipc.h"
#include <pmem.h>
#include <pshm.h>
#include <pshmbuffer.h>
/* the real pshmbuffer.c is compiled inside this translation unit ($VERIF_REPO/src is on the include
 * path) so that ONLY its memcpy/memset calls are redirected to the bounded, range-reporting models */
#include "redir_ipc_mem.h"
#include <pshmbuffer.c>

#ifndef EINTR_MAX
#define EINTR_MAX 2
#endif
#ifndef OPS
#define OPS 0, 1
#endif
#ifndef START
#define START 0
#endif
#ifndef SMAX
#define SMAX 8
#endif
#define HDR 16

void vk_other(void) {}

#define SEM_SLOT 4          /* key stub: lock semaphore of PShm "a" */
static PShmBuffer *b[2];
static int cur_k = -1, nest_done, in_nested, other_holds;

/* every memcpy/memset range of pshmbuffer.c.  Ranges in kernel shm memory must stay inside the segment, and - "concurrent
 * reads and writes are atomic with respect to each other" through DIFFERENT handles - may only happen while THE lock
 * semaphore published for the name is taken (a handle holding some other semaphore generation excludes nobody).
 * -DNEST: at the first segment access of the operation the other process tries an operation through the other handle
 * of the same name (on a solver-chosen branch): its p_shm_lock must block (that path ends in the model), it must never get in. */
void vm_mem_access(const void *p, size_t n, int is_write) {
  (void) is_write;
  for (int o = 0; o < VK_NSHM; o++)
    if (__CPROVER_same_object(p, vk_shm_mem(o))) {
      VASSERT(__CPROVER_POINTER_OFFSET(p) + n <= (unsigned long) vk_shm_size(o), "no operation touches memory outside the segment");
      VASSERT(!(other_holds && cur_k >= 0), "an operation touches the segment while the OTHER handle holds the lock of the name");
      int so = vk_sem_linked(SEM_SLOT);
      VASSERT(so >= 0 && vk_sem_value(so) == 0, "the segment is accessed only while the lock semaphore of the name is taken (one lock for all handles)");
#ifdef NEST
      if (!nest_done && !in_nested && cur_k >= 0 && ND_BOOL()) {
        int me = vk_cur;
        nest_done = 1; in_nested = 1;
        VWITNESS("other handle attempts an operation while this handle is inside one");
        vk_cur = 1 - cur_k;
        (void) p_shm_buffer_get_used_space(b[1 - cur_k], NULL);
        VASSERT(0, "the other handle of the same name got the lock while this handle is inside an operation (no mutual exclusion across handles)");
        vk_cur = me; in_nested = 0;
      }
#endif
    }
}

static unsigned char q[SMAX];      /* reference FIFO */
static unsigned long qn, cap;

static int n_cross, last_writer = -1;

/* one operation through handle k (k is a constant at each call site: keeps every pointer concrete) */
static void do_op(int k, int op) {
  vk_cur = k; cur_k = k;
  if (op == 0) {
    unsigned long len = (unsigned long) ND_RANGE(1, SMAX + 1);
    unsigned char d[SMAX + 1];
    for (int j = 0; j < SMAX + 1; j++) d[j] = ND_UCHAR();
    pssize r = p_shm_buffer_write(b[k], d, len, NULL);
    if (len <= cap - qn) {
#ifdef KF_DEMO_SMALLER
      VKF(r == (pssize) len, "write that fits the shared queue is accepted through either handle");
      VASSUME(r == (pssize) len);
#endif
      VASSERT(r == (pssize) len, "write that fits the shared queue is accepted through either handle");
      for (int j = 0; j < SMAX + 1; j++) if ((unsigned long) j < len) q[qn + j] = d[j];
      qn += len;
      last_writer = k;
    } else VASSERT(r == 0, "write that does not fit is refused");
  } else if (op == 1) {
    unsigned long len = (unsigned long) ND_RANGE(1, SMAX + 1);
    unsigned char st[SMAX + 1];
    pint r = p_shm_buffer_read(b[k], st, len, NULL);
    unsigned long kk = len < qn ? len : qn;
#ifdef KF_DEMO_SMALLER
    VKF(r == (pint) kk, "read returns min(len, used) of the shared queue");
    VASSUME(r == (pint) kk);
#endif
    VASSERT(r == (pint) kk, "read returns min(len, used) of the shared queue");
    unsigned long j = (unsigned long) ND_RANGE(0, SMAX);
    if (j < kk) {
#ifdef KF_DEMO_SMALLER
      VKF(st[j] == q[j], "read delivers the oldest bytes in order, whichever handle wrote them");
      VASSUME(st[j] == q[j]);
#endif
      VASSERT(st[j] == q[j], "read delivers the oldest bytes in order, whichever handle wrote them");
    }
    if (kk > 0 && last_writer >= 0 && last_writer != k) n_cross++;
    for (int m = 0; m < SMAX; m++) if ((unsigned long) m + kk < SMAX) q[m] = q[m + kk];
    qn -= kk;
  } else if (op == 2) {
    p_shm_buffer_clear(b[k]);
    qn = 0;
  } else if (op == 3) {
    pssize f = p_shm_buffer_get_free_space(b[k], NULL);
#ifdef KF_DEMO_SMALLER
    VKF(f == (pssize) (cap - qn), "free space through either handle = capacity - used");
    VASSUME(f == (pssize) (cap - qn));
#endif
    VASSERT(f == (pssize) (cap - qn), "free space through either handle = capacity - used");
  } else {
    pssize u = p_shm_buffer_get_used_space(b[k], NULL);
#ifdef KF_DEMO_SMALLER
    VKF(u == (pssize) qn, "used space through either handle = bytes queued");
    VASSUME(u == (pssize) qn);
#endif
    VASSERT(u == (pssize) qn, "used space through either handle = bytes queued");
  }
}

void harness(void) {
  vm_alloc_install();
  unsigned long S1 = (unsigned long) ND_RANGE(1, SMAX), S2 = (unsigned long) ND_RANGE(0, SMAX + 2);
#ifdef KF_OPEN_C08_smaller_size
  VASSUME(!(S2 > 0 && S2 < S1));
#endif
#ifdef KF_DEMO_SMALLER
  VASSUME(S2 > 0 && S2 < S1);
#endif
  vk_cur = 0;
  b[0] = p_shm_buffer_new("a", S1, NULL);
  VASSERT(b[0] != NULL, "buffer created");
  VASSUME(b[0] != NULL);
  vk_cur = 1;
  b[1] = p_shm_buffer_new("a", S2, NULL);
  VASSERT(b[1] != NULL, "existing buffer opened with another size argument");
  VASSUME(b[1] != NULL);
  cap = S1;
  {
    pssize f = p_shm_buffer_get_free_space(b[1], NULL);
#ifdef KF_DEMO_SMALLER
    VKF(f == (pssize) cap, "second handle (smaller size argument) sees the capacity of the existing buffer");
#else
    VASSERT(f == (pssize) cap, "second handle sees the capacity of the existing buffer (size argument ignored)");
#endif
  }
  /* runner case split: the kinds of the operations (-DOPS=0,0,1: write, write, read; 2 clear, 3 free space,
   * 4 used space) and the handle of the first one (-DSTART) are concrete, handles alternate; sizes, lengths
   * and data stay symbolic */
  static const int ops[] = { OPS };
#ifdef LOCKED_BY_OTHER
  /* the other handle's process is inside ITS critical section (holds the segment lock); the operation through this handle
   * receives up to EINTR_MAX handled signals while it waits for the lock (sem_wait fails with EINTR): it must keep waiting -
   * the path ends in the model - and never touch the segment or return success */
  vk_cur = 1 - START;
  vk_expect_noblock = 1;
  VASSERT(p_shm_lock(b[1 - START]->shm, NULL) == TRUE, "other handle takes the free lock");
  vk_expect_noblock = 0;
  other_holds = 1;
  vk_eintr_budget = ND_RANGE(0, EINTR_MAX);
  VWITNESS("other handle holds the lock, this handle starts an operation under signals");
  do_op(START, ops[0]);
  VASSERT(0, "an operation completed although the other handle holds the lock of the name");
#else
  for (int i = 0; i < (int) (sizeof ops / sizeof ops[0]); i++) do_op((START + i) & 1, ops[i]);
  cur_k = -1;
  VASSERT(vk_sem_value(vk_sem_linked(SEM_SLOT)) == 1, "lock released after every operation");
  VWITNESS("history completed");
#ifndef KF_DEMO_SMALLER
#ifdef EXPECT_CROSS
  if (n_cross > 0) VWITNESS("bytes written through one handle read through the other");
#endif
  if (S2 > S1) VWITNESS("second handle opened with a larger size argument");
  if (S2 == 0) VWITNESS("second handle opened with size argument 0");
#ifndef KF_OPEN_C08_smaller_size
  if (S2 > 0 && S2 < S1) VWITNESS("second handle opened with a smaller size argument");
#endif
#endif
#endif /* LOCKED_BY_OTHER */
}
