/* C15: PHashTable vs. an association-list reference, symbolic 64-bit keys/values, history of NOPS
 * operations, then full observation (lookup of an arbitrary key, keys/values/lookup_by_value). */
#include "verif.h"
#include "alloc.h"
#include <pmem.h>
#include <phashtable.h>
#include <plist.h>

#ifndef NOPS
#define NOPS 3
#endif

static ppointer rk[NOPS], rv[NOPS];
static int rn;

static int ref_find(ppointer k) { for (int i = 0; i < NOPS; i++) if (i < rn && rk[i] == k) return i; return -1; }

static int count_in_list(PList *l, ppointer x, int *len) {
  int c = 0, n = 0;
  for (PList *p = l; p != NULL; p = p->next) { n++; if (p->data == x) c++; }
  *len = n;
  return c;
}

#ifdef UFHASH
/* pp_hash_table_calc_hash replaced by a consistent uninterpreted function (same pointer -> same
 * bucket, result < modulo); the real arithmetic is decided for all 2^64 inputs by C15_hashfn.c */
#define UFN (NOPS + 2)
static pconstpointer uf_arg[UFN]; static puint uf_res[UFN]; static int uf_n;
puint __CPROVER_file_local_phashtable_c_pp_hash_table_calc_hash(pconstpointer p, psize modulo) {
  for (int i = 0; i < UFN; i++) if (i < uf_n && uf_arg[i] == p) return uf_res[i];
  puint r = ND_UINT();
  VASSUME(r < modulo);
#ifdef COLLIDE
  VASSUME(r == 3 % modulo);
#endif
  VASSERT(uf_n < UFN, "harness: UF table large enough");
  uf_arg[uf_n] = p; uf_res[uf_n] = r; uf_n++;
  return r;
}
#endif

static unsigned long long nd_key(void) {
  unsigned long long k = ND_ULL();
#if defined(COLLIDE) && !defined(UFHASH)
  /* all keys in one bucket: low word + 37 congruent mod 101 (low words kept away from the int
   * boundary so that this variant is about chains, not about the hash arithmetic) */
  int low = (int) (long long) k;
  VASSUME(low >= -1000000 && low <= 1000000);
  VASSUME((unsigned long long) (long long) (low + 37) % 101ULL == 5);
#endif
#if defined(KF_OPEN_C15_hash_overflow) && !defined(UFHASH)
  { int lw = (int) (long long) k; VASSUME(lw <= 2147483647 - 37); }
#endif
  return k;
}

void harness(void) {
  vm_alloc_install();
  PHashTable *t = p_hash_table_new();
  VASSERT(t != NULL, "new succeeds");
  for (int i = 0; i < NOPS; i++) {
    int op = ND_RANGE(0, 2);
    ppointer k = (ppointer) nd_key();
    ppointer v = (ppointer) ND_ULL();
    int j = ref_find(k);
    if (op == 0) {
      p_hash_table_insert(t, k, v);
      if (j >= 0) rv[j] = v; else { rk[rn] = k; rv[rn] = v; rn++; }
    } else if (op == 1) {
      p_hash_table_remove(t, k);
      if (j >= 0) { rn--; rk[j] = rk[rn]; rv[j] = rv[rn]; }
    } else {
      ppointer got = p_hash_table_lookup(t, k);
      VASSERT(got == (j >= 0 ? rv[j] : (ppointer) -1), "lookup inside history = reference / not-found marker");
    }
  }
  /* observation: arbitrary probe key */
  ppointer q = (ppointer) nd_key();
  int j = ref_find(q);
  ppointer got = p_hash_table_lookup(t, q);
  VASSERT(got == (j >= 0 ? rv[j] : (ppointer) -1), "final lookup = reference / not-found marker");
#ifdef SWEEP
  /* keys and values list exactly the current content (as multisets) */
  int len;
  PList *ks = p_hash_table_keys(t);
  int ck = count_in_list(ks, q, &len);
  VASSERT(len == rn, "keys() has one entry per stored key");
  VASSERT(ck == (j >= 0 ? 1 : 0), "keys() contains probe key iff stored, once");
  p_list_free(ks);
  ppointer w = (ppointer) ND_ULL();
  int cref = 0; for (int i = 0; i < NOPS; i++) if (i < rn && rv[i] == w) cref++;
  PList *vs = p_hash_table_values(t);
  int cv = count_in_list(vs, w, &len);
  VASSERT(len == rn, "values() has one entry per stored pair");
  VASSERT(cv == cref, "values() multiplicity of an arbitrary value = reference");
  p_list_free(vs);
  PList *bv = p_hash_table_lookup_by_value(t, w, NULL);
  int cb = count_in_list(bv, q, &len);
  VASSERT(len == cref, "lookup_by_value returns one key per matching pair");
  VASSERT(cb == ((j >= 0 && rv[j] == w) ? 1 : 0), "lookup_by_value lists probe key iff it maps to the value");
  p_list_free(bv);
#endif
  p_hash_table_free(t);
  VASSERT(vm_live == 0, "everything released by free");
  VWITNESS("end of history");
#ifdef WITNESS_FULL
  if (rn == NOPS) VWITNESS("table with NOPS distinct keys reached");
#endif
}
