/* C11 (c) solver equivalence of ONE compression function with its standard: SHA-3 / Keccak-f[1600] (FIPS 202 section 3.2).
 * Two queries on the real static functions of pcryptohash-sha3.c (wrapper unit, file-local symbols exported):
 *  -DROUND   : for EVERY 1600-bit state, real theta; rho_pi; chi  ==  reference chi(pi(rho(theta(A)))) written from FIPS 202
 *              (generic x,y formulas, rotation offsets from the (t+1)(t+2)/2 rule) - the solver decides all 2^1600 states.
 *  -DSCHED   : the real pp_crypto_hash_sha3_process + keccak_permutate with the three step functions replaced by recording
 *              stubs: absorbs exactly block_size/8 lanes (state ^= block, symbolic), then 24 rounds, each theta -> rho_pi -> chi
 *              -> iota, and the 24 iota constants equal the FIPS 202 rc(t) LFSR output.
 * Together: Keccak-p[1600,24] of the implementation == FIPS 202 (composition of the per-round equalities). */
#include "verif.h"
#undef ALG
#define ALG 5
#ifndef VARIANT
#define VARIANT 256
#endif
#include "C11_alg.h"
#define FL(f) __CPROVER_file_local_pcryptohash_sha3_c_pp_crypto_hash_sha3_##f
void FL(keccak_theta)(void *ctx);
void FL(keccak_rho_pi)(void *ctx);
void FL(keccak_chi)(void *ctx);
void FL(process)(void *ctx, const uint64_t *data);

static uint64_t rotl(uint64_t v, unsigned n) { n &= 63; return n ? (v << n) | (v >> (64 - n)) : v; }

#ifdef ROUND
static void ref_round_no_iota(uint64_t A[25])
{
  uint64_t C[5], D[5], Bm[25], E[25]; unsigned x, y, t;
  /* theta */
  for (x = 0; x < 5; x++) C[x] = A[x] ^ A[x + 5] ^ A[x + 10] ^ A[x + 15] ^ A[x + 20];
  for (x = 0; x < 5; x++) D[x] = C[(x + 4) % 5] ^ rotl(C[(x + 1) % 5], 1);
  for (x = 0; x < 5; x++) for (y = 0; y < 5; y++) A[x + 5 * y] ^= D[x];
  /* rho */
  for (x = 0; x < 25; x++) Bm[x] = A[x];
  x = 1; y = 0;
  for (t = 0; t < 24; t++) {
    unsigned nx = y, ny = (2 * x + 3 * y) % 5;
    Bm[x + 5 * y] = rotl(A[x + 5 * y], ((t + 1) * (t + 2) / 2) % 64);
    x = nx; y = ny;
  }
  /* pi: A'[x,y] = A[(x+3y) mod 5, x] */
  for (x = 0; x < 5; x++) for (y = 0; y < 5; y++) E[x + 5 * y] = Bm[((x + 3 * y) % 5) + 5 * x];
  /* chi */
  for (x = 0; x < 5; x++) for (y = 0; y < 5; y++) A[x + 5 * y] = E[x + 5 * y] ^ (~E[(x + 1) % 5 + 5 * y] & E[(x + 2) % 5 + 5 * y]);
}
void harness(void)
{
  uint64_t R[25]; unsigned i; int ok = 1;
  c11_set_variant();
  for (i = 0; i < 25; i++) { R[i] = ND_ULL(); c11_state()[i] = R[i]; }
  FL(keccak_theta)(c11_ctx());
  FL(keccak_rho_pi)(c11_ctx());
  FL(keccak_chi)(c11_ctx());
  ref_round_no_iota(R);
  for (i = 0; i < 25; i++) ok &= (c11_state()[i] == R[i]);
  VASSERT(ok, "theta; rho_pi; chi of the implementation == chi.pi.rho.theta of FIPS 202 for every state");
  VWITNESS("round compared");
}
#endif

#ifdef SCHED
/* recording stubs for the three step functions (their bodies are removed from the unit) */
static unsigned seq, bad_order, n_theta;
static uint64_t lane0_at_theta[25];
void FL(keccak_theta)(void *ctx) { if (seq % 3 != 0 || ctx != c11_ctx()) bad_order = 1; if (n_theta < 25) lane0_at_theta[n_theta] = c11_state()[0]; n_theta++; seq++; }
void FL(keccak_rho_pi)(void *ctx) { if (seq % 3 != 1 || ctx != c11_ctx()) bad_order = 1; seq++; }
void FL(keccak_chi)(void *ctx) { if (seq % 3 != 2 || ctx != c11_ctx()) bad_order = 1; seq++; }
static int lfsr(uint8_t *s) { int r = (*s & 1) != 0; if (*s & 0x80) *s = (uint8_t) ((*s << 1) ^ 0x71); else *s = (uint8_t) (*s << 1); return r; }
void harness(void)
{
  uint64_t S[25], D[25], rc[24]; unsigned i, j; int ok = 1; uint8_t st = 1;
  for (i = 0; i < 24; i++) { rc[i] = 0; for (j = 0; j < 7; j++) if (lfsr(&st)) rc[i] ^= (uint64_t) 1 << ((1u << j) - 1); }   /* FIPS 202 rc(j + 7 i) */
  c11_set_variant();
  for (i = 0; i < 25; i++) { S[i] = ND_ULL(); D[i] = ND_ULL(); c11_state()[i] = S[i]; }
  FL(process)(c11_ctx(), D);
  VASSERT(!bad_order && n_theta == 24 && seq == 72, "24 rounds, each theta -> rho_pi -> chi");
  /* with identity steps the only state changes are the absorption and the iota constants on lane (0,0) */
  for (i = 1; i < 25; i++) ok &= (c11_state()[i] == (i < C11_BLOCK / 8 ? (S[i] ^ D[i]) : S[i]));
  VASSERT(ok && lane0_at_theta[0] == (S[0] ^ D[0]), "absorb: the first rate/64 lanes ^= block, capacity lanes untouched");
  ok = 1;
  for (i = 0; i < 24; i++) {
    uint64_t after = (i < 23) ? lane0_at_theta[i + 1] : c11_state()[0];
    ok &= ((after ^ lane0_at_theta[i]) == rc[i]);
  }
  VASSERT(ok, "iota: round constant i == FIPS 202 RC[i] (rc(t) LFSR) for i = 0..23, applied to lane (0,0) after chi");
  VWITNESS("schedule compared");
}
#endif
