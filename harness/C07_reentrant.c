/* C06 / C07 / C08: the name -> platform key derivation is re-entrant.  Two threads of one process open DIFFERENT
 * names at the same time: while p_semaphore_new (KIND 0) / p_shm_new (KIND 1) / p_shm_buffer_new (KIND 2) / the bare
 * p_ipc_get_platform_key (KIND 3) works on name "alpha", the other thread runs the whole same call on name "bravo"
 * at the PREEMPT_AT-th allocator entry (malloc / realloc / free through the p_mem_set_vtable table) of the outer
 * call - nested-atomic emulation, depth 1, one query per entry so that the SHA-1 data stay concrete.  Afterwards every
 * handle must be attached under the key of ITS OWN name, the keys being the ones the REAL p_ipc_get_platform_key
 * computes un-nested.  (A derivation that keeps state between calls - a static hash context - is sequentially
 * bit-identical and fails exactly here.) */
#include "verif.h"
#include "alloc.h"
#include "kernel_ipc.h"
#include <pmem.h>
#include <psemaphore.h>
#include <pshm.h>
#include <pshmbuffer.h>
pchar *p_ipc_get_platform_key(const pchar *name, pboolean posix);
#ifndef KIND
#define KIND 1
#endif
#ifndef PREEMPT_AT
#define PREEMPT_AT 3
#endif

void vk_other(void) {}

static int armed, entries, nested_done;
static void other_thread(void);
static void entry(void) {
  if (armed) {
    entries++;
    if (entries == PREEMPT_AT) { armed = 0; nested_done = 1; other_thread(); }
  }
}
static void *my_malloc(size_t n) { entry(); return vm_malloc(n); }
static void *my_realloc(void *p, size_t n) { entry(); return vm_realloc(p, n); }
static void my_free(void *p) { entry(); vm_free(p); }

static int key_eq(const char *a, const char *b) {
  for (int i = 0; i < 16; i++) { if (a[i] != b[i]) return 0; if (a[i] == 0) return 1; }
  return 1;
}

#if KIND == 0
static PSemaphore *hA, *hB;
static void other_thread(void) { hB = p_semaphore_new("bravo", 2, P_SEM_ACCESS_OPEN, NULL); }
#define SUFFIX "_p_sem_object"
#elif KIND == 1
static PShm *hA, *hB;
static void other_thread(void) { hB = p_shm_new("bravo", 7, P_SHM_ACCESS_READWRITE, NULL); }
#define SUFFIX "_p_shm_object"
#elif KIND == 2
static PShmBuffer *hA, *hB;
static void other_thread(void) { hB = p_shm_buffer_new("bravo", 7, NULL); }
#define SUFFIX "_p_shm_object"
#else
static pchar *hA, *hB;
static void other_thread(void) { hB = p_ipc_get_platform_key("bravo" "_p_shm_object", TRUE); }
#define SUFFIX "_p_shm_object"
#endif

void harness(void) {
  PMemVTable t;
  t.f_malloc = (ppointer (*)(psize)) my_malloc;
  t.f_realloc = (ppointer (*)(ppointer, psize)) my_realloc;
  t.f_free = (void (*)(ppointer)) my_free;
  p_mem_set_vtable(&t);
  /* reference: the keys of the two names, computed one after the other */
  pchar *kA = p_ipc_get_platform_key("alpha" SUFFIX, TRUE), *kB = p_ipc_get_platform_key("bravo" SUFFIX, TRUE);
  VASSERT(kA != NULL && kB != NULL && !key_eq(kA, kB), "reference keys computed, distinct");
  VASSUME(kA != NULL && kB != NULL);
  /* the two calls, overlapping */
  armed = 1;
#if KIND == 0
  hA = p_semaphore_new("alpha", 1, P_SEM_ACCESS_OPEN, NULL);
#elif KIND == 1
  hA = p_shm_new("alpha", 5, P_SHM_ACCESS_READWRITE, NULL);
#elif KIND == 2
  hA = p_shm_buffer_new("alpha", 5, NULL);
#else
  hA = p_ipc_get_platform_key("alpha" SUFFIX, TRUE);
#endif
  armed = 0;
  VASSERT(nested_done, "harness: the outer call makes at least PREEMPT_AT allocator calls");
  VASSERT(hA != NULL && hB != NULL, "both overlapping calls succeed");
  VASSUME(hA != NULL && hB != NULL);
#if KIND == 3
  VASSERT(key_eq(hA, kA), "overlapping derivations: key of name alpha is the one computed alone");
  VASSERT(key_eq(hB, kB), "overlapping derivations: key of name bravo is the one computed alone");
#elif KIND == 0
  int oA = vk_sem_linked(vk_slot(kA)), oB = vk_sem_linked(vk_slot(kB));
  VASSERT(oA >= 0 && oB >= 0 && oA != oB && vk_names_linked() == 2, "each name is published under its own key, nothing else");
  VASSUME(oA >= 0 && oB >= 0);
  VASSERT(vk_sem_value(oA) == 1 && vk_sem_value(oB) == 2, "each counter has its own initial value");
  VASSERT(p_semaphore_release(hA, NULL) == TRUE && vk_sem_value(oA) == 2 && vk_sem_value(oB) == 2, "handle of name alpha operates on the counter under alpha's key");
  VASSERT(p_semaphore_release(hB, NULL) == TRUE && vk_sem_value(oB) == 3 && vk_sem_value(oA) == 2, "handle of name bravo operates on the counter under bravo's key");
#elif KIND == 1
  int oA = vk_shm_linked(vk_slot(kA)), oB = vk_shm_linked(vk_slot(kB));
  VASSERT(oA >= 0 && oB >= 0 && oA != oB && vk_names_linked() == 4, "each name is published under its own key (segment + lock), nothing else");
  VASSERT(vk_shm_obj_at(p_shm_get_address(hA)) == oA && p_shm_get_size(hA) == 5, "handle of name alpha is attached to the segment under alpha's key");
  VASSERT(vk_shm_obj_at(p_shm_get_address(hB)) == oB && p_shm_get_size(hB) == 7, "handle of name bravo is attached to the segment under bravo's key");
#else
  int oA = vk_shm_linked(vk_slot(kA)), oB = vk_shm_linked(vk_slot(kB));
  VASSERT(oA >= 0 && oB >= 0 && oA != oB && vk_names_linked() == 4, "each buffer name is published under its own key, nothing else");
  VASSUME(oA >= 0 && oB >= 0);
  VASSERT(vk_shm_size(oA) == 5 + 17 && vk_shm_size(oB) == 7 + 17, "each buffer has the capacity asked for under its own name");
  VASSERT(p_shm_buffer_get_free_space(hA, NULL) == 5 && p_shm_buffer_get_free_space(hB, NULL) == 7, "each handle works on its own buffer");
#endif
  VWITNESS("overlapping calls checked");
}
