/* C18 / C20, socket part.  Scripts over the allocating / descriptor-creating entry points of psocket.c,
 * run with the REAL error path (p_error_set_error_p -> p_error_new_literal -> p_malloc0 / p_strdup):
 *   SCRIPT 1: p_socket_new (stream|dgram by -DSTREAM) ; p_socket_new_from_fd on a foreign descriptor ; free
 *   SCRIPT 2: listener: p_socket_new, bind, listen, p_socket_accept of a queued client,
 *             p_socket_get_local_address / p_socket_get_remote_address of the accepted socket ; free all
 *   SCRIPT 3: datagram socket with a queued datagram: p_socket_receive_from (allocates the source address),
 *             p_socket_get_local_address ; free all
 *   SCRIPT 4: p_socket_new ; optionally p_socket_close ; p_socket_free - with close() INTERRUPTED: at most once per
 *             library call the kernel releases the descriptor and reports -1/EINTR (Linux semantics).  Known
 *             finding C20_close_eintr_reclose (open): a p_socket_close that failed this way leaves the socket
 *             "open", so p_socket_free (or a second p_socket_close) closes the same NUMBER again; while it is
 *             open the main query interrupts only the close made by p_socket_free, the demo query (-DKF_DEMO) any.
 * Faults: the k-th allocation fails (only it, or it and all later ones: both symbolic)  [C18 and C20];
 *         with -DSYSFAIL=n additionally up to n of the system calls socket/fcntl/setsockopt/getsockopt/
 *         getsockname/getpeername/bind/listen/accept fail at symbolic points                     [C20].
 * Oracle: every call returns (no invalid memory access: CBMC's pointer checks are on), with its documented
 * failure value (NULL / -1 / FALSE) or a degraded result; an error object is missing only if an
 * allocation failed; objects that existed before a failing call keep their observable state and stay
 * usable; after freeing what was obtained the allocation ledger is back to zero, no descriptor created by
 * the library stays open, every descriptor was closed at most once and never by a close() on a
 * non-open descriptor; a foreign descriptor handed to p_socket_new_from_fd is left open when the call fails. */
#include "C09_common.h"

#ifndef SCRIPT
#define SCRIPT 1
#endif
#ifndef STREAM
#define STREAM 1
#endif
#ifndef FAMILY
#define FAMILY AF_INET
#endif
#ifndef SYSFAIL
#define SYSFAIL 0
#endif
#ifndef KMAX
#define KMAX 12
#endif

static void drop(PError **e) { if (*e) { p_error_free(*e); *e = NULL; } }

/* a failing call: error object present unless an allocation failed; code in the IO domain */
static void failed_call(PError **e) {
  if (*e == NULL) VASSERT(vm_failed > 0, "error object missing only when an allocation failed");
  else VASSERT(p_error_get_code(*e) >= P_ERROR_IO_NO_RESOURCES && p_error_get_code(*e) <= P_ERROR_IO_FAILED, "error code is a PErrorIO value");
  drop(e);
}

void harness(void) {
  vm_alloc_install(); vs_reset();
  p_socket_init_once();
  struct sockaddr_storage sl;
  int len = nd_native(FAMILY, &sl);
  PError *err = NULL;
  int foreign = -1;
#if SCRIPT == 1
  foreign = vs_mkfd(STREAM ? SOCK_STREAM : SOCK_DGRAM, FAMILY);     /* a descriptor the program owns */
  vs_set_local(foreign, &sl, len);
#endif
  /* fault selection */
  vm_fail_at = ND_RANGE(0, KMAX);          /* 0: no allocation failure */
  vm_fail_from = ND_BOOL();
  vs.sysfail_budget = SYSFAIL;
  vs_begin_call(0, 0);

  PSocket *S = p_socket_new((PSocketFamily) FAMILY, (SCRIPT == 3 || !STREAM) ? P_SOCKET_TYPE_DATAGRAM : P_SOCKET_TYPE_STREAM, P_SOCKET_PROTOCOL_DEFAULT, &err);
  if (S == NULL) { VASSERT(vm_failed > 0 || vs.nsysfail > 0, "p_socket_new fails only because something failed underneath"); failed_call(&err); }
  else { VASSERT(err == NULL, "no error on success"); VASSERT(VFD(open, p_socket_get_fd(S)), "new socket owns an open descriptor"); }
  VASSERT((S != NULL) == (vs_open_count() == (SCRIPT == 1 ? 2 : 1)), "a descriptor is open for the new socket exactly when the call succeeded");

#if SCRIPT == 1
  PSocket *N = p_socket_new_from_fd(foreign, &err);
  if (N == NULL) {
    VASSERT(vm_failed > 0 || vs.nsysfail > 0, "p_socket_new_from_fd fails only because something failed underneath");
    failed_call(&err);
    VASSERT(VFD(open, foreign) && VFD(closes, foreign) == 0, "the caller's descriptor is left alone when wrapping it fails");
    VASSERT(vm_close(foreign) == 0, "caller closes its descriptor");
  } else {
    VASSERT(err == NULL && p_socket_get_fd(N) == foreign && p_socket_get_blocking(N) && p_socket_get_timeout(N) == 0, "wrapped socket");
    p_socket_free(N);
    VASSERT(!VFD(open, foreign) && VFD(closes, foreign) == 1, "free closes the wrapped descriptor once");
  }
#elif SCRIPT == 2
  PSocket *X = NULL;
  PSocketAddress *la = NULL, *ra = NULL, *addr = p_socket_address_new_from_native(&sl, (psize) len);
  if (S != NULL && addr != NULL) {
    const int fd = p_socket_get_fd(S);
    if (!p_socket_bind(S, addr, TRUE, &err)) failed_call(&err);
    if (!p_socket_listen(S, &err)) failed_call(&err);
    else {
      vs_preconn(fd);
      vs.env_mask = 1 << VS_ENV_CONN; vs.env_kind = VS_ENV_CONN; vs.env_fd = fd; vs_env_fire();
      pint bl = p_socket_get_listen_backlog(S); pboolean blk = p_socket_get_blocking(S);
      X = p_socket_accept(S, &err);
      if (X == NULL) {
        VASSERT(vm_failed > 0 || vs.nsysfail > 0, "accept of a queued client fails only because something failed underneath");
        failed_call(&err);
        VASSERT(p_socket_get_fd(S) == fd && !p_socket_is_closed(S) && p_socket_get_listen_backlog(S) == bl && p_socket_get_blocking(S) == blk && VFD(open, fd) && VFD(listening, fd),
                "the listener is unchanged and usable after a failed accept");
        VASSERT(vs_open_count() == 1, "a failed accept leaves no descriptor behind");
      } else {
        VASSERT(err == NULL && VFD(open, p_socket_get_fd(X)) && vs_open_count() == 2, "accepted socket owns the new descriptor");
        /* (a failing getpeername inside the wrapper makes the new socket report "not connected": degraded, not a leak) */
        pboolean conn = p_socket_is_connected(X);
        VASSERT(conn || vs.nsysfail > 0, "accepted socket is connected");
        la = p_socket_get_local_address(X, &err);
        if (la == NULL) failed_call(&err); else VASSERT(err == NULL && p_socket_address_get_family(la) == (PSocketFamily) FAMILY, "local address");
        ra = p_socket_get_remote_address(X, &err);
        if (ra == NULL) failed_call(&err); else VASSERT(err == NULL && p_socket_address_get_family(ra) == (PSocketFamily) FAMILY, "remote address");
        VASSERT(p_socket_is_connected(X) == conn && !p_socket_is_closed(X), "socket unchanged by the address queries");
      }
    }
  }
  if (la) p_socket_address_free(la);
  if (ra) p_socket_address_free(ra);
  if (addr) p_socket_address_free(addr);
  if (X) p_socket_free(X);
#elif SCRIPT == 4
  if (S != NULL && ND_BOOL()) {
    const int fd = p_socket_get_fd(S);
    vs_begin_call(0, 0);
#if !defined(KF_OPEN_C20_close_eintr_reclose) || defined(KF_DEMO)
    vs.close_eintr_budget = 1;
#endif
    pboolean ok = p_socket_close(S, &err);
    if (ok) VASSERT(err == NULL && p_socket_is_closed(S) && p_socket_get_fd(S) == -1 && !VFD(open, fd), "closed");
    else { VASSERT(vs.nclose_eintr > 0, "p_socket_close fails only when close() reported a failure"); failed_call(&err); }
    VASSERT(!VFD(open, fd) && VFD(closes, fd) == 1, "the descriptor is released by the one close() in either case");
  }
  vs_begin_call(0, 0);
  vs.close_eintr_budget = 1;       /* the close() made by p_socket_free may be interrupted */
#else
  PSocketAddress *from = NULL, *la = NULL;
  if (S != NULL) {
    const int fd = p_socket_get_fd(S);
    vs_set_local(fd, &sl, len);
    unsigned char buf[VS_CAP];
    for (int k = 0; k < VS_CAP; k++) { buf[k] = 0; vs.env_data[k] = ND_UCHAR(); }
    vs.env_mask = 1 << VS_ENV_DATA; vs.env_kind = VS_ENV_DATA; vs.env_fd = fd; vs.env_len = ND_RANGE(1, VS_CAP); vs_env_fire();
    p_socket_set_blocking(S, nd_pbool(ND_BOOL()));
    pssize r = p_socket_receive_from(S, &from, (pchar *) buf, VS_CAP, &err);
    VASSERT(r == vs.env_len && err == NULL && same_bytes(buf, vs.env_data, (int) r), "the datagram is delivered even if the source address cannot be allocated");
    if (from == NULL) VASSERT(vm_failed > 0, "source address missing only when its allocation failed");
    else VASSERT(p_socket_address_get_family(from) == (PSocketFamily) FAMILY, "source address");
    la = p_socket_get_local_address(S, &err);
    if (la == NULL) failed_call(&err); else VASSERT(err == NULL, "local address");
  }
  if (from) p_socket_address_free(from);
  if (la) p_socket_address_free(la);
#endif
  if (S) p_socket_free(S);
  drop(&err);

  VASSERT(vm_live == 0, "allocation ledger back to its initial value");
  VASSERT(vs_open_count() == 0, "descriptor ledger back to its initial value");
  VASSERT(vs.bad_close == 0, "no close() on a descriptor that is not open");
  for (int i = 0; i < VS_NFD; i++) VASSERT(vfd_closes[i] <= 1, "each descriptor closed at most once");
  VWITNESS("end");
  if (vm_failed == 0 && vs.nsysfail == 0) VWITNESS("fault-free run");
  if (vm_failed >= 2) VWITNESS("two allocations failed");
#if SYSFAIL > 0
  if (vs.nsysfail == SYSFAIL) VWITNESS("all system call failures used");
#endif
#if SCRIPT == 4
  if (vs.nclose_eintr > 0) VWITNESS("a close() was interrupted");
#endif
#if SCRIPT == 2
  if (X == NULL && S != NULL && vm_failed > 0 && vs.nclose >= 2) VWITNESS("accept failed after the kernel handed out a descriptor");
#endif
}
