/* C06 / C07 / C08: long names.  The REAL name handling of p_semaphore_new (KIND 0), p_shm_new (KIND 1),
 * p_shm_buffer_new (KIND 2) - name + suffix, then the REAL pipc.c:p_ipc_get_platform_key (SHA-1) - runs
 * on concrete names of length LEN over the kernel model in string-name mode:
 *   A            = "abc..." (LEN characters)
 *   B            = A with another LAST character
 *   C            = A with another FIRST character
 *   A2           = an equal copy of A in another buffer
 * A, B, C must be three different objects in the system (distinct platform keys reach sem_open / shm_open,
 * each semaphore keeps its own value, each segment its own bytes), A and A2 the same one.  "Other names
 * are unaffected" holds only if the whole name takes part in the key. */
#include "verif.h"
#include "alloc.h"
#include "kernel_ipc.h"
#include <pmem.h>
#include <psemaphore.h>
#include <pshm.h>
#include <pshmbuffer.h>
#ifndef LEN
#define LEN 51
#endif
#ifndef KIND
#define KIND 0
#endif

void vk_other(void) {}

static char A[LEN + 1], B[LEN + 1], C[LEN + 1], A2[LEN + 1];

#if KIND == 0
typedef PSemaphore H;
static H *mk(const char *n, int v) { return p_semaphore_new(n, v, P_SEM_ACCESS_OPEN, NULL); }
#elif KIND == 1
typedef PShm H;
static H *mk(const char *n, int v) { return p_shm_new(n, (psize) (4 + v), P_SHM_ACCESS_READWRITE, NULL); }
static unsigned char *mem(H *h) { return (unsigned char *) p_shm_get_address(h); }
#else
typedef PShmBuffer H;
static H *mk(const char *n, int v) { return p_shm_buffer_new(n, (psize) (4 + v), NULL); }
#endif

void harness(void) {
  vm_alloc_install();
  for (int i = 0; i < LEN; i++) { char c = (char) ('a' + i % 26); A[i] = c; B[i] = c; C[i] = c; A2[i] = c; }
  B[LEN - 1] = 'Z';
#if LEN > 1
  C[0] = 'Y';
#else
  C[0] = 'X';       /* length 1: first = last character, C is simply a third name */
#endif
  vk_cur = 0;
#if KIND == 0
  H *a = mk(A, 1), *b = mk(B, 2), *c = mk(C, 3);
#else
  /* segments cost two key derivations each: the name differing in its FIRST character is left to the C06 queries */
  H *a = mk(A, 1), *b = mk(B, 2), *c = b;
#endif
  vk_cur = 1;
  H *a2 = mk(A2, 1);
  VASSERT(a != NULL && b != NULL && c != NULL && a2 != NULL, "objects with long names are created/opened");
  VASSUME(a != NULL && b != NULL && c != NULL && a2 != NULL);
#if KIND == 0
  VASSERT(vk_names_linked() == 3, "three different names -> three semaphores in the system, the equal name -> the same one");
  /* kernel objects are numbered in creation order: each counter got its own initial value */
  VASSERT(vk_sem_value(0) == 1 && vk_sem_value(1) == 2 && vk_sem_value(2) == 3, "each name has its own counter with its own initial value");
  vk_cur = 0;
  VASSERT(p_semaphore_release(b, NULL) == TRUE, "release through B");
  VASSERT(vk_sem_value(1) == 3 && vk_sem_value(0) == 1 && vk_sem_value(2) == 3, "release through the name differing in its LAST character leaves the other counters untouched");
  VASSERT(p_semaphore_release(c, NULL) == TRUE, "release through C");
  VASSERT(vk_sem_value(2) == 4 && vk_sem_value(0) == 1, "release through the name differing in its FIRST character leaves the other counters untouched");
  vk_cur = 1;
  VASSERT(p_semaphore_release(a2, NULL) == TRUE, "release through the equal name");
  VASSERT(vk_sem_value(0) == 2, "equal names share one counter");
#elif KIND == 1
  VASSERT(vk_names_linked() == 4, "two different names -> two segments and two lock semaphores, the equal name -> the same ones");
  VASSERT(mem(a) != mem(b), "different names address different memory");
  VASSERT(mem(a2) == mem(a), "equal names address the same memory");
  VASSERT(p_shm_get_size(a) == 5 && p_shm_get_size(b) == 6 && p_shm_get_size(a2) == 5, "each creator sees the size it asked for");
  mem(a)[2] = 77;
  VASSERT(mem(a2)[2] == 77 && mem(b)[2] == 0, "a byte stored under one name is seen under the equal name only");
  vk_cur = 0;
  vk_expect_noblock = 1;
  VASSERT(p_shm_lock(a, NULL) == TRUE && p_shm_lock(b, NULL) == TRUE, "each name has its own lock");
  vk_expect_noblock = 0;
#else
  VASSERT(vk_names_linked() == 4, "two different names -> two buffers, the equal name -> the same one");
  unsigned char d[2] = { 5, 6 };
  vk_cur = 0;
  VASSERT(p_shm_buffer_get_free_space(a, NULL) == 5 && p_shm_buffer_get_free_space(b, NULL) == 6, "each buffer has the capacity its creator asked for");
  VASSERT(p_shm_buffer_write(a, d, 2, NULL) == 2, "write under name A");
  VASSERT(p_shm_buffer_get_used_space(b, NULL) == 0, "buffers of other names are unaffected");
  vk_cur = 1;
  VASSERT(p_shm_buffer_get_used_space(a2, NULL) == 2, "equal names share one buffer");
#endif
  VWITNESS("names checked");
}
