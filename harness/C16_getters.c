/* C16 (c) typed getters on a stored value.  File = "[s]\nk=" + VLEN symbolic value bytes (end of file
 * without new-line).  A NUL byte ends the value early, so all lengths 1..VLEN are covered.  The value V
 * is restricted to text the documented grammar stores verbatim (no ; # quotes, no blanks at either end,
 * no control characters), so p_ini_file_parameter_string must return exactly V; then per mode:
 *  GET_INT     p_ini_file_parameter_int == reference decimal reading of V (pinifile.h: 'usual form'; atoi-like: optional sign, decimal
 *              digits, leading zeros are decimal, '0x..' reads as 0, anything after the digits is ignored, 0 if no digits)
 *  GET_BOOL    "true"/"TRUE"/"1" -> TRUE, "false"/"FALSE"/"0" -> FALSE (the documented spellings; others unspecified)
 *  GET_LIST    "{a b c}" -> the blank-separated items, element t of the list = t-th item of the text (blanks/tabs allowed after
 *              '{', before '}' and repeated between items); "{}" -> empty list
 *  GET_DOUBLE  unsigned decimal integers -> exactly that number (general notation: harness/C16_strtod.c)
 * and in every mode: missing key / missing section / NULL file give the caller's default. */
#include "C16_common.h"
#ifndef VLEN
#define VLEN 5
#endif
static char V[VLEN + 1];

static int ref_digit(char c) { return c >= '0' && c <= '9'; }
static int ref_atoi(const char *s, int n) {
  int i = 0, neg = 0, k; long v = 0;
  if (i < n && (s[i] == '-' || s[i] == '+')) { neg = s[i] == '-'; i++; }
  for (k = 0; k < VLEN; k++) if (k == i && i < n && ref_digit(s[i])) { v = v * 10 + (s[i] - '0'); i++; }
  return (int) (neg ? -v : v);
}
static int ref_is(const char *lit, int n) {   /* V == lit ? */
  int i;
  for (i = 0; i <= VLEN; i++) { if (lit[i] == '\0') return i == n; if (i >= n || V[i] != lit[i]) return 0; }
  return 0;
}

void harness(void) {
  PIniFile *ini;
  pchar *str;
  int pos, i, n = VLEN, dflt;
  vm_alloc_install();
  pos = c16_put(0, "[s]\nk=");
  for (i = 0; i < VLEN; i++) {
    char c = (char) ND_UCHAR();
    VASSUME(c != ';' && c != '#' && c != '"' && c != '\'' && c != '\n' && c != '\r' && c != '\v' && c != '\f');
#ifndef GET_LIST
    VASSUME(c != '\t');        /* tabs only in list values (item separators); elsewhere outside the compared class */
#endif
#ifdef GET_DOUBLE
    VASSUME(c == 0 || ref_digit(c));
#endif
    V[i] = c;
    vm_file_data[pos + i] = (unsigned char) c;
  }
  V[VLEN] = '\0';
  for (i = VLEN - 1; i >= 0; i--) if (V[i] == '\0') n = i;       /* length of V = first NUL */
  VASSUME(n >= 1 && V[0] != ' ' && V[0] != '\t');
  for (i = 0; i < VLEN; i++) if (i == n - 1) VASSUME(V[i] != ' ' && V[i] != '\t');
  vm_file_len = pos + VLEN;
  dflt = ND_INT();

  ini = p_ini_file_new("f");
  VASSERT(ini != NULL && p_ini_file_parse(ini, NULL) == TRUE, "parse succeeds");
  str = p_ini_file_parameter_string(ini, "s", "k", NULL);
  VASSERT(str != NULL, "key k of section s is present");
  for (i = 0; i <= VLEN; i++) if (i <= n) VASSERT(str[i] == V[i], "stored string is the value text");
  p_free(str);

#if defined(GET_INT)
  VASSERT(p_ini_file_parameter_int(ini, "s", "k", dflt) == ref_atoi(V, n), "parameter_int = atoi of the value text");
  VASSERT(p_ini_file_parameter_int(ini, "s", "x", dflt) == dflt, "parameter_int: default for a missing key");
  VASSERT(p_ini_file_parameter_int(ini, "t", "k", dflt) == dflt, "parameter_int: default for a missing section");
  VASSERT(p_ini_file_parameter_int(NULL, "s", "k", dflt) == dflt, "parameter_int: default for a NULL file");
  if (ref_atoi(V, n) < -9) VWITNESS("negative two-digit number");
  if (ref_atoi(V, n) > 999) VWITNESS("four-digit number");
  if (!ref_digit(V[0]) && V[0] != '-' && V[0] != '+') VWITNESS("not a number");
  /* spellings on which other libc parsers (strtol base 0, %i) disagree with the documented decimal reading */
  if (V[0] == '0' && ref_atoi(V, n) >= 8) VWITNESS("value with a leading zero and more digits (decimal, not octal)");
  if (n >= 3 && V[0] == '0' && (V[1] == 'x' || V[1] == 'X') && (ref_digit(V[2]) || (V[2] >= 'a' && V[2] <= 'f'))) VWITNESS("value with a 0x prefix (reads as 0)");
  if (V[0] == '+' && ref_atoi(V, n) > 0) VWITNESS("explicit plus sign");
  if (n >= 3 && ref_digit(V[0]) && V[1] == ' ' && ref_digit(V[2])) VWITNESS("blank inside the value ends the number");
#elif defined(GET_BOOL)
  {
    pboolean d = (dflt & 1) ? TRUE : FALSE;
    pboolean r = p_ini_file_parameter_boolean(ini, "s", "k", d);
    if (ref_is("true", n) || ref_is("TRUE", n) || ref_is("1", n)) { VASSERT(r == TRUE, "parameter_boolean: true / TRUE / 1 give TRUE"); }
    if (ref_is("false", n) || ref_is("FALSE", n) || ref_is("0", n)) { VASSERT(r == FALSE, "parameter_boolean: false / FALSE / 0 give FALSE"); }
    VASSERT(r == TRUE || r == FALSE, "parameter_boolean returns a boolean");
    VASSERT(p_ini_file_parameter_boolean(ini, "s", "x", d) == d, "parameter_boolean: default for a missing key");
    VASSERT(p_ini_file_parameter_boolean(ini, "t", "k", d) == d, "parameter_boolean: default for a missing section");
    VASSERT(p_ini_file_parameter_boolean(NULL, "s", "k", d) == d, "parameter_boolean: default for a NULL file");
    if (ref_is("TRUE", n)) VWITNESS("TRUE");
    if (ref_is("true", n)) VWITNESS("true");
#if VLEN >= 5
    if (ref_is("false", n)) VWITNESS("false");
    if (ref_is("FALSE", n)) VWITNESS("FALSE");
#endif
    if (ref_is("0", n)) VWITNESS("0");
    if (ref_is("1", n)) VWITNESS("1");
  }
#elif defined(GET_LIST)
  {
    /* reference split: items = maximal runs of non-blank characters between the braces, in text order; blanks (space,
     * tab) may follow the opening brace, precede the closing brace and be repeated between items.  The comparison is
     * positional: element number t of the returned list must be the t-th item of the text. */
    int ts[VLEN], te[VLEN], nt = 0, in = 0, wellformed, cnt = 0;
    PList *lst, *it;
    wellformed = n >= 2 && V[0] == '{';
    for (i = 0; i < VLEN; i++) if (i == n - 1 && V[i] != '}') wellformed = 0;
    for (i = 1; i < VLEN; i++) if (i < n - 1 && (V[i] == '{' || V[i] == '}')) wellformed = 0;
    for (i = 1; i < VLEN; i++) if (i < n - 1) {
      if (V[i] != ' ' && V[i] != '\t') { if (!in) { in = 1; for (int t = 0; t < VLEN; t++) if (t == nt) ts[t] = i; } }
      else if (in) { in = 0; for (int t = 0; t < VLEN; t++) if (t == nt) te[t] = i; nt++; }
    }
    if (in) { for (int t = 0; t < VLEN; t++) if (t == nt) te[t] = n - 1; nt++; }
    lst = p_ini_file_parameter_list(ini, "s", "k");
    if (wellformed) {
      for (it = lst; it != NULL && cnt < VLEN; it = it->next) {
        for (int t = 0; t < VLEN; t++) if (t == cnt) {
          VASSERT(t < nt, "parameter_list: not more items than the text has");
          if (t < nt) {
            const char *item = (const char *) it->data;
            for (i = 0; i < VLEN; i++) if (i < te[t] - ts[t]) {
              for (int p = 1; p < VLEN; p++) if (p == ts[t] + i) VASSERT(item[i] == V[p], "parameter_list: item text in order");
            }
            for (i = 0; i < VLEN; i++) if (i == te[t] - ts[t]) VASSERT(item[i] == '\0', "parameter_list: item ends where the blank is");
          }
        }
        cnt++;
      }
      VASSERT(it == NULL, "parameter_list: not more items than the text can have");
      VASSERT(cnt == nt, "parameter_list: every blank-separated item is returned (none dropped)");
      if (nt >= 2) VWITNESS("list of two items");
      {
        int blank_before_close = 0, blank_after_open = n >= 3 && (V[1] == ' ' || V[1] == '\t'), tab_sep = 0, two_blanks = 0;
        for (i = 1; i < VLEN; i++) if (i == n - 2 && (V[i] == ' ' || V[i] == '\t')) blank_before_close = 1;
        for (i = 2; i < VLEN; i++) if (i < n - 2 && V[i] == '\t') tab_sep = 1;
        for (i = 2; i < VLEN; i++) if (i < n - 2 && (V[i] == ' ' || V[i] == '\t') && (V[i - 1] == ' ' || V[i - 1] == '\t')) two_blanks = 1;
        if (nt >= 2 && blank_before_close) VWITNESS("two or more items and a blank before the closing brace");
        if (nt >= 2 && !blank_before_close) VWITNESS("two or more items and no blank before the closing brace");
        if (nt >= 2 && blank_after_open) VWITNESS("two or more items and a blank after the opening brace");
        if (nt >= 2 && two_blanks) VWITNESS("two or more items separated by more than one blank");
        if (nt >= 2 && tab_sep) VWITNESS("two or more items separated by a tab");
      }
      if (nt == 0) VWITNESS("empty list");
    }
    for (it = lst, cnt = 0; it != NULL && cnt < VLEN; it = it->next, cnt++) p_free(it->data);
    p_list_free(lst);
    VASSERT(p_ini_file_parameter_list(ini, "s", "x") == NULL, "parameter_list: NULL for a missing key");
    VASSERT(p_ini_file_parameter_list(ini, "t", "k") == NULL, "parameter_list: NULL for a missing section");
    if (!wellformed) VWITNESS("not a list");
  }
#elif defined(GET_DOUBLE)
  {
    double d = (double) dflt, r, expect = 0.0;
    for (i = 0; i < VLEN; i++) if (i < n) expect = expect * 10.0 + (double) (V[i] - '0');   /* exact: < 2^53 */
    r = p_ini_file_parameter_double(ini, "s", "k", d);
    VASSERT(r == expect, "parameter_double: decimal integer text gives exactly that number");
    VASSERT(p_ini_file_parameter_double(ini, "s", "x", d) == d, "parameter_double: default for a missing key");
    VASSERT(p_ini_file_parameter_double(ini, "t", "k", d) == d, "parameter_double: default for a missing section");
    VASSERT(p_ini_file_parameter_double(NULL, "s", "k", d) == d, "parameter_double: default for a NULL file");
    if (expect >= 10.0) VWITNESS("two-digit number");
  }
#endif
  {
    pchar *ds = p_ini_file_parameter_string(ini, "s", "x", "dv");
    VASSERT(ds != NULL && ds[0] == 'd' && ds[1] == 'v' && ds[2] == '\0', "parameter_string: copy of the default for a missing key");
    p_free(ds);
    VASSERT(p_ini_file_parameter_string(ini, "s", "x", NULL) == NULL, "parameter_string: NULL default for a missing key");
  }
  p_ini_file_free(ini);
  VWITNESS("end of harness");
}
