/* C02, harness 2 (sequential, inductive, ANY number of threads): one atomic segment of one real operation of
 * prwlock-general.c, started from an ARBITRARY state of (active_threads, waiting_threads) that satisfies the
 * representation invariant
 *     I:  writers_active <= 1,  writers_active == 1 => readers_active == 0,  unused top bits clear,
 *         every counter below its 15-bit limit (= fewer than 2^15-1 threads, the design limit of the packing).
 * A segment runs under the internal mutex from the operation's entry (or from a wake-up) to its next cond_wait or to
 * its return.  pthread_cond_wait is replaced (VM_CW_HOOK) by: check the state the caller blocks in, then HAVOC the two
 * words to any I-state in which the caller is still registered as a waiter (everything other threads may have done
 * meanwhile), and continue as if woken - so one call of a lock function executes several segments, each from an
 * arbitrary state, which is the induction step for every reachable state and every number of other threads.
 * Decided per segment:
 *   - I is preserved; the words change exactly as the abstract reader/writer lock prescribes;
 *   - lock returns TRUE only from a segment whose start state grants the mode (safety under any wake-up, incl. spurious);
 *   - a thread blocks only while its mode is not grantable (reader: a writer is active or waiting; writer: anything
 *     active), on the right condition variable, with the right mutex, registered in the right waiter count;
 *   - trylock: TRUE => grantable and granted, FALSE => nothing changed, quiescent lock => TRUE, never waits;
 *   - signalling obligations: last reader out with writers waiting => write_cv is signalled; writer out => write_cv
 *     signalled if writers wait, else read_cv BROADCAST if readers wait;
 *   - the internal mutex is free again at every return.
 */
#include "verif.h"
#include "pthread_model.h"
#include <pmem.h>
#include <pmutex.h>
#include <pcondvariable.h>
#include <prwlock.h>
#include "C01_store.h"

#define RD(x) ((x) & 0x00007FFFu)
#define WR(x) (((x) & 0x3FFF8000u) >> 15)
#define LIM 0x7FFEu

static unsigned preA, preW;     /* state at the start of the current segment */
static int op;                  /* 0 reader_lock 1 writer_lock 2 reader_trylock 3 writer_trylock 4 reader_unlock 5 writer_unlock */
static int registered;          /* the caller is counted in waiting_threads */
static int nwaits;
static int i_rcv, i_wcv;

static _Bool inv(unsigned A, unsigned W) {
  return WR(A) <= 1 && !(WR(A) == 1 && RD(A) > 0) && (A & 0xC0000000u) == 0 && (W & 0xC0000000u) == 0;
}
static void begin_segment(void) {
  unsigned A = ND_UINT(), W = ND_UINT();
  VASSUME(inv(A, W) && RD(A) <= LIM && RD(W) <= LIM && WR(W) <= LIM);
  if (registered) VASSUME(op == 0 ? RD(W) >= 1 : WR(W) >= 1);    /* I am still counted as a waiter */
  st_rw.active_threads = A; st_rw.waiting_threads = W;
  preA = A; preW = W;
}

/* replaces the blocking part of pthread_cond_wait */
void cw_hook(int ci, int mi) {
  unsigned A = st_rw.active_threads, W = st_rw.waiting_threads;
  VASSERT(op == 0 || op == 1, "only the blocking lock calls wait (trylock / unlock never block)");
  VASSERT(mi == 0, "wait releases the rwlock's internal mutex");
  VASSERT(inv(A, W), "invariant holds when a thread blocks");
  VASSERT(A == preA, "a blocking segment does not change the active counts");
  if (op == 0) {
    VASSERT(ci == i_rcv, "a reader waits on read_cv");
    VASSERT(WR(preA) == 1 || WR(preW) > 0, "a reader blocks only while a writer is active (or waiting)");
    VASSERT(WR(W) == WR(preW) && RD(W) == RD(preW) + (registered ? 0 : 1), "a blocked reader is counted exactly once in waiting readers");
  } else {
    VASSERT(ci == i_wcv, "a writer waits on write_cv");
    VASSERT(preA != 0, "a writer blocks only while the lock is held");
    VASSERT(RD(W) == RD(preW) && WR(W) == WR(preW) + (registered ? 0 : 1), "a blocked writer is counted exactly once in waiting writers");
  }
  registered = 1;
  nwaits++;
  begin_segment();    /* whatever the other threads did meanwhile */
}

void harness(void) {
  PRWLock *l = p_rwlock_new();
  VASSERT(l != NULL && l == (PRWLock *) &st_rw, "p_rwlock_new succeeds (typed harness storage in use)");
  i_rcv = vm_cv_index((pthread_cond_t *) st_rw.read_cv); i_wcv = vm_cv_index((pthread_cond_t *) st_rw.write_cv);
  VASSERT(i_rcv >= 0 && i_wcv >= 0 && i_rcv != i_wcv && vm_mtx_index((pthread_mutex_t *) st_rw.mutex) == 0, "mutex and both condition variables registered");
  op = ND_RANGE(0, 5);
  begin_segment();
  if (op == 4) VASSUME(RD(preA) >= 1);      /* caller holds a read lock */
  if (op == 5) VASSUME(WR(preA) == 1);      /* caller holds the write lock */
  unsigned A0 = preA, W0 = preW;
  pboolean r;
  switch (op) {
  case 0: r = p_rwlock_reader_lock(l); break;
  case 1: r = p_rwlock_writer_lock(l); break;
  case 2: r = p_rwlock_reader_trylock(l); break;
  case 3: r = p_rwlock_writer_trylock(l); break;
  case 4: r = p_rwlock_reader_unlock(l); break;
  default: r = p_rwlock_writer_unlock(l); break;
  }
  unsigned A = st_rw.active_threads, W = st_rw.waiting_threads;
  VASSERT(vm_mutex_owner(0) == 0, "the internal mutex is free when the operation returns");
  VASSERT(inv(A, W), "invariant holds when the operation returns");
  /* waiting counts: restored (my registration removed) */
  if (op == 0) VASSERT(WR(W) == WR(preW) && RD(W) == RD(preW) - (registered ? 1 : 0), "reader_lock removes its own waiter registration, nothing else");
  else if (op == 1) VASSERT(RD(W) == RD(preW) && WR(W) == WR(preW) - (registered ? 1 : 0), "writer_lock removes its own waiter registration, nothing else");
  else VASSERT(W == preW && nwaits == 0, "trylock / unlock never wait and leave the waiting counts alone");
  switch (op) {
  case 0:
    VASSERT(r == TRUE, "reader_lock returns TRUE");
    VASSERT(WR(preA) == 0, "reader_lock returns only from a state without active writer");
    VASSERT(WR(A) == 0 && RD(A) == RD(preA) + 1, "reader_lock adds exactly one active reader");
    if (nwaits == 2) VWITNESS("reader_lock after two waits");
    if (nwaits == 0) VWITNESS("reader_lock without waiting");
    break;
  case 1:
    VASSERT(r == TRUE, "writer_lock returns TRUE");
    VASSERT(preA == 0, "writer_lock returns only from a free state");
    VASSERT(WR(A) == 1 && RD(A) == 0, "writer_lock records exactly one active writer");
    if (nwaits == 2) VWITNESS("writer_lock after two waits");
    break;
  case 2:
    VASSERT(!r || WR(preA) == 0, "reader_trylock TRUE => no active writer");
    VASSERT(!(preA == 0 && preW == 0) || r, "reader_trylock on a quiescent lock returns TRUE");
    VASSERT(r ? (WR(A) == 0 && RD(A) == RD(preA) + 1) : A == preA, "reader_trylock: TRUE adds one reader, FALSE changes nothing");
    if (!r) VWITNESS("reader_trylock FALSE");
    break;
  case 3:
    VASSERT(!r || preA == 0, "writer_trylock TRUE => nothing active");
    VASSERT(!(preA == 0 && preW == 0) || r, "writer_trylock on a quiescent lock returns TRUE");
    VASSERT(r ? (WR(A) == 1 && RD(A) == 0) : A == preA, "writer_trylock: TRUE records the writer, FALSE changes nothing");
    if (r) VWITNESS("writer_trylock TRUE");
    break;
  case 4:
    VASSERT(r == TRUE, "reader_unlock returns TRUE");
    VASSERT(WR(A) == 0 && RD(A) == RD(A0) - 1, "reader_unlock removes exactly one active reader");
    VASSERT(!(RD(A0) == 1 && WR(W0) > 0) || vm_nsig_cv[i_wcv] + vm_nbc_cv[i_wcv] >= 1, "last reader out with writers waiting => write_cv is signalled");
    if (RD(A0) == 1 && WR(W0) > 0) VWITNESS("last reader out, writers waiting");
    break;
  default:
    VASSERT(r == TRUE, "writer_unlock returns TRUE");
    VASSERT(A == 0, "writer_unlock leaves the lock free");
    VASSERT(!(WR(W0) > 0 || RD(W0) > 0) || (WR(W0) > 0 && vm_nsig_cv[i_wcv] + vm_nbc_cv[i_wcv] >= 1) || (RD(W0) > 0 && vm_nbc_cv[i_rcv] >= 1),
            "writer out with waiters => a waiting writer is signalled or ALL waiting readers are woken (broadcast)");
    if (WR(W0) == 0 && RD(W0) > 1) VWITNESS("writer out, several readers waiting");
    break;
  }
  VWITNESS("end");
}
