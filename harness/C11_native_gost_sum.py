"""C11 native demonstration of finding C11_gost_sum_carry: GOST R 34.11-94 (CryptoPro) of 64 x 0xFF, plibsys vs libgcrypt and nettle.
Measured: plibsys 1b939fd8...975f, libgcrypt == nettle == 58504d26...d3c6 (all agree on "", "abc", "message digest", 32 x 0xFF)."""
import ctypes, sys
g = ctypes.CDLL("libgcrypt.so.20")
g.gcry_check_version(None)
def gost_cp(data):
    out = ctypes.create_string_buffer(32)
    g.gcry_md_hash_buffer(311, out, data, ctypes.c_size_t(len(data)))
    return out.raw.hex()
p = ctypes.CDLL("/repo/_build/src/libplibsys.so")
p.p_libsys_init()
p.p_crypto_hash_new.restype = ctypes.c_void_p
p.p_crypto_hash_get_string.restype = ctypes.c_void_p
def pl(t, data):
    h = p.p_crypto_hash_new(t)
    p.p_crypto_hash_update(ctypes.c_void_p(h), data, ctypes.c_size_t(len(data)))
    s = p.p_crypto_hash_get_string(ctypes.c_void_p(h))
    r = ctypes.string_at(s).decode()
    p.p_crypto_hash_free(ctypes.c_void_p(h))
    return r
for m in [b"", b"abc", b"message digest", b"\xff"*32, b"\xff"*64, b"\xff"*96, b"a"*64]:
    a, b = gost_cp(m), pl(10, m)
    print(len(m), a == b, a, b)
n = ctypes.CDLL("libnettle.so.8")
class Ctx(ctypes.Structure): _fields_=[("b", ctypes.c_ubyte*512)]
def nettle_cp(m):
    c = Ctx(); n.nettle_gosthash94_init(ctypes.byref(c)); n.nettle_gosthash94cp_update(ctypes.byref(c), ctypes.c_size_t(len(m)), m)
    out = ctypes.create_string_buffer(32); n.nettle_gosthash94cp_digest(ctypes.byref(c), ctypes.c_size_t(32), out); return out.raw.hex()
print(nettle_cp(b"\xff"*64)); print(nettle_cp(b"abc"))
