/* Trivial local stand-ins for the resolver calls used by psocketaddress.c (used until/unless
 * models/netdb_model.c is linked instead; the conversions themselves are C17's subject):
 * inet_pton: AF_INET accepts texts starting with a digit and containing no ':', AF_INET6 texts
 * containing ':'; writes a fixed address.  inet_ntop: writes a fixed short text.
 * getaddrinfo: one AF_INET6 result in libc-owned memory with a ledger (ns_ai_live), or failure
 * (-DNS_SYM_FAIL: symbolic, counted in ns_faults); freeaddrinfo must hit a live result exactly once. */
#ifndef C18_CORE_NETSTUB_H
#define C18_CORE_NETSTUB_H
#include <sys/socket.h>
#include <netinet/in.h>
#include <arpa/inet.h>
#include <netdb.h>
#include <stdlib.h>
int ns_ai_live, ns_ai_total, ns_faults;
static struct addrinfo *ns_last;
static int ns_has_colon(const char *s) { for (int i = 0; i < 40 && s[i]; i++) if (s[i] == ':') return 1; return 0; }
int inet_pton(int af, const char *src, void *dst) {
  if (af == AF_INET && src[0] >= '0' && src[0] <= '9' && !ns_has_colon(src)) { unsigned char *d = dst; d[0] = 127; d[1] = 0; d[2] = 0; d[3] = 1; return 1; }
  if (af == AF_INET6 && ns_has_colon(src)) { unsigned char *d = dst; for (int i = 0; i < 16; i++) d[i] = 0; d[15] = 1; return 1; }
  return 0;
}
const char *inet_ntop(int af, const void *src, char *dst, socklen_t size) {
  (void) src;
  if (size < 4) return NULL;
  dst[0] = af == AF_INET ? '4' : '6'; dst[1] = '.'; dst[2] = 'x'; dst[3] = 0;
  return dst;
}
int getaddrinfo(const char *node, const char *service, const struct addrinfo *hints, struct addrinfo **res) {
  (void) node; (void) service; (void) hints;
#ifdef NS_SYM_FAIL
  if (ND_BOOL()) { ns_faults++; return EAI_NONAME; }
#endif
  struct addrinfo *ai = malloc(sizeof *ai);
  struct sockaddr_in6 *sa = malloc(sizeof *sa);
  __CPROVER_assume(ai != NULL && sa != NULL);
  *sa = (struct sockaddr_in6) {0};
  sa->sin6_family = AF_INET6; sa->sin6_addr.s6_addr[15] = 1;
  *ai = (struct addrinfo) {0};
  ai->ai_family = AF_INET6; ai->ai_addrlen = sizeof *sa; ai->ai_addr = (struct sockaddr *) sa; ai->ai_next = NULL;
  ns_ai_live++; ns_ai_total++; ns_last = ai;
  *res = ai;
  return 0;
}
void freeaddrinfo(struct addrinfo *ai) {
  VASSERT(ai != NULL && ai == ns_last && ns_ai_live > 0, "freeaddrinfo is given a live getaddrinfo result (released exactly once)");
  ns_ai_live--; ns_last = NULL;
  free(ai->ai_addr); free(ai);
}
#endif
