/* C18 / C20 (lock modules): constructors and destructors of PMutex (pmutex-posix.c), PCondVariable
 * (pcondvariable-posix.c), PRWLock (prwlock-general.c or prwlock-posix.c, chosen by the units linked) and the
 * mutex-based PSpinLock (pspinlock-sim.c) under
 *   C18: an allocation failure at a symbolic request index k (only that one / that one and all later ones),
 *   C20 (-DC20_MODE): additionally up to NFAULT symbolic failures of pthread_*_init.
 * Asserted: the constructor returns NULL when (and only when) something it needs failed - a half-built object is
 * never handed out; a returned object works (lock/unlock once) and its free restores every ledger (allocations,
 * initialised pthread mutexes / condition variables / rwlocks); no invalid memory access (CBMC pointer checks). */
#include "verif.h"
#include "alloc.h"
#include "thread_emul.h"
#include <pmem.h>
#include <pmutex.h>
#include <pcondvariable.h>
#include <prwlock.h>
#include <pspinlock.h>
#ifndef KMAX
#define KMAX 5
#endif
#ifndef NFAULT
#define NFAULT 2
#endif

void harness(void) {
  vm_alloc_install();
  int k = ND_RANGE(0, KMAX);
  vm_fail_at = k;
  vm_fail_from = ND_BOOL();
#ifdef C20_MODE
  te_faults_left = NFAULT;
#endif
#if (defined(KF_OPEN_C18_thread_rwlock_general_new) || defined(KF_OPEN_C20_thread_rwlock_general_new)) && defined(SCRIPT_RWLOCK) && defined(RWLOCK_GENERAL) && !defined(KF_DEMO)
  /* open finding: prwlock-general.c p_rwlock_new keeps using the block it has just freed when the mutex or a
   * condition variable cannot be created (requests 2..4 of the constructor / any pthread init); excluded class =
   * failures after the first allocation of p_rwlock_new */
  VASSUME(k == 0 || (k == 1));
  te_faults_left = 0;
#define NO_PTHREAD_FAULTS 1
#endif
  int failed_before, ok = 0;
#if defined(SCRIPT_MUTEX)
  PMutex *o = p_mutex_new();
  if (o != NULL) { ok = p_mutex_lock(o) && p_mutex_unlock(o) && p_mutex_trylock(o) && p_mutex_unlock(o); }
  failed_before = vm_failed + te_faults_taken;
  if (o != NULL) p_mutex_free(o);
#elif defined(SCRIPT_COND)
  PCondVariable *o = p_cond_variable_new();
  if (o != NULL) { ok = p_cond_variable_signal(o) && p_cond_variable_broadcast(o); }
  failed_before = vm_failed + te_faults_taken;
  if (o != NULL) p_cond_variable_free(o);
#elif defined(SCRIPT_RWLOCK)
  PRWLock *o = p_rwlock_new();
#ifdef KF_DEMO
  VKF(o == NULL || vm_failed + te_faults_taken == 0, "p_rwlock_new (general) returns an object although creating its mutex / condition variable failed");
  VWITNESS("end");
  if (vm_failed > 0) VWITNESS("allocation failure path");
  return;                                       /* the returned pointer is dangling: nothing more to do with it */
#else
  if (o != NULL) { ok = p_rwlock_reader_lock(o) && p_rwlock_reader_unlock(o) && p_rwlock_writer_lock(o) && p_rwlock_writer_unlock(o); }
  failed_before = vm_failed + te_faults_taken;
  if (o != NULL) p_rwlock_free(o);
#endif
#elif defined(SCRIPT_SPIN)
  PSpinLock *o = p_spinlock_new();
  if (o != NULL) { ok = p_spinlock_lock(o) && p_spinlock_unlock(o) && p_spinlock_trylock(o) && p_spinlock_unlock(o); }
  failed_before = vm_failed + te_faults_taken;
  if (o != NULL) p_spinlock_free(o);
#endif
#ifndef KF_DEMO
  VASSERT(o == NULL || failed_before == 0, "constructor returns NULL when an allocation or pthread init it needs failed");
  VASSERT(o != NULL || failed_before > 0, "constructor fails only when something failed");
  VASSERT(o == NULL || ok, "a constructed lock object works (lock / unlock)");
  VASSERT(vm_live == 0, "every block allocated by the constructor is released (by the failed constructor or by free)");
  VASSERT(te_mutex_live == 0 && te_cond_live == 0 && te_rwlock_live == 0, "every initialised pthread object is destroyed");
  VWITNESS("end");
  if (o != NULL) VWITNESS("constructed, used and freed");
  if (o == NULL && vm_failed > 0) VWITNESS("allocation failure path");
#if defined(C20_MODE) && !defined(NO_PTHREAD_FAULTS)
  if (o == NULL && te_faults_taken > 0) VWITNESS("pthread init failure path");
#endif
#endif
}
