/* C14 instance of the from-empty history harness */
#define CHK_OWN 1
#include "trees_hist.h"
