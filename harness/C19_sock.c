/* C19, socket part: EINTR transparency of the blocking socket calls.
 * Two identical fixtures (same symbolic kernel state, same symbolic arguments) in one model world; the
 * library call OP is made on fixture 1 with EINTR injected at a symbolic subset (<= FAULTS) of the
 * underlying poll / connect / accept / send / recv / sendto / recvfrom invocations, and on fixture 2
 * without any interruption.  Oracle: same return value, same data, same error (or none), same effect on
 * the kernel state; never an error whose native code is EINTR (a TIMED_OUT error is the timeout, its
 * native code is not looked at).
 * OP 1 receive  2 send  3 accept  4 connect  5 io_condition_wait  6 receive_from (datagram)  7 send_to (datagram) */
#include "C09_common.h"

#ifndef OP
#define OP 1
#endif

struct fix { int a, b; PSocket *S; };

static unsigned char payload[VS_CAP];
static struct sockaddr_storage dst[2];

static void mkfix(struct fix *f, int fam, int which, int fill, _Bool ready, const unsigned char *content) {
  f->b = -1;
#if OP == 1 || OP == 2 || OP == 5
  f->a = vs_mkfd(SOCK_STREAM, fam); f->b = vs_mkfd(SOCK_STREAM, fam); vs_pair(f->a, f->b);
  /* receive side: `fill` bytes queued for a; send side: peer queue filled so that VS_CAP - fill bytes fit */
  int q = (OP == 2) ? f->b : f->a;
  VFD(rx_len, q) = fill;
  for (int k = 0; k < VS_CAP; k++) VFD(rx, q)[k] = k < fill ? content[k] : 0;
  (void) ready; (void) which;
#elif OP == 3
  f->a = vs_mkfd(SOCK_STREAM, fam); vs_set_local(f->a, &dst[which], (int) sizeof(struct sockaddr_in6)); VFD(locallen, f->a) = fam == AF_INET ? 16 : 28;
  VFD(listening, f->a) = 1; VFD(backlog, f->a) = 5;
  vs_preconn(f->a);
  { int i = f->a - VS_FD0, e = vs.env_slot; for (int k = 0; k < VS_ALEN; k++) vfd_local[e][k] = vfd_local[i][k]; vfd_locallen[e] = vfd_locallen[i]; }
  if (ready) VFD(npend, f->a) = 1;
  (void) fill; (void) content;
#elif OP == 4
  f->b = vs_mkfd(SOCK_STREAM, fam); vs_set_local(f->b, &dst[which], fam == AF_INET ? 16 : 28);
  if (ready) { VFD(listening, f->b) = 1; VFD(backlog, f->b) = 5; }
  f->a = vs_mkfd(SOCK_STREAM, fam);
  (void) fill; (void) content;
#else
  f->a = vs_mkfd(SOCK_DGRAM, fam); vs_set_local(f->a, &dst[which], fam == AF_INET ? 16 : 28);
  if (OP == 6 && ready) {
    VFD(dq_n, f->a) = 1; vfd_dq_len[f->a - VS_FD0][0] = fill; vfd_dq_from[f->a - VS_FD0][0] = f->a - VS_FD0;
    for (int k = 0; k < VS_CAP; k++) vfd_dq_data[f->a - VS_FD0][0][k] = k < fill ? content[k] : 0;
  }
#endif
  f->S = p_socket_new_from_fd(f->a, NULL);
  VASSERT(f->S != NULL, "socket from descriptor");
}

struct out { long r; _Bool has_err; int code, nat; unsigned char buf[VS_CAP]; PSocket *X; PSocketAddress *from; };

static void call(struct fix *f, struct out *o, _Bool blocking, int T, int n, PSocketAddress *addr[2], int which) {
  PError *err = NULL;
  p_socket_set_blocking(f->S, nd_pbool(blocking)); p_socket_set_timeout(f->S, T);
  o->X = NULL; o->from = NULL;
  for (int k = 0; k < VS_CAP; k++) o->buf[k] = 0;
#if OP == 1
  o->r = p_socket_receive(f->S, (pchar *) o->buf, (psize) n, &err);
#elif OP == 2
  o->r = p_socket_send(f->S, (const pchar *) payload, (psize) n, &err);
#elif OP == 3
  o->X = p_socket_accept(f->S, &err); o->r = o->X ? 0 : -1;
#elif OP == 4
  o->r = p_socket_connect(f->S, addr[which], &err) ? 0 : -1;
#elif OP == 5
  o->r = p_socket_io_condition_wait(f->S, n > VS_CAP / 2 ? P_SOCKET_IO_CONDITION_POLLIN : P_SOCKET_IO_CONDITION_POLLOUT, &err) ? 0 : -1;
#elif OP == 6
  o->r = p_socket_receive_from(f->S, &o->from, (pchar *) o->buf, (psize) n, &err);
#else
  o->r = p_socket_send_to(f->S, addr[which], (const pchar *) payload, (psize) n, &err);
#endif
  (void) addr; (void) which; (void) n;
  o->has_err = err != NULL;
  o->code = err ? ERR_CODE(err) : 0; o->nat = err ? ERR_NATIVE(err) : 0;
  if (err) ERR_FREE(err);
}

void harness(void) {
  vm_alloc_install(); vs_reset();
  p_socket_init_once();
  int fam = ND_BOOL() ? AF_INET : AF_INET6;
  nd_native(fam, &dst[0]); nd_native(fam, &dst[1]);
  VASSUME(((struct sockaddr_in *) &dst[0])->sin_port != ((struct sockaddr_in *) &dst[1])->sin_port);
  PSocketAddress *addr[2];
  addr[0] = p_socket_address_new_from_native(&dst[0], sizeof dst[0]); addr[1] = p_socket_address_new_from_native(&dst[1], sizeof dst[1]);
  VASSERT(addr[0] && addr[1], "addresses");
  unsigned char content[VS_CAP];
  for (int k = 0; k < VS_CAP; k++) { content[k] = ND_UCHAR(); payload[k] = ND_UCHAR(); }
  int fill = ND_RANGE(0, VS_CAP);
  /* the property is about BLOCKING calls (io_condition_wait waits in either mode) */
  _Bool ready = ND_BOOL(), blocking = (OP == 5) ? ND_BOOL() : 1, imm = ND_BOOL();
  int T = ND_RANGE(0, 1000000), n = ND_RANGE(1, VS_CAP);
#if OP == 6
  VASSUME(fill >= 1);
#endif
  struct fix f1, f2;
  mkfix(&f1, fam, 0, fill, ready, content);
  mkfix(&f2, fam, 1, fill, ready, content);
#if OP == 4
  VFD(conn_immediate, f1.a) = imm; VFD(conn_immediate, f2.a) = imm;
  /* whether a pending handshake ever completes is a property of the scenario, the same in both runs */
  vs.handshake_mode = ND_RANGE(1, 2);
  VASSUME(!imm || vs.handshake_mode == 1);
#endif
  (void) imm;
  struct out o1, o2;
  vs_begin_call(FAULTS, VS_M_EINTR);
  call(&f1, &o1, blocking, T, n, addr, 0);
  int interrupts = vs.nfaults;
  vs_begin_call(0, 0);
  call(&f2, &o2, blocking, T, n, addr, 1);

  VASSERT(o1.r == o2.r, "interrupted call returns what the uninterrupted call returns");
  VASSERT(o1.has_err == o2.has_err && o1.code == o2.code, "same error (or none)");
  if (o1.has_err && o1.code != P_ERROR_IO_TIMED_OUT) VASSERT(o1.nat == o2.nat, "same native code");
  if (o1.has_err && (o1.code != P_ERROR_IO_TIMED_OUT)) VASSERT(o1.nat != EINTR, "never an interrupted-call error");
  VASSERT(same_bytes(o1.buf, o2.buf, VS_CAP), "same data delivered");
#if OP == 1 || OP == 2 || OP == 5
  VASSERT(VFD(rx_len, f1.a) == VFD(rx_len, f2.a) && VFD(rx_len, f1.b) == VFD(rx_len, f2.b) && VFD(tx_total, f1.a) == VFD(tx_total, f2.a) &&
          VFD(rx_total, f1.a) == VFD(rx_total, f2.a), "same effect on the kernel queues");
  { unsigned char t2[VS_ALEN]; for (int k = 0; k < VS_ALEN; k++) t2[k] = k < VS_CAP ? VFD(rx, f2.b)[k] : 0;
    VASSERT(same_row(VFD(rx, f1.b), t2, VS_CAP), "same bytes queued at the peer"); }
#elif OP == 3
  VASSERT((o1.X != NULL) == (o2.X != NULL) && VFD(npend, f1.a) == VFD(npend, f2.a), "same accept outcome");
  if (o1.X) { VASSERT(p_socket_is_connected(o1.X) && VFD(cloexec, p_socket_get_fd(o1.X)), "accepted socket usable"); p_socket_free(o1.X); }
  if (o2.X) p_socket_free(o2.X);
#elif OP == 4
  VASSERT(p_socket_is_connected(f1.S) == p_socket_is_connected(f2.S), "same connected state");
  if (blocking) VASSERT(VFD(connected, f1.a) == VFD(connected, f2.a), "same kernel connection state");
#elif OP == 6
  VASSERT(VFD(dq_n, f1.a) == VFD(dq_n, f2.a) && (o1.from != NULL) == (o2.from != NULL), "same datagram consumption");
  if (o1.from) p_socket_address_free(o1.from);
  if (o2.from) p_socket_address_free(o2.from);
#else
  VASSERT(VFD(tx_total, f1.a) == VFD(tx_total, f2.a), "same datagram sent");
#endif
  VASSERT(vs.bad_access == 0, "only open descriptors");
  p_socket_free(f1.S); p_socket_free(f2.S);
  p_socket_address_free(addr[0]); p_socket_address_free(addr[1]);
  VASSERT(vm_live == 0 && vs.bad_close == 0, "released");
  VWITNESS("end");
  if (interrupts == FAULTS && o1.r >= 0) VWITNESS("success despite the full number of interruptions");
#if OP != 7
  if (interrupts >= 1 && o1.has_err && o1.code == P_ERROR_IO_TIMED_OUT) VWITNESS("timed out with interruptions, like the uninterrupted call");
#endif
}
