/* C10 lifecycle: an arbitrary sequence of L calls on one socket S created by the real p_socket_new
 * (-DFAMILY, -DSTREAM fix family and type per query), checked after EVERY call against a reference state
 * machine written from psocket.h:
 *   closed    : FALSE until a successful p_socket_close, TRUE afterwards
 *   connected : TRUE after a successful connect / check_connect_result; FALSE after close and after a
 *               successful shutdown of both directions; unchanged by failing calls
 *   keepalive : last value set while the descriptor was open (the option lives on the descriptor)
 *   blocking  : last value set, TRUE initially          timeout: last value set, negative -> 0, 0 initially
 *   backlog   : 5 initially, last value set while not listening (a set while listening: old or new value)
 *   fd        : the descriptor from socket(), -1 after close
 * plus per call: success implies the kernel-level effect (bound to that address, listening with that backlog,
 * connected, shut down, option set), failure carries NOT_AVAILABLE when closed, TIMED_OUT only after
 * poll reported expiry on a waiting socket with a timeout, else the mapped errno of the failing system
 * call; after close no I/O call makes any system call; the descriptor is closed exactly once overall.
 * Environment: a remote listener at address RA (so connect can succeed), a remote client that connects
 * when S listens and waits in accept, peer data arriving while S waits in receive. */
#include "C09_common.h"

#ifndef L
#define L 3
#endif
#ifndef FAMILY
#define FAMILY AF_INET
#endif
#ifndef STREAM
#define STREAM 1
#endif

static struct { _Bool closed, connected, listening, keepalive, blocking; int timeout, backlog, fd; } R;
static PSocket *S;

static void check_getters(void) {
  VASSERT((p_socket_is_closed(S) != 0) == R.closed, "is_closed reflects the calls made");
  VASSERT((p_socket_is_connected(S) != 0) == R.connected, "is_connected reflects the calls made");
  VASSERT((p_socket_get_keepalive(S) != 0) == R.keepalive, "get_keepalive reflects the calls made (truth value)");
  VASSERT((p_socket_get_blocking(S) != 0) == R.blocking, "get_blocking reflects the calls made (truth value)");
  VASSERT(p_socket_get_timeout(S) == R.timeout, "get_timeout reflects the calls made");
  VASSERT(p_socket_get_listen_backlog(S) == R.backlog, "get_listen_backlog reflects the calls made");
  VASSERT(p_socket_get_fd(S) == (R.closed ? -1 : R.fd), "get_fd: the descriptor, -1 once closed");
  VASSERT(p_socket_get_family(S) == (PSocketFamily) FAMILY && p_socket_get_type(S) == (STREAM ? P_SOCKET_TYPE_STREAM : P_SOCKET_TYPE_DATAGRAM), "family / type constant");
}

static void check_failure(PError *err, int calls0, _Bool waits) {
  VASSERT(err != NULL, "failure sets an error");
  int code = ERR_CODE(err), nat = ERR_NATIVE(err);
  if (R.closed) {
    VASSERT(code == P_ERROR_IO_NOT_AVAILABLE, "I/O call on a closed socket: NOT_AVAILABLE");
    VASSERT(vs.ncalls == calls0, "I/O call on a closed socket makes no system call");
  } else if (code == P_ERROR_IO_TIMED_OUT && nat != ETIMEDOUT) {
    VASSERT(waits && R.timeout > 0 && vs.last_poll_zero, "TIMED_OUT: only a waiting call with a timeout, after poll reported expiry");
  } else {
    VASSERT(nat == vs.last_fail_errno && code == ref_io_code(nat), "error = mapped errno of the failing system call");
    VASSERT(nat != EINTR, "interrupted system calls are not reported");
    if (waits) VASSERT(code != P_ERROR_IO_WOULD_BLOCK, "a blocking call does not report would-block");
  }
  ERR_FREE(err);
}

void harness(void) {
  vm_alloc_install(); vs_reset();
  p_socket_init_once();
  struct sockaddr_storage ra, la;
  int len = nd_native(FAMILY, &ra);
  nd_native(FAMILY, &la);
  VASSUME(((struct sockaddr_in *) &ra)->sin_port != ((struct sockaddr_in *) &la)->sin_port);
  PSocketAddress *RA = p_socket_address_new_from_native(&ra, (psize) len), *LA = p_socket_address_new_from_native(&la, (psize) len);
  VASSERT(RA != NULL && LA != NULL, "addresses");
  PError *err = NULL;
  S = p_socket_new((PSocketFamily) FAMILY, STREAM ? P_SOCKET_TYPE_STREAM : P_SOCKET_TYPE_DATAGRAM, P_SOCKET_PROTOCOL_DEFAULT, &err);
  VASSERT(S != NULL && err == NULL, "socket created");
  const int fd = p_socket_get_fd(S);
  VASSERT(fd >= VS_FD0 && VFD(open, fd) && VFD(cloexec, fd) && VFD(nonblock, fd), "new descriptor: open, close-on-exec, non-blocking");
  R.blocking = 1; R.backlog = 5; R.fd = fd;
  check_getters();
  /* environment fixtures (concrete descriptor slots) */
  int rl = vs_mkfd(STREAM ? SOCK_STREAM : SOCK_DGRAM, FAMILY);
  vs_set_local(rl, &ra, len);
#if STREAM
  VFD(listening, rl) = 1;
  vs_preconn(fd);          /* remote client for the case that S becomes a listener */
#endif
  vs.env_mask = (1 << VS_ENV_DATA) | (1 << VS_ENV_CONN);
  vs.env_fd = fd;
  VFD(conn_immediate, fd) = ND_BOOL();
  unsigned char buf[VS_CAP];
  int seen = 0;
  _Bool accepted = 0, received = 0;

  for (int s = 0; s < L; s++) {
    int op = ND_RANGE(0, 12);
    int calls0 = vs.ncalls;
    err = NULL;
    vs_begin_call(FAULTS, VS_M_EINTR | VS_M_EAGAIN);
    vs.nb_call = !R.blocking;
    vs.env_kind = VS_ENV_NONE; vs.env_fired = 0;
    switch (op) {
    case 0: {   /* bind */
      _Bool reuse = ND_BOOL();
      pboolean ok = p_socket_bind(S, LA, nd_pbool(reuse), &err);
      if (ok) VASSERT(err == NULL && !R.closed && VFD(bound, fd) && VFD(reuse, fd) == reuse && same_row(VFD(local, fd), &la, len), "bind: bound to the given address, address reuse as requested");
      else check_failure(err, calls0, 0);
      break; }
    case 1: {   /* listen */
      pboolean ok = p_socket_listen(S, &err);
      if (ok) { VASSERT(err == NULL && !R.closed && VFD(listening, fd) && VFD(backlog, fd) == R.backlog, "listen: listening with the configured backlog"); R.listening = 1; }
      else check_failure(err, calls0, 0);
      break; }
    case 2: {   /* connect to the remote listener */
      pboolean ok = p_socket_connect(S, RA, &err);
      if (ok) { VASSERT(err == NULL && !R.closed && VFD(connected, fd), "connect: connected in the kernel"); R.connected = 1; }
      else check_failure(err, calls0, R.blocking);
      break; }
    case 3: {   /* check_connect_result */
      if (R.closed) break;      /* a query on a closed socket is outside the property */
      pboolean ok = p_socket_check_connect_result(S, &err);
      R.connected = ok;
      if (!ok) check_failure(err, calls0, 0); else VASSERT(err == NULL, "no error");
      break; }
    case 4: {   /* accept */
#if STREAM
      if (!accepted && ND_BOOL()) { vs.env_kind = VS_ENV_CONN; }   /* the prepared remote client connects once */
#endif
      PSocket *X = p_socket_accept(S, &err);
      if (X != NULL) {
        VASSERT(err == NULL && !R.closed && R.listening, "accept: only on an open listening socket");
        int xfd = p_socket_get_fd(X);
        VASSERT(xfd != fd && VFD(open, xfd) && VFD(cloexec, xfd) && VFD(nonblock, xfd), "accepted descriptor: open, close-on-exec, non-blocking");
        VASSERT(p_socket_is_connected(X) && !p_socket_is_closed(X) && p_socket_get_blocking(X) && p_socket_get_timeout(X) == 0 &&
                p_socket_get_listen_backlog(X) == 5 && (p_socket_get_keepalive(X) != 0) == VFD(keepalive, xfd) && VFD(keepalive, xfd) == VFD(keepalive, fd),
                "accepted socket: connected, open, default modes, keepalive getter = the descriptor's (inherited) option");
        p_socket_free(X);
        VASSERT(!VFD(open, xfd) && VFD(closes, xfd) == 1, "accepted descriptor closed once by free");
        accepted = 1;
      } else check_failure(err, calls0, R.blocking);
      break; }
    case 5: {   /* send */
      for (int k = 0; k < VS_CAP; k++) buf[k] = ND_UCHAR();
      long long tx0 = VFD(tx_total, fd);
      pssize r = p_socket_send(S, (const pchar *) buf, (psize) ND_RANGE(1, VS_CAP), &err);
      if (r >= 0) VASSERT(err == NULL && !R.closed && VFD(tx_total, fd) == tx0 + r, "send: the kernel took the reported bytes");
      else check_failure(err, calls0, R.blocking);
      break; }
    case 6: {   /* receive */
      if (ND_BOOL()) { vs.env_kind = VS_ENV_DATA; vs.env_len = ND_RANGE(1, VS_CAP); }
      long long rx0 = VFD(rx_total, fd);
      pssize r = p_socket_receive(S, (pchar *) buf, VS_CAP, &err);
      if (r >= 0) { VASSERT(err == NULL && !R.closed && VFD(rx_total, fd) == rx0 + r, "receive: the reported bytes were taken from the kernel"); received = 1; }
      else check_failure(err, calls0, R.blocking);
      break; }
    case 7: {   /* shutdown */
      _Bool rd = ND_BOOL(), wr = ND_BOOL();
      pboolean rdv = nd_pbool(rd), wrv = nd_pbool(wr);
      _Bool shut_rd0 = R.closed ? 0 : VFD(shut_rd, fd), shut_wr0 = R.closed ? 0 : VFD(shut_wr, fd);
#ifdef KF_OPEN_C10_shutdown_truthy_flags
      VASSUME((rdv == 0 || rdv == 1) && (wrv == 0 || wrv == 1));     /* known finding: flags compared with == TRUE */
#endif
      pboolean ok = p_socket_shutdown(S, rdv, wrv, &err);
      if (ok) {
        VASSERT(err == NULL && !R.closed, "shutdown: only on an open socket");
        if (rd || wr) VASSERT(VFD(shut_rd, fd) >= rd && VFD(shut_wr, fd) >= wr && (shut_rd0 || rd || !VFD(shut_rd, fd)) && (shut_wr0 || wr || !VFD(shut_wr, fd)), "shutdown: exactly the requested directions shut in the kernel");
        else VASSERT(vs.ncalls == calls0, "shutdown of nothing does nothing");
        if (rd && wr) R.connected = 0;
      } else check_failure(err, calls0, 0);
      break; }
    case 8: {   /* close */
      int nclose0 = vs.nclose;
      pboolean ok = p_socket_close(S, &err);
      VASSERT(ok && err == NULL, "close succeeds (also when already closed)");
      if (R.closed) VASSERT(vs.ncalls == calls0, "closing a closed socket makes no system call");
      else VASSERT(vs.nclose == nclose0 + 1 && !VFD(open, fd), "close releases the descriptor");
      R.closed = 1; R.connected = 0; R.listening = 0;
      break; }
    case 9: { _Bool b = ND_BOOL(); p_socket_set_blocking(S, nd_pbool(b)); R.blocking = b; break; }
    case 10: { int t = ND_INT(); p_socket_set_timeout(S, t); R.timeout = t < 0 ? 0 : t; break; }
    case 11: {
      _Bool k = ND_BOOL(); p_socket_set_keepalive(S, nd_pbool(k));
      if (!R.closed) { R.keepalive = k; VASSERT(VFD(keepalive, fd) == k, "keepalive option set on the descriptor"); }
      break; }
    default: {
      int n = ND_INT(); int old = R.backlog;
      p_socket_set_listen_backlog(S, n);
      if (!R.listening) R.backlog = n;
      else { int g = p_socket_get_listen_backlog(S); VASSERT(g == old || g == n, "backlog set while listening: old or new value"); R.backlog = g; }
      break; }
    }
    check_getters();
    seen |= 1 << op;
  }
  p_socket_free(S);
  VASSERT(!VFD(open, fd) && VFD(closes, fd) == 1 && vs.bad_close == 0, "descriptor closed exactly once over the whole life of the socket");
  p_socket_address_free(RA); p_socket_address_free(LA);
  VASSERT(vm_live == 0, "memory released");
  VWITNESS("end");
#if L >= 3
#if STREAM
  if (accepted) VWITNESS("bind/listen/accept sequence");
  if (seen == ((1 << 2) | (1 << 7) | (1 << 8)) && R.closed) VWITNESS("connect, shutdown, close");
#endif
  if (received) VWITNESS("received data");
  if (R.closed && (seen & (1 << 5))) VWITNESS("close and send in one sequence");
#endif
}
