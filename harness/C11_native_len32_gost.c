/* C11 native demonstration of finding C11_len32_gost: 31 bytes pending, then ONE update of exactly 2^32 bytes, vs 1 GiB chunks: DIFFERENT
 * (single e9e71d5e..., chunked 9efdfb58...); build as C11_native_len32.c; ~5 min. */
#include <plibsys.h>
#include <stdio.h>
#include <stdlib.h>
#include <string.h>
int main(void) {
  size_t n = ((size_t) 1 << 32), i;
  unsigned char *m = malloc(n); if (!m) return 2;
  p_libsys_init();
  for (i = 0; i < n; i += 4096) m[i] = (unsigned char) (i >> 12);
  PCryptoHash *a = p_crypto_hash_new(P_CRYPTO_HASH_TYPE_GOST), *b = p_crypto_hash_new(P_CRYPTO_HASH_TYPE_GOST);
  p_crypto_hash_update(a, (const puchar *) "0123456789012345678901234567890", 31);
  p_crypto_hash_update(b, (const puchar *) "0123456789012345678901234567890", 31);
  p_crypto_hash_update(a, m, n);
  for (i = 0; i < n; i += (size_t) 1 << 30) p_crypto_hash_update(b, m + i, (size_t) 1 << 30);
  char *sa = p_crypto_hash_get_string(a), *sb = p_crypto_hash_get_string(b);
  printf("gost single : %s\ngost chunked: %s\n%s\n", sa, sb, strcmp(sa, sb) ? "DIFFERENT" : "same");
  return 0;
}
