/* C17: native <-> PSocketAddress conversions, all inputs.
 * MODE_FROM : p_socket_address_new_from_native on an EXACT-SIZE heap object of symbolic length 0..sizeof(sockaddr_in6)+4 holding
 *             symbolic bytes (any family value, any port, address, flow info, scope id).  Any read beyond `len` is a CBMC bounds failure.
 *             Success <=> len covers the structure of the family found; all getters, classification and to_native(new_from_native(x)) == x.
 * MODE_TO   : p_socket_address_to_native into an EXACT-SIZE heap object of symbolic length 0..sizeof(sockaddr_in6)+4 from an address built by
 *             new_from_native / new_any / new_loopback (+ setters).  Success <=> destlen >= native size; on failure nothing is written; bytes
 *             beyond the native size are never written; new_from_native(to_native(a)) == a. */
#include "verif.h"
#include "alloc.h"
#include <string.h>
#include <stdlib.h>
#include <pmem.h>
#include <psocketaddress.h>

#define S4 ((int) sizeof(struct sockaddr_in))
#define S6 ((int) sizeof(struct sockaddr_in6))
#ifndef EXTRA
#define EXTRA 4
#endif
#define MAXLEN (S6 + EXTRA)

/* exact-size heap object of symbolic length: case split over constant-size mallocs */
static unsigned char *exact_buf(int len, const unsigned char *img) {
  unsigned char *b = NULL;
  for (int L = 0; L <= MAXLEN; L++)
    if (L == len) { b = (unsigned char *) malloc(L); VASSUME(b != NULL); for (int i = 0; i < L; i++) b[i] = img[i]; }
  return b;
}
static _Bool all_zero(const unsigned char *p, int from, int to) { _Bool z = 1; for (int i = from; i < to; i++) z = z && (p[i] == 0); return z; }

/* expected view of a native image (x86-64 Linux layout is the platform under test) */
struct view { int fam; unsigned port; unsigned flow, scope; const unsigned char *addr; int alen; int need; };
static struct view view_of(const unsigned char *img) {
  struct view v; unsigned short f; memcpy(&f, img, 2);
  v.fam = f; v.port = ((unsigned) img[2] << 8) | img[3];
  v.flow = v.scope = 0; v.addr = img + 4; v.alen = 4; v.need = 0;
  if (f == AF_INET) v.need = S4;
  if (f == AF_INET6) { v.need = S6; v.addr = img + 8; v.alen = 16; memcpy(&v.flow, img + 4, 4); memcpy(&v.scope, img + 24, 4); }
  return v;
}
static _Bool exp_any(const struct view *v) { return all_zero(v->addr, 0, v->alen); }
static _Bool exp_loop(const struct view *v) { return v->fam == AF_INET ? v->addr[0] == 127 : (all_zero(v->addr, 0, 15) && v->addr[15] == 1); }

static void check_getters(const PSocketAddress *a, const struct view *v) {
  VASSERT(p_socket_address_get_family(a) == (v->fam == AF_INET ? P_SOCKET_FAMILY_INET : P_SOCKET_FAMILY_INET6), "family = native family");
  VASSERT(p_socket_address_get_port(a) == v->port, "port = ntohs(native port)");
  VASSERT(p_socket_address_get_native_size(a) == (psize) v->need, "native_size = sizeof(native struct of the family)");
  VASSERT(p_socket_address_get_flow_info(a) == v->flow, "flow info = native sin6_flowinfo (0 for IPv4)");
  VASSERT(p_socket_address_get_scope_id(a) == v->scope, "scope id = native sin6_scope_id (0 for IPv4)");
  VASSERT((p_socket_address_is_any(a) != FALSE) == exp_any(v), "is_any <=> address is 0.0.0.0 / ::");
  VASSERT((p_socket_address_is_loopback(a) != FALSE) == exp_loop(v), "is_loopback <=> address in 127.0.0.0/8 / is ::1");
}
/* defined fields of out equal the image */
static void check_native_equal(const unsigned char *out, const unsigned char *img, const struct view *v) {
  if (v->fam == AF_INET) {
    for (int i = 0; i < 8; i++) VASSERT(out[i] == img[i], "to_native: family, port (network order) and IPv4 address reproduced");
    VASSERT(all_zero(out, 8, 16), "to_native: sin_zero cleared");
  } else {
    for (int i = 0; i < S6; i++) VASSERT(out[i] == img[i], "to_native: family, port, flow info, IPv6 address, scope id reproduced");
  }
}

void harness(void) {
  vm_alloc_install();
  unsigned char img[MAXLEN];
  for (int i = 0; i < MAXLEN; i++) img[i] = ND_UCHAR();
#if defined(MODE_FROM)
  int len = ND_RANGE(0, MAXLEN);
#ifdef KF_DEMO
  /* demonstration of the known finding: the same query WITHOUT the exclusion; the over-read is reported for len == 1 */
#elif defined(KF_OPEN_C17_from_native_len1)
  VASSUME(len != 1);   /* known finding: sa_family (2 bytes) is read from a 1-byte object */
#endif
  unsigned char *buf = exact_buf(len, img);
  PSocketAddress *a = p_socket_address_new_from_native(buf, (psize) len);
  struct view v = view_of(img);
  _Bool expect = len >= 2 && v.need != 0 && len >= v.need;
  VASSERT((a != NULL) == expect, "new_from_native succeeds <=> len >= sizeof(native struct of the family found)");
  VASSERT(p_socket_address_new_from_native(NULL, (psize) len) == NULL, "new_from_native(NULL) fails");
  if (a != NULL) {
    VASSERT(vm_live == 1, "new_from_native allocates exactly the address object");
    check_getters(a, &v);
    unsigned char *out = (unsigned char *) malloc(v.need);   /* exact size (two possible constants) */
    VASSUME(out != NULL);
    VASSERT(p_socket_address_to_native(a, out, (psize) v.need) == TRUE, "to_native succeeds with destlen == native size");
    check_native_equal(out, img, &v);
    if (v.fam == AF_INET) VWITNESS("IPv4 accepted"); else VWITNESS("IPv6 accepted");
    if (len == v.need) VWITNESS("exact length accepted");
    if (len > v.need) VWITNESS("longer length accepted");
    if (exp_loop(&v)) VWITNESS("loopback address");
    if (exp_any(&v)) VWITNESS("any address");
    p_socket_address_free(a);
  } else {
    if (len >= 2 && v.need != 0) VWITNESS("too short rejected");
    if (len >= 2 && v.need == 0) VWITNESS("unknown family rejected");
    if (len == 0) VWITNESS("length 0 rejected");
#ifdef KF_DEMO
    if (len == 1) VWITNESS("length 1");
#endif
  }
  VASSERT(vm_live == 0, "nothing stays allocated after free / after a failed conversion");
  VWITNESS("end");
#elif defined(MODE_TO)
  struct view v; PSocketAddress *a;
#ifdef SRC
  int src = SRC;           /* case split by the runner */
#else
  int src = ND_RANGE(0, 2);
#endif
  unsigned char built[MAXLEN];
  memset(built, 0, sizeof built);
  if (src == 0) {         /* from a full-size native image */
    unsigned short f = ND_BOOL() ? AF_INET : AF_INET6; memcpy(img, &f, 2);
    unsigned char *buf = exact_buf(f == AF_INET ? S4 : S6, img);
    a = p_socket_address_new_from_native(buf, f == AF_INET ? S4 : S6);
    memcpy(built, img, MAXLEN);
  } else {                /* from new_any / new_loopback + setters */
    _Bool v6 = ND_BOOL(); unsigned short f = v6 ? AF_INET6 : AF_INET; puint16 port = (puint16) ND_UINT();
    a = (src == 1) ? p_socket_address_new_any(v6 ? P_SOCKET_FAMILY_INET6 : P_SOCKET_FAMILY_INET, port)
                   : p_socket_address_new_loopback(v6 ? P_SOCKET_FAMILY_INET6 : P_SOCKET_FAMILY_INET, port);
    puint32 flow = ND_UINT(), scope = ND_UINT();
    if (ND_BOOL()) { p_socket_address_set_flow_info(a, flow); p_socket_address_set_scope_id(a, scope); } else flow = scope = 0;
    memcpy(built, &f, 2); built[2] = port >> 8; built[3] = port & 0xff;
    if (v6) { memcpy(built + 4, &flow, 4); memcpy(built + 24, &scope, 4); if (src == 2) built[8 + 15] = 1; }
    else if (src == 2) built[4] = 127;
    VASSERT(p_socket_address_new_any(P_SOCKET_FAMILY_UNKNOWN, port) == NULL && p_socket_address_new_loopback(P_SOCKET_FAMILY_UNKNOWN, port) == NULL,
            "new_any / new_loopback reject an unknown family");
  }
  VASSERT(a != NULL, "constructor succeeds");
  v = view_of(built);
  check_getters(a, &v);
  if (src == 1) VASSERT(p_socket_address_is_any(a) && !p_socket_address_is_loopback(a), "new_any is any, not loopback");
  if (src == 2) VASSERT(!p_socket_address_is_any(a) && p_socket_address_is_loopback(a), "new_loopback is loopback, not any");

  int destlen = ND_RANGE(0, MAXLEN);
  unsigned char pre[MAXLEN];
  for (int i = 0; i < MAXLEN; i++) pre[i] = ND_UCHAR();
  unsigned char *out = exact_buf(destlen, pre);
  pboolean r = p_socket_address_to_native(a, out, (psize) destlen);
  VASSERT((r != FALSE) == (destlen >= v.need), "to_native succeeds <=> destlen >= native size");
  VASSERT(r == TRUE || r == FALSE, "to_native returns a pboolean");
  VASSERT(p_socket_address_to_native(NULL, out, (psize) destlen) == FALSE && p_socket_address_to_native(a, NULL, (psize) destlen) == FALSE, "to_native rejects NULL");
  if (!r) {
    for (int i = 0; i < MAXLEN; i++) if (i < destlen) VASSERT(out[i] == pre[i], "failed to_native writes nothing");
    if (destlen > 0) VWITNESS("too small destination rejected"); else VWITNESS("destlen 0 rejected");
  } else {
    check_native_equal(out, built, &v);
    for (int i = 0; i < MAXLEN; i++) if (i >= v.need && i < destlen) VASSERT(out[i] == pre[i], "to_native writes nothing beyond the native structure");
    /* and back */
    PSocketAddress *b = p_socket_address_new_from_native(out, (psize) destlen);
    VASSERT(b != NULL, "new_from_native(to_native(a)) succeeds");
    check_getters(b, &v);
    unsigned char *out2 = (unsigned char *) malloc(v.need); VASSUME(out2 != NULL);
    VASSERT(p_socket_address_to_native(b, out2, (psize) v.need) == TRUE, "second to_native succeeds");
    check_native_equal(out2, built, &v);
    p_socket_address_free(b);
    if (v.fam == AF_INET) VWITNESS("IPv4 round trip"); else VWITNESS("IPv6 round trip");
    if (destlen > v.need) VWITNESS("larger destination");
  }
#if !defined(SRC) || SRC == 0
  if (src == 0) VWITNESS("from native image");
#endif
#if !defined(SRC) || SRC == 1
  if (src == 1) VWITNESS("from new_any");
#endif
#if !defined(SRC) || SRC == 2
  if (src == 2) VWITNESS("from new_loopback");
#endif
  p_socket_address_free(a);
  VASSERT(vm_live == 0, "nothing stays allocated");
  /* NULL handling of the getters */
  VASSERT(p_socket_address_get_family(NULL) == P_SOCKET_FAMILY_UNKNOWN && p_socket_address_get_port(NULL) == 0 && p_socket_address_get_native_size(NULL) == 0 &&
          p_socket_address_get_flow_info(NULL) == 0 && p_socket_address_get_scope_id(NULL) == 0 && !p_socket_address_is_any(NULL) && !p_socket_address_is_loopback(NULL),
          "getters on NULL return the documented defaults");
  VASSERT(p_socket_address_is_flow_info_supported() && p_socket_address_is_scope_id_supported() && p_socket_address_is_ipv6_supported(), "IPv6, flow info and scope id supported on this platform");
  VWITNESS("end");
#endif
}
