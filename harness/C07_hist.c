/* C07: symbolic history of PShm calls on one name by 2 emulated processes (one handle each) over the
 * kernel model: real pshm-posix.c + psemaphore-posix.c + psysclose-unix.c.
 *
 * Reference: r_exists / r_gen / r_size (size the creator asked for) / r_holder (process holding the
 * lock of the current generation, -1 = free).  A handle is CURRENT when the segment it was opened on
 * is still the one published under the name (no owner free in between); nothing is asserted about
 * superseded handles except that they do not disturb the current segment and lock. */
#include "verif.h"
#include "alloc.h"
#include "kernel_ipc.h"
#include <pmem.h>
#include <pshm.h>

#ifndef NOPS
#define NOPS 5
#endif
#define SHM_SLOT 2     /* key stub: "a_p_shm_object" -> "/C" */
#define SEM_SLOT 4     /* key stub: "/C_p_sem_object" -> "/E" */

static PShm *h[2];
static int h_live[2], h_gen[2], h_owner[2], h_locked[2], h_rw[2];
static unsigned long h_req[2];
static int r_exists, r_gen, r_holder = -1, gen_ctr;
static unsigned long r_size;
static int n_new, n_open_existing, n_lock, n_ownerfree, n_access2, n_nested, n_fresh_after_free;
static int outer_p = -1, outer_is_lock, n_ro_owner;

static int is_current(int p) { return h_live[p] && r_exists && h_gen[p] == r_gen; }

static void check_state(void) {
  int obj = vk_shm_linked(SHM_SLOT);
  VASSERT((obj >= 0) == (r_exists != 0), "segment name is linked iff the reference says the segment exists");
  if (!r_exists) VASSERT(vk_sem_linked(SEM_SLOT) < 0, "after an owner free the lock semaphore name is gone as well");
  if (r_exists && obj >= 0) {
    VASSERT((unsigned long) vk_shm_size(obj) == r_size, "segment published under the name has the size its creator asked for");
    int s = vk_sem_linked(SEM_SLOT);
    VASSERT(s >= 0, "lock semaphore of an existing segment exists");
    if (s >= 0) VASSERT(vk_sem_value(s) == (r_holder < 0 ? 1 : 0), "one lock per name: semaphore value mirrors the reference holder");
  }
}

static void op_new(int p) {
  unsigned long size = (unsigned long) ND_RANGE(0, VK_SEGMAX);
  int existed = r_exists;
  vk_cur = p;
  /* symbolic access permission: ownership, naming, sizes, lock and clean-up must not depend on it */
  int rw = ND_BOOL();
  PShm *s = p_shm_new("a", size, rw ? P_SHM_ACCESS_READWRITE : P_SHM_ACCESS_READONLY, NULL);
  if (!existed && size == 0) {
    /* a segment of length zero cannot be mapped: creation fails, nothing may be left behind */
    VASSERT(s == NULL, "creating a zero-sized segment fails");
    VASSERT(vk_shm_linked(SHM_SLOT) < 0, "failed creation leaves no name");
    VASSUME(s == NULL);
    return;
  }
  VASSERT(s != NULL, "p_shm_new succeeds");
  VASSUME(s != NULL);
  h[p] = s; h_live[p] = 1; h_rw[p] = rw; h_req[p] = size; h_locked[p] = 0; h_owner[p] = 0;
  if (!existed) {
    r_exists = 1; r_gen = ++gen_ctr; r_size = size; r_holder = -1; h_owner[p] = 1;
    VASSERT(p_shm_get_size(s) == size, "creator sees exactly the size it asked for");
    if (n_ownerfree > 0) n_fresh_after_free++;
  } else n_open_existing++;
  h_gen[p] = r_gen;
  n_new++;
  /* same name = same bytes; every byte below p_shm_get_size is accessible */
  unsigned char *a = (unsigned char *) p_shm_get_address(s);
  unsigned long gs = p_shm_get_size(s);
  VASSERT(a != NULL, "handle has an address");
  int obj = vk_shm_obj_at(a);
  VASSERT(obj >= 0 && obj == vk_shm_linked(SHM_SLOT), "handle maps the segment published under the name");
  VASSUME(obj >= 0);
  VASSERT(gs > 0, "reported size is positive");
  VASSERT(gs <= (unsigned long) vk_shm_size(obj), "every offset below p_shm_get_size lies inside the segment");
  VASSERT(gs <= (unsigned long) vk_map_len(p, a), "every offset below p_shm_get_size lies inside the mapping");
  if (rw) VASSERT(vk_map_writable(p, a), "a READWRITE handle is mapped writable");
  if (!existed) {
    unsigned long o = (unsigned long) ND_RANGE(0, VK_SEGMAX - 1);
    if (o < gs) VASSERT(a[o] == 0, "a fresh segment reads as zero");
  }
  int q = 1 - p;
  if (is_current(q) && h_req[q] == size)
    VASSERT(p_shm_get_size(h[q]) == gs, "handles created with the same size argument report the same size");
}

static void op_lock(int p) {
  vk_cur = p;
  vk_expect_noblock = is_current(p) && r_holder < 0;
  pboolean ok = p_shm_lock(h[p], NULL);
  vk_expect_noblock = 0;
  if (is_current(p)) {
    VASSERT(ok == TRUE, "lock on a current handle returns TRUE");
    VASSERT(r_holder < 0, "system-wide mutex: lock returned while another process holds the lock of this name");
    r_holder = p;
    n_lock++;
  }
  h_locked[p] = 1;
}

static void op_unlock(int p) {
  vk_cur = p;
  pboolean ok = p_shm_unlock(h[p], NULL);
  if (is_current(p) && r_holder == p) {
    VASSERT(ok == TRUE, "unlock by the holder returns TRUE");
    r_holder = -1;
  }
  h_locked[p] = 0;
}

void vk_other(void) {
#ifdef PREEMPT
  int p = vk_cur;                 /* the model has already switched to the other process */
  int op = ND_RANGE(0, 2);
  if (op == 0) {
    VASSUME(!h_live[p]);
#ifdef KF_OPEN_C07_first_open_race
    VASSUME(r_exists);            /* two interleaved FIRST opens: known finding, demonstrated by race_* */
#endif
    VASSUME(outer_is_lock || r_exists);   /* creator-vs-creator interleavings are the subject of C07_race.c */
    op_new(p);
  } else if (op == 1) {
    VASSUME(h_live[p] && !h_locked[p]);
    op_lock(p);
  } else {
    VASSUME(h_live[p] && h_locked[p]);
    op_unlock(p);
  }
  n_nested++;
  if (outer_p >= 0 && outer_is_lock) vk_expect_noblock = is_current(outer_p) && r_holder < 0;
#endif
}

void harness(void) {
  vm_alloc_install();
  for (int i = 0; i < NOPS; i++) {
    int op = ND_RANGE(0, 5);
    int p = ND_RANGE(0, 1);
    if (op == 0) {
      VASSUME(!h_live[p]);
#ifdef PREEMPT
      if (r_exists) { outer_p = p; outer_is_lock = 0; vk_preempt_on = 1; }
#endif
      op_new(p);
      vk_preempt_on = 0; outer_p = -1;
    } else if (op == 1) {
      VASSUME(h_live[p] && !h_locked[p]);
#ifdef PREEMPT
      outer_p = p; outer_is_lock = 1; vk_preempt_on = 1;
#endif
      op_lock(p);
      vk_preempt_on = 0; outer_p = -1;
    } else if (op == 2) {
      VASSUME(h_live[p] && h_locked[p]);
      op_unlock(p);
    } else if (op == 3) {
      /* store through one (READWRITE) handle, load through the other (any permission) */
      VASSUME(h_live[p] && h_rw[p]);
      unsigned long gs = p_shm_get_size(h[p]);
      unsigned long o = (unsigned long) ND_RANGE(0, VK_SEGMAX - 1);
      VASSUME(o < gs);
      unsigned char b = ND_UCHAR();
      unsigned char *a = (unsigned char *) p_shm_get_address(h[p]);
      a[o] = b;
      int q = 1 - p;
      if (is_current(p) && is_current(q) && o < p_shm_get_size(h[q])) {
        unsigned char *a2 = (unsigned char *) p_shm_get_address(h[q]);
        VASSERT(a2[o] == b, "byte stored through one handle is read back through the other at the same offset");
        n_access2++;
      }
    } else if (op == 4) {
      VASSUME(h_live[p]);
      vk_cur = p;
      p_shm_take_ownership(h[p]);
      h_owner[p] = 1;
    } else {
      VASSUME(h_live[p]);
      vk_cur = p;
      p_shm_free(h[p]);
      h_live[p] = 0;
      if (h_owner[p]) { r_exists = 0; n_ownerfree++; if (!h_rw[p]) n_ro_owner++; }
    }
    check_state();
  }
  VWITNESS("end of history");
  if (n_open_existing >= 1 && n_lock >= 1) VWITNESS("second handle opened and lock taken");
  if (n_access2 >= 1) VWITNESS("store/load across two handles");
  if (n_ownerfree >= 1 && n_ro_owner >= 1) VWITNESS("owner free through a READONLY handle");
  if (n_fresh_after_free >= 1) VWITNESS("fresh segment created after an owner free");
#ifdef PREEMPT
  if (n_nested >= 1) VWITNESS("nested call of the other process");
#endif
}
