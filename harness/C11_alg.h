/* C11: per-algorithm parameters shared by the wrapper unit (C11_wrap.c, which textually includes the REAL
 * algorithm source so that the real context layout is used) and the step harnesses.
 * Select with -DALG=<n>; variants with -DVARIANT (sha2: 1 = truncated 224/384 flavour; sha3: digest bits).
 *
 *   C11_BLOCK      block size in bytes handed to the compression function
 *   C11_W          bytes per word of the block/state arrays (4 or 8)
 *   C11_BE         1: words are big-endian images of the byte stream, 0: little-endian
 *   C11_STATE_W    number of state words
 *   C11_CNT_BITS   width of the total-length counter (0: none, SHA-3 keeps only the buffer fill)
 *   C11_CNT_UNIT   1: counter counts bytes, 8: counter counts bits
 *   C11_LF         bytes of the length field in the padding (0: none)
 *   C11_OUT        digest bytes of this variant
 *   C11_MON        link name of the (file-local, exported) compression function that the harness replaces
 */
#ifndef C11_ALG_H
#define C11_ALG_H
#include <stddef.h>
#include <stdint.h>

#define ALG_MD5 1
#define ALG_SHA1 2
#define ALG_SHA256 3
#define ALG_SHA512 4
#define ALG_SHA3 5
#define ALG_GOST 6
#ifndef VARIANT
#define VARIANT 0
#endif

#if ALG == ALG_MD5
# define C11_BLOCK 64
# define C11_W 4
# define C11_BE 0
# define C11_STATE_W 4
# define C11_CNT_BITS 64
# define C11_CNT_UNIT 1
# define C11_LF 8
# define C11_OUT 16
# define C11_MON __CPROVER_file_local_pcryptohash_md5_c_pp_crypto_hash_md5_process
#elif ALG == ALG_SHA1
# define C11_BLOCK 64
# define C11_W 4
# define C11_BE 1
# define C11_STATE_W 5
# define C11_CNT_BITS 64
# define C11_CNT_UNIT 1
# define C11_LF 8
# define C11_OUT 20
# define C11_MON __CPROVER_file_local_pcryptohash_sha1_c_pp_crypto_hash_sha1_process
#elif ALG == ALG_SHA256
# define C11_BLOCK 64
# define C11_W 4
# define C11_BE 1
# define C11_STATE_W 8
# define C11_CNT_BITS 64
# define C11_CNT_UNIT 1
# define C11_LF 8
# define C11_OUT (VARIANT ? 28 : 32)
# define C11_MON __CPROVER_file_local_pcryptohash_sha2_256_c_pp_crypto_hash_sha2_256_process
#elif ALG == ALG_SHA512
# define C11_BLOCK 128
# define C11_W 8
# define C11_BE 1
# define C11_STATE_W 8
# define C11_CNT_BITS 128
# define C11_CNT_UNIT 1
# define C11_LF 16
# define C11_OUT (VARIANT ? 48 : 64)
# define C11_MON __CPROVER_file_local_pcryptohash_sha2_512_c_pp_crypto_hash_sha2_512_process
#elif ALG == ALG_SHA3
# if VARIANT != 224 && VARIANT != 256 && VARIANT != 384 && VARIANT != 512
#  error "SHA-3 needs -DVARIANT=224|256|384|512"
# endif
# define C11_BLOCK ((1600 - 2 * VARIANT) / 8)   /* FIPS 202: rate = 1600 - 2*d bits */
# define C11_W 8
# define C11_BE 0
# define C11_STATE_W 25
# define C11_CNT_BITS 0
# define C11_CNT_UNIT 1
# define C11_LF 0
# define C11_OUT (VARIANT / 8)
# define C11_MON __CPROVER_file_local_pcryptohash_sha3_c_pp_crypto_hash_sha3_process
#elif ALG == ALG_GOST
# define C11_BLOCK 32
# define C11_W 4
# define C11_BE 0
# define C11_STATE_W 8
# define C11_CNT_BITS 256
# define C11_CNT_UNIT 8
# define C11_LF 0
# define C11_OUT 32
# define C11_MON __CPROVER_file_local_pcryptohash_gost3411_c_pp_crypto_hash_gost3411_process
# define C11_SUM256 __CPROVER_file_local_pcryptohash_gost3411_c_pp_crypto_hash_gost3411_sum_256
#else
# error "define ALG"
#endif

#if C11_W == 4
typedef uint32_t c11_word;
#else
typedef uint64_t c11_word;
#endif

/* 256-bit little-endian-limb integer used for every counter (only the low C11_CNT_BITS are meaningful) */
typedef struct { uint64_t l[4]; } c11_u256;

/* ---- accessors implemented in C11_wrap.c on the real struct ------------------------------------ */
void          *c11_ctx(void);                    /* the context object under test (static storage)   */
unsigned char *c11_buf(void);                    /* its pending-bytes buffer, C11_BLOCK bytes        */
unsigned char *c11_image_buf(void);              /* a second buffer of the same type: pre-state image, filled once */
void           c11_load_buf(void);               /* buffer := image (one whole-object assignment, cheap in SSA)  */
unsigned char  c11_buf_at(unsigned i);           /* read byte i of the buffer without a pointer dereference */
c11_word      *c11_state(void);                  /* its chaining state, C11_STATE_W words            */
void           c11_set_count(c11_u256 v);        /* raw counter in the algorithm's unit              */
c11_u256       c11_get_count(void);
void           c11_set_variant(void);            /* is224/is384 flag resp. SHA-3 block size          */
#if ALG == ALG_GOST
uint32_t      *c11_sum(void);                    /* GOST: 256-bit checksum, 8 words                  */
uint32_t      *c11_len(void);                    /* GOST: 256-bit bit counter, 8 words               */
#endif
void           c11_update(const unsigned char *d, size_t n);
void           c11_finish(void);
const unsigned char *c11_digest(void);
void           c11_reset(void);

/* byte j of the byte stream that a block of words represents */
static inline unsigned char c11_block_byte(const c11_word *d, unsigned j)
{
#if C11_BE
  return (unsigned char) (d[j / C11_W] >> (8 * (C11_W - 1 - j % C11_W)));
#else
  return (unsigned char) (d[j / C11_W] >> (8 * (j % C11_W)));
#endif
}

/* the word that represents C11_W consecutive stream bytes */
static inline c11_word c11_word_of(const unsigned char *p)
{
  c11_word w = 0; unsigned i;
#if C11_BE
  for (i = 0; i < C11_W; i++) w = (c11_word) (w << 8) | p[i];
#else
  for (i = 0; i < C11_W; i++) w |= (c11_word) p[i] << (8 * i);
#endif
  return w;
}

/* reference 256-bit addition (trusted, 4 x 64-bit limbs with explicit carries) */
static inline c11_u256 c11_add256(c11_u256 a, c11_u256 b)
{
  c11_u256 r; unsigned c = 0; int i;
  for (i = 0; i < 4; i++) {
    uint64_t s = a.l[i] + b.l[i];
    unsigned c1 = s < a.l[i];
    uint64_t t = s + c;
    unsigned c2 = t < s;
    r.l[i] = t; c = c1 | c2;
  }
  return r;
}
static inline c11_u256 c11_from_u64(uint64_t v) { c11_u256 r = {{v, 0, 0, 0}}; return r; }
/* equality on the low `bits` bits (bits in {64,128,256}) */
static inline int c11_eq_low(c11_u256 a, c11_u256 b, unsigned bits)
{
  int i, ok = 1;
  for (i = 0; i < (int) (bits / 64); i++) ok &= (a.l[i] == b.l[i]);
  return ok;
}
#endif
