/* C07: long names through the real p_shm_new name handling + real SHA-1 key (see C06_names.c) */
#define KIND 1
#include "C06_names.c"
