/* C01 sequential queries on the real code (single thread, no schedule involved):
 *  default      : trylock on a free, uncontended lock returns TRUE; a second trylock (lock now held) returns
 *                 FALSE and RETURNS (does not block: the witness behind it is reachable); unlock frees it;
 *                 lock on a free lock returns TRUE; NULL arguments give FALSE.
 *  -DRC_MAP     : (pmutex-posix.c only, -DVM_PT_FAULTS) return-code mapping: every symbolic non-zero result of
 *                 pthread_mutex_init/lock/trylock/unlock is reported as NULL / FALSE and the zero result as TRUE.
 */
#include "verif.h"
#if defined(LK_ATOMICS)
#define VMA_IMPL
#include "atomics_model.h"
#endif
#include <pthread.h>
#ifdef LK_PTHREAD
#include "pthread_model.h"
#endif
#include <pmem.h>
#include <pmutex.h>
#include <pspinlock.h>

#ifdef LK_MUTEX
typedef PMutex LK;
#define LK_NEW     p_mutex_new
#define LK_LOCK    p_mutex_lock
#define LK_TRYLOCK p_mutex_trylock
#define LK_UNLOCK  p_mutex_unlock
#define LK_FREE    p_mutex_free
#else
typedef PSpinLock LK;
#define LK_NEW     p_spinlock_new
#define LK_LOCK    p_spinlock_lock
#define LK_TRYLOCK p_spinlock_trylock
#define LK_UNLOCK  p_spinlock_unlock
#define LK_FREE    p_spinlock_free
#endif

#if defined(LK_ATOMICS) || defined(LK_ATOMICS_CA)
#define ST_ONLY_SPIN
#endif
#include "C01_store.h"

void harness(void) {
#ifndef RC_MAP
  LK *l = LK_NEW();
  VASSERT(l != NULL, "lock object created");
  int first = ND_RANGE(0, 1);
  if (first == 0) {
    VASSERT(LK_TRYLOCK(l) == TRUE, "trylock on a free, uncontended lock returns TRUE");
  } else {
    VASSERT(LK_LOCK(l) == TRUE, "lock on a free lock returns TRUE");
  }
#ifdef LK_PTHREAD
  VASSERT(vm_mutex_owner(0) == vm_self + 1, "platform mutex is owned by the caller after lock/trylock");
#endif
  VASSERT(LK_TRYLOCK(l) == FALSE, "trylock on a held lock returns FALSE");
  VWITNESS("trylock on a held lock returned (did not block)");
  VASSERT(LK_UNLOCK(l) == TRUE, "unlock returns TRUE");
#ifdef LK_PTHREAD
  VASSERT(vm_mutex_owner(0) == 0, "platform mutex is free after unlock");
#endif
  VASSERT(LK_TRYLOCK(l) == TRUE, "trylock after unlock returns TRUE (the lock was really released)");
  VASSERT(LK_UNLOCK(l) == TRUE, "unlock returns TRUE (2)");
  VASSERT(LK_LOCK(NULL) == FALSE && LK_TRYLOCK(NULL) == FALSE && LK_UNLOCK(NULL) == FALSE, "NULL lock => FALSE");
  LK_FREE(l);
  VASSERT(st_nfree == st_nalloc, "free releases what new allocated");
  VWITNESS("end");
#else
  /* return-code mapping of pmutex-posix.c */
  int code = ND_INT();
  VASSUME(code != 0);                 /* any error number the platform may report */
  vm_fault_code = code;
  int which = ND_RANGE(0, 4);
  if (which == 0) {                   /* init fails */
    vm_fault_armed = 1;
    PMutex *m = p_mutex_new();
    VASSERT(m == NULL, "pthread_mutex_init failure => p_mutex_new returns NULL");
    VASSERT(st_nfree == st_nalloc, "p_mutex_new releases the block on failure");
    VASSERT(vm_fault_hits == 1, "init was the failing call");
    VWITNESS("init failure");
  } else {
    PMutex *m = p_mutex_new();
    VASSERT(m != NULL && vm_mtx_index((pthread_mutex_t *) m) == 0, "p_mutex_new initialises the handle at offset 0 of PMutex");
    if (which == 1) {
      vm_fault_armed = 1;
      VASSERT(p_mutex_lock(m) == FALSE, "pthread_mutex_lock error => FALSE");
      VASSERT(vm_mutex_owner(0) == 0, "failed lock does not own the mutex");
      VWITNESS("lock failure");
    } else if (which == 2) {
      vm_fault_armed = 1;
      VASSERT(p_mutex_trylock(m) == FALSE, "pthread_mutex_trylock error (EBUSY or other) => FALSE");
      VWITNESS("trylock failure");
    } else if (which == 3) {
      VASSERT(p_mutex_lock(m) == TRUE, "pthread_mutex_lock 0 => TRUE");
      vm_fault_armed = 1;
      VASSERT(p_mutex_unlock(m) == FALSE, "pthread_mutex_unlock error => FALSE");
      VWITNESS("unlock failure");
    } else {
      VASSERT(p_mutex_trylock(m) == TRUE, "pthread_mutex_trylock 0 => TRUE");
      VASSERT(vm_mutex_owner(0) == vm_self + 1, "trylock TRUE => caller owns the platform mutex");
      VASSERT(p_mutex_trylock(m) == FALSE, "pthread_mutex_trylock EBUSY => FALSE");
      VASSERT(p_mutex_unlock(m) == TRUE, "pthread_mutex_unlock 0 => TRUE");
      VWITNESS("no failure");
    }
    VASSERT(vm_fault_armed == 0, "the armed call was made");
  }
  VWITNESS("end");
#endif
}
