/* C10 shutdown flags: p_socket_shutdown on a connected stream socket with its two pboolean arguments given
 * as ARBITRARY ints of symbolic truth value (pboolean is a plain int: every non-zero value is TRUE).
 * Oracle: exactly the requested directions are shut in the kernel (the peer sees end-of-stream iff the
 * write side was requested), is_connected turns FALSE iff both directions were requested, nothing
 * requested = no system call.
 * Known finding C10_shutdown_truthy_flags (open): psocket.c compares the flags with `== TRUE`, so a
 * truthy value other than 1 is taken for FALSE.  While the finding is open the main query restricts the
 * flags to {0, 1}; the demo query (-DKF_DEMO, kf=...) shows the failure with unrestricted flags. */
#include "C09_common.h"

#ifdef KF_DEMO
#define CHECK(c, msg) VKF(c, msg)
#else
#define CHECK(c, msg) VASSERT(c, msg)
#endif

void harness(void) {
  vm_alloc_install(); vs_reset();
  p_socket_init_once();
  int fam = ND_BOOL() ? AF_INET : AF_INET6;
  int a = vs_mkfd(SOCK_STREAM, fam), b = vs_mkfd(SOCK_STREAM, fam);
  vs_pair(a, b);
  PSocket *S = p_socket_new_from_fd(a, NULL);
  VASSERT(S != NULL && p_socket_is_connected(S), "connected socket");
  _Bool rd = ND_BOOL(), wr = ND_BOOL();
  pboolean rdv = nd_pbool(rd), wrv = nd_pbool(wr);
#if defined(KF_OPEN_C10_shutdown_truthy_flags) && !defined(KF_DEMO)
  VASSUME((rdv == 0 || rdv == 1) && (wrv == 0 || wrv == 1));
#endif
  PError *err = NULL;
  int calls0 = vs.ncalls;
  vs_begin_call(0, 0);
  pboolean ok = p_socket_shutdown(S, rdv, wrv, &err);
  VASSERT(ok && err == NULL, "shutdown of a connected socket succeeds");
  CHECK(VFD(shut_rd, a) == rd && VFD(shut_wr, a) == wr, "exactly the requested directions are shut (flags taken by truth value)");
  CHECK(VFD(peer_eof, b) == wr, "the peer sees end-of-stream iff the write side was shut");
  CHECK((p_socket_is_connected(S) != 0) == !(rd && wr), "is_connected turns FALSE iff both directions were shut");
  if (!rd && !wr) VASSERT(vs.ncalls == calls0, "nothing requested: no system call");
  VASSERT(!p_socket_is_closed(S) && vs.bad_access == 0, "still open");
  p_socket_free(S);
  VASSERT(vm_live == 0 && VFD(closes, a) == 1, "released");
  VWITNESS("end");
#if !defined(KF_OPEN_C10_shutdown_truthy_flags) || defined(KF_DEMO)
  if (rd && !wr && rdv != 1) VWITNESS("read side requested with a truthy value other than 1");
#endif
  if (rd && wr) VWITNESS("both directions");
}
