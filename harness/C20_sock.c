/* C20, socket part: the C18 socket scripts with, in addition to the failing allocation, up to SYSFAIL
 * failing system calls at symbolic points; the oracle there already includes the descriptor ledger
 * (nothing the library opened stays open, each descriptor closed at most once, never a close() on a
 * descriptor that is not open, a foreign descriptor is left to its owner when wrapping it fails). */
#ifndef SYSFAIL
#define SYSFAIL 2
#endif
#include "C18_sock.c"
