/* C11 frame condition "a call on one PCryptoHash object writes nothing but that object's own context (and the caller's
 * buffers)": per-object independence of the digests, e.g. two threads hashing with independent objects.
 *
 * A hidden channel between objects needs a static-storage object that the unit can write (a `static` scratch array or
 * context inside a function, a file-scope variable).  Function contracts cannot see this: both CBMC contract engines
 * (goto-instrument --dfcc and the legacy one) add the local statics of the checked function and its callees to the write set
 * automatically - probed: a `static W[80]` in pp_crypto_hash_sha2_512_process passes --enforce-contract with
 * __CPROVER_assigns(__CPROVER_object_whole(ctx)).  So the condition is decided on the COMPILED unit (goto-cc with the project's
 * flags, then goto-instrument --show-symbol-table / --show-goto-functions, both --json-ui; code in props/C11.py):
 *     no object with static lifetime that is not const-qualified is ever (a) the root of an assignment / call result or
 *     (b) has its address taken (array decay included) in any function of the unit.
 * This is a may-write audit of the GOTO program, NOT a solver decision; writes through pointers handed in by the caller are
 * the step queries' business (they check every access against the objects' bounds).  The runner-side result arrives here as
 * -DNSTATIC_WRITTEN=<count> -DSTATIC_WRITTEN_NAMES="<names>" so that the verdict, the replay file and the evidence go the usual way. */
#include "verif.h"
#ifndef STATIC_WRITTEN_NAMES
#define STATIC_WRITTEN_NAMES "?"
#endif
void harness(void)
{
#ifdef AUDIT_FAILED
  VASSUME(0);   /* the audit could not be performed: the witness below stays unreached => INCONCLUSIVE, never a pass */
#endif
  VASSERT(NSTATIC_WRITTEN == 0, "frame: the unit writes no static-storage object (a call touches only its own context); written or address-taken: " STATIC_WRITTEN_NAMES);
  VWITNESS("audit result evaluated");
}
