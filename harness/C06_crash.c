/* C06 crash recovery: process P (0) works on name "a" and is SIGKILLed before a symbolic one of its
 * IPC system calls (or while idle afterwards); process Q (1) then runs the documented clean-up
 *   s = p_semaphore_new(OPEN); p_semaphore_take_ownership(s); p_semaphore_free(s); p_semaphore_new(CREATE, v)
 * which must leave a fresh counter = v under the name.  Q may hold an older handle of the name. */
#include "verif.h"
#include "alloc.h"
#include "kernel_ipc.h"
#include <pmem.h>
#include <psemaphore.h>

#ifndef PCALLS
#define PCALLS 3
#endif
#ifndef VMAX
#define VMAX 3
#endif

void vk_other(void) {}

void harness(void) {
  vm_alloc_install();
  PSemaphore *q0 = NULL;
  int exists = 0;
  /* optional prologue: the name already exists (opened earlier by Q, which stays alive) */
  if (ND_BOOL()) {
    vk_cur = 1;
    q0 = p_semaphore_new("a", ND_RANGE(0, VMAX), P_SEM_ACCESS_OPEN, NULL);
    VASSERT(q0 != NULL, "prologue open succeeds");
    VASSUME(q0 != NULL);
    exists = 1;
  }
  /* P's activity, cut by the crash switch */
  vk_cur = 0;
  int crash = ND_RANGE(0, 12);
  vk_crash_at[0] = crash;
  PSemaphore *p[2] = { NULL, NULL };
  int val_known = 0;
  for (int i = 0; i < PCALLS; i++) {
    int op = ND_RANGE(0, 4);
    int k = ND_RANGE(0, 1);
    if (op == 0) {
      VASSUME(p[k] == NULL);
      int mode = ND_RANGE(0, 1);
#ifdef KF_OPEN_C06_create_existing
      VASSUME(!(mode == P_SEM_ACCESS_CREATE && exists));
#endif
      p[k] = p_semaphore_new("a", ND_RANGE(0, VMAX), (PSemaphoreAccessMode) mode, NULL);
      if (!vk_dead[0]) { VASSERT(p[k] != NULL, "P: new succeeds while alive"); VASSUME(p[k] != NULL); exists = 1; }
      else VASSUME(p[k] == NULL || 1);
    } else if (op == 1) {
      VASSUME(p[k] != NULL && !vk_dead[0]);
      (void) p_semaphore_acquire(p[k], NULL);     /* may block: path ends in the model */
    } else if (op == 2) {
      VASSUME(p[k] != NULL && !vk_dead[0]);
      (void) p_semaphore_release(p[k], NULL);
    } else if (op == 3) {
      VASSUME(p[k] != NULL);
      p_semaphore_take_ownership(p[k]);
    } else {
      VASSUME(p[k] != NULL);
      p_semaphore_free(p[k]);
      p[k] = NULL;
      if (!vk_dead[0]) exists = (vk_sem_linked(0) >= 0);
    }
  }
  (void) val_known;
  int crashed_inside = vk_dead[0];
  vk_kill(0);                                   /* at the latest now: killed while idle, handles open */
  VASSERT(vk_sem_handles(0) == 0, "kernel model: handles of the dead process are closed");

  /* Q's documented recovery */
  vk_no_rescuer = (q0 == NULL);  /* unless Q itself holds an older handle, nobody is left who could post */
  vk_cur = 1;
  int w = ND_RANGE(0, VMAX), v = ND_RANGE(0, VMAX);
  PSemaphore *s = p_semaphore_new("a", w, P_SEM_ACCESS_OPEN, NULL);
  VASSERT(s != NULL, "recovery: p_semaphore_new(OPEN) succeeds on whatever the dead process left");
  VASSUME(s != NULL);
  p_semaphore_take_ownership(s);
  p_semaphore_free(s);
  VASSERT(vk_sem_linked(0) < 0, "recovery: owner free removed the name from the system");
  PSemaphore *c = p_semaphore_new("a", v, P_SEM_ACCESS_CREATE, NULL);
  vk_no_rescuer = 0;
  VASSERT(c != NULL, "recovery: p_semaphore_new(CREATE) succeeds");
  VASSUME(c != NULL);
  int obj = vk_sem_linked(0);
  VASSERT(obj >= 0, "recovery: name exists again");
  VASSERT(vk_sem_value(obj) == v, "recovery: fresh counter has exactly the given value");
  /* the handle really is on that counter: take one unit through it */
  if (v > 0) {
    vk_expect_noblock = 1;
    pboolean ok = p_semaphore_acquire(c, NULL);
    vk_expect_noblock = 0;
    VASSERT(ok == TRUE && vk_sem_value(obj) == v - 1, "recovery: acquire through the new handle consumes a unit of the fresh counter");
  }
  /* a later opener joins the same counter, its init value is ignored */
  vk_cur = 0; vk_dead[0] = 0; vk_crash_at[0] = 0;     /* a new process in P's place */
  PSemaphore *l = p_semaphore_new("a", w, P_SEM_ACCESS_OPEN, NULL);
  VASSERT(l != NULL, "later open succeeds");
  VASSUME(l != NULL);
  VASSERT(vk_sem_linked(0) == obj && vk_sem_value(obj) == (v > 0 ? v - 1 : 0), "later open sees the recovered counter");
  p_semaphore_release(l, NULL);
  VASSERT(vk_sem_value(obj) == (v > 0 ? v : 1), "release through the later handle adds to the same counter");
  VWITNESS("recovery completed");
  if (crashed_inside) VWITNESS("crash switch fired inside P's calls");
  if (crashed_inside && q0 != NULL) VWITNESS("crash with the name pre-existing");
  if (!crashed_inside) VWITNESS("P killed while idle");
}
