/* C11 (a) RESET step of the real <alg>_reset: from an ARBITRARY context state (counter, chaining state, checksum, buffer all
 * symbolic) reset yields counter == 0 and a chaining state (GOST: and checksum) that does not depend on the prior state, so a
 * reset hash behaves like a freshly created one (whose constants the kat_* vectors validate: the kat harness reuses one object
 * through p_crypto_hash_reset, which pins the constant itself).  Stale buffer bytes are not constrained (they are never read). */
#include "verif.h"
#include "C11_alg.h"
void harness(void)
{
  c11_word S1[C11_STATE_W]; unsigned i, r; int ok = 1;
#if ALG == ALG_GOST
  uint32_t M1[8];
#endif
  c11_set_variant();
  for (r = 0; r < 2; r++) {
    c11_u256 L;
    for (i = 0; i < 4; i++) L.l[i] = ND_ULL();
#if ALG == ALG_SHA3
    L.l[0] %= C11_BLOCK;
#endif
    c11_set_count(L);
    for (i = 0; i < C11_BLOCK; i++) c11_image_buf()[i] = ND_UCHAR();
    c11_load_buf();
    for (i = 0; i < C11_STATE_W; i++) c11_state()[i] = (c11_word) ND_ULL();
#if ALG == ALG_GOST
    for (i = 0; i < 8; i++) c11_sum()[i] = ND_UINT();
#endif
    c11_reset();
    {
      c11_u256 z = c11_get_count();
      VASSERT(z.l[0] == 0 && z.l[1] == 0 && z.l[2] == 0 && z.l[3] == 0, "reset: length counter / buffer fill == 0");
    }
    for (i = 0; i < C11_STATE_W; i++) { if (r == 0) S1[i] = c11_state()[i]; else ok &= (c11_state()[i] == S1[i]); }
#if ALG == ALG_GOST
    for (i = 0; i < 8; i++) { if (r == 0) M1[i] = c11_sum()[i]; else ok &= (c11_sum()[i] == M1[i]); }
#endif
  }
  VASSERT(ok, "reset: chaining state (and checksum) independent of the state before the reset");
  VWITNESS("reset twice from arbitrary states");
}
