/* C01 loop-abstraction query for the spin loop of p_spinlock_lock (pspinlock-c11.c / pspinlock-sync.c).
 *
 * The thread queries cut the spin loop after 3 iterations, so anything that needs MANY consecutive failed attempts (e.g. a
 * stall detector firing after 2^28 spins) is out of their reach.  Here the unit object is instrumented with
 * `goto-instrument --havoc-loops` before linking: at the loop head every object the loop writes - the lock word itself, the
 * expected-value temporary, any counter, the ghost records - is set to an ARBITRARY value, then ONE iteration runs.  That is
 * an over-approximation of "the state after any number of iterations, with any interference by other threads": sound for
 * safety, nothing is claimed about termination.
 * The builtin models (models/conc_atomics.h, -DCA_RMW_GHOST) record for every redirected read-modify-write whether it
 * succeeded and which old value the last successful one observed.  Decided:
 *     p_spinlock_lock returns (TRUE) only if, in that last iteration, an atomic RMW observed the lock word FREE (0) and set it
 *     to HELD (non-zero) - never when the word was held by somebody else.
 * Artefact of --havoc-loops handled here: it redirects the loop's back edge to the loop exit, so "the last attempt failed and
 * the loop would go round again" also reaches the code behind the loop; those paths are discarded (VASSUME last attempt
 * succeeded).  An exit taken although the last attempt failed (inverted loop condition) is therefore NOT this query's
 * subject - the thread queries and nested_first_lock_* decide that.
 */
#include "verif.h"
#define CA_IMPL
#include "conc_atomics.h"
#define ST_ONLY_SPIN
#include <pmem.h>
#include <pspinlock.h>
#include "C01_store.h"

void harness(void) {
  PSpinLock *s = p_spinlock_new();
  VASSERT(s != NULL && s == (PSpinLock *) &st_spin, "lock object created (typed harness storage in use)");
  /* the lock word in any state (free, held by somebody else, ...): --havoc-loops havocs it through the model's local pointer,
   * which is not yet bound at the first loop-head visit, so the arbitrary state is established here */
  st_spin.spin = (pint) ND_INT();
  pint word0 = st_spin.spin;
  pboolean r = p_spinlock_lock(s);
  /* reached = the call returned */
  VASSUME(ca_rmw_last_ok);    /* discard the redirected back edge (see above) */
  VASSERT(r == TRUE, "lock returns TRUE");
  VASSERT(ca_rmw_succ_old == 0, "lock returns only after an atomic read-modify-write that observed the lock word FREE (never while somebody else holds it)");
  VASSERT(ca_rmw_succ_new != 0 && st_spin.spin == (pint) ca_rmw_succ_new, "that operation set the lock word to HELD");
  VASSERT(word0 == 0, "the word was free when the returning iteration started (one iteration, no interference inside it)");
  VWITNESS("lock returned after a successful acquisition from an arbitrary loop state");
}
