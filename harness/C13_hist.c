/* C13 instance of the from-empty history harness */
#define CHK_BAL 1
#include "trees_hist.h"
