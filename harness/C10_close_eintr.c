/* C10 close with an INTERRUPTED close(): at most once per library call the kernel releases the descriptor
 * and reports -1/EINTR (Linux semantics of close() under a signal).  Script: p_socket_new ; a symbolic number
 * (0..2) of p_socket_close calls ; p_socket_free.
 * Oracle (what psocket.h documents, nothing more): p_socket_close returns TRUE, or FALSE with an error; after a
 * TRUE the socket is closed (is_closed, fd -1) and every further close is TRUE without a system call; and -
 * decided inside the kernel model at the moment it happens - NO close() is ever made on a descriptor number
 * that is not open (the descriptor is closed exactly once; a second close() could hit a descriptor another
 * thread has just obtained).
 * Known finding C10_close_eintr_reclose (open): a p_socket_close that failed with EINTR leaves the socket
 * "not closed" with its old descriptor number, so the next p_socket_close / p_socket_free closes the number
 * again.  While it is open the main query interrupts only the close() made by p_socket_free; the demo
 * query (-DKF_DEMO) interrupts any. */
#include "C09_common.h"

#ifndef FAMILY
#define FAMILY AF_INET
#endif
#ifndef STREAM
#define STREAM 1
#endif

void harness(void) {
  vm_alloc_install(); vs_reset();
  p_socket_init_once();
  PError *err = NULL;
  PSocket *S = p_socket_new((PSocketFamily) FAMILY, STREAM ? P_SOCKET_TYPE_STREAM : P_SOCKET_TYPE_DATAGRAM, P_SOCKET_PROTOCOL_DEFAULT, &err);
  VASSERT(S != NULL && err == NULL, "socket created");
  const int fd = p_socket_get_fd(S);
  int nclose = ND_RANGE(0, 2);
  _Bool closed = 0;
  for (int c = 0; c < 2; c++) {
    if (c >= nclose) break;
    int calls0 = vs.ncalls;
    vs_begin_call(0, 0);
#if !defined(KF_OPEN_C10_close_eintr_reclose) || defined(KF_DEMO)
    vs.close_eintr_budget = 1;
#endif
    pboolean ok = p_socket_close(S, &err);
    if (ok) {
      VASSERT(err == NULL && p_socket_is_closed(S) && !p_socket_is_connected(S) && p_socket_get_fd(S) == -1, "after a successful close: closed, fd -1");
      if (closed) VASSERT(vs.ncalls == calls0, "closing a closed socket makes no system call");
      closed = 1;
    } else {
      VASSERT(err != NULL && vs.nclose_eintr > 0 && !closed, "p_socket_close fails only when close() reported a failure, with an error object");
      ERR_FREE(err); err = NULL;
    }
    VASSERT(!VFD(open, fd) && VFD(closes, fd) == 1, "the descriptor was released by exactly one close()");
  }
  vs_begin_call(0, 0);
  vs.close_eintr_budget = 1;       /* the close() made by p_socket_free may be interrupted as well */
  p_socket_free(S);
  VASSERT(!VFD(open, fd) && VFD(closes, fd) == 1 && vs.bad_close == 0, "descriptor closed exactly once over the life of the socket");
  VASSERT(vm_live == 0, "memory released");
  VWITNESS("end");
  if (vs.nclose_eintr > 0 && nclose == 0) VWITNESS("the close() of p_socket_free was interrupted");
#if !defined(KF_OPEN_C10_close_eintr_reclose) || defined(KF_DEMO)
  if (vs.nclose_eintr > 0 && nclose > 0 && !closed) VWITNESS("p_socket_close was interrupted");
#endif
}
