/* C12/C13/C14 shared vocabulary for the PTree harnesses (trees_step.h: inductive step, trees_hist.h:
 * from-empty API histories).  The includer defines NK (largest key rank), PH (bound on the height of
 * the checked tree), IDMAX (storable identities 1..IDMAX), NPHASE (number of notifier-accounting
 * phases) first.  The real ptree*.c files are #included so that the private node structs and the
 * PTree struct are the real ones (resolved through -I<repo>/src, i.e. also in a mutant worktree).
 *
 * Keys and values are TOKENS, not objects: key = rank<<8 | id, value = 0x10000 | rank<<8 | id, cast to
 * ppointer.  The comparator orders by rank only, so two keys of equal rank and different id are
 * "equal keys, different objects" (replace).  Tokens are integer addresses: any dereference, write
 * or free of a user key/value by the library is reported by CBMC's pointer checks. */
#ifndef TREES_COMMON_H
#define TREES_COMMON_H
#include "verif.h"
#include <stdlib.h>
#include <pmem.h>
#include "ptree.c"
#include "ptree-bst.c"
#include "ptree-rb.c"
#include "ptree-avl.c"

#ifndef TT
#define TT 1
#endif
#ifndef NEWMODE
#define NEWMODE 2
#endif
#if TT == 0
typedef PTreeBaseNode NODE;
#define TREETYPE P_TREE_TYPE_BINARY
#elif TT == 1
typedef PTreeRBNode NODE;
#define TREETYPE P_TREE_TYPE_RB
#else
typedef PTreeAVLNode NODE;
#define TREETYPE P_TREE_TYPE_AVL
#endif
#define B(x) ((PTreeBaseNode *) (x))

/* The NULL pointer is a legal user key and a legal user value (ptree.h puts no restriction; the library's own tests use
 * PINT_TO_POINTER(0)).  The harness may declare ONE key token (zk_rank, zk_id) and ONE value token (zv_rank, zv_id) to be
 * represented by NULL (0 = none); the comparator still orders by rank.  Set first thing in harness(). */
static int zk_rank, zk_id, zv_rank, zv_id;
#define KEY(rank, id) (((rank) == zk_rank && (id) == zk_id) ? (ppointer) NULL : (ppointer) (size_t) (((rank) << 8) | (id)))
#define VAL(rank, id) (((rank) == zv_rank && (id) == zv_id) ? (ppointer) NULL : (ppointer) (size_t) (0x10000 | ((rank) << 8) | (id)))
#define RANK(p) ((p) == NULL ? zk_rank : (int) ((((size_t) (p)) >> 8) & 0xff))     /* of a key */
#define ID(p) ((p) == NULL ? zk_id : (int) (((size_t) (p)) & 0xff))
#define VRANK(p) ((p) == NULL ? zv_rank : (int) ((((size_t) (p)) >> 8) & 0xff))    /* of a value */
#define VID(p) ((p) == NULL ? zv_id : (int) (((size_t) (p)) & 0xff))
#define ISVAL(p) ((int) ((((size_t) (p)) >> 16) & 1))
#define ID_PROBE (IDMAX + 1) /* identity of keys only used for searching (remove / lookup argument), never stored */

/* ---- allocator installed through the public p_mem_set_vtable(): outstanding-block ledger; blocks of the
 * two sizes the tree code asks for are allocated as TYPED objects (CBMC then keeps struct fields
 * as separate symbols instead of a byte array); any other size is a harness error ---------------- */
static int vm_live;
static int fail_node_alloc;    /* nonzero: requests for a node fail (p_malloc0 returns NULL) */
static int failed_allocs;
static ppointer tm_malloc(psize n) {
  void *p;
  if (fail_node_alloc && n == sizeof(NODE)) { failed_allocs++; return NULL; }
  if (n == sizeof(NODE)) p = malloc(sizeof(NODE));
  else if (n == sizeof(PTree)) p = malloc(sizeof(PTree));
  else { VASSERT(0, "harness: tree code allocates only nodes of its own type and the tree object"); p = malloc(n); }
  __CPROVER_assume(p != NULL);
  vm_live++;
  return p;
}
static ppointer tm_realloc(ppointer p, psize n) { (void) p; (void) n; VASSERT(0, "tree code never reallocates"); return NULL; }
static void tm_free(ppointer p) {
  VASSERT(p != NULL, "allocator: free(NULL) never reaches the table");
  vm_live--;
  free(p);   /* CBMC checks double free / foreign free here */
}
static void vm_alloc_install(void) {
  PMemVTable t;
  t.f_malloc = tm_malloc; t.f_realloc = tm_realloc; t.f_free = tm_free;
  p_mem_set_vtable(&t);
}

#define UDATA ((ppointer) (size_t) 0x7001)
#define UDATA2 ((ppointer) (size_t) 0x7002)

/* ---- comparator: total order on ranks, arbitrary magnitude, counts calls ---------------------- */
static int cmp_calls, cmp_mag = 1, cmp_neg = 1;   /* comparator returns -cmp_neg / 0 / +cmp_mag: only the sign may matter */
static int phase;                          /* which API call of the harness is running (index into kd/vd) */
static unsigned char kd[NPHASE][NK + 1][IDMAX + 2], vd[NPHASE][NK + 1][IDMAX + 2];   /* destroy-notifier call counts [phase][rank][id] */
static int nd_calls;
/* notifier configuration (NEWMODE 2: both, 3: key notifier only, 4: value notifier only, 5: symbolic choice; 0/1: none) */
static _Bool has_kn, has_vn;

static pint cmp3(pconstpointer a, pconstpointer b, ppointer data) {
  cmp_calls++;
#if NEWMODE == 0
  VASSERT(data == NULL, "p_tree_new: comparator data is NULL");
#else
  VASSERT(data == UDATA, "comparator receives the user data given at creation");
#endif
  int ra = RANK(a), rb = RANK(b);
#ifdef CHK_OWN
  VASSERT(ra >= 1 && ra <= NK && rb >= 1 && rb <= NK && ID(a) >= 1 && ID(a) <= ID_PROBE && ID(b) >= 1 && ID(b) <= ID_PROBE, "comparator only sees keys given by the user");
  { int ph_; for (ph_ = 0; ph_ < NPHASE; ph_++) VASSERT(kd[ph_][ra][ID(a)] == 0 && kd[ph_][rb][ID(b)] == 0, "no key is compared after its destroy notifier ran"); }
#endif
  return ra < rb ? -cmp_neg : (ra > rb ? cmp_mag : 0);
}

/* ---- destroy notifiers -------------------------------------------------------------------------- */
static void key_destroyed(ppointer k) {
  VASSERT(has_kn, "key notifier only called when one was given");
  VASSERT((k == NULL || !ISVAL(k)) && RANK(k) >= 1 && RANK(k) <= NK && ID(k) >= 1 && ID(k) <= IDMAX, "key notifier gets a key that was given to the tree");
  kd[phase][RANK(k)][ID(k)]++;
  nd_calls++;
}
static void val_destroyed(ppointer v) {
  VASSERT(has_vn, "value notifier only called when one was given");
  VASSERT((v == NULL || ISVAL(v)) && VRANK(v) >= 1 && VRANK(v) <= NK && VID(v) >= 1 && VID(v) <= IDMAX, "value notifier gets a value that was given to the tree");
  vd[phase][VRANK(v)][VID(v)]++;
  nd_calls++;
}

/* reference map, indexed by key rank */
static _Bool exp_pres[NK + 2];
static ppointer exp_key[NK + 2], exp_val[NK + 2];
static int exp_n;

static PTree *tree;

/* ---- generic post-state checker (follows pointers from the root; knows nothing about the skeleton) */
static int g_cnt;
#if TT == 1
#define IS_RED(x) (((NODE *) (x))->color == P_TREE_RB_COLOR_RED)
#else
#define IS_RED(x) 0
#endif
/* returns height | black-height << 8 */
static int chk_end(PTreeBaseNode *x) {
  VASSERT(x == NULL, "post-state height within the bound of the scenario (H+1 after a step, #inserts in a history)");
  return 0;
}
#define CHKBODY(NEXT) \
  if (x == NULL) return 0; \
  int r = RANK(x->key); \
  VASSERT(lo < r && r < hi, "BST order: every key strictly inside the bounds given by its ancestors"); \
  VASSERT(r <= NK && exp_pres[r], "stored key belongs to the reference map"); \
  VASSERT(x->key == exp_key[r], "stored key object = reference (replace stores the new key)"); \
  VASSERT(x->value == exp_val[r], "stored value = reference"); \
  g_cnt++; \
  CHK_TYPED \
  int a = NEXT(x->left, x, lo, r, IS_RED(x)); int b = NEXT(x->right, x, r, hi, IS_RED(x)); \
  int hl = a & 0xff, hr = b & 0xff; \
  CHK_BAL_TYPED \
  return (1 + (hl > hr ? hl : hr)) | ((BLACKS) << 8);

#if TT == 0
#define CHK_TYPED
#define CHK_BAL_TYPED
#define BLACKS 0
#elif TT == 1
#define CHK_TYPED \
  VASSERT(((NODE *) x)->parent == (NODE *) par, "RB parent link consistent"); \
  VASSERT(((NODE *) x)->color == P_TREE_RB_COLOR_RED || ((NODE *) x)->color == P_TREE_RB_COLOR_BLACK, "RB colour is red or black"); \
  VASSERT(!(parred && IS_RED(x)), "RB: no red node has a red child"); \
  VASSERT(par != NULL || !IS_RED(x), "RB: root is black");
#define CHK_BAL_TYPED \
  VASSERT((a >> 8) == (b >> 8), "RB: equal black height of both subtrees");
#define BLACKS ((a >> 8) + (IS_RED(x) ? 0 : 1))
#else
#define CHK_TYPED \
  VASSERT(((NODE *) x)->parent == (NODE *) par, "AVL parent link consistent");
#define CHK_BAL_TYPED \
  VASSERT(hl - hr >= -1 && hl - hr <= 1, "AVL: subtree heights differ by at most one"); \
  VASSERT(((NODE *) x)->balance_factor == hl - hr, "AVL: stored balance factor = left height - right height");
#define BLACKS 0
#endif

static int chk_e(PTreeBaseNode *x, PTreeBaseNode *par, int lo, int hi, int parred) { (void) par; (void) lo; (void) hi; (void) parred; return chk_end(x); }
static int chk5(PTreeBaseNode *x, PTreeBaseNode *par, int lo, int hi, int parred) { CHKBODY(chk_e) }
static int chk4(PTreeBaseNode *x, PTreeBaseNode *par, int lo, int hi, int parred) { CHKBODY(chk5) }
static int chk3(PTreeBaseNode *x, PTreeBaseNode *par, int lo, int hi, int parred) { CHKBODY(chk4) }
static int chk2(PTreeBaseNode *x, PTreeBaseNode *par, int lo, int hi, int parred) { CHKBODY(chk3) }
static int chk1(PTreeBaseNode *x, PTreeBaseNode *par, int lo, int hi, int parred) { CHKBODY(chk2) }
#if PH == 5
#define CHKROOT chk1
#elif PH == 4
#define CHKROOT chk2
#elif PH == 3
#define CHKROOT chk3
#elif PH == 2
#define CHKROOT chk4
#elif PH == 1
#define CHKROOT chk5
#else
#error "unsupported post-state height bound"
#endif

/* depth bounds of the property statement: floor(1.44*log2(n+2)) (AVL), floor(2*log2(n+1)) (RB), n = 0..31 */
static const int avl_bound[32] = {1,2,2,3,3,4,4,4,4,4,5,5,5,5,5,5,6,6,6,6,6,6,6,6,6,6,6,6,7,7,7,7};
static const int rb_bound[32]  = {0,2,3,4,4,5,5,6,6,6,6,7,7,7,7,8,8,8,8,8,8,8,9,9,9,9,9,9,9,9,9,10};

static int post_height;
static void check_post_state(void) {
#ifdef NOPOST
  return;
#endif
  g_cnt = 0;
  int r = CHKROOT(tree->root, NULL, 0, NK + 1, 0);
  post_height = r & 0xff;
  VASSERT(g_cnt == exp_n, "number of stored pairs = size of the reference map (with BST order + membership: in-order content = reference)");
  VASSERT(p_tree_get_nnodes(tree) == exp_n, "nnodes = number of distinct keys");
  VASSERT(vm_live == exp_n + 1, "one node block per stored pair (+ the tree object): nothing leaked, nothing else allocated");
#if defined(CHK_BAL) && TT == 2
  VASSERT(post_height <= avl_bound[exp_n], "AVL: height <= floor(1.44*log2(n+2))");
#elif defined(CHK_BAL) && TT == 1
  VASSERT(post_height <= rb_bound[exp_n], "RB: height <= floor(2*log2(n+1))");
#endif
}

/* reachability of every notifier configuration when it is chosen symbolically */
static void witness_notifier_config(void) {
#if NEWMODE == 5
  if (has_kn && has_vn) VWITNESS("both notifiers given");
  if (has_kn && !has_vn) VWITNESS("key notifier only");
  if (!has_kn && has_vn) VWITNESS("value notifier only");
  if (!has_kn && !has_vn) VWITNESS("p_tree_new_full without notifiers");
#endif
}

static void make_tree(void) {
  vm_alloc_install();
#if NEWMODE == 0
  tree = p_tree_new(TREETYPE, (PCompareFunc) cmp3);
#elif NEWMODE == 1
  tree = p_tree_new_with_data(TREETYPE, cmp3, UDATA);
#else
#if NEWMODE == 5
  has_kn = ND_BOOL(); has_vn = ND_BOOL();
#else
  has_kn = (NEWMODE == 2 || NEWMODE == 3); has_vn = (NEWMODE == 2 || NEWMODE == 4);
#endif
  tree = p_tree_new_full(TREETYPE, cmp3, UDATA, has_kn ? key_destroyed : NULL, has_vn ? val_destroyed : NULL);
#endif
  VASSERT(tree != NULL, "tree created");
  VASSERT(p_tree_get_type(tree) == TREETYPE && p_tree_get_nnodes(tree) == 0, "new tree: type as requested, empty");
#ifdef SYM_MAG
  /* any total-order comparator: the magnitudes of the negative and of the positive result are arbitrary and independent
   * (only where affordable: a symbolic magnitude makes every comparison a symbolic branch for the symbolic executor) */
  cmp_mag = ND_INT(); cmp_neg = ND_INT();
  VASSUME(cmp_mag >= 1 && cmp_neg >= 1);
#elif defined(CMP_MAG)
  /* concrete, asymmetric: one side has magnitude 1, the other 1000 (which one alternates with the position parity) */
  cmp_mag = CMP_MAG; cmp_neg = (CMP_MAG == 1) ? 1000 : 1;
#endif
}

#endif
