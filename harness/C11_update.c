/* C11 (a) UPDATE step of the real <alg>_update; the static compression function is replaced by the block MONITOR below.
 *
 * Measured: a symbolic buffer offset (`left`, derived from a symbolic counter) or a symbolic memcpy length costs a minute
 * per query, so the step is decomposed into two query families whose conjunction is the step post-condition:
 *
 *  DATA mode (default; -DLEFT=n or -DLEFT_LO/-DLEFT_HI, -DLEN_LO/-DLEN_HI): data movement.  For every buffer fill of the
 *     range: counter = a concrete near-carry value with that block offset, every len of the range (default [1, 2*block+2])
 *     is executed (enumerated by symbolic execution, so all offsets/lengths are concrete), message
 *     bytes, stale buffer bytes and chaining state are SYMBOLIC.  Monitor: every block handed to the compression function
 *     is exactly the next block of pending||data and the chaining state is what the previous call left.  Post: #blocks,
 *     tail buffered at offset 0, state = output of last compression call, counter = L+len, GOST: one checksum addition per block;
 *     all memory-safety checks of CBMC on the real memcpy calls.
 *  CNT mode (-DCNT): counter arithmetic and block count for EVERY counter value of the full width (64/128/256 bit; SHA-3:
 *     every buffer fill) and every len in [1, 2*block+2], both symbolic.  memcpy/memset INTO THE CONTEXT are abstracted to
 *     no-ops here (the counter fields are not reachable through an in-bounds copy into the buffer; in-bounds-ness is what
 *     DATA mode checks for every (left,len) pair).  Post: counter == L + len over the full width, #blocks == ((L mod block)+len) div block.
 *
 *  -DHUGE (with either mode): bug-hunting variant for ONE update of 2^32 <= len < 2^61 bytes (symbolic): the block loop is
 *     cut after 2 iterations WITHOUT unwinding assertion, so the checks sit inside the monitor: contents of the first two
 *     blocks (DATA) and counter == L + len at the first compression call (CNT: for every L). */
#include "verif.h"
#include <string.h>
#include "C11_alg.h"

#define B C11_BLOCK
/* DATA mode: -DLEFT=n (one buffer fill) or -DLEFT_LO=a -DLEFT_HI=b (every fill in [a,b], enumerated) */
#ifdef LEFT
# define LEFT_LO LEFT
# define LEFT_HI LEFT
#endif
#if !defined(CNT) && !defined(LEFT_LO)
#error "-DLEFT=n or -DLEFT_LO/-DLEFT_HI"
#endif
#define LEFTMAX (B - 1)          /* sizes the arrays */
#ifdef HUGE
# define MAXLEN (4 * B)          /* bytes of the data object that the first (cut) loop iterations may read */
# ifdef KF_DEMO
#  define HASSERT(c, m) VKF(c, m)
# else
#  define HASSERT(c, m) VASSERT(c, m)
# endif
#else
# define MAXLEN (2 * B + 2)
#endif
#ifndef LEN_LO                   /* DATA mode: range of len enumerated by this query (the runner splits [1, 2*block+2]) */
# define LEN_LO 1
#endif
#ifndef LEN_HI
# define LEN_HI MAXLEN
#endif
#define WIN (LEFTMAX + MAXLEN)
#define MAXBLK (WIN / B + 1)
#define CBITS (C11_CNT_BITS ? C11_CNT_BITS : 64)

static unsigned char data[MAXLEN];
static unsigned char expect[WIN + B];
static c11_word H[MAXBLK + 1][C11_STATE_W];
static c11_word EW[MAXBLK][B / C11_W];      /* the expected stream as blocks of words in the algorithm's byte order */
static unsigned nblk;
static c11_u256 cnt_expected;

#ifdef CNT
/* data movement into the context (its buffer) is abstracted away; copies/fills of other objects (GOST's local len256) are
 * executed byte by byte */
static int into_ctx(const void *d) { return __CPROVER_POINTER_OBJECT(d) == __CPROVER_POINTER_OBJECT(c11_ctx()); }
void *c11_memcpy(void *d, const void *s, size_t n)
{
  size_t i;
  if (!into_ctx(d)) for (i = 0; i < n; i++) ((unsigned char *) d)[i] = ((const unsigned char *) s)[i];
  return d;
}
void *c11_memset(void *d, int c, size_t n)
{
  size_t i;
  if (!into_ctx(d)) for (i = 0; i < n; i++) ((unsigned char *) d)[i] = (unsigned char) c;
  return d;
}
#endif

static c11_u256 cur_L; static unsigned long long cur_len;

#if ALG == ALG_GOST
/* GOST keeps its bit counter and its checksum as 256-bit numbers advanced by the static pp_crypto_hash_gost3411_sum_256(a, b):
 * a := a + b mod 2^256.  The real adder is decided against a reference adder for all 2^512 operand pairs by the gost_sum256
 * query (C11_gostsum.c); in the step queries it is replaced by this MONITOR, which treats the sum as an uninterpreted
 * operation: it records target and operands and stores a fresh symbolic result, so the step queries assert WHICH additions
 * are made on WHICH operands and where the results end up, without 256-bit arithmetic in the solver (with a computing model
 * one query took 600 s). */
#define MAXSUM (MAXBLK + 2)
static unsigned nsum;
static uint32_t SA[MAXSUM][8], SB[MAXSUM][8], ST[MAXSUM][8], S0[8];
static int STGT[MAXSUM];
void C11_SUM256(uint32_t a[8], const uint32_t b[8])
{
  unsigned k = nsum, i;
  VASSERT(k < MAXSUM, "no more 256-bit additions than one per block plus one for the counter");
  STGT[k] = (a == c11_len()) ? 0 : (a == c11_sum()) ? 1 : 2;
  for (i = 0; i < 8; i++) { SA[k][i] = a[i]; SB[k][i] = b[i]; a[i] = ST[k][i]; }
  nsum = k + 1;
}
/* the bit counter is advanced exactly by the first addition: counter := L (+) 8*len */
static int counter_ok(void)
{
  int ok = (nsum >= 1) && (STGT[0] == 0); unsigned i;
  for (i = 0; i < 4; i++) ok &= (SA[0][2 * i] == (uint32_t) cur_L.l[i]) & (SA[0][2 * i + 1] == (uint32_t) (cur_L.l[i] >> 32));
  ok &= ((((uint64_t) SB[0][1] << 32) | SB[0][0]) == cur_len * 8);          /* len < 2^61 */
  for (i = 2; i < 8; i++) ok &= (SB[0][i] == 0);
  for (i = 0; i < 8; i++) ok &= (c11_len()[i] == ST[0][i]);
  return ok;
}
#else
static int counter_ok(void) { return c11_eq_low(c11_get_count(), cnt_expected, CBITS); }
#endif

static int state_is(unsigned k)
{
  int ok = 1; unsigned i; c11_word *s = c11_state();
  for (i = 0; i < C11_STATE_W; i++) ok &= (s[i] == H[k][i]);
  return ok;
}

/* the MONITOR: replaces the static compression function of the real unit */
void C11_MON(void *ctx, const c11_word *d)
{
  unsigned j; int ok = 1; unsigned k = nblk;
  VASSERT(ctx == c11_ctx(), "compression function called on the context being updated");
  VASSERT(k < MAXBLK, "no more blocks compressed than the input contains");
#ifndef CNT
  for (j = 0; j < B / C11_W; j++) ok &= (d[j] == EW[k][j]);
# ifdef HUGE
  HASSERT(ok, "huge update: block handed to the compression function is the next block of pending||data");
# else
  VASSERT(ok, "block handed to the compression function is the next block of pending||data");
# endif
#endif
#ifdef HUGE
  if (k == 0)
    HASSERT(counter_ok(), "huge update: length counter == old counter + len (all bits of len)");
  if (k == 1) VWITNESS("huge update: second compression call reached");
#endif
  VASSERT(state_is(k), "chaining state untouched between compression calls");
  for (j = 0; j < C11_STATE_W; j++) c11_state()[j] = H[k + 1][j];
  nblk = k + 1;
}

/* a concrete counter with block offset `left` just below a carry boundary of every limb */
static c11_u256 near_carry(unsigned left)
{
  c11_u256 r = {{0, 0, 0, 0}};
#if ALG == ALG_SHA3
  r.l[0] = left;
#elif ALG == ALG_GOST
  r.l[0] = 0xFFFFFFFFFFFFFF00ULL + 8 * left; r.l[1] = 0xFFFFFFFFFFFFFFFFULL; r.l[2] = 0x00000007FFFFFFFFULL; r.l[3] = 0x1122334455667788ULL;
#elif C11_CNT_BITS == 64
  r.l[0] = 0x00000007FFFFFFC0ULL + left;
#else
  r.l[0] = 0xFFFFFFFFFFFFFF80ULL + left; r.l[1] = 0x0000000700000007ULL;
#endif
  return r;
}

static c11_u256 expected_count(c11_u256 L, unsigned left, unsigned long long len)
{
#if ALG == ALG_SHA3
  (void) L; return c11_from_u64((left + len) % B);      /* SHA-3 keeps only the buffer fill */
#else
  (void) left; return c11_add256(L, c11_from_u64(len * C11_CNT_UNIT));
#endif
}

static void post(c11_u256 L, unsigned left, unsigned long long len)
{
  unsigned long long tot = left + len;
  unsigned nb = (unsigned) (tot / B), tail = (unsigned) (tot % B), i, k;
  int ok = 1;
  (void) L; (void) k;
  VASSERT(nblk == nb, "number of blocks compressed == (pending+len) div block");
  VASSERT(counter_ok(), "length counter == old counter + len over the full counter width");
  VASSERT(state_is(nblk), "chaining state after update == output of the last compression call");
#if ALG == ALG_GOST
  VASSERT(nsum == 1 + nb, "GOST: one counter addition plus one checksum addition per compressed block");
#endif
#ifndef CNT
  for (i = 0; i < B; i++) if (i < tail) ok &= (c11_buf_at(i) == expect[nb * B + i]);
  VASSERT(ok, "unprocessed tail bytes are buffered in order at offset 0");
# if ALG == ALG_GOST
  {
    int bad = 0; unsigned w;
    for (k = 0; k < MAXBLK; k++) if (k < nb) {
      bad |= (STGT[1 + k] != 1);
      for (w = 0; w < 8; w++) bad |= (SA[1 + k][w] != (k == 0 ? S0[w] : ST[k][w])) | (SB[1 + k][w] != EW[k][w]);
    }
    for (w = 0; w < 8; w++) bad |= (c11_sum()[w] != (nb == 0 ? S0[w] : ST[nb][w]));
    VASSERT(!bad, "GOST checksum := checksum (+) block for every compressed block, in order, result kept in the context");
  }
# endif
#endif
}

static void set_pre(c11_u256 L, const unsigned char *G)
{
  unsigned i;
  (void) G;
  c11_set_variant();
  c11_set_count(L);
  c11_load_buf();        /* one whole-object write: byte-wise writes into the buf/buf_w union cost ~160 SSA steps each */
  for (i = 0; i < C11_STATE_W; i++) c11_state()[i] = H[0][i];
#if ALG == ALG_GOST
  for (i = 0; i < 8; i++) c11_sum()[i] = S0[i];
  nsum = 0;
#endif
  nblk = 0;
}

void harness(void)
{
  static unsigned char G[B];
  unsigned i, k;
  c11_u256 L;
  unsigned long long len;

  for (i = 0; i < B; i++) c11_image_buf()[i] = G[i] = ND_UCHAR();   /* pending bytes, then arbitrary stale bytes */
  for (i = 0; i < MAXLEN; i++) data[i] = ND_UCHAR();    /* arbitrary message bytes */
  for (k = 0; k <= MAXBLK; k++) for (i = 0; i < C11_STATE_W; i++) H[k][i] = (c11_word) ND_ULL();
#if ALG == ALG_GOST
  for (i = 0; i < 8; i++) S0[i] = ND_UINT();
  for (k = 0; k < MAXSUM; k++) for (i = 0; i < 8; i++) ST[k][i] = ND_UINT();
#endif

#ifdef CNT
  /* ---- every counter value, every len: counter arithmetic + block count ---- */
  for (i = 0; i < 4; i++) L.l[i] = ND_ULL();
# if ALG == ALG_SHA3
  L.l[1] = L.l[2] = L.l[3] = 0; VASSUME(L.l[0] < B);   /* SHA-3 keeps only the buffer fill */
# elif ALG == ALG_GOST
  VASSUME((L.l[0] & 7) == 0);                           /* bit counter of whole bytes */
# else
  if (C11_CNT_BITS <= 64) L.l[1] = 0;
  L.l[2] = L.l[3] = 0;
# endif
  {
# if ALG == ALG_GOST
    unsigned left = (unsigned) ((L.l[0] & 0xFF) >> 3);
# else
    unsigned left = (unsigned) (L.l[0] % B);
# endif
    len = ND_ULL();
# ifdef HUGE
    VASSUME(len >= (1ULL << 32) && len < (1ULL << 61));  /* >= 2^61 bytes: the bit count leaves 64 bits, outside the claim */
# else
    VASSUME(len >= 1 && len <= MAXLEN);
# endif
    cnt_expected = expected_count(L, left, len);
    cur_L = L; cur_len = len;
    set_pre(L, G);
    c11_update(data, (size_t) len);
# ifndef HUGE
    post(L, left, len);
    if (nblk == 0) VWITNESS("update absorbed into the buffer only");
    if (nblk == 1) VWITNESS("one block compressed");
    if (nblk >= 2) VWITNESS("two or more blocks compressed");
    if (c11_get_count().l[0] < L.l[0]) VWITNESS("carry out of the low counter limb");
# endif
  }
#else
  /* ---- data movement: concrete offsets, symbolic contents ---- */
  {
    unsigned left;
    for (left = LEFT_LO; left <= LEFT_HI; left++) {
      L = near_carry(left);
      for (i = 0; i < left; i++) expect[i] = G[i];
      for (i = 0; i < MAXLEN; i++) expect[left + i] = data[i];
      for (k = 0; k < MAXBLK; k++) for (i = 0; i < B / C11_W; i++) EW[k][i] = c11_word_of(expect + k * B + i * C11_W);
# ifdef HUGE
      len = ND_ULL();
      VASSUME(len >= (1ULL << 32) && len < (1ULL << 61));
      cnt_expected = expected_count(L, left, len);
      cur_L = L; cur_len = len;
      set_pre(L, G);
      c11_update(data, (size_t) len);
# else
      unsigned long long hi = LEN_HI;
#  ifdef TRIM
      /* thorough-tier economy: for buffer fills other than 0, 1, block-1 stop at len = to_fill + block + 1 (prologue, zero and
       * one whole block, every tail size); two whole blocks after the prologue are enumerated for the boundary fills only */
      if (left != 0 && left != 1 && left != B - 1 && hi > 2 * B - left + 1) hi = 2 * B - left + 1;
#  endif
      for (len = LEN_LO; len <= hi; len++) {
        cnt_expected = expected_count(L, left, len);
        cur_L = L; cur_len = len;
        set_pre(L, G);
        c11_update(data, (size_t) len);
        post(L, left, len);
        if (left == LEFT_HI && len == hi) VWITNESS("last (buffer fill, len) pair of the range executed");
      }
# endif
    }
# ifndef HUGE
    VWITNESS("all (buffer fill, len) pairs of the range executed");
# endif
  }
#endif
}
