/* C11 (a) UPDATE step: the real <alg>_update from an ARBITRARY valid context state.
 *   pre-state : total-length counter L symbolic over its whole width with L mod block == LEFT (LEFT is fixed per
 *               query by the runner: a symbolic offset into the buf/buf_w union costs minutes), the first LEFT
 *               buffer bytes = pending message bytes (symbolic), the rest of the buffer = arbitrary garbage,
 *               chaining state arbitrary.
 *   step      : one update of len in [1, 2*block+2] arbitrary bytes.
 *   monitor   : stands in for the compression function; every block it is handed must be exactly the next
 *               block of  pending || data, the state it sees must be the one the previous call left.
 *   post      : #blocks = (LEFT+len) div block, counter = L + len (full width, all carries), tail bytes buffered at
 *               offset 0.., chaining state = result of the last monitor call (update itself never touches it),
 *               GOST: checksum = old checksum + sum of the delivered blocks (mod 2^256).
 * -DHUGE: bug-hunting variant for ONE update of len >= 2^32 bytes: block loop cut after 2 iterations (no unwinding
 *   assertion), so the checks sit inside the monitor: first block contents and counter == L + len at the first call. */
#include "verif.h"
#include "C11_alg.h"

#define B C11_BLOCK
#ifndef LEFT
#error "-DLEFT=n"
#endif
#ifdef HUGE
# define MAXLEN (3 * B)          /* bytes of the data object that the first events may read */
# ifdef KF_DEMO
#  define HASSERT(c, m) VKF(c, m)
# else
#  define HASSERT(c, m) VASSERT(c, m)
# endif
#else
# define MAXLEN (2 * B + 2)
#endif
#define WIN (LEFT + MAXLEN)
#define MAXBLK (WIN / B + 1)

static unsigned char data[MAXLEN];
static unsigned char expect[WIN + B];
static c11_word H[MAXBLK + 1][C11_STATE_W];
static unsigned nblk;
static c11_u256 cnt_expected;

#if ALG == ALG_GOST
/* a += b (mod 2^256), 32-bit limbs, trusted reference; returns 1 iff some limb i < 7 has a == b == 0xFFFFFFFF with
 * carry-in 1 (the only case in which the real pp_crypto_hash_gost3411_sum_256 loses the carry, finding C11_gost_sum_carry) */
static int gost_ref_add(uint32_t a[8], const uint32_t b[8])
{
  unsigned i; uint64_t c = 0; int hit = 0;
  for (i = 0; i < 8; i++) {
    uint64_t t = (uint64_t) a[i] + b[i] + c;
    if (i < 7 && a[i] == 0xFFFFFFFFu && b[i] == 0xFFFFFFFFu && c) hit = 1;
    a[i] = (uint32_t) t; c = t >> 32;
  }
  return hit;
}
#endif

static int state_is(unsigned k)
{
  int ok = 1; unsigned i; c11_word *s = c11_state();
  for (i = 0; i < C11_STATE_W; i++) ok &= (s[i] == H[k][i]);
  return ok;
}

/* the MONITOR: replaces the static compression function of the real unit */
void C11_MON(void *ctx, const c11_word *d)
{
  unsigned j; int ok = 1; unsigned k = nblk;
  VASSERT(ctx == c11_ctx(), "compression function called on the context being updated");
  VASSERT(k < MAXBLK, "no more blocks compressed than the input contains");
  for (j = 0; j < B; j++) ok &= (c11_block_byte(d, j) == expect[k * B + j]);
#ifdef HUGE
  HASSERT(ok, "huge update: block handed to the compression function is the next block of pending||data");
  if (k == 0)
    HASSERT(c11_eq_low(c11_get_count(), cnt_expected, C11_CNT_BITS ? C11_CNT_BITS : 64),
            "huge update: length counter == old counter + len (all bits of len)");
  if (k == 1) VWITNESS("huge update: second block reached");
#else
  VASSERT(ok, "block handed to the compression function is the next block of pending||data");
#endif
  VASSERT(state_is(k), "chaining state untouched between compression calls");
  for (j = 0; j < C11_STATE_W; j++) c11_state()[j] = H[k + 1][j];
  nblk = k + 1;
}

void harness(void)
{
  unsigned i, k;
  unsigned char *buf = c11_buf();
  c11_u256 L, add;
  unsigned long long len;

  c11_set_variant();
  /* counter: any value of the full width whose block offset is LEFT */
  for (i = 0; i < 4; i++) L.l[i] = ND_ULL();
#if ALG == ALG_SHA3
  L = c11_from_u64(LEFT);                       /* SHA-3 keeps only the buffer fill */
#elif ALG == ALG_GOST
  VASSUME((L.l[0] & 7) == 0 && ((L.l[0] & 0xFF) >> 3) == LEFT);   /* bit counter, whole bytes */
#else
  VASSUME((L.l[0] & (B - 1)) == LEFT);
  if (C11_CNT_BITS <= 64) L.l[1] = 0;
  L.l[2] = L.l[3] = 0;
#endif
  c11_set_count(L);
  for (i = 0; i < B; i++) buf[i] = ND_UCHAR();   /* pending bytes, then arbitrary garbage */
  for (i = 0; i < LEFT; i++) expect[i] = buf[i];
  for (i = 0; i < MAXLEN; i++) { data[i] = ND_UCHAR(); expect[LEFT + i] = data[i]; }
  for (k = 0; k <= MAXBLK; k++) for (i = 0; i < C11_STATE_W; i++) H[k][i] = (c11_word) ND_ULL();
  for (i = 0; i < C11_STATE_W; i++) c11_state()[i] = H[0][i];
#if ALG == ALG_GOST
  uint32_t S0[8];
  for (i = 0; i < 8; i++) { S0[i] = ND_UINT(); c11_sum()[i] = S0[i]; }
#endif

  len = ND_ULL();
#ifdef HUGE
  VASSUME(len >= (1ULL << 32) && len < (1ULL << 61));   /* >= 2^61 bytes: bit count leaves 64 bits, outside the claim */
#else
  VASSUME(len >= 1 && len <= MAXLEN);
#endif
  add = c11_from_u64(len * C11_CNT_UNIT);
  cnt_expected = c11_add256(L, add);
#if ALG == ALG_SHA3
  cnt_expected = c11_from_u64((LEFT + len) % B);
#endif

  c11_update(data, (size_t) len);

#ifndef HUGE
  {
    unsigned long long tot = LEFT + len;
    unsigned nb = (unsigned) (tot / B), tail = (unsigned) (tot % B);
    int ok = 1;
    VASSERT(nblk == nb, "number of blocks compressed == (pending+len) div block");
    VASSERT(c11_eq_low(c11_get_count(), cnt_expected, C11_CNT_BITS ? C11_CNT_BITS : 64),
            "length counter == old counter + len over the full counter width");
    for (i = 0; i < B; i++) if (i < tail) ok &= (buf[i] == expect[nb * B + i]);
    VASSERT(ok, "unprocessed tail bytes are buffered in order at offset 0");
    VASSERT(state_is(nblk), "chaining state after update == output of the last compression call");
#if ALG == ALG_GOST
    {
      /* checksum: reference adder (64-bit intermediate per 32-bit limb) over the delivered blocks */
      uint32_t s[8], blk[8]; int bad = 0, lost = 0;
      for (i = 0; i < 8; i++) s[i] = S0[i];
      for (k = 0; k < MAXBLK; k++) if (k < nb) {
        unsigned w, j;
        for (w = 0; w < 8; w++) { blk[w] = 0; for (j = 0; j < 4; j++) blk[w] |= (uint32_t) expect[k * B + 4 * w + j] << (8 * j); }
        lost |= gost_ref_add(s, blk);
      }
#ifdef KF_OPEN_C11_gost_sum_carry
      VASSUME(!lost);   /* known finding: carry out of a limb with a == b == 0xFFFFFFFF and carry-in 1 is dropped */
#endif
      for (i = 0; i < 8; i++) bad |= (c11_sum()[i] != s[i]);
      VASSERT(!bad, "GOST checksum == old checksum + delivered blocks (mod 2^256)");
    }
#endif
    if (nb == 0) VWITNESS("update absorbed into the buffer only");
    if (nb == 1) VWITNESS("one block compressed");
    if (nb >= 2) VWITNESS("two or more blocks compressed");
  }
#endif
}
