/* C17: text conversions against the platform functions modelled as consistent uninterpreted functions (models/netdb_model.[ch]).
 * MODE_NEW : p_socket_address_new(text, port) for a symbolic NUL-terminated string of <= TEXT_MAX characters:
 *            routing on ':' (getaddrinfo(AI_NUMERICHOST) vs inet_pton v4 then v6), success exactly when the platform function accepts,
 *            stores exactly the platform's output, port in host order, addrinfo freed exactly once and never used afterwards, no leak.
 * MODE_GET : p_socket_address_get_address(a): inet_ntop receives the right family, the address bytes and a large enough buffer;
 *            the result is a fresh copy of exactly what the platform wrote.
 * -DREENT  : re-entrancy (nested-atomic thread emulation, preemption depth 1): every entry/exit of a platform model function and every
 *            allocator call made by the first library call is a preemption point at which, under a symbolic choice and at most once,
 *            a SECOND complete call of the same library function with a DIFFERENT symbolic input runs to completion ("another
 *            thread").  Afterwards each call must have returned what the platform produced for ITS OWN input: any storage shared
 *            between two calls (static scratch buffer, static hints/result variable) fails this. */
#include "verif.h"
#include "alloc.h"
#include "netdb_model.h"
#include <string.h>
#include <stdlib.h>
#include <pmem.h>
#include <psocketaddress.h>
#ifndef TEXT_MAX
#define TEXT_MAX 4
#endif
#define S4 ((int) sizeof(struct sockaddr_in))
#define S6 ((int) sizeof(struct sockaddr_in6))

static int nested_done, nested_point = -1, in_first;
static void nested_call(void);
void vmn_preempt(int point) {
#ifdef REENT
#ifdef ONLY_POINT   /* case split by the runner: one query per kind of preemption point */
  if (point != ONLY_POINT) return;
#endif
  if (in_first && !nested_done && ND_BOOL()) { nested_done = 1; nested_point = point; nested_call(); }
#else
  (void) point;
#endif
}
#ifdef REENT
static ppointer wrap_malloc(psize n) { vmn_preempt(VMN_P_MALLOC); return vm_malloc(n); }
static ppointer wrap_realloc(ppointer p, psize n) { return vm_realloc(p, n); }
static void wrap_free(ppointer p) { vm_free(p); }
#endif
static void install(void) {
  vm_alloc_install();
#ifdef REENT
  PMemVTable t; t.f_malloc = wrap_malloc; t.f_realloc = wrap_realloc; t.f_free = wrap_free;
  p_mem_set_vtable(&t);
#endif
}

#if defined(MODE_NEW)
static char text[2][TEXT_MAX + 1];
static _Bool has_colon[2];
static int tlen[2];          /* strlen of the text */
static puint16 port[2];
static PSocketAddress *res[2];

static void setup(int k) {
  _Bool ended = 0;
  tlen[k] = TEXT_MAX;
  for (int i = 0; i < TEXT_MAX; i++) {
    text[k][i] = (char) ND_UCHAR();
    if (!ended && text[k][i] == 0) { ended = 1; tlen[k] = i; }
    if (!ended && text[k][i] == ':') has_colon[k] = 1;
  }
  text[k][TEXT_MAX] = 0;
  port[k] = (puint16) ND_UINT();
  vmn[k].text = text[k];
  vmn[k].pton4_ok = ND_BOOL(); vmn[k].pton6_ok = ND_BOOL();
  for (int i = 0; i < 4; i++) vmn[k].pton4_out[i] = ND_UCHAR();
  for (int i = 0; i < 16; i++) vmn[k].pton6_out[i] = ND_UCHAR();
  vmn[k].gai_rc = ND_BOOL() ? 0 : ND_INT();
  vmn[k].gai_family = ND_BOOL() ? AF_INET6 : AF_INET;
  { unsigned char *p = (unsigned char *) &vmn[k].gai_sa; for (int i = 0; i < S6; i++) p[i] = ND_UCHAR(); }
}
static void check(int k) {
  PSocketAddress *a = res[k];
  const struct vmn_slot *m = &vmn[k];
  unsigned char out[sizeof(struct sockaddr_in6)];
  if (has_colon[k]) {
    VASSERT(m->gai_calls == 1 && m->pton4_calls == 0 && m->pton6_calls == 0, "text with ':' goes to getaddrinfo only");
    VASSERT(m->gai_service_null, "getaddrinfo receives the caller's string and no service");
    VASSERT(m->gai_hints_ok, "getaddrinfo hints: AF_UNSPEC, SOCK_STREAM, AI_NUMERICHOST, everything else zero");
    VASSERT(m->free_calls == (m->gai_rc == 0 ? 1 : 0) && m->gai_live == 0, "addrinfo list freed exactly once iff getaddrinfo succeeded");
    if (m->gai_rc != 0) { VASSERT(a == NULL, "new fails when getaddrinfo rejects the string"); if (k == 0) VWITNESS("getaddrinfo rejects"); }
    else if (m->gai_family == AF_INET6) {
      VASSERT(a != NULL, "new succeeds when getaddrinfo accepts the string as IPv6");
      VASSERT(p_socket_address_get_family(a) == P_SOCKET_FAMILY_INET6, "family IPv6");
      VASSERT(p_socket_address_get_port(a) == port[k], "port stored in host order");
      VASSERT(p_socket_address_get_flow_info(a) == m->gai_sa.sin6_flowinfo && p_socket_address_get_scope_id(a) == m->gai_sa.sin6_scope_id, "flow info and scope id taken from the platform result");
      VASSERT(p_socket_address_to_native(a, out, sizeof out) == TRUE, "to_native succeeds");
      VASSERT(memcmp(out + 8, &m->gai_sa.sin6_addr, 16) == 0, "address = exactly the platform's result for this string");
      VASSERT(out[2] == (port[k] >> 8) && out[3] == (port[k] & 0xff), "native port in network order");
      if (k == 0) VWITNESS("getaddrinfo accepts IPv6");
    } else { VASSERT(a == NULL, "a non-IPv6 answer for a ':' string is not turned into an address"); if (k == 0) VWITNESS("getaddrinfo answers IPv4"); }
  } else {
    VASSERT(m->gai_calls == 0, "text without ':' never goes to getaddrinfo");
    VASSERT(m->pton4_calls == 1 && m->pton6_calls == (m->pton4_ok ? 0 : 1), "inet_pton IPv4 first, IPv6 only when IPv4 rejects");
    VASSERT((a != NULL) == (m->pton4_ok || m->pton6_ok), "new succeeds exactly when inet_pton accepts the string");
    if (a != NULL) {
      VASSERT(p_socket_address_get_port(a) == port[k], "port stored in host order");
      VASSERT(p_socket_address_get_flow_info(a) == 0 && p_socket_address_get_scope_id(a) == 0, "no flow info / scope id from inet_pton");
      VASSERT(p_socket_address_to_native(a, out, sizeof out) == TRUE, "to_native succeeds");
      VASSERT(out[2] == (port[k] >> 8) && out[3] == (port[k] & 0xff), "native port in network order");
      if (m->pton4_ok) {
        VASSERT(p_socket_address_get_family(a) == P_SOCKET_FAMILY_INET, "family IPv4");
        VASSERT(memcmp(out + 4, m->pton4_out, 4) == 0, "address = exactly inet_pton's output for this string");
        if (k == 0) VWITNESS("inet_pton IPv4 accepts");
      } else {
        VASSERT(p_socket_address_get_family(a) == P_SOCKET_FAMILY_INET6, "family IPv6");
        VASSERT(memcmp(out + 8, m->pton6_out, 16) == 0, "address = exactly inet_pton's output for this string");
        if (k == 0) VWITNESS("inet_pton IPv6 accepts");
      }
    } else if (k == 0) VWITNESS("inet_pton rejects both");
  }
}
static void nested_call(void) { res[1] = p_socket_address_new(text[1], port[1]); }
/* the success equivalence must hold for EVERY text length (the platform, not the library, decides what a numeric address is:
 * "addr%scope" strings are longer than INET6_ADDRSTRLEN-1) */
static void length_witnesses(void) {
#if TEXT_MAX >= 64
  if (res[0] != NULL && tlen[0] == 45) VWITNESS("length 45 accepted by the platform");
  if (res[0] != NULL && tlen[0] == 46) VWITNESS("length 46 accepted by the platform");
  if (res[0] != NULL && tlen[0] == 64) VWITNESS("length 64 accepted by the platform");
  if (res[0] != NULL && tlen[0] == 64 && has_colon[0]) VWITNESS("length 64 with ':' accepted through getaddrinfo");
  if (res[0] != NULL && tlen[0] >= 46 && !has_colon[0]) VWITNESS("length >= 46 without ':' accepted through inet_pton");
#endif
  if (tlen[0] == 0) VWITNESS("empty text");
}

void harness(void) {
  install();
  setup(0);
#ifdef REENT
  setup(1);
#endif
  VASSERT(p_socket_address_new(NULL, port[0]) == NULL, "new(NULL) fails");
  in_first = 1;
  res[0] = p_socket_address_new(text[0], port[0]);
  in_first = 0;
  VASSERT(vm_live == (res[0] != NULL ? 1 : 0) + (res[1] != NULL ? 1 : 0), "exactly the returned objects stay allocated");
  check(0);
  length_witnesses();
#ifdef REENT
  if (nested_done) {
    check(1);
    VWITNESS("second call nested inside the first");
#if !defined(ONLY_POINT) || ONLY_POINT >= 4  /* getaddrinfo/freeaddrinfo/allocator points */
    if (has_colon[0] && has_colon[1] && res[0] != NULL && res[1] != NULL) VWITNESS("two nested getaddrinfo conversions succeed");
#endif
#if !defined(ONLY_POINT) || ONLY_POINT <= 1 || ONLY_POINT == 8  /* inet_pton/allocator points */
    if (!has_colon[0] && !has_colon[1] && res[0] != NULL && res[1] != NULL) VWITNESS("two nested inet_pton conversions succeed");
#endif
  } else VWITNESS("no preemption");
#endif
  p_socket_address_free(res[0]); p_socket_address_free(res[1]);
  VASSERT(vm_live == 0, "free releases them");
  VWITNESS("end");
}
#elif defined(MODE_GET)
static PSocketAddress *addr[2];
static pchar *str[2];
static int tl[2];
static void setup(int k) {
  unsigned char img[sizeof(struct sockaddr_in6)];
  for (int i = 0; i < S6; i++) img[i] = ND_UCHAR();
  _Bool v6 = ND_BOOL(); unsigned short f = v6 ? AF_INET6 : AF_INET; memcpy(img, &f, 2);
  tl[k] = ND_RANGE(0, VMN_TEXT_MAX);
  for (int i = 0; i <= VMN_TEXT_MAX; i++) { char c = (char) ND_UCHAR(); VASSUME((i < tl[k]) == (c != 0)); vmn[k].ntop_text[i] = c; }
  vmn[k].ntop_af = f;
  for (int i = 0; i < 16; i++) vmn[k].ntop_key[i] = (v6 || i < 4) ? img[(v6 ? 8 : 4) + i] : 0;
  addr[k] = p_socket_address_new_from_native(img, v6 ? S6 : S4);
  VASSERT(addr[k] != NULL, "constructor succeeds");
}
static void check(int k) {
  VASSERT(vmn[k].ntop_calls == 1, "inet_ntop called once with the family and the stored address bytes of this object");
  VASSERT(str[k] != NULL, "get_address returns a string");
  _Bool same = 1;   /* compare up to and including the NUL; stop at the first difference (never read beyond the returned string) */
  for (int i = 0; i <= VMN_TEXT_MAX; i++) if (same && i <= tl[k]) same = (str[k][i] == vmn[k].ntop_text[i]);
  VASSERT(same, "get_address returns a copy of exactly what the platform wrote for THIS address");
}
static void nested_call(void) { str[1] = p_socket_address_get_address(addr[1]); }

void harness(void) {
  install();
  setup(0);
#ifdef REENT
  setup(1);
  { _Bool same = (vmn[0].ntop_af == vmn[1].ntop_af); for (int i = 0; i < 16; i++) same = same && (vmn[0].ntop_key[i] == vmn[1].ntop_key[i]); VASSUME(!same); }  /* a DIFFERENT address */
  int base = 2;
#else
  int base = 1;
#endif
  VASSERT(p_socket_address_get_address(NULL) == NULL, "get_address(NULL) fails");
  in_first = 1;
  str[0] = p_socket_address_get_address(addr[0]);
  in_first = 0;
  VASSERT(vm_live == base + 1 + (nested_done ? 1 : 0), "get_address returns a newly allocated string");
  check(0);
  if (vmn[0].ntop_af == AF_INET6) VWITNESS("IPv6 text"); else VWITNESS("IPv4 text");
  if (tl[0] == VMN_TEXT_MAX) VWITNESS("longest text");
  if (tl[0] == 0) VWITNESS("empty text");
#ifdef REENT
  if (nested_done) {
    check(1);
    if (nested_point == VMN_P_NTOP_IN) VWITNESS("second call nested at inet_ntop entry");
    if (nested_point == VMN_P_NTOP_OUT) VWITNESS("second call nested at inet_ntop exit");
    if (nested_point == VMN_P_MALLOC) VWITNESS("second call nested at the string allocation");
    if (tl[0] != tl[1]) VWITNESS("texts of different length");
  } else VWITNESS("no preemption");
#endif
  p_free(str[0]); p_free(str[1]); p_socket_address_free(addr[0]); p_socket_address_free(addr[1]);
  VASSERT(vm_live == 0, "nothing stays allocated");
  VWITNESS("end");
}
#endif
