/* C01: mutual exclusion + no lost update + visibility, CBMC native threads, on the REAL lock code.
 *   -DLK_SPIN   PSpinLock (unit = pspinlock-c11.c | pspinlock-sync.c | pspinlock-sim.c + pmutex-posix.c)
 *   -DLK_MUTEX  PMutex    (unit = pmutex-posix.c over the pthread model)
 *   -DNT=2|3 threads, role of thread i = -DTi='L' (lock) or 'T' (trylock), -DROUNDS=r acquisitions attempted each.
 *   -DLK_ATOMICS_CA -DCA_HB  (c11 only) the ghost happens-before tracker of models/conc_atomics.h decides visibility:
 *               every plain access to the shared counter must be ordered (release/acquire) after all conflicting
 *               accesses already performed by the other threads.
 * Critical section: ghost holders counter (assert ==1 inside the acting thread's atomic step) and a PLAIN shared
 * counter incremented by a separate load and store (lost updates become visible in the final value).
 */
#include "verif.h"
#if defined(LK_ATOMICS)        /* shared builtin models of C04 (no ghost): exclusion / lost update / TSO runs */
#define VMA_IMPL
#include "atomics_model.h"
#define HB_ACCESS(p, e) (1)
#elif defined(LK_ATOMICS_CA)   /* private light-weight models with the C11 happens-before ghost (-DCA_HB) */
#define CA_IMPL
#include "conc_atomics.h"
#define HB_ACCESS(p, e) CA_HB_ACCESS(p, e)
#else
#define HB_ACCESS(p, e) (1)
#endif
#include <pthread.h>
#ifdef LK_PTHREAD
#include "pthread_model.h"
#endif
#include <pmem.h>
#include <pmutex.h>
#include <pspinlock.h>

#ifndef NT
#define NT 3
#endif
#ifndef ROUNDS
#define ROUNDS 1
#endif
#ifndef T3
#define T3 'L'
#endif

#define HAS_TRY (((T1) == 'T') || ((T2) == 'T') || (NT >= 3 && (T3) == 'T'))
#define MIN_ACQ ((((T1) == 'L') + ((T2) == 'L') + (NT >= 3 && (T3) == 'L')) * ROUNDS)

#ifdef LK_MUTEX
typedef PMutex LK;
#define LK_NEW     p_mutex_new
#define LK_LOCK    p_mutex_lock
#define LK_TRYLOCK p_mutex_trylock
#define LK_UNLOCK  p_mutex_unlock
#else
typedef PSpinLock LK;
#define LK_NEW     p_spinlock_new
#define LK_LOCK    p_spinlock_lock
#define LK_TRYLOCK p_spinlock_trylock
#define LK_UNLOCK  p_spinlock_unlock
#endif

static LK *L;
int g_holders;     /* ghost */
int g_acq;         /* ghost: successful acquisitions */
int g_counter;     /* the protected datum: plain, non-atomic */
int g_done;
int g_try_failed;

#if defined(LK_ATOMICS) || defined(LK_ATOMICS_CA)
#define ST_ONLY_SPIN
#endif
#include "C01_store.h"

/* events of the happens-before tracker: (thread t, round r) -> read 2*(t*ROUNDS+r), write = read+1 */
#define EV_R(t, r) (2 * ((t) * ROUNDS + (r)))
#define EV_W(t, r) (EV_R(t, r) + 1)
#define TMASK(t)   ((((1u << (2 * ROUNDS)) - 1u)) << (2 * ROUNDS * (t)))          /* all events of thread t */
#define WMASK      (0xAAAAAAAAu)                                                  /* odd bits = writes */
#define ALL        ((1u << (2 * ROUNDS * NT)) - 1u)

static void critical_section(int t, int r) {
  int tmp;
  VATOMIC_BEGIN();
  g_holders++; g_acq++;
  VASSERT(g_holders == 1, "mutual exclusion: nobody else is between its lock-return and its unlock");
  VATOMIC_END();
  VATOMIC_BEGIN();
  tmp = g_counter;
  VASSERT(HB_ACCESS(ALL & ~TMASK(t) & WMASK, EV_R(t, r)), "visibility: read of the protected datum is ordered after every earlier write (no data race)");
  VATOMIC_END();
  VATOMIC_BEGIN();
  g_counter = tmp + 1;
  VASSERT(HB_ACCESS(ALL & ~TMASK(t), EV_W(t, r)), "visibility: write of the protected datum is ordered after every earlier access (no data race)");
  VATOMIC_END();
  VATOMIC_BEGIN();
  g_holders--;
  VATOMIC_END();
}

static void thread(int t, char role) {
#ifdef LK_PTHREAD
  vm_thread_begin(t);
#endif
  for (int r = 0; r < ROUNDS; r++) {
    pboolean ok;
    if (role == 'L') {
      ok = LK_LOCK(L);
      VASSERT(ok == TRUE, "lock returns TRUE");
    } else {
      ok = LK_TRYLOCK(L);
      if (!ok) { VATOMIC_BEGIN(); g_try_failed = 1; VATOMIC_END(); }
    }
    if (ok) {
      critical_section(t, r);
      ok = LK_UNLOCK(L);
      VASSERT(ok == TRUE, "unlock returns TRUE");
    }
  }
  VATOMIC_BEGIN();
  g_done++;
  if (g_done == NT) {
    VASSERT(g_holders == 0, "all done: nobody inside");
    VASSERT(g_counter == g_acq, "no lost update: plain counter = number of acquisitions");
    VASSERT(g_acq >= MIN_ACQ, "every blocking lock call acquired");
    VWITNESS("all threads ran to completion");
#if HAS_TRY
    if (g_try_failed) VWITNESS("a trylock under contention returned FALSE (did not block)");
#endif
    if (g_acq == NT * ROUNDS) VWITNESS("every attempt acquired");
  }
  VATOMIC_END();
}

void harness(void) {
  L = LK_NEW();
  VASSERT(L != NULL, "lock object created");
#if defined(CA_HB)
  ca_word = &st_spin.spin;
#endif
  __CPROVER_ASYNC_1: thread(0, T1);
  __CPROVER_ASYNC_2: thread(1, T2);
#if NT >= 3
  __CPROVER_ASYNC_3: thread(2, T3);
#endif
}
