/* C19 (IPC part): EINTR injected at a symbolic subset (<= EINTR_MAX) of the invocations of the
 * interruptible system calls sem_open / sem_wait / shm_open made by p_semaphore_new (pp_semaphore_
 * create_handle), p_semaphore_acquire, p_shm_new (pp_shm_create_handle) and p_shm_lock.  The outcome
 * must be that of the uninterrupted run (computed from the kernel state before the call): same return
 * value, same kernel effect (object created/opened, unit taken exactly once), no error at all. */
#include "verif.h"
#include "alloc.h"
#include "kernel_ipc.h"
#include <errno.h>
#include <pmem.h>
#include <perror.h>
#include <psemaphore.h>
#include <pshm.h>
#ifndef EINTR_MAX
#define EINTR_MAX 3
#endif

void vk_other(void) {}

void harness(void) {
  vm_alloc_install();
  PError *err = NULL;
#if SCEN == 0   /* ---- semaphore: new + acquire ---- */
  int existed = ND_BOOL(), v0 = ND_RANGE(0, 3), init = ND_RANGE(0, 3), mode = ND_RANGE(0, 1);
  PSemaphore *other = NULL;
  if (existed) { vk_cur = 1; other = p_semaphore_new("a", v0, P_SEM_ACCESS_OPEN, NULL); VASSUME(other != NULL); }
#ifdef KF_OPEN_C06_create_existing
  VASSUME(!(existed && mode == P_SEM_ACCESS_CREATE));
#endif
  vk_cur = 0;
  vk_eintr_budget = ND_RANGE(0, EINTR_MAX);
  PSemaphore *s = p_semaphore_new("a", init, (PSemaphoreAccessMode) mode, &err);
  int n1 = vk_eintr_seen;
  VASSERT(s != NULL, "p_semaphore_new succeeds although sem_open was interrupted");
  VASSERT(err == NULL, "p_semaphore_new: no error reported");
  VASSUME(s != NULL);
  int expect = (existed && mode == P_SEM_ACCESS_OPEN) ? v0 : init;
  int obj = vk_sem_linked(0);
  VASSERT(obj >= 0 && vk_sem_value(obj) == expect, "p_semaphore_new: kernel effect identical to the uninterrupted call (object, value)");
  VASSERT(vk_sem_handles(0) == 1, "p_semaphore_new: exactly one handle open (no handle lost in a retry)");
  VASSUME(expect > 0);
  vk_eintr_budget = ND_RANGE(0, EINTR_MAX);
  vk_expect_noblock = 1;
  pboolean ok = p_semaphore_acquire(s, &err);
  vk_expect_noblock = 0;
  VASSERT(ok == TRUE, "p_semaphore_acquire returns TRUE although sem_wait was interrupted");
  VASSERT(err == NULL, "p_semaphore_acquire: no error (in particular none carrying EINTR)");
  VASSERT(vk_sem_value(obj) == expect - 1, "p_semaphore_acquire: exactly one unit taken");
  /* ownership as in the uninterrupted run: the handle unlinks the name iff it created it */
  p_semaphore_free(s);
  VASSERT((vk_sem_linked(0) >= 0) == (existed != 0), "p_semaphore_free: name removed iff this handle created it");
  VWITNESS("semaphore scenario completed");
  if (n1 >= 2) VWITNESS("sem_open interrupted at least twice");
  if (vk_eintr_seen - n1 == EINTR_MAX) VWITNESS("sem_wait interrupted EINTR_MAX times");
  if (existed && n1 >= 1) VWITNESS("open of an existing name interrupted");
#else           /* ---- shared memory: new + lock ---- */
  int existed = ND_BOOL();
  unsigned long sz0 = (unsigned long) ND_RANGE(1, VK_SEGMAX), sz = (unsigned long) ND_RANGE(1, VK_SEGMAX);
  PShm *other = NULL;
  if (existed) { vk_cur = 1; other = p_shm_new("a", sz0, P_SHM_ACCESS_READWRITE, NULL); VASSUME(other != NULL); }
  vk_cur = 0;
  vk_eintr_budget = ND_RANGE(0, EINTR_MAX);
  PShm *m = p_shm_new("a", sz, P_SHM_ACCESS_READWRITE, &err);
  int n1 = vk_eintr_seen;
  VASSERT(m != NULL, "p_shm_new succeeds although shm_open / sem_open were interrupted");
  VASSERT(err == NULL, "p_shm_new: no error reported");
  VASSUME(m != NULL);
  int obj = vk_shm_linked(2);
  VASSERT(obj >= 0 && vk_shm_obj_at(p_shm_get_address(m)) == obj, "p_shm_new: maps the segment published under the name");
  VASSERT((unsigned long) vk_shm_size(obj) == (existed ? sz0 : sz), "p_shm_new: segment size as in the uninterrupted call");
  VASSERT(p_shm_get_size(m) == (existed ? (sz < sz0 ? sz : sz0) : sz), "p_shm_new: reported size as in the uninterrupted call");
  VASSERT(vk_open_fds(0) == 0, "p_shm_new: no descriptor left open by a retry");
  int so = vk_sem_linked(4);
  VASSERT(so >= 0 && vk_sem_value(so) == 1, "p_shm_new: one lock semaphore, free");
  vk_eintr_budget = ND_RANGE(0, EINTR_MAX);
  vk_expect_noblock = 1;
  pboolean ok = p_shm_lock(m, &err);
  vk_expect_noblock = 0;
  VASSERT(ok == TRUE && err == NULL, "p_shm_lock returns TRUE without error although sem_wait was interrupted");
  VASSERT(vk_sem_value(so) == 0, "p_shm_lock: the lock is taken exactly once");
  VASSERT(p_shm_unlock(m, &err) == TRUE && vk_sem_value(so) == 1, "p_shm_unlock releases it");
  VWITNESS("shm scenario completed");
  if (n1 == EINTR_MAX) VWITNESS("p_shm_new interrupted EINTR_MAX times");
  if (vk_eintr_seen - n1 == EINTR_MAX) VWITNESS("p_shm_lock interrupted EINTR_MAX times");
  if (existed && n1 >= 2) VWITNESS("open of an existing segment interrupted twice");
#endif
}
