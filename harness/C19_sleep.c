/* C19 (sleep part): p_uthread_sleep on the REAL puthread.c against the clock model: symbolic msec (all 2^32
 * values), up to NINTR handled-signal interruptions at symbolic moments with symbolic remaining time.
 *   - an interruption alone never makes the call fail (-1);
 *   - return 0  =>  model time elapsed >= msec milliseconds: decided as (a) first request >= msec (exact pair),
 *     (b) every re-issued request >= the remaining time just reported [model assertion], (c) return 0 only after a
 *     completed sleep; the sum form itself (model clock) is decided with -DCHECK_SUM for one interruption;
 *   - every request passed to the kernel is valid (0 <= tv_nsec < 10^9) [asserted in the model];
 *   - the call terminates after at most NINTR+1 kernel sleeps [loop bound + unwinding assertion]. */
#include "verif.h"
#include "clock_model.h"
#include <puthread.h>
#ifndef NINTR
#define NINTR 3
#endif
void harness(void) {
  puint32 msec = ND_UINT();
  vm_sleep_intr_left = NINTR;
  errno = ND_INT();                            /* whatever an earlier call left behind */
#if defined(KF_OPEN_C19_sleep_eintr_errno) && !defined(KF_DEMO)
  /* open finding: with clock_nanosleep the code inspects errno, which the call does not set; excluded class =
   * "errno differs from EINTR after an interrupted clock_nanosleep"; the rest of the logic is still decided */
  vm_sleep_errno_mode = 1;
#endif
  pint r = p_uthread_sleep(msec);
#ifdef KF_DEMO
  VKF(r == 0, "p_uthread_sleep interrupted by a handled signal returns -1 (errno tested instead of clock_nanosleep's return value)");
#else
  VASSERT(r == 0, "a handled signal alone never makes p_uthread_sleep fail");
#endif
  /* msec milliseconds as an exact normalised pair */
  long long want_s = msec / 1000; long want_ns = (long) (msec % 1000) * 1000000L;
  VASSERT(vm_sleep_calls >= 1 && (vm_sleep_first_req.tv_sec > want_s || (vm_sleep_first_req.tv_sec == want_s && vm_sleep_first_req.tv_nsec >= want_ns)),
          "the first kernel sleep asks for at least msec");
  if (r == 0) VASSERT(!vm_sleep_pending_rem, "return 0 only after a kernel sleep ran to completion");
#ifdef CHECK_SUM
  /* end-to-end form (model clock summed over all partial sleeps); the two assertions above plus the model's
   * "re-issued request >= reported remaining time" imply it for any number of interruptions by telescoping */
  if (r == 0) VASSERT(vm_clock_s > (unsigned long long) want_s || (vm_clock_s == (unsigned long long) want_s && vm_clock_ns >= (unsigned long long) want_ns), "return 0 only after at least msec have elapsed");
#endif
  VASSERT(vm_sleep_calls == vm_sleep_intr_taken + (r == 0), "one kernel sleep per interruption plus the completing one");
  VWITNESS("end");
  if (r == 0 && vm_sleep_intr_taken == NINTR) VWITNESS("all interruptions used, sleep completed");
  if (r == 0 && msec == 0xFFFFFFFFu) VWITNESS("maximal msec");
}
