/* C18, IPC part: the scripts of C20_ipc.c under allocation failure at a symbolic request index */
#define MODE_ALLOC 1
#include "C20_ipc.c"
