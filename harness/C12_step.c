/* C12 (sorted-map semantics) instance of the shared tree step harness */
#define CHK_MAP 1
#include "trees_step.h"
