/* C15: the real pp_hash_table_calc_hash for ALL 2^64 pointer values and the real modulus:
 * result < modulo (bucket index in range), no undefined behaviour (signed overflow check on). */
#include "verif.h"
#include <pmacros.h>
#include <ptypes.h>
puint __CPROVER_file_local_phashtable_c_pp_hash_table_calc_hash(pconstpointer p, psize modulo);
void harness(void) {
  unsigned long long k = ND_ULL();
#ifdef KF_OPEN_C15_hash_overflow
  { int lw = (int) (long long) k; VASSUME(lw <= 2147483647 - 37); }
#endif
#ifdef KF_DEMO
  { int lw = (int) (long long) k; VASSUME(lw > 2147483647 - 37); }
#endif
  puint h1 = __CPROVER_file_local_phashtable_c_pp_hash_table_calc_hash((pconstpointer) k, MODULO);
  VASSERT(h1 < MODULO, "bucket index < table size for every pointer value");
  VWITNESS("hash computed");
}
