/* C11 (b) the REAL dispatcher pcryptohash.c over STUB algorithms: a symbolic sequence of NOPS calls out of
 * {update, reset, get_string, get_digest(buffer length symbolic)} on a hash of type -DTYPE (one query per type; without
 * -DTYPE: every int that is not a supported type is rejected).
 * The stubs record what the dispatcher asks of the algorithm; checked:
 *   - type -> algorithm family, digest length of the standard (16,20,28,32,48,64,28,32,48,64,32), get_length/get_type;
 *   - update forwards exactly (data,len) to the algorithm while no digest was read since creation/reset, and nothing afterwards;
 *     NULL data forwards nothing, an empty update adds no bytes;
 *   - the first successful read finalises (finish called exactly once), later reads do not finalise again and return the
 *     same bytes (repeatable), reset re-arms;
 *   - get_string = lower-case hex of the raw digest, 2*length characters + NUL; get_digest copies length bytes, sets *len;
 *   - get_digest with a short buffer sets *len = 0 and writes nothing (whether it finalises is not constrained);
 *   - allocation failure (models/alloc.c) symbolically at each get_string of the sequence (any subset of the reads fails), and
 *     with -DOOM_NEW at p_crypto_hash_new: whatever fails, the algorithm is finalised at most once per creation/reset and never updated after it was
 *     finalised, so the next successful read is still the digest of the bytes updated before the first read attempt (the stub
 *     flags a digest request on a context finalised twice or updated after finish);
 *   (leaks / double release on free are C20's subject, not asserted here.)
 * The digest bytes delivered by the stub are symbolic. */
#include "verif.h"
#include "alloc.h"
#include <pmem.h>
#include <pcryptohash.h>
#include <pcryptohash-md5.h>
#include <pcryptohash-sha1.h>
#include <pcryptohash-sha2-256.h>
#include <pcryptohash-sha2-512.h>
#include <pcryptohash-sha3.h>
#include <pcryptohash-gost3411.h>
#ifndef NOPS
#define NOPS 4
#endif

/* the opaque algorithm contexts are defined by the stubs */
struct PHashMD5_ { int fam; }; struct PHashSHA1_ { int fam; }; struct PHashSHA2_256_ { int fam; };
struct PHashSHA2_512_ { int fam; }; struct PHashSHA3_ { int fam; }; struct PHashGOST3411_ { int fam; };
static struct PHashMD5_ c_md5; static struct PHashSHA1_ c_sha1; static struct PHashSHA2_256_ c_s256;
static struct PHashSHA2_512_ c_s512; static struct PHashSHA3_ c_sha3; static struct PHashGOST3411_ c_gost;

static int created_type = -1, cur_fam = -1;
static int n_new, n_update, n_finish, n_reset, n_digest, n_free, wrong_ctx;
static const puchar *u_data; static psize u_len;
static puchar sdig[64];          /* what the algorithm's digest() returns for a context finalised exactly once, with no
                                    update after the finalisation (= the standard digest of the bytes updated before it) */
static int fin_since_reset, poisoned, bad_digest;   /* bad_digest: digest() was asked of a context that was never finalised,
                                    finalised twice or updated after finish - what it returns is then NOT the standard digest
                                    (a second pointer value for that case made the queries 20x slower, so it is a flag) */

#define FAMILY(F, T, CTX)                                                                                   \
  void p_crypto_hash_##F##_update(T *c, const puchar *d, psize l) { wrong_ctx |= ((void *) c != (void *) &CTX); n_update++; u_data = d; u_len = l; if (fin_since_reset > 0) poisoned = 1; } \
  void p_crypto_hash_##F##_finish(T *c) { wrong_ctx |= ((void *) c != (void *) &CTX); n_finish++; if (++fin_since_reset > 1) poisoned = 1; } \
  const puchar *p_crypto_hash_##F##_digest(T *c) { wrong_ctx |= ((void *) c != (void *) &CTX); n_digest++; bad_digest |= !(fin_since_reset == 1 && !poisoned); return sdig; } \
  void p_crypto_hash_##F##_reset(T *c) { wrong_ctx |= ((void *) c != (void *) &CTX); n_reset++; fin_since_reset = 0; poisoned = 0; } \
  void p_crypto_hash_##F##_free(T *c) { wrong_ctx |= ((void *) c != (void *) &CTX); n_free++; }
#define NEWFN(N, T, CTX, TYPE) T *p_crypto_hash_##N##_new(void) { n_new++; created_type = TYPE; return &CTX; }

FAMILY(md5, PHashMD5, c_md5) FAMILY(sha1, PHashSHA1, c_sha1) FAMILY(sha2_256, PHashSHA2_256, c_s256)
FAMILY(sha2_512, PHashSHA2_512, c_s512) FAMILY(sha3, PHashSHA3, c_sha3) FAMILY(gost3411, PHashGOST3411, c_gost)
NEWFN(md5, PHashMD5, c_md5, 0) NEWFN(sha1, PHashSHA1, c_sha1, 1)
NEWFN(sha2_224, PHashSHA2_256, c_s256, 2) NEWFN(sha2_256, PHashSHA2_256, c_s256, 3)
NEWFN(sha2_384, PHashSHA2_512, c_s512, 4) NEWFN(sha2_512, PHashSHA2_512, c_s512, 5)
NEWFN(sha3_224, PHashSHA3, c_sha3, 6) NEWFN(sha3_256, PHashSHA3, c_sha3, 7) NEWFN(sha3_384, PHashSHA3, c_sha3, 8) NEWFN(sha3_512, PHashSHA3, c_sha3, 9)
NEWFN(gost3411, PHashGOST3411, c_gost, 10)

static const unsigned std_len[11] = {16, 20, 28, 32, 48, 64, 28, 32, 48, 64, 32};
static const char lower_hex[] = "0123456789abcdef";

void harness(void)
{
  int type, op, i, closed = 0, reads = 0, shorts = 0, resets = 0, ignored = 0, oom_reads = 0, read_after_oom = 0;
  unsigned n, j;
  PCryptoHash *h;
  static puchar msg[4];
  vm_alloc_install();
#ifdef TYPE
  type = TYPE;                       /* the runner splits over the 11 types: a symbolic digest length makes malloc/memcpy sizes symbolic (390 s) */
#else
  type = ND_INT();                   /* every value that is not a supported type */
  VASSUME(type < 0 || type > 10);
#endif
  for (j = 0; j < 64; j++) sdig[j] = ND_UCHAR();
#ifdef TYPE
#ifdef OOM_NEW
  vm_fail_at = 1;                     /* the object itself cannot be allocated (disp_*_oomnew query) */
#endif
#endif
  h = p_crypto_hash_new((PCryptoHashType) type);
#ifndef TYPE
  VASSERT(h == NULL && n_new == 0, "unknown type: no object, no algorithm created");
  VWITNESS("invalid type rejected");
  (void) op; (void) i; (void) closed; (void) reads; (void) shorts; (void) resets; (void) ignored; (void) oom_reads; (void) read_after_oom; (void) n; (void) msg;
#else
#ifdef OOM_NEW
  VASSERT(h == NULL, "p_crypto_hash_new reports the allocation failure");
  VWITNESS("creation failed for lack of memory");
  (void) op; (void) i; (void) closed; (void) reads; (void) shorts; (void) resets; (void) ignored; (void) oom_reads; (void) read_after_oom; (void) n; (void) msg;
#else
  VASSERT(h != NULL && n_new == 1 && created_type == type, "p_crypto_hash_new creates the algorithm of the requested type exactly once");
  n = std_len[type];
  VASSERT(p_crypto_hash_get_length(h) == (pssize) n, "digest length == the standard's length for the type");
  VASSERT(p_crypto_hash_get_type(h) == (PCryptoHashType) type, "type reported");

  for (i = 0; i < NOPS; i++) {
    int f0 = n_finish, u0 = n_update, r0 = n_reset;
    op = ND_RANGE(0, 3);
    if (op == 0) {                    /* update */
      psize len = (psize) ND_ULL();
      int null_data = ND_BOOL();
      p_crypto_hash_update(h, null_data ? NULL : msg, len);
      if (closed) {
        VASSERT(n_update == u0, "update after the digest was read reaches the algorithm not at all (ignored until reset)");
        ignored = 1;
      } else if (null_data && len > 0)
        VASSERT(n_update == u0, "update with NULL data is not forwarded");
      else if (len == 0)      /* an empty update may be dropped or forwarded as an empty update: both leave the digest unchanged */
        VASSERT(n_update == u0 || (n_update == u0 + 1 && u_len == 0), "empty update adds no bytes");
      else
        VASSERT(n_update == u0 + 1 && u_data == msg && u_len == len, "update forwards exactly (data, len) once");
      VASSERT(n_finish == f0 && n_reset == r0, "update neither finalises nor resets");
    } else if (op == 1) {             /* reset */
      p_crypto_hash_reset(h);
      VASSERT(n_reset == r0 + 1 && n_finish == f0 && n_update == u0, "reset resets the algorithm once");
      closed = 0; resets++;
    } else if (op == 2) {             /* hex string */
      int failed0 = vm_failed;
      pchar *s;
      int ok = 1;
      /* symbolic allocation failure for THIS read.  The two cases are executed on separate paths with concrete allocator
       * knobs, so the returned pointer is never a NULL/object mix (that mix cost 14 M clauses, 70-110 s per query) */
      if (ND_BOOL()) { vm_nalloc = 0; vm_fail_at = 1; vm_fail_from = 0; s = p_crypto_hash_get_string(h); }
      else           { vm_nalloc = 0; vm_fail_at = 0; vm_fail_from = 0; s = p_crypto_hash_get_string(h); }
      VASSERT(n_update == u0 && n_reset == r0, "reading neither updates nor resets");
      if (s == NULL) {
        /* out of memory.  pcryptohash.h does not say whether a failed read closes the hash, so only this is demanded: the
         * algorithm is finalised at most once, and if it WAS finalised the hash counts as read (no second finish, no update
         * into the finalised context) - otherwise the next successful read would not be the standard digest */
        VASSERT(vm_failed > failed0, "get_string returns NULL only when its allocation failed");
        VASSERT(n_finish == f0 + (closed ? 0 : 1) || n_finish == f0, "a failed read finalises at most once");
        if (n_finish != f0) closed = 1;
        oom_reads++;
      } else {
        VASSERT(n_finish == f0 + (closed ? 0 : 1), "first read finalises exactly once, repeated reads never again");
        for (j = 0; j < 64; j++) if (j < n) ok &= (s[2 * j] == lower_hex[sdig[j] >> 4] && s[2 * j + 1] == lower_hex[sdig[j] & 15]);
        ok &= (s[2 * n] == 0);
        VASSERT(ok, "hex string == lower-case hex of the digest of the bytes updated before the first read attempt, 2*length characters, NUL terminated");
        p_free(s);
        if (oom_reads) read_after_oom = 1;
        closed = 1; reads++;
      }
    } else {                          /* raw digest, symbolic buffer length */
      puchar out[66]; psize bl = (psize) ND_ULL(), bl0 = bl;
      int ok = 1;
      for (j = 0; j < 66; j++) out[j] = 0xEE;
      VASSUME(bl <= 65);
      p_crypto_hash_get_digest(h, out + 1, &bl);
      if (bl0 < n) {
        VASSERT(bl == 0, "short buffer: *len = 0");
        for (j = 0; j < 66; j++) ok &= (out[j] == 0xEE);
        VASSERT(ok, "short buffer: nothing written");
        /* whether a refused read finalises is not constrained by the property: resynchronise the model */
        VASSERT(n_finish == f0 || (!closed && n_finish == f0 + 1), "a refused read finalises at most once");
        if (n_finish != f0) closed = 1;
        shorts++;
      } else {
        VASSERT(bl == n, "*len = digest length");
        VASSERT(n_finish == f0 + (closed ? 0 : 1), "first read finalises exactly once, repeated reads never again");
        for (j = 0; j < 64; j++) if (j < n) ok &= (out[1 + j] == sdig[j]);
        ok &= (out[0] == 0xEE);
        for (j = 0; j < 65; j++) if (j >= bl0) ok &= (out[1 + j] == 0xEE);
        VASSERT(ok, "raw digest == digest of the bytes updated before the first read attempt; nothing written outside the caller's buffer");
        if (oom_reads) read_after_oom = 1;
        closed = 1; reads++;
      }
      VASSERT(n_update == u0 && n_reset == r0, "reading neither updates nor resets");
    }
    VASSERT(!wrong_ctx, "the algorithm is always called on the context created for this hash");
    VASSERT(!bad_digest, "every digest handed out is the one of a context finalised exactly once and not updated since: a read equals the digest of the bytes updated before the first read attempt, also after a read that failed for lack of memory");
    VASSERT(fin_since_reset <= 1 && !poisoned, "between creation/reset and the next reset the algorithm is finalised at most once and never updated afterwards, whatever fails");
  }
  p_crypto_hash_free(h);
  VASSERT(!wrong_ctx, "free is called on the context created for this hash");
  VWITNESS("sequence executed");
  if (reads >= 2) VWITNESS("digest read twice");
  if (ignored) VWITNESS("update after read ignored");
  if (resets && reads && ignored) VWITNESS("read, ignored update and reset in one sequence");
  if (shorts) VWITNESS("short buffer refused");
  if (oom_reads) VWITNESS("get_string failed for lack of memory");
  if (read_after_oom) VWITNESS("successful read after a read that failed for lack of memory");
#endif  /* OOM_NEW */
#endif
}
