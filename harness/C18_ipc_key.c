/* C18 (IPC part): the REAL pipc.c:p_ipc_get_platform_key (hash object, SHA-1 context, digest string, key)
 * under allocation failure at request index FAIL_AT (runner: 1..5; 5 = past the last request), once or from there on (symbolic): returns NULL or a
 * well-formed key, never touches invalid memory, leaves nothing allocated but the returned key. */
#include "verif.h"
#include "alloc.h"
#include <pmem.h>
#include <ptypes.h>
pchar *p_ipc_get_platform_key(const pchar *name, pboolean posix);
void harness(void) {
  vm_alloc_install();
  int before = vm_live;
  vm_nalloc = 0;
#ifdef FAIL_AT
  vm_fail_at = FAIL_AT;           /* runner case split (a symbolic index makes the SHA-1 data symbolic after the first join) */
#else
  vm_fail_at = ND_RANGE(0, 6);
#endif
  vm_fail_from = ND_BOOL();
  pchar *k = p_ipc_get_platform_key("a_p_shm_object", TRUE);
  VASSERT(vm_nalloc <= 5, "harness: failure index range covers every request");
  if (vm_failed == 0) VASSERT(k != NULL, "no failure injected: key computed");
  if (k != NULL) {
    VASSERT(k[0] == '/' && k[14] == 0, "returned key is well-formed");
    VASSERT(vm_live == before + 1, "only the returned key stays allocated");
    p_free(k);
  }
  VASSERT(vm_live == before, "nothing allocated during a failed call stays allocated");
  VWITNESS("done");
#if FAIL_AT <= 4
  if (k == NULL) VWITNESS("key computation failed cleanly");
#else
  if (k != NULL) VWITNESS("key computed");
#endif
}
