/* C11 kernel: the real static pp_crypto_hash_gost3411_sum_256 (GOST R 34.11-94 checksum / bit-counter adder) against a
 * reference 256-bit adder for ALL 2^512 operand pairs.  The step queries use the reference adder in its place. */
#include "verif.h"
#define ALG 6
#include "C11_alg.h"
void C11_SUM256(uint32_t a[8], const uint32_t b[8]);
void harness(void)
{
  uint32_t a[8], b[8], r[8]; unsigned i; uint64_t c = 0; int lost = 0, bad = 0;
  for (i = 0; i < 8; i++) { a[i] = ND_UINT(); b[i] = ND_UINT(); }
  for (i = 0; i < 8; i++) {
    uint64_t t = (uint64_t) a[i] + b[i] + c;
    /* the failing class of finding C11_gost_sum_carry: both limbs all-ones and a carry coming in (the carry out of limb 7
     * is discarded by the mod 2^256 sum anyway) */
    if (i < 7 && a[i] == 0xFFFFFFFFu && b[i] == 0xFFFFFFFFu && c) lost = 1;
    r[i] = (uint32_t) t; c = t >> 32;
  }
#ifdef KF_OPEN_C11_gost_sum_carry
  VASSUME(!lost);
#endif
#ifdef KF_DEMO
  VASSUME(lost);
#endif
  C11_SUM256(a, b);
  for (i = 0; i < 8; i++) bad |= (a[i] != r[i]);
#ifdef KF_DEMO
  VKF(!bad, "sum_256(a,b) == a + b mod 2^256 when a limb pair is 0xFFFFFFFF/0xFFFFFFFF with carry-in");
#else
  VASSERT(!bad, "sum_256(a,b) == a + b mod 2^256");
#endif
  VWITNESS("adder executed");
  if (c) VWITNESS("carry out of the top limb");
}
