/* C03 thread harness: client protocols on the REAL pcondvariable-posix.c + pmutex-posix.c over the pthread model.
 *
 * -DMODE_BUFFER (default): bounded buffer of capacity 1, one producer putting EVENTS items (1..EVENTS), NCONS consumers
 *    (EVENTS / NCONS items each), two condition variables (not_empty / not_full), predicate re-check loops under the mutex.
 *    Decided: no item lost or duplicated; after p_cond_variable_wait returns the caller owns THAT mutex (model owner);
 *    nobody else is in a monitor section at the same time; completion = transition-time deadlock check of the model
 *    (a lost wake-up leaves a waiter without pending signal when the last runnable thread blocks or finishes).
 * -DMODE_GATE: NWAIT threads wait for a flag (`while (!go) wait`), one thread sets it and BROADCASTS; all must finish
 *    (a broadcast that only signals leaves a waiter behind).
 * -DVM_SPURIOUS=n spurious wake-ups per thread are explored.
 */
#include "verif.h"
#include "pthread_model.h"
#include <pmem.h>
#include <pmutex.h>
#include <pcondvariable.h>

#ifndef EVENTS
#define EVENTS 1
#endif
#ifndef NCONS
#define NCONS 1
#endif
#ifndef NWAIT
#define NWAIT 2
#endif

static PMutex *M;
static PCondVariable *NOT_EMPTY, *NOT_FULL;
/* protocol state: plain shared integers protected by M */
int buf, full, go;
/* ghost */
int g_inside;          /* threads inside a monitor section */
int g_got_1, g_got_2;  /* how often item 1 / 2 was consumed */
int g_put;

#include "C01_store.h"

#ifdef MODE_GATE   /* the gate run decides completion only (monitor exclusion is the buffer run's subject): fewer shared accesses */
static void section_enter(void) { }
static void section_leave(void) { }
#else
static void section_enter(void) {
  VATOMIC_BEGIN();
  g_inside++;
  VASSERT(g_inside == 1, "monitor: nobody else is inside a section guarded by the mutex");
  VASSERT(vm_mutex_owner(0) == vm_self + 1, "the platform mutex of M is owned by the thread that is inside");
  VATOMIC_END();
}
static void section_leave(void) { VATOMIC_BEGIN(); g_inside--; VATOMIC_END(); }
#endif

static void lock(void) { pboolean ok = p_mutex_lock(M); VASSERT(ok == TRUE, "p_mutex_lock TRUE"); section_enter(); }
static void unlock(void) { section_leave(); pboolean ok = p_mutex_unlock(M); VASSERT(ok == TRUE, "p_mutex_unlock TRUE"); }
static void wait_on(PCondVariable *cv) {
  section_leave();
  pboolean ok = p_cond_variable_wait(cv, M);
#ifdef VM_WAKE_MONITOR
  vm_wake_delivered();   /* the wake-up reached the API caller (see pthread_model.c, wake-delivery monitor) */
#endif
  VASSERT(ok == TRUE, "p_cond_variable_wait TRUE");
  section_enter();     /* returns with M re-acquired by the caller: owner check + exclusivity */
}

static void finish(int nthreads_total) {
  (void) nthreads_total;
  vm_thread_finish();
  VATOMIC_BEGIN();
  if (vm_all_finished()) {
#ifdef MODE_GATE
    VWITNESS("gate: all threads ran to completion");
#else
    VASSERT(g_put == EVENTS, "producer put every item");
    VASSERT(g_got_1 == 1, "item 1 consumed exactly once");
#if EVENTS >= 2
    VASSERT(g_got_2 == 1, "item 2 consumed exactly once");
#endif
    VASSERT(full == 0, "buffer empty at the end");
    VWITNESS("buffer: all threads ran to completion");
#endif
  }
  VATOMIC_END();
}

#ifdef MODE_GATE
static void waiter(int id) {
  vm_thread_begin(id);
  lock();
  while (!go) wait_on(NOT_EMPTY);
  unlock();
  finish(NWAIT + 1);
}
static void releaser(int id) {
  vm_thread_begin(id);
  lock();
  go = 1;
  pboolean ok = p_cond_variable_broadcast(NOT_EMPTY);
  VASSERT(ok == TRUE, "p_cond_variable_broadcast TRUE");
  unlock();
  finish(NWAIT + 1);
}
#else
static void producer(int id) {
  vm_thread_begin(id);
  for (int i = 1; i <= EVENTS; i++) {
    lock();
    while (full) wait_on(NOT_FULL);
    buf = i; full = 1;
    VATOMIC_BEGIN(); g_put++; VATOMIC_END();
    pboolean ok = p_cond_variable_signal(NOT_EMPTY);
    VASSERT(ok == TRUE, "p_cond_variable_signal TRUE");
    unlock();
  }
  finish(NCONS + 1);
}
static void consumer(int id) {
  vm_thread_begin(id);
  for (int i = 0; i < EVENTS / NCONS; i++) {
    int x;
    lock();
    while (!full) wait_on(NOT_EMPTY);
    x = buf; full = 0;
    VATOMIC_BEGIN();
    VASSERT(x == 1 || x == 2, "consumed value is a produced item");
    if (x == 1) g_got_1++;
    if (x == 2) g_got_2++;
    VATOMIC_END();
    pboolean ok = p_cond_variable_signal(NOT_FULL);
    VASSERT(ok == TRUE, "p_cond_variable_signal TRUE");
    unlock();
  }
  finish(NCONS + 1);
}
#endif

void harness(void) {
  M = p_mutex_new();
  NOT_EMPTY = p_cond_variable_new();
  NOT_FULL = p_cond_variable_new();
  VASSERT(M != NULL && NOT_EMPTY != NULL && NOT_FULL != NULL, "objects created");
#ifdef MODE_GATE
  vm_thread_register(0); vm_thread_register(1);
#if NWAIT >= 2
  vm_thread_register(2);
#endif
  __CPROVER_ASYNC_1: releaser(0);
  __CPROVER_ASYNC_2: waiter(1);
#if NWAIT >= 2
  __CPROVER_ASYNC_3: waiter(2);
#endif
#else
  vm_thread_register(0); vm_thread_register(1);
#if NCONS >= 2
  vm_thread_register(2);
#endif
  __CPROVER_ASYNC_1: producer(0);
  __CPROVER_ASYNC_2: consumer(1);
#if NCONS >= 2
  __CPROVER_ASYNC_3: consumer(2);
#endif
#endif
}
