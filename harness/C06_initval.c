/* C06: the initial value really reaches the system.  p_semaphore_new on a name that does not exist
 * (CREATE mode and OPEN mode) - and, -DON_EXISTING, CREATE mode on a name that exists with another
 * value - is called with a FULLY SYMBOLIC pint init_val (all 2^32 values):
 *   init_val < 0  : documented invalid argument -> NULL, nothing created / nothing changed;
 *   init_val >= 0 : a handle, and the counter of the fresh generation published under the name holds
 *                   EXACTLY init_val (no clamping / truncation on the way to sem_open);
 * a later OPEN with a different, again fully symbolic, initial value joins that counter and leaves it
 * unchanged (its own value is ignored; a negative one is rejected without touching the counter). */
#include "verif.h"
#include "alloc.h"
#include "kernel_ipc.h"
#include <pmem.h>
#include <psemaphore.h>

void vk_other(void) {}

void harness(void) {
  vm_alloc_install();
  int init = ND_INT();                       /* any pint */
  int mode = ND_RANGE(0, 1);
  int old_obj = -1, v0_ghost = 0;
#ifdef ON_EXISTING
  /* the name exists with an arbitrary non-negative value, created by the other process */
  int v0 = ND_INT();
  VASSUME(v0 >= 0);
#ifdef SYSV
  VASSUME(v0 <= 32767);
#endif
  v0_ghost = v0;
  vk_cur = 1;
  PSemaphore *o = p_semaphore_new("a", v0, P_SEM_ACCESS_OPEN, NULL);
  VASSERT(o != NULL, "prologue: semaphore created");
  VASSUME(o != NULL);
  old_obj = vk_sem_linked(0);
  VASSERT(old_obj >= 0 && vk_sem_value(old_obj) == v0, "prologue: counter holds exactly the given value");
  VASSUME(mode == P_SEM_ACCESS_CREATE);
#ifdef KF_OPEN_C06_create_existing
  VASSUME(0);
#endif
#endif
  vk_cur = 0;
  PSemaphore *s = p_semaphore_new("a", init, (PSemaphoreAccessMode) mode, NULL);
#ifdef SYSV
  /* System V: semaphore values are limited to SEMVMX = 32767 by the platform (semctl SETVAL -> ERANGE); a larger
   * initial value cannot be honoured: the call must fail cleanly instead of publishing another value */
  if (init > 32767) {
    VASSERT(s == NULL, "System V: initial value above SEMVMX is refused");
    int o2 = vk_sem_linked(0);
    VASSERT(o2 < 0 || (o2 == old_obj && vk_sem_value(o2) == v0_ghost), "System V: refused call leaves no new semaphore and does not change an existing one");
    VWITNESS("initial value above SEMVMX refused");
    return;
  }
#endif
  if (init < 0) {
    VASSERT(s == NULL, "negative initial value is an invalid argument: NULL");
    VASSERT(vk_sem_linked(0) == old_obj, "rejected call neither creates nor replaces the semaphore");
    VWITNESS("negative initial value rejected");
    return;
  }
  VASSERT(s != NULL, "p_semaphore_new succeeds for every non-negative initial value");
  VASSUME(s != NULL);
  int obj = vk_sem_linked(0);
#ifdef SYSV
  VASSERT(obj >= 0, "the counter is published under the name");       /* System V CREATE on an existing name: SETVAL on the same set */
#else
  VASSERT(obj >= 0 && obj != old_obj, "a fresh counter is published under the name");
#endif
  VASSUME(obj >= 0);
  VASSERT(vk_sem_value(obj) == init, "fresh counter holds EXACTLY the given initial value (all 2^31 non-negative values)");
  /* a later OPEN with another symbolic value */
  int init2 = ND_INT();
  vk_cur = 1;
  PSemaphore *l = p_semaphore_new("a", init2, P_SEM_ACCESS_OPEN, NULL);
  VASSERT((l != NULL) == (init2 >= 0), "later OPEN succeeds iff its (ignored) initial value is a valid argument");
  VASSUME((l != NULL) == (init2 >= 0));
  VASSERT(vk_sem_linked(0) == obj && vk_sem_value(obj) == init, "later OPEN sees the same counter, value unchanged");
  if (l != NULL && init > 0) {
    vk_expect_noblock = 1;
    pboolean ok = p_semaphore_acquire(l, NULL);
    vk_expect_noblock = 0;
    VASSERT(ok == TRUE && vk_sem_value(obj) == init - 1, "the later handle operates on that counter");
  }
  VWITNESS("fresh counter checked");
#ifndef SYSV
  if (init > 1000000 && init2 != init && init2 >= 0) VWITNESS("large initial value, later OPEN with a different one");
#else
  if (init > 20000 && init2 != init && init2 >= 0) VWITNESS("large initial value, later OPEN with a different one");
#endif
#ifndef SYSV
  if (init == 2147483647) VWITNESS("initial value INT_MAX");
#else
  if (init == 32767) VWITNESS("initial value SEMVMX");
#endif
  if (init == 0) VWITNESS("initial value 0");
#ifndef ON_EXISTING
  if (mode == P_SEM_ACCESS_OPEN && init > 7000) VWITNESS("OPEN mode on a missing name, large value");
  if (mode == P_SEM_ACCESS_CREATE && init > 7000) VWITNESS("CREATE mode on a missing name, large value");
#endif
}
