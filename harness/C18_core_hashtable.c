/* C18 core / phashtable: new -> HOPS inserts (keys 1, 6, then 1-again-or-2, ...: a collision chain and a replacement
 * occur; -DSYMKEYS: symbolic keys 1..8) -> keys/values/lookup_by_value sweeps -> free, under the failing allocator.
 * Documented results: p_hash_table_new NULL; p_hash_table_insert silently does nothing;
 * the list-producing calls return the elements they could append (degraded: shorter list). */
#include "C18_core.h"
#include <phashtable.h>
#include <plist.h>
#ifndef HOPS
#define HOPS 3
#endif
static ppointer rk[HOPS], rv[HOPS]; static int rn;
static int ref_find(ppointer k) { for (int i = 0; i < HOPS; i++) if (i < rn && rk[i] == k) return i; return -1; }

static void same_as_model(PHashTable *t) {
  for (int i = 0; i < HOPS; i++) if (i < rn) VASSERT(p_hash_table_lookup(t, rk[i]) == rv[i], "stored pair still found with its value");
#ifdef SYMKEYS
  ppointer q = (ppointer) (size_t) ND_RANGE(1, 8);
#else
  ppointer q = (ppointer) (size_t) (ND_BOOL() ? 6 : 2);
#endif
  if (ref_find(q) < 0) VASSERT(p_hash_table_lookup(t, q) == (ppointer) -1, "key never stored (or whose insert failed) is absent");
}

/* l must be a duplicate-free sub-list of the model's keys (values); complete when nothing failed */
static void check_list(PList *l, int values, int failed) {
  int n = 0; int seen[HOPS] = {0};
  for (PList *p = l; p != NULL; p = p->next, n++) {
    int hit = -1;
    for (int i = 0; i < HOPS; i++) if (i < rn && !seen[i] && hit < 0 && (values ? rv[i] : rk[i]) == p->data) hit = i;
    VASSERT(hit >= 0, "every returned element is a stored key/value, none twice");
    if (hit >= 0) seen[hit] = 1;
  }
  if (!failed) VASSERT(n == rn, "complete list when no allocation failed");
  VASSERT(n <= rn, "list not longer than the table");
}

static void script(void) {
  c18_begin();
  int f0 = vm_failed;
  PHashTable *t = p_hash_table_new();
  if (C18_FAILED_SINCE(f0)) {
    VASSERT(t == NULL, "p_hash_table_new returns NULL when one of its two allocations fails");
    VASSERT(vm_live == c18_base, "failed p_hash_table_new leaves nothing allocated");
    p_hash_table_insert(NULL, (ppointer) 1, (ppointer) 2);   /* documented no-ops on NULL */
    p_hash_table_free(NULL);
    c18_end(0);
    return;
  }
  VASSERT(t != NULL, "p_hash_table_new succeeds when no allocation fails");
  int retried_ok = 0;
  for (int i = 0; i < HOPS; i++) {
#ifdef SYMKEYS
    ppointer k = (ppointer) (size_t) ND_RANGE(1, 8), v = (ppointer) (size_t) ND_RANGE(100, 103);
#else
    /* concrete keys 1, 6 (same bucket of 5), then 1 again (replacement) or 2, then 11 (same bucket), 3 */
    static const int ck[6] = {1, 6, 2, 11, 3, 16};
    ppointer k = (ppointer) (size_t) ((i == 2 && c18_choice) ? 1 : ck[i % 6]), v = (ppointer) (size_t) (100 + i);
#endif
    int at = ref_find(k);
    for (int attempt = 0; attempt < 2; attempt++) {      /* a failed insert is retried once */
      f0 = vm_failed;
      int live0 = vm_live;
      p_hash_table_insert(t, k, v);
      if (at >= 0) { rv[at] = v; VASSERT(vm_live == live0, "replacing a value leaves the number of blocks unchanged"); break; }
      if (C18_FAILED_SINCE(f0)) { VASSERT(vm_live == live0, "failed insert leaves nothing allocated"); same_as_model(t); continue; }
      rk[rn] = k; rv[rn] = v; rn++;
      if (attempt == 1) retried_ok = 1;
      break;
    }
    same_as_model(t);
  }
  int live1 = vm_live;
  f0 = vm_failed;
  PList *ks = p_hash_table_keys(t);
  check_list(ks, 0, C18_FAILED_SINCE(f0));
  p_list_free(ks);
  f0 = vm_failed;
  PList *vs = p_hash_table_values(t);
  check_list(vs, 1, C18_FAILED_SINCE(f0));
  p_list_free(vs);
  VASSERT(vm_live == live1, "lists freed: table allocations only");
  same_as_model(t);
  p_hash_table_free(t);
  c18_end(2 + HOPS + 2 * HOPS);
  if (rn == HOPS) VWITNESS("all inserts stored distinct keys");
#if !defined(NOFAIL) && !defined(FAILMODE_FROM)
  if (retried_ok) VWITNESS("a failed insert succeeded when retried and the pair is found");
#else
  (void) retried_ok;
#endif
  if (rn < HOPS && vm_failed == 0) VWITNESS("a replacement happened");
}
