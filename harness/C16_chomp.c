/* C16 (c) p_strchomp on any string of <= SMAX bytes (all 255 non-NUL values per byte): the result is a
 * fresh string equal to the input without leading and trailing white space (C locale isspace set,
 * written out here independently of the model); all-blank and empty inputs give "". */
#include "verif.h"
#include "alloc.h"
#include <pmem.h>
#include <pstring.h>
#ifndef SMAX
#define SMAX 8
#endif
static int ref_space(char c) { return c == ' ' || c == '\t' || c == '\n' || c == '\v' || c == '\f' || c == '\r'; }
void harness(void) {
  char s[SMAX + 1];
  int i, n = SMAX, a, b;
  pchar *r;
  vm_alloc_install();
  for (i = 0; i < SMAX; i++) s[i] = (char) ND_UCHAR();
  s[SMAX] = '\0';
  for (i = SMAX - 1; i >= 0; i--) if (s[i] == '\0') n = i;
  a = 0; for (i = 0; i < SMAX; i++) if (i == a && i < n && ref_space(s[i])) a++;
  b = n; for (i = SMAX - 1; i >= 0; i--) if (i == b - 1 && i >= a && ref_space(s[i])) b--;
  r = p_strchomp(s);
  VASSERT(r != NULL, "p_strchomp returns a string");
  VASSERT(r != s, "p_strchomp returns a new string");
  for (i = 0; i < SMAX; i++) if (i < b - a) {
    for (int p = 0; p < SMAX; p++) if (p == a + i) VASSERT(r[i] == s[p], "p_strchomp: characters between the outer blanks are kept");
  }
  for (i = 0; i <= SMAX; i++) if (i == b - a) VASSERT(r[i] == '\0', "p_strchomp: result ends after the last non-blank character");
  if (n == SMAX && a > 0 && b < n && b - a > 1) VWITNESS("full-length string with blanks on both sides");
  if (n > 1 && a == b) VWITNESS("all-blank string");
  if (n == 0) VWITNESS("empty string");
  p_free(r);
  VASSERT(p_strchomp(NULL) == NULL, "p_strchomp(NULL) is NULL");
  VWITNESS("end of harness");
}
