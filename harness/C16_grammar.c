/* C16 (b) documented grammar: file = PREFIX (concrete, lines end in '\n') + NLS symbolic line bodies of
 * LEN (LEN2) characters (any byte except '\n') each followed by '\n' (the last one only with -DEOL)
 * + SUFFIX (concrete, lines end in '\n').
 * The reference reader of C16_ref.h (written from pinifile.h) processes the same lines; if none of
 * them is outside the documented format (R_UNSPEC), the real parser's answer must equal the reference:
 *   same set of non-empty sections; per section the same number of listed keys, every listed key is a
 *   reference key and every reference key exists; value of a key = value of its LAST assignment.
 * -DBOM: the file starts with the UTF-8 byte-order mark.
 * -DKF_DEMO: restricts the symbolic line to the class of the open finding and turns the comparison
 *  assertions into KF assertions (demonstration query). */
#include "C16_common.h"
#include "C16_ref.h"
#ifndef PREFIX
#define PREFIX ""
#endif
#ifndef SUFFIX
#define SUFFIX ""
#endif
#ifndef LBS
#define LBS 4
#endif
#ifndef LBK
#define LBK 4
#endif
#ifndef NLS
#define NLS 1
#endif
#ifndef LEN2
#define LEN2 LEN
#endif
#ifdef KF_DEMO
#define GASSERT(c, m) VKF(c, m)
#else
#define GASSERT(c, m) VASSERT(c, m)
#endif

/* two separate 1-D arrays, NOT char line[2][RL]: CBMC 6.11 mis-resolves symbolic offsets into row 1 of a nested array */
static char line0[RL], line1[RL];

void harness(void) {
  PIniFile *ini;
  PList *secs, *s, *keys, *k;
  int pos = 0, i, j, l, nlisted = 0, nref = 0, nkeys_total = 0;
  vm_alloc_install();
#ifdef BOM
  vm_file_data[pos++] = 0xEF; vm_file_data[pos++] = 0xBB; vm_file_data[pos++] = 0xBF;
#endif
  pos = c16_put(pos, PREFIX);
  r_feed_text(PREFIX);
  for (l = 0; l < NLS; l++) {
    int len = (l == 0) ? LEN : LEN2;
    for (i = 0; i < RL - 1; i++) {
      if (i < len) {
        char c = c16_sym_char();
        VASSUME(c != '\n');
#ifdef FIRST
        if (i == 0 && l == 0) VASSUME(c == FIRST);
#endif
#ifdef NOTFIRST
        if (i == 0 && l == 0) VASSUME(vm_strchr(NOTFIRST, c) == NULL || c == 0);
#endif
        if (l == 0) line0[i] = c; else line1[i] = c;
        vm_file_data[pos++] = (unsigned char) c;
      }
    }
#ifndef EOL
    if (l < NLS - 1 || SUFFIX[0] != '\0')
#endif
      vm_file_data[pos++] = '\n';
    if (l == 0) r_feed(line0, len); else r_feed(line1, len);
  }
  pos = c16_put(pos, SUFFIX);
  r_feed_text(SUFFIX);
  vm_file_len = pos;
  VASSUME(!r_unspec);
  VASSERT(!r_overflow, "harness: reference store large enough");
#if defined(KF_DEMO) && KF_DEMO == 1
  VASSUME(r_comment_eq);       /* finding C16_comment_line_key */
#elif defined(KF_DEMO) && KF_DEMO == 2
  VASSUME(r_quoted_pair);      /* finding C16_quoted_empty_pair */
#endif

  ini = p_ini_file_new("f");
  VASSERT(ini != NULL, "p_ini_file_new succeeds");
  VASSERT(p_ini_file_parse(ini, NULL) == TRUE, "parse of a readable file returns TRUE");

  /* every listed section is a non-empty section of the reference, and there are equally many */
  secs = p_ini_file_sections(ini);
  for (s = secs; s != NULL && nlisted < LBS; s = s->next) {      /* bounded by construction; remainder asserted empty */
    int found = 0;
    for (j = 0; j < RNS; j++) if (j < r_ns && r_sec[j].nk > 0 && r_streq(r_sec[j].name, (const char *) s->data)) found = 1;
    GASSERT(found, "every listed section is a section of the file that has keys");
    nlisted++;
    p_free(s->data);
  }
  GASSERT(s == NULL, "not more sections listed than the file can have");
  p_list_free(secs);
  for (j = 0; j < RNS; j++) if (j < r_ns && r_sec[j].nk > 0) nref++;
  GASSERT(nlisted == nref, "each non-empty section is reported (exactly once), empty ones are skipped");

  for (j = 0; j < RNS; j++) if (j < r_ns && r_sec[j].nk > 0) {
    RSec *rs = &r_sec[j];
    int nk = 0;
    keys = p_ini_file_keys(ini, rs->name);
    for (k = keys; k != NULL && nk < LBK; k = k->next) {
      int found = 0;
      for (i = 0; i < RNK; i++) if (i < rs->nk && r_streq(rs->k[i], (const char *) k->data)) found = 1;
      GASSERT(found, "every listed key is a key assigned in that section of the file");
      nk++;
      p_free(k->data);
    }
    GASSERT(k == NULL, "not more keys listed than the file can have");
    p_list_free(keys);
    GASSERT(nk == rs->nk, "one listed key per key line of the section (comment/blank lines add none)");
    nkeys_total += nk;
    for (i = 0; i < RNK; i++) if (i < rs->nk) {
      int last = i, m;
      pchar *v;
      for (m = 0; m < RNK; m++) if (m > i && m < rs->nk && r_streq(rs->k[m], rs->k[i])) last = m;
      GASSERT(p_ini_file_is_key_exists(ini, rs->name, rs->k[i]), "every key of the file exists");
      v = p_ini_file_parameter_string(ini, rs->name, rs->k[i], NULL);
      GASSERT(v != NULL, "every key of the file has a value");
      if (v != NULL) {
        int same = 0;
        for (m = 0; m < RNK; m++) if (m == last) same = r_streq(v, rs->v[m]);   /* concrete row index, see C16_ref.h */
        GASSERT(same, "value = text after the first '=' without blanks/quotes/comment; last assignment wins");
        p_free(v);
      }
    }
  }
#ifdef WIT_KEYS
  if (nkeys_total >= WIT_KEYS) VWITNESS("all expected key lines can be present");
#endif
#ifdef WIT_SECS
  if (nref >= WIT_SECS) VWITNESS("all expected sections can be present");
#endif
#ifdef WIT_NONE
  if (nref == 0) VWITNESS("file without any non-empty section");
#endif
  p_ini_file_free(ini);
  VWITNESS("end of harness");
}
