/* Object storage for the C01-C03 harnesses: p_malloc0 / p_free supplied by the harness (the allocator is not the
 * subject here; objects are created before the first spawn).  Typed static slots mirror the unit-private structs so
 * that CBMC sees the fields as separate scalars (measured: rwlock counters packed in an untyped block cost 2x);
 * a slot is chosen by exact size, first fit.  Any other size (e.g. a struct that grew a field) falls back to
 * generic zeroed blocks - correct, only slower - so a layout change alone never fails a check. */
#ifndef C01_STORE_H
#define C01_STORE_H
#include <pthread.h>
#include <pmem.h>
#ifdef ST_PRE_HOOK   /* -DST_PRE_HOOK=fn: the allocator is a preemption point of the sequential nested-context emulation */
void ST_PRE_HOOK(void);
#define ST_PRE() ST_PRE_HOOK();
#else
#define ST_PRE()
#endif
#ifdef ST_ONLY_SPIN
/* lean variant for the atomic spinlock units (under --mm tso every static byte costs encoding steps) */
static struct { volatile pint spin; } st_spin;                 /* pspinlock-c11.c / -sync.c */
static unsigned long long st_gen0[2];
static _Bool st_spin_u, st_gen0_u;
static int st_nalloc, st_nfree;
#define ST_SLOT(o) if (!o##_u && n == sizeof o) { o##_u = 1; return &o; }
#define ST_GEN(o)  if (!o##_u) { o##_u = 1; return o; }
ppointer p_malloc0(psize n) {
  ST_PRE()
  if (n == 0) return NULL;
  st_nalloc++;
  ST_SLOT(st_spin)
  __CPROVER_assume(n <= sizeof st_gen0);   /* harness bound */
  ST_GEN(st_gen0)
  __CPROVER_assume(0);                     /* harness bound: one object */
  return NULL;
}
#else
static struct { void *mutex, *read_cv, *write_cv; puint32 active_threads, waiting_threads; } st_rw;   /* prwlock-general.c */
static struct { volatile pint spin; } st_spin;                 /* pspinlock-c11.c / -sync.c */
static struct { void *mutex; } st_simspin;                      /* pspinlock-sim.c */
static struct { pthread_mutex_t hdl; } st_mtx0, st_mtx1;        /* pmutex-posix.c */
static struct { pthread_cond_t hdl; } st_cv0, st_cv1;           /* pcondvariable-posix.c */
static struct { pthread_rwlock_t hdl; } st_prw;                 /* prwlock-posix.c */
static unsigned long long st_gen0[16], st_gen1[16], st_gen2[16], st_gen3[16];
static _Bool st_rw_u, st_spin_u, st_simspin_u, st_mtx0_u, st_mtx1_u, st_cv0_u, st_cv1_u, st_prw_u, st_gen0_u, st_gen1_u, st_gen2_u, st_gen3_u;
static int st_nalloc, st_nfree;
#define ST_SLOT(o) if (!o##_u && n == sizeof o) { o##_u = 1; return &o; }
#define ST_GEN(o)  if (!o##_u) { o##_u = 1; return o; }
ppointer p_malloc0(psize n) {
  ST_PRE()
  if (n == 0) return NULL;
  st_nalloc++;
  ST_SLOT(st_rw) ST_SLOT(st_spin) ST_SLOT(st_simspin) ST_SLOT(st_mtx0) ST_SLOT(st_mtx1) ST_SLOT(st_cv0) ST_SLOT(st_cv1) ST_SLOT(st_prw)
  __CPROVER_assume(n <= sizeof st_gen0);   /* harness bound: objects of at most 128 bytes */
  ST_GEN(st_gen0) ST_GEN(st_gen1) ST_GEN(st_gen2) ST_GEN(st_gen3)
  __CPROVER_assume(0);                     /* harness bound: at most 4 objects of unforeseen size */
  return NULL;
}
#endif
void p_free(ppointer p) { if (p != NULL) st_nfree++; }
#endif
