/* C20 (lock modules): resource neutrality of the lock constructors/destructors incl. failing pthread_*_init;
 * same script as C18_thread_locks.c with the symbolic pthread fault budget switched on. */
#define C20_MODE 1
#include "C18_thread_locks.c"
