/* C11 (c) known-answer vectors evaluated THROUGH THE ENCODING: the real dispatcher + the real algorithm (compression
 * function included) on concrete messages; symbolic execution constant-folds the whole computation, the assertions compare
 * hex string and raw digest with the published/independently computed digests of C11_kat.h (7 messages per type: empty,
 * "abc", the 448- and 896-bit FIPS messages, block-1 / block / block+1 pattern bytes).  Validates the translation of the
 * compression functions (any edit of a round constant, rotation, S-box entry or initial value changes these digests),
 * the type->algorithm/length mapping of p_crypto_hash_new, reset (ONE hash object is reused for all messages via
 * p_crypto_hash_reset) and one concrete two-chunk split per message.  -DTYPE=<PCryptoHashType>. */
#include "verif.h"
#include "alloc.h"
#include <pmem.h>
#include <pcryptohash.h>
#include "C11_kat.h"
static unsigned hexval(char c) { return (c >= '0' && c <= '9') ? (unsigned) (c - '0') : (unsigned) (c - 'a' + 10); }
void harness(void)
{
  static const unsigned outlen[11] = {16, 20, 28, 32, 48, 64, 28, 32, 48, 64, 32};
  unsigned n = outlen[TYPE], i, m;
  PCryptoHash *h;
  vm_alloc_install();
  h = p_crypto_hash_new((PCryptoHashType) TYPE);
  VASSERT(h != NULL, "hash object created");
  VASSERT(p_crypto_hash_get_length(h) == (pssize) n, "digest length of the type");
  VASSERT(p_crypto_hash_get_type(h) == (PCryptoHashType) TYPE, "type reported");
  for (m = 0; m < C11_NKAT; m++) {
    const c11_kat *v = &c11_kats[TYPE][m];
    unsigned split = (m * 29 + 1) % 61;          /* 1, 30, 59, 27, 56, 24, 53 */
    pchar *s; puchar raw[64]; psize rl = 64; int ok = 1;
    if (m > 0) p_crypto_hash_reset(h);
    if ((m & 1) && split < v->len) {
      p_crypto_hash_update(h, (const puchar *) v->msg, (psize) split);
      p_crypto_hash_update(h, (const puchar *) v->msg + split, (psize) (v->len - split));
    } else if (v->len > 0)
      p_crypto_hash_update(h, (const puchar *) v->msg, (psize) v->len);
    s = p_crypto_hash_get_string(h);
    VASSERT(s != NULL, "hex string returned");
    for (i = 0; i < 2 * n; i++) ok &= (s[i] == v->hex[i]);
    ok &= (s[2 * n] == 0);
    VASSERT(ok, "hex digest == standard digest of the message (lower case, 2*length characters, terminated)");
    p_crypto_hash_get_digest(h, raw, &rl);
    VASSERT(rl == n, "raw digest length");
    ok = 1;
    for (i = 0; i < n; i++) ok &= (raw[i] == (puchar) (hexval(v->hex[2 * i]) * 16 + hexval(v->hex[2 * i + 1])));
    VASSERT(ok, "raw digest == standard digest of the message");
    p_free(s);
  }
  p_crypto_hash_free(h);
  VWITNESS("all vectors evaluated");
}
