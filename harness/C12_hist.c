/* C12 instance of the from-empty history harness */
#define CHK_MAP 1
#include "trees_hist.h"
