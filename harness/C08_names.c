/* C08: long names through the real p_shm_buffer_new / p_shm_new name handling + real SHA-1 key (see C06_names.c) */
#define KIND 2
#include "C06_names.c"
