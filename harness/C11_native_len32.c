/* C11 native demonstration of findings C11_len32_{md5,sha1,sha2_256}: one update of 2^32+5 bytes vs the same bytes in 1 GiB chunks.
 * gcc -O2 -o huge C11_native_len32.c -I/repo/src -I/repo/_build/src -L/repo/_build/src -lplibsys -Wl,-rpath,/repo/_build/src; ./huge <PCryptoHashType>
 * measured on the unchanged tree: types 0,1,2,3 DIFFERENT; 5 (SHA-512), 7 (SHA3-256), 10 (GOST, nothing pending) same; needs 4 GiB RAM, 20-60 s. */
#include <plibsys.h>
#include <stdio.h>
#include <stdlib.h>
#include <string.h>
int main(int argc, char **argv) {
  size_t n = ((size_t) 1 << 32) + 5, i; int t = atoi(argv[1]);
  unsigned char *m = malloc(n); if (!m) return 2;
  p_libsys_init();
  for (i = 0; i < n; i += 4096) m[i] = (unsigned char) (i >> 12); /* touch pages */
  memset(m, 'a', 64);
  PCryptoHash *a = p_crypto_hash_new(t), *b = p_crypto_hash_new(t);
  p_crypto_hash_update(a, m, n);
  for (i = 0; i < n; i += (size_t) 1 << 30) p_crypto_hash_update(b, m + i, (n - i) < ((size_t) 1 << 30) ? (n - i) : ((size_t) 1 << 30));
  char *sa = p_crypto_hash_get_string(a), *sb = p_crypto_hash_get_string(b);
  printf("type %d single : %s\ntype %d chunked: %s\n%s\n", t, sa, t, sb, strcmp(sa, sb) ? "DIFFERENT" : "same");
  return 0;
}
