/* stdio model for C16: one in-memory file (content and length set by the harness, may be symbolic)
 * behind fopen/fgets/fclose, and sscanf restricted to the directive kinds pinifile.c uses
 * (white space, literal characters, %%, %[set] / %[^set] with optional field width; plus the numeric
 * conversions d i u x o f e g without width, should a unit start using them), written from
 * C11 7.21.6.2 / 7.21.7.2 and validated against glibc by lib/sscanf_diff.c. */
#ifndef VM_STDIO_MODEL_H
#define VM_STDIO_MODEL_H
#include <stdio.h>
#ifndef VM_FILE_MAX
#define VM_FILE_MAX 48
#endif
extern unsigned char vm_file_data[VM_FILE_MAX];
extern int vm_file_len;        /* number of bytes in the file, 0..VM_FILE_MAX */
extern int vm_file_missing;    /* nonzero: fopen fails (returns NULL) */
extern int vm_open_files;      /* streams currently open */
extern int vm_fopen_calls, vm_fgets_calls, vm_fclose_calls;
FILE *vm_fopen(const char *path, const char *mode);
char *vm_fgets(char *s, int size, FILE *f);
int   vm_fclose(FILE *f);
int   vm_sscanf(const char *str, const char *fmt, ...);
#endif
