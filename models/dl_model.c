#include "verif.h"
#include "dl_model.h"
#include <errno.h>
#include <stddef.h>

int vm_dl_open, vm_dl_opened, vm_dl_closed;
int vm_dl_fault_at[2], vm_dl_calls, vm_dl_faults;

static struct vm_dlhandle { int open; } vm_dl_handles[VM_DL_MAXHANDLES];
static char vm_dl_errtext[] = "dl: failed";
static char *vm_dl_pending;
static void vm_dl_symbol_target(void) { }

static int vm_dl_fault(void) {
  vm_dl_calls++;
  if (vm_dl_calls == vm_dl_fault_at[0] || vm_dl_calls == vm_dl_fault_at[1]) { vm_dl_faults++; return 1; }
  return 0;
}
static int vm_dl_slot(void *h) {
  for (int i = 0; i < VM_DL_MAXHANDLES; i++) if (h == (void *) &vm_dl_handles[i]) return i;
  return -1;
}

int vm_access(const char *path, int mode) {
  char c = path[0]; (void) c; (void) mode;
  if (vm_dl_fault()) { errno = ENOENT; return -1; }
  return 0;
}

void *vm_dlopen(const char *path, int flags) {
  char c = path[0]; (void) c; (void) flags;
  if (vm_dl_fault()) { vm_dl_pending = vm_dl_errtext; return NULL; }
  for (int i = 0; i < VM_DL_MAXHANDLES; i++) if (!vm_dl_handles[i].open) {
    vm_dl_handles[i].open = 1;
    vm_dl_open++; vm_dl_opened++;
    return (void *) &vm_dl_handles[i];
  }
  VASSERT(0, "dl model: more than VM_DL_MAXHANDLES handles open at once (harness bound)");
  return NULL;
}

void *vm_dlsym(void *handle, const char *name) {
  int i = vm_dl_slot(handle);
  VASSERT(i >= 0 && vm_dl_handles[i].open, "dlsym is given an open handle");
  if (name[0] == 'z' || vm_dl_fault()) { vm_dl_pending = vm_dl_errtext; return NULL; }
  return (void *) vm_dl_symbol_target;
}

int vm_dlclose(void *handle) {
  int i = vm_dl_slot(handle);
  VASSERT(i >= 0 && vm_dl_handles[i].open, "dlclose is given an open handle (each handle closed exactly once)");
  if (i < 0 || !vm_dl_handles[i].open) return -1;
  vm_dl_handles[i].open = 0;
  vm_dl_open--; vm_dl_closed++;
  return 0;
}

char *vm_dlerror(void) {
  char *r = vm_dl_pending;
  vm_dl_pending = NULL;
  return r;
}
