/* Bounded, index-based C-locale models of the <string.h>/<ctype.h>/<stdlib.h> functions used by
 * pinifile.c, pstring.c and pmem.c (C11 7.24, 7.4, 7.22.1.2).  Plain loops over char indices: CBMC
 * unrolls them under per-loop --unwindset bounds and checks every access against the real object
 * bounds.  Also compiled natively (lib/sscanf_diff.c, replay). */
#ifndef VM_CSTRING_MODEL_H
#define VM_CSTRING_MODEL_H
#include <stddef.h>
size_t vm_strlen(const char *s);
char  *vm_strcpy(char *d, const char *s);
int    vm_strcmp(const char *a, const char *b);
char  *vm_strchr(const char *s, int c);
void  *vm_memcpy(void *d, const void *s, size_t n);
void  *vm_memset(void *d, int c, size_t n);
int    vm_isspace(int c);
int    vm_isdigit(int c);
int    vm_atoi(const char *s);
/* the other libc number parsers a unit could call instead (C11 7.22.1.3/.4); bounded by the string length */
long               vm_strtol(const char *s, char **end, int base);
long long          vm_strtoll(const char *s, char **end, int base);
unsigned long      vm_strtoul(const char *s, char **end, int base);
unsigned long long vm_strtoull(const char *s, char **end, int base);
long               vm_atol(const char *s);
long long          vm_atoll(const char *s);
double             vm_strtod(const char *s, char **end);
double             vm_atof(const char *s);
int    vm_strncmp(const char *a, const char *b, size_t n);
int    vm_strcasecmp(const char *a, const char *b);
int    vm_strncasecmp(const char *a, const char *b, size_t n);
/* scanning cores shared with the sscanf model (models/stdio_model.c) */
unsigned long long vm_scan_int(const char *s, int base, int scanf_mode, size_t *endi, int *neg, int *ovf);
double vm_scan_float(const char *s, int scanf_mode, size_t *endi);
#endif
