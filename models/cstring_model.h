/* Bounded, index-based C-locale models of the <string.h>/<ctype.h>/<stdlib.h> functions used by
 * pinifile.c, pstring.c and pmem.c (C11 7.24, 7.4, 7.22.1.2).  Plain loops over char indices: CBMC
 * unrolls them under per-loop --unwindset bounds and checks every access against the real object
 * bounds.  Also compiled natively (lib/sscanf_diff.c, replay). */
#ifndef VM_CSTRING_MODEL_H
#define VM_CSTRING_MODEL_H
#include <stddef.h>
size_t vm_strlen(const char *s);
char  *vm_strcpy(char *d, const char *s);
int    vm_strcmp(const char *a, const char *b);
char  *vm_strchr(const char *s, int c);
void  *vm_memcpy(void *d, const void *s, size_t n);
void  *vm_memset(void *d, int c, size_t n);
int    vm_isspace(int c);
int    vm_isdigit(int c);
int    vm_atoi(const char *s);
#endif
