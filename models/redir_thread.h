/* Force-included into the real plibsys thread/lock units: system headers first, then every pthread /
 * sched call is redirected to the sequential emulation (models/thread_emul.c) and the __atomic builtins
 * to preemption-point models (thread_atomics.h).  Keeps CBMC's built-in pthread library models out. */
#ifndef REDIR_THREAD_H
#define REDIR_THREAD_H
#include <unistd.h>
#include <stdlib.h>
#include <string.h>
#include <errno.h>
#include <pthread.h>
#include <sched.h>
#include <time.h>
#include "thread_emul.h"
#include "thread_atomics.h"
#define pthread_create            te_pthread_create
#define pthread_join              te_pthread_join
#define pthread_detach            te_pthread_detach
#define pthread_exit              te_pthread_exit
#define pthread_self              te_pthread_self
#define pthread_key_create        te_pthread_key_create
#define pthread_key_delete        te_pthread_key_delete
#define pthread_getspecific       te_pthread_getspecific
#define pthread_setspecific       te_pthread_setspecific
#define pthread_attr_init         te_pthread_attr_init
#define pthread_attr_destroy      te_pthread_attr_destroy
#define pthread_attr_setdetachstate  te_pthread_attr_setdetachstate
#define pthread_attr_setinheritsched te_pthread_attr_setinheritsched
#define pthread_attr_getschedpolicy  te_pthread_attr_getschedpolicy
#define pthread_attr_setschedpolicy  te_pthread_attr_setschedpolicy
#define pthread_attr_setschedparam   te_pthread_attr_setschedparam
#define pthread_attr_setstacksize    te_pthread_attr_setstacksize
#define pthread_getschedparam     te_pthread_getschedparam
#define pthread_setschedparam     te_pthread_setschedparam
#define pthread_setname_np        te_pthread_setname_np
#define sched_get_priority_min    te_sched_get_priority_min
#define sched_get_priority_max    te_sched_get_priority_max
#define sched_yield               te_sched_yield
#define sysconf                   te_sysconf
#define pthread_mutex_init        te_pthread_mutex_init
#define pthread_mutex_destroy     te_pthread_mutex_destroy
#define pthread_mutex_lock        te_pthread_mutex_lock
#define pthread_mutex_trylock     te_pthread_mutex_trylock
#define pthread_mutex_unlock      te_pthread_mutex_unlock
#define pthread_cond_init         te_pthread_cond_init
#define pthread_cond_destroy      te_pthread_cond_destroy
#define pthread_cond_wait         te_pthread_cond_wait
#define pthread_cond_signal       te_pthread_cond_signal
#define pthread_cond_broadcast    te_pthread_cond_broadcast
#define pthread_rwlock_rdlock     te_pthread_rwlock_rdlock
#define pthread_rwlock_wrlock     te_pthread_rwlock_wrlock
#define pthread_rwlock_tryrdlock  te_pthread_rwlock_tryrdlock
#define pthread_rwlock_trywrlock  te_pthread_rwlock_trywrlock
#define pthread_rwlock_unlock     te_pthread_rwlock_unlock
#define pthread_rwlock_init       te_pthread_rwlock_init
#define pthread_rwlock_destroy    te_pthread_rwlock_destroy
#endif
