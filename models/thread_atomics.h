/* Redirect of the GCC __atomic builtins used by patomic-c11.c / pspinlock-c11.c for the SEQUENTIAL
 * nested-atomic thread emulation (models/thread_emul.c): every atomic operation is first a preemption
 * point (te_preempt() may run a pending thread's whole start routine, nested) and then the plain C
 * operation, indivisible because the emulation is sequential.  Memory-order arguments are ignored
 * (sequential consistency of the emulation; ordering is C04's subject).
 * CBMC's own builtin models are not used: __atomic_store_4/_load_4 are unknown to its front end
 * (silent havoc) and __atomic_compare_exchange_n aborts pointer checks.  Force-include only. */
#ifndef THREAD_ATOMICS_H
#define THREAD_ATOMICS_H
void te_preempt(void);

#define TE_ATOMIC_LOAD(p, mo)        ({ te_preempt(); *(p); })
#define TE_ATOMIC_STORE(p, v, mo)    ({ te_preempt(); *(p) = (v); (void) 0; })
#define TE_ATOMIC_RMW(p, v, op)      ({ te_preempt(); __typeof__(*(p)) te_o_ = *(p); *(p) = (__typeof__(*(p))) (te_o_ op (v)); te_o_; })

#define __atomic_load_4(p, mo)       TE_ATOMIC_LOAD(p, mo)
#define __atomic_load_8(p, mo)       TE_ATOMIC_LOAD(p, mo)
#define __atomic_load_n(p, mo)       TE_ATOMIC_LOAD(p, mo)
#define __atomic_store_4(p, v, mo)   TE_ATOMIC_STORE(p, v, mo)
#define __atomic_store_8(p, v, mo)   TE_ATOMIC_STORE(p, v, mo)
#define __atomic_store_n(p, v, mo)   TE_ATOMIC_STORE(p, v, mo)
#define __atomic_fetch_add(p, v, mo) TE_ATOMIC_RMW(p, v, +)
#define __atomic_fetch_sub(p, v, mo) TE_ATOMIC_RMW(p, v, -)
#define __atomic_fetch_and(p, v, mo) TE_ATOMIC_RMW(p, v, &)
#define __atomic_fetch_or(p, v, mo)  TE_ATOMIC_RMW(p, v, |)
#define __atomic_fetch_xor(p, v, mo) TE_ATOMIC_RMW(p, v, ^)
#define __atomic_compare_exchange_n(p, e, d, weak, smo, fmo) \
  ({ te_preempt(); _Bool te_ok_ = (*(p) == *(e)); if (te_ok_) *(p) = (d); else *(e) = *(p); te_ok_; })
#endif
