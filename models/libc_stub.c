/* printf used by P_ERROR/P_WARNING/P_DEBUG: formatting is not the subject of any property */
#include <stdarg.h>
int printf(const char *fmt, ...) { (void) fmt; return 0; }
