/* Force-included in src/pshmbuffer.c (C08): memcpy/memset become bounded byte loops that report every
 * range they touch to the harness (`vm_mem_access`), which checks it against the segment / caller
 * buffer bounds and the lock state.  All segment accesses of pshmbuffer.c go through memcpy/memset. */
#ifndef VM_REDIR_IPC_MEM_H
#define VM_REDIR_IPC_MEM_H
#include <string.h>
#include <stddef.h>
void *vm_memcpy(void *dst, const void *src, size_t n);
void *vm_memset(void *dst, int c, size_t n);
void vm_mem_access(const void *p, size_t n, int is_write);   /* supplied by the harness */
#undef memcpy
#undef memset
#define memcpy vm_memcpy
#define memset vm_memset
#endif
