/* Dynamic-loader model for plibraryloader-posix.c (+ access() for pfile.c:p_file_is_exists) (C18, C20).
 * Contract (POSIX.1-2017 dlopen/dlsym/dlclose/dlerror, access):
 *  vm_access(p, mode)  p readable; 0 (file exists), or -1/ENOENT when the fault budget allows and the solver chooses so.
 *  vm_dlopen(p, flags) p readable; NULL (error text pending) budget permitting; otherwise a fresh OPEN handle.
 *  vm_dlsym(h, name)   h must be an OPEN handle of this model (asserted).  Names starting with 'z' are absent from the library:
 *                      NULL with an error text pending.  Otherwise a non-NULL address, or NULL budget permitting.
 *  vm_dlclose(h)       h must be an OPEN handle (asserted: each handle is closed exactly once, never a foreign pointer); returns 0.
 *  vm_dlerror()        the pending error text (and clears it), or NULL when none is pending.
 * Ledger: vm_dl_open = handles currently open; vm_dl_opened / vm_dl_closed = totals.
 * Faults: the calls that can fail (access, dlopen, dlsym of a present symbol) are numbered 1, 2, ... in execution order (vm_dl_calls);
 * the calls number vm_dl_fault_at[0] and vm_dl_fault_at[1] (set by the harness, symbolic; 0 = none) fail; vm_dl_faults counts them.
 * "budget permitting" below means: this call's number is one of the two. */
#ifndef VM_DL_MODEL_H
#define VM_DL_MODEL_H
#ifndef VM_DL_MAXHANDLES
#define VM_DL_MAXHANDLES 2
#endif
extern int vm_dl_open, vm_dl_opened, vm_dl_closed;
extern int vm_dl_fault_at[2], vm_dl_calls, vm_dl_faults;
int   vm_access(const char *path, int mode);
void *vm_dlopen(const char *path, int flags);
void *vm_dlsym(void *handle, const char *name);
int   vm_dlclose(void *handle);
char *vm_dlerror(void);
#endif
