/* Socket kernel model: descriptor table, stream byte queues, datagram queues with sender address,
 * symbolic fault schedule, symbolic monotone clock driven by poll, descriptor access ledger.
 *
 * Contracts (documented POSIX / Linux behaviour of NON-BLOCKING descriptors):
 *  - descriptors are handed out in increasing order and never reused, so "closed exactly once" and
 *    "touched after close" are decidable from per-slot counters;
 *  - every transfer call (send/recv/sendto/recvfrom/connect/accept/poll) first consults the fault
 *    schedule: while the per-library-call budget lasts it may fail with EINTR, fail with EAGAIN
 *    (spurious readiness), transfer fewer bytes than possible (streams) or fail with a given hard errno;
 *  - stream: bytes are appended to the peer's receive queue (capacity VS_CAP) and removed from its head;
 *    datagram: whole messages with the sender's bound address, cut to the receive buffer on delivery;
 *  - poll: returns 1 when the condition holds (possibly after the pending environment action fired),
 *    -1/EINTR after advancing the clock by <= timeout, 0 after advancing it by exactly timeout; with a
 *    negative timeout and a condition that never becomes true the call never returns (path pruned);
 *  - close: releases an open descriptor and returns 0 (or, when the harness grants it, releases it and reports
 *    -1/EINTR: Linux semantics of an interrupted close), otherwise -1/EBADF + violation (double close); a stream closed with SO_LINGER {on, 0}
 *    is aborted (queued data toward the peer dropped, peer sees ECONNRESET), any other close is graceful;
 *  - a write to a stream whose peer is gone / that was shut down for writing fails with EPIPE and
 *    would raise SIGPIPE unless MSG_NOSIGNAL is passed or the disposition is SIG_IGN. */
#include "verif.h"
#include "kernel_sock.h"
#include <errno.h>
#include <fcntl.h>
#include <stdarg.h>
#undef errno

struct vs_world vs;
int vs_errno;

#define VFD_DEF_B(f) _Bool vfd_##f[VS_NFD];
#define VFD_DEF_I(f) int vfd_##f[VS_NFD];
VFD_BOOLS(VFD_DEF_B)
VFD_INTS(VFD_DEF_I)
int vfd_pend[VS_NFD][VS_PEND];
unsigned char vfd_local[VS_NFD][VS_ALEN], vfd_remote[VS_NFD][VS_ALEN], vfd_rx[VS_NFD][VS_CAP];
long long vfd_tx_total[VS_NFD], vfd_rx_total[VS_NFD];
int vfd_dq_len[VS_NFD][VS_DQ], vfd_dq_from[VS_NFD][VS_DQ];
unsigned char vfd_dq_data[VS_NFD][VS_DQ][VS_CAP];

static int vs_fail(int e) { vs_errno = e; vs.last_fail_errno = e; return -1; }

/* a GENUINE would-block: the kernel state does not let the operation proceed now (not an injected spurious EAGAIN) */
static int vs_wb(int e) { vs.wb_seen = 1; return vs_fail(e); }

/* Safety monitor at the entry of every transfer / accept / connect / poll: when the harness has declared the
 * current library call as made on a NON-BLOCKING socket (vs.nb_call) and the kernel has already answered it
 * with a genuine would-block, the call has to return - any further attempt or wait is a violation.  Decided
 * at the 2nd attempt, independent of loop bounds (a spinning retry loop would otherwise only trip an
 * unwinding assertion = inconclusive). */
static void vs_nb_entry(void) {
  if (vs.nb_call && vs.wb_seen) VASSERT(0, "non-blocking call must not retry or wait after the kernel reported would-block");
}

void vs_reset(void) {
  /* statics are zero-initialised; only the non-zero defaults */
  for (int i = 0; i < VS_NFD; i++) { vfd_peer[i] = -1; }
  vs.fault_mask = 0; vs.poll_tmo_min = 0x7fffffff; vs.poll_tmo_max = -1;
}

static int vs_slot(void) {
  if (vs.nfd >= VS_NFD) return -1;
  int i = (vs.nfd + VS_ROT) % VS_NFD;
  vs.nfd++;
  vfd_peer[i] = -1;
  return i;
}

int vs_mkfd(int type, int family) {
  int i = vs_slot();
  VASSERT(i >= 0, "model: enough descriptor slots for the fixture");
  vfd_open[i] = 1; vfd_type[i] = type; vfd_family[i] = family;
  return VS_FD0 + i;
}

int vs_open_count(void) {
  int c = 0;
  for (int i = 0; i < VS_NFD; i++) if (vfd_open[i]) c++;
  return c;
}

static int vs_natlen(int family) { return family == AF_INET6 ? (int) sizeof(struct sockaddr_in6) : (int) sizeof(struct sockaddr_in); }

void vs_set_local(int fd, const void *sa, int len) {
  int i = fd - VS_FD0;
  for (int k = 0; k < VS_ALEN; k++) vfd_local[i][k] = k < len ? ((const unsigned char *) sa)[k] : 0;
  vfd_locallen[i] = len; vfd_bound[i] = 1;
}

static void vs_autobind(int i) {
  if (vfd_bound[i]) return;
  struct sockaddr sa; sa.sa_family = (sa_family_t) vfd_family[i];
  for (int k = 0; k < VS_ALEN; k++) vfd_local[i][k] = 0;
  vfd_local[i][0] = ((unsigned char *) &sa.sa_family)[0];
  vfd_local[i][1] = ((unsigned char *) &sa.sa_family)[1];
  vfd_local[i][2] = 0xC0; vfd_local[i][3] = (unsigned char) (i + 1);   /* ephemeral port 49153+i */
  vfd_locallen[i] = vs_natlen(vfd_family[i]); vfd_bound[i] = 1;
}

void vs_pair(int a, int b) {
  int i = a - VS_FD0, j = b - VS_FD0;
  vs_autobind(i); vs_autobind(j);
  vfd_connected[i] = 1; vfd_connected[j] = 1; vfd_peer[i] = j; vfd_peer[j] = i;
  for (int k = 0; k < VS_ALEN; k++) { vfd_remote[i][k] = vfd_local[j][k]; vfd_remote[j][k] = vfd_local[i][k]; }
  vfd_remotelen[i] = vfd_locallen[j]; vfd_remotelen[j] = vfd_locallen[i];
}

void vs_begin_call(int faults, int mask) {
  vs.fault_budget = faults; vs.fault_mask = mask;
  vs.npoll = 0; vs.npoll_inf = 0; vs.poll_tmo_min = 0x7fffffff; vs.poll_tmo_max = -1;
  vs.last_poll_zero = 0; vs.last_fail_errno = 0;
  vs.nb_call = 0; vs.wb_seen = 0; vs.close_eintr_budget = 0;
  vs.xfer_calls = 0; vs.xfer_ptr = 0; vs.xfer_len = 0; vs.xfer_ret = 0; vs.xfer_flags = 0; vs.xfer_fd = -1;
}

/* Descriptor lookup of a syscall: counts the access; EBADF + ledger entry when the descriptor is not open.
 * The body of every call runs with a CONSTANT slot number (one unrolled case per slot; infeasible cases
 * fold away): a symbolic slot would turn every table access into a case split over all slots and bytes
 * (measured: 100x more program steps when the library's fd field is "fd or -1"). */
#define VS_DISPATCH(fd, CALL) \
  vs.ncalls++; \
  for (int i_ = 0; i_ < VS_NFD; i_++) if ((fd) == VS_FD0 + i_) { if (!vfd_open[i_]) break; return CALL; } \
  vs.bad_access++; return vs_fail(EBADF)

static int vs_fault(int allowed) {
  if (vs.fault_budget <= 0) return VS_F_NONE;
  int k = ND_RANGE(0, 4);
  if (k == VS_F_NONE || !((1 << k) & allowed & vs.fault_mask)) return VS_F_NONE;
  vs.fault_budget--; vs.nfaults++;
  return k;
}

static int vs_sysfail(void) {
  if (vs.sysfail_budget <= 0) return 0;
  if (!ND_BOOL()) return 0;
  vs.sysfail_budget--; vs.nsysfail++;
  return 1;
}

static void vs_sigpipe(int flags) {
  if (!(flags & MSG_NOSIGNAL) && vs.sigpipe_disp != VS_SIG_IGN) vs.sigpipe_raised = 1;
}

static _Bool vs_same_port(const unsigned char *a, const unsigned char *b) {
  return a[0] == b[0] && a[1] == b[1] && a[2] == b[2] && a[3] == b[3];   /* family + port */
}

/* ------------------------------------------------------------------ creation / options */

int vm_socket(int domain, int type, int protocol) {
  int base = type & ~(SOCK_CLOEXEC | SOCK_NONBLOCK);
  if (domain != AF_INET && domain != AF_INET6) return vs_fail(EAFNOSUPPORT);
  if (base != SOCK_STREAM && base != SOCK_DGRAM) return vs_fail(base == SOCK_SEQPACKET ? EPROTONOSUPPORT : EINVAL);
  if (protocol != 0 && protocol != (base == SOCK_STREAM ? IPPROTO_TCP : IPPROTO_UDP)) return vs_fail(EPROTONOSUPPORT);
  if (vs_sysfail()) return vs_fail(EMFILE);
  int i = vs_slot();
  if (i < 0) return vs_fail(EMFILE);
  vfd_open[i] = 1; vfd_type[i] = base; vfd_family[i] = domain; vfd_protocol[i] = protocol;
  vfd_cloexec[i] = (type & SOCK_CLOEXEC) != 0 && !vs.ignore_sock_cloexec; vfd_nonblock[i] = (type & SOCK_NONBLOCK) != 0;
  return VS_FD0 + i;
}

static int vsi_fcntl(const int i, int cmd, int arg) {
  if (vs_sysfail()) return vs_fail(EINVAL);
  if (cmd == F_GETFD) return vfd_cloexec[i] ? FD_CLOEXEC : 0;
  if (cmd == F_GETFL) return O_RDWR | (vfd_nonblock[i] ? O_NONBLOCK : 0);
  if (cmd == F_SETFD) { vfd_cloexec[i] = (arg & FD_CLOEXEC) != 0; return 0; }
  if (cmd == F_SETFL) { vfd_nonblock[i] = (arg & O_NONBLOCK) != 0; return 0; }
  return vs_fail(EINVAL);
}
int vm_fcntl(int fd, int cmd, ...) {
  int arg = 0;
  if (cmd == F_SETFD || cmd == F_SETFL) { va_list ap; va_start(ap, cmd); arg = va_arg(ap, int); va_end(ap); }
  VS_DISPATCH(fd, vsi_fcntl(i_, cmd, arg));
}

static int vsi_getsockopt(const int i, int level, int opt, void *val, socklen_t *len) {
  if (vs_sysfail()) return vs_fail(ENOBUFS);
  if (level != SOL_SOCKET || *len < sizeof(int)) return vs_fail(EINVAL);
  int v;
  if (opt == SO_TYPE) v = vfd_type[i];
  else if (opt == SO_DOMAIN) v = vfd_family[i];
  else if (opt == SO_KEEPALIVE) v = vfd_keepalive[i];
  else if (opt == SO_ERROR) { v = vfd_so_error[i]; vfd_so_error[i] = 0; }
  else return vs_fail(ENOPROTOOPT);
  *(int *) val = v; *len = sizeof(int);
  return 0;
}

int vm_getsockopt(int fd, int level, int opt, void *val, socklen_t *len) { VS_DISPATCH(fd, vsi_getsockopt(i_, level, opt, val, len)); }

static int vsi_setsockopt(const int i, int level, int opt, const void *val, socklen_t len) {
  if (vs_sysfail()) return vs_fail(ENOBUFS);
  if (level != SOL_SOCKET || len < sizeof(int)) return vs_fail(EINVAL);
  if (opt == SO_LINGER) {
    if (len < sizeof(struct linger)) return vs_fail(EINVAL);
    vfd_linger_on[i] = ((const struct linger *) val)->l_onoff != 0;
    vfd_linger_secs[i] = ((const struct linger *) val)->l_linger;
    return 0;
  }
  int v = *(const int *) val;
  if (opt == SO_KEEPALIVE) vfd_keepalive[i] = v != 0;
  else if (opt == SO_REUSEADDR) vfd_reuse[i] = v != 0;
  else if (opt == SO_REUSEPORT) { }
  else if (opt == SO_RCVBUF) vfd_rcvbuf[i] = v;
  else if (opt == SO_SNDBUF) vfd_sndbuf[i] = v;
  else return vs_fail(ENOPROTOOPT);
  return 0;
}

int vm_setsockopt(int fd, int level, int opt, const void *val, socklen_t len) { VS_DISPATCH(fd, vsi_setsockopt(i_, level, opt, val, len)); }

static void vs_copy_addr(const unsigned char *src, int srclen, struct sockaddr *a, socklen_t *l) {
  if (a == NULL || l == NULL) return;
  for (int k = 0; k < VS_ALEN; k++) if (k < srclen && (socklen_t) k < *l) ((unsigned char *) a)[k] = src[k];
  *l = (socklen_t) srclen;
}

static int vsi_getsockname(const int i, struct sockaddr *a, socklen_t *l) {
  if (vs_sysfail()) return vs_fail(ENOBUFS);
  if (vfd_bound[i]) vs_copy_addr(vfd_local[i], vfd_locallen[i], a, l);
  else {
    /* unbound: family with the wildcard address and port 0 */
    unsigned char z[VS_ALEN]; struct sockaddr sa; sa.sa_family = (sa_family_t) vfd_family[i];
    for (int k = 0; k < VS_ALEN; k++) z[k] = 0;
    z[0] = ((unsigned char *) &sa.sa_family)[0]; z[1] = ((unsigned char *) &sa.sa_family)[1];
    vs_copy_addr(z, vs_natlen(vfd_family[i]), a, l);
  }
  return 0;
}

int vm_getsockname(int fd, struct sockaddr *a, socklen_t *l) { VS_DISPATCH(fd, vsi_getsockname(i_, a, l)); }

static int vsi_getpeername(const int i, struct sockaddr *a, socklen_t *l) {
  if (vs_sysfail()) return vs_fail(ENOBUFS);
  if (!vfd_connected[i]) return vs_fail(ENOTCONN);
  vs_copy_addr(vfd_remote[i], vfd_remotelen[i], a, l);
  return 0;
}

int vm_getpeername(int fd, struct sockaddr *a, socklen_t *l) { VS_DISPATCH(fd, vsi_getpeername(i_, a, l)); }

void (*vm_signal(int sig, void (*h)(int)))(int) {
  if (sig == SIGPIPE) vs.sigpipe_disp = (h == SIG_IGN) ? VS_SIG_IGN : (h == SIG_DFL) ? VS_SIG_DFL : VS_SIG_HANDLER;
  return SIG_DFL;
}

/* ------------------------------------------------------------------ bind / listen / connect / accept */

static int vsi_bind(const int i, const struct sockaddr *a, socklen_t l) {
  if (vs_sysfail()) return vs_fail(EACCES);
  if (vfd_bound[i]) return vs_fail(EINVAL);
  if ((int) l < vs_natlen(vfd_family[i]) || a->sa_family != vfd_family[i]) return vs_fail(l < sizeof(struct sockaddr_in) ? EINVAL : EAFNOSUPPORT);
  const unsigned char *s = (const unsigned char *) a;
  if (s[2] == 0 && s[3] == 0) { vs_autobind(i); return 0; }
  for (int j = 0; j < VS_NFD; j++)
    if (j != i && vfd_open[j] && vfd_bound[j] && vfd_type[j] == vfd_type[i] && vs_same_port(vfd_local[j], s) && !(vfd_reuse[i] && vfd_reuse[j] && !vfd_listening[j]))
      return vs_fail(EADDRINUSE);
  vs_set_local(VS_FD0 + i, a, vs_natlen(vfd_family[i]));
  return 0;
}

int vm_bind(int fd, const struct sockaddr *a, socklen_t l) { VS_DISPATCH(fd, vsi_bind(i_, a, l)); }

static int vsi_listen(const int i, int n) {
  if (vs_sysfail()) return vs_fail(EADDRINUSE);
  if (vfd_type[i] != SOCK_STREAM) return vs_fail(EOPNOTSUPP);
  if (vfd_connected[i] || vfd_connecting[i]) return vs_fail(EINVAL);
  vs_autobind(i);
  vfd_listening[i] = 1; vfd_backlog[i] = n;
  return 0;
}

int vm_listen(int fd, int n) { VS_DISPATCH(fd, vsi_listen(i_, n)); }

/* start a stream connection from descriptor slot i to the address in remote[]: reserve the
 * server-side endpoint in the listener's accept queue or note the refusal */
static int vs_conn_setup(const int i, const int j, const int e) {
  vfd_embryo[e] = 1; vfd_type[e] = SOCK_STREAM; vfd_family[e] = vfd_family[j]; vfd_protocol[e] = vfd_protocol[j]; vfd_connected[e] = 1; vfd_bound[e] = 1;
  for (int k = 0; k < VS_ALEN; k++) { vfd_local[e][k] = vfd_local[j][k]; vfd_remote[e][k] = vfd_local[i][k]; }
  vfd_locallen[e] = vfd_locallen[j]; vfd_remotelen[e] = vfd_locallen[i];
  vfd_peer[e] = i; vfd_peer[i] = e;
  for (int q = 0; q < VS_PEND; q++) if (vfd_npend[j] == q) { vfd_pend[j][q] = e; break; }
  vfd_npend[j]++;
  return 0;
}

static int vs_conn_start(const int i) {
  vs_autobind(i);
  for (int j = 0; j < VS_NFD; j++)
    if (vfd_open[j] && vfd_listening[j] && vfd_family[j] == vfd_family[i] && vs_same_port(vfd_local[j], vfd_remote[i]) && vfd_npend[j] < VS_PEND) {
      int e = vs_slot();
      /* constant slot number per case, see VS_DISPATCH */
      for (int e_ = 0; e_ < VS_NFD; e_++) if (e == e_) return vs_conn_setup(i, j, e_);
      break;
    }
  return ECONNREFUSED;
}

/* pending environment action (the peer acting while the library waits, or between calls) */
void vs_env_fire(void) {
  if (vs.env_kind == VS_ENV_NONE || vs.env_fired) return;
  int i = vs.env_fd - VS_FD0;
  vs.env_fired = 1;
  if ((vs.env_mask & (1 << VS_ENV_DATA)) && vs.env_kind == VS_ENV_DATA) {
    if (vfd_type[i] == SOCK_DGRAM) {
      /* a datagram of env_len bytes arrives (source: the socket's own address, i.e. loopback) */
      if (vfd_dq_n[i] < VS_DQ) {
        int q = vfd_dq_n[i];
        vfd_dq_len[i][q] = vs.env_len; vfd_dq_from[i][q] = i;
        for (int k = 0; k < VS_CAP; k++) vfd_dq_data[i][q][k] = k < vs.env_len ? vs.env_data[k] : 0;
        vfd_dq_n[i] = q + 1;
      }
    } else
    /* peer writes env_len bytes (as many as fit into the receive queue) */
    for (int k = 0; k < VS_CAP; k++)
      if (k < vs.env_len && vfd_rx_len[i] < VS_CAP) { vfd_rx[i][vfd_rx_len[i]] = vs.env_data[k]; vfd_rx_len[i]++; }
  } else if ((vs.env_mask & (1 << VS_ENV_PEERCLOSE)) && vs.env_kind == VS_ENV_PEERCLOSE) {
    vfd_peer_eof[i] = 1; vfd_peer_gone[i] = 1;
  } else if ((vs.env_mask & (1 << VS_ENV_DRAIN)) && vs.env_kind == VS_ENV_DRAIN) {
    /* peer reads env_len bytes of what descriptor env_fd sent to it */
    for (int p = 0; p < VS_NFD; p++) if (vfd_peer[i] == p) {
      int k = vs.env_len < vfd_rx_len[p] ? vs.env_len : vfd_rx_len[p];
      for (int x = 0; x < VS_CAP; x++) vfd_rx[p][x] = (x + k < VS_CAP) ? vfd_rx[p][x + k] : 0;
      vfd_rx_len[p] -= k;
    }
  } else if ((vs.env_mask & (1 << VS_ENV_CONN)) && vs.env_kind == VS_ENV_CONN) {
    /* the remote client prepared by vs_preconn() completes its handshake with listener env_fd */
    if (vfd_listening[i] && vfd_npend[i] == 0) {
      const int e = vs.env_slot;
      for (int k = 0; k < VS_ALEN; k++) vfd_local[e][k] = vfd_local[i][k];     /* the address the listener has NOW */
      vfd_locallen[e] = vfd_locallen[i]; vfd_family[e] = vfd_family[i]; vfd_protocol[e] = vfd_protocol[i];
      vfd_pend[i][0] = e; vfd_npend[i] = 1;
    }
  }
}

/* Prepare a remote client connecting to listener lfd: both endpoints get their (concrete) slots now, the
 * server-side endpoint is queued for accept only when the environment action VS_ENV_CONN fires
 * (vs.env_slot = returned slot, set here).  Keeping slot numbers concrete keeps accept()'s result concrete. */
int vs_preconn(int lfd) {
  int l = lfd - VS_FD0, c = vs_slot(), e = vs_slot();
  VASSERT(c >= 0 && e >= 0, "model: enough descriptor slots for the fixture");
  vfd_type[c] = SOCK_STREAM; vfd_family[c] = vfd_family[l]; vfd_embryo[c] = 1; vfd_connected[c] = 1;
  vs_autobind(c);
  vfd_type[e] = SOCK_STREAM; vfd_family[e] = vfd_family[l]; vfd_protocol[e] = vfd_protocol[l]; vfd_embryo[e] = 1; vfd_connected[e] = 1; vfd_bound[e] = 1;
  for (int k = 0; k < VS_ALEN; k++) { vfd_local[e][k] = vfd_local[l][k]; vfd_remote[e][k] = vfd_local[c][k]; vfd_remote[c][k] = vfd_local[l][k]; }
  vfd_locallen[e] = vfd_locallen[l]; vfd_remotelen[e] = vfd_locallen[c]; vfd_remotelen[c] = vfd_locallen[l];
  vfd_peer[e] = c; vfd_peer[c] = e;
  vfd_pend[l][0] = e;      /* value already in place; only npend decides whether it is queued */
  vs.env_slot = e;
  return e;
}

static int vsi_connect(const int i, const struct sockaddr *a, socklen_t l) {
  int f = vs_fault(VS_M_EINTR | VS_M_HARD);
  if (f == VS_F_HARD) return vs_fail(vs.hard_errno);
  if ((int) l < vs_natlen(vfd_family[i])) return vs_fail(EINVAL);
  if (a->sa_family != vfd_family[i]) return vs_fail(EAFNOSUPPORT);
  if (vfd_type[i] == SOCK_DGRAM) {
    vs_autobind(i);
    for (int k = 0; k < VS_ALEN; k++) vfd_remote[i][k] = (socklen_t) k < l ? ((const unsigned char *) a)[k] : 0;
    vfd_remotelen[i] = vs_natlen(vfd_family[i]); vfd_connected[i] = 1;
    return 0;
  }
  if (vfd_listening[i] || vfd_connected[i]) return vs_fail(EISCONN);
  if (vfd_connecting[i]) return vs_wb(EALREADY);
  /* an interrupted connect either did nothing yet or goes on asynchronously (POSIX) */
  if (f == VS_F_EINTR && !ND_BOOL()) return vs_fail(EINTR);
  for (int k = 0; k < VS_ALEN; k++) vfd_remote[i][k] = (socklen_t) k < l ? ((const unsigned char *) a)[k] : 0;
  vfd_remotelen[i] = vs_natlen(vfd_family[i]);
  int err = vs_conn_start(i);
  if (f != VS_F_EINTR && vfd_conn_immediate[i]) {
    if (err) return vs_fail(err);
    vfd_connected[i] = 1;
    return 0;
  }
  vfd_connecting[i] = 1; vfd_so_error[i] = err;    /* becomes visible when the handshake completes (poll) */
  return f == VS_F_EINTR ? vs_fail(EINTR) : vs_wb(EINPROGRESS);
}

int vm_connect(int fd, const struct sockaddr *a, socklen_t l) { vs_nb_entry(); VS_DISPATCH(fd, vsi_connect(i_, a, l)); }

static int vsi_accept(const int i, struct sockaddr *a, socklen_t *l) {
  int f = vs_fault(VS_M_EINTR | VS_M_EAGAIN | VS_M_HARD);
  if (f == VS_F_EINTR) return vs_fail(EINTR);
  if (f == VS_F_EAGAIN) return vs_fail(EAGAIN);
  if (f == VS_F_HARD) return vs_fail(vs.hard_errno);
  if (vfd_type[i] != SOCK_STREAM) return vs_fail(EOPNOTSUPP);
  if (!vfd_listening[i]) return vs_fail(EINVAL);
  if (vfd_npend[i] == 0) {
    if (!vfd_nonblock[i]) VASSUME(0);   /* blocking descriptor: waits */
    return vs_wb(EAGAIN);
  }
  if (vs_sysfail()) return vs_fail(EMFILE);
  int e = vfd_pend[i][0];
  for (int k = 0; k + 1 < VS_PEND; k++) vfd_pend[i][k] = vfd_pend[i][k + 1];
  vfd_npend[i]--;
  vfd_embryo[e] = 0; vfd_open[e] = 1; vfd_nonblock[e] = 0; vfd_cloexec[e] = 0;
  vfd_keepalive[e] = vfd_keepalive[i];       /* Linux: the accepted socket inherits the listener's SO_KEEPALIVE */
  vs_copy_addr(vfd_remote[e], vfd_remotelen[e], a, l);
  return VS_FD0 + e;
}

int vm_accept(int fd, struct sockaddr *a, socklen_t *l) { vs_nb_entry(); VS_DISPATCH(fd, vsi_accept(i_, a, l)); }

/* ------------------------------------------------------------------ transfer */

static int vs_deliver(int i, const unsigned char *dst, const unsigned char *buf, int n) {
  vs_autobind(i);
  for (int j = 0; j < VS_NFD; j++)
    if (vfd_open[j] && vfd_type[j] == SOCK_DGRAM && vfd_bound[j] && vs_same_port(vfd_local[j], dst) &&
        (!vfd_connected[j] || vs_same_port(vfd_remote[j], vfd_local[i]))) {
      if (vfd_dq_n[j] < VS_DQ) {
        int q = vfd_dq_n[j];
        vfd_dq_len[j][q] = n;
        for (int k = 0; k < VS_CAP; k++) vfd_dq_data[j][q][k] = k < n ? buf[k] : 0;
        vfd_dq_from[j][q] = i;
        vfd_dq_n[j] = q + 1;
      }
      break;   /* queue full: datagram lost (UDP) */
    }
  return n;
}

static ssize_t vs_stream_put(const int i, const int p, const unsigned char *buf, size_t n, int f) {
  int space = VS_CAP - vfd_rx_len[p];
  if (space <= 0) {
    if (!vfd_nonblock[i]) VASSUME(0);
    return vs_wb(EAGAIN);
  }
  int k = n < (size_t) space ? (int) n : space;
  if (f == VS_F_SHORT) { int s = ND_RANGE(1, VS_CAP); VASSUME(s <= k); k = s; }
  for (int x = 0; x < VS_CAP; x++) if (x < k) vfd_rx[p][vfd_rx_len[p] + x] = buf[x];
  vfd_rx_len[p] += k; vfd_tx_total[i] += k;
  return k;
}

static ssize_t vsi_send(const int i, const void *b, size_t n, int flags, const struct sockaddr *a, socklen_t l) {
  int f = vs_fault(VS_M_EINTR | VS_M_EAGAIN | VS_M_SHORT | VS_M_HARD);
  if (f == VS_F_EINTR) return vs_fail(EINTR);
  if (f == VS_F_EAGAIN) return vs_fail(EAGAIN);
  if (f == VS_F_HARD) return vs_fail(vs.hard_errno);
  const unsigned char *buf = (const unsigned char *) b;
  if (vfd_type[i] == SOCK_STREAM) {
    if (vfd_shut_wr[i] || vfd_peer_gone[i]) { vs_sigpipe(flags); return vs_fail(EPIPE); }
    if (vfd_connecting[i]) return vs_wb(EAGAIN);
    if (!vfd_connected[i]) return vs_fail(ENOTCONN);
    if (n == 0) return 0;
    for (int p_ = 0; p_ < VS_NFD; p_++) if (vfd_peer[i] == p_) return vs_stream_put(i, p_, buf, n, f);
    return vs_fail(ENOTCONN);
  }
  if (n > VS_CAP) return vs_fail(EMSGSIZE);
  if (a != NULL) {
    if ((int) l < vs_natlen(vfd_family[i])) return vs_fail(EINVAL);
    if (a->sa_family != vfd_family[i]) return vs_fail(EAFNOSUPPORT);
    vfd_tx_total[i] += (long long) n;
    return vs_deliver(i, (const unsigned char *) a, buf, (int) n);
  }
  if (!vfd_connected[i]) return vs_fail(EDESTADDRREQ);
  vfd_tx_total[i] += (long long) n;
  return vs_deliver(i, vfd_remote[i], buf, (int) n);
}

static ssize_t vs_xfer(ssize_t r, int fd, const void *b, size_t n, int flags) {
  if (r >= 0) { vs.xfer_calls++; vs.xfer_fd = fd; vs.xfer_ptr = b; vs.xfer_len = n; vs.xfer_ret = r; vs.xfer_flags = flags; }
  return r;
}

ssize_t vm_send(int fd, const void *b, size_t n, int flags) { vs_nb_entry(); VS_DISPATCH(fd, vs_xfer(vsi_send(i_, b, n, flags, NULL, 0), fd, b, n, flags)); }

ssize_t vm_sendto(int fd, const void *b, size_t n, int flags, const struct sockaddr *a, socklen_t l) {
  vs_nb_entry();
  VS_DISPATCH(fd, vs_xfer(vsi_send(i_, b, n, flags, a, l), fd, b, n, flags));
}

/* receive flags that change the result: MSG_PEEK leaves the queue as it is, MSG_TRUNC makes a datagram
 * receive return the REAL datagram length, MSG_DONTWAIT makes this call non-blocking; MSG_WAITALL has no
 * effect on a non-blocking descriptor */
static ssize_t vsi_recv(const int i, void *b, size_t n, int flags, struct sockaddr *a, socklen_t *l) {
  const _Bool peek = (flags & MSG_PEEK) != 0, nowait = vfd_nonblock[i] || (flags & MSG_DONTWAIT);
  int f = vs_fault(VS_M_EINTR | VS_M_EAGAIN | VS_M_SHORT | VS_M_HARD);
  if (f == VS_F_EINTR) return vs_fail(EINTR);
  if (f == VS_F_EAGAIN) return vs_fail(EAGAIN);
  if (f == VS_F_HARD) return vs_fail(vs.hard_errno);
  unsigned char *buf = (unsigned char *) b;
  if (vfd_type[i] == SOCK_STREAM) {
    if (vfd_listening[i] || (!vfd_connected[i] && !vfd_peer_eof[i])) return vs_fail(ENOTCONN);
    if (l != NULL) *l = 0;               /* stream sockets do not report a source address */
    if (vfd_rx_len[i] == 0) {
      if (vfd_reset[i]) return vs_fail(ECONNRESET);
      if (vfd_peer_eof[i] || vfd_shut_rd[i]) return 0;
      if (vfd_peer_gone[i]) return vs_fail(ECONNRESET);
      if (!nowait) VASSUME(0);
      return vs_wb(EAGAIN);
    }
    if (n == 0) return 0;
    int k = n < (size_t) vfd_rx_len[i] ? (int) n : vfd_rx_len[i];
    if (f == VS_F_SHORT) { int s = ND_RANGE(1, VS_CAP); VASSUME(s <= k); k = s; }
    for (int x = 0; x < VS_CAP; x++) if (x < k) buf[x] = vfd_rx[i][x];
    if (peek) return k;
    for (int x = 0; x < VS_CAP; x++) vfd_rx[i][x] = (x + k < VS_CAP) ? vfd_rx[i][x + k] : 0;
    vfd_rx_len[i] -= k; vfd_rx_total[i] += k;
    return k;
  }
  if (vfd_dq_n[i] == 0) {
    if (!nowait) VASSUME(0);
    return vs_wb(EAGAIN);
  }
  const int dlen = vfd_dq_len[i][0];
  int k = n < (size_t) dlen ? (int) n : dlen;
  for (int x = 0; x < VS_CAP; x++) if (x < k) buf[x] = vfd_dq_data[i][0][x];
  if (a != NULL) { int s = vfd_dq_from[i][0]; vs_copy_addr(vfd_local[s], vfd_locallen[s], a, l); }
  if (peek) return (flags & MSG_TRUNC) ? dlen : k;
  for (int q = 0; q + 1 < VS_DQ; q++) {
    vfd_dq_len[i][q] = vfd_dq_len[i][q + 1]; vfd_dq_from[i][q] = vfd_dq_from[i][q + 1];
    for (int x = 0; x < VS_CAP; x++) vfd_dq_data[i][q][x] = vfd_dq_data[i][q + 1][x];
  }
  vfd_dq_n[i]--; vfd_rx_total[i] += k;
  return (flags & MSG_TRUNC) ? dlen : k;
}

ssize_t vm_recv(int fd, void *b, size_t n, int flags) { vs_nb_entry(); VS_DISPATCH(fd, vs_xfer(vsi_recv(i_, b, n, flags, NULL, NULL), fd, b, n, flags)); }

ssize_t vm_recvfrom(int fd, void *b, size_t n, int flags, struct sockaddr *a, socklen_t *l) {
  vs_nb_entry();
  VS_DISPATCH(fd, vs_xfer(vsi_recv(i_, b, n, flags, a, l), fd, b, n, flags));
}

static int vs_peer_fill(const int i) {
  for (int p_ = 0; p_ < VS_NFD; p_++) if (vfd_peer[i] == p_) return vfd_rx_len[p_];
  return VS_CAP;
}

static short vs_ready(const int i, short ev) {
  short r = 0;
  if (vfd_type[i] == SOCK_DGRAM) {
    if ((ev & POLLIN) && vfd_dq_n[i] > 0) r |= POLLIN;
    if (ev & POLLOUT) r |= POLLOUT;
    return r;
  }
  if (vfd_listening[i]) { if ((ev & POLLIN) && vfd_npend[i] > 0) r |= POLLIN; return r; }
  if (vfd_connecting[i]) return 0;
  if (!vfd_connected[i]) {                       /* unconnected stream socket: hang-up, writable */
    if (vfd_so_error[i]) r |= POLLERR;
    r |= POLLHUP; if (ev & POLLOUT) r |= POLLOUT; if ((ev & POLLIN) && vfd_peer_eof[i]) r |= POLLIN;
    return r;
  }
  if ((ev & POLLIN) && (vfd_rx_len[i] > 0 || vfd_peer_eof[i] || vfd_peer_gone[i] || vfd_shut_rd[i])) r |= POLLIN;
  if ((ev & POLLOUT) && (vfd_peer_gone[i] || vfd_shut_wr[i] || vs_peer_fill(i) < VS_CAP)) r |= POLLOUT;
  if (vfd_peer_gone[i]) r |= POLLHUP;
  return r;
}

static int vsi_poll(const int i, struct pollfd *p, int timeout) {
  int f = vs_fault(VS_M_EINTR | VS_M_HARD);
  if (f == VS_F_HARD) return vs_fail(vs.hard_errno);
  if (f == VS_F_EINTR) {
    int d = ND_INT();
    VASSUME(d >= 0 && d <= (timeout < 0 ? 1000000 : timeout));
    vs.clock += d;
    return vs_fail(EINTR);
  }
  short r = vs_ready(i, p->events);
  _Bool waited = 0;
  if (!r) {
    /* while waiting: a connection in progress may complete, the pending peer action may happen */
    if (vfd_connecting[i] && (vs.handshake_mode == 1 || (vs.handshake_mode == 0 && ND_BOOL()))) {
      vfd_connecting[i] = 0;
      if (vfd_so_error[i] == 0) vfd_connected[i] = 1;
      waited = 1;
    } else if (vs.env_kind != VS_ENV_NONE && !vs.env_fired && ND_BOOL()) { vs_env_fire(); waited = 1; }
    if (waited) r = vs_ready(i, p->events);
  }
  if (r) {
    if (waited) { int d = ND_INT(); VASSUME(d >= 0 && d <= (timeout < 0 ? 1000000 : timeout)); vs.clock += d; }
    p->revents = r;
    return 1;
  }
  if (timeout < 0) VASSUME(0);    /* nothing ever happens: the call does not return */
  vs.clock += timeout; p->revents = 0; vs.last_poll_zero = 1;
  return 0;
}

int vm_poll(struct pollfd *p, nfds_t n, int timeout) {
  vs_nb_entry();
  VASSERT(n == 1, "model: poll on exactly one descriptor");
  vs.npoll++; vs.last_poll_zero = 0;
  if (timeout < 0) vs.npoll_inf++;
  else { if (timeout < vs.poll_tmo_min) vs.poll_tmo_min = timeout; if (timeout > vs.poll_tmo_max) vs.poll_tmo_max = timeout; }
  vs.ncalls++;
  for (int i_ = 0; i_ < VS_NFD; i_++) if (p->fd == VS_FD0 + i_) { if (!vfd_open[i_]) break; return vsi_poll(i_, p, timeout); }
  vs.bad_access++; p->revents = POLLNVAL;     /* poll on a descriptor that is not open: POLLNVAL */
  return 1;
}

static int vsi_shutdown(const int i, int how) {
  if (vs_sysfail()) return vs_fail(ENOBUFS);
  if (how != SHUT_RD && how != SHUT_WR && how != SHUT_RDWR) return vs_fail(EINVAL);
  if (!vfd_connected[i]) return vs_fail(ENOTCONN);
  if (how != SHUT_WR) vfd_shut_rd[i] = 1;
  if (how != SHUT_RD) { vfd_shut_wr[i] = 1; if (vfd_type[i] == SOCK_STREAM && vfd_peer[i] >= 0) vfd_peer_eof[vfd_peer[i]] = 1; }
  return 0;
}

int vm_shutdown(int fd, int how) { VS_DISPATCH(fd, vsi_shutdown(i_, how)); }

static int vsi_close(const int i) {
  vfd_open[i] = 0; vfd_closes[i]++; vs.nclose++;
  if (vfd_type[i] == SOCK_STREAM) {
    /* SO_LINGER on with l_linger 0 = abortive close: what this end sent and the peer has not read yet is
     * discarded and the connection is reset (the peer's next recv fails with ECONNRESET); otherwise the
     * close is graceful: queued data stays deliverable and is followed by end-of-stream */
    for (int p = 0; p < VS_NFD; p++) if (vfd_peer[i] == p) {
      if (vfd_linger_on[i] && vfd_linger_secs[i] == 0) {
        for (int x = 0; x < VS_CAP; x++) vfd_rx[p][x] = 0;
        vfd_rx_len[p] = 0; vfd_reset[p] = 1;
      } else vfd_peer_eof[p] = 1;
      vfd_peer_gone[p] = 1;
    }
    for (int k = 0; k < VS_PEND; k++)
      if (k < vfd_npend[i]) { int c = vfd_peer[vfd_pend[i][k]]; vfd_embryo[vfd_pend[i][k]] = 0; if (c >= 0) { vfd_peer_eof[c] = 1; vfd_peer_gone[c] = 1; } }
    vfd_npend[i] = 0; vfd_listening[i] = 0;
  }
  /* Linux: a close() interrupted by a signal has released the descriptor and then reports -1/EINTR */
  if (vs.close_eintr_budget > 0 && ND_BOOL()) { vs.close_eintr_budget--; vs.nclose_eintr++; return vs_fail(EINTR); }
  return 0;
}

int vm_close(int fd) {
  vs.ncalls++;
  for (int i_ = 0; i_ < VS_NFD; i_++) if (fd == VS_FD0 + i_) { if (!vfd_open[i_]) break; return vsi_close(i_); }
  vs.bad_access++; vs.bad_close++;
  /* decided here, at the 2nd attempt, not through loop bounds: the number is not ours any more and may already
   * name a descriptor somebody else has just opened */
  VASSERT(0, "close() on a descriptor number that is not open (descriptor closed twice)");
  return vs_fail(EBADF);
}
