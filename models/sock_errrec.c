/* Recorder standing in for perror.c:p_error_set_error_p in the socket protocol queries (its body is
 * removed from the perror.c unit): same contract - only the first error of a call is kept, nothing
 * happens when the caller passes no error slot - but the (code, native code) pair is recorded in
 * globals instead of a heap PError, which keeps the number of heap objects per query small.
 * The real p_error_set_error_p / p_error_new_literal are exercised by the C18/C20 socket queries. */
#include <perror.h>
int vs_err_code, vs_err_native, vs_err_sets;
char vs_err_token;
void p_error_set_error_p(PError **error, pint code, pint native_code, const pchar *message) {
  (void) message;
  if (error == NULL || *error != NULL) return;
  vs_err_code = code; vs_err_native = native_code; vs_err_sets++;
  *error = (PError *) &vs_err_token;
}
