/* Socket kernel model (trusted base of C09/C10 and the socket parts of C18/C19/C20).
 * Contracts are the documented POSIX/Linux ones for non-blocking descriptors; see kernel_sock.c. */
#ifndef VS_KERNEL_SOCK_H
#define VS_KERNEL_SOCK_H
#include <sys/types.h>
#include <sys/socket.h>
#include <netinet/in.h>
#include <poll.h>
#include <signal.h>

#ifndef VS_NFD
#define VS_NFD 6          /* descriptor slots; descriptors are VS_FD0 .. VS_FD0+VS_NFD-1, never reused */
#endif
#ifndef VS_FD0
#define VS_FD0 3          /* first descriptor number handed out; -DVS_FD0=0 models a process started with stdin/stdout/stderr closed */
#endif
#ifndef VS_CAP
#define VS_CAP 8          /* stream receive-queue capacity and maximum datagram payload (bytes) */
#endif
#ifndef VS_DQ
#define VS_DQ 2           /* datagram queue length */
#endif
#ifndef VS_ROT
#define VS_ROT 0          /* the k-th descriptor handed out is VS_FD0 + (k + VS_ROT) % VS_NFD: lets a query decide WHICH creation gets descriptor 0 */
#endif
#define VS_ALEN 28        /* sizeof(struct sockaddr_in6) */
#define VS_PEND 2         /* accept queue length */

/* behaviours a transfer call may take from the fault schedule */
enum { VS_F_NONE = 0, VS_F_EINTR = 1, VS_F_EAGAIN = 2, VS_F_SHORT = 3, VS_F_HARD = 4 };
#define VS_M_EINTR  (1 << VS_F_EINTR)
#define VS_M_EAGAIN (1 << VS_F_EAGAIN)
#define VS_M_SHORT  (1 << VS_F_SHORT)
#define VS_M_HARD   (1 << VS_F_HARD)
/* environment (peer) action that may happen while the library waits in poll() */
enum { VS_ENV_NONE = 0, VS_ENV_DATA = 1, VS_ENV_PEERCLOSE = 2, VS_ENV_DRAIN = 3, VS_ENV_CONN = 4 };
/* SIGPIPE disposition */
enum { VS_SIG_DFL = 0, VS_SIG_IGN = 1, VS_SIG_HANDLER = 2 };

/* descriptor table: one small global array per attribute (a single nested struct makes CBMC's field
 * sensitivity expand ~1000 scalars on every access: measured 10x slower symbolic execution) */
#define VFD_BOOLS(X) X(open) X(embryo) X(nonblock) X(cloexec) X(listening) X(connected) X(connecting) X(bound) X(shut_rd) \
                     X(shut_wr) X(keepalive) X(peer_gone) X(peer_eof) X(reuse) X(conn_immediate) X(linger_on) X(reset)
#define VFD_INTS(X)  X(type) X(family) X(protocol) X(backlog) X(so_error) X(peer) X(closes) X(sndbuf) X(rcvbuf) X(npend) \
                     X(locallen) X(remotelen) X(rx_len) X(dq_n) X(linger_secs)
#define VFD_DECL_B(f) extern _Bool vfd_##f[VS_NFD];
#define VFD_DECL_I(f) extern int vfd_##f[VS_NFD];
VFD_BOOLS(VFD_DECL_B)
VFD_INTS(VFD_DECL_I)
extern int vfd_pend[VS_NFD][VS_PEND];             /* listener: embryonic server-side endpoints waiting for accept */
extern unsigned char vfd_local[VS_NFD][VS_ALEN];  /* bound address (native bytes)                    */
extern unsigned char vfd_remote[VS_NFD][VS_ALEN]; /* peer / default destination address              */
extern unsigned char vfd_rx[VS_NFD][VS_CAP];      /* stream: bytes queued for this descriptor's reader */
extern long long vfd_tx_total[VS_NFD], vfd_rx_total[VS_NFD];   /* bytes accepted from / delivered to user space */
extern int vfd_dq_len[VS_NFD][VS_DQ];             /* datagram queue: payload length, payload, sender */
extern unsigned char vfd_dq_data[VS_NFD][VS_DQ][VS_CAP];
extern int vfd_dq_from[VS_NFD][VS_DQ];             /* slot of the sending descriptor: its bound address is the source address */
/* attribute f of descriptor d */
#define VFD(f, d) vfd_##f[(d) - VS_FD0]

struct vs_world {
  int nfd;                    /* slots handed out so far */
  long long clock;            /* model clock in ms: advanced only by poll */
  int sigpipe_disp;
  _Bool sigpipe_raised;       /* "SIGPIPE would have been delivered" */
  int handshake_mode;         /* pending connect: 0 completes during some poll or never (free choice per poll), 1 at the first poll, 2 never */
  _Bool ignore_sock_cloexec;  /* kernel variant: socket() accepts but does not act on SOCK_CLOEXEC */
  /* observers */
  int ncalls;                 /* descriptor-taking syscalls made so far               */
  int bad_access;             /* ... of which on a descriptor that is not open        */
  int bad_close;              /* close() on a descriptor that is not open             */
  int nclose;                 /* successful close() calls                             */
  int npoll, npoll_inf;       /* poll calls / with negative (infinite) timeout        */
  int poll_tmo_min, poll_tmo_max;   /* over finite-timeout polls since vs_begin_call  */
  int last_fail_errno;        /* errno of the most recent failing syscall             */
  _Bool last_poll_zero;       /* most recent poll returned 0                          */
  _Bool nb_call;              /* set by the harness after vs_begin_call: this library call is made on a non-blocking socket */
  _Bool wb_seen;              /* the kernel answered this library call with a genuine would-block / in-progress */
  /* transfer calls that returned >= 0 since vs_begin_call, and the arguments/result of the last one */
  int xfer_calls, xfer_fd, xfer_flags;
  const void *xfer_ptr;
  unsigned long xfer_len;
  long xfer_ret;
  _Bool blocked_forever;      /* (never observable: such paths are pruned)            */
  /* fault schedule */
  int fault_budget, fault_mask, nfaults;
  int hard_errno;             /* errno delivered by VS_F_HARD                         */
  int close_eintr_budget, nclose_eintr;   /* close() may report -1/EINTR AFTER releasing the descriptor (Linux); set after vs_begin_call */
  int sysfail_budget, nsysfail;     /* failures of non-transfer syscalls (C18/C20)    */
  /* pending environment action */
  int env_mask;               /* CONCRETE set of kinds (1 << kind) the harness may choose from: keeps unused kinds out of the formula */
  int env_kind, env_fd, env_len;  _Bool env_fired;
  int env_slot;               /* VS_ENV_CONN: slot of the prepared server-side endpoint (vs_preconn) */
  unsigned char env_data[VS_CAP];
};

extern struct vs_world vs;
extern int vs_errno;

/* harness-side helpers */
void vs_reset(void);
int  vs_mkfd(int type, int family);                     /* open descriptor created behind the library's back */
void vs_set_local(int fd, const void *sa, int len);     /* bound address                                      */
void vs_pair(int a, int b);                             /* connected stream pair                              */
void vs_begin_call(int faults, int mask);               /* fault budget for the next library call + reset per-call observers */
int  vs_open_count(void);
int  vs_preconn(int lfd);                               /* remote client for listener lfd, queued by VS_ENV_CONN; returns the endpoint's slot */
void vs_env_fire(void);                                 /* run the pending environment action now (no-op if none/fired) */

/* the libc surface */
int vm_socket(int domain, int type, int protocol);
int vm_bind(int fd, const struct sockaddr *a, socklen_t l);
int vm_listen(int fd, int n);
int vm_connect(int fd, const struct sockaddr *a, socklen_t l);
int vm_accept(int fd, struct sockaddr *a, socklen_t *l);
ssize_t vm_send(int fd, const void *b, size_t n, int flags);
ssize_t vm_recv(int fd, void *b, size_t n, int flags);
ssize_t vm_sendto(int fd, const void *b, size_t n, int flags, const struct sockaddr *a, socklen_t l);
ssize_t vm_recvfrom(int fd, void *b, size_t n, int flags, struct sockaddr *a, socklen_t *l);
int vm_poll(struct pollfd *p, nfds_t n, int timeout);
int vm_getsockopt(int fd, int level, int opt, void *val, socklen_t *len);
int vm_setsockopt(int fd, int level, int opt, const void *val, socklen_t len);
int vm_getsockname(int fd, struct sockaddr *a, socklen_t *l);
int vm_getpeername(int fd, struct sockaddr *a, socklen_t *l);
int vm_shutdown(int fd, int how);
int vm_close(int fd);
int vm_fcntl(int fd, int cmd, ...);
void (*vm_signal(int sig, void (*h)(int)))(int);
#endif
