/* Allocator model installed through the public p_mem_set_vtable(): outstanding-block ledger and a
 * symbolic failure point (C18/C20).  Blocks come from CBMC's malloc so bounds are exact. */
#ifndef VM_ALLOC_H
#define VM_ALLOC_H
#include "verif.h"
extern int vm_live;        /* blocks currently allocated through the table   */
extern int vm_nalloc;      /* allocation requests seen so far (malloc+realloc) */
extern int vm_fail_at;     /* request index (1-based) that fails; 0 = never */
extern int vm_fail_from;   /* nonzero: every request with index >= vm_fail_at fails */
extern int vm_failed;      /* how many requests were failed */
void vm_alloc_install(void);   /* calls p_mem_set_vtable with the model */
void *vm_malloc(size_t n);
void *vm_realloc(void *p, size_t n);
void vm_free(void *p);
#endif
