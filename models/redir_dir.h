/* Force-included into pdir-posix.c (C18/C20): directory and file-status calls -> models/dir_model.c.
 * System headers first so that their prototypes are not renamed.  `stat` is redirected as a function-like
 * macro only, so that `struct stat` keeps its name. */
#ifndef VM_REDIR_DIR_H
#define VM_REDIR_DIR_H
#include <sys/types.h>
#include <sys/stat.h>
#include <dirent.h>
#include <unistd.h>
#include "dir_model.h"
#define opendir   vm_opendir
#define readdir   vm_readdir
#define rewinddir vm_rewinddir
#define closedir  vm_closedir
#define stat(p, b) vm_stat((p), (b))
#define mkdir     vm_mkdir
#define rmdir     vm_rmdir
#if defined(KF_DEMO_C18_dir_new_path) || defined(KF_DEMO_C18_dir_entry_name)
/* known-finding demonstration queries only: strlen with a "string is not NULL" obligation, so that the finding is shown
 * as one clean failing assertion instead of executing the undefined behaviour */
#include <string.h>
#define strlen    vm_kf_strlen
#endif
#endif
