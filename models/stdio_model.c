#include "stdio_model.h"
#include "cstring_model.h"
#include <stdarg.h>
#ifdef VERIF_NATIVE
#include <stdlib.h>
#define VM_MODEL_FAIL(msg) do { fprintf(stderr, "stdio model: %s\n", msg); abort(); } while (0)
#else
#define VM_MODEL_FAIL(msg) __CPROVER_assert(0, "P stdio model: " msg)
#endif

unsigned char vm_file_data[VM_FILE_MAX];
int vm_file_len, vm_file_missing, vm_open_files, vm_fopen_calls, vm_fgets_calls, vm_fclose_calls;
static struct { int pos; int open; } vm_stream;

FILE *vm_fopen(const char *path, const char *mode) {
  (void) path; (void) mode;
  vm_fopen_calls++;
  if (vm_file_missing) return (FILE *) 0;
  if (vm_stream.open) VM_MODEL_FAIL("second stream opened while the first is open (model has one stream)");
  vm_stream.pos = 0;
  vm_stream.open = 1;
  vm_open_files++;
  return (FILE *) &vm_stream;
}

/* C11 7.21.7.2: reads at most size-1 characters, stops after a new-line (which is retained) or at
 * end-of-file; a null character is written after the last character read.  End-of-file with no
 * characters read: array unchanged, NULL returned. */
char *vm_fgets(char *s, int size, FILE *f) {
  int n = 0;
  vm_fgets_calls++;
  if (f != (FILE *) &vm_stream || !vm_stream.open) VM_MODEL_FAIL("fgets on a stream that is not open");
  if (size <= 0) return (char *) 0;
  while (n < size - 1 && vm_stream.pos < vm_file_len) {
    unsigned char c = vm_file_data[vm_stream.pos++];
    s[n++] = (char) c;
    if (c == '\n') break;
  }
  if (n == 0 && size > 1) return (char *) 0;
  s[n] = '\0';
  return s;
}

int vm_fclose(FILE *f) {
  vm_fclose_calls++;
  if (f != (FILE *) &vm_stream || !vm_stream.open) VM_MODEL_FAIL("fclose on a stream that is not open");
  vm_stream.open = 0;
  vm_open_files--;
  return 0;
}

/* is c in the scanlist fmt[from..to) ?  (no ranges: '-' is an ordinary member) */
static int vm_in_set(const char *fmt, int from, int to, char c) {
  int k;
  for (k = from; k < to; k++) if (fmt[k] == c) return 1;
  return 0;
}

/* C11 7.21.6.2 (fscanf), string source (7.21.6.7: reaching the end of the string is equivalent to
 * end-of-file).  Directives: white space; ordinary character; %%; %[scanlist] with optional decimal
 * field width.  Anything else is outside the model (assertion). */
int vm_sscanf(const char *str, const char *fmt, ...) {
  va_list ap;
  int i = 0;          /* position in str */
  int f = 0;          /* position in fmt */
  int done = 0;       /* input items assigned */
  int fail_input = 0; /* stopped by an input failure (end of string) */
  va_start(ap, fmt);
  while (fmt[f] != '\0') {
    char d = fmt[f];
    if (vm_isspace((unsigned char) d)) {
      /* p5: read input up to the first non-white-space character; never fails */
      while (vm_isspace((unsigned char) fmt[f])) f++;
      while (str[i] != '\0' && vm_isspace((unsigned char) str[i])) i++;
      continue;
    }
    if (d != '%' || fmt[f + 1] == '%') {
      /* p6: ordinary character (for %% the input white space is skipped first, p8/p12) */
      if (d == '%') { f++; while (str[i] != '\0' && vm_isspace((unsigned char) str[i])) i++; }
      if (str[i] == '\0') { fail_input = 1; break; }
      if (str[i] != d) break;
      i++; f++;
      continue;
    }
    /* conversion specification */
    f++;
    {
      int width = 0, have_width = 0, neg = 0, from, to, n = 0;
      char *out;
      while (vm_isdigit((unsigned char) fmt[f])) { width = width * 10 + (fmt[f] - '0'); have_width = 1; f++; }
      if (!have_width && fmt[f] != '[') {
        /* numeric conversions without field width: [hh|h|l|ll] d i u x X o   and   [l] f e g (C11 7.21.6.2 p11-12):
         * input white space is skipped (p8), the subject sequence is that of strtol (base 10/0/10/16/8) or
         * strtod; scanning cores shared with the strtol/strtod models (glibc's scanf deviations included) */
        int lmod = 0, base = -1, isflt = 0, sneg, sovf;
        size_t used;
        char cv;
        if (fmt[f] == 'h') { lmod = -1; f++; if (fmt[f] == 'h') { lmod = -2; f++; } }
        else if (fmt[f] == 'l') { lmod = 1; f++; if (fmt[f] == 'l') { lmod = 2; f++; } }
        cv = fmt[f];
        if (cv == 'd' || cv == 'u') base = 10; else if (cv == 'i') base = 0; else if (cv == 'x' || cv == 'X') base = 16;
        else if (cv == 'o') base = 8; else if ((cv == 'f' || cv == 'e' || cv == 'g') && lmod >= 0 && lmod <= 1) isflt = 1;
        if (base < 0 && !isflt) { VM_MODEL_FAIL("unsupported conversion specification"); break; }
        f++;
        while (str[i] != '\0' && vm_isspace((unsigned char) str[i])) i++;
        if (str[i] == '\0') { fail_input = 1; break; }
        if (isflt) {
          double dv = vm_scan_float(str + i, 1, &used);
          if (used == 0) break;                                    /* matching failure */
          if (lmod == 1) *va_arg(ap, double *) = dv; else *va_arg(ap, float *) = (float) dv;
        } else {
          unsigned long long mag = vm_scan_int(str + i, base, 1, &used, &sneg, &sovf);
          unsigned long long uv;
          if (used == 0) break;                                    /* matching failure */
          if (cv == 'd' || cv == 'i') {
            /* conversion as by strtol / strtoll (clamped), then stored with the size of the length modifier */
            unsigned long long max = (lmod == 2) ? ~0ull >> 1 : (unsigned long long) (~0ul >> 1);
            long long sv;
            if (sneg) sv = (sovf || mag > max + 1ull) ? -(long long) max - 1 : (long long) (0ull - mag);
            else sv = (sovf || mag > max) ? (long long) max : (long long) mag;
            uv = (unsigned long long) sv;
          } else uv = sovf ? ~0ull : (sneg ? 0ull - mag : mag);
          if (lmod == 2) *va_arg(ap, unsigned long long *) = uv;
          else if (lmod == 1) *va_arg(ap, unsigned long *) = (unsigned long) uv;
          else if (lmod == 0) *va_arg(ap, unsigned *) = (unsigned) uv;
          else if (lmod == -1) *va_arg(ap, unsigned short *) = (unsigned short) uv;
          else *va_arg(ap, unsigned char *) = (unsigned char) uv;
        }
        i += (int) used;
        done++;
        continue;
      }
      if (fmt[f] != '[' || (have_width && width == 0)) { VM_MODEL_FAIL("unsupported conversion specification"); break; }
      f++;
      if (fmt[f] == '^') { neg = 1; f++; }
      from = f;
      if (fmt[f] == ']') f++;              /* a leading ] belongs to the scanlist */
      while (fmt[f] != '\0' && fmt[f] != ']') f++;
      if (fmt[f] != ']') { VM_MODEL_FAIL("unterminated scanlist"); break; }
      to = f;
      f++;
      /* p8: white space is NOT skipped for [ ; p9: longest matching sequence within the field width;
       * p10: zero length = matching failure, or input failure if end-of-file prevented input */
      if (str[i] == '\0') { fail_input = 1; break; }
      out = va_arg(ap, char *);
      while (str[i] != '\0' && (!have_width || n < width) && (vm_in_set(fmt, from, to, str[i]) != neg)) {
        out[n++] = str[i++];
      }
      if (n == 0) break;                   /* matching failure; nothing stored */
      out[n] = '\0';
      done++;
    }
  }
  va_end(ap);
  /* p16: EOF if an input failure occurs before the first conversion has completed */
  if (fail_input && done == 0) return EOF;
  return done;
}
