/* Common harness vocabulary.  CBMC mode: nondet_* are solver variables, every value drawn is also
 * copied to the ghost variable `vlog` so that the runner can read the choices, in call order, from
 * a counterexample trace.  Native mode (-DVERIF_NATIVE): the same calls read the recorded values. */
#ifndef VERIF_H
#define VERIF_H
#include <stddef.h>
#include <stdint.h>

extern long long vlog;
extern unsigned long long vlogu;

#ifndef VERIF_NATIVE
int                nondet_int(void);
unsigned           nondet_uint(void);
long long          nondet_ll(void);
unsigned long long nondet_ull(void);
unsigned char      nondet_uchar(void);
_Bool              nondet_bool(void);
#define VASSUME(c)      __CPROVER_assume(c)
#define VASSERT(c, msg) __CPROVER_assert((c), "P " msg)
/* reachability witness: must come back FAILED, otherwise the harness is vacuous */
#define VWITNESS(msg)   __CPROVER_assert(0, "WITNESS " msg)
/* assertion that demonstrates a recorded known finding */
#define VKF(c, msg)     __CPROVER_assert((c), "KF " msg)
#define VATOMIC_BEGIN() __CPROVER_atomic_begin()
#define VATOMIC_END()   __CPROVER_atomic_end()
#else
#include <stdio.h>
#include <stdlib.h>
long long vn_next(void);
#define nondet_int()   ((int) vn_next())
#define nondet_uint()  ((unsigned) vn_next())
#define nondet_ll()    ((long long) vn_next())
#define nondet_ull()   ((unsigned long long) vn_next())
#define nondet_uchar() ((unsigned char) vn_next())
#define nondet_bool()  ((_Bool) (vn_next() != 0))
#define VASSUME(c)      do { if (!(c)) { printf("REPLAY-INCONSISTENT assume(%s)\n", #c); exit(77); } } while (0)
#define VASSERT(c, msg) do { if (!(c)) { printf("ASSERTION FAILED: P %s\n", msg); exit(1); } } while (0)
#define VWITNESS(msg)   do { printf("witness reached: %s\n", msg); } while (0)
#define VKF(c, msg)     do { if (!(c)) { printf("ASSERTION FAILED: KF %s\n", msg); exit(1); } } while (0)
#define VATOMIC_BEGIN()
#define VATOMIC_END()
#endif

#define ND_INT()   ({ int _v = nondet_int(); vlog = (long long) _v; _v; })
#define ND_UINT()  ({ unsigned _v = nondet_uint(); vlog = (long long) _v; _v; })
#define ND_LL()    ({ long long _v = nondet_ll(); vlog = _v; _v; })
#define ND_ULL()   ({ unsigned long long _v = nondet_ull(); vlogu = _v; _v; })
#define ND_UCHAR() ({ unsigned char _v = nondet_uchar(); vlog = (long long) _v; _v; })
#define ND_BOOL()  ({ _Bool _v = nondet_bool(); vlog = (long long) _v; _v; })
/* nondet int in [lo, hi] */
#define ND_RANGE(lo, hi) ({ int _r = ND_INT(); VASSUME(_r >= (lo) && _r <= (hi)); _r; })

#endif
