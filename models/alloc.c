#include "alloc.h"
#include <stdlib.h>
#include <string.h>
#include <pmem.h>

int vm_live, vm_nalloc, vm_fail_at, vm_fail_from, vm_failed;

static int vm_should_fail(void) {
  vm_nalloc++;
  if (vm_fail_at != 0 && (vm_nalloc == vm_fail_at || (vm_fail_from && vm_nalloc > vm_fail_at))) { vm_failed++; return 1; }
  return 0;
}

void *vm_malloc(size_t n) {
  void *p;
  if (vm_should_fail()) return NULL;
#ifdef VM_BLK
  /* fixed-size blocks: avoids symbolic-size objects (stated bound: requests <= VM_BLK) */
  VASSUME(n <= VM_BLK);
  p = malloc(VM_BLK);
#else
  p = malloc(n);
#endif
#ifndef VERIF_NATIVE
  __CPROVER_assume(p != NULL);
#endif
  vm_live++;
  return p;
}

void *vm_realloc(void *old, size_t n) {
  /* plibsys never calls f_realloc with old == NULL or n == 0 (p_realloc filters both) */
  void *p;
  if (vm_should_fail()) return NULL;
#ifdef VM_BLK
  VASSUME(n <= VM_BLK);
  return old;
#else
  p = realloc(old, n);
#ifndef VERIF_NATIVE
  __CPROVER_assume(p != NULL);
#endif
  return p;
#endif
}

void vm_free(void *p) {
  VASSERT(p != NULL, "allocator: free(NULL) never reaches the table");
  vm_live--;
  free(p);   /* CBMC checks double free / foreign free here */
}

void vm_alloc_install(void) {
  PMemVTable t;
  t.f_malloc = (ppointer (*)(psize)) vm_malloc;
  t.f_realloc = (ppointer (*)(ppointer, psize)) vm_realloc;
  t.f_free = (void (*)(ppointer)) vm_free;
  p_mem_set_vtable(&t);
}
