/* C04: tiny pthread-mutex model for the `sim` atomic model (ONE mutex instance = pp_atomic_mutex).
 * State = integer side scalars (never inside pthread_mutex_t).  POSIX contract modelled:
 *   lock   blocks until free (assume), then owner = caller; acquire edge for the ghost happens-before tracker;
 *   unlock requires owner == caller (asserted), frees; release edge;
 *   init/destroy return 0.  Error returns are not modelled (C01 covers the return-code mapping of pmutex-posix.c).
 * Hooks c04_lock_hook()/c04_unlock_hook() (defined by the harness, may be empty) run INSIDE the critical section right
 * after acquisition / right before release: the sequential interference harness uses them to let "other threads"
 * change the word while the mutex is NOT held by the caller. */
#include "atomics_model.h"
#include "verif.h"
#include "C04_redir_mutex.h"
int c04_mx_owner;            /* 0 = free, else tid+1 */
int c04_mx_inited, c04_mx_locks, c04_mx_unlocks;
const void *c04_mx_addr;
extern __CPROVER_thread_local int c04_tid;
void c04_lock_hook(void);
void c04_unlock_hook(void);

int c04_mutex_init(pthread_mutex_t *m, const pthread_mutexattr_t *a) {
  (void) a; c04_mx_addr = m; c04_mx_inited++; c04_mx_owner = 0; return 0;
}
int c04_mutex_lock(pthread_mutex_t *m) {
  VASSERT(m == c04_mx_addr && c04_mx_inited == 1, "sim: lock called on the initialised global mutex");
  int w = VMA_HB_LOOKUP(&c04_mx_owner); (void) w;
  VATOMIC_BEGIN();
  VASSUME(c04_mx_owner == 0);
  c04_mx_owner = c04_tid + 1;
  VMA_HB_OP(w, 2, __ATOMIC_ACQUIRE);
#ifdef C04_SEQ
  c04_mx_locks++;
#endif
  VATOMIC_END();
  c04_lock_hook();
  return 0;
}
int c04_mutex_trylock(pthread_mutex_t *m) { (void) m; VASSERT(0, "sim: trylock is never used by patomic-sim.c"); return 16; }
int c04_mutex_unlock(pthread_mutex_t *m) {
  VASSERT(m == c04_mx_addr && c04_mx_inited == 1, "sim: unlock called on the initialised global mutex");
  c04_unlock_hook();
  int w = VMA_HB_LOOKUP(&c04_mx_owner); (void) w;
  VATOMIC_BEGIN();
  VASSERT(c04_mx_owner == c04_tid + 1, "sim: unlock by the owner");
  VMA_HB_OP(w, 2, __ATOMIC_RELEASE);
  c04_mx_owner = 0;
#ifdef C04_SEQ
  c04_mx_unlocks++;
#endif
  VATOMIC_END();
  return 0;
}
int c04_mutex_destroy(pthread_mutex_t *m) { (void) m; c04_mx_inited--; return 0; }
