/* Sequential "nested-atomic" emulation of POSIX threads for CBMC (Engine A, DESIGN §1.2/§2).
 *
 * CBMC's native threads cannot be used where threads write pointers, so threads are emulated in ONE
 * sequential program:  te_pthread_create() registers the start routine as PENDING.  Every model entry
 * (atomic builtin via thread_atomics.h, every pthread call, the allocator wrappers of the harness) is a
 * PREEMPTION POINT: te_preempt() may, by a symbolic choice, run a pending thread's whole start routine
 * to completion right there (nested; that thread's own model entries may again run another pending
 * thread while te_depth < TE_DEPTH).  te_pthread_join() forces a pending target to run first.  When a
 * start routine returns (or after te_pthread_exit, see below) the TLS destructors of that thread run
 * (<= TE_DTOR_ROUNDS rounds, asserted sufficient).  A thread that would block on something owned by a
 * suspended (preempted) thread is an infeasible path of the emulation (VASSUME).
 * Covered: every interleaving in which at most TE_DEPTH operations are preempted at a time and the
 * preempting thread runs from start to end without being descheduled in favour of its preemptee.
 *
 * pthread_exit cannot unwind a sequential C stack: te_pthread_exit() records the exit and RETURNS; the
 * harness thread functions must return right after p_uthread_exit(); the model asserts at every model
 * entry that a thread which called pthread_exit executes nothing further (until its destructors).
 *
 * All model state lives in side tables (never inside glibc's pthread_*_t unions).  Thread ids are
 * TE_TID(slot), keys are slot+1 (0 = never created).  Ledgers for C20: te_keys_live, te_threads_unreaped,
 * te_attr_live, te_mutex_live, te_cond_live, te_rwlock_live.  Symbolic failures of pthread calls are
 * drawn from the budget te_faults_left (default 0 = never fail). */
#ifndef THREAD_EMUL_H
#define THREAD_EMUL_H
#include <pthread.h>
#include <sched.h>
#include <errno.h>
#include "verif.h"

#ifndef TE_NT
#define TE_NT 2            /* created threads (slot 0 is the main thread) */
#endif
#ifndef TE_NK
#define TE_NK 4            /* platform TLS keys */
#endif
#ifndef TE_DEPTH
#define TE_DEPTH 1         /* preemption nesting depth */
#endif
#ifndef TE_DTOR_ROUNDS
#define TE_DTOR_ROUNDS 2   /* <= PTHREAD_DESTRUCTOR_ITERATIONS (4); asserted to be enough */
#endif
#ifndef TE_NM
#define TE_NM 4            /* mutex / cond / rwlock objects alive at the same time (each kind) */
#endif
#define TE_TID(slot) ((pthread_t) (1000 + (slot)))

enum { TE_UNUSED = 0, TE_PENDING, TE_RUNNING, TE_ENDING, TE_FINISHED };

extern int te_cur;                 /* slot of the running thread, 0 = main */
extern int te_depth;               /* current nesting depth */
extern int te_state[TE_NT + 1];
extern int te_detached[TE_NT + 1], te_joined[TE_NT + 1], te_did_exit[TE_NT + 1];
extern int te_next_slot;           /* harness hint: slot for the next pthread_create (0 = first unused) */
extern int te_runs;                /* number of thread bodies started so far */
extern int te_preemptions;         /* thread bodies started by a preemption choice (not by join / te_run_pending) */
extern int te_keys_live, te_keys_created, te_keys_deleted, te_threads_unreaped, te_attr_live;
extern int te_mutex_live, te_cond_live, te_rwlock_live;
extern int te_faults_left, te_faults_taken;
extern int te_create_errno_choice;
extern int te_fault_at, te_fallible_calls;   /* concrete alternative: the te_fault_at-th fallible pthread call fails (1-based) */
extern int te_no_preempt;          /* harness switch: suppress preemption choices */

void te_preempt(void);             /* preemption point */
void te_run_pending(void);         /* run every pending thread now (end of a history) */
void *te_tls_peek(int slot, pthread_key_t key);   /* ghost access for oracles */
int  te_key_valid(pthread_key_t key);

#ifdef TE_HOOKS                    /* harness observers */
void te_hook_thread_ending(int slot);    /* start routine finished, destructors not yet run */
void te_hook_thread_finished(int slot);  /* destructors done */
#endif

int te_pthread_create(pthread_t *thr, const pthread_attr_t *attr, void *(*start)(void *), void *arg);
int te_pthread_join(pthread_t thr, void **ret);
int te_pthread_detach(pthread_t thr);
void te_pthread_exit(void *ret);
pthread_t te_pthread_self(void);
int te_pthread_key_create(pthread_key_t *key, void (*dtor)(void *));
int te_pthread_key_delete(pthread_key_t key);
void *te_pthread_getspecific(pthread_key_t key);
int te_pthread_setspecific(pthread_key_t key, const void *val);
int te_pthread_attr_init(pthread_attr_t *a);
int te_pthread_attr_destroy(pthread_attr_t *a);
int te_pthread_attr_setdetachstate(pthread_attr_t *a, int st);
int te_pthread_attr_setinheritsched(pthread_attr_t *a, int v);
int te_pthread_attr_getschedpolicy(const pthread_attr_t *a, int *pol);
int te_pthread_attr_setschedpolicy(pthread_attr_t *a, int pol);
int te_pthread_attr_setschedparam(pthread_attr_t *a, const struct sched_param *p);
int te_pthread_attr_setstacksize(pthread_attr_t *a, size_t n);
int te_pthread_getschedparam(pthread_t t, int *pol, struct sched_param *p);
int te_pthread_setschedparam(pthread_t t, int pol, const struct sched_param *p);
int te_pthread_setname_np(pthread_t t, const char *name);
int te_sched_get_priority_min(int pol);
int te_sched_get_priority_max(int pol);
int te_sched_yield(void);
long te_sysconf(int name);
int te_pthread_mutex_init(pthread_mutex_t *m, const pthread_mutexattr_t *a);
int te_pthread_mutex_destroy(pthread_mutex_t *m);
int te_pthread_mutex_lock(pthread_mutex_t *m);
int te_pthread_mutex_trylock(pthread_mutex_t *m);
int te_pthread_mutex_unlock(pthread_mutex_t *m);
int te_pthread_cond_init(pthread_cond_t *c, const pthread_condattr_t *a);
int te_pthread_cond_destroy(pthread_cond_t *c);
int te_pthread_cond_wait(pthread_cond_t *c, pthread_mutex_t *m);
int te_pthread_cond_signal(pthread_cond_t *c);
int te_pthread_cond_broadcast(pthread_cond_t *c);
int te_pthread_rwlock_rdlock(pthread_rwlock_t *l);
int te_pthread_rwlock_wrlock(pthread_rwlock_t *l);
int te_pthread_rwlock_tryrdlock(pthread_rwlock_t *l);
int te_pthread_rwlock_trywrlock(pthread_rwlock_t *l);
int te_pthread_rwlock_unlock(pthread_rwlock_t *l);
int te_pthread_rwlock_init(pthread_rwlock_t *l, const pthread_rwlockattr_t *a);
int te_pthread_rwlock_destroy(pthread_rwlock_t *l);
#endif
