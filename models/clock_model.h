/* Model of clock_nanosleep / nanosleep (relative sleeps) with a model clock and symbolic interruptions.
 * Force-include into the unit that sleeps (redirects the two calls), include normally elsewhere.
 *   success: advances vm_clock_ns by the whole request, returns 0;
 *   interruption (budget vm_sleep_intr_left, symbolic choice): advances the clock by a symbolic part of the
 *   request, stores the remaining time (0 <= rem <= req, normalised) and
 *     clock_nanosleep: RETURNS the error number EINTR; errno is UNSPECIFIED afterwards (POSIX: "returns the
 *                      corresponding error value", errno not mentioned) -> havoc (vm_sleep_errno_mode 0)
 *                      or, mode 1, set to EINTR as well (what a caller testing errno silently relies on);
 *     nanosleep:       returns -1 with errno = EINTR.
 * Requests must be valid (0 <= tv_nsec < 10^9, tv_sec >= 0): asserted, since the real call fails with EINVAL. */
#ifndef CLOCK_MODEL_H
#define CLOCK_MODEL_H
#include <time.h>
#include <errno.h>
extern unsigned long long vm_clock_s, vm_clock_ns;   /* time slept so far, normalised pair */
extern struct timespec vm_sleep_first_req, vm_sleep_last_rem; extern int vm_sleep_pending_rem;
extern int vm_sleep_calls, vm_sleep_intr_left, vm_sleep_intr_taken, vm_sleep_errno_mode;
#ifdef VM_SLEEP_HOOK
/* re-entrancy hook supplied by the harness (-DVM_SLEEP_HOOK): called inside the model of a sleep at its entry (0) and
 * after an interruption has stored the remaining time, before the call returns (1); the harness may run a complete
 * second p_uthread_sleep of ANOTHER thread there (it saves / restores the per-sleeper ghost state above) */
void vm_sleep_hook(int point);
#endif
int vm_clock_nanosleep(clockid_t clk, int flags, const struct timespec *req, struct timespec *rem);
int vm_nanosleep(const struct timespec *req, struct timespec *rem);
#ifndef CLOCK_MODEL_NO_REDIRECT
#define clock_nanosleep vm_clock_nanosleep
#define nanosleep vm_nanosleep
#endif
#endif
