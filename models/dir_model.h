/* Directory-stream / file-status model for pdir-posix.c (C18, C20): opendir/readdir/rewinddir/closedir,
 * stat, mkdir, rmdir with a resource ledger and bounded symbolic failures.
 *
 * Contract (POSIX.1-2017):
 *  vm_opendir(path)   path must be a readable string.  Fails (NULL, errno set to ENOENT/EACCES/EMFILE) when the fault budget
 *                     allows and the solver chooses so; otherwise returns a fresh open stream positioned at entry 0.
 *  vm_readdir(d)      d must be an OPEN stream of this model (asserted).  Returns the next entry (pointer into storage owned by the
 *                     stream, valid until the next readdir/closedir on it), or NULL with errno UNCHANGED at the end of the directory,
 *                     or - budget permitting - NULL with errno = EIO (read error).
 *  vm_rewinddir(d)    d must be open; repositions at entry 0.
 *  vm_closedir(d)     d must be an OPEN stream (asserted: every stream is closed exactly once, never a foreign pointer); returns 0.
 *  vm_stat(p, sb)     p readable; 0 with st_mode = directory / regular file / fifo (solver's choice), or -1/ENOENT budget permitting.
 *  vm_mkdir, vm_rmdir 0, or -1/EACCES budget permitting.
 * The modelled directory holds vm_dir_nentries (0..VM_DIR_MAXENT, set by the harness) entries named "a", "bc", "def".
 * Ledger: vm_dir_open = streams currently open; vm_dir_opened / vm_dir_closed = totals.
 * Faults: the calls that can fail (opendir, readdir, stat, mkdir, rmdir) are numbered 1, 2, ... in execution order (vm_dir_calls); the
 * calls number vm_dir_fault_at[0] and vm_dir_fault_at[1] (set by the harness, symbolic; 0 = none) fail; vm_dir_faults counts them.
 * "when the fault budget allows" below means: this call's number is one of the two. */
#ifndef VM_DIR_MODEL_H
#define VM_DIR_MODEL_H
#include <sys/types.h>
#include <sys/stat.h>
#include <dirent.h>
#ifndef VM_DIR_MAXSTREAMS
#define VM_DIR_MAXSTREAMS 2
#endif
#define VM_DIR_MAXENT 3
extern int vm_dir_open, vm_dir_opened, vm_dir_closed;
extern int vm_dir_fault_at[2], vm_dir_calls, vm_dir_faults;
extern int vm_dir_nentries;
extern int vm_dir_readdir_calls, vm_dir_stat_calls;
extern int vm_dir_last_index;   /* index of the entry delivered by the latest successful readdir (-1: none yet) */
DIR           *vm_opendir(const char *path);
struct dirent *vm_readdir(DIR *d);
void           vm_rewinddir(DIR *d);
int            vm_closedir(DIR *d);
int            vm_stat(const char *path, struct stat *sb);
int            vm_mkdir(const char *path, mode_t mode);
int            vm_rmdir(const char *path);
size_t         vm_kf_strlen(const char *s);   /* demonstration queries: asserts s != NULL (VKF), then bounded count */
#endif
