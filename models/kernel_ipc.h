/* Kernel model for POSIX named semaphores and POSIX shared memory (trusted base of C06/C07/C08 and
 * the IPC parts of C18/C19/C20).  Derived from POSIX.1-2017 sem_open/sem_wait/sem_post/sem_close/
 * sem_unlink/shm_open/shm_unlink/ftruncate/fstat/mmap/munmap/close and sem_overview(7), shm_overview(7).
 *
 * Two emulated processes share this kernel state; `vk_cur` says which one is executing.  Every
 * system-call entry is
 *   - a preemption point (nested-atomic emulation, depth 1): when armed by the harness, the OTHER
 *     process may run one whole API call (`vk_other()`, supplied by the harness) right here;
 *   - a crash point: the `vk_crash_at[p]`-th call of process p and all later ones are no-ops failing
 *     with ECANCELED (the process was SIGKILLed just before that call); the kernel closes the dead
 *     process' handles, descriptors and mappings, names persist;
 *   - an EINTR point (bounded by `vk_eintr_budget`) for the interruptible calls sem_wait, sem_open,
 *     shm_open, and a fault point (bounded by `vk_fault_budget`) for sem_open, shm_open, ftruncate,
 *     fstat, mmap.
 */
#ifndef VM_KERNEL_IPC_H
#define VM_KERNEL_IPC_H
#include <stddef.h>
#include <sys/types.h>
#include <sys/stat.h>
#include <semaphore.h>

#ifndef VK_NSLOT
#define VK_NSLOT 6      /* distinct names                                   */
#endif
#ifndef VK_NSEM
#define VK_NSEM 5       /* semaphore objects (generations) ever created      */
#endif
#ifndef VK_NSEMH
#define VK_NSEMH 8      /* semaphore handles ever returned by sem_open       */
#endif
#ifndef VK_NSHM
#define VK_NSHM 3       /* shm objects (generations) ever created            */
#endif
#ifndef VK_NFD
#define VK_NFD 6        /* descriptors ever returned by shm_open             */
#endif
#ifndef VK_NMAP
#define VK_NMAP 6       /* mappings ever returned by mmap                    */
#endif
#ifndef VK_PAGE
#define VK_PAGE 4       /* model page size (the library never asks for it)   */
#endif
#ifndef VK_NPAGES
#define VK_NPAGES 3
#endif
#define VK_SEGMAX (VK_PAGE * VK_NPAGES)   /* largest segment / mapping in bytes */
#ifndef VK_FD_BASE
#define VK_FD_BASE 3   /* first descriptor handed out; -DVK_FD_BASE=0: a process whose stdin is closed gets descriptor 0 */
#endif

/* ---- control (written by the harness) ---- */
extern int vk_cur;               /* executing process: 0 or 1 */
extern int vk_preempt_on;        /* 1: the next system-call entries may run vk_other() once */
extern int vk_preempt_at;        /* 0: any armed entry may be preempted (symbolic); k>0: exactly the k-th system call of the armed process */
extern int vk_preempted;         /* set when vk_other() was run */
extern int vk_crash_at[2];       /* 1-based index of the first system call that is not executed; 0 = never */
extern int vk_dead[2];
extern int vk_nsys[2];           /* system calls entered so far per process */
extern int vk_eintr_budget;      /* EINTR results still to be injected */
extern int vk_eintr_seen;        /* EINTR results injected so far */
extern int vk_fault_budget;      /* failing results (ENOMEM/EACCES/...) still to be injected */
extern int vk_fault_seen;
extern int vk_no_rescuer;        /* harness: no live process could post: a sem_wait that would block is a violation, not an ended path */
extern int vk_expect_noblock;    /* harness expectation: a sem_wait issued now must find a unit */
extern int vk_bad_close;         /* close() on a descriptor that is not open in the calling process */
extern int vk_bad_munmap;        /* munmap() of an address that is no live mapping base of the process */
void vk_other(void);             /* harness: one whole API call of the other process (may be empty) */
void vk_reap(int proc);          /* kernel clean-up of a dead process (called by the crash switch)  */
void vk_kill(int proc);          /* SIGKILL now (between two API calls); the crash switch calls it too */

int  vk_setup_sem(int slot, int value);      /* leftover semaphore linked under the name, no open handle; returns the object */
int  vk_setup_shm(int slot, long size);      /* leftover segment linked under the name, no mapping; returns the object */

/* ---- observation (read by the harness) ---- */
int  vk_slot(const char *name);              /* name -> slot */
int  vk_sem_linked(int slot);                /* semaphore object linked under the name, -1 if none */
int  vk_sem_value(int obj);
int  vk_sem_obj_of(const sem_t *h);          /* object behind an open handle, -1 */
int  vk_sem_handles(int proc);               /* open semaphore handles of a process */
int  vk_shm_linked(int slot);
long vk_shm_size(int obj);
int  vk_shm_obj_at(const void *addr);        /* object whose backing store starts at addr, -1 */
long vk_mapped_pages(int proc);              /* pages currently mapped by a process */
long vk_map_len(int proc, const void *addr); /* bytes (page rounded) mapped at addr by proc, 0 if none */
int  vk_map_writable(int proc, const void *addr); /* some live mapping of proc at addr has PROT_WRITE */
int  vk_open_fds(int proc);
int  vk_names_linked(void);                  /* names (sem + shm) currently linked */
unsigned char *vk_shm_mem(int obj);

/* ---- the system calls ---- */
sem_t *vm_sem_open_x(const char *name, int oflag, unsigned mode, unsigned value, ...);
int vm_sem_close(sem_t *s);
int vm_sem_unlink(const char *name);
int vm_sem_wait(sem_t *s);
int vm_sem_trywait(sem_t *s);
int vm_sem_post(sem_t *s);
int vm_sem_getvalue(sem_t *s, int *v);
int vm_shm_open(const char *name, int oflag, mode_t mode);
int vm_shm_unlink(const char *name);
int vm_ftruncate(int fd, off_t len);
int vm_fstat(int fd, struct stat *st);
void *vm_mmap(void *addr, size_t len, int prot, int flags, int fd, off_t off);
int vm_munmap(void *addr, size_t len);
int vm_close(int fd);
/* ---- System V flavour (-DVK_SYSV), see kernel_ipc.c ---- */
#ifdef VK_SYSV
#include <sys/ipc.h>
#include <sys/sem.h>
int vm_open_x(const char *path, int flags, ...);
int vm_stat(const char *path, struct stat *st);
int vm_unlink(const char *path);
key_t vm_ftok(const char *path, int proj);
int vm_semget(key_t key, int nsems, int flg);
int vm_semctl4(int id, int n, int cmd, int val);
int vm_semop(int id, struct sembuf *ops, size_t nops);
int vk_files(void);                          /* key files currently existing */
#endif
#endif
