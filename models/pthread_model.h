/* pthread model for the CBMC thread harnesses of C01-C03 (trusted base).
 *
 * Contract = POSIX: mutex (one owner; trylock EBUSY when owned), condition variable (wait releases the
 * mutex and blocks as ONE step, returns with the mutex re-acquired; signal wakes exactly one waiter of
 * THAT condition object chosen nondeterministically - the weakest thing POSIX allows besides spurious
 * wake-ups, which are explored separately, at most VM_SPURIOUS per thread; broadcast wakes all),
 * rwlock (one writer or any number of readers).
 *
 * All state is kept in side scalars keyed by the object's ADDRESS (registered by *_init before the
 * first spawn); nothing is stored in the glibc unions.  Arrays are only indexed by literals (the model
 * code is unrolled over thread / object indices) so that CBMC's field sensitivity turns them into scalars.
 *
 * Deadlock / lost wake-up: every thread has a state scalar (running / waiting on cv / finished).  The
 * thread that blocks (cond_wait, first atomic step) or finishes (vm_thread_finish) asserts inside its own
 * atomic section that the state it enters is not "somebody unfinished, nobody runnable"; a waiter is
 * runnable only when a signal/broadcast has marked it woken (spurious wake-ups are NOT counted as rescue).
 */
#ifndef VM_PTHREAD_MODEL_H
#define VM_PTHREAD_MODEL_H
#include <pthread.h>
#include <errno.h>
#include "verif.h"

#define VM_NTHR 4     /* thread ids 0..3 */
#define VM_NMTX 3
#define VM_NCV  3
#define VM_NRW  2
#ifndef VM_SPURIOUS
#define VM_SPURIOUS 0 /* spurious wake-ups allowed per thread */
#endif

#define VM_T_NONE     0
#define VM_T_RUNNING  1
#define VM_T_WAITING  2
#define VM_T_FINISHED 3

#ifndef VERIF_NATIVE
extern __CPROVER_thread_local int vm_self;       /* id of the executing thread, set first thing in the thread body */
extern __CPROVER_thread_local int vm_spur_left;  /* remaining spurious wake-ups of this thread */
#else
extern __thread int vm_self, vm_spur_left;
#endif

extern int vm_tstate[VM_NTHR];   /* VM_T_* */
extern int vm_twcv[VM_NTHR];     /* condition index a WAITING thread waits on */
extern int vm_twmtx[VM_NTHR];    /* mutex index it released */
extern int vm_twoken[VM_NTHR];   /* marked by signal/broadcast */
extern int vm_mtx_owner[VM_NMTX];  /* 0 free, t+1 owner */
extern int vm_rw_writer[VM_NRW];   /* 0 none, t+1 writer */
extern int vm_rw_readers[VM_NRW];  /* number of read holds */
extern int vm_rw_rheld[VM_NRW][VM_NTHR]; /* read holds per thread */
extern int vm_nmtx, vm_ncv, vm_nrw;
extern pthread_mutex_t  *vm_mtx_addr[VM_NMTX];
extern pthread_cond_t   *vm_cv_addr[VM_NCV];
extern pthread_rwlock_t *vm_rw_addr[VM_NRW];
/* ghost records of the last calls (sequential effect queries) */
extern int vm_last_wait_cv, vm_last_wait_mtx, vm_nsignal, vm_nbroadcast, vm_nwoken_last;

int vm_mtx_index(const pthread_mutex_t *m);
int vm_cv_index(const pthread_cond_t *c);
int vm_rw_index(const pthread_rwlock_t *r);

/* harness side */
void vm_thread_register(int t);   /* before the spawn: thread t takes part (state RUNNING) */
void vm_thread_begin(int t);      /* first statement of thread t */
void vm_thread_finish(void);      /* last statement: holds nothing, no deadlock left behind */
int  vm_all_finished(void);       /* to be called inside an atomic section */

#ifdef VM_PT_FAULTS
/* sequential return-code queries: when vm_fault_armed != 0 the NEXT model call performs nothing and
 * returns vm_fault_code (a symbolic non-zero error number chosen by the harness) */
extern int vm_fault_armed, vm_fault_code, vm_fault_hits;
#endif

int vm_pthread_mutex_init(pthread_mutex_t *m, const pthread_mutexattr_t *a);
int vm_pthread_mutex_destroy(pthread_mutex_t *m);
int vm_pthread_mutex_lock(pthread_mutex_t *m);
int vm_pthread_mutex_trylock(pthread_mutex_t *m);
int vm_pthread_mutex_unlock(pthread_mutex_t *m);
int vm_pthread_cond_init(pthread_cond_t *c, const pthread_condattr_t *a);
int vm_pthread_cond_destroy(pthread_cond_t *c);
int vm_pthread_cond_wait(pthread_cond_t *c, pthread_mutex_t *m);
int vm_pthread_cond_signal(pthread_cond_t *c);
int vm_pthread_cond_broadcast(pthread_cond_t *c);
int vm_pthread_rwlock_init(pthread_rwlock_t *r, const pthread_rwlockattr_t *a);
int vm_pthread_rwlock_destroy(pthread_rwlock_t *r);
int vm_pthread_rwlock_rdlock(pthread_rwlock_t *r);
int vm_pthread_rwlock_tryrdlock(pthread_rwlock_t *r);
int vm_pthread_rwlock_wrlock(pthread_rwlock_t *r);
int vm_pthread_rwlock_trywrlock(pthread_rwlock_t *r);
int vm_pthread_rwlock_unlock(pthread_rwlock_t *r);
#endif
