/* pthread model for the CBMC thread harnesses of C01-C03 (trusted base).
 *
 * Contract = POSIX: mutex (one owner; trylock EBUSY when owned), condition variable (wait releases the
 * mutex and blocks as ONE step, returns with the mutex re-acquired; signal wakes exactly one waiter of
 * THAT condition object chosen nondeterministically - the weakest thing POSIX allows besides spurious
 * wake-ups, which are explored separately, at most VM_SPURIOUS per thread; broadcast wakes all),
 * rwlock (one writer or any number of readers; no writer preference).
 *
 * All state is kept in side SCALARS keyed by the object's ADDRESS (registered by *_init before the
 * first spawn); nothing is stored in the glibc unions; no arrays (vm_tstate_0, vm_tstate_1, ...).
 * Capacities are compile-time (-DVM_NTHR= -DVM_NMTX= -DVM_NCV= -DVM_NRW=, given through Q(defs=...) so
 * that all translation units agree): the unrolled model code only mentions objects that exist.
 *
 * Deadlock / lost wake-up: every thread has a state scalar (running / waiting on cv / finished).  The
 * thread that blocks (cond_wait, first atomic step) or finishes (vm_thread_finish) asserts inside its own
 * atomic section that the state it enters is not "somebody unfinished, nobody runnable"; a waiter is
 * runnable only when a signal/broadcast has marked it woken (spurious wake-ups are NOT counted as rescue).
 * Blocking calls are `assume`s inside an atomic step (CBMC: the thread simply does not proceed).
 */
#ifndef VM_PTHREAD_MODEL_H
#define VM_PTHREAD_MODEL_H
#include <pthread.h>
#include <errno.h>
#include "verif.h"

#ifndef VM_NTHR
#define VM_NTHR 4     /* thread ids 0..VM_NTHR-1 */
#endif
#ifndef VM_NMTX
#define VM_NMTX 3
#endif
#ifndef VM_NCV
#define VM_NCV  3
#endif
#ifndef VM_NRW
#define VM_NRW  2
#endif
#ifndef VM_SPURIOUS
#define VM_SPURIOUS 0 /* spurious wake-ups allowed per thread */
#endif

#if VM_NTHR == 1
#define VM_FOR_T(X) X(0)
#define VM_FOR_T2(X, k) X(k, 0)
#elif VM_NTHR == 2
#define VM_FOR_T(X) X(0) X(1)
#define VM_FOR_T2(X, k) X(k, 0) X(k, 1)
#elif VM_NTHR == 3
#define VM_FOR_T(X) X(0) X(1) X(2)
#define VM_FOR_T2(X, k) X(k, 0) X(k, 1) X(k, 2)
#elif VM_NTHR == 4
#define VM_FOR_T(X) X(0) X(1) X(2) X(3)
#define VM_FOR_T2(X, k) X(k, 0) X(k, 1) X(k, 2) X(k, 3)
#else
#error "VM_NTHR must be 1..4"
#endif
#if VM_NMTX == 0
#define VM_FOR_M(X)
#elif VM_NMTX == 1
#define VM_FOR_M(X) X(0)
#elif VM_NMTX == 2
#define VM_FOR_M(X) X(0) X(1)
#elif VM_NMTX == 3
#define VM_FOR_M(X) X(0) X(1) X(2)
#else
#error "VM_NMTX must be 0..3"
#endif
#if VM_NCV == 0
#define VM_FOR_C(X)
#elif VM_NCV == 1
#define VM_FOR_C(X) X(0)
#elif VM_NCV == 2
#define VM_FOR_C(X) X(0) X(1)
#elif VM_NCV == 3
#define VM_FOR_C(X) X(0) X(1) X(2)
#else
#error "VM_NCV must be 0..3"
#endif
#if VM_NRW == 0
#define VM_FOR_R(X)
#define VM_FOR_RT(X)
#elif VM_NRW == 1
#define VM_FOR_R(X) X(0)
#define VM_FOR_RT(X) VM_FOR_T2(X, 0)
#elif VM_NRW == 2
#define VM_FOR_R(X) X(0) X(1)
#define VM_FOR_RT(X) VM_FOR_T2(X, 0) VM_FOR_T2(X, 1)
#else
#error "VM_NRW must be 0..2"
#endif

#define VM_WAIT_RW 200   /* pseudo condition index: blocked on rwlock k = VM_WAIT_RW + k */
#define VM_WAIT_EV 100   /* blocked on harness event e = VM_WAIT_EV + e */

#define VM_T_NONE     0
#define VM_T_RUNNING  1
#define VM_T_WAITING  2
#define VM_T_FINISHED 3

#ifndef VERIF_NATIVE
extern __CPROVER_thread_local int vm_self;       /* id of the executing thread, set first thing in the thread body */
extern __CPROVER_thread_local int vm_spur_left;  /* remaining spurious wake-ups of this thread */
#else
extern __thread int vm_self, vm_spur_left;
#endif

/* state scalars: vm_tstate_<t> (VM_T_*), vm_twcv_<t> (condition index a WAITING thread waits on),
 * vm_twmtx_<t> (mutex index it released), vm_twoken_<t> (marked by signal/broadcast),
 * vm_mtx_owner_<k> (0 free, t+1 owner), vm_rw_writer_<k> (0 none, t+1), vm_rw_readers_<k>,
 * vm_rw_rheld_<k>_<t> (read holds per thread), vm_*_addr_<k> (registered object addresses) */
#define VM_DECL_T(t) extern int vm_tstate_##t, vm_twcv_##t, vm_twmtx_##t, vm_twoken_##t;
#define VM_DECL_M(k) extern int vm_mtx_owner_##k; extern pthread_mutex_t *vm_mtx_addr_##k;
#define VM_DECL_C(k) extern pthread_cond_t *vm_cv_addr_##k;
#define VM_DECL_R(k) extern int vm_rw_writer_##k, vm_rw_readers_##k; extern pthread_rwlock_t *vm_rw_addr_##k;
#define VM_DECL_RT(k, t) extern int vm_rw_rheld_##k##_##t;
VM_FOR_T(VM_DECL_T)
VM_FOR_M(VM_DECL_M)
VM_FOR_C(VM_DECL_C)
VM_FOR_R(VM_DECL_R)
VM_FOR_RT(VM_DECL_RT)
extern int vm_nmtx, vm_ncv, vm_nrw;

#ifdef VM_PT_GHOST
/* ghost records of the last calls (sequential effect queries only) */
extern int vm_last_wait_cv, vm_last_wait_mtx, vm_nsignal, vm_nbroadcast, vm_nwoken_last;
extern int vm_nsig_cv[4], vm_nbc_cv[4];
#endif

int vm_mtx_index(const pthread_mutex_t *m);   /* -1: not a registered object */
int vm_cv_index(const pthread_cond_t *c);
int vm_rw_index(const pthread_rwlock_t *r);

/* harness side */
void vm_thread_register(int t);   /* before the spawn: thread t takes part (state RUNNING) */
void vm_thread_begin(int t);      /* first statement of thread t */
void vm_thread_finish(void);      /* last statement: holds nothing, no deadlock left behind */
int  vm_all_finished(void);       /* to be called inside an atomic section */
void vm_set_waiting(int t, int ci, int mi);  /* sequential effect queries: put thread t into the waiter set of cv ci */
int  vm_is_woken(int t);
void vm_event_set(int ev);        /* harness-level events 0..1 (rendezvous); waiting threads take part in the deadlock check */
void vm_event_wait(int ev);
int  vm_mutex_owner(int mi);      /* 0 free, t+1 */
int  vm_rwlock_writer(int ri);
int  vm_rwlock_readers(int ri);

#ifdef VM_PRE_HOOK
void VM_PRE_HOOK(void);            /* -DVM_PRE_HOOK=fn: called at the entry of every platform call (preemption point of the
                                      sequential nested-context emulation, C01 nested_* queries) */
#endif
#ifdef VM_WAKE_MONITOR
/* -DVM_WAKE_MONITOR: wake-delivery monitor (C03): see cond_wait; the harness calls vm_wake_delivered() right after
 * p_cond_variable_wait has returned to it */
void vm_wake_delivered(void);
#endif
#ifdef VM_CW_HOOK
void VM_CW_HOOK(int ci, int mi);   /* -DVM_CW_HOOK=fn: replaces the blocking part of cond_wait (inductive sequential queries);
                                      with -DVM_CW_RELEASE the platform mutex is released before / re-acquired after the hook */
#endif
#ifdef VM_PT_FAULTS
/* sequential return-code queries: when vm_fault_armed != 0 the NEXT model call performs nothing and
 * returns vm_fault_code (a symbolic non-zero error number chosen by the harness) */
extern int vm_fault_armed, vm_fault_code, vm_fault_hits;
#endif

int vm_pthread_mutex_init(pthread_mutex_t *m, const pthread_mutexattr_t *a);
int vm_pthread_mutex_destroy(pthread_mutex_t *m);
int vm_pthread_mutex_lock(pthread_mutex_t *m);
int vm_pthread_mutex_trylock(pthread_mutex_t *m);
int vm_pthread_mutex_unlock(pthread_mutex_t *m);
int vm_pthread_cond_init(pthread_cond_t *c, const pthread_condattr_t *a);
int vm_pthread_cond_destroy(pthread_cond_t *c);
int vm_pthread_cond_wait(pthread_cond_t *c, pthread_mutex_t *m);
int vm_pthread_cond_signal(pthread_cond_t *c);
int vm_pthread_cond_broadcast(pthread_cond_t *c);
int vm_pthread_rwlock_init(pthread_rwlock_t *r, const pthread_rwlockattr_t *a);
int vm_pthread_rwlock_destroy(pthread_rwlock_t *r);
int vm_pthread_rwlock_rdlock(pthread_rwlock_t *r);
int vm_pthread_rwlock_tryrdlock(pthread_rwlock_t *r);
int vm_pthread_rwlock_wrlock(pthread_rwlock_t *r);
int vm_pthread_rwlock_trywrlock(pthread_rwlock_t *r);
int vm_pthread_rwlock_unlock(pthread_rwlock_t *r);
#endif
