/* C17 environment model: inet_pton / inet_ntop / getaddrinfo / freeaddrinfo as CONSISTENT UNINTERPRETED FUNCTIONS.
 *
 * The platform parsers/printers themselves are outside the claim.  What the model fixes is their documented CONTRACT
 * (POSIX.1-2017 inet_pton/inet_ntop, getaddrinfo/freeaddrinfo) and it records how the library called them.
 * There are TWO slots (vmn[0], vmn[1]) = two different inputs the platform may be asked about in one run (the second one is used by
 * the re-entrancy queries, where a second library call runs nested inside a model function of the first); the slot is selected by
 * the INPUT of the platform call, so "same input -> same output" holds by construction and different inputs may get different outputs:
 *
 *  vm_inet_pton(af, src, dst)   af must be AF_INET / AF_INET6 (asserted); src must be one of the harness' text pointers vmn[k].text
 *      (asserted: the library passes the caller's string unchanged) and selects the slot.  The verdict for (af, that string) is the
 *      symbolic constant vmn[k].pton4_ok / pton6_ok; on acceptance EXACTLY 4 / 16 symbolic bytes pton4_out / pton6_out are written to
 *      dst (a smaller dst object is a CBMC bounds violation) and 1 is returned; on rejection 0 is returned and dst is not touched.
 *  vm_inet_ntop(af, src, dst, size)  the slot is the one whose key (ntop_af, ntop_key = the 4/16 address bytes) equals the input; an
 *      input equal to no key is an assertion failure (the library must hand over the family and the stored address bytes of the object).
 *      Requires (asserted) size >= INET_ADDRSTRLEN (16) resp. INET6_ADDRSTRLEN (46) so that the call cannot fail with ENOSPC; writes the
 *      symbolic NUL-terminated string vmn[k].ntop_text (length <= VMN_TEXT_MAX, chosen by the harness; real maximum 45) and returns dst.
 *  vm_getaddrinfo(node, service, hints, res)  node selects the slot like inet_pton; records service/hints; returns the symbolic verdict
 *      gai_rc (0 or an EAI_* code != 0).  On 0: *res = ONE heap addrinfo (ai_next NULL) with ai_family = gai_family (AF_INET or
 *      AF_INET6), ai_addrlen = sizeof(sockaddr_in / sockaddr_in6), ai_addr = exact-size heap copy of the symbolic gai_sa (family set,
 *      port 0 because service == NULL); on failure *res is left untouched.  gai_live counts results not yet freed.
 *  vm_freeaddrinfo(ai)  must be called with exactly a pointer returned by getaddrinfo (asserted; selects the slot), at most once (a second
 *      call is a double free in CBMC); releases both heap objects, so any later use is a CBMC use-after-free.
 *  Every function calls vmn_preempt(point) on entry and right before returning (defined by the harness; empty in the sequential
 *  queries): preemption points of the nested-atomic thread emulation.
 * Dual-mode (CBMC / native replay) C. */
#ifndef NETDB_MODEL_H
#define NETDB_MODEL_H
#include <sys/types.h>
#include <sys/socket.h>
#include <netinet/in.h>
#include <netdb.h>
#ifndef VMN_TEXT_MAX
#define VMN_TEXT_MAX 7
#endif
struct vmn_slot {
  /* inputs chosen by the harness */
  const char *text;                         /* the string the library is expected to hand to the platform */
  int pton4_ok, pton6_ok;                   /* verdicts (0/1) */
  unsigned char pton4_out[4], pton6_out[16];
  int gai_rc, gai_family;
  struct sockaddr_in6 gai_sa;               /* image of the result address (first sizeof(sockaddr_in) bytes used for AF_INET) */
  int ntop_af; unsigned char ntop_key[16];  /* the address this slot's text belongs to (ntop_af 0 = slot unused) */
  char ntop_text[VMN_TEXT_MAX + 1];
  /* observations */
  int pton4_calls, pton6_calls, ntop_calls, gai_calls, free_calls, gai_live;
  unsigned ntop_size;
  int gai_service_null, gai_hints_ok;
  struct addrinfo *gai_res;
};
extern struct vmn_slot vmn[2];
enum { VMN_P_PTON_IN, VMN_P_PTON_OUT, VMN_P_NTOP_IN, VMN_P_NTOP_OUT, VMN_P_GAI_IN, VMN_P_GAI_OUT, VMN_P_FREE_IN, VMN_P_FREE_OUT, VMN_P_MALLOC };
void vmn_preempt(int point);                /* defined by the harness */

int         vm_inet_pton(int af, const char *src, void *dst);
const char *vm_inet_ntop(int af, const void *src, char *dst, socklen_t size);
int         vm_getaddrinfo(const char *node, const char *service, const struct addrinfo *hints, struct addrinfo **res);
void        vm_freeaddrinfo(struct addrinfo *ai);
#endif
