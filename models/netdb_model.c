/* C17 environment model, see netdb_model.h for the contracts. */
#include "verif.h"
#include "netdb_model.h"
#include <stdlib.h>
#include <string.h>

struct vmn_slot vmn[2];

static int slot_of_text(const char *s) { return (s != NULL && s == vmn[0].text) ? 0 : (s != NULL && s == vmn[1].text) ? 1 : -1; }

int vm_inet_pton(int af, const char *src, void *dst) {
  unsigned char *d = (unsigned char *) dst;
  int k = slot_of_text(src), r = 0;
  vmn_preempt(VMN_P_PTON_IN);
  VASSERT(af == AF_INET || af == AF_INET6, "platform: inet_pton called with AF_INET or AF_INET6");
  VASSERT(k >= 0, "platform: inet_pton receives the caller's string");
  VASSERT(dst != NULL, "platform: inet_pton destination not NULL");
  if (k < 0) return 0;
  if (af == AF_INET) {
    vmn[k].pton4_calls++;
    if (vmn[k].pton4_ok) { for (int i = 0; i < 4; i++) d[i] = vmn[k].pton4_out[i]; r = 1; }
  } else {
    vmn[k].pton6_calls++;
    if (vmn[k].pton6_ok) { for (int i = 0; i < 16; i++) d[i] = vmn[k].pton6_out[i]; r = 1; }
  }
  vmn_preempt(VMN_P_PTON_OUT);
  return r;
}

const char *vm_inet_ntop(int af, const void *src, char *dst, socklen_t size) {
  const unsigned char *s = (const unsigned char *) src;
  int k = -1, n = (af == AF_INET6) ? 16 : 4;
  vmn_preempt(VMN_P_NTOP_IN);
  VASSERT(af == AF_INET || af == AF_INET6, "platform: inet_ntop called with AF_INET or AF_INET6");
  VASSERT(src != NULL && dst != NULL, "platform: inet_ntop pointers not NULL");
  VASSERT(size >= (af == AF_INET ? 16u : 46u), "platform: inet_ntop buffer at least INET_ADDRSTRLEN / INET6_ADDRSTRLEN");
  for (int j = 1; j >= 0; j--) {
    _Bool eq = (vmn[j].ntop_af == af);
    for (int i = 0; i < 16; i++) if (i < n) eq = eq && (s[i] == vmn[j].ntop_key[i]);
    if (eq) k = j;
  }
  VASSERT(k >= 0, "platform: inet_ntop receives the family and the stored address bytes of the object");
  if (k < 0) return NULL;
  vmn[k].ntop_calls++; vmn[k].ntop_size = size;
  for (int i = 0; i <= VMN_TEXT_MAX; i++) dst[i] = vmn[k].ntop_text[i];
  vmn_preempt(VMN_P_NTOP_OUT);
  return dst;
}

int vm_getaddrinfo(const char *node, const char *service, const struct addrinfo *hints, struct addrinfo **res) {
  int k = slot_of_text(node);
  vmn_preempt(VMN_P_GAI_IN);
  VASSERT(k >= 0, "platform: getaddrinfo receives the caller's string");
  VASSERT(res != NULL, "platform: getaddrinfo result pointer not NULL");
  if (k < 0) return EAI_FAIL;
  vmn[k].gai_calls++;
  vmn[k].gai_service_null = (service == NULL);
  vmn[k].gai_hints_ok = hints != NULL && hints->ai_family == AF_UNSPEC && hints->ai_socktype == SOCK_STREAM && hints->ai_protocol == 0 &&
                        hints->ai_flags == AI_NUMERICHOST && hints->ai_addrlen == 0 && hints->ai_addr == NULL &&
                        hints->ai_canonname == NULL && hints->ai_next == NULL;
  if (vmn[k].gai_rc != 0) { vmn_preempt(VMN_P_GAI_OUT); return vmn[k].gai_rc; }
  struct addrinfo *ai = (struct addrinfo *) malloc(sizeof(struct addrinfo));
  VASSUME(ai != NULL);
  ai->ai_flags = AI_NUMERICHOST; ai->ai_family = vmn[k].gai_family; ai->ai_socktype = SOCK_STREAM; ai->ai_protocol = 6;
  ai->ai_canonname = NULL; ai->ai_next = NULL;
  if (vmn[k].gai_family == AF_INET6) {
    struct sockaddr_in6 *sa = (struct sockaddr_in6 *) malloc(sizeof(struct sockaddr_in6));
    VASSUME(sa != NULL);
    *sa = vmn[k].gai_sa; sa->sin6_family = AF_INET6; sa->sin6_port = 0;
    ai->ai_addr = (struct sockaddr *) sa; ai->ai_addrlen = sizeof(struct sockaddr_in6);
  } else {
    struct sockaddr_in *sa = (struct sockaddr_in *) malloc(sizeof(struct sockaddr_in));
    VASSUME(sa != NULL);
    memcpy(sa, &vmn[k].gai_sa, sizeof(struct sockaddr_in)); sa->sin_family = AF_INET; sa->sin_port = 0;
    ai->ai_addr = (struct sockaddr *) sa; ai->ai_addrlen = sizeof(struct sockaddr_in);
  }
  vmn[k].gai_res = ai; vmn[k].gai_live++;
  *res = ai;
  vmn_preempt(VMN_P_GAI_OUT);
  return 0;
}

void vm_freeaddrinfo(struct addrinfo *ai) {
  int k = (ai != NULL && ai == vmn[0].gai_res) ? 0 : (ai != NULL && ai == vmn[1].gai_res) ? 1 : -1;
  vmn_preempt(VMN_P_FREE_IN);
  VASSERT(k >= 0, "platform: freeaddrinfo receives exactly a list getaddrinfo returned");
  if (k < 0) return;
  vmn[k].free_calls++;
  vmn[k].gai_live--;
  free(ai->ai_addr);
  free(ai);
  vmn_preempt(VMN_P_FREE_OUT);
}
