/* C04: force-included into pmutex-posix.c (sim atomic model): pthread mutex calls -> models/C04_mutex.c */
#ifndef C04_REDIR_MUTEX_H
#define C04_REDIR_MUTEX_H
#include <pthread.h>
int c04_mutex_init(pthread_mutex_t *m, const pthread_mutexattr_t *a);
int c04_mutex_lock(pthread_mutex_t *m);
int c04_mutex_trylock(pthread_mutex_t *m);
int c04_mutex_unlock(pthread_mutex_t *m);
int c04_mutex_destroy(pthread_mutex_t *m);
#define pthread_mutex_init    c04_mutex_init
#define pthread_mutex_lock    c04_mutex_lock
#define pthread_mutex_trylock c04_mutex_trylock
#define pthread_mutex_unlock  c04_mutex_unlock
#define pthread_mutex_destroy c04_mutex_destroy
#endif
