#include "cstring_model.h"
#ifndef VM_MEMSET_WORDS
#define VM_MEMSET_WORDS 1
#endif

size_t vm_strlen(const char *s) {
  size_t i = 0;
  while (s[i] != '\0') i++;
  return i;
}

char *vm_strcpy(char *d, const char *s) {
  size_t i = 0;
  while (s[i] != '\0') { d[i] = s[i]; i++; }
  d[i] = '\0';
  return d;
}

/* C11 7.24.4.2: sign of the difference of the first differing pair, compared as unsigned char */
int vm_strcmp(const char *a, const char *b) {
  size_t i = 0;
  while (a[i] != '\0' && a[i] == b[i]) i++;
  return (int) (unsigned char) a[i] - (int) (unsigned char) b[i];
}

char *vm_strchr(const char *s, int c) {
  size_t i = 0;
  while (s[i] != '\0') { if (s[i] == (char) c) return (char *) s + i; i++; }
  return (char) c == '\0' ? (char *) s + i : (char *) 0;
}

void *vm_memcpy(void *d, const void *s, size_t n) {
  size_t i;
  for (i = 0; i < n; i++) ((unsigned char *) d)[i] = ((const unsigned char *) s)[i];
  return d;
}

void *vm_memset(void *d, int c, size_t n) {
  size_t i;
#ifndef VERIF_NATIVE
  /* zero-filling a 16/24-byte record (p_malloc0 of the list/section/parameter/file structs): word
   * stores, so that CBMC sees pointer fields set to NULL instead of eight byte updates per pointer */
  if (c == 0 && (n == 16 || n == 24) && VM_MEMSET_WORDS) {
    ((unsigned long long *) d)[0] = 0ull;
    ((unsigned long long *) d)[1] = 0ull;
    if (n == 24) ((unsigned long long *) d)[2] = 0ull;
    return d;
  }
#endif
  for (i = 0; i < n; i++) ((unsigned char *) d)[i] = (unsigned char) c;
  return d;
}

/* "C" locale, C11 7.4.1.10: space, \f, \n, \r, \t, \v */
int vm_isspace(int c) { return c == ' ' || (c >= '\t' && c <= '\r'); }
int vm_isdigit(int c) { return c >= '0' && c <= '9'; }

/* C11 7.22.1.2: atoi(s) == (int) strtol(s, NULL, 10): optional white space, optional sign, decimal
 * digits; no digits -> 0.  Behaviour on overflow is undefined in C; the model wraps in unsigned
 * arithmetic (harnesses keep values below 10 digits). */
int vm_atoi(const char *s) {
  size_t i = 0;
  unsigned v = 0;
  int neg = 0;
  while (vm_isspace((unsigned char) s[i])) i++;
  if (s[i] == '-') { neg = 1; i++; } else if (s[i] == '+') i++;
  while (vm_isdigit((unsigned char) s[i])) { v = v * 10u + (unsigned) (s[i] - '0'); i++; }
  return neg ? (int) (0u - v) : (int) v;
}
