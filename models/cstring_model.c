#include "cstring_model.h"
#ifndef VM_MEMSET_WORDS
#define VM_MEMSET_WORDS 1
#endif

size_t vm_strlen(const char *s) {
  size_t i = 0;
  while (s[i] != '\0') i++;
  return i;
}

char *vm_strcpy(char *d, const char *s) {
  size_t i = 0;
  while (s[i] != '\0') { d[i] = s[i]; i++; }
  d[i] = '\0';
  return d;
}

/* C11 7.24.4.2: sign of the difference of the first differing pair, compared as unsigned char */
int vm_strcmp(const char *a, const char *b) {
  size_t i = 0;
  while (a[i] != '\0' && a[i] == b[i]) i++;
  return (int) (unsigned char) a[i] - (int) (unsigned char) b[i];
}

char *vm_strchr(const char *s, int c) {
  size_t i = 0;
  while (s[i] != '\0') { if (s[i] == (char) c) return (char *) s + i; i++; }
  return (char) c == '\0' ? (char *) s + i : (char *) 0;
}

void *vm_memcpy(void *d, const void *s, size_t n) {
  size_t i;
  for (i = 0; i < n; i++) ((unsigned char *) d)[i] = ((const unsigned char *) s)[i];
  return d;
}

void *vm_memset(void *d, int c, size_t n) {
  size_t i;
#ifndef VERIF_NATIVE
  /* zero-filling a 16/24-byte record (p_malloc0 of the list/section/parameter/file structs): word
   * stores, so that CBMC sees pointer fields set to NULL instead of eight byte updates per pointer */
  if (c == 0 && (n == 16 || n == 24) && VM_MEMSET_WORDS) {
    ((unsigned long long *) d)[0] = 0ull;
    ((unsigned long long *) d)[1] = 0ull;
    if (n == 24) ((unsigned long long *) d)[2] = 0ull;
    return d;
  }
#endif
  for (i = 0; i < n; i++) ((unsigned char *) d)[i] = (unsigned char) c;
  return d;
}

/* "C" locale, C11 7.4.1.10: space, \f, \n, \r, \t, \v */
int vm_isspace(int c) { return c == ' ' || (c >= '\t' && c <= '\r'); }
int vm_isdigit(int c) { return c >= '0' && c <= '9'; }

/* C11 7.22.1.2: atoi(s) == (int) strtol(s, NULL, 10): optional white space, optional sign, decimal
 * digits; no digits -> 0.  Behaviour on overflow is undefined in C; the model wraps in unsigned
 * arithmetic (harnesses keep values below 10 digits). */
int vm_atoi(const char *s) {
  size_t i = 0;
  unsigned v = 0;
  int neg = 0;
  while (vm_isspace((unsigned char) s[i])) i++;
  if (s[i] == '-') { neg = 1; i++; } else if (s[i] == '+') i++;
  while (vm_isdigit((unsigned char) s[i])) { v = v * 10u + (unsigned) (s[i] - '0'); i++; }
  return neg ? (int) (0u - v) : (int) v;
}

/* ---- strtol family, C11 7.22.1.4 ("C" locale): white space, optional sign, optional 0x/0X (base 16 or
 * 0), base 0 = 16 after 0x, 8 after a leading 0, else 10; digits and letters below the base; no digits
 * = no conversion (value 0, *end = s).  Overflow: clamped (LONG_MAX/LONG_MIN, ULONG_MAX); errno is not
 * modelled.  scanf_mode: the two glibc scanf deviations from strtol are reproduced (a lone "0x"
 * consumes the x). */
static int vm_digval(char c) {
  if (c >= '0' && c <= '9') return c - '0';
  if (c >= 'a' && c <= 'z') return c - 'a' + 10;
  if (c >= 'A' && c <= 'Z') return c - 'A' + 10;
  return 99;
}

unsigned long long vm_scan_int(const char *s, int base, int scanf_mode, size_t *endi, int *neg, int *ovf) {
  size_t i = 0;
  unsigned long long v = 0, cutoff, cutlim;
  int any = 0, lone0 = 0;
  *neg = 0; *ovf = 0; *endi = 0;
  if (base != 0 && (base < 2 || base > 36)) return 0;
  while (vm_isspace((unsigned char) s[i])) i++;
  if (s[i] == '-') { *neg = 1; i++; } else if (s[i] == '+') i++;
  if ((base == 0 || base == 16) && s[i] == '0' && (s[i + 1] == 'x' || s[i + 1] == 'X')) {
    if (vm_digval(s[i + 2]) < 16) { i += 2; base = 16; }
    else { lone0 = 1; if (base == 0) base = 8; }
  } else if (base == 0) base = (s[i] == '0') ? 8 : 10;
  cutoff = ~0ull / (unsigned long long) base;
  cutlim = ~0ull % (unsigned long long) base;
  while (vm_digval(s[i]) < base) {
    unsigned long long d = (unsigned long long) vm_digval(s[i]);
    if (v > cutoff || (v == cutoff && d > cutlim)) *ovf = 1; else v = v * (unsigned long long) base + d;
    any = 1; i++;
  }
  if (any) *endi = (scanf_mode && lone0) ? i + 1 : i;
  return v;
}

#define VM_LONG_MAX  ((unsigned long long) (~0ul >> 1))
#define VM_LLONG_MAX ((unsigned long long) (~0ull >> 1))
static long long vm_to_signed(unsigned long long v, int neg, int ovf, unsigned long long max) {
  if (neg) return (ovf || v > max + 1ull) ? -(long long) max - 1 : (long long) (0ull - v);
  return (ovf || v > max) ? (long long) max : (long long) v;
}
long vm_strtol(const char *s, char **end, int base) {
  size_t e; int neg, ovf; unsigned long long v = vm_scan_int(s, base, 0, &e, &neg, &ovf);
  if (end) *end = (char *) s + e;
  return (long) vm_to_signed(v, neg, ovf, VM_LONG_MAX);
}
long long vm_strtoll(const char *s, char **end, int base) {
  size_t e; int neg, ovf; unsigned long long v = vm_scan_int(s, base, 0, &e, &neg, &ovf);
  if (end) *end = (char *) s + e;
  return vm_to_signed(v, neg, ovf, VM_LLONG_MAX);
}
unsigned long vm_strtoul(const char *s, char **end, int base) {
  size_t e; int neg, ovf; unsigned long long v = vm_scan_int(s, base, 0, &e, &neg, &ovf);
  if (end) *end = (char *) s + e;
  if (ovf || v > (unsigned long long) ~0ul) return ~0ul;
  return neg ? (unsigned long) (0ul - (unsigned long) v) : (unsigned long) v;
}
unsigned long long vm_strtoull(const char *s, char **end, int base) {
  size_t e; int neg, ovf; unsigned long long v = vm_scan_int(s, base, 0, &e, &neg, &ovf);
  if (end) *end = (char *) s + e;
  if (ovf) return ~0ull;
  return neg ? 0ull - v : v;
}
long vm_atol(const char *s) { return vm_strtol(s, (char **) 0, 10); }
long long vm_atoll(const char *s) { return vm_strtoll(s, (char **) 0, 10); }

/* ---- strtod / atof, C11 7.22.1.3, decimal notation in the "C" locale: white space, sign, digits with
 * optional '.', optional e/E exponent (only if at least one exponent digit follows).  The value is
 * computed exactly as a correctly rounding strtod does on its fast path: mantissa M < 2^53 and
 * |decimal exponent| <= 22 are exact doubles, and ONE IEEE multiplication or division of exact
 * operands is correctly rounded.  Everything else (more digits, larger exponents, inf/nan/hex floats)
 * is outside the model: CBMC gets an unconstrained double (over-approximation), the native build
 * defers to the C library.  scanf_mode: glibc's scanf consumes a dangling exponent marker/sign. */
#ifdef VERIF_NATIVE
#include <stdlib.h>
#include <stdio.h>
long vm_float_deferred;   /* native only: conversions outside the model that were handed to the C library */
#else
double nondet_double(void);
size_t nondet_size_t(void);
#endif
static const double VM_P10[23] = {1e0, 1e1, 1e2, 1e3, 1e4, 1e5, 1e6, 1e7, 1e8, 1e9, 1e10, 1e11, 1e12, 1e13, 1e14, 1e15, 1e16, 1e17,
                                  1e18, 1e19, 1e20, 1e21, 1e22};
double vm_scan_float(const char *s, int scanf_mode, size_t *endi) {
  size_t i = 0, j;
  unsigned long long M = 0;
  int neg = 0, nd = 0, fd = 0, big = 0, eneg = 0, E = 0, e10, ae, k;
  double p10 = 1.0, r;
  *endi = 0;
  while (vm_isspace((unsigned char) s[i])) i++;
  if (s[i] == '-') { neg = 1; i++; } else if (s[i] == '+') i++;
  if (s[i] == 'i' || s[i] == 'I' || s[i] == 'n' || s[i] == 'N' || (s[i] == '0' && (s[i + 1] == 'x' || s[i + 1] == 'X'))) {
#ifdef VERIF_NATIVE
    char *e; int cnt = 0;
    vm_float_deferred++;
    if (scanf_mode) { r = 0.0; if (sscanf(s, "%lf%n", &r, &cnt) != 1) cnt = 0; *endi = (size_t) cnt; return r; }
    r = strtod(s, &e); *endi = (size_t) (e - s); return r;
#else
    j = nondet_size_t(); __CPROVER_assume(j <= vm_strlen(s)); *endi = j; return nondet_double();   /* outside the model */
#endif
  }
  while (vm_isdigit((unsigned char) s[i])) { if (M > 900000000000000ull) big = 1; else M = M * 10ull + (unsigned long long) (s[i] - '0'); nd++; i++; }
  if (s[i] == '.') {
    j = i + 1;
    while (vm_isdigit((unsigned char) s[j])) { if (M > 900000000000000ull) big = 1; else M = M * 10ull + (unsigned long long) (s[j] - '0'); nd++; fd++; j++; }
    if (nd > 0) i = j;
  }
  if (nd == 0) return 0.0;                       /* no conversion */
  if (s[i] == 'e' || s[i] == 'E') {
    j = i + 1;
    if (s[j] == '-') { eneg = 1; j++; } else if (s[j] == '+') j++;
    if (vm_isdigit((unsigned char) s[j])) {
      while (vm_isdigit((unsigned char) s[j])) { if (E < 10000) E = E * 10 + (s[j] - '0'); j++; }
      i = j;
    } else if (scanf_mode) i = j;
  }
  *endi = i;
  e10 = (eneg ? -E : E) - fd;
  ae = e10 < 0 ? -e10 : e10;
  if (big || ae > 22) {
#ifdef VERIF_NATIVE
    vm_float_deferred++;
    return strtod(s, (char **) 0);
#else
    return M == 0 ? (neg ? -0.0 : 0.0) : nondet_double();   /* outside the model */
#endif
  }
  for (k = 0; k <= 22; k++) if (k == ae) p10 = VM_P10[k];   /* select first: one multiplication/division circuit */
  r = e10 < 0 ? (double) M / p10 : (double) M * p10;
  return neg ? -r : r;
}
double vm_strtod(const char *s, char **end) {
  size_t e; double r = vm_scan_float(s, 0, &e);
  if (end) *end = (char *) s + e;
  return r;
}
double vm_atof(const char *s) { return vm_strtod(s, (char **) 0); }

/* ---- comparisons a unit could use instead of strcmp (C11 7.24.4.4, POSIX strcasecmp in the C locale) */
static int vm_lower(int c) { return (c >= 'A' && c <= 'Z') ? c - 'A' + 'a' : c; }
int vm_strncmp(const char *a, const char *b, size_t n) {
  size_t i = 0;
  while (i < n && a[i] != '\0' && a[i] == b[i]) i++;
  return i == n ? 0 : (int) (unsigned char) a[i] - (int) (unsigned char) b[i];
}
int vm_strncasecmp(const char *a, const char *b, size_t n) {
  size_t i = 0;
  while (i < n && a[i] != '\0' && vm_lower((unsigned char) a[i]) == vm_lower((unsigned char) b[i])) i++;
  return i == n ? 0 : vm_lower((unsigned char) a[i]) - vm_lower((unsigned char) b[i]);
}
int vm_strcasecmp(const char *a, const char *b) {
  size_t i = 0;
  while (a[i] != '\0' && vm_lower((unsigned char) a[i]) == vm_lower((unsigned char) b[i])) i++;
  return vm_lower((unsigned char) a[i]) - vm_lower((unsigned char) b[i]);
}
