/* see kernel_ipc.h */
#include "verif.h"
#include "kernel_ipc.h"
#include <errno.h>
#include <fcntl.h>
#include <sys/mman.h>
#include <limits.h>

int vk_cur, vk_preempt_on, vk_preempted, vk_crash_at[2], vk_dead[2], vk_nsys[2];
int vk_eintr_budget, vk_eintr_seen, vk_fault_budget, vk_fault_seen, vk_expect_noblock;
int vk_bad_close, vk_bad_munmap, vk_preempt_at, vk_no_rescuer;
static int vk_nested;

/* errno: one per emulated process (`errno` expands to *__errno_location()) */
static int vk_errno[2];
int *__errno_location(void) { return &vk_errno[vk_cur]; }

/* ---- name table ---- */
static int vk_semname[VK_NSLOT];   /* linked semaphore object + 1 (0 = no such name) */
static int vk_shmname[VK_NSLOT];   /* linked shm object + 1 */

#ifdef VK_REAL_NAMES
/* names as produced by the real p_ipc_get_platform_key: memo table of the strings seen */
#define VK_NAMELEN 16
static char vk_names[VK_NSLOT][VK_NAMELEN];
static int vk_nnames;
int vk_slot(const char *name) {
  VASSERT(name != NULL && name[0] == '/', "kernel model: IPC name starts with '/'");
  for (int s = 0; s < VK_NSLOT; s++) {
    if (s >= vk_nnames) break;
    int eq = 1;
    for (int i = 0; i < VK_NAMELEN; i++) {
      if (vk_names[s][i] != name[i]) { eq = 0; break; }
      if (name[i] == 0) break;
    }
    if (eq) return s;
  }
  VASSERT(vk_nnames < VK_NSLOT, "kernel model bound: number of distinct names");
  VASSUME(vk_nnames < VK_NSLOT);
  int s = vk_nnames++;
  for (int i = 0; i < VK_NAMELEN - 1; i++) { vk_names[s][i] = name[i]; if (name[i] == 0) break; }
  return s;
}
#else
/* names produced by the injective key stub: "/" + one letter 'A'.. */
int vk_slot(const char *name) {
  VASSERT(name != NULL && name[0] == '/' && name[1] >= 'A' && name[1] < 'A' + VK_NSLOT && name[2] == 0,
          "kernel model: name in the stub key domain");
  return name[1] - 'A';
}
#endif

/* ---- semaphores ---- */
static int vk_nsem;
static int vk_semval[VK_NSEM];
static int vk_nsemh;
static sem_t vk_semh_mem[VK_NSEMH];     /* only the addresses are used */
static int vk_semh_obj[VK_NSEMH], vk_semh_proc[VK_NSEMH], vk_semh_open[VK_NSEMH];

/* ---- shared memory ---- */
static int vk_nshm;
static long vk_shmsize[VK_NSHM];
/* backing store: one flat array per object (a 2-D array costs a wide barrel shifter per byte access) */
static unsigned char vk_m0[VK_SEGMAX], vk_m1[VK_SEGMAX], vk_m2[VK_SEGMAX], vk_m3[VK_SEGMAX],
                     vk_m4[VK_SEGMAX], vk_m5[VK_SEGMAX], vk_m6[VK_SEGMAX], vk_m7[VK_SEGMAX];
unsigned char *vk_shm_mem(int obj) {
  switch (obj) {
    case 0: return vk_m0; case 1: return vk_m1; case 2: return vk_m2; case 3: return vk_m3;
    case 4: return vk_m4; case 5: return vk_m5; case 6: return vk_m6; default: return vk_m7;
  }
}
static int vk_nfd;
static int vk_fd_obj[VK_NFD], vk_fd_proc[VK_NFD], vk_fd_open[VK_NFD];
static int vk_nmap;
static int vk_map_obj[VK_NMAP], vk_map_proc[VK_NMAP];
static long vk_map_pages[VK_NMAP];      /* pages still mapped (0 = gone) */
static int vk_map_wr[VK_NMAP];          /* mapped with PROT_WRITE */

void vk_reap(int p) {
  for (int i = 0; i < VK_NSEMH; i++) if (vk_semh_proc[i] == p) vk_semh_open[i] = 0;
  for (int i = 0; i < VK_NFD; i++) if (vk_fd_proc[i] == p) vk_fd_open[i] = 0;
  for (int i = 0; i < VK_NMAP; i++) if (vk_map_proc[i] == p) vk_map_pages[i] = 0;
}

#ifdef VK_SYSV
static void vk_sysv_undo(int p);
#endif
void vk_kill(int p) {
  if (!vk_dead[p]) {
    vk_dead[p] = 1; vk_reap(p);
#ifdef VK_SYSV
    vk_sysv_undo(p);      /* SEM_UNDO adjustments are applied when the process dies */
#endif
  }
}

/* common entry of every system call; returns 1 when the caller is dead (call is a no-op) */
static int vk_enter(void) {
  if (vk_preempt_on && !vk_nested && (vk_preempt_at ? vk_nsys[vk_cur] + 1 == vk_preempt_at : ND_BOOL())) {
    int me = vk_cur;
    vk_nested = 1; vk_preempt_on = 0; vk_preempted = 1;
    vk_cur = 1 - me;
    vk_other();
    vk_cur = me;
    vk_nested = 0;
  }
  vk_nsys[vk_cur]++;
  if (vk_crash_at[vk_cur] != 0 && vk_nsys[vk_cur] == vk_crash_at[vk_cur]) vk_kill(vk_cur);
  if (vk_dead[vk_cur]) { errno = ECANCELED; return 1; }
  return 0;
}

static int vk_eintr(void) {
  if (vk_eintr_budget > 0 && ND_BOOL()) { vk_eintr_budget--; vk_eintr_seen++; errno = EINTR; return 1; }
  return 0;
}

static int vk_fault(void) {
  if (vk_fault_budget > 0 && ND_BOOL()) {
    vk_fault_budget--; vk_fault_seen++;
    errno = ND_BOOL() ? ENOMEM : EACCES;
    return 1;
  }
  return 0;
}

static int vk_semh_index(const sem_t *s) {
  for (int i = 0; i < VK_NSEMH; i++) if (s == &vk_semh_mem[i]) return i;
  return -1;
}

sem_t *vm_sem_open_x(const char *name, int oflag, unsigned mode, unsigned value, ...) {
  (void) mode;
  if (vk_enter()) return SEM_FAILED;
  if (vk_eintr()) return SEM_FAILED;
  if (vk_fault()) return SEM_FAILED;
  int slot = vk_slot(name);
  int obj = vk_semname[slot] - 1;
  if (oflag & O_CREAT) {
    if (obj >= 0) {
      if (oflag & O_EXCL) { errno = EEXIST; return SEM_FAILED; }
    } else {
      if (value > (unsigned) SEM_VALUE_MAX) { errno = EINVAL; return SEM_FAILED; }
      VASSERT(vk_nsem < VK_NSEM, "kernel model bound: semaphore objects");
      VASSUME(vk_nsem < VK_NSEM);
      obj = vk_nsem++;
      vk_semval[obj] = (int) value;
      vk_semname[slot] = obj + 1;
    }
  } else if (obj < 0) { errno = ENOENT; return SEM_FAILED; }
  VASSERT(vk_nsemh < VK_NSEMH, "kernel model bound: semaphore handles");
  VASSUME(vk_nsemh < VK_NSEMH);
  int h = vk_nsemh++;
  vk_semh_obj[h] = obj; vk_semh_proc[h] = vk_cur; vk_semh_open[h] = 1;
  return &vk_semh_mem[h];
}

/* an open handle of the calling process; anything else is undefined behaviour in POSIX */
static int vk_semh_valid(const sem_t *s) {
  int h = vk_semh_index(s);
  VASSERT(h >= 0 && vk_semh_open[h] && vk_semh_proc[h] == vk_cur, "semaphore call on an open handle of the calling process");
  return h;
}

int vm_sem_close(sem_t *s) {
  if (vk_enter()) return -1;
  int h = vk_semh_valid(s);
  vk_semh_open[h] = 0;
  return 0;
}

int vm_sem_unlink(const char *name) {
  if (vk_enter()) return -1;
  int slot = vk_slot(name);
  if (vk_semname[slot] == 0) { errno = ENOENT; return -1; }
  vk_semname[slot] = 0;
  return 0;
}

int vm_sem_wait(sem_t *s) {
  if (vk_enter()) return -1;
  if (vk_eintr()) return -1;
  int h = vk_semh_valid(s);
  int obj = vk_semh_obj[h];
  if (vk_semval[obj] > 0) { vk_semval[obj]--; return 0; }
  /* the caller blocks.  Sequential emulation: a blocked call never returns, the path ends here;
   * it is an error when the harness knows that a unit is available in the caller's counter */
  VASSERT(!vk_expect_noblock, "acquire does not block while units are available");
  /* no other live process exists that could ever post (recovery after kills): blocking here is blocking for ever */
  VASSERT(!vk_no_rescuer, "clean-up must not block: nobody is left to release the semaphore");
  VASSUME(0);
  return -1;
}

int vm_sem_trywait(sem_t *s) {
  if (vk_enter()) return -1;
  int h = vk_semh_valid(s);
  int obj = vk_semh_obj[h];
  if (vk_semval[obj] > 0) { vk_semval[obj]--; return 0; }
  errno = EAGAIN;
  return -1;
}

int vm_sem_post(sem_t *s) {
  if (vk_enter()) return -1;
  int h = vk_semh_valid(s);
  int obj = vk_semh_obj[h];
  if (vk_semval[obj] == SEM_VALUE_MAX) { errno = EOVERFLOW; return -1; }
  vk_semval[obj]++;
  return 0;
}

int vm_sem_getvalue(sem_t *s, int *v) {
  if (vk_enter()) return -1;
  int h = vk_semh_valid(s);
  *v = vk_semval[vk_semh_obj[h]];
  return 0;
}

int vm_shm_open(const char *name, int oflag, mode_t mode) {
  (void) mode;
  if (vk_enter()) return -1;
  if (vk_eintr()) return -1;
  if (vk_fault()) return -1;
  int slot = vk_slot(name);
  int obj = vk_shmname[slot] - 1;
  if (oflag & O_CREAT) {
    if (obj >= 0) {
      if (oflag & O_EXCL) { errno = EEXIST; return -1; }
    } else {
      VASSERT(vk_nshm < VK_NSHM && vk_nshm < 8, "kernel model bound: shm objects");
      VASSUME(vk_nshm < VK_NSHM && vk_nshm < 8);
      obj = vk_nshm++;
      vk_shmsize[obj] = 0;          /* a new object has length zero */
      vk_shmname[slot] = obj + 1;
    }
  } else if (obj < 0) { errno = ENOENT; return -1; }
  VASSERT(vk_nfd < VK_NFD, "kernel model bound: descriptors");
  VASSUME(vk_nfd < VK_NFD);
  int f = vk_nfd++;
  vk_fd_obj[f] = obj; vk_fd_proc[f] = vk_cur; vk_fd_open[f] = 1;
  return f + VK_FD_BASE;
}

int vm_shm_unlink(const char *name) {
  if (vk_enter()) return -1;
  int slot = vk_slot(name);
  if (vk_shmname[slot] == 0) { errno = ENOENT; return -1; }
  vk_shmname[slot] = 0;
  return 0;
}

static int vk_fd_index(int fd) {
  int f = fd - VK_FD_BASE;
  if (f < 0 || f >= VK_NFD || !vk_fd_open[f] || vk_fd_proc[f] != vk_cur) return -1;
  return f;
}

int vm_ftruncate(int fd, off_t len) {
  if (vk_enter()) return -1;
  if (vk_fault()) return -1;
  int f = vk_fd_index(fd);
  if (f < 0) { errno = EBADF; return -1; }
  if (len < 0) { errno = EINVAL; return -1; }
  VASSERT(len <= VK_SEGMAX, "kernel model bound: segment length");
  VASSUME(len <= VK_SEGMAX);
  int obj = vk_fd_obj[f];
  /* bytes between the old and the new length read as zero: objects are never shrunk-then-grown here */
  VASSERT(len >= vk_shmsize[obj], "kernel model bound: segments only grow");
  VASSUME(len >= vk_shmsize[obj]);
  vk_shmsize[obj] = (long) len;
  return 0;
}

int vm_fstat(int fd, struct stat *st) {
  if (vk_enter()) return -1;
  if (vk_fault()) return -1;
  int f = vk_fd_index(fd);
  if (f < 0) { errno = EBADF; return -1; }
  st->st_size = (off_t) vk_shmsize[vk_fd_obj[f]];
  return 0;
}

void *vm_mmap(void *addr, size_t len, int prot, int flags, int fd, off_t off) {
  (void) addr;
  if (vk_enter()) return MAP_FAILED;
  if (vk_fault()) return MAP_FAILED;
  int f = vk_fd_index(fd);
  if (f < 0) { errno = EBADF; return MAP_FAILED; }
  if (len == 0 || off != 0 || !(flags & MAP_SHARED)) { errno = EINVAL; return MAP_FAILED; }
  VASSERT(len <= VK_SEGMAX, "kernel model bound: mapping length");
  VASSUME(len <= VK_SEGMAX);
  VASSERT(vk_nmap < VK_NMAP, "kernel model bound: mappings");
  VASSUME(vk_nmap < VK_NMAP);
  int m = vk_nmap++;
  vk_map_obj[m] = vk_fd_obj[f]; vk_map_proc[m] = vk_cur;
  vk_map_pages[m] = (long) ((len + VK_PAGE - 1) / VK_PAGE);
  vk_map_wr[m] = (prot & PROT_WRITE) != 0;
  return vk_shm_mem(vk_fd_obj[f]);
}

int vm_munmap(void *addr, size_t len) {
  if (vk_enter()) return -1;
  if (len == 0) { errno = EINVAL; return -1; }
  long pages = (len > (size_t) VK_SEGMAX) ? VK_NPAGES : (long) ((len + VK_PAGE - 1) / VK_PAGE);
  for (int m = 0; m < VK_NMAP; m++) {
    if (m < vk_nmap && vk_map_pages[m] > 0 && vk_map_proc[m] == vk_cur && addr == (void *) vk_shm_mem(vk_map_obj[m])) {
      vk_map_pages[m] = (pages >= vk_map_pages[m]) ? 0 : vk_map_pages[m] - pages;   /* the tail stays mapped */
      return 0;
    }
  }
  vk_bad_munmap++;       /* unmapping an unmapped range succeeds in the kernel; the harness decides */
  return 0;
}

int vm_close(int fd) {
  if (vk_enter()) return -1;
  int f = vk_fd_index(fd);
  if (f < 0) { vk_bad_close++; errno = EBADF; return -1; }
  vk_fd_open[f] = 0;
  return 0;
}


/* ================= System V flavour (psemaphore-sysv.c): semget / semctl / semop, ftok, the key FILE =================
 * Same name table and semaphore objects as above; a System V set has no per-process handle: the id stays valid for
 * everybody until IPC_RMID, after which every call on it fails (EINVAL / EIDRM) and the key is free again.
 * ftok is an injective function of the key file's PATH (the inode is not modelled).  SEM_UNDO is modelled: the kernel
 * keeps a per-process adjustment per set and applies it when the process dies (vk_kill); SETVAL clears the adjustments.
 * New sets start with value 0; SETVAL accepts 0..SEMVMX (32767), otherwise ERANGE. */
#ifdef VK_SYSV
#include <sys/ipc.h>
#include <sys/sem.h>
#define VK_KEY_BASE 0x5000
#define VK_SEMID_BASE 1000
#define VK_SEMVMX 32767
static int vk_semrm[VK_NSEM];            /* set removed by IPC_RMID */
static int vk_semadj[2][VK_NSEM];        /* SEM_UNDO adjustments per process */
static int vk_file[VK_NSLOT];            /* key file exists */
int vk_files(void) { int n = 0; for (int s = 0; s < VK_NSLOT; s++) if (vk_file[s]) n++; return n; }

static void vk_sysv_undo(int p) {
  for (int o = 0; o < VK_NSEM; o++) {
    if (o < vk_nsem && !vk_semrm[o] && vk_semadj[p][o] != 0) {
      int v = vk_semval[o] + vk_semadj[p][o];
      vk_semval[o] = v < 0 ? 0 : v;
    }
    vk_semadj[p][o] = 0;
  }
}

int vm_open_x(const char *path, int flags, ...) {
  if (vk_enter()) return -1;
  if (vk_fault()) return -1;
  int slot = vk_slot(path);
  if (flags & O_CREAT) {
    if (vk_file[slot]) { if (flags & O_EXCL) { errno = EEXIST; return -1; } }
    else vk_file[slot] = 1;
  } else if (!vk_file[slot]) { errno = ENOENT; return -1; }
  VASSERT(vk_nfd < VK_NFD, "kernel model bound: descriptors");
  VASSUME(vk_nfd < VK_NFD);
  int f = vk_nfd++;
  vk_fd_obj[f] = -1; vk_fd_proc[f] = vk_cur; vk_fd_open[f] = 1;
  return f + VK_FD_BASE;
}

int vm_stat(const char *path, struct stat *st) {
  if (vk_enter()) return -1;
  int slot = vk_slot(path);
  if (!vk_file[slot]) { errno = ENOENT; return -1; }
  st->st_size = 0;
  return 0;
}

int vm_unlink(const char *path) {
  if (vk_enter()) return -1;
  int slot = vk_slot(path);
  if (!vk_file[slot]) { errno = ENOENT; return -1; }
  vk_file[slot] = 0;
  return 0;
}

key_t vm_ftok(const char *path, int proj) {
  (void) proj;
  if (vk_enter()) return (key_t) -1;
  int slot = vk_slot(path);
  if (!vk_file[slot]) { errno = ENOENT; return (key_t) -1; }
  return (key_t) (VK_KEY_BASE + slot);
}

int vm_semget(key_t key, int nsems, int flg) {
  if (vk_enter()) return -1;
  if (vk_fault()) return -1;
  int slot = (int) key - VK_KEY_BASE;
  VASSERT(slot >= 0 && slot < VK_NSLOT && nsems == 1, "kernel model: semget with a key produced by ftok, one semaphore per set");
  VASSUME(slot >= 0 && slot < VK_NSLOT);
  int obj = vk_semname[slot] - 1;
  if (obj >= 0) {
    if ((flg & IPC_CREAT) && (flg & IPC_EXCL)) { errno = EEXIST; return -1; }
    return VK_SEMID_BASE + obj;
  }
  if (!(flg & IPC_CREAT)) { errno = ENOENT; return -1; }
  VASSERT(vk_nsem < VK_NSEM, "kernel model bound: semaphore objects");
  VASSUME(vk_nsem < VK_NSEM);
  obj = vk_nsem++;
  vk_semval[obj] = 0;
  vk_semname[slot] = obj + 1;
  return VK_SEMID_BASE + obj;
}

/* live set behind an id, -1 (errno set) when the id is not / no longer valid */
static int vk_semid_obj(int id) {
  int obj = id - VK_SEMID_BASE;
  if (obj < 0 || obj >= VK_NSEM || obj >= vk_nsem || vk_semrm[obj]) { errno = ND_BOOL() ? EINVAL : EIDRM; return -1; }
  return obj;
}

int vm_semctl4(int id, int n, int cmd, int val) {
  if (vk_enter()) return -1;
  int obj = vk_semid_obj(id);
  if (obj < 0) return -1;
  if (n != 0) { errno = EINVAL; return -1; }
  if (cmd == SETVAL) {
    if (vk_fault()) return -1;
    if (val < 0 || val > VK_SEMVMX) { errno = ERANGE; return -1; }
    vk_semval[obj] = val;
    vk_semadj[0][obj] = 0; vk_semadj[1][obj] = 0;
    return 0;
  }
  if (cmd == GETVAL) return vk_semval[obj];
  if (cmd == IPC_RMID) {
    vk_semrm[obj] = 1;
    for (int s = 0; s < VK_NSLOT; s++) if (vk_semname[s] == obj + 1) vk_semname[s] = 0;
    return 0;
  }
  VASSERT(0, "kernel model: semctl command outside SETVAL / GETVAL / IPC_RMID");
  errno = EINVAL;
  return -1;
}

int vm_semop(int id, struct sembuf *ops, size_t nops) {
  if (vk_enter()) return -1;
  VASSERT(nops == 1 && ops[0].sem_num == 0 && (ops[0].sem_op == 1 || ops[0].sem_op == -1), "kernel model: one +1 / -1 operation on semaphore 0");
  if (ops[0].sem_op < 0 && vk_eintr()) return -1;
  int obj = vk_semid_obj(id);
  if (obj < 0) return -1;
  int undo = (ops[0].sem_flg & SEM_UNDO) != 0;
  if (ops[0].sem_op > 0) {
    if (vk_semval[obj] >= VK_SEMVMX) { errno = ERANGE; return -1; }
    vk_semval[obj]++;
    if (undo) vk_semadj[vk_cur][obj]--;
    return 0;
  }
  if (vk_semval[obj] > 0) { vk_semval[obj]--; if (undo) vk_semadj[vk_cur][obj]++; return 0; }
  VASSERT(!vk_expect_noblock, "acquire does not block while units are available");
  VASSERT(!vk_no_rescuer, "clean-up must not block: nobody is left to release the semaphore");
  VASSUME(0);
  return -1;
}
#endif /* VK_SYSV */

/* ---- direct construction of a leftover kernel state (objects without any open handle, as left by dead processes) ---- */
int vk_setup_sem(int slot, int value) {
  VASSERT(vk_nsem < VK_NSEM, "kernel model bound: semaphore objects");
  VASSUME(vk_nsem < VK_NSEM);
  int obj = vk_nsem++;
  vk_semval[obj] = value;
  vk_semname[slot] = obj + 1;
  return obj;
}
int vk_setup_shm(int slot, long size) {
  VASSERT(vk_nshm < VK_NSHM && vk_nshm < 8 && size >= 0 && size <= VK_SEGMAX, "kernel model bound: shm objects");
  VASSUME(vk_nshm < VK_NSHM && vk_nshm < 8 && size >= 0 && size <= VK_SEGMAX);
  int obj = vk_nshm++;
  vk_shmsize[obj] = size;
  vk_shmname[slot] = obj + 1;
  return obj;
}

/* ---- observation ---- */
int vk_sem_linked(int slot) { return vk_semname[slot] - 1; }
int vk_sem_value(int obj) { return vk_semval[obj]; }
int vk_sem_obj_of(const sem_t *s) { int h = vk_semh_index(s); return (h >= 0 && vk_semh_open[h]) ? vk_semh_obj[h] : -1; }
int vk_sem_handles(int p) { int n = 0; for (int i = 0; i < VK_NSEMH; i++) if (vk_semh_open[i] && vk_semh_proc[i] == p) n++; return n; }
int vk_shm_linked(int slot) { return vk_shmname[slot] - 1; }
long vk_shm_size(int obj) { return vk_shmsize[obj]; }
int vk_shm_obj_at(const void *a) { for (int i = 0; i < VK_NSHM; i++) if (a == (const void *) vk_shm_mem(i)) return i; return -1; }
long vk_mapped_pages(int p) { long n = 0; for (int m = 0; m < VK_NMAP; m++) if (vk_map_proc[m] == p && m < vk_nmap) n += vk_map_pages[m]; return n; }
long vk_map_len(int p, const void *a) {
  long best = 0;
  for (int m = 0; m < VK_NMAP; m++)
    if (m < vk_nmap && vk_map_proc[m] == p && vk_map_pages[m] > 0 && a == (const void *) vk_shm_mem(vk_map_obj[m]) && vk_map_pages[m] * VK_PAGE > best)
      best = vk_map_pages[m] * VK_PAGE;
  return best;
}
int vk_map_writable(int p, const void *a) {
  for (int m = 0; m < VK_NMAP; m++)
    if (m < vk_nmap && vk_map_proc[m] == p && vk_map_pages[m] > 0 && a == (const void *) vk_shm_mem(vk_map_obj[m]) && vk_map_wr[m]) return 1;
  return 0;
}
int vk_open_fds(int p) { int n = 0; for (int i = 0; i < VK_NFD; i++) if (vk_fd_open[i] && vk_fd_proc[i] == p) n++; return n; }
int vk_names_linked(void) { int n = 0; for (int s = 0; s < VK_NSLOT; s++) { if (vk_semname[s]) n++; if (vk_shmname[s]) n++; } return n; }
