/* see kernel_ipc.h */
#include "verif.h"
#include "kernel_ipc.h"
#include <errno.h>
#include <fcntl.h>
#include <sys/mman.h>
#include <limits.h>

int vk_cur, vk_preempt_on, vk_preempted, vk_crash_at[2], vk_dead[2], vk_nsys[2];
int vk_eintr_budget, vk_eintr_seen, vk_fault_budget, vk_fault_seen, vk_expect_noblock;
int vk_bad_close, vk_bad_munmap, vk_preempt_at;
static int vk_nested;

/* errno: one per emulated process (`errno` expands to *__errno_location()) */
static int vk_errno[2];
int *__errno_location(void) { return &vk_errno[vk_cur]; }

/* ---- name table ---- */
static int vk_semname[VK_NSLOT];   /* linked semaphore object + 1 (0 = no such name) */
static int vk_shmname[VK_NSLOT];   /* linked shm object + 1 */

#ifdef VK_REAL_NAMES
/* names as produced by the real p_ipc_get_platform_key: memo table of the strings seen */
#define VK_NAMELEN 16
static char vk_names[VK_NSLOT][VK_NAMELEN];
static int vk_nnames;
int vk_slot(const char *name) {
  VASSERT(name != NULL && name[0] == '/', "kernel model: IPC name starts with '/'");
  for (int s = 0; s < VK_NSLOT; s++) {
    if (s >= vk_nnames) break;
    int eq = 1;
    for (int i = 0; i < VK_NAMELEN; i++) {
      if (vk_names[s][i] != name[i]) { eq = 0; break; }
      if (name[i] == 0) break;
    }
    if (eq) return s;
  }
  VASSERT(vk_nnames < VK_NSLOT, "kernel model bound: number of distinct names");
  VASSUME(vk_nnames < VK_NSLOT);
  int s = vk_nnames++;
  for (int i = 0; i < VK_NAMELEN - 1; i++) { vk_names[s][i] = name[i]; if (name[i] == 0) break; }
  return s;
}
#else
/* names produced by the injective key stub: "/" + one letter 'A'.. */
int vk_slot(const char *name) {
  VASSERT(name != NULL && name[0] == '/' && name[1] >= 'A' && name[1] < 'A' + VK_NSLOT && name[2] == 0,
          "kernel model: name in the stub key domain");
  return name[1] - 'A';
}
#endif

/* ---- semaphores ---- */
static int vk_nsem;
static int vk_semval[VK_NSEM];
static int vk_nsemh;
static sem_t vk_semh_mem[VK_NSEMH];     /* only the addresses are used */
static int vk_semh_obj[VK_NSEMH], vk_semh_proc[VK_NSEMH], vk_semh_open[VK_NSEMH];

/* ---- shared memory ---- */
static int vk_nshm;
static long vk_shmsize[VK_NSHM];
/* backing store: one flat array per object (a 2-D array costs a wide barrel shifter per byte access) */
static unsigned char vk_m0[VK_SEGMAX], vk_m1[VK_SEGMAX], vk_m2[VK_SEGMAX], vk_m3[VK_SEGMAX],
                     vk_m4[VK_SEGMAX], vk_m5[VK_SEGMAX], vk_m6[VK_SEGMAX], vk_m7[VK_SEGMAX];
unsigned char *vk_shm_mem(int obj) {
  switch (obj) {
    case 0: return vk_m0; case 1: return vk_m1; case 2: return vk_m2; case 3: return vk_m3;
    case 4: return vk_m4; case 5: return vk_m5; case 6: return vk_m6; default: return vk_m7;
  }
}
static int vk_nfd;
static int vk_fd_obj[VK_NFD], vk_fd_proc[VK_NFD], vk_fd_open[VK_NFD];
static int vk_nmap;
static int vk_map_obj[VK_NMAP], vk_map_proc[VK_NMAP];
static long vk_map_pages[VK_NMAP];      /* pages still mapped (0 = gone) */
static int vk_map_wr[VK_NMAP];          /* mapped with PROT_WRITE */

void vk_reap(int p) {
  for (int i = 0; i < VK_NSEMH; i++) if (vk_semh_proc[i] == p) vk_semh_open[i] = 0;
  for (int i = 0; i < VK_NFD; i++) if (vk_fd_proc[i] == p) vk_fd_open[i] = 0;
  for (int i = 0; i < VK_NMAP; i++) if (vk_map_proc[i] == p) vk_map_pages[i] = 0;
}

void vk_kill(int p) { if (!vk_dead[p]) { vk_dead[p] = 1; vk_reap(p); } }

/* common entry of every system call; returns 1 when the caller is dead (call is a no-op) */
static int vk_enter(void) {
  if (vk_preempt_on && !vk_nested && (vk_preempt_at ? vk_nsys[vk_cur] + 1 == vk_preempt_at : ND_BOOL())) {
    int me = vk_cur;
    vk_nested = 1; vk_preempt_on = 0; vk_preempted = 1;
    vk_cur = 1 - me;
    vk_other();
    vk_cur = me;
    vk_nested = 0;
  }
  vk_nsys[vk_cur]++;
  if (vk_crash_at[vk_cur] != 0 && vk_nsys[vk_cur] == vk_crash_at[vk_cur]) vk_kill(vk_cur);
  if (vk_dead[vk_cur]) { errno = ECANCELED; return 1; }
  return 0;
}

static int vk_eintr(void) {
  if (vk_eintr_budget > 0 && ND_BOOL()) { vk_eintr_budget--; vk_eintr_seen++; errno = EINTR; return 1; }
  return 0;
}

static int vk_fault(void) {
  if (vk_fault_budget > 0 && ND_BOOL()) {
    vk_fault_budget--; vk_fault_seen++;
    errno = ND_BOOL() ? ENOMEM : EACCES;
    return 1;
  }
  return 0;
}

static int vk_semh_index(const sem_t *s) {
  for (int i = 0; i < VK_NSEMH; i++) if (s == &vk_semh_mem[i]) return i;
  return -1;
}

sem_t *vm_sem_open_x(const char *name, int oflag, unsigned mode, unsigned value, ...) {
  (void) mode;
  if (vk_enter()) return SEM_FAILED;
  if (vk_eintr()) return SEM_FAILED;
  if (vk_fault()) return SEM_FAILED;
  int slot = vk_slot(name);
  int obj = vk_semname[slot] - 1;
  if (oflag & O_CREAT) {
    if (obj >= 0) {
      if (oflag & O_EXCL) { errno = EEXIST; return SEM_FAILED; }
    } else {
      if (value > (unsigned) SEM_VALUE_MAX) { errno = EINVAL; return SEM_FAILED; }
      VASSERT(vk_nsem < VK_NSEM, "kernel model bound: semaphore objects");
      VASSUME(vk_nsem < VK_NSEM);
      obj = vk_nsem++;
      vk_semval[obj] = (int) value;
      vk_semname[slot] = obj + 1;
    }
  } else if (obj < 0) { errno = ENOENT; return SEM_FAILED; }
  VASSERT(vk_nsemh < VK_NSEMH, "kernel model bound: semaphore handles");
  VASSUME(vk_nsemh < VK_NSEMH);
  int h = vk_nsemh++;
  vk_semh_obj[h] = obj; vk_semh_proc[h] = vk_cur; vk_semh_open[h] = 1;
  return &vk_semh_mem[h];
}

/* an open handle of the calling process; anything else is undefined behaviour in POSIX */
static int vk_semh_valid(const sem_t *s) {
  int h = vk_semh_index(s);
  VASSERT(h >= 0 && vk_semh_open[h] && vk_semh_proc[h] == vk_cur, "semaphore call on an open handle of the calling process");
  return h;
}

int vm_sem_close(sem_t *s) {
  if (vk_enter()) return -1;
  int h = vk_semh_valid(s);
  vk_semh_open[h] = 0;
  return 0;
}

int vm_sem_unlink(const char *name) {
  if (vk_enter()) return -1;
  int slot = vk_slot(name);
  if (vk_semname[slot] == 0) { errno = ENOENT; return -1; }
  vk_semname[slot] = 0;
  return 0;
}

int vm_sem_wait(sem_t *s) {
  if (vk_enter()) return -1;
  if (vk_eintr()) return -1;
  int h = vk_semh_valid(s);
  int obj = vk_semh_obj[h];
  if (vk_semval[obj] > 0) { vk_semval[obj]--; return 0; }
  /* the caller blocks.  Sequential emulation: a blocked call never returns, the path ends here;
   * it is an error when the harness knows that a unit is available in the caller's counter */
  VASSERT(!vk_expect_noblock, "acquire does not block while units are available");
  VASSUME(0);
  return -1;
}

int vm_sem_trywait(sem_t *s) {
  if (vk_enter()) return -1;
  int h = vk_semh_valid(s);
  int obj = vk_semh_obj[h];
  if (vk_semval[obj] > 0) { vk_semval[obj]--; return 0; }
  errno = EAGAIN;
  return -1;
}

int vm_sem_post(sem_t *s) {
  if (vk_enter()) return -1;
  int h = vk_semh_valid(s);
  int obj = vk_semh_obj[h];
  if (vk_semval[obj] == SEM_VALUE_MAX) { errno = EOVERFLOW; return -1; }
  vk_semval[obj]++;
  return 0;
}

int vm_sem_getvalue(sem_t *s, int *v) {
  if (vk_enter()) return -1;
  int h = vk_semh_valid(s);
  *v = vk_semval[vk_semh_obj[h]];
  return 0;
}

int vm_shm_open(const char *name, int oflag, mode_t mode) {
  (void) mode;
  if (vk_enter()) return -1;
  if (vk_eintr()) return -1;
  if (vk_fault()) return -1;
  int slot = vk_slot(name);
  int obj = vk_shmname[slot] - 1;
  if (oflag & O_CREAT) {
    if (obj >= 0) {
      if (oflag & O_EXCL) { errno = EEXIST; return -1; }
    } else {
      VASSERT(vk_nshm < VK_NSHM && vk_nshm < 8, "kernel model bound: shm objects");
      VASSUME(vk_nshm < VK_NSHM && vk_nshm < 8);
      obj = vk_nshm++;
      vk_shmsize[obj] = 0;          /* a new object has length zero */
      vk_shmname[slot] = obj + 1;
    }
  } else if (obj < 0) { errno = ENOENT; return -1; }
  VASSERT(vk_nfd < VK_NFD, "kernel model bound: descriptors");
  VASSUME(vk_nfd < VK_NFD);
  int f = vk_nfd++;
  vk_fd_obj[f] = obj; vk_fd_proc[f] = vk_cur; vk_fd_open[f] = 1;
  return f + VK_FD_BASE;
}

int vm_shm_unlink(const char *name) {
  if (vk_enter()) return -1;
  int slot = vk_slot(name);
  if (vk_shmname[slot] == 0) { errno = ENOENT; return -1; }
  vk_shmname[slot] = 0;
  return 0;
}

static int vk_fd_index(int fd) {
  int f = fd - VK_FD_BASE;
  if (f < 0 || f >= VK_NFD || !vk_fd_open[f] || vk_fd_proc[f] != vk_cur) return -1;
  return f;
}

int vm_ftruncate(int fd, off_t len) {
  if (vk_enter()) return -1;
  if (vk_fault()) return -1;
  int f = vk_fd_index(fd);
  if (f < 0) { errno = EBADF; return -1; }
  if (len < 0) { errno = EINVAL; return -1; }
  VASSERT(len <= VK_SEGMAX, "kernel model bound: segment length");
  VASSUME(len <= VK_SEGMAX);
  int obj = vk_fd_obj[f];
  /* bytes between the old and the new length read as zero: objects are never shrunk-then-grown here */
  VASSERT(len >= vk_shmsize[obj], "kernel model bound: segments only grow");
  VASSUME(len >= vk_shmsize[obj]);
  vk_shmsize[obj] = (long) len;
  return 0;
}

int vm_fstat(int fd, struct stat *st) {
  if (vk_enter()) return -1;
  if (vk_fault()) return -1;
  int f = vk_fd_index(fd);
  if (f < 0) { errno = EBADF; return -1; }
  st->st_size = (off_t) vk_shmsize[vk_fd_obj[f]];
  return 0;
}

void *vm_mmap(void *addr, size_t len, int prot, int flags, int fd, off_t off) {
  (void) addr;
  if (vk_enter()) return MAP_FAILED;
  if (vk_fault()) return MAP_FAILED;
  int f = vk_fd_index(fd);
  if (f < 0) { errno = EBADF; return MAP_FAILED; }
  if (len == 0 || off != 0 || !(flags & MAP_SHARED)) { errno = EINVAL; return MAP_FAILED; }
  VASSERT(len <= VK_SEGMAX, "kernel model bound: mapping length");
  VASSUME(len <= VK_SEGMAX);
  VASSERT(vk_nmap < VK_NMAP, "kernel model bound: mappings");
  VASSUME(vk_nmap < VK_NMAP);
  int m = vk_nmap++;
  vk_map_obj[m] = vk_fd_obj[f]; vk_map_proc[m] = vk_cur;
  vk_map_pages[m] = (long) ((len + VK_PAGE - 1) / VK_PAGE);
  vk_map_wr[m] = (prot & PROT_WRITE) != 0;
  return vk_shm_mem(vk_fd_obj[f]);
}

int vm_munmap(void *addr, size_t len) {
  if (vk_enter()) return -1;
  if (len == 0) { errno = EINVAL; return -1; }
  long pages = (len > (size_t) VK_SEGMAX) ? VK_NPAGES : (long) ((len + VK_PAGE - 1) / VK_PAGE);
  for (int m = 0; m < VK_NMAP; m++) {
    if (m < vk_nmap && vk_map_pages[m] > 0 && vk_map_proc[m] == vk_cur && addr == (void *) vk_shm_mem(vk_map_obj[m])) {
      vk_map_pages[m] = (pages >= vk_map_pages[m]) ? 0 : vk_map_pages[m] - pages;   /* the tail stays mapped */
      return 0;
    }
  }
  vk_bad_munmap++;       /* unmapping an unmapped range succeeds in the kernel; the harness decides */
  return 0;
}

int vm_close(int fd) {
  if (vk_enter()) return -1;
  int f = vk_fd_index(fd);
  if (f < 0) { vk_bad_close++; errno = EBADF; return -1; }
  vk_fd_open[f] = 0;
  return 0;
}

/* ---- direct construction of a leftover kernel state (objects without any open handle, as left by dead processes) ---- */
int vk_setup_sem(int slot, int value) {
  VASSERT(vk_nsem < VK_NSEM, "kernel model bound: semaphore objects");
  VASSUME(vk_nsem < VK_NSEM);
  int obj = vk_nsem++;
  vk_semval[obj] = value;
  vk_semname[slot] = obj + 1;
  return obj;
}
int vk_setup_shm(int slot, long size) {
  VASSERT(vk_nshm < VK_NSHM && vk_nshm < 8 && size >= 0 && size <= VK_SEGMAX, "kernel model bound: shm objects");
  VASSUME(vk_nshm < VK_NSHM && vk_nshm < 8 && size >= 0 && size <= VK_SEGMAX);
  int obj = vk_nshm++;
  vk_shmsize[obj] = size;
  vk_shmname[slot] = obj + 1;
  return obj;
}

/* ---- observation ---- */
int vk_sem_linked(int slot) { return vk_semname[slot] - 1; }
int vk_sem_value(int obj) { return vk_semval[obj]; }
int vk_sem_obj_of(const sem_t *s) { int h = vk_semh_index(s); return (h >= 0 && vk_semh_open[h]) ? vk_semh_obj[h] : -1; }
int vk_sem_handles(int p) { int n = 0; for (int i = 0; i < VK_NSEMH; i++) if (vk_semh_open[i] && vk_semh_proc[i] == p) n++; return n; }
int vk_shm_linked(int slot) { return vk_shmname[slot] - 1; }
long vk_shm_size(int obj) { return vk_shmsize[obj]; }
int vk_shm_obj_at(const void *a) { for (int i = 0; i < VK_NSHM; i++) if (a == (const void *) vk_shm_mem(i)) return i; return -1; }
long vk_mapped_pages(int p) { long n = 0; for (int m = 0; m < VK_NMAP; m++) if (vk_map_proc[m] == p && m < vk_nmap) n += vk_map_pages[m]; return n; }
long vk_map_len(int p, const void *a) {
  long best = 0;
  for (int m = 0; m < VK_NMAP; m++)
    if (m < vk_nmap && vk_map_proc[m] == p && vk_map_pages[m] > 0 && a == (const void *) vk_shm_mem(vk_map_obj[m]) && vk_map_pages[m] * VK_PAGE > best)
      best = vk_map_pages[m] * VK_PAGE;
  return best;
}
int vk_map_writable(int p, const void *a) {
  for (int m = 0; m < VK_NMAP; m++)
    if (m < vk_nmap && vk_map_proc[m] == p && vk_map_pages[m] > 0 && a == (const void *) vk_shm_mem(vk_map_obj[m]) && vk_map_wr[m]) return 1;
  return 0;
}
int vk_open_fds(int p) { int n = 0; for (int i = 0; i < VK_NFD; i++) if (vk_fd_open[i] && vk_fd_proc[i] == p) n++; return n; }
int vk_names_linked(void) { int n = 0; for (int s = 0; s < VK_NSLOT; s++) { if (vk_semname[s]) n++; if (vk_shmname[s]) n++; } return n; }
