#define CLOCK_MODEL_NO_REDIRECT
#include "clock_model.h"
#include "verif.h"
#define NS 1000000000L
/* model clock = time slept so far as a normalised (seconds, nanoseconds) pair: additions, comparisons and
 * carries only - no 64-bit multiplications or divisions for the SAT back end */
unsigned long long vm_clock_s, vm_clock_ns;                /* unsigned: no overflow obligations inside the model */
struct timespec vm_sleep_first_req, vm_sleep_last_rem;     /* ghost: first request of the run, last remaining time handed out */
int vm_sleep_pending_rem;                                  /* previous sleep was interrupted */
int vm_sleep_calls, vm_sleep_intr_left, vm_sleep_intr_taken, vm_sleep_errno_mode;

static void vm_clock_add(unsigned long long s, unsigned long long ns) {
  vm_clock_ns += ns;
  if (vm_clock_ns >= NS) { vm_clock_ns -= NS; vm_clock_s++; }
  vm_clock_s += s;
}

/* returns 1 when interrupted (rem filled), 0 when the whole request was slept */
static int vm_sleep(const struct timespec *req, struct timespec *rem) {
#ifdef VM_SLEEP_HOOK
  vm_sleep_hook(0);                                        /* another thread may run a whole sleep of its own before this one starts */
#endif
  if (vm_sleep_calls < 1000) vm_sleep_calls++;
  VASSERT(req != NULL, "sleep request present");
  VASSERT(req->tv_nsec >= 0 && req->tv_nsec < NS, "sleep request has 0 <= tv_nsec < 10^9");
  VASSERT(req->tv_sec >= 0, "sleep request has tv_sec >= 0");
  VASSUME(req->tv_sec <= 0x7fffffffL);                     /* bound of the model clock (68 years per request) */
  if (vm_sleep_calls == 1) vm_sleep_first_req = *req;
  if (vm_sleep_pending_rem)
    /* local step of "total time slept >= first request": a sleep re-issued after an interruption asks for at least
     * the remaining time that interruption reported (pair comparison, no arithmetic) */
    VASSERT(req->tv_sec > vm_sleep_last_rem.tv_sec ||
            (req->tv_sec == vm_sleep_last_rem.tv_sec && req->tv_nsec >= vm_sleep_last_rem.tv_nsec),
            "sleep re-issued after an interruption covers at least the reported remaining time");
  vm_sleep_pending_rem = 0;
  if (vm_sleep_intr_left > 0 && ND_BOOL()) {
    vm_sleep_intr_left--; vm_sleep_intr_taken++;
    long long rs = ND_LL(); long rn = (long) ND_LL();      /* remaining time: normalised and <= request */
    VASSUME(rs >= 0 && rn >= 0 && rn < NS);
    VASSUME(rs < req->tv_sec || (rs == req->tv_sec && rn <= req->tv_nsec));
    if (req->tv_nsec >= rn) vm_clock_add((unsigned long long) req->tv_sec - (unsigned long long) rs, (unsigned long long) req->tv_nsec - (unsigned long long) rn);
    else vm_clock_add((unsigned long long) req->tv_sec - (unsigned long long) rs - 1u, (unsigned long long) req->tv_nsec + (unsigned long long) NS - (unsigned long long) rn);
    if (rem != NULL) { rem->tv_sec = (time_t) rs; rem->tv_nsec = rn; }
    vm_sleep_last_rem.tv_sec = (time_t) rs; vm_sleep_last_rem.tv_nsec = rn; vm_sleep_pending_rem = 1;
#ifdef VM_SLEEP_HOOK
    vm_sleep_hook(1);                                      /* ... or between the kernel writing the remainder and the caller reading it */
#endif
    return 1;
  }
  vm_clock_add((unsigned long long) req->tv_sec, (unsigned long long) req->tv_nsec);
  return 0;
}

int vm_clock_nanosleep(clockid_t clk, int flags, const struct timespec *req, struct timespec *rem) {
  (void) clk;
  VASSERT(flags == 0, "model: relative clock_nanosleep only");
  if (vm_sleep(req, rem)) {
    if (vm_sleep_errno_mode == 1) errno = EINTR; else errno = ND_INT();
    return EINTR;
  }
  return 0;
}

int vm_nanosleep(const struct timespec *req, struct timespec *rem) {
  if (vm_sleep(req, rem)) { errno = EINTR; return -1; }
  return 0;
}
