#include "verif.h"
long long vlog;
unsigned long long vlogu;
#ifdef VERIF_NATIVE
static long long *vn_vals; static int vn_n, vn_pos;
void vn_load(const char *path) {
  FILE *f = fopen(path, "r"); long long v; int cap = 0;
  if (!f) { perror(path); exit(2); }
  while (fscanf(f, "%lld", &v) == 1) { if (vn_n == cap) { cap = cap ? 2*cap : 64; vn_vals = realloc(vn_vals, cap*sizeof v); } vn_vals[vn_n++] = v; }
  fclose(f);
}
long long vn_next(void) { if (vn_pos >= vn_n) { printf("REPLAY-INCONSISTENT: ran out of recorded values\n"); exit(77);} return vn_vals[vn_pos++]; }
#endif
