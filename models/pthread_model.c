/* pthread model: see pthread_model.h for the contract.  CBMC-only (thread harnesses + sequential
 * effect / return-code queries). */
#include "pthread_model.h"

#ifndef VERIF_NATIVE
__CPROVER_thread_local int vm_self = 0;
__CPROVER_thread_local int vm_spur_left = VM_SPURIOUS;
#else
__thread int vm_self, vm_spur_left = VM_SPURIOUS;
#endif

int vm_tstate[VM_NTHR], vm_twcv[VM_NTHR], vm_twmtx[VM_NTHR], vm_twoken[VM_NTHR];
int vm_mtx_owner[VM_NMTX];
int vm_rw_writer[VM_NRW], vm_rw_readers[VM_NRW], vm_rw_rheld[VM_NRW][VM_NTHR];
int vm_nmtx, vm_ncv, vm_nrw;
pthread_mutex_t  *vm_mtx_addr[VM_NMTX];
pthread_cond_t   *vm_cv_addr[VM_NCV];
pthread_rwlock_t *vm_rw_addr[VM_NRW];
int vm_last_wait_cv = -1, vm_last_wait_mtx = -1, vm_nsignal, vm_nbroadcast, vm_nwoken_last;
#ifdef VM_PT_FAULTS
int vm_fault_armed, vm_fault_code, vm_fault_hits;
#define VM_FAULT() if (vm_fault_armed) { vm_fault_armed = 0; vm_fault_hits++; return vm_fault_code; }
#else
#define VM_FAULT()
#endif

/* unrolling helpers: every array access below has a literal index */
#define FOR_T(X) X(0) X(1) X(2) X(3)
#define FOR_M(X) X(0) X(1) X(2)
#define FOR_C(X) X(0) X(1) X(2)
#define FOR_R(X) X(0) X(1)

int vm_mtx_index(const pthread_mutex_t *m) {
#define X(k) if (k < vm_nmtx && m == vm_mtx_addr[k]) return k;
  FOR_M(X)
#undef X
  return -1;
}
int vm_cv_index(const pthread_cond_t *c) {
#define X(k) if (k < vm_ncv && c == vm_cv_addr[k]) return k;
  FOR_C(X)
#undef X
  return -1;
}
int vm_rw_index(const pthread_rwlock_t *r) {
#define X(k) if (k < vm_nrw && r == vm_rw_addr[k]) return k;
  FOR_R(X)
#undef X
  return -1;
}

/* ---- thread bookkeeping ------------------------------------------------------------------- */
void vm_thread_register(int t) {
#define X(k) if (t == k) vm_tstate[k] = VM_T_RUNNING;
  FOR_T(X)
#undef X
}
void vm_thread_begin(int t) { vm_self = t; vm_spur_left = VM_SPURIOUS; }

/* to be called inside the atomic section of the thread that blocks or finishes */
static void vm_deadlock_check(void) {
  int unfinished = 0, runnable = 0;
#define X(t) if (vm_tstate[t] == VM_T_RUNNING) runnable = 1; \
             if (vm_tstate[t] == VM_T_WAITING) { unfinished = 1; if (vm_twoken[t]) runnable = 1; }
  FOR_T(X)
#undef X
  VASSERT(!(unfinished && !runnable),
          "no deadlock / lost wake-up: when a thread blocks or finishes, some unfinished thread is runnable or has been signalled");
}

int vm_all_finished(void) {
  int all = 1;
#define X(t) if (vm_tstate[t] == VM_T_RUNNING || vm_tstate[t] == VM_T_WAITING) all = 0;
  FOR_T(X)
#undef X
  return all;
}

void vm_thread_finish(void) {
  VATOMIC_BEGIN();
#define X(k) VASSERT(vm_mtx_owner[k] != vm_self + 1, "thread finishes without owning a mutex");
  FOR_M(X)
#undef X
#define X(k) VASSERT(vm_rw_writer[k] != vm_self + 1, "thread finishes without holding a write lock");
  FOR_R(X)
#undef X
#define X(t) if (vm_self == t) { VASSERT(vm_rw_rheld[0][t] == 0 && vm_rw_rheld[1][t] == 0, "thread finishes without holding a read lock"); \
                                 vm_tstate[t] = VM_T_FINISHED; }
  FOR_T(X)
#undef X
  vm_deadlock_check();
  VATOMIC_END();
}

/* ---- mutex ---------------------------------------------------------------------------------- */
int vm_pthread_mutex_init(pthread_mutex_t *m, const pthread_mutexattr_t *a) {
  (void) a;
  VM_FAULT()
  VASSERT(vm_nmtx < VM_NMTX, "model capacity: mutexes");
#define X(k) if (vm_nmtx == k) { vm_mtx_addr[k] = m; vm_mtx_owner[k] = 0; }
  FOR_M(X)
#undef X
  vm_nmtx++;
  return 0;
}
int vm_pthread_mutex_destroy(pthread_mutex_t *m) {
  VM_FAULT()
  int k = vm_mtx_index(m);
  VASSERT(k >= 0, "mutex_destroy: object was initialised");
  return 0;
}
int vm_pthread_mutex_lock(pthread_mutex_t *m) {
  VM_FAULT()
  int i = vm_mtx_index(m);
  VASSERT(i >= 0, "mutex_lock: object is an initialised mutex");
  VATOMIC_BEGIN();
#define X(k) if (i == k) { VASSERT(vm_mtx_owner[k] != vm_self + 1, "mutex_lock: caller does not own it already (self-deadlock)"); \
                           VASSUME(vm_mtx_owner[k] == 0); vm_mtx_owner[k] = vm_self + 1; }
  FOR_M(X)
#undef X
  VATOMIC_END();
  return 0;
}
int vm_pthread_mutex_trylock(pthread_mutex_t *m) {
  VM_FAULT()
  int i = vm_mtx_index(m), r = 0;
  VASSERT(i >= 0, "mutex_trylock: object is an initialised mutex");
  VATOMIC_BEGIN();
#define X(k) if (i == k) { if (vm_mtx_owner[k] == 0) vm_mtx_owner[k] = vm_self + 1; else r = EBUSY; }
  FOR_M(X)
#undef X
  VATOMIC_END();
  return r;
}
int vm_pthread_mutex_unlock(pthread_mutex_t *m) {
  VM_FAULT()
  int i = vm_mtx_index(m);
  VASSERT(i >= 0, "mutex_unlock: object is an initialised mutex");
  VATOMIC_BEGIN();
#define X(k) if (i == k) { VASSERT(vm_mtx_owner[k] == vm_self + 1, "mutex_unlock: caller owns the mutex"); vm_mtx_owner[k] = 0; }
  FOR_M(X)
#undef X
  VATOMIC_END();
  return 0;
}

/* ---- condition variable ------------------------------------------------------------------------ */
int vm_pthread_cond_init(pthread_cond_t *c, const pthread_condattr_t *a) {
  (void) a;
  VM_FAULT()
  VASSERT(vm_ncv < VM_NCV, "model capacity: condition variables");
#define X(k) if (vm_ncv == k) vm_cv_addr[k] = c;
  FOR_C(X)
#undef X
  vm_ncv++;
  return 0;
}
int vm_pthread_cond_destroy(pthread_cond_t *c) {
  VM_FAULT()
  VASSERT(vm_cv_index(c) >= 0, "cond_destroy: object was initialised");
  return 0;
}

int vm_pthread_cond_wait(pthread_cond_t *c, pthread_mutex_t *m) {
  VM_FAULT()
  int ci = vm_cv_index(c), mi = vm_mtx_index(m);
  VASSERT(ci >= 0, "cond_wait: first argument is an initialised condition variable");
  VASSERT(mi >= 0, "cond_wait: second argument is an initialised mutex");
  /* step 1 (atomic): register as waiter, release the mutex; deadlock check of the state entered */
  VATOMIC_BEGIN();
  vm_last_wait_cv = ci; vm_last_wait_mtx = mi;
#define X(k) if (mi == k) { VASSERT(vm_mtx_owner[k] == vm_self + 1, "cond_wait: called with the mutex owned by the caller"); vm_mtx_owner[k] = 0; }
  FOR_M(X)
#undef X
#define X(t) if (vm_self == t) { vm_tstate[t] = VM_T_WAITING; vm_twcv[t] = ci; vm_twmtx[t] = mi; vm_twoken[t] = 0; }
  FOR_T(X)
#undef X
  vm_deadlock_check();
  VATOMIC_END();
  /* step 2 (atomic): woken by signal/broadcast, or spuriously (bounded); re-acquire the mutex */
  VATOMIC_BEGIN();
  {
    _Bool spur = 0;
#if VM_SPURIOUS > 0
    if (vm_spur_left > 0 && nondet_bool()) { spur = 1; vm_spur_left--; }
#endif
#define X(t) if (vm_self == t) { VASSUME(vm_twoken[t] || spur); vm_twoken[t] = 0; vm_tstate[t] = VM_T_RUNNING; }
    FOR_T(X)
#undef X
#define X(k) if (mi == k) { VASSUME(vm_mtx_owner[k] == 0); vm_mtx_owner[k] = vm_self + 1; }
    FOR_M(X)
#undef X
  }
  VATOMIC_END();
  return 0;
}

#define VM_IS_WAITER(t, ci) (vm_tstate[t] == VM_T_WAITING && vm_twcv[t] == (ci) && !vm_twoken[t])

int vm_pthread_cond_signal(pthread_cond_t *c) {
  VM_FAULT()
  int ci = vm_cv_index(c);
  VASSERT(ci >= 0, "cond_signal: argument is an initialised condition variable");
  VATOMIC_BEGIN();
  {
    _Bool c0 = VM_IS_WAITER(0, ci), c1 = VM_IS_WAITER(1, ci), c2 = VM_IS_WAITER(2, ci), c3 = VM_IS_WAITER(3, ci);
    vm_nsignal++; vm_nwoken_last = 0;
    if (c0 || c1 || c2 || c3) {
      int pick = nondet_int();   /* which waiter: any */
      VASSUME((pick == 0 && c0) || (pick == 1 && c1) || (pick == 2 && c2) || (pick == 3 && c3));
#define X(t) if (pick == t) vm_twoken[t] = 1;
      FOR_T(X)
#undef X
      vm_nwoken_last = 1;
    }
  }
  VATOMIC_END();
  return 0;
}
int vm_pthread_cond_broadcast(pthread_cond_t *c) {
  VM_FAULT()
  int ci = vm_cv_index(c);
  VASSERT(ci >= 0, "cond_broadcast: argument is an initialised condition variable");
  VATOMIC_BEGIN();
  vm_nbroadcast++; vm_nwoken_last = 0;
#define X(t) if (VM_IS_WAITER(t, ci)) { vm_twoken[t] = 1; vm_nwoken_last++; }
  FOR_T(X)
#undef X
  VATOMIC_END();
  return 0;
}

/* ---- rwlock -------------------------------------------------------------------------------------- */
int vm_pthread_rwlock_init(pthread_rwlock_t *r, const pthread_rwlockattr_t *a) {
  (void) a;
  VM_FAULT()
  VASSERT(vm_nrw < VM_NRW, "model capacity: rwlocks");
#define X(k) if (vm_nrw == k) vm_rw_addr[k] = r;
  FOR_R(X)
#undef X
  vm_nrw++;
  return 0;
}
int vm_pthread_rwlock_destroy(pthread_rwlock_t *r) {
  VM_FAULT()
  VASSERT(vm_rw_index(r) >= 0, "rwlock_destroy: object was initialised");
  return 0;
}
#define VM_RHELD_INC(k) { if (vm_self == 0) vm_rw_rheld[k][0]++; if (vm_self == 1) vm_rw_rheld[k][1]++; \
                          if (vm_self == 2) vm_rw_rheld[k][2]++; if (vm_self == 3) vm_rw_rheld[k][3]++; }
int vm_pthread_rwlock_rdlock(pthread_rwlock_t *r) {
  VM_FAULT()
  int i = vm_rw_index(r);
  VASSERT(i >= 0, "rwlock_rdlock: object is an initialised rwlock");
  VATOMIC_BEGIN();
#define X(k) if (i == k) { VASSERT(vm_rw_writer[k] != vm_self + 1, "rwlock_rdlock: caller is not the writer (self-deadlock)"); \
                           VASSUME(vm_rw_writer[k] == 0); vm_rw_readers[k]++; VM_RHELD_INC(k) }
  FOR_R(X)
#undef X
  VATOMIC_END();
  return 0;
}
int vm_pthread_rwlock_tryrdlock(pthread_rwlock_t *r) {
  VM_FAULT()
  int i = vm_rw_index(r), rc = 0;
  VASSERT(i >= 0, "rwlock_tryrdlock: object is an initialised rwlock");
  VATOMIC_BEGIN();
#define X(k) if (i == k) { if (vm_rw_writer[k] == 0) { vm_rw_readers[k]++; VM_RHELD_INC(k) } else rc = EBUSY; }
  FOR_R(X)
#undef X
  VATOMIC_END();
  return rc;
}
int vm_pthread_rwlock_wrlock(pthread_rwlock_t *r) {
  VM_FAULT()
  int i = vm_rw_index(r);
  VASSERT(i >= 0, "rwlock_wrlock: object is an initialised rwlock");
  VATOMIC_BEGIN();
#define X(k) if (i == k) { VASSERT(vm_rw_writer[k] != vm_self + 1, "rwlock_wrlock: caller is not the writer already (self-deadlock)"); \
                           VASSUME(vm_rw_writer[k] == 0 && vm_rw_readers[k] == 0); vm_rw_writer[k] = vm_self + 1; }
  FOR_R(X)
#undef X
  VATOMIC_END();
  return 0;
}
int vm_pthread_rwlock_trywrlock(pthread_rwlock_t *r) {
  VM_FAULT()
  int i = vm_rw_index(r), rc = 0;
  VASSERT(i >= 0, "rwlock_trywrlock: object is an initialised rwlock");
  VATOMIC_BEGIN();
#define X(k) if (i == k) { if (vm_rw_writer[k] == 0 && vm_rw_readers[k] == 0) vm_rw_writer[k] = vm_self + 1; else rc = EBUSY; }
  FOR_R(X)
#undef X
  VATOMIC_END();
  return rc;
}
#define VM_RHELD_DEC(k, ok) { \
  if (vm_self == 0 && vm_rw_rheld[k][0] > 0) { vm_rw_rheld[k][0]--; ok = 1; } \
  if (vm_self == 1 && vm_rw_rheld[k][1] > 0) { vm_rw_rheld[k][1]--; ok = 1; } \
  if (vm_self == 2 && vm_rw_rheld[k][2] > 0) { vm_rw_rheld[k][2]--; ok = 1; } \
  if (vm_self == 3 && vm_rw_rheld[k][3] > 0) { vm_rw_rheld[k][3]--; ok = 1; } }
int vm_pthread_rwlock_unlock(pthread_rwlock_t *r) {
  VM_FAULT()
  int i = vm_rw_index(r);
  VASSERT(i >= 0, "rwlock_unlock: object is an initialised rwlock");
  VATOMIC_BEGIN();
#define X(k) if (i == k) { \
    if (vm_rw_writer[k] == vm_self + 1) vm_rw_writer[k] = 0; \
    else { _Bool ok = 0; VM_RHELD_DEC(k, ok) VASSERT(ok, "rwlock_unlock: caller holds the lock"); if (ok) vm_rw_readers[k]--; } }
  FOR_R(X)
#undef X
  VATOMIC_END();
  return 0;
}
