/* pthread model: see pthread_model.h for the contract.  CBMC-only (thread harnesses + sequential
 * effect / return-code queries).
 *
 * Encoding rules learnt the hard way (CBMC 6.11 threads): state = individual SCALARS (vm_tstate_0, ...;
 * a write to one element of a shared array makes CBMC read every element), the code is unrolled over
 * thread/object numbers with X-macros, nothing is stored inside the glibc unions, multi-variable assertions
 * sit inside the acting thread's atomic section. */
#include "pthread_model.h"

#ifndef VERIF_NATIVE
__CPROVER_thread_local int vm_self = 0;
__CPROVER_thread_local int vm_spur_left = VM_SPURIOUS;
#else
__thread int vm_self, vm_spur_left = VM_SPURIOUS;
#endif

#define DEF_T(t) int vm_tstate_##t, vm_twcv_##t, vm_twmtx_##t, vm_twoken_##t;
#define DEF_M(k) int vm_mtx_owner_##k; pthread_mutex_t *vm_mtx_addr_##k;
#define DEF_C(k) pthread_cond_t *vm_cv_addr_##k;
#define DEF_R(k) int vm_rw_writer_##k, vm_rw_readers_##k; pthread_rwlock_t *vm_rw_addr_##k;
#define DEF_RT(k, t) int vm_rw_rheld_##k##_##t;
VM_FOR_T(DEF_T)
VM_FOR_M(DEF_M)
VM_FOR_C(DEF_C)
VM_FOR_R(DEF_R)
VM_FOR_RT(DEF_RT)
int vm_nmtx, vm_ncv, vm_nrw;

#ifdef VM_PT_GHOST   /* call records for the sequential effect queries (shared writes: not in thread harnesses) */
int vm_last_wait_cv = -1, vm_last_wait_mtx = -1, vm_nsignal, vm_nbroadcast, vm_nwoken_last;
int vm_nsig_cv[4], vm_nbc_cv[4];      /* signal / broadcast calls per condition index */
#define VM_GHOST(stmt) stmt
#else
#define VM_GHOST(stmt)
#endif
#ifdef VM_PRE_HOOK   /* sequential nested-context emulation: preemption point at the entry of every platform call */
#define VM_PRE() VM_PRE_HOOK();
#else
#define VM_PRE()
#endif
#ifdef VM_PT_FAULTS
int vm_fault_armed, vm_fault_code, vm_fault_hits;
#define VM_FAULT() VM_PRE() if (vm_fault_armed) { vm_fault_armed = 0; vm_fault_hits++; return vm_fault_code; }
#else
#define VM_FAULT() VM_PRE()
#endif

#if VM_NTHR == 1
/* single-threaded (sequential) query: nobody can wake a blocked caller; the deadlock check of the blocking step has
 * reported it; the path ends here (an assume inside an atomic section confuses sequential symex) */
#define VM_SEQ_STOP() VASSUME(0);
#else
#define VM_SEQ_STOP()
#endif

#ifdef VM_WAKE_MONITOR
#ifndef VERIF_NATIVE
__CPROVER_thread_local int vm_wake_pending;   /* thread-local: no cost in the interleaving encoding */
#else
__thread int vm_wake_pending;
#endif
void vm_wake_delivered(void) { vm_wake_pending = 0; }
#define VM_MARK_WAKE(genuine) if (genuine) vm_wake_pending = 1;
#else
#define VM_MARK_WAKE(genuine)
#endif

int vm_mtx_index(const pthread_mutex_t *m) {
#define X(k) if (m == vm_mtx_addr_##k) return k;
  VM_FOR_M(X)
#undef X
  return -1;
}
int vm_cv_index(const pthread_cond_t *c) {
#define X(k) if (c == vm_cv_addr_##k) return k;
  VM_FOR_C(X)
#undef X
  return -1;
}
int vm_rw_index(const pthread_rwlock_t *r) {
#define X(k) if (r == vm_rw_addr_##k) return k;
  VM_FOR_R(X)
#undef X
  return -1;
}

/* ---- thread bookkeeping ------------------------------------------------------------------- */
void vm_thread_register(int t) {
#define X(k) if (t == k) vm_tstate_##k = VM_T_RUNNING;
  VM_FOR_T(X)
#undef X
}
void vm_thread_begin(int t) { vm_self = t; vm_spur_left = VM_SPURIOUS; }

void vm_set_waiting(int t, int ci, int mi) {
#define X(k) if (t == k) { vm_tstate_##k = VM_T_WAITING; vm_twcv_##k = ci; vm_twmtx_##k = mi; vm_twoken_##k = 0; }
  VM_FOR_T(X)
#undef X
}
int vm_is_woken(int t) {
#define X(k) if (t == k) return vm_twoken_##k;
  VM_FOR_T(X)
#undef X
  return 0;
}
int vm_mutex_owner(int mi) {
#define X(k) if (mi == k) return vm_mtx_owner_##k;
  VM_FOR_M(X)
#undef X
  return -1;
}
int vm_rwlock_writer(int ri) {
#define X(k) if (ri == k) return vm_rw_writer_##k;
  VM_FOR_R(X)
#undef X
  return -1;
}
int vm_rwlock_readers(int ri) {
#define X(k) if (ri == k) return vm_rw_readers_##k;
  VM_FOR_R(X)
#undef X
  return -1;
}

/* to be called inside the atomic section of the thread that blocks or finishes */
static void vm_deadlock_check(void) {
#ifdef VM_NO_DEADLOCK_CHECK   /* harnesses whose protocol intentionally leaves threads blocked (C03_wake.c) */
  return;
#endif
  _Bool unfinished = 0, runnable = 0;
#define X(t) { int s = vm_tstate_##t; if (s == VM_T_RUNNING) runnable = 1; \
               if (s == VM_T_WAITING) { unfinished = 1; if (vm_twoken_##t) runnable = 1; } }
  VM_FOR_T(X)
#undef X
  VASSERT(!(unfinished && !runnable),
          "no deadlock / lost wake-up: when a thread blocks or finishes, some unfinished thread is runnable or has been signalled");
}

int vm_all_finished(void) {
  int all = 1;
#define X(t) { int s = vm_tstate_##t; if (s == VM_T_RUNNING || s == VM_T_WAITING) all = 0; }
  VM_FOR_T(X)
#undef X
  return all;
}

void vm_thread_finish(void) {
  VATOMIC_BEGIN();
#define X(k) VASSERT(vm_mtx_owner_##k != vm_self + 1, "thread finishes without owning a mutex");
  VM_FOR_M(X)
#undef X
#define X(k) VASSERT(vm_rw_writer_##k != vm_self + 1, "thread finishes without holding a write lock");
  VM_FOR_R(X)
#undef X
#define X(k, t) if (vm_self == t) VASSERT(vm_rw_rheld_##k##_##t == 0, "thread finishes without holding a read lock");
  VM_FOR_RT(X)
#undef X
#define X(t) if (vm_self == t) vm_tstate_##t = VM_T_FINISHED;
  VM_FOR_T(X)
#undef X
  vm_deadlock_check();
  VATOMIC_END();
}

/* ---- mutex ---------------------------------------------------------------------------------- */
int vm_pthread_mutex_init(pthread_mutex_t *m, const pthread_mutexattr_t *a) {
  (void) a;
  VM_FAULT()
  VASSERT(vm_nmtx < VM_NMTX, "model capacity: mutexes");
#define X(k) if (vm_nmtx == k) { vm_mtx_addr_##k = m; vm_mtx_owner_##k = 0; }
  VM_FOR_M(X)
#undef X
  vm_nmtx++;
  return 0;
}
int vm_pthread_mutex_destroy(pthread_mutex_t *m) {
  VM_FAULT()
  VASSERT(vm_mtx_index(m) >= 0, "mutex_destroy: object was initialised");
  return 0;
}
int vm_pthread_mutex_lock(pthread_mutex_t *m) {
  VM_FAULT()
  int i = vm_mtx_index(m);
  VASSERT(i >= 0, "mutex_lock: object is an initialised mutex");
#if VM_NTHR == 1
  { int o1 = vm_mutex_owner(i);   /* sequential query: a held mutex is never released by anybody else */
    VASSERT(o1 == 0, "mutex_lock would block for ever: the mutex is held and there is no other thread");
    VASSUME(o1 == 0); }
#elif defined(VM_PRE_HOOK) || defined(VM_CW_HOOK)
  /* sequential emulation with several contexts: a caller that would block does not proceed (path ends; the assume is
   * placed before the atomic section because sequential symex dislikes an infeasible assume inside one) */
  VASSUME(vm_mutex_owner(i) == 0 || vm_mutex_owner(i) == vm_self + 1);
#endif
  VATOMIC_BEGIN();
#define X(k) if (i == k) { int o = vm_mtx_owner_##k;   /* one read event */ \
                           VASSERT(o != vm_self + 1, "mutex_lock: caller does not own it already (self-deadlock)"); \
                           VASSUME(o == 0); vm_mtx_owner_##k = vm_self + 1; }
  VM_FOR_M(X)
#undef X
  VATOMIC_END();
  return 0;
}
int vm_pthread_mutex_trylock(pthread_mutex_t *m) {
  VM_FAULT()
  int i = vm_mtx_index(m), r = 0;
  VASSERT(i >= 0, "mutex_trylock: object is an initialised mutex");
  VATOMIC_BEGIN();
#define X(k) if (i == k) { if (vm_mtx_owner_##k == 0) vm_mtx_owner_##k = vm_self + 1; else r = EBUSY; }
  VM_FOR_M(X)
#undef X
  VATOMIC_END();
  return r;
}
int vm_pthread_mutex_unlock(pthread_mutex_t *m) {
  VM_FAULT()
  int i = vm_mtx_index(m);
  VASSERT(i >= 0, "mutex_unlock: object is an initialised mutex");
  VATOMIC_BEGIN();
#define X(k) if (i == k) { VASSERT(vm_mtx_owner_##k == vm_self + 1, "mutex_unlock: caller owns the mutex"); vm_mtx_owner_##k = 0; }
  VM_FOR_M(X)
#undef X
  VATOMIC_END();
  return 0;
}

/* ---- condition variable ------------------------------------------------------------------------ */
int vm_pthread_cond_init(pthread_cond_t *c, const pthread_condattr_t *a) {
  (void) a;
  VM_FAULT()
  VASSERT(vm_ncv < VM_NCV, "model capacity: condition variables");
#define X(k) if (vm_ncv == k) vm_cv_addr_##k = c;
  VM_FOR_C(X)
#undef X
  vm_ncv++;
  return 0;
}
int vm_pthread_cond_destroy(pthread_cond_t *c) {
  VM_FAULT()
  VASSERT(vm_cv_index(c) >= 0, "cond_destroy: object was initialised");
  return 0;
}

int vm_pthread_cond_wait(pthread_cond_t *c, pthread_mutex_t *m) {
  VM_FAULT()
  int ci = vm_cv_index(c), mi = vm_mtx_index(m);
  VASSERT(ci >= 0, "cond_wait: first argument is an initialised condition variable");
  VASSERT(mi >= 0, "cond_wait: second argument is an initialised mutex");
#ifdef VM_WAKE_MONITOR
  /* a genuine wake-up (signal / broadcast) must be DELIVERED: the woken thread has to return from the library's wait to the
   * API caller (who calls vm_wake_delivered) before the library may block it again; swallowing it inside the library
   * ("spurious wake-up filter" that re-waits) breaks "signal wakes >= 1 / broadcast wakes all".  Spurious model wake-ups
   * do not set the mark: the library may loop on them internally. */
  VASSERT(!vm_wake_pending, "a thread woken by signal/broadcast returns from p_cond_variable_wait before it blocks again (genuine wake-up not swallowed inside the library)");
#endif
#ifdef VM_CW_HOOK
  /* inductive sequential queries (C02 harness 2): the wait is replaced by the harness hook, which checks the state the
   * caller blocks in and havocs the protected data to any state other threads may leave behind; the caller continues as
   * if woken, with the mutex re-acquired */
  VASSERT(vm_mutex_owner(mi) == vm_self + 1, "cond_wait: called with the mutex owned by the caller");
#ifdef VM_CW_RELEASE
  /* sequential emulation of the blocking point (C03 seq_wait_releases_via_api): the platform mutex is released, the hook
   * runs ANOTHER context (it switches vm_self) through the public API, then the waiter re-acquires */
#define X(k) if (mi == k) vm_mtx_owner_##k = 0;
  VM_FOR_M(X)
#undef X
#endif
  VM_CW_HOOK(ci, mi);
  VM_MARK_WAKE(1)      /* sequential emulation: the hook ends the wait by a wake-up issued by the other context */
#ifdef VM_CW_RELEASE
#define X(k) if (mi == k) { VASSERT(vm_mtx_owner_##k == 0, "cond_wait: the other context left the mutex free, the waiter can re-acquire"); \
                           VASSUME(vm_mtx_owner_##k == 0); vm_mtx_owner_##k = vm_self + 1; }
  VM_FOR_M(X)
#undef X
#endif
  return 0;
#endif
  /* step 1 (atomic): register as waiter, release the mutex; deadlock check of the state entered */
  VATOMIC_BEGIN();
  VM_GHOST(vm_last_wait_cv = ci; vm_last_wait_mtx = mi;)
#define X(k) if (mi == k) { VASSERT(vm_mtx_owner_##k == vm_self + 1, "cond_wait: called with the mutex owned by the caller"); vm_mtx_owner_##k = 0; }
  VM_FOR_M(X)
#undef X
#define X(t) if (vm_self == t) { vm_tstate_##t = VM_T_WAITING; vm_twcv_##t = ci; vm_twmtx_##t = mi; vm_twoken_##t = 0; }
  VM_FOR_T(X)
#undef X
  vm_deadlock_check();
  VATOMIC_END();
  VM_SEQ_STOP()
  /* step 2 (atomic): woken by signal/broadcast, or spuriously (bounded); re-acquire the mutex */
  VATOMIC_BEGIN();
  {
    _Bool spur = 0;
#if VM_SPURIOUS > 0
    if (vm_spur_left > 0 && nondet_bool()) { spur = 1; vm_spur_left--; }
#endif
#define X(t) if (vm_self == t) { int wk = vm_twoken_##t; VASSUME(wk || spur); VM_MARK_WAKE(wk) vm_twoken_##t = 0; vm_tstate_##t = VM_T_RUNNING; }
    VM_FOR_T(X)
#undef X
#define X(k) if (mi == k) { VASSUME(vm_mtx_owner_##k == 0); vm_mtx_owner_##k = vm_self + 1; }
    VM_FOR_M(X)
#undef X
  }
  VATOMIC_END();
  return 0;
}

#define VM_IS_WAITER(t, ci) (vm_tstate_##t == VM_T_WAITING && vm_twcv_##t == (ci) && !vm_twoken_##t)

int vm_pthread_cond_signal(pthread_cond_t *c) {
  VM_FAULT()
  int ci = vm_cv_index(c);
  VASSERT(ci >= 0, "cond_signal: argument is an initialised condition variable");
  VATOMIC_BEGIN();
  {
    /* exactly one waiter of THIS condition object, any of them */
    _Bool any = 0, hit = 0;
    int pick = nondet_int();
    VM_GHOST(vm_nsignal++; vm_nwoken_last = 0; if (ci >= 0 && ci < 4) vm_nsig_cv[ci]++;)
#define X(t) _Bool w##t = VM_IS_WAITER(t, ci); if (w##t) any = 1;     /* each state scalar read once */
    VM_FOR_T(X)
#undef X
#define X(t) if (pick == t && w##t) { vm_twoken_##t = 1; hit = 1; }
    VM_FOR_T(X)
#undef X
    VASSUME(hit || !any);
    VM_GHOST(vm_nwoken_last = hit;)
  }
  VATOMIC_END();
  return 0;
}
int vm_pthread_cond_broadcast(pthread_cond_t *c) {
  VM_FAULT()
  int ci = vm_cv_index(c);
  VASSERT(ci >= 0, "cond_broadcast: argument is an initialised condition variable");
  VATOMIC_BEGIN();
  VM_GHOST(vm_nbroadcast++; vm_nwoken_last = 0; if (ci >= 0 && ci < 4) vm_nbc_cv[ci]++;)
#define X(t) if (VM_IS_WAITER(t, ci)) { vm_twoken_##t = 1; VM_GHOST(vm_nwoken_last++;) }
  VM_FOR_T(X)
#undef X
  VATOMIC_END();
  return 0;
}

/* ---- rwlock -------------------------------------------------------------------------------------- */
int vm_pthread_rwlock_init(pthread_rwlock_t *r, const pthread_rwlockattr_t *a) {
  (void) a;
  VM_FAULT()
  VASSERT(vm_nrw < VM_NRW, "model capacity: rwlocks");
#define X(k) if (vm_nrw == k) vm_rw_addr_##k = r;
  VM_FOR_R(X)
#undef X
  vm_nrw++;
  return 0;
}
int vm_pthread_rwlock_destroy(pthread_rwlock_t *r) {
  VM_FAULT()
  VASSERT(vm_rw_index(r) >= 0, "rwlock_destroy: object was initialised");
  return 0;
}
/* blocking rwlock calls: granted at once when grantable, otherwise the caller registers as blocked on the
 * rwlock (state WAITING, pseudo condition VM_WAIT_RW+k; deadlock check of the state entered) and is granted in a
 * second atomic step; every unlock marks the threads blocked on that rwlock as woken (they re-contend). */
static void vm_block_on(int what) {
#define X(t) if (vm_self == t) { vm_tstate_##t = VM_T_WAITING; vm_twcv_##t = what; vm_twoken_##t = 0; }
  VM_FOR_T(X)
#undef X
  vm_deadlock_check();
}
static void vm_unblock(void) {
#define X(t) if (vm_self == t) { vm_tstate_##t = VM_T_RUNNING; vm_twoken_##t = 0; }
  VM_FOR_T(X)
#undef X
}
static void vm_wake_blocked_on(int what) {
#define X(t) if (vm_tstate_##t == VM_T_WAITING && vm_twcv_##t == what) vm_twoken_##t = 1;
  VM_FOR_T(X)
#undef X
}
int vm_pthread_rwlock_rdlock(pthread_rwlock_t *r) {
  VM_FAULT()
  int i = vm_rw_index(r);
  _Bool done = 0;
  VASSERT(i >= 0, "rwlock_rdlock: object is an initialised rwlock");
  VATOMIC_BEGIN();
#define X(k) if (i == k) { int w = vm_rw_writer_##k; VASSERT(w != vm_self + 1, "rwlock_rdlock: caller is not the writer (self-deadlock)"); \
                           if (w == 0) { vm_rw_readers_##k++; done = 1; } }
  VM_FOR_R(X)
#undef X
  if (!done) vm_block_on(VM_WAIT_RW + i);
  VATOMIC_END();
  if (!done) {
    VM_SEQ_STOP()
    VATOMIC_BEGIN();
#define X(k) if (i == k) { VASSUME(vm_rw_writer_##k == 0); vm_rw_readers_##k++; }
    VM_FOR_R(X)
#undef X
    vm_unblock();
    VATOMIC_END();
  }
  VATOMIC_BEGIN();
#define X(k, t) if (i == k && vm_self == t) vm_rw_rheld_##k##_##t++;
  VM_FOR_RT(X)
#undef X
  VATOMIC_END();
  return 0;
}
int vm_pthread_rwlock_tryrdlock(pthread_rwlock_t *r) {
  VM_FAULT()
  int i = vm_rw_index(r), rc = EBUSY;
  VASSERT(i >= 0, "rwlock_tryrdlock: object is an initialised rwlock");
  VATOMIC_BEGIN();
#define X(k) if (i == k && vm_rw_writer_##k == 0) { vm_rw_readers_##k++; rc = 0; }
  VM_FOR_R(X)
#undef X
#define X(k, t) if (rc == 0 && i == k && vm_self == t) vm_rw_rheld_##k##_##t++;
  VM_FOR_RT(X)
#undef X
  VATOMIC_END();
  return rc;
}
int vm_pthread_rwlock_wrlock(pthread_rwlock_t *r) {
  VM_FAULT()
  int i = vm_rw_index(r);
  _Bool done = 0;
  VASSERT(i >= 0, "rwlock_wrlock: object is an initialised rwlock");
  VATOMIC_BEGIN();
#define X(k) if (i == k) { int w = vm_rw_writer_##k; VASSERT(w != vm_self + 1, "rwlock_wrlock: caller is not the writer already (self-deadlock)"); \
                           if (w == 0 && vm_rw_readers_##k == 0) { vm_rw_writer_##k = vm_self + 1; done = 1; } }
  VM_FOR_R(X)
#undef X
  if (!done) vm_block_on(VM_WAIT_RW + i);
  VATOMIC_END();
  if (!done) {
    VM_SEQ_STOP()
    VATOMIC_BEGIN();
#define X(k) if (i == k) { VASSUME(vm_rw_writer_##k == 0 && vm_rw_readers_##k == 0); vm_rw_writer_##k = vm_self + 1; }
    VM_FOR_R(X)
#undef X
    vm_unblock();
    VATOMIC_END();
  }
  return 0;
}
int vm_pthread_rwlock_trywrlock(pthread_rwlock_t *r) {
  VM_FAULT()
  int i = vm_rw_index(r), rc = 0;
  VASSERT(i >= 0, "rwlock_trywrlock: object is an initialised rwlock");
  VATOMIC_BEGIN();
#define X(k) if (i == k) { if (vm_rw_writer_##k == 0 && vm_rw_readers_##k == 0) vm_rw_writer_##k = vm_self + 1; else rc = EBUSY; }
  VM_FOR_R(X)
#undef X
  VATOMIC_END();
  return rc;
}
int vm_pthread_rwlock_unlock(pthread_rwlock_t *r) {
  VM_FAULT()
  int i = vm_rw_index(r);
  _Bool ok = 0;
  VASSERT(i >= 0, "rwlock_unlock: object is an initialised rwlock");
  VATOMIC_BEGIN();
#define X(k) if (i == k && vm_rw_writer_##k == vm_self + 1) { vm_rw_writer_##k = 0; ok = 1; }
  VM_FOR_R(X)
#undef X
#define X(k, t) if (!ok && i == k && vm_self == t && vm_rw_rheld_##k##_##t > 0) { vm_rw_rheld_##k##_##t--; vm_rw_readers_##k--; ok = 1; }
  VM_FOR_RT(X)
#undef X
  VASSERT(ok, "rwlock_unlock: caller holds the lock");
  vm_wake_blocked_on(VM_WAIT_RW + i);
  VATOMIC_END();
  return 0;
}

/* ---- harness-level events (rendezvous between threads; blocked threads take part in the deadlock check) --- */
int vm_ev_0, vm_ev_1;
void vm_event_set(int ev) {
  VATOMIC_BEGIN();
  if (ev == 0) vm_ev_0 = 1; else vm_ev_1 = 1;
  vm_wake_blocked_on(VM_WAIT_EV + ev);
  VATOMIC_END();
}
void vm_event_wait(int ev) {
  _Bool done;
  VATOMIC_BEGIN();
  done = (ev == 0) ? vm_ev_0 : vm_ev_1;
  if (!done) vm_block_on(VM_WAIT_EV + ev);
  VATOMIC_END();
  if (!done) {
    VM_SEQ_STOP()
    VATOMIC_BEGIN();
    VASSUME((ev == 0) ? vm_ev_0 : vm_ev_1);
    vm_unblock();
    VATOMIC_END();
  }
}
