/* Replacement body of p_list_foreach for the C16 queries (the real body is removed from the plist.c
 * unit with goto-instrument --remove-function-body; the real p_list_foreach is checked by C15).
 * Reason: pinifile.c passes its one-argument destructors pp_ini_file_parameter_free /
 * pp_ini_file_section_free cast to the two-argument PFunc.  CBMC resolves an indirect call to the
 * functions whose signature matches the call and therefore never reaches them (it reports the call as
 * invalid).  The replacement walks the list exactly like the original and calls the two destructors
 * directly with their real signature; any other callback is an assertion failure. */
#include "verif.h"
#include <plist.h>
extern void __CPROVER_file_local_pinifile_c_pp_ini_file_parameter_free(void *param);
extern void __CPROVER_file_local_pinifile_c_pp_ini_file_section_free(void *section);

void p_list_foreach(PList *list, PFunc func, ppointer user_data) {
  PList *cur;
  (void) user_data;
  if (list == NULL || func == NULL) return;
  for (cur = list; cur != NULL; cur = cur->next) {
    if (func == (PFunc) __CPROVER_file_local_pinifile_c_pp_ini_file_parameter_free)
      __CPROVER_file_local_pinifile_c_pp_ini_file_parameter_free(cur->data);
    else if (func == (PFunc) __CPROVER_file_local_pinifile_c_pp_ini_file_section_free)
      __CPROVER_file_local_pinifile_c_pp_ini_file_section_free(cur->data);
    else
      VASSERT(0, "p_list_foreach model: callback is one of the two pinifile.c destructors");
  }
}
