#include "verif.h"
#include "dir_model.h"
#include <errno.h>

int vm_dir_open, vm_dir_opened, vm_dir_closed;
int vm_dir_fault_at[2], vm_dir_calls, vm_dir_faults;
int vm_dir_nentries;
int vm_dir_readdir_calls, vm_dir_stat_calls, vm_dir_last_index = -1;

static struct vm_dirstream { int open; int pos; struct dirent ent; } vm_streams[VM_DIR_MAXSTREAMS];
static const char *const vm_dir_names[VM_DIR_MAXENT] = {"a", "bc", "def"};

static int vm_dir_fault(void) {
  vm_dir_calls++;
  if (vm_dir_calls == vm_dir_fault_at[0] || vm_dir_calls == vm_dir_fault_at[1]) { vm_dir_faults++; return 1; }
  return 0;
}
static int vm_dir_slot(DIR *d) {
  for (int i = 0; i < VM_DIR_MAXSTREAMS; i++) if ((void *) d == (void *) &vm_streams[i]) return i;
  return -1;
}

DIR *vm_opendir(const char *path) {
  char c = path[0]; (void) c;                    /* the path must be a readable string */
  if (vm_dir_fault()) { int w = ND_RANGE(0, 2); errno = w == 0 ? ENOENT : (w == 1 ? EACCES : EMFILE); return NULL; }
  for (int i = 0; i < VM_DIR_MAXSTREAMS; i++) if (!vm_streams[i].open) {
    vm_streams[i].open = 1; vm_streams[i].pos = 0;
    vm_dir_open++; vm_dir_opened++;
    return (DIR *) (void *) &vm_streams[i];
  }
  VASSERT(0, "dir model: more than VM_DIR_MAXSTREAMS streams open at once (harness bound)");
  return NULL;
}

struct dirent *vm_readdir(DIR *d) {
  int i = vm_dir_slot(d);
  vm_dir_readdir_calls++;
  VASSERT(i >= 0 && vm_streams[i].open, "readdir is given an open directory stream");
  if (i < 0) return NULL;
  if (vm_dir_fault()) { errno = EIO; return NULL; }
  if (vm_streams[i].pos >= vm_dir_nentries || vm_streams[i].pos >= VM_DIR_MAXENT) return NULL;   /* end: errno untouched */
  const char *nm = vm_dir_names[vm_streams[i].pos];
  for (int j = 0; j < 4; j++) { vm_streams[i].ent.d_name[j] = nm[j]; if (nm[j] == 0) break; }
  vm_streams[i].ent.d_ino = 100 + vm_streams[i].pos;
  vm_dir_last_index = vm_streams[i].pos;
  vm_streams[i].pos++;
  return &vm_streams[i].ent;
}

void vm_rewinddir(DIR *d) {
  int i = vm_dir_slot(d);
  VASSERT(i >= 0 && vm_streams[i].open, "rewinddir is given an open directory stream");
  if (i >= 0) vm_streams[i].pos = 0;
}

int vm_closedir(DIR *d) {
  int i = vm_dir_slot(d);
  VASSERT(i >= 0 && vm_streams[i].open, "closedir is given an open directory stream (each stream closed exactly once)");
  if (i < 0 || !vm_streams[i].open) { errno = EBADF; return -1; }
  vm_streams[i].open = 0;
  vm_dir_open--; vm_dir_closed++;
  return 0;
}

int vm_stat(const char *path, struct stat *sb) {
  char c = path[0]; (void) c;
  vm_dir_stat_calls++;
  if (vm_dir_fault()) { errno = ENOENT; return -1; }
  int w = ND_RANGE(0, 2);
  sb->st_mode = w == 0 ? (S_IFDIR | 0755) : (w == 1 ? (S_IFREG | 0644) : (S_IFIFO | 0600));
  return 0;
}

int vm_mkdir(const char *path, mode_t mode) {
  char c = path[0]; (void) c; (void) mode;
  if (vm_dir_fault()) { errno = EACCES; return -1; }
  return 0;
}

int vm_rmdir(const char *path) {
  char c = path[0]; (void) c;
  if (vm_dir_fault()) { errno = EACCES; return -1; }
  return 0;
}

size_t vm_kf_strlen(const char *s) {
  VKF(s != NULL, "pdir-posix.c hands the unchecked NULL result of a failed p_strdup to strlen");
  VASSUME(s != NULL);
  size_t n = 0;
  while (n < 64 && s[n] != 0) n++;
  return n;
}
