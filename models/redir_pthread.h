/* Force-included into pmutex-posix.c / pcondvariable-posix.c / prwlock-posix.c: the system header
 * first (types stay glibc's), then every pthread call used by these units is redirected to the model.
 * This also keeps CBMC's built-in pthread library models out. */
#ifndef VM_REDIR_PTHREAD_H
#define VM_REDIR_PTHREAD_H
#include <pthread.h>
#include "pthread_model.h"
#define pthread_mutex_init       vm_pthread_mutex_init
#define pthread_mutex_destroy    vm_pthread_mutex_destroy
#define pthread_mutex_lock       vm_pthread_mutex_lock
#define pthread_mutex_trylock    vm_pthread_mutex_trylock
#define pthread_mutex_unlock     vm_pthread_mutex_unlock
#define pthread_cond_init        vm_pthread_cond_init
#define pthread_cond_destroy     vm_pthread_cond_destroy
#define pthread_cond_wait        vm_pthread_cond_wait
#define pthread_cond_signal      vm_pthread_cond_signal
#define pthread_cond_broadcast   vm_pthread_cond_broadcast
#define pthread_rwlock_init      vm_pthread_rwlock_init
#define pthread_rwlock_destroy   vm_pthread_rwlock_destroy
#define pthread_rwlock_rdlock    vm_pthread_rwlock_rdlock
#define pthread_rwlock_tryrdlock vm_pthread_rwlock_tryrdlock
#define pthread_rwlock_wrlock    vm_pthread_rwlock_wrlock
#define pthread_rwlock_trywrlock vm_pthread_rwlock_trywrlock
#define pthread_rwlock_unlock    vm_pthread_rwlock_unlock
#endif
