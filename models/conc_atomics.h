/* conc_atomics.h -- private (C01) light-weight variant of models/atomics_model.h for the spinlock units.
 *
 * Same operation semantics as atomics_model.h (one indivisible section per builtin; strong CAS with
 * real failure write-back; x86 mapping: RMW and seq_cst fence carry a full __CPROVER_fence), but the ghost
 * happens-before tracker is specialised so that it costs two shared words instead of five shared arrays
 * (measured: pspinlock-c11.c, 3 threads: 8 s without tracker, 347 s with the array tracker, see C01.py):
 *   - exactly ONE tracked atomic word (the lock word; every redirected builtin in the unit operates on it,
 *     asserted through ca_word),
 *   - per-thread sets (seen / release-fence / acquire-pending) are __CPROVER_thread_local: not shared,
 *   - shared: ca_L (set published by the head of the release sequence stored in the word), ca_done.
 * Rules (C11 5.1.2.4 / 7.17.3, as in atomics_model.h):
 *   store  mo>=release : L = seen          store relaxed : L = relfence     (a store starts a new sequence)
 *   RMW    mo>=release : L |= seen         RMW  relaxed  : L |= relfence    (RMWs continue a release sequence)
 *   load/RMW mo>=acquire (incl. consume): seen |= L        relaxed: acqpend |= L
 *   fence release: relfence = seen;  fence acquire: seen |= acqpend;  failed CAS = load with the failure order.
 *   CA_HB_ACCESS(prior, ev): plain access event `ev` of the current thread; 1 iff every already performed event
 *   in `prior` (conflicting accesses of other threads) happens-before it; records ev.  No events happen before
 *   the spawns in the C01 harness, so fork edges are empty.
 * Without -DCA_HB the ghost vanishes (used for the sync unit under --mm tso).
 */
#ifndef CONC_ATOMICS_H
#define CONC_ATOMICS_H
#ifndef VERIF_NATIVE
#ifndef __ATOMIC_RELAXED
#define __ATOMIC_RELAXED 0
#define __ATOMIC_CONSUME 1
#define __ATOMIC_ACQUIRE 2
#define __ATOMIC_RELEASE 3
#define __ATOMIC_ACQ_REL 4
#define __ATOMIC_SEQ_CST 5
#endif
void __CPROVER_atomic_begin(void);
void __CPROVER_atomic_end(void);
void __CPROVER_fence(const char *kind, ...);
#define CA_FULL_FENCE() __CPROVER_fence("WWfence", "RRfence", "RWfence", "WRfence", "WWcumul", "RRcumul", "RWcumul", "WRcumul")
#define CA_IS_ACQ(mo) ((mo) == __ATOMIC_CONSUME || (mo) == __ATOMIC_ACQUIRE || (mo) == __ATOMIC_ACQ_REL || (mo) == __ATOMIC_SEQ_CST)
#define CA_IS_REL(mo) ((mo) == __ATOMIC_RELEASE || (mo) == __ATOMIC_ACQ_REL || (mo) == __ATOMIC_SEQ_CST)

#ifdef CA_HB
extern unsigned ca_L, ca_done;
extern const volatile void *ca_word;
extern __CPROVER_thread_local unsigned ca_seen, ca_relf, ca_acqp;
#ifdef CA_IMPL
unsigned ca_L, ca_done;
const volatile void *ca_word;
__CPROVER_thread_local unsigned ca_seen, ca_relf, ca_acqp;
#endif
static inline void ca_check_word(const volatile void *p) {
  __CPROVER_assert(p == ca_word, "P atomics ghost: operation on the tracked lock word");
}
static inline void ca_hb_load(int mo)  { unsigned l = ca_L; if (CA_IS_ACQ(mo)) ca_seen |= l; else ca_acqp |= l; }
static inline void ca_hb_store(int mo) { ca_L = CA_IS_REL(mo) ? ca_seen : ca_relf; }
static inline void ca_hb_rmw(int mo)   { unsigned l = ca_L; if (CA_IS_ACQ(mo)) ca_seen |= l; else ca_acqp |= l;
                                         ca_L = l | (CA_IS_REL(mo) ? ca_seen : ca_relf); }
static inline void ca_hb_fence(int mo) { if (CA_IS_ACQ(mo)) ca_seen |= ca_acqp; if (CA_IS_REL(mo)) ca_relf = ca_seen; }
static inline int ca_hb_access(unsigned prior, int ev) {
  unsigned d = ca_done;
  int ok = ((prior & d & ~ca_seen) == 0);
  ca_done = d | (1u << ev);
  ca_seen |= 1u << ev;
  return ok;
}
#define CA_HB_ACCESS(prior, ev) ca_hb_access((prior), (ev))
#define CA_HB_LOAD(p, mo)  ca_hb_load(mo)
#define CA_HB_STORE(p, mo) ca_hb_store(mo)
#define CA_HB_RMW(p, mo)   ca_hb_rmw(mo)
#define CA_CHECK_WORD(p)   ca_check_word((const volatile void *) (p))   /* before the indivisible section */
#define CA_HB_FENCE(mo)    ca_hb_fence(mo)
#else
#define CA_HB_ACCESS(prior, ev) (1)
#define CA_CHECK_WORD(p)   ((void) 0)
#define CA_HB_LOAD(p, mo)  ((void) 0)
#define CA_HB_STORE(p, mo) ((void) 0)
#define CA_HB_RMW(p, mo)   ((void) 0)
#define CA_HB_FENCE(mo)    ((void) 0)
#endif

#ifdef CA_RMW_GHOST
/* record of the redirected read-modify-write operations (C01 loop-abstraction query): number of successful ones, the old
 * value the LAST successful one observed, the value it stored, and whether the last attempt (CAS) succeeded at all */
extern unsigned ca_rmw_nsucc; extern int ca_rmw_last_ok;
extern long long ca_rmw_succ_old, ca_rmw_succ_new;
#ifdef CA_IMPL
unsigned ca_rmw_nsucc; int ca_rmw_last_ok;
long long ca_rmw_succ_old, ca_rmw_succ_new;
#endif
#define CA_RMW_REC(ok, o, n) (ca_rmw_last_ok = (ok), (ok) ? (ca_rmw_nsucc++, ca_rmw_succ_old = (long long) (o), ca_rmw_succ_new = (long long) (n), 0) : 0)
#else
#define CA_RMW_REC(ok, o, n) ((void) 0)
#endif

#define CA_VAL_T(p) __typeof__((*(p)) + 0)
#define CA_CAS(p, e, d, smo, fmo) __extension__({ \
  __typeof__(p) ca_p_ = (p); __typeof__(e) ca_e_ = (e); CA_VAL_T(ca_p_) ca_o_, ca_d_ = (CA_VAL_T(ca_p_)) (d); \
  int ca_smo_ = (smo), ca_fmo_ = (fmo); _Bool ca_ok_; \
  CA_CHECK_WORD(ca_p_); CA_FULL_FENCE(); __CPROVER_atomic_begin(); \
  ca_o_ = *ca_p_; ca_ok_ = (ca_o_ == *ca_e_); \
  if (ca_ok_) { *ca_p_ = ca_d_; CA_HB_RMW(ca_p_, ca_smo_); } else { *ca_e_ = ca_o_; CA_HB_LOAD(ca_p_, ca_fmo_); } \
  CA_RMW_REC(ca_ok_, ca_o_, ca_d_); \
  __CPROVER_atomic_end(); CA_FULL_FENCE(); ca_ok_; })
#define CA_STORE(p, v, mo) __extension__({ \
  __typeof__(p) ca_p_ = (p); CA_VAL_T(ca_p_) ca_v_ = (CA_VAL_T(ca_p_)) (v); int ca_mo_ = (mo); \
  CA_CHECK_WORD(ca_p_); __CPROVER_atomic_begin(); *ca_p_ = ca_v_; CA_HB_STORE(ca_p_, ca_mo_); __CPROVER_atomic_end(); \
  if (ca_mo_ == __ATOMIC_SEQ_CST) CA_FULL_FENCE(); (void) 0; })
#define CA_LOAD(p, mo) __extension__({ \
  __typeof__(p) ca_p_ = (p); CA_VAL_T(ca_p_) ca_r_; int ca_mo_ = (mo); \
  CA_CHECK_WORD(ca_p_); __CPROVER_atomic_begin(); ca_r_ = *ca_p_; CA_HB_LOAD(ca_p_, ca_mo_); __CPROVER_atomic_end(); ca_r_; })
#define CA_FENCE(mo) __extension__({ int ca_mo_ = (mo); \
  __CPROVER_atomic_begin(); CA_HB_FENCE(ca_mo_); __CPROVER_atomic_end(); if (ca_mo_ == __ATOMIC_SEQ_CST) CA_FULL_FENCE(); (void) 0; })

/* the builtins used by pspinlock-c11.c and pspinlock-sync.c (anything else stays unredirected and is
 * rejected at link/symex time as an unknown function -> the query becomes inconclusive, never silent) */
#define __atomic_compare_exchange_n(p, e, d, weak, smo, fmo) CA_CAS(p, e, d, smo, fmo)
#define __atomic_compare_exchange_4(p, e, d, weak, smo, fmo) CA_CAS(p, e, d, smo, fmo)
#define __atomic_store_n(p, v, mo)  CA_STORE(p, v, mo)
#define __atomic_store_4(p, v, mo)  CA_STORE(p, v, mo)
#define __atomic_load_n(p, mo)      CA_LOAD(p, mo)
#define __atomic_load_4(p, mo)      CA_LOAD(p, mo)
#define __atomic_thread_fence(mo)   CA_FENCE(mo)
#define __sync_synchronize()        CA_FENCE(__ATOMIC_SEQ_CST)
#define __sync_bool_compare_and_swap(p, o, n) __extension__({ CA_VAL_T(p) ca_exp_ = (CA_VAL_T(p)) (o); \
  CA_CAS(p, &ca_exp_, n, __ATOMIC_SEQ_CST, __ATOMIC_SEQ_CST); })
#define CA_XCHG(p, v, mo) __extension__({ \
  __typeof__(p) ca_p_ = (p); CA_VAL_T(ca_p_) ca_o_, ca_v_ = (CA_VAL_T(ca_p_)) (v); int ca_mo_ = (mo); \
  CA_CHECK_WORD(ca_p_); CA_FULL_FENCE(); __CPROVER_atomic_begin(); ca_o_ = *ca_p_; *ca_p_ = ca_v_; CA_HB_RMW(ca_p_, ca_mo_); CA_RMW_REC(1, ca_o_, ca_v_); \
  __CPROVER_atomic_end(); CA_FULL_FENCE(); ca_o_; })
#define __atomic_exchange_n(p, v, mo)  CA_XCHG(p, v, mo)
#define __atomic_exchange_4(p, v, mo)  CA_XCHG(p, v, mo)
#define __sync_lock_test_and_set(p, v) CA_XCHG(p, v, __ATOMIC_ACQUIRE)
#define __sync_lock_release(p)      CA_STORE(p, 0, __ATOMIC_RELEASE)
#else
#define CA_HB_ACCESS(prior, ev) (1)
#endif
#endif
