/* bounded memcpy/memset for the units that include models/redir_ipc_mem.h */
#include "verif.h"
#include <stddef.h>
#ifndef VM_MEMMAX
#define VM_MEMMAX 64
#endif
void vm_mem_access(const void *p, size_t n, int is_write);
void *vm_memcpy(void *dst, const void *src, size_t n) {
  vm_mem_access(src, n, 0);
  vm_mem_access(dst, n, 1);
  VASSERT(n <= VM_MEMMAX, "memcpy length within the bound of the model (larger = outside every object here)");
  VASSUME(n <= VM_MEMMAX);
  unsigned char *d = (unsigned char *) dst; const unsigned char *s = (const unsigned char *) src;
  for (size_t i = 0; i < VM_MEMMAX; i++) { if (i >= n) break; d[i] = s[i]; }
  return dst;
}
void *vm_memset(void *dst, int c, size_t n) {
  vm_mem_access(dst, n, 1);
  VASSERT(n <= VM_MEMMAX, "memset length within the bound of the model (larger = outside every object here)");
  VASSUME(n <= VM_MEMMAX);
  unsigned char *d = (unsigned char *) dst;
  for (size_t i = 0; i < VM_MEMMAX; i++) { if (i >= n) break; d[i] = (unsigned char) c; }
  return dst;
}
