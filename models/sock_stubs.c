/* Stubs used only by the socket queries.
 * p_strdup: psocket.c reaches it only through p_error_new_literal (copy of a constant error message).
 * The copy still goes through p_malloc (so it counts for the allocation ledger and can be made to
 * fail), but strlen/memcpy over the message text - not the subject of any socket property - is cut. */
#include <pmem.h>
#include <ptypes.h>
pchar *p_strdup(const pchar *str) {
  pchar *ret;
  if (str == NULL) return NULL;
  if ((ret = p_malloc(8)) == NULL) return NULL;
  ret[0] = str[0]; ret[1] = 0;
  return ret;
}

/* memset: p_malloc0 clears a freshly allocated block (offset 0, whole object) - one array assignment
 * instead of CBMC's byte loop; every other use (e.g. sin_zero inside a sockaddr) keeps the byte loop. */
#include <stddef.h>
void *memset(void *s, int c, size_t n) {
#ifndef VERIF_NATIVE
  if (__CPROVER_POINTER_OFFSET(s) == 0 && __CPROVER_OBJECT_SIZE(s) == n) {
    __CPROVER_array_set((unsigned char *) s, (unsigned char) c);
    return s;
  }
#endif
  for (size_t i = 0; i < n; i++) ((unsigned char *) s)[i] = (unsigned char) c;
  return s;
}
