/* Force-included in the System V units (psemaphore-sysv.c, pipc.c, psysclose-unix.c): system headers first, then
 * every call of the System V semaphore interface and of the key-file handling is redirected to the kernel model
 * (models/kernel_ipc.c built with -DVK_SYSV).  semctl and open are variadic: the macros turn the optional argument
 * into an ordinary one (the `val` member of the caller's semun union, read through a compound literal). */
#ifndef VM_REDIR_IPC_SYSV_H
#define VM_REDIR_IPC_SYSV_H
#include <sys/types.h>
#include <sys/ipc.h>
#include <sys/sem.h>
#include <sys/shm.h>
#include <sys/stat.h>
#include <fcntl.h>
#include <unistd.h>
#include <errno.h>
#include <string.h>
#include <stdlib.h>
#ifndef VK_SYSV
#define VK_SYSV 1
#endif
#include "kernel_ipc.h"
#define VM_INTOF(x)   (((union { __typeof__(x) vm_a; int vm_v; }) { .vm_a = (x) }).vm_v)
#define VM_SEMCTL(id, n, cmd, arg, ...) vm_semctl4(id, n, cmd, VM_INTOF(arg))
#define semctl(id, n, ...) VM_SEMCTL(id, n, __VA_ARGS__, 0, 0)
#define semget        vm_semget
#define semop         vm_semop
#define ftok          vm_ftok
#define open(p, ...)  vm_open_x(p, __VA_ARGS__, 0)
#define stat(p, b)    vm_stat(p, b)
#define unlink        vm_unlink
#define close         vm_close
#endif
