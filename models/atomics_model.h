/* atomics_model.h -- explicit models of the GCC __atomic_* / __sync_* builtins for CBMC 6.11.
 * Owner: C04 (agent atomaddr).  Shared with C01-C03/C05.  INTERFACE IS FROZEN (additions only).
 *
 * WHY: CBMC's own builtin models are unusable on plibsys: __atomic_load_4/__atomic_store_4/_8 are unknown to
 * the front end (silently havoc), __atomic_compare_exchange_n aborts "pointer handling for concurrency is
 * unsound".  This header replaces every builtin by a macro (type-generic through __typeof__) that performs
 * the C operation on the word inside ONE indivisible section (__CPROVER_atomic_begin/end).
 *
 * HOW TO USE
 *   repo units   : vf.Q(..., includes=["models/atomics_model.h"])          (force-included, -include)
 *   harness TU   : #define VMA_IMPL            (exactly ONE TU of the link defines the ghost state)
 *                  #include "atomics_model.h"
 *   Header-only: there is no .c file.  All -D switches below must be given through Q(defs=[...]) so that
 *   units, models and harness see the same configuration.  Without any switch the header has NO ghost state:
 *   an atomic op is just { atomic_begin; C operation; [full fence]; atomic_end }.
 *   Works unchanged in sequential harnesses (atomic_begin/end are no-ops there) and with CBMC threads
 *   (__CPROVER_ASYNC_n; use Q(threads=True)).  With -DVERIF_NATIVE (gcc replay) the header redirects nothing.
 *
 * SEMANTICS OF ONE OPERATION  (p = pointer to the word, any integer/pointer type of 4 or 8 bytes)
 *   load            r = *p
 *   store           *p = v
 *   exchange        r = *p; *p = v
 *   fetch_OP        r = *p; *p = r OP v         OP in add sub and or xor nand, WRAPPING (computed on unsigned long long,
 *                                                truncated to the word type: never a signed-overflow report)
 *   OP_fetch        same, returns the new value
 *   compare_exchange_n(p, e, d, weak, smo, fmo): if (*p == *e) { *p = d; TRUE } else { *e = *p; FALSE }
 *                   (strong; `weak` is ignored = never fails spuriously.  The failure write-back to *e is real.)
 *   __sync_*        the corresponding __atomic_* with __ATOMIC_SEQ_CST; __sync_lock_release = store 0 (release).
 *   fences          __atomic_thread_fence(mo), __sync_synchronize() (= seq_cst fence), __atomic_signal_fence = nothing.
 *   Weak memory (cbmc --mm tso|pso): the x86-64 mapping is modelled -- every RMW, every SEQ_CST store and every
 *   SEQ_CST / __sync_synchronize fence carries a full __CPROVER_fence; loads and weaker stores are plain accesses.
 *   The fence is emitted OUTSIDE the indivisible section (after a SEQ_CST store; before and after an RMW): measured, CBMC's
 *   tso encoding ignores a fence placed inside the same atomic section as the store.  Under --mm sc the fence is a no-op.
 *
 * SWITCHES (all optional)
 *   -DVMA_REQUIRE_SEQ_CST   every __atomic_* call asserts "P atomics: memory order is __ATOMIC_SEQ_CST" (C04; not for spinlocks).
 *   -DVMA_COUNT             counters vma_calls (all ops), vma_rmw_calls, vma_weakest (minimum order value seen, starts 5).
 *                           Shared writes: meant for sequential harnesses.
 *   -DVMA_PRE_HOOK=fn       `void fn(const volatile void *word)` is called BEFORE every operation, outside the indivisible
 *                           section: preemption point for sequential interference / nested-atomic emulations (C04 interference
 *                           harness, C05).  Fences call it with word == NULL.  Default: nothing.
 *   -DVMA_POST_HOOK=fn      same, AFTER every operation.
 *   -DVMA_HB                ghost happens-before tracker (C11 release/acquire synchronisation), see below.
 *   -DVMA_NO_ATOMIC_SECTION sequential harnesses only: do not emit __CPROVER_atomic_begin/end (saves nothing semantically).
 *
 * GHOST HAPPENS-BEFORE TRACKER (-DVMA_HB; integer-only state, no symbolic indexing when vma_tid is a literal)
 *   Events of interest (plain accesses to non-atomic data) are numbered 0..31 by the harness.  vma_seen[t] is the set
 *   (bit mask) of events that happen-before the current point of thread t.  Each tracked atomic word w has vma_L[w] = the
 *   set published by the head of the release sequence currently stored in w.
 *     store  mo>=release : L = seen[t]            store relaxed : L = relfence[t]     (a store breaks older sequences)
 *     RMW    mo>=release : L |= seen[t]           RMW  relaxed  : L |= relfence[t]    (RMWs continue a release sequence)
 *     load/RMW mo>=acquire (incl. consume): seen[t] |= L        relaxed: acqpend[t] |= L
 *     fence release: relfence[t] = seen[t];  fence acquire: seen[t] |= acqpend[t];  acq_rel/seq_cst: both.
 *     failed compare_exchange = load with the failure order.
 *   Harness API:
 *     VMA_HB_THREAD(t)          first statement of thread t (t literal, 0 <= t < 4); sets vma_tid.
 *     vma_hb_track(p)           BEFORE the first spawn: register atomic word p (at most 4).  Operations on
 *                               unregistered words synchronise NOTHING (can cause false race alarms, never hides a race).
 *     VMA_HB_FORK(child)        in the parent right before spawning thread `child`: seen[child] = seen[me].
 *     VMA_HB_JOIN(child)        in the parent after it has observed the end of `child`: seen[me] |= seen[child].
 *     VMA_HB_ACCESS(prior, ev)  the current thread performs plain-access event number `ev`; `prior` = bit mask of the event
 *                               numbers of all CONFLICTING earlier-or-concurrent accesses to the same datum.  Evaluates to 1 iff
 *                               every conflicting access that has already been performed happens-before this one (race-free),
 *                               and records the event as performed.  Use: VASSERT(VMA_HB_ACCESS(1u<<0, 1), "MP: read of data race-free").
 *                               Call it inside the same __CPROVER_atomic section as the plain access itself.
 *     vma_done                  bit mask of events performed so far.
 *
 * TRUSTED: that the macros implement the GCC builtin semantics; that hardware RMWs are indivisible; x86-TSO mapping above.
 */
#ifndef VERIF_ATOMICS_MODEL_H
#define VERIF_ATOMICS_MODEL_H
#ifndef VERIF_NATIVE

#ifndef __ATOMIC_RELAXED
#define __ATOMIC_RELAXED 0
#define __ATOMIC_CONSUME 1
#define __ATOMIC_ACQUIRE 2
#define __ATOMIC_RELEASE 3
#define __ATOMIC_ACQ_REL 4
#define __ATOMIC_SEQ_CST 5
#endif

void __CPROVER_atomic_begin(void);
void __CPROVER_atomic_end(void);
void __CPROVER_fence(const char *kind, ...);

#ifdef VMA_NO_ATOMIC_SECTION
#define VMA_BEGIN() ((void) 0)
#define VMA_END()   ((void) 0)
#else
#define VMA_BEGIN() __CPROVER_atomic_begin()
#define VMA_END()   __CPROVER_atomic_end()
#endif
#define VMA_FULL_FENCE() __CPROVER_fence("WWfence", "RRfence", "RWfence", "WRfence", "WWcumul", "RRcumul", "RWcumul", "WRcumul")

#define VMA_IS_ACQ(mo) ((mo) == __ATOMIC_CONSUME || (mo) == __ATOMIC_ACQUIRE || (mo) == __ATOMIC_ACQ_REL || (mo) == __ATOMIC_SEQ_CST)
#define VMA_IS_REL(mo) ((mo) == __ATOMIC_RELEASE || (mo) == __ATOMIC_ACQ_REL || (mo) == __ATOMIC_SEQ_CST)

/* ---------------------------------------------------------------- optional hooks / counters */
#ifdef VMA_PRE_HOOK
void VMA_PRE_HOOK(const volatile void *word);
#define VMA_PRE(p) VMA_PRE_HOOK((const volatile void *) (p))
#else
#define VMA_PRE(p) ((void) 0)
#endif
#ifdef VMA_POST_HOOK
void VMA_POST_HOOK(const volatile void *word);
#define VMA_POST(p) VMA_POST_HOOK((const volatile void *) (p))
#else
#define VMA_POST(p) ((void) 0)
#endif

#ifdef VMA_REQUIRE_SEQ_CST
#define VMA_CHECK_MO(mo) __CPROVER_assert((mo) == __ATOMIC_SEQ_CST, "P atomics: memory order is __ATOMIC_SEQ_CST")
#else
#define VMA_CHECK_MO(mo) ((void) 0)
#endif

#ifdef VMA_COUNT
extern int vma_calls, vma_rmw_calls, vma_weakest;
#ifdef VMA_IMPL
int vma_calls, vma_rmw_calls, vma_weakest = __ATOMIC_SEQ_CST;
#endif
#define VMA_CNT(mo, rmw) (vma_calls++, vma_rmw_calls += (rmw), vma_weakest = ((int) (mo) < vma_weakest ? (int) (mo) : vma_weakest))
#else
#define VMA_CNT(mo, rmw) ((void) 0)
#endif

/* ---------------------------------------------------------------- ghost happens-before tracker */
#ifdef VMA_HB
/* Implementation notes (measured by agent conc): CBMC emits read events for EVERY element of a shared array when one element is
 * written, so all ghost state is individual scalars selected by `switch` on the (literal) thread id / word slot; the word lookup
 * (pointer compares) is done BEFORE the indivisible section (a pointer-typed shared read inside a section was seen to return a stale
 * value). */
#define VMA_NT 4
#define VMA_NLOC 4
extern __CPROVER_thread_local int vma_tid;
extern unsigned vma_seen0, vma_seen1, vma_seen2, vma_seen3;     /* events that happen-before the current point of thread t */
extern unsigned vma_relf0, vma_relf1, vma_relf2, vma_relf3;     /* snapshot at the last release fence */
extern unsigned vma_acqp0, vma_acqp1, vma_acqp2, vma_acqp3;     /* sets read by relaxed loads, pending an acquire fence */
extern unsigned vma_L0, vma_L1, vma_L2, vma_L3, vma_done;       /* per tracked word: set published by its release sequence */
extern const volatile void *vma_loc0, *vma_loc1, *vma_loc2, *vma_loc3;
extern int vma_nloc;
#ifdef VMA_IMPL
__CPROVER_thread_local int vma_tid;
unsigned vma_seen0, vma_seen1, vma_seen2, vma_seen3, vma_relf0, vma_relf1, vma_relf2, vma_relf3, vma_acqp0, vma_acqp1, vma_acqp2, vma_acqp3;
unsigned vma_L0, vma_L1, vma_L2, vma_L3, vma_done;
const volatile void *vma_loc0, *vma_loc1, *vma_loc2, *vma_loc3;
int vma_nloc;
#endif
#define VMA_GET4(name, i)    ((i) == 0 ? name##0 : (i) == 1 ? name##1 : (i) == 2 ? name##2 : name##3)
#define VMA_SET4(name, i, v) do { unsigned vma_sv_ = (v); switch (i) { case 0: name##0 = vma_sv_; break; case 1: name##1 = vma_sv_; break; \
                                  case 2: name##2 = vma_sv_; break; default: name##3 = vma_sv_; break; } } while (0)
static inline void vma_hb_track(const volatile void *p) {
  __CPROVER_assert(vma_nloc < VMA_NLOC, "P atomics model: too many tracked words (max 4)");
  switch (vma_nloc) { case 0: vma_loc0 = p; break; case 1: vma_loc1 = p; break; case 2: vma_loc2 = p; break; default: vma_loc3 = p; break; }
  vma_nloc++;
}
static inline int vma_hb_lookup(const volatile void *p) {
  if (p == 0) return -1;
  if (vma_loc0 == p) return 0;
  if (vma_loc1 == p) return 1;
  if (vma_loc2 == p) return 2;
  if (vma_loc3 == p) return 3;
  return -1;
}
/* w: slot of the word (-1 = untracked); kind: 0 load, 1 store, 2 RMW */
static inline void vma_hb_op(int w, int kind, int mo) {
  if (w < 0) return;
  int t = vma_tid;
  if (kind != 1) { /* reads */
    unsigned l = VMA_GET4(vma_L, w);
    if (VMA_IS_ACQ(mo)) VMA_SET4(vma_seen, t, VMA_GET4(vma_seen, t) | l); else VMA_SET4(vma_acqp, t, VMA_GET4(vma_acqp, t) | l);
  }
  if (kind != 0) { /* writes */
    unsigned pub = VMA_IS_REL(mo) ? VMA_GET4(vma_seen, t) : VMA_GET4(vma_relf, t);
    if (kind == 1) VMA_SET4(vma_L, w, pub); else VMA_SET4(vma_L, w, VMA_GET4(vma_L, w) | pub);
  }
}
static inline void vma_hb_fence(int mo) {
  int t = vma_tid;
  if (VMA_IS_ACQ(mo)) VMA_SET4(vma_seen, t, VMA_GET4(vma_seen, t) | VMA_GET4(vma_acqp, t));
  if (VMA_IS_REL(mo)) VMA_SET4(vma_relf, t, VMA_GET4(vma_seen, t));
}
static inline int vma_hb_access(unsigned prior, int ev) {
  int t = vma_tid;
  unsigned seen = VMA_GET4(vma_seen, t);
  int ok = ((prior & vma_done & ~seen) == 0);
  vma_done |= 1u << ev;
  VMA_SET4(vma_seen, t, seen | (1u << ev));
  return ok;
}
#define VMA_HB_THREAD(t)         (vma_tid = (t))
#define VMA_HB_FORK(child)       VMA_SET4(vma_seen, (child), VMA_GET4(vma_seen, vma_tid))
#define VMA_HB_JOIN(child)       VMA_SET4(vma_seen, vma_tid, VMA_GET4(vma_seen, vma_tid) | VMA_GET4(vma_seen, (child)))
#define VMA_HB_ACCESS(prior, ev) vma_hb_access((prior), (ev))
#define VMA_HB_LOOKUP(p)         vma_hb_lookup((const volatile void *) (p))   /* call OUTSIDE the indivisible section */
#define VMA_HB_OP(w, kind, mo)   vma_hb_op((w), (kind), (mo))
#define VMA_HB_FENCE(mo)         vma_hb_fence((mo))
#else
#define VMA_HB_THREAD(t)         ((void) 0)
#define VMA_HB_FORK(child)       ((void) 0)
#define VMA_HB_JOIN(child)       ((void) 0)
#define VMA_HB_ACCESS(prior, ev) (1)
#define VMA_HB_LOOKUP(p)         (-1)
#define VMA_HB_OP(w, kind, mo)   ((void) 0)
#define VMA_HB_FENCE(mo)         ((void) 0)
#endif

/* ---------------------------------------------------------------- the operations */
#define VMA_VAL_T(p) __typeof__((*(p)) + 0)            /* unqualified value type of the word */
#define VMA_U(x)     ((unsigned long long) (x))

#define VMA_LOAD(p, mo) __extension__({ \
  __typeof__(p) vma_p_ = (p); VMA_VAL_T(vma_p_) vma_r_; int vma_mo_ = (mo); \
  VMA_CHECK_MO(vma_mo_); VMA_PRE(vma_p_); int vma_w_ = VMA_HB_LOOKUP(vma_p_); (void) vma_w_; \
  VMA_BEGIN(); VMA_CNT(vma_mo_, 0); vma_r_ = *vma_p_; VMA_HB_OP(vma_w_, 0, vma_mo_); VMA_END(); \
  VMA_POST(vma_p_); vma_r_; })

#define VMA_STORE(p, v, mo) __extension__({ \
  __typeof__(p) vma_p_ = (p); VMA_VAL_T(vma_p_) vma_v_ = (VMA_VAL_T(vma_p_)) (v); int vma_mo_ = (mo); \
  VMA_CHECK_MO(vma_mo_); VMA_PRE(vma_p_); int vma_w_ = VMA_HB_LOOKUP(vma_p_); (void) vma_w_; \
  VMA_BEGIN(); VMA_CNT(vma_mo_, 0); *vma_p_ = vma_v_; VMA_HB_OP(vma_w_, 1, vma_mo_); VMA_END(); \
  if (vma_mo_ == __ATOMIC_SEQ_CST) VMA_FULL_FENCE(); \
  VMA_POST(vma_p_); (void) 0; })

/* generic RMW: NEW is an expression over vma_o_ (old value) and vma_v_ (operand); RET selects old/new */
#define VMA_RMW(p, v, mo, NEW, RET) __extension__({ \
  __typeof__(p) vma_p_ = (p); VMA_VAL_T(vma_p_) vma_o_, vma_n_, vma_v_ = (VMA_VAL_T(vma_p_)) (v); int vma_mo_ = (mo); \
  VMA_CHECK_MO(vma_mo_); VMA_PRE(vma_p_); int vma_w_ = VMA_HB_LOOKUP(vma_p_); (void) vma_w_; VMA_FULL_FENCE(); \
  VMA_BEGIN(); VMA_CNT(vma_mo_, 1); vma_o_ = *vma_p_; vma_n_ = (VMA_VAL_T(vma_p_)) (NEW); *vma_p_ = vma_n_; \
  VMA_HB_OP(vma_w_, 2, vma_mo_); VMA_END(); VMA_FULL_FENCE(); \
  VMA_POST(vma_p_); RET; })

#define VMA_CAS(p, e, d, smo, fmo) __extension__({ \
  __typeof__(p) vma_p_ = (p); __typeof__(e) vma_e_ = (e); VMA_VAL_T(vma_p_) vma_o_, vma_d_ = (VMA_VAL_T(vma_p_)) (d); \
  int vma_smo_ = (smo), vma_fmo_ = (fmo); _Bool vma_ok_; \
  VMA_CHECK_MO(vma_smo_); VMA_CHECK_MO(vma_fmo_); VMA_PRE(vma_p_); int vma_w_ = VMA_HB_LOOKUP(vma_p_); (void) vma_w_; VMA_FULL_FENCE(); \
  VMA_BEGIN(); VMA_CNT(vma_smo_ < vma_fmo_ ? vma_smo_ : vma_fmo_, 1); vma_o_ = *vma_p_; vma_ok_ = (vma_o_ == *vma_e_); \
  if (vma_ok_) { *vma_p_ = vma_d_; VMA_HB_OP(vma_w_, 2, vma_smo_); } else { *vma_e_ = vma_o_; VMA_HB_OP(vma_w_, 0, vma_fmo_); } \
  VMA_END(); VMA_FULL_FENCE(); \
  VMA_POST(vma_p_); vma_ok_; })

#define VMA_FENCE(mo) __extension__({ int vma_mo_ = (mo); VMA_PRE(0); \
  VMA_BEGIN(); VMA_HB_FENCE(vma_mo_); VMA_END(); if (vma_mo_ == __ATOMIC_SEQ_CST) VMA_FULL_FENCE(); VMA_POST(0); (void) 0; })

/* ---- __atomic_* */
#define __atomic_load_n(p, mo)          VMA_LOAD(p, mo)
#define __atomic_load_1(p, mo)          VMA_LOAD(p, mo)
#define __atomic_load_2(p, mo)          VMA_LOAD(p, mo)
#define __atomic_load_4(p, mo)          VMA_LOAD(p, mo)
#define __atomic_load_8(p, mo)          VMA_LOAD(p, mo)
#define __atomic_store_n(p, v, mo)      VMA_STORE(p, v, mo)
#define __atomic_store_1(p, v, mo)      VMA_STORE(p, v, mo)
#define __atomic_store_2(p, v, mo)      VMA_STORE(p, v, mo)
#define __atomic_store_4(p, v, mo)      VMA_STORE(p, v, mo)
#define __atomic_store_8(p, v, mo)      VMA_STORE(p, v, mo)
#define __atomic_exchange_n(p, v, mo)   VMA_RMW(p, v, mo, vma_v_, vma_o_)
#define __atomic_exchange_4(p, v, mo)   VMA_RMW(p, v, mo, vma_v_, vma_o_)
#define __atomic_exchange_8(p, v, mo)   VMA_RMW(p, v, mo, vma_v_, vma_o_)
#define __atomic_fetch_add(p, v, mo)    VMA_RMW(p, v, mo, VMA_U(vma_o_) + VMA_U(vma_v_), vma_o_)
#define __atomic_fetch_sub(p, v, mo)    VMA_RMW(p, v, mo, VMA_U(vma_o_) - VMA_U(vma_v_), vma_o_)
#define __atomic_fetch_and(p, v, mo)    VMA_RMW(p, v, mo, VMA_U(vma_o_) & VMA_U(vma_v_), vma_o_)
#define __atomic_fetch_or(p, v, mo)     VMA_RMW(p, v, mo, VMA_U(vma_o_) | VMA_U(vma_v_), vma_o_)
#define __atomic_fetch_xor(p, v, mo)    VMA_RMW(p, v, mo, VMA_U(vma_o_) ^ VMA_U(vma_v_), vma_o_)
#define __atomic_fetch_nand(p, v, mo)   VMA_RMW(p, v, mo, ~(VMA_U(vma_o_) & VMA_U(vma_v_)), vma_o_)
#define __atomic_add_fetch(p, v, mo)    VMA_RMW(p, v, mo, VMA_U(vma_o_) + VMA_U(vma_v_), vma_n_)
#define __atomic_sub_fetch(p, v, mo)    VMA_RMW(p, v, mo, VMA_U(vma_o_) - VMA_U(vma_v_), vma_n_)
#define __atomic_and_fetch(p, v, mo)    VMA_RMW(p, v, mo, VMA_U(vma_o_) & VMA_U(vma_v_), vma_n_)
#define __atomic_or_fetch(p, v, mo)     VMA_RMW(p, v, mo, VMA_U(vma_o_) | VMA_U(vma_v_), vma_n_)
#define __atomic_xor_fetch(p, v, mo)    VMA_RMW(p, v, mo, VMA_U(vma_o_) ^ VMA_U(vma_v_), vma_n_)
#define __atomic_nand_fetch(p, v, mo)   VMA_RMW(p, v, mo, ~(VMA_U(vma_o_) & VMA_U(vma_v_)), vma_n_)
#define __atomic_compare_exchange_n(p, e, d, weak, smo, fmo) VMA_CAS(p, e, d, smo, fmo)
#define __atomic_compare_exchange_4(p, e, d, weak, smo, fmo) VMA_CAS(p, e, d, smo, fmo)
#define __atomic_compare_exchange_8(p, e, d, weak, smo, fmo) VMA_CAS(p, e, d, smo, fmo)
#define __atomic_test_and_set(p, mo)    ((_Bool) VMA_RMW((volatile unsigned char *) (p), 1, mo, vma_v_, vma_o_))
#define __atomic_clear(p, mo)           VMA_STORE((volatile unsigned char *) (p), 0, mo)
#define __atomic_thread_fence(mo)       VMA_FENCE(mo)
#define __atomic_signal_fence(mo)       ((void) (mo))
#define __atomic_always_lock_free(s, p) (1)
#define __atomic_is_lock_free(s, p)     (1)

/* ---- __sync_* (full barrier builtins) */
#define __sync_synchronize()                 VMA_FENCE(__ATOMIC_SEQ_CST)
#define __sync_fetch_and_add(p, v)           VMA_RMW(p, v, __ATOMIC_SEQ_CST, VMA_U(vma_o_) + VMA_U(vma_v_), vma_o_)
#define __sync_fetch_and_sub(p, v)           VMA_RMW(p, v, __ATOMIC_SEQ_CST, VMA_U(vma_o_) - VMA_U(vma_v_), vma_o_)
#define __sync_fetch_and_and(p, v)           VMA_RMW(p, v, __ATOMIC_SEQ_CST, VMA_U(vma_o_) & VMA_U(vma_v_), vma_o_)
#define __sync_fetch_and_or(p, v)            VMA_RMW(p, v, __ATOMIC_SEQ_CST, VMA_U(vma_o_) | VMA_U(vma_v_), vma_o_)
#define __sync_fetch_and_xor(p, v)           VMA_RMW(p, v, __ATOMIC_SEQ_CST, VMA_U(vma_o_) ^ VMA_U(vma_v_), vma_o_)
#define __sync_fetch_and_nand(p, v)          VMA_RMW(p, v, __ATOMIC_SEQ_CST, ~(VMA_U(vma_o_) & VMA_U(vma_v_)), vma_o_)
#define __sync_add_and_fetch(p, v)           VMA_RMW(p, v, __ATOMIC_SEQ_CST, VMA_U(vma_o_) + VMA_U(vma_v_), vma_n_)
#define __sync_sub_and_fetch(p, v)           VMA_RMW(p, v, __ATOMIC_SEQ_CST, VMA_U(vma_o_) - VMA_U(vma_v_), vma_n_)
#define __sync_and_and_fetch(p, v)           VMA_RMW(p, v, __ATOMIC_SEQ_CST, VMA_U(vma_o_) & VMA_U(vma_v_), vma_n_)
#define __sync_or_and_fetch(p, v)            VMA_RMW(p, v, __ATOMIC_SEQ_CST, VMA_U(vma_o_) | VMA_U(vma_v_), vma_n_)
#define __sync_xor_and_fetch(p, v)           VMA_RMW(p, v, __ATOMIC_SEQ_CST, VMA_U(vma_o_) ^ VMA_U(vma_v_), vma_n_)
#define __sync_nand_and_fetch(p, v)          VMA_RMW(p, v, __ATOMIC_SEQ_CST, ~(VMA_U(vma_o_) & VMA_U(vma_v_)), vma_n_)
#define __sync_bool_compare_and_swap(p, o, n) __extension__({ VMA_VAL_T(p) vma_exp_ = (VMA_VAL_T(p)) (o); \
  VMA_CAS(p, &vma_exp_, n, __ATOMIC_SEQ_CST, __ATOMIC_SEQ_CST); })
#define __sync_val_compare_and_swap(p, o, n) __extension__({ VMA_VAL_T(p) vma_exp_ = (VMA_VAL_T(p)) (o); \
  (void) VMA_CAS(p, &vma_exp_, n, __ATOMIC_SEQ_CST, __ATOMIC_SEQ_CST); vma_exp_; })
#define __sync_lock_test_and_set(p, v)       VMA_RMW(p, v, __ATOMIC_ACQUIRE, vma_v_, vma_o_)
#define __sync_lock_release(p)               VMA_STORE(p, 0, __ATOMIC_RELEASE)

#else  /* VERIF_NATIVE: real builtins; ghost API compiles to nothing */
#define VMA_HB_THREAD(t)         ((void) 0)
#define VMA_HB_FORK(child)       ((void) 0)
#define VMA_HB_JOIN(child)       ((void) 0)
#define VMA_HB_ACCESS(prior, ev) (1)
#define vma_hb_track(p)          ((void) 0)
#endif
#endif
