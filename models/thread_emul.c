/* Sequential nested-atomic emulation of POSIX threads; see thread_emul.h for the contract. */
#include "thread_emul.h"
#include <unistd.h>

int te_cur, te_depth, te_next_slot, te_runs, te_preemptions, te_no_preempt;
int te_state[TE_NT + 1] = { TE_RUNNING };
int te_detached[TE_NT + 1], te_joined[TE_NT + 1], te_did_exit[TE_NT + 1];
static int te_exiting[TE_NT + 1];          /* pthread_exit called, start routine not yet unwound */
static void *(*te_start[TE_NT + 1])(void *);
static void *te_arg[TE_NT + 1];
static void *te_retval[TE_NT + 1];
int te_keys_live, te_keys_created, te_keys_deleted, te_threads_unreaped, te_attr_live;
int te_mutex_live, te_cond_live, te_rwlock_live;
int te_faults_left, te_faults_taken, te_fault_at, te_fallible_calls;
int te_create_errno_choice = -1;           /* failing pthread_create: -1 symbolic, 0 EAGAIN, 1 EPERM */

static _Bool te_key_used[TE_NK];
static void (*te_key_dtor[TE_NK])(void *);
static void *te_tls[TE_NT + 1][TE_NK];

static int te_attr_detach;                 /* detach state of the (single) live attribute object */

#ifdef TE_START_ROUTINE
void *TE_START_ROUTINE(void *);
#endif
#ifdef TE_DTOR_A
void TE_DTOR_A(void *);
#endif
#ifdef TE_DTOR_B
void TE_DTOR_B(void *);
#endif

/* fallible pthread call: fails when its (1-based) index among the fallible calls equals te_fault_at (concrete
 * choice of the runner), or by a symbolic choice while the budget te_faults_left lasts */
static int te_fault(void) {
  te_fallible_calls++;
  if (te_fault_at != 0 && te_fallible_calls == te_fault_at) { te_faults_taken++; return 1; }
  if (te_faults_left > 0 && ND_BOOL()) { te_faults_left--; te_faults_taken++; return 1; }
  return 0;
}

static void te_thread_end(int t) {
  te_exiting[t] = 0;
  te_state[t] = TE_ENDING;
#ifdef TE_HOOKS
  te_hook_thread_ending(t);
#endif
  for (int r = 0; r < TE_DTOR_ROUNDS; r++)
    for (int k = 0; k < TE_NK; k++)
      if (te_key_used[k] && te_key_dtor[k] != NULL && te_tls[t][k] != NULL) {
        void *v = te_tls[t][k];
        te_tls[t][k] = NULL;
#ifdef TE_DTOR_A
        /* explicit dispatch over the destructors the harness declares (keeps CBMC's function-pointer removal
         * from trying every address-taken one-argument function); anything else is reported */
        if (te_key_dtor[k] == TE_DTOR_A) TE_DTOR_A(v);
#ifdef TE_DTOR_B
        else if (te_key_dtor[k] == TE_DTOR_B) TE_DTOR_B(v);
#endif
        else VASSERT(0, "model: destructor is one of the declared TE_DTOR_A / TE_DTOR_B");
#else
        te_key_dtor[k](v);
#endif
      }
  for (int k = 0; k < TE_NK; k++)
    VASSERT(!(te_key_used[k] && te_key_dtor[k] != NULL && te_tls[t][k] != NULL),
            "model bound: TE_DTOR_ROUNDS destructor rounds are enough");
  te_state[t] = TE_FINISHED;
  if (te_detached[t]) te_threads_unreaped--;
#ifdef TE_HOOKS
  te_hook_thread_finished(t);
#endif
}

static void te_run(int t) {
  int saved_cur = te_cur, saved_depth = te_depth;
  te_cur = t;
  te_depth = saved_depth + 1;
  te_state[t] = TE_RUNNING;
  te_runs++;
#ifdef TE_START_ROUTINE
  VASSERT(te_start[t] == TE_START_ROUTINE, "model: every thread is started through the library's proxy routine");
  te_retval[t] = TE_START_ROUTINE(te_arg[t]);
#else
  te_retval[t] = te_start[t](te_arg[t]);
#endif
  te_thread_end(t);
  te_cur = saved_cur;
  te_depth = saved_depth;
}

/* model entry without preemption choice (calls whose effect is private to the calling thread) */
static void te_entry(void) {
  VASSERT(!te_exiting[te_cur], "no code of a thread runs between its pthread_exit and its end");
}

void te_preempt(void) {
  te_entry();
  if (te_no_preempt || te_depth >= TE_DEPTH) return;
  for (int t = 1; t <= TE_NT; t++)
    if (te_state[t] == TE_PENDING && ND_BOOL()) { te_preemptions++; te_run(t); }
}

void te_run_pending(void) {
  for (int t = 1; t <= TE_NT; t++)
    if (te_state[t] == TE_PENDING) te_run(t);
}

/* ---------------------------------------------------------------- threads */
int te_pthread_create(pthread_t *thr, const pthread_attr_t *attr, void *(*start)(void *), void *arg) {
  int t = 0;
  te_preempt();
  VASSERT(attr == NULL || te_attr_live > 0, "pthread_create with an initialised attribute object");
  if (te_fault()) return (te_create_errno_choice < 0 ? ND_BOOL() : te_create_errno_choice) ? EPERM : EAGAIN;
  if (te_next_slot != 0) { t = te_next_slot; te_next_slot = 0; }
  else for (int i = TE_NT; i >= 1; i--) if (te_state[i] == TE_UNUSED) t = i;
  VASSUME(t >= 1 && t <= TE_NT && te_state[t] == TE_UNUSED);   /* bound: at most TE_NT threads */
  te_start[t] = start;
  te_arg[t] = arg;
  te_detached[t] = (attr != NULL && te_attr_detach == PTHREAD_CREATE_DETACHED);
  te_state[t] = TE_PENDING;
  te_threads_unreaped++;
  *thr = TE_TID(t);
  te_preempt();            /* the new thread may run (even finish) before pthread_create returns */
  return 0;
}

static int te_slot_of(pthread_t thr) {
  int t = (int) (thr - TE_TID(0));
  VASSERT(thr >= TE_TID(0) && t <= TE_NT && te_state[t] != TE_UNUSED, "pthread call on a valid thread id");
  return t;
}

int te_pthread_join(pthread_t thr, void **ret) {
  te_preempt();
  int t = te_slot_of(thr);
  VASSERT(t != 0 && !te_joined[t], "pthread_join only on a created, not yet joined thread");
  if (te_detached[t]) return EINVAL;            /* not a joinable thread: fails at once, waits for nothing */
  if (te_state[t] == TE_PENDING) te_run(t);     /* the joiner blocks: the target runs now */
  VASSUME(te_state[t] == TE_FINISHED);          /* target suspended below us: would block forever in this emulation */
  te_joined[t] = 1;
  te_threads_unreaped--;
  if (ret != NULL) *ret = te_retval[t];
  return 0;
}

int te_pthread_detach(pthread_t thr) {
  te_preempt();
  int t = te_slot_of(thr);
  VASSERT(t != 0 && !te_detached[t] && !te_joined[t], "pthread_detach only on a joinable, not yet joined thread");
  te_detached[t] = 1;
  if (te_state[t] == TE_FINISHED) te_threads_unreaped--;
  return 0;
}

void te_pthread_exit(void *ret) {
  te_preempt();
  VASSUME(te_cur != 0);                         /* exit of the main thread is outside the emulation */
  te_retval[te_cur] = ret;
  te_did_exit[te_cur] = 1;
  te_exiting[te_cur] = 1;                       /* the caller must unwind without touching a model entry */
}

pthread_t te_pthread_self(void) { return TE_TID(te_cur); }

/* ---------------------------------------------------------------- TLS */
int te_key_valid(pthread_key_t key) { return key >= 1 && key <= TE_NK && te_key_used[key - 1]; }

int te_pthread_key_create(pthread_key_t *key, void (*dtor)(void *)) {
  int k = -1;
  te_preempt();
  if (te_fault()) return EAGAIN;
  for (int i = TE_NK - 1; i >= 0; i--) if (!te_key_used[i]) k = i;
  VASSUME(k >= 0);                              /* bound: at most TE_NK keys alive */
  te_key_used[k] = 1;
  te_key_dtor[k] = dtor;
  for (int t = 0; t <= TE_NT; t++) te_tls[t][k] = NULL;
  te_keys_live++; te_keys_created++;
  *key = (pthread_key_t) (k + 1);
  return 0;
}

int te_pthread_key_delete(pthread_key_t key) {
  te_preempt();
  VASSERT(te_key_valid(key), "pthread_key_delete on a live key");
  if (te_fault()) return EINVAL;
  te_key_used[key - 1] = 0;
  te_keys_live--; te_keys_deleted++;
  return 0;
}

void *te_pthread_getspecific(pthread_key_t key) {
  te_preempt();
  VASSERT(te_key_valid(key), "pthread_getspecific on a live key");
  return te_tls[te_cur][key - 1];
}

int te_pthread_setspecific(pthread_key_t key, const void *val) {
  te_preempt();
  VASSERT(te_key_valid(key), "pthread_setspecific on a live key");
  if (te_fault()) return ENOMEM;
  te_tls[te_cur][key - 1] = (void *) val;
  return 0;
}

void *te_tls_peek(int slot, pthread_key_t key) { return te_key_valid(key) ? te_tls[slot][key - 1] : NULL; }

/* ---------------------------------------------------------------- attributes / scheduling */
int te_pthread_attr_init(pthread_attr_t *a) {
  (void) a; te_entry();
  if (te_fault()) return ENOMEM;
  VASSUME(te_attr_live == 0);                   /* bound: one attribute object at a time */
  te_attr_live++;
  te_attr_detach = PTHREAD_CREATE_JOINABLE;
  return 0;
}
int te_pthread_attr_destroy(pthread_attr_t *a) {
  (void) a; te_entry();
  VASSERT(te_attr_live > 0, "pthread_attr_destroy on an initialised attribute object");
  te_attr_live--;
  return 0;
}
int te_pthread_attr_setdetachstate(pthread_attr_t *a, int st) {
  (void) a; te_entry();
  VASSERT(te_attr_live > 0, "pthread_attr_* on an initialised attribute object");
  /* (an assertion, not an EINVAL branch: `st` may be a symbolic expression over a pboolean argument, and a symbolic
   * error exit of create would make the handle pointer symbolic) */
  VASSERT(st == PTHREAD_CREATE_JOINABLE || st == PTHREAD_CREATE_DETACHED, "pthread_attr_setdetachstate with a valid detach state");
  if (te_fault()) return EINVAL;
  te_attr_detach = st;
  return 0;
}
static int te_attr_misc(void) {
  te_entry();
  VASSERT(te_attr_live > 0, "pthread_attr_* on an initialised attribute object");
  return te_fault() ? EINVAL : 0;
}
int te_pthread_attr_setinheritsched(pthread_attr_t *a, int v) { (void) a; (void) v; return te_attr_misc(); }
int te_pthread_attr_getschedpolicy(const pthread_attr_t *a, int *pol) {
  (void) a; int r = te_attr_misc();
  if (r == 0) *pol = ND_RANGE(0, 2);            /* SCHED_OTHER / FIFO / RR */
  return r;
}
int te_pthread_attr_setschedpolicy(pthread_attr_t *a, int pol) { (void) a; (void) pol; return te_attr_misc(); }
int te_pthread_attr_setschedparam(pthread_attr_t *a, const struct sched_param *p) { (void) a; (void) p; return te_attr_misc(); }
int te_pthread_attr_setstacksize(pthread_attr_t *a, size_t n) { (void) a; (void) n; return te_attr_misc(); }
int te_pthread_getschedparam(pthread_t t, int *pol, struct sched_param *p) {
  te_entry(); (void) te_slot_of(t);
  if (te_fault()) return ESRCH;
  *pol = ND_RANGE(0, 2); p->sched_priority = ND_RANGE(0, 99);
  return 0;
}
int te_pthread_setschedparam(pthread_t t, int pol, const struct sched_param *p) {
  te_entry(); (void) te_slot_of(t); (void) pol; (void) p;
  return te_fault() ? EPERM : 0;
}
int te_pthread_setname_np(pthread_t t, const char *name) {
  te_entry(); (void) te_slot_of(t);
  VASSERT(name != NULL, "pthread_setname_np with a name");
  int n = 0; while (n < 16 && name[n] != 0) n++;
  if (n >= 16) return ERANGE;                   /* Linux: name incl. terminator must fit 16 bytes */
  return te_fault() ? ERANGE : 0;
}
int te_sched_get_priority_min(int pol) { (void) pol; if (te_fault()) return -1; return (pol == 0) ? 0 : 1; }
int te_sched_get_priority_max(int pol) { (void) pol; if (te_fault()) return -1; return (pol == 0) ? 0 : 99; }
int te_sched_yield(void) { te_preempt(); return 0; }
long te_sysconf(int name) { (void) name; long v = ND_LL(); VASSUME(v >= -1 && v <= (1L << 20)); return v; }

/* ---------------------------------------------------------------- mutex / cond / rwlock: contract models */
static const void *te_m_addr[TE_NM]; static int te_m_locked[TE_NM], te_m_owner[TE_NM];
static const void *te_c_addr[TE_NM];
static const void *te_r_addr[TE_NM];

static int te_find(const void **tab, const void *a) {
  int k = -1;
  for (int i = 0; i < TE_NM; i++) if (tab[i] == a) k = i;
  return k;
}
static int te_obj_init(const void **tab, const void *a, int *live) {
  te_preempt();
  if (te_fault()) return ENOMEM;
  int k = te_find(tab, NULL);
  VASSUME(k >= 0);                              /* bound: TE_NM objects per kind */
  VASSERT(te_find(tab, a) < 0, "init of an object that is not already initialised");
  tab[k] = a; (*live)++;
  return 0;
}
static int te_obj_destroy(const void **tab, const void *a, int *live) {
  te_preempt();
  int k = te_find(tab, a);
  VASSERT(k >= 0, "destroy of an initialised object");
  if (k >= 0) { tab[k] = NULL; (*live)--; }
  return 0;
}
int te_pthread_mutex_init(pthread_mutex_t *m, const pthread_mutexattr_t *a) {
  (void) a; int r = te_obj_init(te_m_addr, m, &te_mutex_live);
  if (r == 0) { int k = te_find(te_m_addr, m); te_m_locked[k] = 0; }
  return r;
}
int te_pthread_mutex_destroy(pthread_mutex_t *m) {
  int k = te_find(te_m_addr, m);
  VASSERT(k < 0 || !te_m_locked[k], "pthread_mutex_destroy on an unlocked mutex");
  return te_obj_destroy(te_m_addr, m, &te_mutex_live);
}
int te_pthread_mutex_lock(pthread_mutex_t *m) {
  te_preempt();
  int k = te_find(te_m_addr, m);
  VASSERT(k >= 0, "pthread_mutex_lock on an initialised mutex");
  VASSUME(k >= 0 && !te_m_locked[k]);           /* holder is suspended or self: would block forever */
  te_m_locked[k] = 1; te_m_owner[k] = te_cur;
  return 0;
}
int te_pthread_mutex_trylock(pthread_mutex_t *m) {
  te_preempt();
  int k = te_find(te_m_addr, m);
  VASSERT(k >= 0, "pthread_mutex_trylock on an initialised mutex");
  if (k < 0 || te_m_locked[k]) return EBUSY;
  te_m_locked[k] = 1; te_m_owner[k] = te_cur;
  return 0;
}
int te_pthread_mutex_unlock(pthread_mutex_t *m) {
  te_preempt();
  int k = te_find(te_m_addr, m);
  VASSERT(k >= 0 && te_m_locked[k] && te_m_owner[k] == te_cur, "pthread_mutex_unlock by the owner");
  if (k >= 0) te_m_locked[k] = 0;
  return 0;
}
/* condition variable / rwlock operations: enough for single-threaded use of freshly built objects (C18/C20
 * scripts); waiting would block forever in a sequential script */
int te_pthread_cond_wait(pthread_cond_t *c, pthread_mutex_t *m) {
  te_preempt(); (void) m;
  VASSERT(te_find(te_c_addr, c) >= 0, "pthread_cond_wait on an initialised condition variable");
  VASSUME(0);
  return 0;
}
int te_pthread_cond_signal(pthread_cond_t *c) {
  te_preempt();
  VASSERT(te_find(te_c_addr, c) >= 0, "pthread_cond_signal on an initialised condition variable");
  return 0;
}
int te_pthread_cond_broadcast(pthread_cond_t *c) {
  te_preempt();
  VASSERT(te_find(te_c_addr, c) >= 0, "pthread_cond_broadcast on an initialised condition variable");
  return 0;
}
static int te_r_readers[TE_NM], te_r_writer[TE_NM];
int te_pthread_rwlock_rdlock(pthread_rwlock_t *l) {
  te_preempt(); int k = te_find(te_r_addr, l);
  VASSERT(k >= 0, "pthread_rwlock_rdlock on an initialised lock");
  VASSUME(k >= 0 && !te_r_writer[k]);
  te_r_readers[k]++; return 0;
}
int te_pthread_rwlock_wrlock(pthread_rwlock_t *l) {
  te_preempt(); int k = te_find(te_r_addr, l);
  VASSERT(k >= 0, "pthread_rwlock_wrlock on an initialised lock");
  VASSUME(k >= 0 && !te_r_writer[k] && te_r_readers[k] == 0);
  te_r_writer[k] = 1; return 0;
}
int te_pthread_rwlock_tryrdlock(pthread_rwlock_t *l) {
  te_preempt(); int k = te_find(te_r_addr, l);
  VASSERT(k >= 0, "pthread_rwlock_tryrdlock on an initialised lock");
  if (k < 0 || te_r_writer[k]) return EBUSY;
  te_r_readers[k]++; return 0;
}
int te_pthread_rwlock_trywrlock(pthread_rwlock_t *l) {
  te_preempt(); int k = te_find(te_r_addr, l);
  VASSERT(k >= 0, "pthread_rwlock_trywrlock on an initialised lock");
  if (k < 0 || te_r_writer[k] || te_r_readers[k] > 0) return EBUSY;
  te_r_writer[k] = 1; return 0;
}
int te_pthread_rwlock_unlock(pthread_rwlock_t *l) {
  te_preempt(); int k = te_find(te_r_addr, l);
  VASSERT(k >= 0 && (te_r_writer[k] || te_r_readers[k] > 0), "pthread_rwlock_unlock on a held lock");
  if (k >= 0) { if (te_r_writer[k]) te_r_writer[k] = 0; else if (te_r_readers[k] > 0) te_r_readers[k]--; }
  return 0;
}
int te_pthread_cond_init(pthread_cond_t *c, const pthread_condattr_t *a) { (void) a; return te_obj_init(te_c_addr, c, &te_cond_live); }
int te_pthread_cond_destroy(pthread_cond_t *c) { return te_obj_destroy(te_c_addr, c, &te_cond_live); }
int te_pthread_rwlock_init(pthread_rwlock_t *l, const pthread_rwlockattr_t *a) {
  (void) a; int r = te_obj_init(te_r_addr, l, &te_rwlock_live);
  if (r == 0) { int k = te_find(te_r_addr, l); te_r_readers[k] = 0; te_r_writer[k] = 0; }
  return r;
}
int te_pthread_rwlock_destroy(pthread_rwlock_t *l) {
  int k = te_find(te_r_addr, l);
  VASSERT(k < 0 || (!te_r_writer[k] && te_r_readers[k] == 0), "pthread_rwlock_destroy on an unheld lock");
  return te_obj_destroy(te_r_addr, l, &te_rwlock_live);
}

/* ---------------------------------------------------------------- spinlock acquisition contract
 * pspinlock-c11.c is compiled for real (new / trylock / unlock / free through thread_atomics.h); only the
 * body of p_spinlock_lock (a CAS retry loop) is replaced: acquiring = preemption point + "lock is free"
 * (a spinner whose lock holder is suspended never proceeds: infeasible) + take it.  The loop itself is
 * C01's subject. */
#ifdef TE_SPINLOCK_C11
#include <pspinlock.h>
struct PSpinLock_ { volatile pint spin; };     /* mirror of the private struct in pspinlock-c11.c */
pboolean p_spinlock_lock(PSpinLock *s) {
  if (s == NULL) return FALSE;
  te_preempt();
  VASSUME(s->spin == 0);
  s->spin = 1;
  return TRUE;
}
#endif
