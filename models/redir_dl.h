/* Force-included into plibraryloader-posix.c and pfile.c (C18/C20): loader calls and access() -> models/dl_model.c. */
#ifndef VM_REDIR_DL_H
#define VM_REDIR_DL_H
#include <dlfcn.h>
#include <unistd.h>
#include "dl_model.h"
#define dlopen  vm_dlopen
#define dlsym   vm_dlsym
#define dlclose vm_dlclose
#define dlerror vm_dlerror
#define access  vm_access
#endif
