/* Allocator model for the C16 queries (same interface and ledger as models/alloc.c, installed through
 * the public p_mem_set_vtable).  Differences, both measured to be decisive for pinifile.c under CBMC:
 *  - requests of 16 and 24 bytes (PList, PIniSection, PIniParameter: two pointers; PIniFile: two
 *    pointers + flag) get objects *typed* as pointer records, so that pointer fields are stored and
 *    loaded as pointers instead of being assembled from 8 symbolic bytes of a char array;
 *  - every other request (the strings) gets a char block of exactly VM_STRBLK bytes; requests above
 *    VM_STRBLK are excluded by assumption (stated bound).  Consequence: a write past the requested
 *    size but inside the block is not seen (exact symbolic-size objects were measured: 5 symbolic
 *    characters, > 900 s and 49 GB, no verdict); the stack buffers src_line/key/value/buf are exact.
 * Native mode: plain malloc. */
#include "alloc.h"
#include <stdlib.h>
#include <pmem.h>
#ifndef VM_REC2_ALWAYS
#define VM_REC2_ALWAYS 0   /* 1: the query guarantees that no string request is exactly 16 bytes */
#endif
#ifndef VM_STRBLK
#define VM_STRBLK 16
#endif
struct vm_rec2 { void *a, *b; };
struct vm_rec3 { void *a, *b; long c; };

int vm_live, vm_nalloc, vm_fail_at, vm_fail_from, vm_failed;

void *vm_malloc(size_t n) {
  void *p;
  vm_nalloc++;
  if (vm_fail_at != 0 && (vm_nalloc == vm_fail_at || (vm_fail_from && vm_nalloc > vm_fail_at))) { vm_failed++; return NULL; }
#if !defined(VERIF_NATIVE) && defined(VM_NO_RECORDS)
  /* queries whose strings can be exactly 16 or 24 bytes long (concrete long numerals): no typed records, every request a char block */
  VASSUME(n <= VM_STRBLK); p = malloc(VM_STRBLK);
  __CPROVER_assume(p != NULL);
#elif !defined(VERIF_NATIVE)
  if (n == sizeof(struct vm_rec2) && (VM_STRBLK < sizeof(struct vm_rec2) || VM_REC2_ALWAYS)) p = malloc(sizeof(struct vm_rec2));
  else if (n == sizeof(struct vm_rec3)) p = malloc(sizeof(struct vm_rec3));
  else { VASSUME(n <= VM_STRBLK); p = malloc(VM_STRBLK); }
  __CPROVER_assume(p != NULL);
#else
  p = malloc(n);
#endif
  vm_live++;
  return p;
}

void *vm_realloc(void *old, size_t n) {
  (void) old; (void) n;
  VASSERT(0, "allocator: realloc is not used by the INI parser");
  return NULL;
}

void vm_free(void *p) {
  VASSERT(p != NULL, "allocator: free(NULL) never reaches the table");
  vm_live--;
  free(p);   /* CBMC checks double free / foreign free here */
}

void vm_alloc_install(void) {
  PMemVTable t;
  t.f_malloc = (ppointer (*)(psize)) vm_malloc;
  t.f_realloc = (ppointer (*)(ppointer, psize)) vm_realloc;
  t.f_free = (void (*)(ppointer)) vm_free;
  p_mem_set_vtable(&t);
}
