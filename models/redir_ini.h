/* Force-included (-include) into the plibsys units of the C16 queries: routes the libc functions that
 * pinifile.c / pstring.c / pmem.c call to the bounded models in models/cstring_model.c and
 * models/stdio_model.c.  The system headers are included first so that their prototypes are not
 * renamed; CBMC's built-in library models (array-theory memcpy/strlen, havocking sscanf) stay out.
 * Build flag of the verification build only; the sources are not edited.
 * Needs -D__NO_CTYPE (glibc's isspace/isdigit macros index a table behind __ctype_b_loc()). */
#ifndef VM_REDIR_INI_H
#define VM_REDIR_INI_H
#include <stddef.h>
#include <stdlib.h>
#include <stdio.h>
#include <string.h>
#include <strings.h>
#include <ctype.h>
#include "cstring_model.h"
#include "stdio_model.h"

#undef strlen
#undef strcpy
#undef strcmp
#undef strchr
#undef memcpy
#undef memset
#undef atoi
#undef isspace
#undef isdigit
#undef fopen
#undef fgets
#undef fclose
#undef sscanf
#undef strtol
#undef strtoll
#undef strtoul
#undef strtoull
#undef atol
#undef atoll
#undef strtod
#undef atof
#undef strncmp
#undef strcasecmp
#undef strncasecmp

#define strlen  vm_strlen
#define strcpy  vm_strcpy
#define strcmp  vm_strcmp
#define strchr  vm_strchr
#define memcpy  vm_memcpy
#define memset  vm_memset
#define atoi    vm_atoi
#define isspace vm_isspace
#define isdigit vm_isdigit
#define fopen   vm_fopen
#define fgets   vm_fgets
#define fclose  vm_fclose
#define sscanf  vm_sscanf
/* not used by the unchanged sources; modelled so that an edit switching to them stays decidable */
#define strtol   vm_strtol
#define strtoll  vm_strtoll
#define strtoul  vm_strtoul
#define strtoull vm_strtoull
#define atol     vm_atol
#define atoll    vm_atoll
#define strtod   vm_strtod
#define atof     vm_atof
#define strncmp  vm_strncmp
#define strcasecmp  vm_strcasecmp
#define strncasecmp vm_strncasecmp
#endif
