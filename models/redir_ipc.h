/* Force-included in the plibsys units that talk to the kernel's named-IPC interface: the system
 * headers come first (so that their prototypes are not rewritten), then every call is redirected
 * to the kernel model (models/kernel_ipc.c).  sem_open is variadic: the macro appends two zeros so
 * that mode/value are ordinary parameters also for two-argument calls. */
#ifndef VM_REDIR_IPC_H
#define VM_REDIR_IPC_H
#include <sys/types.h>
#include <sys/stat.h>
#include <sys/mman.h>
#include <fcntl.h>
#include <unistd.h>
#include <semaphore.h>
#include <errno.h>
#include <string.h>
#include <stdlib.h>
#include "kernel_ipc.h"
#define sem_open(...)  vm_sem_open_x(__VA_ARGS__, 0, 0)
#define sem_close      vm_sem_close
#define sem_unlink     vm_sem_unlink
#define sem_wait       vm_sem_wait
#define sem_trywait    vm_sem_trywait
#define sem_post       vm_sem_post
#define sem_getvalue   vm_sem_getvalue
#define shm_open       vm_shm_open
#define shm_unlink     vm_shm_unlink
#undef  ftruncate
#define ftruncate      vm_ftruncate
#undef  fstat
#define fstat          vm_fstat
#undef  mmap
#define mmap           vm_mmap
#define munmap         vm_munmap
#define close          vm_close
#endif
