/* Force-included (-include) in the REAL plibsys units of the socket queries: every libc socket /
 * descriptor call made by psocket.c, psysclose-unix.c and perror.c goes to the kernel model in
 * models/kernel_sock.c instead of CBMC's built-in library.  Function-like macros only: psocket.c
 * uses `socket` as a parameter name everywhere, which must stay untouched. */
#ifndef VS_REDIR_SOCK_H
#define VS_REDIR_SOCK_H
#include <sys/types.h>
#include <sys/socket.h>
#include <netinet/in.h>
#include <arpa/inet.h>
#include <netdb.h>
#include <poll.h>
#include <sys/poll.h>
#include <fcntl.h>
#include <unistd.h>
#include <signal.h>
#include <errno.h>
#include <stdlib.h>
#include <string.h>
#include <stdio.h>

#include "kernel_sock.h"

#define socket(d, t, p)                 vm_socket(d, t, p)
#define bind(fd, a, l)                  vm_bind(fd, (const struct sockaddr *) (a), l)
#define listen(fd, n)                   vm_listen(fd, n)
#define connect(fd, a, l)               vm_connect(fd, (const struct sockaddr *) (a), l)
#define accept(fd, a, l)                vm_accept(fd, (struct sockaddr *) (a), (socklen_t *) (l))
#define send(fd, b, n, f)               vm_send(fd, b, n, f)
#define recv(fd, b, n, f)               vm_recv(fd, b, n, f)
#define sendto(fd, b, n, f, a, l)       vm_sendto(fd, b, n, f, (const struct sockaddr *) (a), l)
#define recvfrom(fd, b, n, f, a, l)     vm_recvfrom(fd, b, n, f, (struct sockaddr *) (a), l)
#define poll(p, n, t)                   vm_poll(p, n, t)
#define getsockopt(fd, lv, o, v, l)     vm_getsockopt(fd, lv, o, v, l)
#define setsockopt(fd, lv, o, v, l)     vm_setsockopt(fd, lv, o, v, l)
#define getsockname(fd, a, l)           vm_getsockname(fd, (struct sockaddr *) (a), l)
#define getpeername(fd, a, l)           vm_getpeername(fd, (struct sockaddr *) (a), l)
#define shutdown(fd, h)                 vm_shutdown(fd, h)
#define close(fd)                       vm_close(fd)
#define fcntl(...)                      vm_fcntl(__VA_ARGS__)
#define signal(s, h)                    vm_signal(s, h)
#undef errno
#define errno vs_errno
#endif
