/* C17: force-included into psocketaddress.c: platform text conversion / resolver calls -> models/netdb_model.c
 * (keeps CBMC's built-in library models and glibc inlines out). */
#ifndef REDIR_NETDB_H
#define REDIR_NETDB_H
#include <sys/types.h>
#include <sys/socket.h>
#include <netinet/in.h>
#include <arpa/inet.h>
#include <netdb.h>
#include "netdb_model.h"
#define inet_pton    vm_inet_pton
#define inet_ntop    vm_inet_ntop
#define getaddrinfo  vm_getaddrinfo
#define freeaddrinfo vm_freeaddrinfo
#endif
