/* Injective stand-in for pipc.c:p_ipc_get_platform_key on the harnesses' name domain (the real
 * function = '/' + 13 hex digits of SHA-1(name) is run on the same strings by the query
 * C06 realkey_*, which decides that they receive pairwise distinct, well-formed keys).
 *   "a_p_sem_object" -> "/A"   "b_p_sem_object" -> "/B"     (PSemaphore names a, b)
 *   "a_p_shm_object" -> "/C"   "b_p_shm_object" -> "/D"     (PShm names a, b)
 *   "/C_p_sem_object" -> "/E"  "/D_p_sem_object" -> "/F"    (lock semaphore of PShm a, b)
 * One p_malloc0 block like the real function's result (the caller frees it with p_free). */
#include "verif.h"
#include <pmem.h>
#include <ptypes.h>

static int vk_streq(const char *a, const char *b) {
  for (int i = 0; i < 16; i++) { if (a[i] != b[i]) return 0; if (b[i] == 0) return 1; }
  return 0;
}

pchar *p_ipc_get_platform_key(const pchar *name, pboolean posix) {
  (void) posix;
  if (name == NULL) return NULL;
  char c = 0;
  if (vk_streq(name, "a_p_sem_object")) c = 'A';
  else if (vk_streq(name, "b_p_sem_object")) c = 'B';
  else if (vk_streq(name, "a_p_shm_object")) c = 'C';
  else if (vk_streq(name, "b_p_shm_object")) c = 'D';
  else if (vk_streq(name, "/C_p_sem_object")) c = 'E';
  else if (vk_streq(name, "/D_p_sem_object")) c = 'F';
  VASSERT(c != 0, "harness: IPC name inside the key stub's domain");
  pchar *k = p_malloc0(15);
  if (k == NULL) return NULL;
  k[0] = '/'; k[1] = c; k[2] = 0;
  return k;
}
