/* C18 finding C18_thread_selfkey_failure: native reproduction against the real libplibsys.
 * The allocation of the lazily created TLS key block inside the new thread's start-up (pp_uthread_proxy ->
 * p_uthread_set_local -> pp_uthread_get_tls_key) fails: request 3 after the allocator is installed
 * (1 = PUThread, 2 = name copy, 3 = key block). */
#include <plibsys.h>
#include <stdio.h>
#include <stdlib.h>
static volatile int n, fail_at = 3, after_exit, frees_of_handle;
static void *handle_block;
static ppointer my_malloc(psize s) { int i = __sync_add_and_fetch(&n, 1); return (i == fail_at) ? NULL : malloc(s); }
static ppointer my_realloc(ppointer p, psize s) { return realloc(p, s); }
static void my_free(ppointer p) { if (p == handle_block) frees_of_handle++; free(p); }
static ppointer thr(ppointer d) { (void) d; p_uthread_exit(7); after_exit = 1; return NULL; }
int main(void) {
  PMemVTable vt = { my_malloc, my_realloc, my_free };
  p_libsys_init();
  p_mem_set_vtable(&vt);
  PUThread *t = p_uthread_create(thr, NULL, TRUE, "worker");
  handle_block = t;
  int r = p_uthread_join(t);
  p_uthread_unref(t);
  printf("create=%p join=%d (expected 7)  code after p_uthread_exit ran=%d  handle freed=%d (expected 1)\n", (void *) t, r, (int) after_exit, (int) frees_of_handle);
  return (r != 7 || after_exit || frees_of_handle != 1);
}
