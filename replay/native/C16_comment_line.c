/* Native reproduction of finding C16_comment_line_key against the real library.
 * gcc -o /tmp/c16a C16_comment_line.c -I/repo/src -I/repo/_build/src -L/repo/_build/src -lplibsys -Wl,-rpath,/repo/_build/src && /tmp/c16a
 * exit 1 (and a message) while the defect is present, 0 once comment lines are skipped. */
#include <plibsys.h>
#include <stdio.h>
int main(void) {
  const char *path = "/tmp/c16_comment_line.ini";
  FILE *f = fopen(path, "w");
  int bad = 0;
  fputs("[s]\n; a = b\n# x=1\nk = v\n", f); fclose(f);
  p_libsys_init();
  PIniFile *ini = p_ini_file_new(path);
  p_ini_file_parse(ini, NULL);
  PList *keys = p_ini_file_keys(ini, "s");
  for (PList *k = keys; k != NULL; k = k->next) {
    char *v = p_ini_file_parameter_string(ini, "s", (char *) k->data, NULL);
    printf("section s: key <%s> = <%s>\n", (char *) k->data, v);
    if (((char *) k->data)[0] == ';' || ((char *) k->data)[0] == '#') bad = 1;
    p_free(v); p_free(k->data);
  }
  p_list_free(keys);
  if (p_ini_file_is_key_exists(ini, "s", "; a")) { printf("DEFECT: comment line '; a = b' was stored as key \"; a\"\n"); bad = 1; }
  p_ini_file_free(ini);
  p_libsys_shutdown();
  remove(path);
  return bad;
}
