/* C17_from_native_len1: p_socket_address_new_from_native reads the 2-byte sa_family from a 1-byte buffer */
/* build: gcc -g -I/repo/src -I/repo/_build/src C17_from_native_len1.c -L/repo/_build/src -lplibsys -Wl,-rpath,/repo/_build/src && valgrind ./a.out
 * observed: "Invalid read of size 2 at p_socket_address_new_from_native (psocketaddress.c:105) ... 0 bytes inside a block of size 1" */
#include <plibsys.h>
#include <stdlib.h>
#include <stdio.h>
int main(void) {
  p_libsys_init();
  unsigned char *one = malloc(1);     /* exact-size object: only one[0] may be read */
  one[0] = 2;                         /* low byte of AF_INET */
  PSocketAddress *a = p_socket_address_new_from_native(one, 1);
  printf("result for len=1: %p\n", (void *) a);
  free(one);
  p_libsys_shutdown();
  return 0;
}
