/* C07 crash recovery: a process SIGKILLed between shm_open(O_CREAT|O_EXCL) and ftruncate() inside
 * p_shm_new leaves a zero-length segment; afterwards p_shm_new on that name fails for ever
 * (mmap of length 0 -> EINVAL), so the documented clean-up (open, take ownership, free, create again)
 * can never be carried out through the API.  The child interposes ftruncate() to die exactly there. */
#define _GNU_SOURCE
#include <plibsys.h>
#include <stdio.h>
#include <signal.h>
#include <unistd.h>
#include <sys/wait.h>
#include <sys/mman.h>
#include <stdlib.h>
#include <string.h>
static int child;
int ftruncate(int fd, off_t len) {
  if (child) kill(getpid(), SIGKILL);
  return (int) syscall(77 /* SYS_ftruncate on x86-64 */, fd, len);
}
int main(void) {
  p_libsys_init();
  pid_t pid = fork();
  if (pid == 0) { child = 1; p_shm_new("verif_c07_crash", 4096, P_SHM_ACCESS_READWRITE, NULL); _exit(0); }
  int st; waitpid(pid, &st, 0);
  printf("child killed by signal %d inside p_shm_new\n", WTERMSIG(st));
  int fails = 0;
  for (int i = 0; i < 3; i++) {
    PError *e = NULL;
    PShm *s = p_shm_new("verif_c07_crash", 4096, P_SHM_ACCESS_READWRITE, &e);
    printf("recovery attempt %d: p_shm_new -> %p (%s, native %d)\n", i, (void *) s, e ? p_error_get_message(e) : "-", e ? p_error_get_native_code(e) : 0);
    if (s) { p_shm_take_ownership(s); p_shm_free(s); } else fails++;
  }
  /* the only way out is outside the plibsys API: recompute the platform key and shm_unlink() it */
  PCryptoHash *h = p_crypto_hash_new(P_CRYPTO_HASH_TYPE_SHA1);
  p_crypto_hash_update(h, (const puchar *) "verif_c07_crash_p_shm_object", strlen("verif_c07_crash_p_shm_object"));
  pchar *hex = p_crypto_hash_get_string(h); char key[16] = "/"; strncat(key, hex, 13);
  printf("leftover name %s: shm_unlink -> %d\n", key, shm_unlink(key));
  return fails == 3;
}
