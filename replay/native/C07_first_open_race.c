/* C07 first-open race, reproduced deterministically against the real libplibsys.so and the real kernel:
 * the executable interposes ftruncate(); right after P's ftruncate (i.e. between P's shm_open and P's
 * p_semaphore_new) a second opener Q runs its whole p_shm_new on the same name (what a second process
 * scheduled at that moment does).  cc c07_race.c -I/repo/src -I/repo/_build/src -L/repo/_build/src -lplibsys */
#define _GNU_SOURCE
#include <plibsys.h>
#include <stdio.h>
#include <string.h>
#include <unistd.h>
#include <sys/syscall.h>
static PShm *hq; static int nested;
int ftruncate(int fd, off_t len) {
  int r = (int) syscall(SYS_ftruncate, fd, len);
  if (!nested) { nested = 1; hq = p_shm_new("verif_c07_race", 4096, P_SHM_ACCESS_READWRITE, NULL); }
  return r;
}
int main(void) {
  p_libsys_init();
  PError *e = NULL;
  PShm *hp = p_shm_new("verif_c07_race", 4096, P_SHM_ACCESS_READWRITE, &e);
  printf("P: %p (%s)   Q: %p\n", (void *) hp, e ? p_error_get_message(e) : "-", (void *) hq);
  if (hp == NULL) hp = p_shm_new("verif_c07_race", 4096, P_SHM_ACCESS_READWRITE, NULL);   /* P simply tries again */
  printf("P after retry: %p\n", (void *) hp);
  int bad = 0;
  if (hp && hq) {
    strcpy((char *) p_shm_get_address(hp), "written by P");
    printf("Q reads: \"%s\"  (same name, %s memory)\n", (char *) p_shm_get_address(hq),
           strcmp((char *) p_shm_get_address(hq), "written by P") ? "DIFFERENT" : "same");
    bad |= strcmp((char *) p_shm_get_address(hq), "written by P") != 0;
    pboolean l1 = p_shm_lock(hp, NULL);
    alarm(3);   /* a correct second lock blocks: SIGALRM ends the program */
    pboolean l2 = p_shm_lock(hq, NULL);
    printf("P lock=%d, Q lock=%d while P holds it -> two holders\n", l1, l2);
    bad |= (l1 && l2);
  }
  if (hq) { p_shm_take_ownership(hq); p_shm_free(hq); }
  if (hp) { p_shm_take_ownership(hp); p_shm_free(hp); }
  return bad;
}
