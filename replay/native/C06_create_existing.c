#include <plibsys.h>
#include <stdio.h>
int main(void) {
  p_libsys_init();
  PSemaphore *a = p_semaphore_new("verif_c06_demo", 1, P_SEM_ACCESS_OPEN, NULL);   /* name now exists */
  PError *err = NULL;
  PSemaphore *b = p_semaphore_new("verif_c06_demo", 5, P_SEM_ACCESS_CREATE, &err); /* documented: reset to 5 */
  printf("CREATE on existing name -> %p (error code %d native %d: %s)\n", (void *) b,
         err ? p_error_get_code(err) : 0, err ? p_error_get_native_code(err) : 0, err ? p_error_get_message(err) : "-");
  PSemaphore *c = p_semaphore_new("verif_c06_demo", 7, P_SEM_ACCESS_OPEN, NULL);   /* sees a FRESH counter: name was destroyed */
  int n = 0; (void) n;
  printf("later OPEN -> %p\n", (void *) c);
  if (c) { p_semaphore_take_ownership(c); p_semaphore_free(c); }
  if (b) p_semaphore_free(b);
  if (a) { p_semaphore_free(a); }
  p_libsys_shutdown();
  return b == NULL;
}
