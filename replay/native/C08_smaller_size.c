/* C08: a second PShmBuffer handle opened with a SMALLER size argument works with a smaller ring modulus
 * than the creator's handle although "the size will be ignored and the existing buffer will be returned". */
#include <plibsys.h>
#include <stdio.h>
#include <string.h>
int main(void) {
  p_libsys_init();
  PShmBuffer *a = p_shm_buffer_new("verif_c08_demo", 100, NULL);   /* creator: capacity 100 */
  PShmBuffer *b = p_shm_buffer_new("verif_c08_demo", 10, NULL);    /* same buffer, size argument must be ignored */
  printf("free space: creator handle %ld, second handle %ld (same buffer!)\n",
         (long) p_shm_buffer_get_free_space(a, NULL), (long) p_shm_buffer_get_free_space(b, NULL));
  char msg[60]; for (int i = 0; i < 60; i++) msg[i] = 'A' + i % 26;
  printf("creator writes 60 bytes -> %ld\n", (long) p_shm_buffer_write(a, msg, 60, NULL));
  printf("used space: creator handle %ld, second handle %ld\n",
         (long) p_shm_buffer_get_used_space(a, NULL), (long) p_shm_buffer_get_used_space(b, NULL));
  char out[61] = {0};
  int r = p_shm_buffer_read(b, out, 60, NULL);
  printf("second handle reads 60 -> %d bytes \"%s\"\n", r, out);
  printf("afterwards used space via creator: %ld (FIFO corrupted: expected %d)\n", (long) p_shm_buffer_get_used_space(a, NULL), 60 - (r > 0 ? r : 0));
  int bad = (r != 60) || memcmp(out, msg, 60) != 0;
  p_shm_buffer_free(b);
  p_shm_buffer_take_ownership(a); p_shm_buffer_free(a);
  p_libsys_shutdown();
  return bad;
}
