/* C18 native confirmation of the pinifile.c leak findings against the real library:
 * gcc C18_core_ini_leak.c -I/repo/src -I/repo/_build/src -L/repo/_build/src -lplibsys -Wl,-rpath,/repo/_build/src
 * ./a.out <k>  : the k-th request after installing the counting allocator fails; prints the number of blocks still
 * allocated after p_ini_file_free().  File "[s]\na=1\n": k=13 (key list node) -> 3 blocks, k=14 (section list node) -> 6 blocks,
 * k=16 (p_ini_file_sections list node) -> 1 block, k=18 (p_ini_file_keys list node) -> 1 block; every other k -> 0. */
#include <plibsys.h>
#include <stdio.h>
#include <stdlib.h>
static int n, k, live;
static ppointer fm(psize s) { if (++n == k) return NULL; live++; return malloc(s); }
static ppointer fr(ppointer p, psize s) { if (++n == k) return NULL; return realloc(p, s); }
static void ff(ppointer p) { live--; free(p); }
static void fstr(ppointer d, ppointer u) { (void) u; p_free(d); }
int main(int argc, char **argv) {
  k = argc > 1 ? atoi(argv[1]) : 0;
  FILE *f = fopen("/tmp/allocres_c18.ini", "w"); fputs("[s]\na=1\n", f); fclose(f);
  PMemVTable t = {fm, fr, ff};
  p_libsys_init();
  p_mem_set_vtable(&t);
  n = 0; live = 0;
  PIniFile *ini = p_ini_file_new("/tmp/allocres_c18.ini");
  if (ini) {
    p_ini_file_parse(ini, NULL);
    PList *l = p_ini_file_sections(ini); p_list_foreach(l, fstr, NULL); p_list_free(l);
    l = p_ini_file_keys(ini, "s"); p_list_foreach(l, fstr, NULL); p_list_free(l);
    p_ini_file_free(ini);
  }
  printf("k=%d requests=%d blocks still allocated=%d\n", k, n, live);
  return 0;
}
