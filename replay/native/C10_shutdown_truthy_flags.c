/* p_socket_shutdown(sock, 2, FALSE): "shut the READ side" with a truthy flag that is not 1 */
#include <plibsys.h>
#include <stdio.h>
int main(void) {
  p_libsys_init();
  PSocketAddress *a = p_socket_address_new("127.0.0.1", 45731);
  PSocket *l = p_socket_new(P_SOCKET_FAMILY_INET, P_SOCKET_TYPE_STREAM, P_SOCKET_PROTOCOL_TCP, NULL);
  p_socket_bind(l, a, TRUE, NULL); p_socket_listen(l, NULL);
  PSocket *c = p_socket_new(P_SOCKET_FAMILY_INET, P_SOCKET_TYPE_STREAM, P_SOCKET_PROTOCOL_TCP, NULL);
  printf("connect %d\n", p_socket_connect(c, a, NULL));
  PSocket *s = p_socket_accept(l, NULL);
  int flag = 0x2;                                   /* e.g. (mode & SHUT_READ_BIT): non-zero, i.e. TRUE */
  printf("shutdown(read=%d, write=0) -> %d\n", flag, p_socket_shutdown(c, flag, FALSE, NULL));
  PError *e = NULL;
  pssize w = p_socket_send(c, "x", 1, &e);
  printf("send after 'read-only' shutdown -> %ld (%s)\n", (long) w, e ? p_error_get_message(e) : "ok");
  char b; p_socket_set_timeout(s, 500);
  printf("peer receive -> %ld (0 = EOF: the WRITE side was shut)\n", (long) p_socket_receive(s, &b, 1, NULL));
  printf("is_connected after shutdown(2,2): "); p_socket_shutdown(s, 2, 2, NULL); printf("%d (doc/code: FALSE after both directions)\n", p_socket_is_connected(s));
  return 0;
}
