/* Native demonstration of finding C14_two_child_remove through the public API only.
 *   gcc -I/repo/src -I/repo/_build/src C14_two_child_remove.c -L/repo/_build/src -lplibsys -Wl,-rpath,/repo/_build/src -o demo && ./demo
 * For each tree type: insert keys 2,1,3 (2 becomes the root with two children), remove key 2.
 * Expected: destroy notifiers called for key 2 / value 20.  Observed on the defective code: called for
 * key 1 / value 10 (the in-order predecessor, which STAYS in the tree), and at p_tree_free key 1 / value 10
 * are destroyed a second time while key 2 / value 20 are never destroyed.  Exit code 1 = defect present. */
#include <plibsys.h>
#include <stdio.h>

static int kd[8], vd[8];
static void kdf(ppointer k) { kd[P_POINTER_TO_INT(k)]++; }
static void vdf(ppointer v) { vd[P_POINTER_TO_INT(v) / 10]++; }
static pint cmp(pconstpointer a, pconstpointer b, ppointer d) { (void) d; return P_POINTER_TO_INT(a) - P_POINTER_TO_INT(b); }

int main(void) {
  int bad = 0, t, i;
  static const char *name[] = { "BST", "RB", "AVL" };
  p_libsys_init();
  for (t = 0; t < 3; t++) {
    PTree *tree = p_tree_new_full((PTreeType) t, cmp, NULL, kdf, vdf);
    for (i = 0; i < 8; i++) kd[i] = vd[i] = 0;
    p_tree_insert(tree, P_INT_TO_POINTER(2), P_INT_TO_POINTER(20));
    p_tree_insert(tree, P_INT_TO_POINTER(1), P_INT_TO_POINTER(10));
    p_tree_insert(tree, P_INT_TO_POINTER(3), P_INT_TO_POINTER(30));
    p_tree_remove(tree, P_INT_TO_POINTER(2));
    printf("%s: after remove(2): destroyed keys 1:%d 2:%d 3:%d  values 10:%d 20:%d 30:%d; lookup(1)=%d (still stored)\n", name[t],
           kd[1], kd[2], kd[3], vd[1], vd[2], vd[3], P_POINTER_TO_INT(p_tree_lookup(tree, P_INT_TO_POINTER(1))));
    if (!(kd[2] == 1 && vd[2] == 1 && kd[1] == 0 && vd[1] == 0)) bad = 1;
    p_tree_free(tree);
    printf("%s: after free:      destroyed keys 1:%d 2:%d 3:%d  values 10:%d 20:%d 30:%d  (each must be exactly 1)\n", name[t],
           kd[1], kd[2], kd[3], vd[1], vd[2], vd[3]);
    for (i = 1; i <= 3; i++) if (kd[i] != 1 || vd[i] != 1) bad = 1;
  }
  p_libsys_shutdown();
  printf(bad ? "DEFECT: wrong pair destroyed on two-child removal\n" : "ok\n");
  return bad;
}
