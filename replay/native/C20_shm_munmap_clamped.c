/* C20: a PShm handle opened on an existing LARGER segment with a smaller size argument maps the whole
 * segment but p_shm_free() munmaps only the clamped size: the tail pages stay mapped for the life of
 * the process.  Shown by counting the process' mappings of /dev/shm objects in /proc/self/maps. */
#include <plibsys.h>
#include <stdio.h>
#include <string.h>
static long shm_bytes_mapped(void) {
  FILE *f = fopen("/proc/self/maps", "r"); char line[512]; long total = 0;
  while (fgets(line, sizeof line, f)) if (strstr(line, "/dev/shm/")) { unsigned long a, b; sscanf(line, "%lx-%lx", &a, &b); total += (long) (b - a); }
  fclose(f); return total;
}
int main(void) {
  p_libsys_init();
  PShm *big = p_shm_new("verif_c20_demo", 3 * 4096, P_SHM_ACCESS_READWRITE, NULL);
  long base = shm_bytes_mapped();
  int leaks = 0;
  for (int i = 0; i < 3; i++) {
    PShm *small = p_shm_new("verif_c20_demo", 100, P_SHM_ACCESS_READWRITE, NULL);
    printf("second handle: reported size %lu, mapped now %ld bytes", (unsigned long) p_shm_get_size(small), shm_bytes_mapped() - base);
    p_shm_free(small);
    long left = shm_bytes_mapped() - base;
    printf(", after p_shm_free still %ld bytes mapped\n", left);
    leaks += left > 0;
  }
  p_shm_take_ownership(big); p_shm_free(big);
  p_libsys_shutdown();
  return leaks > 0;
}
