/* C20 finding C20_thread_local_free_leak: native reproduction against the real libplibsys with a counting
 * allocator installed through p_mem_set_vtable. */
#include <plibsys.h>
#include <stdio.h>
#include <stdlib.h>
static int live;
static ppointer my_malloc(psize s) { live++; return malloc(s); }
static ppointer my_realloc(ppointer p, psize s) { return realloc(p, s); }
static void my_free(ppointer p) { live--; free(p); }
int main(void) {
  PMemVTable vt = { my_malloc, my_realloc, my_free };
  static int v;
  p_libsys_init();
  p_mem_set_vtable(&vt);
  for (int i = 0; i < 3; i++) {
    PUThreadKey *k = p_uthread_local_new(NULL);
    p_uthread_set_local(k, &v);          /* first use: allocates the pthread_key_t block */
    p_uthread_local_free(k);
    printf("after round %d: %d library allocation(s) outstanding\n", i + 1, live);
  }
  return live != 0;
}
