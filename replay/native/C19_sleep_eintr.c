/* C19 finding C19_sleep_eintr_errno: native reproduction against the real libplibsys.
 * A handled SIGALRM (no SA_RESTART) arrives 100 ms into p_uthread_sleep(500). */
#include <plibsys.h>
#include <signal.h>
#include <stdio.h>
#include <errno.h>
#include <sys/time.h>
#include <time.h>
static volatile sig_atomic_t hits;
static void on_alarm(int s) { (void) s; hits++; }
int main(void) {
  struct sigaction sa; struct itimerval it; struct timespec a, b;
  p_libsys_init();
  sa.sa_handler = on_alarm; sigemptyset(&sa.sa_mask); sa.sa_flags = 0;   /* no SA_RESTART */
  sigaction(SIGALRM, &sa, NULL);
  it.it_interval.tv_sec = 0; it.it_interval.tv_usec = 0; it.it_value.tv_sec = 0; it.it_value.tv_usec = 100000;
  errno = 0;
  clock_gettime(CLOCK_MONOTONIC, &a);
  setitimer(ITIMER_REAL, &it, NULL);
  int r = p_uthread_sleep(500);
  clock_gettime(CLOCK_MONOTONIC, &b);
  long ms = (b.tv_sec - a.tv_sec) * 1000 + (b.tv_nsec - a.tv_nsec) / 1000000;
  printf("signals handled=%d  p_uthread_sleep(500) returned %d after %ld ms\n", (int) hits, r, ms);
  p_libsys_shutdown();
  if (r == -1) { printf("DEFECT REPRODUCED: interrupted sleep reports failure (and slept only %ld ms)\n", ms); return 1; }
  if (ms < 500) { printf("DEFECT: returned 0 before 500 ms\n"); return 1; }
  printf("ok\n"); return 0;
}
