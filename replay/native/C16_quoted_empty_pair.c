/* Native reproduction of finding C16_quoted_empty_pair against the real library.
 * gcc -o /tmp/c16b C16_quoted_empty_pair.c -I/repo/src -I/repo/_build/src -L/repo/_build/src -lplibsys -Wl,-rpath,/repo/_build/src && /tmp/c16b
 * exit 1 while the defect is present. */
#include <plibsys.h>
#include <stdio.h>
#include <string.h>
int main(void) {
  const char *path = "/tmp/c16_quoted_empty_pair.ini";
  FILE *f = fopen(path, "w");
  int bad = 0;
  fputs("[s]\na = '\"\"'\nb = \"''\"\nc = '\"x\"'\nd = \"\"\n", f); fclose(f);
  p_libsys_init();
  PIniFile *ini = p_ini_file_new(path);
  p_ini_file_parse(ini, NULL);
  char *a = p_ini_file_parameter_string(ini, "s", "a", "?");
  char *b = p_ini_file_parameter_string(ini, "s", "b", "?");
  char *c = p_ini_file_parameter_string(ini, "s", "c", "?");
  char *d = p_ini_file_parameter_string(ini, "s", "d", "?");
  printf("a = '\"\"'  -> <%s> (expected <\"\">)\n", a);
  printf("b = \"''\"  -> <%s> (expected <''>)\n", b);
  printf("c = '\"x\"' -> <%s> (expected <\"x\">)\n", c);
  printf("d = \"\"    -> <%s> (expected <>)\n", d);
  if (strcmp(a, "\"\"") != 0 || strcmp(b, "''") != 0) { printf("DEFECT: a quoted value consisting of the other kind's empty quote pair is returned as the empty string\n"); bad = 1; }
  p_free(a); p_free(b); p_free(c); p_free(d);
  p_ini_file_free(ini);
  p_libsys_shutdown();
  remove(path);
  return bad;
}
