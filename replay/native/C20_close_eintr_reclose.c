/* close() interrupted by a signal on Linux: the descriptor IS released, -1/EINTR is returned.
 * Interposed close() emulates exactly that once and logs every close() of the library. */
#define _GNU_SOURCE
#include <plibsys.h>
#include <stdio.h>
#include <errno.h>
#include <unistd.h>
#include <fcntl.h>
#include <sys/syscall.h>
static int interrupt_next = 0, watched = -1, nclose = 0;
int close(int fd) {
  long r = syscall(SYS_close, fd);
  if (fd == watched) printf("  close(%d) #%d -> kernel says %ld%s\n", fd, ++nclose, r, r < 0 ? " (EBADF: number no longer ours)" : "");
  if (interrupt_next && fd == watched && r == 0) { interrupt_next = 0; errno = EINTR; return -1; }
  return (int) r;
}
int main(void) {
  p_libsys_init();
  PSocket *s = p_socket_new(P_SOCKET_FAMILY_INET, P_SOCKET_TYPE_STREAM, P_SOCKET_PROTOCOL_TCP, NULL);
  watched = p_socket_get_fd(s); interrupt_next = 1;
  PError *e = NULL;
  pboolean ok = p_socket_close(s, &e);
  printf("p_socket_close -> %d (%s), is_closed=%d, fd=%d\n", ok, e ? p_error_get_message(e) : "-", p_socket_is_closed(s), p_socket_get_fd(s));
  int other = dup(0);                       /* another thread opens something: gets the released number */
  printf("another open() got descriptor %d\n", other);
  p_socket_free(s);                         /* closes the number again */
  printf("the other descriptor is %s\n", fcntl(other, F_GETFD) < 0 ? "CLOSED by p_socket_free" : "still open");
  return 0;
}
