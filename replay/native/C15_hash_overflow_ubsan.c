#include <plibsys.h>
#include <stdio.h>
int main(void){ p_libsys_init(); PHashTable*t=p_hash_table_new(); 
 p_hash_table_insert(t,(ppointer)0x7FFFFFFFULL,(ppointer)1); p_hash_table_insert(t,(ppointer)0x17FFFFFDBULL,(ppointer)2);
 p_hash_table_insert(t,(ppointer)-5L,(ppointer)3);
 printf("%p %p %p\n", p_hash_table_lookup(t,(ppointer)0x7FFFFFFFULL), p_hash_table_lookup(t,(ppointer)0x17FFFFFDBULL), p_hash_table_lookup(t,(ppointer)-5L)); p_hash_table_free(t); p_libsys_shutdown(); return 0;}
