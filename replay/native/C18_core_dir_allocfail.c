/* C18 native confirmation of C18_dir_new_path / C18_dir_new_orig_path / C18_dir_entry_name against the real library:
 * gcc C18_core_dir_allocfail.c -I/repo/src -I/repo/_build/src -L/repo/_build/src -lplibsys -Wl,-rpath,/repo/_build/src
 * ./a.out 0 2 -> SIGSEGV in p_dir_new; ./a.out 0 3 -> p_dir_get_path (NULL); ./a.out 1 2 -> SIGSEGV in p_dir_get_next_entry.
 * Failing allocator installed through p_mem_set_vtable, k-th request of the call fails. */
#include <plibsys.h>
#include <stdio.h>
#include <stdlib.h>
static int n, k;
static ppointer fm(psize s) { return (++n == k) ? NULL : malloc(s); }
static ppointer fr(ppointer p, psize s) { return (++n == k) ? NULL : realloc(p, s); }
static void ff(ppointer p) { free(p); }
int main(int argc, char **argv) {
  int mode = atoi(argv[1]); k = atoi(argv[2]);
  PMemVTable t = {fm, fr, ff};
  p_libsys_init();
  p_mem_set_vtable(&t);
  n = 0;
  if (mode == 0) {               /* p_dir_new, k-th request of the call fails */
    PDir *d = p_dir_new("/tmp", NULL);
    printf("p_dir_new -> %p\n", (void *) d);
    if (d) { pchar *p = p_dir_get_path(d); printf("p_dir_get_path -> %s\n", p ? p : "(NULL)"); }
  } else {                       /* p_dir_get_next_entry */
    int kk = k; k = 0;
    PDir *d = p_dir_new("/tmp", NULL);
    n = 0; k = kk;
    PDirEntry *e = p_dir_get_next_entry(d, NULL);
    printf("p_dir_get_next_entry -> %p\n", (void *) e);
  }
  return 0;
}
