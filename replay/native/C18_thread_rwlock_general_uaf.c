/* C18 finding C18_thread_rwlock_general_new: prwlock-general.c (the generic PRWLock used on platforms without
 * native rwlocks) compiled from /repo/src and linked over libplibsys; allocator installed through the public
 * p_mem_set_vtable fails the 2nd request => p_rwlock_new writes into the block it has just freed.
 * gcc -fsanitize=address -DPLIBSYS_COMPILATION -I/repo/src -I/repo/_build/src rwlock_general_uaf.c /repo/src/prwlock-general.c -L/repo/_build/src -lplibsys */
#include <plibsys.h>
#include <stdio.h>
#include <stdlib.h>
static int n, fail_at = 2;
static ppointer my_malloc(psize s) { return (++n == fail_at) ? NULL : malloc(s); }
static ppointer my_realloc(ppointer p, psize s) { return (++n == fail_at) ? NULL : realloc(p, s); }
static void my_free(ppointer p) { free(p); }
int main(int argc, char **argv) {
  PMemVTable vt = { my_malloc, my_realloc, my_free };
  if (argc > 1) fail_at = atoi(argv[1]);
  p_libsys_init();
  p_mem_set_vtable(&vt);
  n = 0;
  PRWLock *l = p_rwlock_new();      /* request 1 = PRWLock, 2 = PMutex, 3/4 = PCondVariable */
  printf("p_rwlock_new with allocation %d failing returned %p\n", fail_at, (void *) l);
  return 0;
}
