from vf import Q
from conc_common import BASE, PT, REDIR_PT, TFLAGS, caps, TRUSTED

META = {
 "assumptions": [
  "pthread mutex / condition variable = models/pthread_model.c (POSIX contract: wait = atomic {register as waiter, release the mutex} then "
  "atomic {woken or spurious, re-acquire}; signal wakes exactly one nondeterministically chosen waiter of that condition object; broadcast all; "
  "at most VM_SPURIOUS spurious wake-ups per thread); the model resolves objects by ADDRESS, an unknown address is an assertion failure",
  "seq_wait_releases_via_api: the blocking point of pthread_cond_wait is emulated sequentially - the model releases the platform mutex, runs a second "
  "context to completion through the PUBLIC p_mutex_* / p_cond_variable_* API, then re-acquires for the waiter (one preemption, at the blocking point)",
  "wake-delivery monitor (-DVM_WAKE_MONITOR): a thread the model woke by signal/broadcast must return from p_cond_variable_wait to the harness before the "
  "library calls pthread_cond_wait for it again; spurious model wake-ups do not count, so an internal loop on spurious wake-ups alone stays legal "
  "(pcondvariable.h asks callers to re-check their predicate and promises no filtering)",
  "completion = transition-time deadlock check (a thread blocks or finishes while a waiter has no pending wake-up and nobody else can run); "
  "spurious wake-ups never count as rescue",
  "'exchanges always complete' for unbounded threads/events follows from the decided wrapper effects (right handle pair, broadcast wakes all, "
  "signal wakes >=1 waiter of that object) plus the POSIX contract for clients that re-check their predicate; the bounded-buffer and gate runs "
  "decide it directly inside the stated bounds",
  "objects are allocated before the first thread starts (p_malloc0 supplied by the harness: typed static storage)"],
 "outside": ["the real futex implementation of pthread_cond_*", "more than 3 threads / 2 events in the client-protocol runs",
             "timed waits (plibsys has none)"],
}
MANIFEST = {
 "level_text": "Bounded model checking of the real pcondvariable-posix.c + pmutex-posix.c over a pthread model: sequential queries decide for ALL waiter "
               "sets over 3 threads and two condition objects that broadcast wakes every waiter and signal at least one waiter of exactly that "
               "object, that wait hands exactly the given (condition, mutex) pair to the platform and returns owning that mutex, that the release is visible through the PUBLIC API (another thread's "
               "p_mutex_trylock / p_mutex_lock succeeds while the waiter is blocked and fails again once the wait has returned), and the return-code "
               "mapping; thread queries run a capacity-1 bounded buffer and a broadcast gate under every interleaving with spurious wake-ups and decide "
               "no item lost/duplicated, monitor exclusion after wake-up, and completion (no lost wake-up). The wrappers are thin, so the right "
               "level is 'exact effect on the platform for all argument/waiter configurations' plus a client protocol under all schedules.",
 "level_note": TRUSTED + " Bounds: waiter sets over 3 threads x 2 condition objects (exhaustive); client runs: 2-3 threads, <=2 events, <=1 spurious wake-up per thread.",
 "technique": "CBMC sequential effect queries on model state + CBMC native threads (bounded buffer, broadcast gate) with transition-time deadlock check",
 "design_ref": "DESIGN.md §3 C03",
}
UNITS = ["src/pcondvariable-posix.c", "src/pmutex-posix.c"]
LIBLOOP = 3   # global bound for loops not named in unwindset (the unchanged units have none: a loop added to the library cannot hang a query)
FUNCS = ["p_cond_variable_new", "p_cond_variable_wait", "p_cond_variable_signal", "p_cond_variable_broadcast", "p_mutex_new", "p_mutex_lock", "p_mutex_unlock"]


def seq(name, defs, nthr, nmtx, ncv, spurious=None):
    return Q(name, "harness/C03_seq.c", units=UNITS, models=PT, defs=defs + caps(nthr, nmtx=nmtx, ncv=ncv, spurious=spurious), includes=REDIR_PT,
             funcs=FUNCS, timeout=300, unwind=LIBLOOP, bounds={"threads_in_model": nthr, "mutexes": nmtx, "conditions": ncv})


def buffer(events, ncons, spurious, timeout=1200):
    nt = ncons + 1
    waits = 1 + spurious + (1 if nt > 2 else 0)      # cond_wait calls per monitor entry; unwinding assertion proves sufficiency
    return Q("buffer_e%d_c%d_s%d" % (events, ncons, spurious), "harness/C03_buffer.c", units=UNITS, models=PT,
             defs=["EVENTS=%d" % events, "NCONS=%d" % ncons] + caps(nt, nmtx=1, ncv=2, spurious=spurious), hdefs=["VM_WAKE_MONITOR"],
             includes=REDIR_PT, threads=True, flags=list(TFLAGS), funcs=FUNCS, timeout=timeout, unwind=LIBLOOP,
             unwindset={"producer.0": waits + 1, "producer.1": events + 1, "consumer.0": waits + 1, "consumer.1": events // ncons + 1},
             bounds={"threads": nt, "events": events, "consumers": ncons, "capacity": 1, "spurious_wakeups_per_thread": spurious,
                     "cond_waits_per_monitor_entry": waits})


def gate(nwait, spurious, timeout=1200):
    nt = nwait + 1
    return Q("gate_w%d_s%d" % (nwait, spurious), "harness/C03_buffer.c", units=UNITS, models=PT,
             defs=["MODE_GATE", "NWAIT=%d" % nwait] + caps(nt, nmtx=1, ncv=2, spurious=spurious), hdefs=["VM_WAKE_MONITOR"], includes=REDIR_PT,
             threads=True, flags=list(TFLAGS), funcs=FUNCS, timeout=timeout, unwind=LIBLOOP, unwindset={"waiter.0": 2 + spurious},
             bounds={"threads": nt, "waiters": nwait, "spurious_wakeups_per_thread": spurious})


def wake(nthreads, spurious, timeout=600):
    return Q("wake_delivered_%dthr_s%d" % (nthreads, spurious), "harness/C03_wake.c", units=UNITS, models=PT,
             defs=["NTHREADS=%d" % nthreads] + caps(nthreads, nmtx=1, ncv=1, spurious=spurious), hdefs=["VM_WAKE_MONITOR", "VM_NO_DEADLOCK_CHECK"],
             includes=REDIR_PT, threads=True, flags=list(TFLAGS), funcs=FUNCS, timeout=timeout, unwind=LIBLOOP,
             bounds={"threads": nthreads, "scenario": "W1 waits; broadcast; a second thread enters the wait on the same condition before W1 re-acquired",
                     "spurious_wakeups_per_thread": spurious, "loops_inside_the_library": "none in the unchanged units; a changed unit's loops are cut at %d with unwinding assertion" % LIBLOOP})


def queries(tier):
    qs = [seq("seq_effect_signal_broadcast", ["Q_EFFECT", "VM_PT_GHOST"], 4, 1, 2),
          seq("seq_wait_handoff", ["Q_HANDOFF", "VM_PT_GHOST"], 2, 2, 2, spurious=1),
          seq("seq_return_codes", ["Q_RC", "VM_PT_FAULTS"], 1, 1, 1),
          Q("seq_wait_releases_via_api", "harness/C03_release.c", units=UNITS, models=PT, defs=caps(2, nmtx=2, ncv=2),
            hdefs=["VM_CW_HOOK=other_context", "VM_CW_RELEASE"], includes=REDIR_PT, funcs=FUNCS + ["p_mutex_trylock"], timeout=300, unwind=LIBLOOP,
            bounds={"contexts": "A (waiter) + B (run to completion at A's blocking point, nested emulation)", "mutexes": 2, "conditions": 2,
                    "B_entry": "p_mutex_trylock or p_mutex_lock (symbolic)"})]
    if tier == "quick":
        qs += [buffer(1, 1, 1), gate(1, 1), gate(2, 0), wake(2, 1), wake(3, 0)]
    else:
        qs += [wake(2, 1), wake(3, 0), buffer(1, 1, 1), buffer(1, 1, 2), buffer(2, 1, 0, timeout=3000), gate(1, 1), gate(1, 2), gate(2, 0), gate(2, 1, timeout=3000)]
    return qs
