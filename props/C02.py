from vf import Q
from conc_common import BASE, PT, REDIR_PT, TFLAGS, caps, roles, TRUSTED

META = {
 "assumptions": [
  "pthread mutex / condition variable / rwlock = models/pthread_model.c (POSIX contract; cond_wait = atomic {register, release, deadlock check} "
  "then atomic {woken or spurious, re-acquire}; signal wakes exactly one nondeterministically chosen waiter of that condition object; "
  "at most VM_SPURIOUS spurious wake-ups per thread; rwlock model without writer preference)",
  "deadlock / lost wake-up = a thread blocks or finishes while some thread is still waiting and no unfinished thread is running or signalled "
  "(asserted inside the acting thread's atomic step); spurious wake-ups are never counted as rescue",
  "objects are allocated before the first thread starts (p_malloc0 supplied by the harness: typed static storage)",
  "inductive query (gen_inductive_any_threads): other threads are represented by havocking the two counter words to any state satisfying the "
  "representation invariant while the caller waits; the invariant is itself re-established by every segment (checked)",
  "CBMC thread harnesses run without pointer checks (tool limit); memory safety of the units is not the subject here"],
 "outside": ["general model: more than 2 threads in the full-interleaving queries with blocking calls on all sides (3-thread mixes are limited to the "
             "ones listed in bounds); more than one lock/unlock round per thread",
             "writer starvation / fairness", "the real futex-based pthread implementation",
             "failure of p_rwlock_new in the general model (C18)"],
}
MANIFEST = {
 "level_text": "Bounded model checking of the real prwlock-general.c (on the real pmutex-posix.c / pcondvariable-posix.c) and prwlock-posix.c over a pthread "
               "model: every interleaving of reader/writer/try-reader/try-writer threads is a solver variable, ghost reader/writer counters decide "
               "exclusion at every step, a reachability witness shows two readers inside at once, spurious wake-ups are injected, and a "
               "transition-time check decides that no thread is left waiting without a pending wake-up (lost signal / deadlock). The hand-written "
               "general model is never compiled on Linux, so no test ever ran it; a missed signal needs one specific order of unlock versus wait.",
 "level_note": TRUSTED + " Bounds: 2 threads (all 2-role mixes) and selected 3-thread mixes, one lock/unlock round each, <=2 spurious wake-ups per thread.",
 "technique": "CBMC native threads on the real units over a pthread model with transition-time deadlock check; sequential trylock / return-code queries",
 "design_ref": "DESIGN.md §3 C02",
}

GEN_UNITS = ["src/prwlock-general.c", "src/pmutex-posix.c", "src/pcondvariable-posix.c"]
GEN_FUNCS = ["p_rwlock_new", "p_rwlock_reader_lock", "p_rwlock_reader_trylock", "p_rwlock_reader_unlock", "p_rwlock_writer_lock",
             "p_rwlock_writer_trylock", "p_rwlock_writer_unlock", "p_mutex_lock", "p_mutex_unlock", "p_cond_variable_wait",
             "p_cond_variable_signal", "p_cond_variable_broadcast"]
POSIX_FUNCS = GEN_FUNCS[:7] + ["pp_rwlock_unlock_any"]


def gen(rs, spurious, waits, share=False, timeout=1200, extra=()):
    """general model, thread roles rs (R W r w), `waits` = cond_wait calls allowed per lock call (+1 = loop bound, with unwinding assertion)"""
    nt = len(rs)
    defs = roles(rs) + caps(nt, nmtx=1, ncv=2, spurious=spurious) + list(extra)
    if share:
        defs.append("SHARE_WITNESS")
    if "".join(rs) == "RR":
        defs.append("RENDEZVOUS")
    nblock = sum(1 for r in rs if r in "RW")
    defs.append("MIN_ACQ=%d" % nblock)
    name = "gen_%s_s%d" % ("".join(rs), spurious)
    return Q(name, "harness/C02_threads.c", units=GEN_UNITS, models=PT, defs=defs, includes=REDIR_PT, threads=True, flags=list(TFLAGS),
             unwindset={"thread.0": 2, "p_rwlock_reader_lock.0": waits + 1, "p_rwlock_writer_lock.0": waits + 1},
             funcs=GEN_FUNCS, timeout=timeout,
             bounds={"threads": nt, "roles": "".join(rs) + " (R/W blocking reader/writer, r/w trylock)", "rounds": 1,
                     "spurious_wakeups_per_thread": spurious, "cond_waits_per_lock_call": waits})


def posix(rs, share=False):
    nt = len(rs)
    defs = roles(rs) + caps(nt, nrw=1)
    if share:
        defs.append("SHARE_WITNESS")
    if "".join(rs) == "RR":
        defs.append("RENDEZVOUS")
    defs.append("MIN_ACQ=%d" % sum(1 for r in rs if r in "RW"))
    return Q("posix_%s" % "".join(rs), "harness/C02_threads.c", units=["src/prwlock-posix.c"], models=PT, defs=defs, includes=REDIR_PT,
             threads=True, flags=list(TFLAGS), unwindset={"thread.0": 2}, funcs=POSIX_FUNCS, timeout=600,
             bounds={"threads": nt, "roles": "".join(rs), "rounds": 1})


def seq(impl, rc):
    defs = caps(1, nmtx=1, ncv=2, nrw=1)
    units = GEN_UNITS if impl == "general" else ["src/prwlock-posix.c"]
    if impl == "general":
        defs.append("IMPL_GENERAL")
    if rc:
        defs += ["RC_MAP", "VM_PT_FAULTS"]
    return Q("seq_%s_%s" % ("rc" if rc else "trylock", impl), "harness/C02_seq.c", units=units, models=PT, defs=defs, includes=REDIR_PT,
             unwindset={"p_rwlock_reader_lock.0": 1, "p_rwlock_writer_lock.0": 1},
             funcs=GEN_FUNCS if impl == "general" else POSIX_FUNCS, timeout=300,
             bounds={"threads": 1, "pthread_result": "first platform call of the operation fails with any non-zero int" if rc else "success"})


def inductive():
    return Q("gen_inductive_any_threads", "harness/C02_inductive.c", units=GEN_UNITS, models=PT,
             defs=caps(1, nmtx=1, ncv=2) + ["VM_PT_GHOST", "VM_CW_HOOK=cw_hook"], includes=REDIR_PT,
             unwindset={"p_rwlock_reader_lock.0": 3, "p_rwlock_writer_lock.0": 3}, unwind_assert=False, flags=["--no-unwinding-assertions"],
             funcs=GEN_FUNCS, timeout=600,
             bounds={"threads": "any number below 2^15-1 (pre-state = arbitrary counter values satisfying the representation invariant)",
                     "segments_per_call": "entry->wait, wake->wait, wake->return (wait loop cut after 2 waits WITHOUT unwinding assertion: "
                                          "every segment starts from a havocked state, a third wait repeats the second)"})


def queries(tier):
    qs = [inductive(), seq("general", False), seq("posix", False), seq("general", True), seq("posix", True)]
    qs += [posix("RW"), posix("WW"), posix("RR", share=True), posix("rW"), posix("Rw")]
    if tier == "quick":
        qs += [gen("WW", 2, 3), gen("RW", 2, 3), gen("RR", 2, 3, share=True), gen("Wr", 2, 3), gen("Rw", 2, 3), gen("rw", 0, 1)]
    else:
        qs += [gen("WW", 2, 3, timeout=3000), gen("RW", 2, 3, timeout=3000), gen("RR", 2, 3, share=True), gen("Wr", 2, 3), gen("Rw", 2, 3),
               gen("Ww", 2, 3), gen("Rr", 2, 3, share=True), gen("rw", 0, 1), gen("rr", 0, 1, share=True), gen("ww", 0, 1)]
        qs += [posix("RRW", share=True), posix("RWW"), posix("WWW"), posix("rwW")]
        qs += THREE()
    return qs


def THREE():
    """3-thread mixes of the general model that are decided inside the thorough budget.  Measured on the (heavily loaded) 16-core
    machine: Rrw 558 s, Wrw 610 s, RWw 1022 s, WWr 1202 s; three blocking threads (RWW) did not finish in 900 s and are outside the claim
    (safety for any number of threads is covered by gen_inductive_any_threads)."""
    return [gen("Wrw", 0, 2, timeout=3400), gen("Rrw", 0, 2, share=True, timeout=3400), gen("WWr", 0, 2, timeout=3400), gen("RWw", 0, 2, timeout=3400)]
