"""C13: red-black and AVL trees stay balanced -- the post-state of every operation from every valid tree of
height <= H satisfies the RB / AVL invariant again (inductive), and the invariant implies the depth bound."""
import trees_common as tc
from trees_common import step, hist
import C12 as _c12

META = {
 "assumptions": _c12.META["assumptions"] + [
  "depth bound: 'valid RB/AVL shape => height and lookup comparisons <= floor(2*log2(n+1)) / floor(1.44*log2(n+2))' is decided for every valid tree on the 31-node skeleton (n <= 31); "
  "for larger n it is the textbook consequence of the invariant, not re-proved here"],
 "outside": ["trees higher than H before the operation (quick: H=3 for every case + the H=4 leaf removals at depth 2; thorough: H=4 for every case)", "n > 31 for the explicit depth table",
             "comparators that are not total orders"],
 "units_included_by_harness": tc.INCLUDED,
}
MANIFEST = {
 "level_text": "Bounded model checking of the real ptree-rb.c / ptree-avl.c: from EVERY tree satisfying the red-black invariant (root black, no red-red, equal black height, parent links) resp. the AVL "
               "invariant (stored balance factor = real height difference in {-1,0,1}, parent links) on the skeleton of height H, one insert / replace / remove at every key position is executed "
               "symbolically and the post-state is shown to satisfy the same invariant and the depth bound of the statement. The step is inductive (pre-states are all valid trees, not only those some "
               "test happened to build), which is what reaches the rarely taken removal cases (sibling colours / balance factors). A second family of queries decides 'invariant => height and number of "
               "comparisons of p_tree_lookup <= bound(n)' for all valid shapes with n <= 31.",
 "level_note": "Trusted: CBMC 6.11 + minisat; allocator ledger model. Bounds: H=3 (<=7 nodes before the step) quick, H=4 (<=15 nodes) thorough; depth table n <= 31; histories of 3 / 4 calls.",
 "technique": "CBMC inductive step over symbolic valid RB/AVL trees (colours / balance factors symbolic), invariant re-established; depth-bound lemma on a 31-node skeleton",
 "design_ref": "DESIGN.md §3 C12-C14",
}
PROP = "C13"


def queries(tier):
    qs, h = [], 3
    for tt in (1, 2):
        for p in tc.insert_new_cases(h):
            qs.append(step(PROP, tt, h, 0, p, 0, newmode=1))
            # the node allocation fails: the tree (incl. colours / balance factors) must be exactly the pre-state, hence still valid
            qs.append(step(PROP, tt, h, 0, p, 0, newmode=1, extra=["ALLOC_FAIL"]))
        for p in tc.hit_cases(h):
            qs.append(step(PROP, tt, h, 0, p, 1, newmode=1))
            for rc in tc.remcases(h, p):
                qs.append(step(PROP, tt, h, 1, p, 1, newmode=1, remcase=rc))
        for p in (1, 4, 9, 15):
            qs.append(step(PROP, tt, h, 1, p, 0, newmode=1))
        # depth bound: every valid shape, symbolic lookup key, symbolic comparator magnitude
        for hh in (3, 4, 5):
            qs.append(step(PROP, tt, hh, 2, newmode=1, extra=["SYM_MAG"]))
    qs += tc.quick_h4_removals(PROP)
    qs.append(hist(PROP, 1, 3, 1))
    qs += tc.avl_hist(PROP, 1, tier)
    if tier == "thorough":
        qs += tc.thorough_h4(PROP, (), newmode=1, types=(1, 2))
        qs.append(hist(PROP, 1, 4, 1, timeout=3000))
    return qs
