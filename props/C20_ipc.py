"""C20, IPC part (merged into C20.py by the lead): resource neutrality of PSemaphore / PShm / PShmBuffer scripts under symbolic
system-call failures.  C18_ipc.py reuses the same scripts under allocation failure."""
from vf import Q, load_findings
KM = ["models/kernel_ipc.c", "models/alloc.c", "models/verif.c", "models/libc_stub.c"]
STUB = ["models/kernel_ipc_keystub.c"]
CORE = ["src/pshmbuffer.c", "src/pshm-posix.c", "src/psemaphore-posix.c", "src/psysclose-unix.c", "src/perror.c", "src/pstring.c", "src/pmem.c"]
HASH = ["src/pipc.c", "src/pcryptohash.c", "src/pcryptohash-sha1.c", "src/pcryptohash-md5.c", "src/pcryptohash-sha2-256.c", "src/pcryptohash-sha2-512.c",
        "src/pcryptohash-sha3.c", "src/pcryptohash-gost3411.c"]
UNITS = CORE + HASH
FUNCS = ["p_semaphore_new", "p_semaphore_free", "p_shm_new", "p_shm_free", "p_shm_buffer_new", "p_shm_buffer_free", "p_ipc_get_platform_key",
         "pp_semaphore_create_handle", "pp_semaphore_clean_handle", "pp_shm_create_handle", "pp_shm_clean_handle", "p_error_new_literal"]
SCRIPTS = ["semaphore", "shm", "shmbuffer"]
ASSUME = [
  "p_ipc_get_platform_key = injective stub models/kernel_ipc_keystub.c (one allocation, may fail) in the quick scripts, the real pipc.c + SHA-1 in the *_realkeys scripts (thorough) and in C18 ipc_key_alloc",
  "kernel model models/kernel_ipc.c: descriptor / mapping (page granular) / handle / name ledgers; "
  "symbolic failures of sem_open, shm_open, ftruncate, fstat, mmap with ENOMEM or EACCES; close/munmap/sem_close/unlink of valid arguments succeed",
  "allocator ledger installed through p_mem_set_vtable (models/alloc.c); printf has an empty body",
  "strlen/strcpy/strcat/strncat/memcpy: CBMC built-in library models on concrete names"]
OUTSIDE = ["scripts are representative (constructor, one use, take ownership, free), not all call sequences", "resources not modelled (kernel memory of the objects)",
           "psemaphore-sysv.c / pshm-sysv.c (not built on this platform)"]
META = {"assumptions": ASSUME, "outside": OUTSIDE}
MANIFEST = {
 "level_text": "IPC part: constructor/use/free scripts of the real psemaphore-posix.c, pshm-posix.c, pshmbuffer.c and pipc.c (real SHA-1 key derivation) run symbolically over a kernel model with ledgers for descriptors, mapped pages, semaphore handles and names; up to two system calls fail at solver-chosen positions and the object may pre-exist; every path must return all ledgers to their initial values and close each descriptor exactly once.",
 "level_note": "Trusted: CBMC 6.11, kernel ledger model, allocator model. Bounds: <=2 failing system calls per script, model page size 4/16 bytes, segment <=3 pages.",
 "technique": "CBMC bounded symbolic execution with symbolic fault injection and resource ledgers in the environment model",
 "design_ref": "DESIGN.md §3 C20",
}
UW = {"p_semaphore_acquire.0": 2, "pp_semaphore_create_handle.0": 2, "pp_semaphore_create_handle.1": 2,
      "pp_shm_create_handle.0": 2, "pp_shm_create_handle.1": 2}
def xdefs(ids):
    return ["KF_OPEN_" + f["id"] for f in load_findings() if f["id"] in ids and f.get("status") == "open"]
def script(i, mode, prop, demo=None, k=None, last=False, real=False):
    defs = ["SCRIPT=%d" % i, "MODE_%s" % mode, "KMAX=%d" % (24 if real else 12)] + (["VK_REAL_NAMES", "VK_NSLOT=4"] if real else [])
    defs += ["VK_PAGE=16", "VK_NPAGES=3"] if i == 2 else []
    defs += xdefs(["C06_create_existing", "C08_smaller_size"] + (["C20_shm_munmap_clamped"] if not demo else []))
    if demo: defs.append(demo)
    if k is not None: defs.append("FAIL_AT=%d" % k)
    if last: defs.append("FAIL_LAST")
    return Q("ipc_%s_%s%s%s%s" % (SCRIPTS[i], mode.lower(), "_kfdemo" if demo else "", "_k%d" % k if k is not None else "", "_realkeys" if real else ""),
             "harness/C20_ipc.c", units=UNITS if real else CORE, models=KM + ([] if real else STUB), hdefs=defs,
             includes=["models/redir_ipc.h"], unwind=90 if real else 70, unwindset=UW, timeout=1500, funcs=FUNCS, object_bits=10,
             kf="C20_shm_munmap_clamped" if demo else None,
             bounds={"failing_syscalls": 2 if mode == "SYS" else 0, "alloc_failure_index": ("%s, once or from-k-on" % k) if mode == "ALLOC" else "none",
                     "object_preexists": "symbolic"})
def queries(tier):
    qs = [script(i, "SYS", "C20") for i in range(3)] + [script(1, "SYS", "C20", demo="KF_DEMO_MUNMAP")]
    if tier == "thorough":
        qs += [script(i, "SYS", "C20", real=True) for i in range(3)]     # same scripts over the real SHA-1 key derivation
    return qs
