"""Shared query builders for C12 / C13 / C14 (PTree: BST, red-black, AVL).

One *step query* = the real ptree*.c code (included by the harness so that the private node structs are
the real ones) executing ONE operation from every valid tree of height <= H built on the complete-tree
skeleton (see harness/trees_step.h), for one operation key position KPOS chosen here (one query per
position; shapes, colours / balance factors, comparator magnitude, stop point are solver variables).
"""
from vf import Q

MODELS = ["models/alloc.c", "models/verif.c", "models/libc_stub.c"]
UNITS = ["src/pmem.c"]
INCLUDED = ["src/ptree.c", "src/ptree-bst.c", "src/ptree-rb.c", "src/ptree-avl.c"]
TNAME = {0: "bst", 1: "rb", 2: "avl"}
OPNAME = {0: "insert", 1: "remove", 2: "lookup", 3: "foreach", 4: "clear"}
FUNCS = {
    0: ["p_tree_bst_insert", "p_tree_bst_remove", "p_tree_bst_node_free"],
    1: ["p_tree_rb_insert", "p_tree_rb_remove", "pp_tree_rb_balance_insert", "pp_tree_rb_balance_remove",
        "pp_tree_rb_rotate_left", "pp_tree_rb_rotate_right", "p_tree_rb_node_free"],
    2: ["p_tree_avl_insert", "p_tree_avl_remove", "pp_tree_avl_balance_insert", "pp_tree_avl_balance_remove",
        "pp_tree_avl_rotate_left", "pp_tree_avl_rotate_right", "pp_tree_avl_rotate_left_right",
        "pp_tree_avl_rotate_right_left", "p_tree_avl_node_free"],
}
COMMON_FUNCS = ["p_tree_new", "p_tree_new_with_data", "p_tree_new_full", "p_tree_insert", "p_tree_remove", "p_tree_lookup",
                "p_tree_foreach", "p_tree_clear", "p_tree_free", "p_tree_get_nnodes", "p_tree_get_type"]


def unwindset(h, post_extra=1):
    """explicit bound for every loop of the real code; pre-state height <= h, n <= 2^h-1 (+1 after insert)"""
    n = (1 << h) - 1 + post_extra
    d = h + 2           # descent over a tree of height <= h+1
    return {
        "p_tree_lookup.0": d,
        "p_tree_foreach.0": 2 * n + 2, "p_tree_foreach.1": h + 2,
        "p_tree_clear.0": 2 * n + 2, "p_tree_clear.1": n + 1,
        "p_tree_bst_insert.0": h + 1, "p_tree_bst_remove.0": h + 1, "p_tree_bst_remove.1": h + 1,
        "p_tree_rb_insert.0": h + 1, "p_tree_rb_remove.0": h + 1, "p_tree_rb_remove.1": h + 1,
        "pp_tree_rb_balance_insert.0": h + 1, "pp_tree_rb_balance_remove.0": h + 1,
        "p_tree_avl_insert.0": h + 1, "p_tree_avl_remove.0": h + 1, "p_tree_avl_remove.1": h + 1,
        "pp_tree_avl_balance_insert.0": h + 2, "pp_tree_avl_balance_remove.0": h + 1,
    }


def step(prop, tt, h, op, kpos=None, newmode=2, extra=(), kf=None, kf_match=None, timeout=900, tag=""):
    n = (1 << h) - 1
    defs = ["TT=%d" % tt, "H=%d" % h, "OP=%d" % op, "NEWMODE=%d" % newmode] + list(extra)
    if kpos is not None:
        defs.append("KPOS=%d" % kpos)
    name = "%s_%s_h%d%s_m%d%s" % (TNAME[tt], OPNAME[op], h, "_k%02d" % kpos if kpos is not None else "", newmode, tag)
    return Q(name, "harness/%s_step.c" % prop, units=UNITS, models=MODELS, defs=defs,
             unwind=2 * n + 4, unwindset=unwindset(h), kf=kf, kf_match=kf_match,
             funcs=COMMON_FUNCS + FUNCS[tt],
             bounds={"tree_type": TNAME[tt], "pre_state": "every valid tree of height <= %d (<= %d nodes), shape/colours/balance symbolic" % (h, n),
                     "operation": OPNAME[op], "op_key_position": kpos if kpos is not None else "symbolic",
                     "constructor": ["p_tree_new", "p_tree_new_with_data", "p_tree_new_full+notifiers"][newmode]},
             timeout=timeout)
