"""Shared query builders for C12 / C13 / C14 (PTree: BST, red-black, AVL).

One *step query* = the real ptree*.c code (included by the harness so that the private node structs are
the real ones) executing ONE operation from every valid tree of height <= H built on the complete-tree
skeleton (see harness/trees_step.h).  The runner (this file) case-splits on where the search for the operation key
ends (skeleton position PPOS, hit/miss) and, for removals of a stored key, on the neighbourhood that decides which node is
unlinked (REMCASE); one query per case, everything else (shape, colours / balance factors, lookup keys, stop point) is a
solver variable.  Fix-up loop bounds are tight per case (depth of the unlinked / inserted node + 1).
"""
from vf import Q

MODELS = ["models/verif.c", "models/libc_stub.c"]
UNITS = ["src/pmem.c"]
INCLUDED = ["src/ptree.c", "src/ptree-bst.c", "src/ptree-rb.c", "src/ptree-avl.c"]
TNAME = {0: "bst", 1: "rb", 2: "avl"}
OPNAME = {0: "insert", 1: "remove", 2: "lookup", 3: "foreach", 4: "clear"}
CTOR = ["p_tree_new", "p_tree_new_with_data", "p_tree_new_full + key and value notifiers", "p_tree_new_full + key notifier only",
        "p_tree_new_full + value notifier only", "p_tree_new_full, notifier configuration symbolic"]
FUNCS = {
    0: ["p_tree_bst_insert", "p_tree_bst_remove", "p_tree_bst_node_free"],
    1: ["p_tree_rb_insert", "p_tree_rb_remove", "pp_tree_rb_balance_insert", "pp_tree_rb_balance_remove",
        "pp_tree_rb_rotate_left", "pp_tree_rb_rotate_right", "p_tree_rb_node_free"],
    2: ["p_tree_avl_insert", "p_tree_avl_remove", "pp_tree_avl_balance_insert", "pp_tree_avl_balance_remove",
        "pp_tree_avl_rotate_left", "pp_tree_avl_rotate_right", "pp_tree_avl_rotate_left_right",
        "pp_tree_avl_rotate_right_left", "p_tree_avl_node_free"],
}
COMMON_FUNCS = ["p_tree_new", "p_tree_new_with_data", "p_tree_new_full", "p_tree_insert", "p_tree_remove", "p_tree_lookup",
                "p_tree_foreach", "p_tree_clear", "p_tree_free", "p_tree_get_nnodes", "p_tree_get_type"]


def REMNAME(c):
    return ["leaf", "leftonly", "rightonly"][c] if c < 3 else "two_pred%d" % (c - 3)


def unwindset(h, post_extra=1):
    """explicit bound for every loop of the real code; pre-state height <= h, n <= 2^h-1 (+1 after insert)"""
    n = (1 << h) - 1 + post_extra
    d = h + 2           # descent over a tree of height <= h+1
    return {
        "p_tree_lookup.0": d,
        # nested loops: CBMC numbers the INNER loop .0, the outer one .1
        "p_tree_foreach.0": h + 2, "p_tree_foreach.1": 2 * n + 2,
        "p_tree_clear.0": n + 1, "p_tree_clear.1": 2 * n + 2,
        "p_tree_bst_insert.0": h + 1, "p_tree_bst_remove.0": h + 1, "p_tree_bst_remove.1": h + 1,
        "p_tree_rb_insert.0": h + 1, "p_tree_rb_remove.0": h + 1, "p_tree_rb_remove.1": h + 1,
        "pp_tree_rb_balance_insert.0": h + 1, "pp_tree_rb_balance_remove.0": h + 1,
        "p_tree_avl_insert.0": h + 1, "p_tree_avl_remove.0": h + 1, "p_tree_avl_remove.1": h + 1,
        "pp_tree_avl_balance_insert.0": h + 2, "pp_tree_avl_balance_remove.0": h + 1,
    }


def step(prop, tt, h, op, ppos=None, hit=0, newmode=2, remcase=None, extra=(), kf=None, kf_match=None, timeout=900, tag=""):
    n = (1 << h) - 1
    defs = ["TT=%d" % tt, "H=%d" % h, "OP=%d" % op, "NEWMODE=%d" % newmode] + list(extra)
    if ppos is not None:
        defs += ["PPOS=%d" % ppos, "HIT=%d" % hit]
        # comparator result magnitude: concrete in step queries (keeps the search path concrete), 1 or 1000 by position parity
        # (the code may only look at the sign; the unit tests only ever return -1/0/1)
        defs.append("CMP_MAG=%d" % (1000 if ppos % 2 else 1))
    if remcase is not None:
        defs.append("REMCASE=%d" % remcase)
        tag = "_" + REMNAME(remcase) + tag
    if "ALLOC_FAIL" in extra:
        tag += "_allocfail"
    for e in extra:
        if e.startswith("NULLTOK="):
            tag += "_null" + e[8:]
    name = "%s_%s_h%d%s_m%d%s" % (TNAME[tt], OPNAME[op], h, "_p%02d%s" % (ppos, "hit" if hit else "miss") if ppos is not None else "", newmode, tag)
    us = unwindset(h)
    if ppos is not None and op in (0, 1):
        # the search path is concrete: the fix-up loops start at a node of known depth and climb one level (RB insert: two) per round
        du = depth(ppos)
        if op == 1 and hit and remcase is not None and remcase >= 3:
            du = depth(ppos) + 1 + (remcase - 3)          # depth of the in-order predecessor that gets unlinked
        us["pp_tree_avl_balance_insert.0"] = du + 1
        us["pp_tree_rb_balance_insert.0"] = du // 2 + 1
        us["pp_tree_avl_balance_remove.0"] = du + 1
        us["pp_tree_rb_balance_remove.0"] = du + 1
    return Q(name, "harness/%s_step.c" % prop, units=UNITS, models=MODELS, defs=defs,
             unwind=2 * n + 4, unwindset=us, kf=kf, kf_match=kf_match,
             funcs=COMMON_FUNCS + FUNCS[tt],
             bounds={"tree_type": TNAME[tt], "pre_state": "every valid tree of height <= %d (<= %d nodes), shape/colours/balance symbolic" % (h, n),
                     "operation": OPNAME[op], "search_ends_at": ("skeleton position %d (%s)" % (ppos, "key stored there" if hit else "NULL link, key absent")) if ppos is not None else "symbolic",
                     "constructor": CTOR[newmode]},
             timeout=timeout)


def depth(p):
    return p.bit_length() - 1


def insert_new_cases(h):
    """search falls off the tree at NULL link p (all ancestors present): p = 1..2N+1"""
    return list(range(1, 2 * ((1 << h) - 1) + 2))


def hit_cases(h):
    return list(range(1, (1 << h)))


def remcases(h, p):
    """neighbourhoods of a stored node p that decide which node gets unlinked"""
    hs = h - 1 - depth(p)          # levels of the skeleton below p
    out = [0]
    if hs >= 1:
        out += [1, 2] + [3 + j for j in range(hs)]
    return out


def two_child(rc):
    return rc is not None and rc >= 3


def hist(prop, tt, nops, newmode=2, extra=(), timeout=1500, u=None, tag=""):
    u = u or nops   # ranks 1..nops realise every relative order of <= nops keys
    defs = ["TT=%d" % tt, "NOPS=%d" % nops, "NEWMODE=%d" % newmode, "U=%d" % u] + list(extra)
    us = unwindset(nops - 1, 1)   # before every call the tree has height <= nops-1; after the last one <= nops
    us["has_two_children.0"] = nops + 1
    return Q("%s_hist%d_m%d%s" % (TNAME[tt], nops, newmode, tag), "harness/%s_hist.c" % prop, units=UNITS, models=MODELS, defs=defs,
             unwind=max(u, nops) + 3, unwindset=us, funcs=COMMON_FUNCS + FUNCS[tt],
             bounds={"tree_type": TNAME[tt], "history": "%d symbolic insert/remove calls from the empty tree, public API only" % nops,
                     "key_universe": u, "constructor": CTOR[newmode]},
             timeout=timeout)


def thorough_h4(prop, extra=(), newmode=None, types=(0, 1, 2), skip_two_child=False, replace_extra=()):
    """H=4 (<= 15 nodes before the step): every insert position, replace and removal neighbourhood for the given types.
    RB/AVL removals of a stored key cost 30-220 s and 0.8-2 GB each (fix-up loop bounds are tight per case)."""
    h, qs = 4, []
    for tt in types:
        for p in insert_new_cases(h):
            qs.append(step(prop, tt, h, 0, p, 0, newmode=p % 2 if newmode is None else newmode, extra=extra, timeout=1800))
            qs.append(step(prop, tt, h, 0, p, 0, newmode=(p + 1) % 2 if newmode is None else newmode, extra=list(extra) + ["ALLOC_FAIL"], timeout=1800))
        for p in hit_cases(h):
            qs.append(step(prop, tt, h, 0, p, 1, newmode=(p + 1) % 2 if newmode is None else newmode, extra=list(extra) + list(replace_extra), timeout=1800))
            for rc in remcases(h, p):
                if skip_two_child and two_child(rc):
                    continue
                qs.append(step(prop, tt, h, 1, p, 1, newmode=(p + rc) % 2 if newmode is None else newmode, remcase=rc, extra=extra,
                               timeout=3000))
    return qs


def quick_h4_removals(prop, extra=(), newmode=1, types=(1, 2)):
    """the H=4 removals that the H=3 skeleton cannot express: a leaf at depth 2 is removed, the fix-up rotates at depth 1 and
    must then stop or propagate correctly to the root (left and right mirror image)"""
    return [step(prop, tt, 4, 1, p, 1, newmode=newmode, remcase=0, extra=extra, timeout=901) for tt in types for p in (4, 7)]


def avl_hist(prop, newmode, tier, extra=()):   # extra NULLTOK=r: the first inserted pair, if of rank r, is (NULL, NULL)
    """AVL from-empty histories: fully symbolic AVL histories are out of reach for CBMC (3 symbolic inserts: 135 s / 3.7 GB, see lessons), so
    a prefix of inserts with runner-chosen key order is fixed and the LAST call (kind and key) is symbolic."""
    qs = [hist(prop, 2, 3, newmode, extra=["NFIX=2", "KEYSEQ=%s" % ks] + dup + list(extra), u=5, tag="_" + ks.replace(",", ""))
          for ks, dup in (("2,4", []), ("4,2", []), ("2,2", ["PREFIX_DUP"]))]
    if tier == "thorough":
        import itertools
        for perm in itertools.permutations((2, 4, 6)):
            ks = ",".join(map(str, perm))
            qs.append(hist(prop, 2, 4, newmode, extra=["NFIX=3", "KEYSEQ=%s" % ks] + list(extra), u=7, tag="_" + ks.replace(",", "")))
    return qs
