"""C08 shared-memory ring buffer: real pshmbuffer.c, (a) inductive step over a thin PShm model, (b) two-handle histories over the kernel model."""
from vf import Q, load_findings
BASE = ["models/alloc.c", "models/verif.c", "models/libc_stub.c"]
STEP_UNITS = ["src/pshmbuffer.c", "src/perror.c", "src/pstring.c", "src/pmem.c"]
KM = ["models/kernel_ipc.c", "models/kernel_ipc_keystub.c", "models/kernel_ipc_mem.c"] + BASE
HIST_UNITS = ["src/pshm-posix.c", "src/psemaphore-posix.c", "src/psysclose-unix.c", "src/perror.c", "src/pstring.c", "src/pmem.c"]
UW = {"p_semaphore_acquire.0": 2, "pp_semaphore_create_handle.0": 2, "pp_semaphore_create_handle.1": 2,
      "pp_shm_create_handle.0": 2, "pp_shm_create_handle.1": 2}
FUNCS = ["p_shm_buffer_new", "p_shm_buffer_free", "p_shm_buffer_read", "p_shm_buffer_write", "p_shm_buffer_clear", "p_shm_buffer_get_free_space",
         "p_shm_buffer_get_used_space", "pp_shm_buffer_get_free_space", "pp_shm_buffer_get_used_space"]
META = {
 "assumptions": [
  "step_*: p_shm_* replaced by a thin model inside harness/C08_step.c (one segment object, ghost lock; p_shm_lock may fail symbolically); the buffer object comes from the "
  "real p_shm_buffer_new; pre-state = ANY read_pos, write_pos < modulus and ANY bytes (every such state is reachable through the API: write k / read k moves both positions)",
  "memcpy/memset of pshmbuffer.c redirected (models/redir_ipc_mem.h) to bounded byte loops that report every range to the harness: ranges in the segment must lie inside it "
  "and need the lock held, ranges in the caller's buffer must lie inside its len bytes; all segment accesses of pshmbuffer.c are memcpy/memset calls",
  "hist_*: real pshm-posix.c + psemaphore-posix.c over models/kernel_ipc.c (model page 16 bytes), key stub, two processes; harness/C08_hist.c compiles the real "
  "pshmbuffer.c inside its own translation unit (so that only its memcpy/memset are redirected); kinds of the operations and the first handle are enumerated by the runner, "
  "handles alternate; capacities, size arguments, lengths and data are symbolic",
  "hist_*: at every memcpy/memset range inside the segment the lock semaphore PUBLISHED under the name must be taken (one lock for all handles); "
  "*_other_handle_excluded: at the first segment access of an operation the other process runs an operation through the other handle, whose p_shm_lock must block",
  "oom_second_open_keeps_existing_buffer: script of harness/C20_ipc.c (shared with C18/C20) with a live first handle holding data; the allocator fails at a symbolic request index of the second p_shm_buffer_new",
  "shmbuffer_reentrant / shmbuffer_names: see C07 reentrant_* and C06 names_len*_realkey",
  "*_other_holds_lock_eintr2: the other handle's process holds the segment lock; sem_wait of this handle's operation fails with EINTR at a symbolic subset (<=2) of its invocations; "
  "a correct operation keeps waiting (path ends in the model), any segment access or completion is a violation",
  "allocator fails only in oom_* (rest: C18), EINTR only in *_eintr2 (rest: C19), printf empty"],
 "outside": ["ring moduli above 9 (quick) / 17 (thorough) in step_*, capacities above 4 in hist_* (the arithmetic is modulus generic)",
             "interleavings of concurrent readers/writers inside one operation: atomicity is reduced to 'every segment access happens with the PShm lock held and the lock is "
             "released on every exit path' (step_*) plus the lock's mutual exclusion (C07)",
             "histories longer than 3 operations over two handles", "return value of p_shm_buffer_read for counts above INT_MAX (needs a ring > 2 GiB)"],
 "units_included_by_harness": ["src/pshmbuffer.c"],
}
MANIFEST = {
 "level_text": "Bounded model checking of the real pshmbuffer.c. Inductive step: from EVERY valid ring state (both positions, all contents) of every modulus 2..9 (17 thorough) one operation "
               "with ANY 64-bit length is decided by the SAT solver against the FIFO abstraction (all-or-nothing write, oldest min(len,used) bytes in order, used+free = capacity, clear, positions "
               "below the modulus), with every memcpy/memset range checked against the segment and the caller's len-byte buffer, the lock held at every segment access and released on every exit. "
               "Two-handle histories over the IPC kernel model decide 'opening an existing buffer ignores the size argument'. Wrap positions, full/empty boundaries, exact-fit and oversize lengths are "
               "the inputs a single fixed-chunk test never produces; the per-operation state space is small enough to cover completely.",
 "level_note": "Trusted: CBMC 6.11 + SAT back end; thin PShm model / IPC kernel model; bounded memcpy/memset models. Bounds: modulus <= 9/17, hist capacities <= 4, <= 3 operations. "
               "One genuine defect (second handle with a smaller size argument) is a known finding.",
 "technique": "CBMC: inductive step from an arbitrary valid state against a FIFO abstraction + short two-handle histories over a POSIX IPC kernel model",
 "design_ref": "DESIGN.md §3 C08",
}
OPS = ["write", "read", "clear", "get_free_space", "get_used_space"]
def step(op, mmax):
    mm = mmax + 17
    return Q("step_%s_m%d" % (OPS[op], mmax), "harness/C08_step.c", units=STEP_UNITS, models=BASE + ["models/kernel_ipc_mem.c"],
             hdefs=["OP=%d" % op, "MMAX=%d" % mmax, "VM_MEMMAX=%d" % mm], includes=["models/redir_ipc_mem.h"],
             unwindset={"vm_memcpy.0": mm + 1, "vm_memset.0": mm + 1, "harness.0": mmax + 2, "harness.1": mmax + 2, "harness.2": mmax + 2, "harness.3": mmax + 2},
             timeout=1800, funcs=FUNCS,
             bounds={"ring_modulus": "2..%d (symbolic)" % mmax, "len": "any 64-bit value", "pre_state": "any read_pos, write_pos < modulus, any bytes",
                     "lock_failure": "symbolic"})
OPC = {"w": 0, "r": 1, "c": 2, "f": 3, "u": 4}
def hist(seq, start, smax, demo=False, nest=False, locked=False):
    memmax = smax + 18
    uw = dict(UW, **{"vm_memcpy.0": memmax + 1, "vm_memset.0": memmax + 1, "harness.0": len(seq) + 1})
    if locked: uw["p_semaphore_acquire.0"] = 4
    uw.update({"do_op.0": smax + 3, "do_op.1": smax + 3, "do_op.2": smax + 3, "vm_mem_access.0": 8})
    cross = any(a == "w" and b == "r" and (j - i) % 2 == 1 for i, a in enumerate(seq) for j, b in enumerate(seq) if j > i)
    return Q("hist_%s_h%d_s%d%s%s" % (seq, start, smax, "_kfdemo" if demo else "", "_other_handle_excluded" if nest else "") + ("_other_holds_lock_eintr2" if locked else ""), "harness/C08_hist.c", units=HIST_UNITS, models=KM,
             hdefs=["OPS=" + ",".join(str(OPC[c]) for c in seq), "START=%d" % start, "SMAX=%d" % smax, "VK_PAGE=16", "VK_NPAGES=2", "VK_NSHM=2",
                   "VM_MEMMAX=%d" % memmax] + (["KF_DEMO_SMALLER"] if demo else []) + (["EXPECT_CROSS"] if cross else []) + (["NEST"] if nest else []) + (["LOCKED_BY_OTHER", "EINTR_MAX=2"] if locked else []),
             includes=["models/redir_ipc.h"], unwindset=uw, timeout=1500, funcs=FUNCS + ["p_shm_new", "p_shm_lock", "p_shm_unlock"],
             kf="C08_smaller_size" if demo else None,
             bounds={"operations": seq, "first_handle": start, "capacity": "1..%d" % smax, "second_size_argument": "0..%d" % (smax + 2),
                     "len": "1..%d" % (smax + 1)})
def names(tier):
    # long names through the real p_shm_buffer_new -> p_shm_new name handling + real SHA-1 key derivation (harness shared with C06)
    import C06
    qs = [C06.names(n, kind=2) for n in ([51] if tier == "quick" else [1, 50, 51, 64, 100])]
    for q in qs: q.name = "shmbuffer_" + q.name
    return qs
def oom_open_existing():
    # allocation failure (symbolic request index, incl. the final PShmBuffer allocation) while a SECOND handle is opened on an existing buffer
    # with data in it: the failed open must leave the buffer linked, the first handle's data readable, a further open attached to it
    # (script shared with C18/C20: harness/C20_ipc.c)
    import C20_ipc
    q = C20_ipc.script(2, "ALLOC", "C08")
    q.name = "oom_second_open_keeps_existing_buffer"
    q.hdefs = list(q.hdefs) + ["PRE_ONLY=1"]
    return q
def reentrant(tier):
    # two threads create buffers with different names, overlapping at allocator entries of the first call's key derivation (harness shared with C07)
    import C07
    return [C07.reentrant(2, k) for k in ([3, 9] if tier == "quick" else range(1, 11))]
def queries(tier):
    if tier == "quick":
        return names(tier) + reentrant(tier) + [oom_open_existing()] + [step(op, 9) for op in range(5)] + \
               [hist("wr", 0, 4), hist("wr", 1, 4), hist("wwr", 0, 4), hist("wcu", 1, 4), hist("wfr", 1, 4), hist("w", 0, 4, nest=True), hist("r", 1, 4, nest=True), hist("w", 0, 4, locked=True), hist("r", 1, 4, locked=True), hist("w", 1, 4, demo=True)]
    seqs = [a + b for a in "wrcfu" for b in "wrcfu" if "w" in a + b] + ["wwr", "wrw", "wrr", "wcw", "wwc"]
    return names(tier) + reentrant(tier) + [oom_open_existing()] + [step(op, 17) for op in range(5)] + [hist(s, st, 4) for s in seqs for st in (0, 1)] + [hist(o, st, 4, nest=True) for o in "wrcfu" for st in (0, 1)] + [hist(o, st, 4, locked=True) for o in "wrcfu" for st in (0, 1)] + [hist("w", 1, 4, demo=True)]
