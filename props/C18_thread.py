from vf import Q
MODELS = ["models/alloc.c", "models/verif.c", "models/libc_stub.c", "models/thread_emul.c"]
META = {
 "assumptions": [
  "thread part: allocator = models/alloc.c ledger installed through p_mem_set_vtable with the failing request index (vm_fail_at / vm_fail_from)",
  "thread part: pthread_* = models/thread_emul.c (sequential emulation; mutex/cond/rwlock init/destroy/lock as contract models with ledgers; "
  "a created thread runs when it is joined - no preemption in these scripts)",
  "thread part: lock scripts - failing request index symbolic (0..KMAX, once / from there on); thread script - failing index concrete per query "
  "(one entry point per index, same binary) because a symbolic failure point makes the handle pointer symbolic and defeats CBMC's function-pointer resolution; data symbolic",
  "thread part: p_spinlock_lock (c11) replaced by its acquisition contract; printf empty"],
 "outside": ["thread part: interleavings during failing calls (C05 covers interleavings without failures)",
             "thread part: one representative script per module, not all call sequences",
             "thread part: priorities / stack sizes (p_uthread_create_full with non-default arguments)"],
}
MANIFEST = {
 "level_text": "Bounded symbolic execution of the real constructors/destructors of pmutex-posix, pcondvariable-posix, prwlock-general, prwlock-posix, pspinlock-sim and of a puthread script (init, TLS, create, join, current, shutdown) with the allocation failing at every request index, once or from there on; CBMC's pointer checks decide 'no invalid access', the allocator/pthread ledgers decide 'nothing left'.",
 "level_note": "Trusted: CBMC 6.11, allocator ledger, pthread emulation. Scripts are representative; thread-script failure index enumerated by the runner (concrete), everything else decided by the solver.",
 "technique": "CBMC on real units, failing allocator via public vtable, ledger comparison",
 "design_ref": "DESIGN.md §3 C18 (thread/lock modules)",
}
LOCKS = {"mutex": (["src/pmutex-posix.c"], ["SCRIPT_MUTEX"], 2),
         "cond": (["src/pcondvariable-posix.c"], ["SCRIPT_COND"], 2),
         "rwlock_general": (["src/prwlock-general.c", "src/pmutex-posix.c", "src/pcondvariable-posix.c"], ["SCRIPT_RWLOCK", "RWLOCK_GENERAL"], 5),
         "rwlock_posix": (["src/prwlock-posix.c"], ["SCRIPT_RWLOCK"], 2),
         "spin_sim": (["src/pspinlock-sim.c", "src/pmutex-posix.c"], ["SCRIPT_SPIN"], 3)}
def lockq(prefix, harness, name, extra=(), kf=None):
    units, defs, kmax = LOCKS[name]
    return Q("%s_%s%s" % (prefix, name, "_kf_demo" if kf else ""), harness, units=units + ["src/pmem.c"], models=MODELS,
             defs=defs + ["KMAX=%d" % kmax] + list(extra), includes=["models/redir_thread.h"], kf=kf, kf_match=r"p_rwlock_new\.pointer_dereference|p_mutex_free|p_cond_variable_free|double free|free argument|destroy of an initialised object|pthread_mutex_destroy" if kf else None,
             bounds={"failing_allocation_index": "0..%d, once or from there on" % kmax}, timeout=600)
UT_UNITS = ["src/puthread.c", "src/puthread-posix.c", "src/patomic-c11.c", "src/pspinlock-c11.c", "src/pmem.c", "src/pstring.c"]
PROXY = "__CPROVER_file_local_puthread_c_pp_uthread_proxy"
CLEANUP = "__CPROVER_file_local_puthread_c_pp_uthread_cleanup"
def utq(prefix, entry, kf=None, kf_match=None, extra=()):
    return Q("%s_uthread_%s" % (prefix, entry.replace("harness_", "")), "harness/C18_thread_uthread.c", units=UT_UNITS, models=MODELS, entry=entry,
             defs=["TE_NT=1", "TE_SPINLOCK_C11", "TE_START_ROUTINE=" + PROXY, "TE_DTOR_A=" + CLEANUP, "TE_DTOR_B=c18_tls_dtor"] + list(extra),
             includes=["models/redir_thread.h"], export_local=True, remove_bodies=["p_spinlock_lock"], unwindset={"strlen.0": 4},
             kf=kf, kf_match=kf_match, object_bits=10, timeout=600, bounds={"entry": entry})
def queries(tier):
    qs = [lockq("alloc", "harness/C18_thread_locks.c", n) for n in LOCKS]
    qs.append(lockq("alloc", "harness/C18_thread_locks.c", "rwlock_general", ["KF_DEMO"], kf="C18_thread_rwlock_general_new"))
    qs.append(utq("alloc", "harness_k0"))
    for k in range(1, 7):      # the script makes 6 allocation requests after p_uthread_init
        qs += [utq("alloc", "harness_k%d_once" % k), utq("alloc", "harness_k%d_from" % k)]
    qs += [utq("alloc", e) for e in ("harness_init_k1", "harness_init_k2", "harness_init_k1_from")]
    qs.append(utq("alloc_kf_demo", "harness_init_k2_preempt", kf="C18_thread_init_spinlock", extra=["TE_DEPTH=1"],
                  kf_match=r"pp_uthread_proxy\.pointer_dereference|pp_uthread_proxy.*(invalid|NULL)|base_thread->func|function pointer"))
    qs.append(utq("alloc_kf_demo", "harness_k5_once", kf="C18_thread_selfkey_failure", extra=["KF_DEMO"]))
    return qs
