import sock_common
from sock_common import SOCK_ASSUMPTIONS, sq, open_ids
import C18_sock

FUNCS = C18_sock.FUNCS + ["p_sys_close"]
META = {
    "assumptions": SOCK_ASSUMPTIONS + ["C18/C20 socket scripts use the REAL p_error_set_error_p / p_error_new_literal (no recorder)",
                                       "system call failures: socket EMFILE, fcntl EINVAL, get/setsockopt, getsockname, getpeername ENOBUFS, bind EACCES, "
                                       "listen EADDRINUSE, accept EMFILE, at symbolic points, at most 2 per script; close() never fails on an open descriptor"],
    "outside": ["kernel socket buffers", "socket call sequences other than the three scripts"],
}
MANIFEST = {
    "level_text": 'Socket part of C20: the same scripts with up to 2 failing system calls at symbolic points in addition to the failing allocation; descriptor ledger (nothing left open, each fd closed at most once, no close on a non-open fd, foreign fd left to its owner) and allocation ledger back to initial on every path.',
    "level_note": 'Trusted: kernel model with never-reused descriptor slots; close() never fails on an open descriptor; bounds: <=2 failing system calls + 1 failing allocation index per script.',
    "technique": 'CBMC with symbolic syscall-failure points and resource ledgers',
    "design_ref": 'DESIGN.md §3 C20',
}


def queries(tier):
    sock_common.TIER = tier
    qs = C18_sock.scripts("sock_fdledger_sysfail2", "harness/C20_sock.c", 2)
    # close() interrupted (Linux: descriptor released, -1/EINTR): every descriptor still closed exactly once
    kfid = "C20_close_eintr_reclose"
    kfdef = ["KF_OPEN_" + kfid] if kfid in open_ids() else []
    for st, fam, nm in ((1, "AF_INET", "stream_v4"), (0, "AF_INET6", "dgram_v6")):
        qs.append(sq("sock_fdledger_close_eintr_%s" % nm, "harness/C20_sock.c",
                     defs=["SCRIPT=4", "STREAM=%d" % st, "FAMILY=" + fam, "SYSFAIL=1", "KMAX=6"] + kfdef, faults=0, errrec=False, funcs=FUNCS,
                     bounds={"interrupted_close_per_library_call": 1, "failing_allocation_index": "0..6", "failing_syscalls": 1}))
    qs.append(sq("sock_fdledger_close_eintr_kf_demo", "harness/C20_sock.c",
                 defs=["SCRIPT=4", "STREAM=1", "FAMILY=AF_INET", "SYSFAIL=0", "KMAX=6", "KF_DEMO"], faults=0, errrec=False, funcs=FUNCS, kf=kfid,
                 kf_match=r"descriptor closed twice|no close\(\) on a descriptor that is not open",
                 bounds={"interrupted_close_per_library_call": 1}))
    return qs
