from sock_common import SOCK_ASSUMPTIONS
import C18_sock

FUNCS = C18_sock.FUNCS + ["p_sys_close"]
META = {
    "assumptions": SOCK_ASSUMPTIONS + ["C18/C20 socket scripts use the REAL p_error_set_error_p / p_error_new_literal (no recorder)",
                                       "system call failures: socket EMFILE, fcntl EINVAL, get/setsockopt, getsockname, getpeername ENOBUFS, bind EACCES, "
                                       "listen EADDRINUSE, accept EMFILE, at symbolic points, at most 2 per script; close() never fails on an open descriptor"],
    "outside": ["kernel socket buffers", "socket call sequences other than the three scripts"],
}
MANIFEST = {
    "level_text": 'Socket part of C20: the same scripts with up to 2 failing system calls at symbolic points in addition to the failing allocation; descriptor ledger (nothing left open, each fd closed at most once, no close on a non-open fd, foreign fd left to its owner) and allocation ledger back to initial on every path.',
    "level_note": 'Trusted: kernel model with never-reused descriptor slots; close() never fails on an open descriptor; bounds: <=2 failing system calls + 1 failing allocation index per script.',
    "technique": 'CBMC with symbolic syscall-failure points and resource ledgers',
    "design_ref": 'DESIGN.md §3 C20',
}


def queries(tier):
    return C18_sock.scripts("sock_fdledger_sysfail2", "harness/C20_sock.c", 2)
