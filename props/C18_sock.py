from sock_common import sq, SOCK_ASSUMPTIONS

FUNCS = ["p_socket_new", "p_socket_new_from_fd", "p_socket_accept", "p_socket_get_local_address", "p_socket_get_remote_address",
         "p_socket_receive_from", "p_socket_free", "p_socket_close", "p_error_set_error_p", "p_error_new_literal", "p_error_free",
         "p_socket_address_new_from_native", "p_malloc0", "p_malloc", "p_free"]
META = {
    "assumptions": SOCK_ASSUMPTIONS + ["C18/C20 socket scripts use the REAL p_error_set_error_p / p_error_new_literal (no recorder)"],
    "outside": ["socket call sequences other than the three scripts"],
}
MANIFEST = {
    "level_text": "Socket part of C18: three scripts over the allocating socket entry points with the real error-object path; the index k of the failing allocation (once / from k on) is symbolic; CBMC's memory-safety checks plus ledger and unchanged-object assertions decide clean failure.",
    "level_note": 'Trusted: allocator ledger model, kernel model; bounds: k <= 12, three scripts.',
    "technique": 'CBMC with symbolic allocation-failure index',
    "design_ref": 'DESIGN.md §3 C18',
}


def scripts(prefix, harness, sysfail):
    qs = []
    for script, st, fam, nm in ((1, 1, "AF_INET", "new_newfromfd_stream_v4"), (1, 0, "AF_INET6", "new_newfromfd_dgram_v6"),
                                (2, 1, "AF_INET", "listener_accept_addresses_v4"), (2, 1, "AF_INET6", "listener_accept_addresses_v6"),
                                (3, 0, "AF_INET", "receive_from_v4"), (3, 0, "AF_INET6", "receive_from_v6")):
        qs.append(sq("%s_%s" % (prefix, nm), harness, defs=["SCRIPT=%d" % script, "STREAM=%d" % st, "FAMILY=" + fam, "SYSFAIL=%d" % sysfail, "KMAX=12"],
                     faults=0, errrec=False, funcs=FUNCS,
                     bounds={"failing_allocation_index": "0..12, once or from-k-on", "failing_syscalls": sysfail}))
    return qs


def queries(tier):
    return scripts("sock_allocfail", "harness/C18_sock.c", 0)
