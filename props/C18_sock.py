import sock_common
from sock_common import sq, SOCK_ASSUMPTIONS

FUNCS = ["p_socket_new", "p_socket_new_from_fd", "p_socket_accept", "p_socket_get_local_address", "p_socket_get_remote_address",
         "p_socket_receive_from", "p_socket_free", "p_socket_close", "p_error_set_error_p", "p_error_new_literal", "p_error_free",
         "p_socket_address_new_from_native", "p_malloc0", "p_malloc", "p_free"]
META = {
    "assumptions": SOCK_ASSUMPTIONS + ["C18/C20 socket scripts use the REAL p_error_set_error_p / p_error_new_literal (no recorder)"],
    "outside": ["socket call sequences other than the three scripts"],
}
MANIFEST = {
    "level_text": "Socket part of C18: three scripts over the allocating socket entry points with the real error-object path; the index k of the failing allocation (once / from k on) is symbolic; CBMC's memory-safety checks plus ledger and unchanged-object assertions decide clean failure.",
    "level_note": 'Trusted: allocator ledger model, kernel model; bounds: k <= 12, three scripts.',
    "technique": 'CBMC with symbolic allocation-failure index',
    "design_ref": 'DESIGN.md §3 C18',
}


def scripts(prefix, harness, sysfail):
    qs = []
    for script, st, fam, nm in ((1, 1, "AF_INET", "new_newfromfd_stream_v4"), (1, 0, "AF_INET6", "new_newfromfd_dgram_v6"),
                                (2, 1, "AF_INET", "listener_accept_addresses_v4"), (2, 1, "AF_INET6", "listener_accept_addresses_v6"),
                                (3, 0, "AF_INET", "receive_from_v4"), (3, 0, "AF_INET6", "receive_from_v6")):
        variants = [(3, 0, "")]
        # ... and, for one family per script, in a process whose low descriptors are free, arranged (VS_ROT) so that descriptor 0 goes
        # to the socket made by p_socket_new / to the foreign descriptor wrapped by p_socket_new_from_fd / to the accepted connection
        if (script, st, fam) == (1, 1, "AF_INET"):
            variants += [(0, 5, "_new_gets_fd0"), (0, 0, "_newfromfd_gets_fd0")]
        if (script, fam) == (2, "AF_INET"):
            variants += [(0, 0, "_listener_gets_fd0"), (0, 4, "_accept_gets_fd0")]
        if (script, fam) == (3, "AF_INET"):
            variants += [(0, 0, "_new_gets_fd0")]
        for base, rot, vn in variants:
            qs.append(sq("%s_%s%s" % (prefix, nm, vn), harness,
                         defs=["SCRIPT=%d" % script, "STREAM=%d" % st, "FAMILY=" + fam, "SYSFAIL=%d" % sysfail, "KMAX=12", "VS_FD0=%d" % base, "VS_ROT=%d" % rot],
                         faults=0, errrec=False, funcs=FUNCS,
                         bounds={"failing_allocation_index": "0..12, once or from-k-on", "failing_syscalls": sysfail, "first_descriptor": base, "slot_rotation": rot}))
    return qs


def queries(tier):
    sock_common.TIER = tier
    return scripts("sock_allocfail", "harness/C18_sock.c", 0)
