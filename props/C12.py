"""C12: PTree (BST, red-black, AVL) behaves as a sorted map -- one operation from every valid tree of
height <= H (inductive step on the real code), plus short from-empty API histories."""
import trees_common as tc
from trees_common import step, hist

META = {
 "assumptions": [
  "allocator = outstanding-block ledger installed via the public p_mem_set_vtable (blocks from CBMC malloc, typed by request size); allocation never fails here (C18 covers failure)",
  "printf (P_ERROR) has an empty body",
  "comparator = total order on key ranks; keys/values are integer tokens (rank, identity), so every comparator outcome pattern of a total order is covered by ranks alone; "
  "result magnitudes: concrete and asymmetric (-1/+1000 or -1000/+1 by position parity) in step queries, arbitrary and independent (symbolic) for both signs in the lookup/foreach/clear queries",
  "foreach callback: 'continue' is exactly 0, 'stop' is an arbitrary non-zero int (symbolic; pboolean is a plain int and ptree.h stops on TRUE = non-zero), stop point symbolic over all positions "
  "(witnesses: stop at a node with / without a left child, stop value != 1)",
  "pre-states of the step queries are ALL trees satisfying the representation invariant (BST order, parent links, RB colouring / AVL balance factors) "
  "on the complete-tree skeleton of height H -- a superset of the reachable ones; the post-state is checked against the same invariant, so the step is inductive",
  "the runner case-splits on where the search for the operation key ends (skeleton position, hit/miss) and, for removals of a stored key, on the "
  "neighbourhood deciding which node is unlinked (leaf / one child / two children with predecessor depth); each case is one solver query, the split is exhaustive by construction",
  "p_tree_new is exercised with a three-argument comparator cast to PCompareFunc (the library casts it back and passes data = NULL; asserted)",
  "NULL as user key / value: in the *_null* queries one key token and one value token are the NULL pointer (the comparator orders by rank, so NULL has a rank like any other key)",
  "*_allocfail queries: the ledger fails the single node request of an insert of a new key; expected: tree pointer-for-pointer and field-for-field unchanged, count unchanged, no notifier"],
 "outside": ["trees higher than H before the operation (quick: H=3 for every case + the H=4 leaf removals at depth 2 for RB/AVL; thorough: H=4 for every case)", "comparators that are not total orders",
             "histories longer than the stated number of calls", "allocation failure of the PTree object itself (C18)"],
 "units_included_by_harness": tc.INCLUDED,
}
MANIFEST = {
 "level_text": "Bounded model checking of the real ptree.c/ptree-bst.c/ptree-rb.c/ptree-avl.c: for every valid tree of height <= H (shape, colours, balance factors are solver variables) "
               "and every position of the operation key, one insert / replace / remove / lookup / foreach (symbolic stop point) / clear is executed symbolically and the result is compared "
               "with a reference sorted map (content, return value, nnodes, lookups, visiting order, pointer-for-pointer unchanged tree). Because the post-state is shown to satisfy the same "
               "invariant the pre-states were drawn from, the step is inductive: it covers histories of any length as long as the tree height stays <= H. Right level because rebalancing bugs live in "
               "rare shape/colour combinations that tests do not enumerate, while the state space of one step is small enough to decide exhaustively.",
 "level_note": "Trusted: CBMC 6.11 + minisat; allocator ledger model; empty printf. Bounds: H=3 (<=7 nodes) quick; thorough adds H=4 (<=15 nodes) for every insert position, replace, "
               "removal neighbourhood, foreach and clear; from-empty histories of 3 (quick) / 4 (thorough) calls (AVL histories: fixed insert prefix + one symbolic call).",
 "technique": "CBMC inductive step from symbolic valid trees on a complete-tree skeleton, reference-map oracle, runner-side case split on the search end point",
 "design_ref": "DESIGN.md §3 C12-C14",
}
PROP = "C12"
X = ["CHK_LOOKUP_BEFORE", "CHK_LOOKUP_AFTER"]


def step_queries(h, types, light=False):
    qs = []
    for tt in types:
        for p in tc.insert_new_cases(h):
            qs.append(step(PROP, tt, h, 0, p, 0, newmode=p % 2, extra=X))
        for p in tc.hit_cases(h):
            qs.append(step(PROP, tt, h, 0, p, 1, newmode=(p + 1) % 2, extra=X))          # replace
            for rc in tc.remcases(h, p):
                qs.append(step(PROP, tt, h, 1, p, 1, newmode=(p + rc) % 2, remcase=rc, extra=X))
        for p in tc.insert_new_cases(h):
            # the node allocation fails: p_tree_insert must leave the tree exactly as it was (pointer for pointer, field for field)
            qs.append(step(PROP, tt, h, 0, p, 0, newmode=(p + 1) % 2, extra=X + ["ALLOC_FAIL"]))
        for p in tc.insert_new_cases(h):
            if light and p % 3:
                continue
            qs.append(step(PROP, tt, h, 1, p, 0, newmode=(p + 1) % 2, extra=X))          # remove of an absent key
    return qs


def whole_tree_queries(h, types):
    qs = []
    for tt in types:
        for nm in (0, 1):
            qs.append(step(PROP, tt, h, 2, newmode=nm, extra=["SYM_MAG"]))     # lookup, symbolic key
        qs.append(step(PROP, tt, h, 3, newmode=tt % 2, extra=["SYM_MAG"]))     # foreach, symbolic stop
        qs.append(step(PROP, tt, h, 4, newmode=(tt + 1) % 2, extra=["SYM_MAG"]))  # clear
    return qs


def queries(tier):
    qs = step_queries(3, (0, 1, 2)) + whole_tree_queries(3, (0, 1, 2))
    qs += tc.quick_h4_removals(PROP, X, newmode=0)
    for tt in (0, 1, 2):
        # NULL as a key and as a value: insert of (NULL, NULL), replace / removal of the NULL-keyed pair by the NULL key itself,
        # lookup / foreach / clear over a tree holding a NULL key and a NULL value
        for p in (1, 6, 12):
            qs.append(step(PROP, tt, 3, 0, p, 0, newmode=1, extra=X + ["NULLTOK=2"]))
        qs.append(step(PROP, tt, 3, 0, 3, 1, newmode=0, extra=X + ["NULLTOK=1"]))   # replace of the (NULL, NULL) pair
        for p in (2, 7):
            qs.append(step(PROP, tt, 3, 0, p, 1, newmode=p % 2, extra=X + ["NULLTOK=2"]))   # replace BY the pair (NULL, NULL)
        for p, rc in ((1, 3), (2, 1), (5, 0)):
            qs.append(step(PROP, tt, 3, 1, p, 1, newmode=p % 2, remcase=rc, extra=X + ["NULLTOK=1"]))
        for op in (2, 3, 4):
            qs.append(step(PROP, tt, 3, op, newmode=1, extra=["SYM_MAG", "NULLTOK=3"]))
    qs += [hist(PROP, 0, 3, 0), hist(PROP, 1, 3, 1)]
    qs += tc.avl_hist(PROP, 1, tier)
    if tier == "thorough":
        qs += tc.thorough_h4(PROP, X)
        qs += whole_tree_queries(4, (0, 1, 2))
        qs += [hist(PROP, 0, 4, 1, timeout=2400), hist(PROP, 1, 4, 0, timeout=3000)]
    return qs
