"""C18, IPC part (merged into C18.py by the lead): allocation failure at a symbolic request index inside the PSemaphore / PShm /
PShmBuffer scripts of harness/C20_ipc.c (compiled with MODE_ALLOC)."""
import C20_ipc as base
from vf import Q
META = {"assumptions": base.ASSUME + ["failure injection: request number k of the script fails (only it, or it and all later ones), k symbolic over all requests (asserted); thorough adds one query per k over the real SHA-1 key derivation"],
        "outside": base.OUTSIDE}
MANIFEST = {
 "level_text": "IPC part: the scripts run with the allocator (installed through the public p_mem_set_vtable) failing at a solver-chosen request index, once or from there on, covering the allocations inside p_ipc_get_platform_key (hash context, digest string, key), the name copies, the objects and the PError objects; every dereference is checked by CBMC, constructors must fail cleanly and the allocation/descriptor/mapping/name ledgers must return to their initial values.",
 "level_note": "Trusted: CBMC 6.11, allocator model, kernel ledger model. Bounds: <=24 allocation requests per script (asserted), one script per module.",
 "technique": "CBMC bounded symbolic execution with a symbolic allocation-failure index",
 "design_ref": "DESIGN.md §3 C18",
}
def keyq(k):
    return Q("ipc_key_alloc_k%d" % k, "harness/C18_ipc_key.c", hdefs=["FAIL_AT=%d" % k], units=base.HASH + ["src/pstring.c", "src/pmem.c"], models=["models/alloc.c", "models/verif.c", "models/libc_stub.c"],
             unwind=90, timeout=900, funcs=["p_ipc_get_platform_key", "p_crypto_hash_new", "p_crypto_hash_get_string", "p_crypto_hash_free"],
             bounds={"alloc_failure_index": "%d, once or from-k-on" % k})
# real-key scripts: allocation requests of the success paths: semaphore 6 (object, name copy, 4 inside p_ipc_get_platform_key), shm 12, buffer 13
NREQ = [6, 12, 13]
def queries(tier):
    qs = [keyq(k) for k in range(1, 6)] + [base.script(i, "ALLOC", "C18") for i in range(3)]     # failure index symbolic (0..12), key stub = 1 request
    if tier == "thorough":
        # the same scripts over the real key derivation, one query per failure index (keeps the SHA-1 data concrete)
        qs += [base.script(i, "ALLOC", "C18", k=k, last=(k == NREQ[i] + 1), real=True) for i in range(3) for k in range(1, NREQ[i] + 2)]
    return qs
