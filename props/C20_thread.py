from vf import Q
import C18_thread as A
META = {
 "assumptions": A.META["assumptions"] + [
  "thread part: failing pthread calls - lock scripts: up to 2 symbolic failures of pthread_mutex_init / pthread_cond_init / pthread_rwlock_init; thread script: the f-th fallible "
  "pthread call (pthread_key_create, pthread_setspecific, pthread_attr_init/setdetachstate/setinheritsched, pthread_create with EAGAIN or EPERM, pthread_setname_np) fails, f concrete per query",
  "thread part: keyrace queries use the sequential nested-atomic thread emulation of C05 (a pending thread may run to completion at every model entry of main's first use of the key)",
  "thread part: platform TLS keys are not counted as a leaked resource (p_uthread_local_free documents that it keeps the key); their heap blocks are"],
 "outside": A.META["outside"] + ["thread part: thread stacks and kernel objects behind pthread handles"],
}
MANIFEST = {
 "level_text": "Same scripts as the C18 thread part on the success path and with every single pthread call failing in turn; at the end every ledger (library allocations, initialised mutex/cond/rwlock objects, attribute objects, unreaped threads) must equal the initial one.",
 "level_note": "Trusted: CBMC 6.11, allocator ledger, pthread emulation ledgers.",
 "technique": "CBMC on real units, fault injection in pthread models, ledger comparison",
 "design_ref": "DESIGN.md §3 C20 (thread/lock modules)",
}
NF = 13
def utq(entry, kf=None, extra=(), kf_match=None):
    q = A.utq("res_kf_demo" if kf else "res", entry, kf=kf, extra=extra, kf_match=kf_match)
    q.harness = "harness/C20_thread_uthread.c"
    return q
def queries(tier):
    qs = [A.lockq("res", "harness/C20_thread_locks.c", n) for n in A.LOCKS]
    qs.append(A.lockq("res", "harness/C20_thread_locks.c", "rwlock_general", ["KF_DEMO"], kf="C20_thread_rwlock_general_new"))
    qs.append(utq("harness_k0"))
    qs += [utq("harness_f%d" % f) for f in range(1, NF + 1)] + [utq("harness_f7_eperm")]
    qs.append(utq("harness_k0", kf="C20_thread_local_free_leak", extra=["KF_DEMO_LEAK"]))
    qs.append(utq("harness_f9", kf="C20_thread_selfkey_failure", extra=["KF_DEMO"]))
    # first use of a fresh key raced by main and 1 / 2 threads (preemption depth 1), then everything freed
    import C05
    for two, extra in ((False, []), (True, []), (False, ["RACE_LIB"])):
        q = C05.race(two, 1, extra)
        q.name = "res_" + q.name
        q.harness = "harness/C20_thread_keyrace.c"
        qs.append(q)
    return qs
