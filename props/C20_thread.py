from vf import Q
import C18_thread as A
META = {"assumptions": [], "outside": []}
MANIFEST = {}
NF = 13
def utq(entry, kf=None, extra=(), kf_match=None):
    q = A.utq("res_kf_demo" if kf else "res", entry, kf=kf, extra=extra, kf_match=kf_match)
    q.harness = "harness/C20_thread_uthread.c"
    return q
def queries(tier):
    qs = [A.lockq("res", "harness/C20_thread_locks.c", n) for n in A.LOCKS]
    qs.append(A.lockq("res", "harness/C20_thread_locks.c", "rwlock_general", ["KF_DEMO"], kf="C20_thread_rwlock_general_new"))
    qs.append(utq("harness_k0"))
    qs += [utq("harness_f%d" % f) for f in range(1, NF + 1)] + [utq("harness_f7_eperm")]
    qs.append(utq("harness_k0", kf="C20_thread_local_free_leak", extra=["KF_DEMO_LEAK"]))
    qs.append(utq("harness_f9", kf="C20_thread_selfkey_failure", extra=["KF_DEMO"]))
    return qs
