"""C11 crypto hashes: digest == standard digest however the input is chunked; hex string; repeatable reads; updates after
the digest ignored until reset; single updates of >= 2^32 bytes.

Decomposition (DESIGN.md section 3 "C11", adapted to measurements, see harness/C11_update.c header):
 (a) buffering / padding / counters of every algorithm file, the static compression function replaced by a block MONITOR
     (goto-cc --export-file-local-symbols + goto-instrument --remove-function-body on the wrapper unit harness/C11_wrap.c,
     which textually includes the REAL source file so the real context layout and code are used):
       upd_<alg>_left<k>   data movement of ONE update for pending-bytes k and EVERY len in [1, 2*block+2], symbolic contents
       cnt_<alg>           counter arithmetic + block count of ONE update for EVERY counter value and every len (symbolic)
       fin_<alg>_<lo>_<hi> finish: padding blocks, length field, digest byte order/truncation for every buffer fill in [lo,hi)
       flen_<alg>          finish: length field and block count for EVERY counter value (symbolic)
       reset_<alg>         reset from an arbitrary state: counter 0, chaining state independent of the past
       huge_*              ONE update of 2^32 <= len < 2^61 bytes (symbolic), bug-hunting mode (loop cut, no unwinding assertion)
       gost_sum256         the real GOST 256-bit adder against a reference adder for all operand pairs
 (f) frame_static_<unit>   frame condition / per-object independence: the compiled unit never writes (or takes the address of) a non-const
                           static-storage object - GOTO-program audit, see harness/C11_frame.c (contracts and CBMC threads were probed
                           and cannot decide it: local statics are auto-added to contract write sets; 2 threads x sha512 process: no
                           answer in 300 s / 36 GB)
 (b) disp_type<t>          the real dispatcher pcryptohash.c over stub algorithms, symbolic call sequences
 (c) keccak_round/_sched_* Keccak-f[1600] round function == FIPS 202 for all 2^1600 states; 24-round schedule, iota constants, absorb
     kat_<type>            published vectors through the encoding: real dispatcher + real algorithm, 7 concrete messages per type
"""
import os
import vf
from vf import Q, VERIF

WRAP = os.path.join(VERIF, "harness", "C11_wrap.c")      # absolute: os.path.join(REPO, abs) == abs -> compiled as a unit
MODELS = ["models/verif.c"]
ALLOC = ["models/alloc.c", "models/verif.c", "models/libc_stub.c"]
P = "__CPROVER_file_local_pcryptohash_"
# name: (ALG id, VARIANT, block, source file, compression fn, update fn, PCryptoHashType)
ALGS = {
    "md5":      (1, 0, 64, "pcryptohash-md5.c", P + "md5_c_pp_crypto_hash_md5_process", "p_crypto_hash_md5", 0),
    "sha1":     (2, 0, 64, "pcryptohash-sha1.c", P + "sha1_c_pp_crypto_hash_sha1_process", "p_crypto_hash_sha1", 1),
    "sha2_224": (3, 1, 64, "pcryptohash-sha2-256.c", P + "sha2_256_c_pp_crypto_hash_sha2_256_process", "p_crypto_hash_sha2_256", 2),
    "sha2_256": (3, 0, 64, "pcryptohash-sha2-256.c", P + "sha2_256_c_pp_crypto_hash_sha2_256_process", "p_crypto_hash_sha2_256", 3),
    "sha2_384": (4, 1, 128, "pcryptohash-sha2-512.c", P + "sha2_512_c_pp_crypto_hash_sha2_512_process", "p_crypto_hash_sha2_512", 4),
    "sha2_512": (4, 0, 128, "pcryptohash-sha2-512.c", P + "sha2_512_c_pp_crypto_hash_sha2_512_process", "p_crypto_hash_sha2_512", 5),
    "sha3_224": (5, 224, 144, "pcryptohash-sha3.c", P + "sha3_c_pp_crypto_hash_sha3_process", "p_crypto_hash_sha3", 6),
    "sha3_256": (5, 256, 136, "pcryptohash-sha3.c", P + "sha3_c_pp_crypto_hash_sha3_process", "p_crypto_hash_sha3", 7),
    "sha3_384": (5, 384, 104, "pcryptohash-sha3.c", P + "sha3_c_pp_crypto_hash_sha3_process", "p_crypto_hash_sha3", 8),
    "sha3_512": (5, 512, 72, "pcryptohash-sha3.c", P + "sha3_c_pp_crypto_hash_sha3_process", "p_crypto_hash_sha3", 9),
    "gost":     (6, 0, 32, "pcryptohash-gost3411.c", P + "gost3411_c_pp_crypto_hash_gost3411_process", "p_crypto_hash_gost3411", 10),
}
GOST_SUM = P + "gost3411_c_pp_crypto_hash_gost3411_sum_256"
# one representative per source file for the queries that do not depend on the variant (update never reads is224/is384)
FILES = ["md5", "sha1", "sha2_256", "sha2_512", "sha3_256", "gost"]
# findings: a single update of >= 2^32 bytes is truncated to 32 bits in these files
LEN32 = {"md5": "C11_len32_md5", "sha1": "C11_len32_sha1", "sha2_256": "C11_len32_sha2_256", "gost": "C11_len32_gost"}

META = {
    "assumptions": [
        "little-endian host (PLIBSYS_IS_BIGENDIAN undefined, as in /repo/_build): the big-endian branches of *_swap_bytes are not compiled",
        "step queries (upd/cnt/fin/flen/huge): the static compression function pp_crypto_hash_<alg>_process is replaced by a monitor that "
        "checks the block it is handed and installs a fresh symbolic chaining state; the real compression functions are exercised only by the kat_* queries",
        "cnt_*/flen_* (all counter values): memcpy/memset INTO THE CONTEXT OBJECT are abstracted to no-ops; the counter fields are not reachable "
        "through an in-bounds copy into the buffer, and in-bounds-ness of every copy is checked by upd_*/fin_* for every (buffer fill, len) pair "
        "with CBMC's own memcpy/memset",
        "GOST step queries: the static 256-bit adder pp_crypto_hash_gost3411_sum_256 is replaced by a monitor that records target and operands and "
        "returns a fresh symbolic result (uninterpreted sum): the queries decide which additions are made on which operands; the real adder is "
        "decided against a reference adder for all 2^512 operand pairs by gost_sum256",
        "the wrapper unit harness/C11_wrap.c adds only field accessors to the textually included real source",
        "upd_*: the counter is one concrete near-carry value per buffer fill (every counter value is covered by cnt_*); fin_*: one concrete counter "
        "with bits set in every limb per buffer fill (every counter value: flen_*)",
        "disp_*: the six algorithm families are stubs that record the dispatcher's calls and return symbolic digest bytes; allocator = ledger "
        "model (models/alloc.c) whose failure is chosen symbolically at every get_string (disp_*_oomnew: at p_crypto_hash_new)",
        "kat_*: expected digests from Python hashlib (OpenSSL) resp. libgcrypt+nettle for GOST-CryptoPro, spot-checked against RFC 1321 / FIPS 180-4 / FIPS 202 / published GOST vectors",
        "frame_static_*: per-object independence (no hidden channel between two PCryptoHash objects, e.g. under concurrent use) is reduced to "
        "'the unit writes no static-storage object'; that is decided by a may-write audit of the compiled GOTO program (non-const static-lifetime "
        "symbols that are assignment roots or address-taken), not by the solver; writes through caller-supplied pointers stay inside the "
        "context/buffers by the bounds checks of the step queries",
        "histories: one step from an arbitrary valid context state (buffer prefix = pending bytes, rest arbitrary, counter arbitrary, state arbitrary); "
        "the step post-condition re-establishes that state description, so chunk sequences of any length follow by induction",
    ],
    "outside": [
        "equivalence of the MD5, SHA-1, SHA-2 and GOST compression functions with the standards for ALL inputs (only the 7 vectors per type of "
        "kat_* go through the real rounds); for SHA-3 the round function and the round schedule ARE decided for all states (keccak_round, keccak_sched_*)",
        "upd_* thorough: for buffer fills other than 0, 1, block-1 the enumerated len stops at 2*block-fill+1 "
        "(prologue, 0/1 whole blocks, every tail size); two whole blocks after the prologue are enumerated for the fills 0, 1, block-1 only; "
        "quick tier: buffer fills 0, (1,) block-1 only (sha2_512/sha3_256 with empty buffer: len <= block+1), sha3_224/384/512 and sha2_224/384 "
        "finish for the upper 16..24 fills only",
        "single updates of more than 2*block+2 bytes other than the huge_* bug-hunting queries (block loop cut after 2 iterations, no unwinding assertion)",
        "messages of 2^61 bytes or more (bit count leaves 64 bits; GOST update drops bits 61..63 of len)",
        "big-endian hosts",
        "actual multi-threaded executions (no interleaving is explored for C11; only the static-storage frame audit above); hidden channels that "
        "do not go through static storage of the audited units (pcryptohash*.c, pipc.c), e.g. through the allocator",
        "SHA-3: p_crypto_hash_sha3_update with len close to 2^64 (ctx->len + len wraps)",
        "whether a get_digest refused for a short buffer finalises the hash (the property does not say)",
    ],
    "units_included_by_harness": ["src/" + ALGS[a][3] for a in FILES],
}
MANIFEST = {
    "level_text": "model_checking: bounded symbolic execution (CBMC 6.11, SAT) of the real pcryptohash*.c code. Buffering, padding, length "
                  "counters and digest byte order of all six algorithm files are decided one step from an arbitrary context state: every "
                  "(pending bytes, chunk length <= 2*block+2) pair with symbolic message bytes, every counter value of the full 64/128/256-bit width, "
                  "every buffer fill at finish; the dispatcher is decided over all call sequences of bounded length with symbolic digest bytes and "
                  "buffer lengths. Not 'proof': the compression functions are validated by known-answer vectors evaluated through the encoding only, "
                  "chunk lengths are bounded, and multi-step histories follow by the (checked) inductive step rather than being enumerated.",
    "level_note": "trusted: CBMC and its memcpy/memset models, the monitor/wrapper glue (field accessors), the reference 256-bit adder of gost_sum256, the expected "
                  "padding streams written from RFC 1321 / FIPS 180-4 / FIPS 202 / RFC 5831, the vector table (hashlib, libgcrypt, nettle)",
    "technique": "CBMC inductive step queries with compression-function monitor; kernel/adder equivalence; known-answer vectors through the encoding",
    "design_ref": "DESIGN.md §3 'C11 Crypto hashes'",
}


def _open(fid):
    return any(f["id"] == fid and f.get("status") == "open" for f in vf.load_findings())


def _base(a, extra=()):
    alg, var = ALGS[a][0], ALGS[a][1]
    return ["ALG=%d" % alg, "VARIANT=%d" % var] + list(extra)


def _rm(a):
    return [ALGS[a][4]] + ([GOST_SUM] if a == "gost" else [])


FS256 = os.environ.get("C11_FS256", "1") == "1"


def _flags(a):
    # SHA-3's 200-byte buffer exceeds CBMC's default field-sensitivity limit (64): without this constants do not propagate
    return ["--max-field-sensitivity-array-size", "256"] if (a.startswith("sha3") and FS256) else []


def upd_q(a, l_lo, l_hi, lo=None, hi=None, trim=False):
    """data movement: every buffer fill in [l_lo, l_hi] x every len in [lo, hi] (default 1..2*block+2), enumerated"""
    blk = ALGS[a][2]
    lo = 1 if lo is None else lo
    hi = 2 * blk + 2 if hi is None else hi
    whole = (lo == 1 and hi == 2 * blk + 2)
    name = "upd_%s_left%d" % (a, l_lo) + ("" if l_hi == l_lo else "_%d" % l_hi) + ("" if whole else "_len%d_%d" % (lo, hi))
    return Q(name, "harness/C11_update.c", units=[WRAP], models=MODELS,
             defs=_base(a), hdefs=["LEFT_LO=%d" % l_lo, "LEFT_HI=%d" % l_hi, "LEN_LO=%d" % lo, "LEN_HI=%d" % hi] + (["TRIM"] if trim else []),
             export_local=True, remove_bodies=_rm(a), unwind=5 * blk + 16, unwindset={ALGS[a][5] + "_update.0": 4},
             object_bits=12, flags=_flags(a), funcs=[ALGS[a][5] + "_update"], timeout=1800,
             bounds={"algorithm": a, "pending_bytes": "every value in %d..%d" % (l_lo, l_hi),
                     "len": ("every value in %d..%d" % (lo, hi)) + ("; fills other than 0, 1, block-1: up to 2*block-fill+1" if trim else ""),
                     "content": "symbolic bytes", "counter": "one near-carry value per buffer fill (all values: cnt_*)"})


def upd_chunks(a, lefts, per_query, trim=False):
    """cover lefts x [1, 2*block+2] with queries of at most ~per_query update executions each.
    trim (thorough tier): for buffer fills other than 0, 1, block-1 the harness stops at len = 2*block-fill+1 (= to_fill + block + 1):
    prologue, 0 and 1 whole blocks and every tail size are covered; two whole blocks after the prologue only for the boundary fills."""
    blk = ALGS[a][2]
    top = 2 * blk + 2
    out = []
    if top > per_query:                       # split the len range, one buffer fill per query
        for l in lefts:
            t = top if (not trim or l in (0, 1, blk - 1)) else 2 * blk - l + 1
            n = -(-t // per_query)
            size = -(-t // n)
            out += [upd_q(a, l, l, lo, min(lo + size - 1, t)) for lo in range(1, t + 1, size)]
        return out
    k = max(1, per_query // (top * 3 // 4 if trim else top))     # several consecutive buffer fills per query
    i = 0
    while i < len(lefts):
        j = i
        while j + 1 < len(lefts) and lefts[j + 1] == lefts[j] + 1 and j + 1 - i < k:
            j += 1
        out.append(upd_q(a, lefts[i], lefts[j], trim=trim))
        i = j + 1
    return out


def cnt_q(a, huge=False, kf=None):
    blk = ALGS[a][2]
    hdefs = ["CNT"] + (["HUGE"] if huge else []) + (["KF_DEMO"] if kf else [])
    return Q(("huge_cnt_%s" if huge else "cnt_%s") % a, "harness/C11_update.c", units=[WRAP], models=MODELS,
             defs=_base(a, ["C11_OWN_MEMCPY"]), hdefs=hdefs,
             export_local=True, remove_bodies=_rm(a), unwind=5 * blk + 16, unwindset={ALGS[a][5] + "_update.0": 3 if huge else 4},
             flags=(["--no-unwinding-assertions"] if huge else []), unwind_assert=not huge, kf=kf,
             funcs=[ALGS[a][5] + "_update"], timeout=900,
             bounds={"algorithm": a, "counter": "every value of the counter width", "pending_bytes": "every value (symbolic)",
                     "len": "2^32..2^61-1, block loop cut after 2 iterations (bug hunting)" if huge else "1..%d symbolic" % (2 * blk + 2),
                     "memcpy": "abstracted"})


def huge_q(a, left, kf=None):
    blk = ALGS[a][2]
    hdefs = ["LEFT=%d" % left, "HUGE"] + (["KF_DEMO"] if kf else [])
    return Q("huge_%s_left%d" % (a, left), "harness/C11_update.c", units=[WRAP], models=MODELS, defs=_base(a), hdefs=hdefs,
             export_local=True, remove_bodies=_rm(a), unwind=6 * blk + 16, unwindset={ALGS[a][5] + "_update.0": 3},
             flags=["--no-unwinding-assertions"] + _flags(a), unwind_assert=False, object_bits=12, kf=kf,
             funcs=[ALGS[a][5] + "_update"], timeout=900,
             bounds={"algorithm": a, "pending_bytes": left, "len": "2^32..2^61-1 symbolic, block loop cut after 2 iterations (bug hunting, no unwinding assertion)",
                     "checked": "first two blocks, counter at the first compression call"})


def fin_q(a, lo, hi):
    blk = ALGS[a][2]
    return Q("fin_%s_%d_%d" % (a, lo, hi), "harness/C11_finish.c", units=[WRAP], models=MODELS,
             defs=_base(a), hdefs=["LEFT_LO=%d" % lo, "LEFT_HI=%d" % hi], export_local=True, remove_bodies=_rm(a),
             unwind=4 * blk + 16, unwindset={ALGS[a][5] + "_update.0": 3}, object_bits=12, flags=_flags(a),
             funcs=[ALGS[a][5] + "_finish", ALGS[a][5] + "_digest", ALGS[a][5] + "_update"], timeout=1500,
             bounds={"algorithm": a, "buffer_fill": "every value in %d..%d" % (lo, hi - 1), "content": "symbolic bytes",
                     "counter": "one value with bits in every limb (all values: flen_*)"})


def flen_q(a):
    blk = ALGS[a][2]
    return Q("flen_%s" % a, "harness/C11_finish.c", units=[WRAP], models=MODELS, defs=_base(a, ["C11_OWN_MEMCPY"]), hdefs=["CNT"],
             export_local=True, remove_bodies=_rm(a), unwind=4 * blk + 16, unwindset={ALGS[a][5] + "_update.0": 3},
             funcs=[ALGS[a][5] + "_finish"], timeout=900,
             bounds={"algorithm": a, "counter": "every value of the counter width", "memcpy": "abstracted"})


def reset_q(a):
    blk = ALGS[a][2]
    return Q("reset_%s" % a, "harness/C11_reset.c", units=[WRAP], models=MODELS, defs=_base(a), export_local=True,
             unwind=blk + 8, flags=_flags(a), funcs=[ALGS[a][5] + "_reset"], timeout=600,
             bounds={"algorithm": a, "pre_state": "counter, chaining state, checksum, buffer all symbolic"})


def fin_chunks(a, step=32):
    blk = ALGS[a][2]
    return [fin_q(a, lo, min(lo + step, blk)) for lo in range(0, blk, step)]


ALGUNITS = ["src/pcryptohash.c", "src/pcryptohash-md5.c", "src/pcryptohash-sha1.c", "src/pcryptohash-sha2-256.c",
            "src/pcryptohash-sha2-512.c", "src/pcryptohash-sha3.c", "src/pcryptohash-gost3411.c", "src/pmem.c"]


def kat_q(a):
    t = ALGS[a][6]
    return Q("kat_%s" % a, "harness/C11_kat.c", units=ALGUNITS, models=ALLOC, hdefs=["TYPE=%d" % t], unwind=300, object_bits=12,
             flags=["--max-field-sensitivity-array-size", "256"], timeout=900,
             funcs=["p_crypto_hash_new", "p_crypto_hash_update", "p_crypto_hash_reset", "p_crypto_hash_get_string", "p_crypto_hash_get_digest",
                    ALGS[a][4].split("_c_")[1]],
             bounds={"type": a, "messages": "7 concrete messages (empty, abc, 448/896-bit FIPS, block-1, block, block+1 bytes), one 2-chunk split each"})


def disp_q(t, nops, oomnew=False):
    return Q("disp_type%s_%s" % ("_invalid" if t is None else str(t), "oomnew" if oomnew else "ops%d" % nops), "harness/C11_dispatch.c",
             units=["src/pcryptohash.c", "src/pmem.c"], models=ALLOC,
             hdefs=["NOPS=%d" % nops] + ([] if t is None else ["TYPE=%d" % t]) + (["OOM_NEW"] if oomnew else []),
             unwind=70, timeout=900,
             funcs=["p_crypto_hash_new", "p_crypto_hash_update", "p_crypto_hash_reset", "p_crypto_hash_get_string", "p_crypto_hash_get_digest",
                    "p_crypto_hash_get_length", "p_crypto_hash_get_type", "p_crypto_hash_free", "pp_crypto_hash_digest_to_hex"],
             bounds={"type": "every int outside 0..10" if t is None else t, "calls": nops,
                     "alphabet": "update(len any, data NULL or not) / reset / get_string (its allocation fails or not, symbolic per call) / "
                                 "get_digest(buffer length 0..65)",
                     "digest_bytes": "symbolic"})


# ---- frame condition: the compiled unit writes no static-storage object (see harness/C11_frame.c) -------------------------
def _irep_root_symbol(e):
    """root object of an lvalue expression: descends index/member/byte_extract/typecast operand 0"""
    while isinstance(e, dict):
        if e.get("id") == "symbol":
            return e.get("namedSub", {}).get("identifier", {}).get("id")
        if e.get("id") in ("index", "member", "typecast", "byte_extract_little_endian", "byte_extract_big_endian") and e.get("sub"):
            e = e["sub"][0]
        else:
            return None
    return None


def _irep_walk(e, taken):
    """collect the root symbols of all address_of sub-expressions (array-to-pointer decay is address_of(index(a,0)))"""
    if isinstance(e, dict):
        if e.get("id") == "address_of" and e.get("sub"):
            r = _irep_root_symbol(e["sub"][0])
            if r:
                taken.add(r)
        for v in e.get("sub", []):
            _irep_walk(v, taken)
        for k, v in e.get("namedSub", {}).items():
            if k not in ("type", "#source_location"):
                _irep_walk(v, taken)


def _is_const(t):
    ns = t.get("namedSub", {}) if isinstance(t, dict) else {}
    if "#constant" in ns:
        return True
    if t.get("id") == "array" and t.get("sub"):
        return _is_const(t["sub"][0])
    return False


def static_audit(unit):
    """-> (list of written/address-taken non-const static-lifetime objects of the compiled unit, None) or (None, error text)"""
    import json, tempfile, shutil
    d = tempfile.mkdtemp(prefix="verif_C11_audit_")
    try:
        defines, incs, _ = vf.repo_flags()
        obj = os.path.join(d, "u.gb")
        rc, out, _ = vf.run(["goto-cc", "-c", "-o", obj, os.path.join(vf.REPO, unit)] + defines + incs, timeout=120)
        if rc != 0:
            return None, "goto-cc failed: " + out[-300:]

        def dump(opt):
            rc, out, _ = vf.run(["goto-instrument", opt, "--json-ui", obj], timeout=120)
            return json.loads(out)
        mutable = set()
        for m in dump("--show-symbol-table"):
            if isinstance(m, dict) and "symbolTable" in m:
                for name, sy in m["symbolTable"].items():
                    t = sy.get("type", {})
                    if (sy.get("isStaticLifetime") and sy.get("isLvalue") and not sy.get("isType") and not name.startswith("__CPROVER")
                            and t.get("id") != "code" and not _is_const(t)):
                        mutable.add(name)
        written, taken = set(), set()
        for m in dump("--show-goto-functions"):
            if isinstance(m, dict) and "functions" in m:
                for f in m["functions"]:
                    if f.get("isInternal") or f["name"].startswith("__CPROVER"):
                        continue
                    for ins in f.get("instructions", []):
                        code = ins.get("code")
                        if isinstance(code, dict):
                            st = code.get("namedSub", {}).get("statement", {}).get("id")
                            if st in ("assign", "function_call") and code.get("sub"):
                                r = _irep_root_symbol(code["sub"][0])
                                if r:
                                    written.add(r)
                            _irep_walk(code, taken)
                        if isinstance(ins.get("guard"), dict):
                            _irep_walk(ins["guard"], taken)
        return sorted(mutable & (written | taken)), None
    except Exception as e:      # tooling problem: reported as INCONCLUSIVE by the harness, never as a pass
        return None, "audit failed: %r" % (e,)
    finally:
        shutil.rmtree(d, ignore_errors=True)


def frame_q(unit):
    bad, err = static_audit(unit)
    tag = os.path.basename(unit)[:-2].replace("-", "_")
    if bad is None:
        hd = ["AUDIT_FAILED", "NSTATIC_WRITTEN=1"]
    else:
        hd = ["NSTATIC_WRITTEN=%d" % len(bad), '-DSTATIC_WRITTEN_NAMES="%s"' % (", ".join(bad) or "none")]
    return Q("frame_static_%s" % tag, "harness/C11_frame.c", units=[unit], models=MODELS, hdefs=hd, timeout=300,
             note=err or "", funcs=["all functions of " + unit],
             bounds={"unit": unit, "method": "GOTO-program audit of the compiled unit (symbol table + assignment / address-of scan); "
                                            "not a solver decision", "written_or_address_taken_mutable_statics": bad})


def queries(tier):
    quick = tier == "quick"
    qs = []
    # ---- frame condition: no hidden static-storage channel between PCryptoHash objects ---------------------------------------
    qs += [frame_q(u) for u in ALGUNITS[:7] + ["src/pipc.c"]]
    # ---- (a) update: data movement ------------------------------------------------------------------------------
    if quick:
        lefts = {"md5": [0, 1, 63], "sha1": [0, 63], "sha2_256": [0, 63], "sha2_512": [127], "sha3_256": [135], "gost": [0, 1, 31]}
        # empty buffer of the two big-block files: len up to block+1 only (the quick budget); whole range in the thorough tier
        qs += [upd_q("sha2_512", 0, 0, 1, 65), upd_q("sha2_512", 0, 0, 66, 129), upd_q("sha3_256", 0, 0, 1, 69), upd_q("sha3_256", 0, 0, 70, 137)]
    else:
        lefts = {a: list(range(ALGS[a][2])) for a in ["md5", "sha1", "sha2_256", "sha2_512", "sha3_256", "sha3_512", "gost"]}
        lefts["sha3_224"] = [0, 1, 72, 143]
        lefts["sha3_384"] = [0, 1, 52, 103]
    for a, ls in lefts.items():
        qs += upd_chunks(a, ls, (70 if a.startswith("sha3") else 140) if quick else 200, trim=not quick)
    # ---- (a) update: counters for every counter value -----------------------------------------------------------
    for a in FILES + ([] if quick else ["sha3_224", "sha3_384", "sha3_512"]):
        qs.append(cnt_q(a))
    # ---- (a) finish ---------------------------------------------------------------------------------------------
    if quick:
        for a in ["md5", "sha1", "sha2_256", "sha2_512", "sha3_256", "gost"]:
            qs += fin_chunks(a)
        qs += [fin_q("sha2_224", 48, 64), fin_q("sha2_384", 104, 128), fin_q("sha3_224", 128, 144), fin_q("sha3_384", 88, 104),
               fin_q("sha3_512", 56, 72)]
    else:
        for a in ALGS:
            qs += fin_chunks(a)
    for a in ["md5", "sha1", "sha2_256", "sha2_512", "gost"]:
        qs.append(flen_q(a))
    qs += [reset_q(a) for a in (["md5", "sha1", "sha2_224", "sha2_512", "sha3_256", "gost"] if quick else
                                ["md5", "sha1", "sha2_224", "sha2_256", "sha2_384", "sha2_512", "sha3_224", "sha3_256", "sha3_384", "sha3_512", "gost"])]
    # ---- (a) huge single update (bug hunting) -------------------------------------------------------------------
    for a in FILES:
        blk = ALGS[a][2]
        fid = LEN32.get(a)
        if fid and _open(fid):
            # the finding is open: exactly one demonstration query per finding; the other huge queries of this file would
            # fail for the same reason and are left out until the finding is fixed
            qs.append(huge_q(a, blk - 1, kf=fid))
        else:
            if not (quick and a.startswith("sha3")):     # 64-bit modulo by the symbolic rate: ~60 s, thorough only
                qs.append(cnt_q(a, huge=True))
            for l in ([0, blk - 1] if quick else [0, 1, blk // 2, blk - 1]):
                qs.append(huge_q(a, l))
    # ---- GOST 256-bit adder -------------------------------------------------------------------------------------
    qs.append(Q("gost_sum256", "harness/C11_gostsum.c", units=["src/pcryptohash-gost3411.c"], models=MODELS, export_local=True,
                unwind=10, funcs=["pp_crypto_hash_gost3411_sum_256"], timeout=600, bounds={"operands": "all 2^512 pairs"}))
    if _open("C11_gost_sum_carry"):
        qs.append(Q("gost_sum256_kf_demo", "harness/C11_gostsum.c", units=["src/pcryptohash-gost3411.c"], models=MODELS, export_local=True,
                    defs=["KF_DEMO"], unwind=10, kf="C11_gost_sum_carry", funcs=["pp_crypto_hash_gost3411_sum_256"], timeout=600,
                    bounds={"operands": "pairs with a limb pair 0xFFFFFFFF/0xFFFFFFFF and carry-in 1"}))
    # ---- (c) Keccak-f[1600] == FIPS 202 for every state (the one compression function whose miter the solver decides) ----
    SP = P + "sha3_c_pp_crypto_hash_sha3_"
    qs.append(Q("keccak_round", "harness/C11_keccak.c", units=[WRAP], models=MODELS, defs=["ALG=5", "VARIANT=256"], hdefs=["ROUND"], export_local=True,
                unwind=30, funcs=["pp_crypto_hash_sha3_keccak_theta", "pp_crypto_hash_sha3_keccak_rho_pi", "pp_crypto_hash_sha3_keccak_chi"],
                timeout=900, bounds={"state": "all 2^1600 values", "rounds": "one round without iota (schedule: keccak_sched_*)"}))
    for v in ([256, 512] if quick else [224, 256, 384, 512]):
        qs.append(Q("keccak_sched_%d" % v, "harness/C11_keccak.c", units=[WRAP], models=MODELS, defs=["ALG=5", "VARIANT=%d" % v], hdefs=["SCHED"],
                    export_local=True, remove_bodies=[SP + "keccak_theta", SP + "keccak_rho_pi", SP + "keccak_chi"], unwind=30,
                    funcs=["pp_crypto_hash_sha3_process", "pp_crypto_hash_sha3_keccak_permutate"], timeout=600,
                    bounds={"state_and_block": "symbolic", "step_functions": "recording stubs (decided by keccak_round)"}))
    # ---- (b) dispatcher -----------------------------------------------------------------------------------------
    nops = 4 if quick else 6
    qs.append(disp_q(None, nops))
    qs += [disp_q(t, nops) for t in range(11)]
    qs += [disp_q(t, nops, oomnew=True) for t in ([0] if quick else range(11))]
    # ---- (c) known-answer vectors through the encoding ----------------------------------------------------------
    qs += [kat_q(a) for a in ALGS]
    return qs
