import os
from vf import Q, VERIF
WRAP = os.path.join(VERIF, "harness", "C11_wrap.c")      # absolute path: os.path.join(REPO, abs) == abs
MODELS = ["models/verif.c"]
ALGS = {
    # name: (ALG id, variant, block, source, static compression fn)
    "md5":      (1, 0, 64, "pcryptohash-md5.c", "pp_crypto_hash_md5_process"),
    "sha1":     (2, 0, 64, "pcryptohash-sha1.c", "pp_crypto_hash_sha1_process"),
    "sha2_256": (3, 0, 64, "pcryptohash-sha2-256.c", "pp_crypto_hash_sha2_256_process"),
    "sha2_224": (3, 1, 64, "pcryptohash-sha2-256.c", "pp_crypto_hash_sha2_256_process"),
    "sha2_512": (4, 0, 128, "pcryptohash-sha2-512.c", "pp_crypto_hash_sha2_512_process"),
    "sha2_384": (4, 1, 128, "pcryptohash-sha2-512.c", "pp_crypto_hash_sha2_512_process"),
    "sha3_224": (5, 224, 144, "pcryptohash-sha3.c", "pp_crypto_hash_sha3_process"),
    "sha3_256": (5, 256, 136, "pcryptohash-sha3.c", "pp_crypto_hash_sha3_process"),
    "sha3_384": (5, 384, 104, "pcryptohash-sha3.c", "pp_crypto_hash_sha3_process"),
    "sha3_512": (5, 512, 72, "pcryptohash-sha3.c", "pp_crypto_hash_sha3_process"),
    "gost":     (6, 0, 32, "pcryptohash-gost3411.c", "pp_crypto_hash_gost3411_process"),
}
def mon(a):
    src, fn = ALGS[a][3], ALGS[a][4]
    return "__CPROVER_file_local_%s_%s" % (src.replace("-", "_").replace(".", "_"), fn)
def upd_fn(a):
    return {1: "p_crypto_hash_md5_update", 2: "p_crypto_hash_sha1_update", 3: "p_crypto_hash_sha2_256_update",
            4: "p_crypto_hash_sha2_512_update", 5: "p_crypto_hash_sha3_update", 6: "p_crypto_hash_gost3411_update"}[ALGS[a][0]]

def update_q(a, left):
    alg, var, blk = ALGS[a][:3]
    maxblk = (left + 2 * blk + 2) // blk + 1
    uws = {"harness.0": 5, "harness.1": blk + 1, "harness.2": left + 1, "harness.3": 2 * blk + 3,
           upd_fn(a) + ".0": 4}
    return Q("upd_%s_left%d" % (a, left), "harness/C11_update.c", units=[WRAP], models=MODELS,
             defs=["ALG=%d" % alg, "VARIANT=%d" % var, "LEFT=%d" % left], export_local=True, remove_bodies=[mon(a)],
             unwindset=uws, funcs=[upd_fn(a)], timeout=600,
             bounds={"algorithm": a, "pending_bytes": left, "len": "1..%d" % (2 * blk + 2), "counter": "any value of the full width",
                     "content": "arbitrary bytes"})

META = {"assumptions": [], "outside": []}
MANIFEST = {}
def queries(tier):
    return [update_q("md5", 0), update_q("md5", 1), update_q("md5", 63)]
