from vf import Q
from conc_common import BASE, PT, REDIR_PT, TFLAGS, caps, roles, TRUSTED, ensure_instrument_units
ensure_instrument_units()     # vf.Q(instrument_units=[...]) - no-op once lib/vf.py has the hook

META = {
 "assumptions": [
  "pthread mutex = models/pthread_model.c (POSIX contract: one owner, trylock EBUSY when owned, blocking lock = assume inside an atomic step); "
  "its internals (futex) are trusted",
  "GCC __atomic/__sync builtins = one indivisible step each (models/atomics_model.h, models/conc_atomics.h); strong CAS, no spurious failure",
  "visibility for the c11 model is decided on a ghost of the C11 release/acquire rules (release sequence through RMWs, fences); "
  "for the sync model (volatile store + __sync_synchronize, not expressible in C11 terms) the same harness runs under CBMC's x86-TSO memory model",
  "spin loop unwound 3 times WITHOUT unwinding assertion: a failed CAS iteration only reads (stutter step), executions with more spins "
  "are equivalent to executions with fewer",
  "spin_loop_abstraction_*: the unit object is instrumented with goto-instrument --havoc-loops (loop state arbitrary at the loop head, one iteration): "
  "over-approximation, sound for safety ('lock returns only after an atomic RMW that saw the word free'), termination not claimed; paths on which "
  "the last CAS failed (the redirected back edge) are discarded",
  "mutex_trylock_after_cond_release: the blocking point of pthread_cond_wait is emulated sequentially (model releases the platform mutex, a second "
  "context runs through the public API, model re-acquires)",
  "objects are allocated before the first thread starts (p_malloc0 supplied by the harness: typed static storage)",
  "CBMC's native threads abort ('pointer handling for concurrency is unsound') on any pointer-typed shared write after the first spawn: on a tree "
  "whose lock code writes pointers inside lock/trylock/unlock the thr_* queries end INCONCLUSIVE (reported as such, never as a pass); that class is "
  "covered by the sequential nested_first_lock_* queries (two contexts, B's complete lock call runs at a symbolic platform-model entry - allocator, "
  "pthread call, atomic builtin - inside A's first lock call on a fresh object; pointer checks on)"],
 "outside": ["more than 3 threads / more than 2 acquisitions per thread", "fairness and progress of the spin loop",
             "non-x86 memory models for the sync spinlock", "pmutex implementations of other platforms (only pmutex-posix.c is compiled on Linux)"],
 "units_included_by_harness": [],
}
MANIFEST = {
 "level_text": "Bounded model checking of the real lock code with all thread interleavings as solver variables: 3 threads mixing "
               "lock/trylock/unlock on pspinlock-c11.c, pspinlock-sync.c (x86-TSO), pspinlock-sim.c and pmutex-posix.c; a ghost holder counter "
               "decides mutual exclusion at every step, a plain read-modify-write counter decides lost updates, and a C11 happens-before ghost "
               "decides visibility (a release->relaxed or acquire->relaxed edit, invisible to any SC test or interleaving search, fails it). "
               "Right level: the property is about all schedules and memory orders, which tests sample once.",
 "level_note": TRUSTED + " Bounds: 3 threads, 1 (quick) / 2 (thorough) acquisitions each, spin loop cut after 3 iterations (stutter argument).",
 "technique": "CBMC native threads (partial-order encoding, --mm sc / tso) on the real units + ghost happens-before tracker; sequential queries for trylock/return codes",
 "design_ref": "DESIGN.md §3 C01",
}

SPIN_FUNCS = ["p_spinlock_new", "p_spinlock_lock", "p_spinlock_trylock", "p_spinlock_unlock"]
MTX_FUNCS = ["p_mutex_new", "p_mutex_lock", "p_mutex_trylock", "p_mutex_unlock"]


def thr(name, kind, rs, rounds, hb=False, tso=False, timeout=900):
    """one thread query.  kind: c11 | sync | sim | mutex"""
    nt = len(rs)
    defs = ["NT=%d" % nt, "ROUNDS=%d" % rounds] + roles(rs)
    uw = {"thread.0": rounds + 1}
    flags = list(TFLAGS)
    ua = True
    if kind in ("c11", "sync"):
        units = ["src/pspinlock-%s.c" % kind]
        models = BASE
        defs += ["LK_SPIN"]
        if hb:
            defs += ["LK_ATOMICS_CA", "CA_HB"]
            incs = ["models/conc_atomics.h"]
        else:
            defs += ["LK_ATOMICS"]
            incs = ["models/atomics_model.h"]
        uw["p_spinlock_lock.0"] = 3
        ua = False                       # spin loop: stutter argument, see META
        flags += ["--no-unwinding-assertions"]
        funcs = SPIN_FUNCS
    elif kind == "sim":
        units = ["src/pspinlock-sim.c", "src/pmutex-posix.c"]
        models = PT
        defs += ["LK_SPIN", "LK_PTHREAD"] + caps(nt, nmtx=1)
        incs = REDIR_PT
        funcs = SPIN_FUNCS + MTX_FUNCS
    else:
        units = ["src/pmutex-posix.c"]
        models = PT
        defs += ["LK_MUTEX", "LK_PTHREAD"] + caps(nt, nmtx=1)
        incs = REDIR_PT
        funcs = MTX_FUNCS
    if tso:
        flags += ["--mm", "tso"]
    return Q(name, "harness/C01_lock.c", units=units, models=models, defs=defs, includes=incs, unwindset=uw, unwind_assert=ua,
             flags=flags, threads=True, funcs=funcs, timeout=timeout,
             bounds={"threads": nt, "roles": "".join(rs) + " (L=lock, T=trylock)", "acquisitions_per_thread": rounds,
                     "memory_model": "x86-TSO" if tso else ("SC interleavings + C11 happens-before ghost" if hb else "SC interleavings"),
                     "spin_loop_iterations": 3 if kind in ("c11", "sync") else "n/a (blocking = assume)"})


def seq(name, kind, rc=False):
    defs = []
    if kind in ("c11", "sync"):
        units, models, incs = ["src/pspinlock-%s.c" % kind], BASE, ["models/atomics_model.h"]
        defs += ["LK_SPIN", "LK_ATOMICS"]
        funcs = SPIN_FUNCS
    elif kind == "sim":
        units, models, incs = ["src/pspinlock-sim.c", "src/pmutex-posix.c"], PT, REDIR_PT
        defs += ["LK_SPIN", "LK_PTHREAD"] + caps(1, nmtx=1)
        funcs = SPIN_FUNCS + MTX_FUNCS
    else:
        units, models, incs = ["src/pmutex-posix.c"], PT, REDIR_PT
        defs += ["LK_MUTEX", "LK_PTHREAD"] + caps(1, nmtx=1)
        funcs = MTX_FUNCS + ["p_mutex_free"]
    if rc:
        defs += ["RC_MAP", "VM_PT_FAULTS"]
    return Q(name, "harness/C01_seq.c", units=units, models=models, defs=defs, includes=incs, unwindset={"p_spinlock_lock.0": 2},
             funcs=funcs, timeout=300,
             bounds={"threads": 1, "pthread_result": "any non-zero int" if rc else "success"})


def nested(kind):
    """sequential nested-context emulation of two overlapping FIRST lock calls on a fresh lock (pointer checks on)"""
    atomic = kind in ("c11", "sync")     # spin loop: cut without unwinding assertion (a spinning A = blocked = infeasible path)
    if kind in ("c11", "sync"):
        units, models, incs = ["src/pspinlock-%s.c" % kind], BASE, ["models/atomics_model.h"]
        defs = ["LK_SPIN", "LK_ATOMICS", "VMA_PRE_HOOK=c01_preempt_w"]
        funcs = SPIN_FUNCS
    elif kind == "sim":
        units, models, incs = ["src/pspinlock-sim.c", "src/pmutex-posix.c"], PT, REDIR_PT
        defs = ["LK_SPIN", "LK_PTHREAD", "VM_PRE_HOOK=c01_preempt", "ST_PRE_HOOK=c01_preempt"] + caps(2, nmtx=2)
        funcs = SPIN_FUNCS + MTX_FUNCS
    else:
        units, models, incs = ["src/pmutex-posix.c"], PT, REDIR_PT
        defs = ["LK_MUTEX", "LK_PTHREAD", "VM_PRE_HOOK=c01_preempt", "ST_PRE_HOOK=c01_preempt"] + caps(2, nmtx=2)
        funcs = MTX_FUNCS
    return Q("nested_first_lock_%s" % kind, "harness/C01_nested.c", units=units, models=models, defs=defs, includes=incs,
             unwind=3, unwindset={"p_spinlock_lock.0": 3}, unwind_assert=not atomic, flags=["--no-unwinding-assertions"] if atomic else [],
             funcs=funcs, timeout=300,
             bounds={"contexts": "A + B; B's complete lock/trylock runs at one symbolic platform-model entry inside A's first lock/trylock call",
                     "preemption_depth": 1, "spin_loop_iterations": 3})


def loopabs(kind):
    """spin loop of p_spinlock_lock over-approximated by goto-instrument --havoc-loops (arbitrary loop state, one iteration)"""
    return Q("spin_loop_abstraction_%s" % kind, "harness/C01_loopabs.c", units=["src/pspinlock-%s.c" % kind], models=BASE,
             defs=["CA_RMW_GHOST"], includes=["models/conc_atomics.h"], instrument_units=["--havoc-loops"], unwind=3,
             funcs=["p_spinlock_new", "p_spinlock_lock"], timeout=300,
             bounds={"loop": "havocked: every object written in the loop (lock word, expected-value temporary, counters) arbitrary at the loop head, "
                             "one iteration executed; = any number of earlier iterations and any interference (over-approximation)",
                     "not_claimed": "termination; an exit taken although the last attempt failed (decided by thr_* / nested_*)"})


def cond_release():
    """C03's public-API release query registered here too: trylock must succeed on a mutex that was last released by a condition wait"""
    return Q("mutex_trylock_after_cond_release", "harness/C03_release.c", units=["src/pcondvariable-posix.c", "src/pmutex-posix.c"], models=PT,
             defs=caps(2, nmtx=2, ncv=2), hdefs=["VM_CW_HOOK=other_context", "VM_CW_RELEASE"], includes=REDIR_PT, unwind=3,
             funcs=MTX_FUNCS + ["p_cond_variable_wait", "p_cond_variable_signal"], timeout=300,
             bounds={"contexts": "A (waiter, two consecutive waits) + B (run to completion at A's blocking point through the public API)",
                     "mutexes": 2, "conditions": 2})


def queries(tier):
    qs = [nested("c11"), nested("sync"), nested("sim"), nested("mutex"), loopabs("c11"), loopabs("sync"), cond_release()]
    qs += [seq("seq_trylock_c11", "c11"), seq("seq_trylock_sync", "sync"), seq("seq_trylock_sim", "sim"), seq("seq_trylock_mutex", "mutex"),
          seq("seq_mutex_return_codes", "mutex", rc=True)]
    if tier == "quick":
        mix = ["L", "L", "T"]
        qs += [thr("thr_c11_LLT_hb", "c11", mix, 1, hb=True),
               thr("thr_sync_LLT_tso", "sync", mix, 1, tso=True),
               thr("thr_sim_LLT", "sim", mix, 1),
               thr("thr_mutex_LLT", "mutex", mix, 1)]
    else:
        for mix in (["L", "L", "T"], ["L", "T", "T"], ["L", "L", "L"]):
            m = "".join(mix)
            qs += [thr("thr_c11_%s_hb" % m, "c11", mix, 1, hb=True),
                   thr("thr_c11_%s_sc" % m, "c11", mix, 1),
                   thr("thr_sync_%s_tso" % m, "sync", mix, 1, tso=True),
                   thr("thr_sim_%s" % m, "sim", mix, 1),
                   thr("thr_mutex_%s" % m, "mutex", mix, 1)]
        qs += THOROUGH_R2()
    return qs


def THOROUGH_R2():
    """two acquisitions per thread: 2 threads for the ghost / TSO runs (3 threads x 2 rounds on pspinlock-c11.c did not finish in 40 min),
    3 threads x 2 rounds on the pthread-model mutex passed but needed 524 s - 2843 s depending on machine load: left out)"""
    out = []
    out += [thr("thr_c11_LT_r2_hb", "c11", ["L", "T"], 2, hb=True, timeout=2400),
            thr("thr_sync_LT_r2_tso", "sync", ["L", "T"], 2, tso=True, timeout=2400),
            thr("thr_sim_LT_r2", "sim", ["L", "T"], 2, timeout=2400),
            thr("thr_mutex_LT_r2", "mutex", ["L", "T"], 2, timeout=2400)]
    return out
