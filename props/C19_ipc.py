"""C19, IPC part (merged into C19.py by the lead): EINTR transparency of the sem_open/sem_wait/shm_open retry loops."""
from vf import Q, load_findings
KM = ["models/kernel_ipc.c", "models/kernel_ipc_keystub.c", "models/alloc.c", "models/verif.c", "models/libc_stub.c"]
UNITS = ["src/pshm-posix.c", "src/psemaphore-posix.c", "src/psysclose-unix.c", "src/perror.c", "src/pstring.c", "src/pmem.c"]
META = {
 "assumptions": [
  "kernel model models/kernel_ipc.c: sem_open, sem_wait, shm_open may fail with -1/EINTR before having any effect, at a symbolic subset of their invocations bounded by EINTR_MAX per library call (POSIX: an interrupted call has no effect)",
  "p_ipc_get_platform_key replaced by the injective stub models/kernel_ipc_keystub.c (real function decided by C06 realkey_sha1_names)",
  "allocator never fails here (C18 covers that); printf has an empty body"],
 "outside": ["signals interrupting non-system-call code; SA_RESTART; EINTR from ftruncate/fstat/mmap/close (not interruptible on a shm object)",
             "more than EINTR_MAX interruptions of one library call"],
}
MANIFEST = {
 "level_text": "IPC part: the real retry loops of psemaphore-posix.c / pshm-posix.c are executed symbolically over a kernel model that may answer -1/EINTR at any subset (<=3) of the sem_open/sem_wait/shm_open invocations; the solver compares return value, error object and kernel state with the uninterrupted outcome for every such subset, which no test can do because no test delivers a signal.",
 "level_note": "Trusted: CBMC 6.11, kernel model (interrupted call has no effect), key stub. Bound: <=3 interruptions per call, 2 processes.",
 "technique": "CBMC bounded symbolic execution with symbolic EINTR injection in the syscall model",
 "design_ref": "DESIGN.md §3 C19",
}
def xdefs():
    # p_semaphore_new(CREATE) on an existing name is finding C06_create_existing (property C06): while it is open that class is
    # excluded here as well (it fails with and without interruptions)
    return ["KF_OPEN_" + f["id"] for f in load_findings() if f["id"] in ("C06_create_existing",) and f.get("status") == "open"]
def scen(i, name, n):
    uw = {"p_semaphore_acquire.0": n + 2, "pp_semaphore_create_handle.0": n + 2, "pp_semaphore_create_handle.1": n + 2,
          "pp_shm_create_handle.0": n + 2, "pp_shm_create_handle.1": n + 2}
    return Q("ipc_eintr_%s_max%d" % (name, n), "harness/C19_ipc.c", units=UNITS, models=KM, hdefs=["SCEN=%d" % i, "EINTR_MAX=%d" % n] + xdefs(),
             includes=["models/redir_ipc.h"], unwindset=uw, timeout=900,
             funcs=["p_semaphore_new", "pp_semaphore_create_handle", "p_semaphore_acquire", "p_shm_new", "pp_shm_create_handle", "p_shm_lock"],
             bounds={"eintr_per_call": n, "processes": 2})
def queries(tier):
    n = 3
    return [scen(0, "semaphore", n), scen(1, "shm", n)]
