"""Shared pieces of the socket queries (C09, C10, C18/C19/C20 socket parts)."""
from vf import Q

UNITS = ["src/psocket.c", "src/psocketaddress.c", "src/psysclose-unix.c", "src/perror.c", "src/pmem.c"]
MODELS = ["models/kernel_sock.c", "models/sock_stubs.c", "models/alloc.c", "models/verif.c", "models/libc_stub.c"]
ERRREC = "models/sock_errrec.c"
INCLUDES = ["models/redir_sock.h"]

# retry loops of the real code
LIB_LOOPS = ["p_socket_receive.0", "p_socket_receive_from.0", "p_socket_send.0", "p_socket_send_to.0",
             "p_socket_accept.0", "p_socket_connect.0", "p_socket_io_condition_wait.0"]


SOCK_ASSUMPTIONS = [
    "kernel = models/kernel_sock.c (trusted): non-blocking descriptor semantics per POSIX/Linux; descriptors never reused; "
    "stream receive queue of VS_CAP bytes; datagram queue of 2; addresses matched by family+port",
    "fault schedule: each poll/send/recv/sendto/recvfrom/connect/accept invocation may fail with EINTR, EAGAIN (spurious readiness), "
    "transfer short (streams) or fail hard, at most F times per library call; after that the call behaves normally",
    "poll(-1) on a condition that never becomes true does not return (such paths are pruned, they are not failures)",
    "close() releases an open descriptor and returns 0, or fails with EBADF (Linux 'EINTR but closed' outside)",
    "allocator = ledger model installed through p_mem_set_vtable; printf (P_WARNING) has an empty body",
    "errno is redirected to a plain int of the model for psocket.c/perror.c/psysclose-unix.c (force-included models/redir_sock.h)",
    "p_strdup (copy of the constant error message) = stub allocating through p_malloc; memset of a whole fresh block = one array assignment (models/sock_stubs.c)",
    "protocol queries (all but C18/C20 socket parts): perror.c:p_error_set_error_p replaced by a recorder with the same first-error-wins contract (models/sock_errrec.c)",
]


def loops(faults, extra=None):
    d = {l: faults + 1 for l in LIB_LOOPS}     # at most `faults` retries => at most faults+1 passes through a retry loop
    d["memset.0"] = 40
    d.update(extra or {})
    return d


TIER = "quick"        # set by queries(tier) of the socket modules: quick queries get a 600 s cap


def open_ids():
    """ids of the open known findings (harness defines are also passed explicitly so that the part modules behave the same
    when run on their own as ./check C18_sock etc.)"""
    import vf
    return {f["id"] for f in vf.load_findings() if f.get("status") == "open"}


def sq(name, harness, defs=(), faults=2, extra_loops=None, errrec=True, **kw):
    """one socket query; errrec=True: error recorder instead of the real p_error_set_error_p"""
    kw.setdefault("timeout", 600 if TIER == "quick" else 3000)
    kw.setdefault("object_bits", 10)
    # backstop for loops that are not in the unwindset (e.g. a loop introduced by an edit of the library): every constant-bound
    # loop of harness and models has < 30 iterations, so a runaway loop ends as an unwinding-assertion failure within seconds
    kw.setdefault("unwind", 30)
    models = MODELS + ([ERRREC] if errrec else [])
    defs = ["FAULTS=%d" % faults] + (["ERRREC"] if errrec else []) + list(defs)
    return Q(name, harness, units=UNITS, models=models, includes=INCLUDES, defs=defs,
             remove_bodies=(["p_error_set_error_p"] if errrec else []), unwindset=loops(faults, extra_loops), **kw)
