from vf import Q
ALLOC = ["models/alloc.c", "models/verif.c", "models/libc_stub.c"]
NET = ALLOC + ["models/netdb_model.c"]
UNITS = ["src/psocketaddress.c", "src/pmem.c"]
KF = "C17_from_native_len1"
GETTERS = ["p_socket_address_get_family", "p_socket_address_get_port", "p_socket_address_get_native_size", "p_socket_address_get_flow_info",
           "p_socket_address_get_scope_id", "p_socket_address_is_any", "p_socket_address_is_loopback", "p_socket_address_free"]
META = {
 "assumptions": [
  "allocator = ledger model over CBMC malloc installed via p_mem_set_vtable; allocation never fails here (C18 covers failure)",
  "printf (P_WARNING/P_ERROR) has an empty body",
  "native layout = x86-64 Linux struct sockaddr_in (16 bytes) / sockaddr_in6 (28 bytes), little-endian host (the platform built in /repo/_build)",
  "text queries: inet_pton / inet_ntop / getaddrinfo / freeaddrinfo are consistent uninterpreted functions with the POSIX contract written down in "
  "models/netdb_model.h (verdict and output bytes are symbolic; exactly 4/16 bytes written on acceptance, nothing on rejection; inet_ntop cannot fail "
  "when given >= INET(6)_ADDRSTRLEN bytes; getaddrinfo returns one exact-size heap result with ai_addrlen = sizeof of its family)",
  "text round trip (text -> address -> text) additionally needs the platform's inet_pton and inet_ntop to be mutual inverses; that is a property of libc, not of plibsys",
  "re-entrancy queries: threads are emulated sequentially (nested-atomic emulation, DESIGN 1.2): the second call runs to completion at one symbolically chosen "
  "preemption point (platform-model entry/exit or allocator call) of the first; interleavings that preempt inside straight-line library code are not explored",
  "strchr/strlen/memcpy/memset/memcmp: CBMC's built-in C library models",
  "open finding C17_from_native_len1: length 1 is excluded from the main from_native query and demonstrated by from_native_len1_kf_demo"],
 "outside": ["the platform's own parsers/printers (which strings are numeric addresses, which text is produced)", "scope id in text form (\"%eth0\")",
             "text longer than 64 characters for new; platform text longer than 7 (quick) / 15 (thorough) characters for get_address (the real maximum is 45)",
             "native lengths beyond sizeof(sockaddr_in6)+4 (quick) / +16 (thorough)", "Windows (WSAStringToAddress) and non-getaddrinfo build variants",
             "getaddrinfo results with more than one list element",
             "re-entrancy: preemption inside straight-line library code (only platform calls and allocator calls are preemption points), more than 2 concurrent calls, "
             "nesting depth > 1; new_from_native/to_native/getters have no platform call inside and are not part of the re-entrancy queries"],
}
MANIFEST = {
 "level_text": "Bounded model checking of the real psocketaddress.c: every byte of the native sockaddr image (family, port, all 2^32 / 2^128 addresses, flow info, "
               "scope id) and the buffer length (0..sizeof+4, exact-size heap objects so that any over-read/over-write is a bounds violation) are solver variables; "
               "round trips, getters and the any/loopback classification are compared with a byte-level reference. Right level because the logic is per-bit and per-length: "
               "the state is tiny, so the solver covers the whole input space that two sample addresses in the unit test cannot.",
 "level_note": "Trusted: CBMC 6.11 + SAT back end and its C library models; allocator ledger; inet_pton/inet_ntop/getaddrinfo as uninterpreted functions with their POSIX "
               "contracts (so 'agrees with the platform' means: hands the platform the right arguments and returns exactly its output). Bounds: text length, lengths up to sizeof+4.",
 "technique": "CBMC bounded symbolic execution of the real unit, exact-size heap buffers, byte-level reference, uninterpreted platform functions",
 "design_ref": "DESIGN.md §3 C17",
}
def nat(name, defs, funcs, extra, **kw):
    return Q(name, "harness/C17_native.c", units=UNITS, models=ALLOC, defs=defs + ["EXTRA=%d" % extra], unwind=28 + extra + 2, funcs=funcs + GETTERS,
             bounds={"native_bytes": "all values of every byte (family, port, address, flow info, scope id)", "length": "0..sizeof(sockaddr_in6)+%d, exact-size heap object" % extra},
             timeout=1800, **kw)
def queries(tier):
    extra = 4 if tier == "quick" else 16
    qs = [nat("from_native_all_lengths", ["MODE_FROM"], ["p_socket_address_new_from_native", "p_socket_address_to_native"], extra),
          nat("from_native_len1_kf_demo", ["MODE_FROM", "KF_DEMO"], ["p_socket_address_new_from_native"], 4, kf=KF,
              kf_match=r"new_from_native\.pointer_dereference.*sa_family")]
    for src, nm in ((0, "native"), (1, "any"), (2, "loopback")):
        qs.append(nat("to_native_all_lengths_from_" + nm, ["MODE_TO", "SRC=%d" % src],
                      ["p_socket_address_to_native", "p_socket_address_new_from_native", "p_socket_address_new_any", "p_socket_address_new_loopback",
                       "p_socket_address_set_flow_info", "p_socket_address_set_scope_id"], extra))
    tm = 4 if tier == "quick" else 7
    qs.append(Q("text_new", "harness/C17_text.c", units=UNITS, models=NET, includes=["models/redir_netdb.h"], defs=["MODE_NEW", "TEXT_MAX=%d" % tm],
                unwind=30, timeout=1800, funcs=["p_socket_address_new", "p_socket_address_new_from_native", "p_socket_address_to_native"] + GETTERS,
                bounds={"text": "any NUL-terminated string of <= %d characters" % tm, "port": "all", "platform_verdicts_and_outputs": "all"}))
    # every text length 0..64 (longer than INET6_ADDRSTRLEN: "addr%scope" strings): contents fully symbolic, platform verdict symbolic
    qs.append(Q("text_new_len64", "harness/C17_text.c", units=UNITS, models=NET, includes=["models/redir_netdb.h"], defs=["MODE_NEW", "TEXT_MAX=64"],
                unwind=70, timeout=1800, funcs=["p_socket_address_new", "p_socket_address_new_from_native"],
                bounds={"text": "any NUL-terminated string of 0..64 characters", "port": "all", "platform_verdicts_and_outputs": "all"}))
    gm = 7 if tier == "quick" else 15
    qs.append(Q("text_get_address", "harness/C17_text.c", units=UNITS + ["src/pstring.c"], models=NET, includes=["models/redir_netdb.h"],
                defs=["MODE_GET", "VMN_TEXT_MAX=%d" % gm], unwind=30, timeout=1800, funcs=["p_socket_address_get_address", "p_strdup"],
                bounds={"platform_text": "any string of <= %d characters" % gm, "address": "all"}))
    # re-entrancy: a second complete call nested at every platform-model entry/exit and allocator call of the first (preemption depth 1)
    rm = 3 if tier == "quick" else 5
    qs.append(Q("reentrant_get_address", "harness/C17_text.c", units=UNITS + ["src/pstring.c"], models=NET, includes=["models/redir_netdb.h"],
                defs=["MODE_GET", "REENT", "VMN_TEXT_MAX=%d" % rm], unwind=30, timeout=1800, funcs=["p_socket_address_get_address", "p_strdup"],
                bounds={"calls": "2 concurrent get_address calls on different addresses", "preemption_depth": 1,
                        "preemption_points": "inet_ntop entry/exit, allocator calls", "platform_text": "any two strings of <= %d characters" % rm}))
    pts = {"pton_in": 0, "pton_out": 1, "gai_in": 4, "gai_out": 5, "free_in": 6, "free_out": 7, "malloc": 8}
    sel = ["pton_out", "gai_out", "free_in", "malloc"] if tier == "quick" else list(pts)
    tn = 2 if tier == "quick" else 4
    for nm in sel:
        qs.append(Q("reentrant_new_at_" + nm, "harness/C17_text.c", units=UNITS, models=NET, includes=["models/redir_netdb.h"],
                    defs=["MODE_NEW", "REENT", "TEXT_MAX=%d" % tn, "ONLY_POINT=%d" % pts[nm]], unwind=30, timeout=1800,
                    funcs=["p_socket_address_new", "p_socket_address_new_from_native"],
                    bounds={"calls": "2 concurrent p_socket_address_new calls on different strings", "preemption_depth": 1,
                            "preemption_points": nm + " (every occurrence in the first call)", "text": "any two strings of <= %d characters" % tn}))
    return qs
