"""C20 is assembled from part modules built per subsystem (props/C20_<part>.py); each part defines queries(tier)/META/MANIFEST."""
import importlib, os
HERE = os.path.dirname(os.path.abspath(__file__))
PARTS = sorted(f[:-3] for f in os.listdir(HERE) if f.startswith("C20_") and f.endswith(".py"))
_mods = [importlib.import_module(p) for p in PARTS]

def queries(tier):
    qs = []
    for m in _mods:
        for q in m.queries(tier):
            q.name = m.__name__[len("C20_"):] + "." + q.name if not q.name.startswith(m.__name__[len("C20_"):] + ".") else q.name
            qs.append(q)
    return qs

META = {"assumptions": sorted({a for m in _mods for a in getattr(m, "META", {}).get("assumptions", [])}),
        "outside": sorted({a for m in _mods for a in getattr(m, "META", {}).get("outside", [])})}
