"""C20 is assembled from part modules built per subsystem (props/C20_<part>.py); each part defines queries(tier)/META/MANIFEST."""
import importlib, os
HERE = os.path.dirname(os.path.abspath(__file__))
PARTS = sorted(f[:-3] for f in os.listdir(HERE) if f.startswith("C20_") and f.endswith(".py"))
_mods = [importlib.import_module(p) for p in PARTS]

def queries(tier):
    qs = []
    for m in _mods:
        for q in m.queries(tier):
            q.name = m.__name__[len("C20_"):] + "." + q.name if not q.name.startswith(m.__name__[len("C20_"):] + ".") else q.name
            qs.append(q)
    return qs

META = {"assumptions": sorted({a for m in _mods for a in getattr(m, "META", {}).get("assumptions", [])}),
        "outside": sorted({a for m in _mods for a in getattr(m, "META", {}).get("outside", [])})}

MANIFEST = {
 "level_text": 'Resource ledgers in the environment models (allocations, fds closed exactly once, mappings, IPC names, DIR streams, dl handles, pthread objects/keys) checked at the end of per-module create/use/free scripts of the real code, with symbolic system-call failures (<=2 per script) on every path.' + " Parts: " + ", ".join(PARTS) + ". Bounded model checking: every query is decided by the SAT/SMT back end for all symbolic choices inside the stated script/bound.",
 "level_note": "Trusted: CBMC 6.11, the environment models named in evidence.assumptions (allocator ledger, kernel_ipc, kernel_sock, thread_emul, dir/dl models, clock model); scripts are representative call sequences, not all sequences; bounds per query in evidence.coverage.bounds. " + " | ".join(getattr(m, "MANIFEST", {}).get("level_note", "") for m in _mods)[:1500],
 "technique": "CBMC bounded symbolic execution of the real units with symbolic fault index / fault schedule in the environment models",
 "design_ref": "DESIGN.md §3 C20",
}
