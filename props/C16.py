"""C16 INI parser: memory-safe and consistent on any bytes; documented grammar on well-formed files; typed getters.

Every query symbolically executes the REAL pinifile.c + pstring.c + plist.c + pmem.c (+ perror.c) with CBMC.
libc is replaced by bounded index-based models (models/cstring_model.c, models/stdio_model.c: in-memory file,
fgets, sscanf for the directive kinds pinifile.c uses; validated against glibc by lib/sscanf_diff.py).
Build flags of the verification build only: -D__NO_CTYPE (glibc ctype macros), -include models/redir_ini.h,
-DPLIBSYS_VERIF -DPLIBSYS_VERIF_INI_MAX_LINE=n (existing add-only hook: line buffers shrunk from 1024 to n).
"""
from vf import Q

UNITS = ["src/pinifile.c", "src/pstring.c", "src/plist.c", "src/pmem.c", "src/perror.c"]
MODELS = ["models/C16_alloc.c", "models/C16_foreach.c", "models/verif.c", "models/libc_stub.c",
          "models/cstring_model.c", "models/stdio_model.c"]
FIND = "__CPROVER_file_local_pinifile_c_pp_ini_file_find_parameter"
FUNCS = ["p_ini_file_new", "p_ini_file_parse", "p_ini_file_free", "p_ini_file_is_parsed", "p_ini_file_sections", "p_ini_file_keys",
         "p_ini_file_is_key_exists", "p_ini_file_parameter_string", "pp_ini_file_find_parameter", "pp_ini_file_parameter_new",
         "pp_ini_file_section_new", "pp_ini_file_parameter_free", "pp_ini_file_section_free", "p_strchomp", "p_strdup",
         "p_list_prepend", "p_list_append", "p_list_free", "p_malloc", "p_malloc0", "p_free"]
BACKSTOP = 64   # global --unwind for loops NOT in the unwindset (none in the unchanged build except constant-bound harness loops):
                # if an edit makes a unit call a libc function without a model here, CBMC's built-in body is still unwound finitely
KF1 = "C16_comment_line_key"
KF2 = "C16_quoted_empty_pair"

META = {
 "assumptions": [
  "P_INI_FILE_MAX_LINE shrunk from 1024 to 7 (quick) / 14 (thorough) through the PLIBSYS_VERIF hook in pinifile.c; the parser code is otherwise unchanged and line-length generic",
  "libc = models: strlen/strcpy/strcmp/memcpy/memset/atoi/isspace/isdigit as index loops in the C locale (models/cstring_model.c); "
  "fopen/fgets/fclose over one in-memory file and sscanf for white-space, literal, %% and %[scanlist] directives per C11 7.21.6.2 "
  "(models/stdio_model.c; agreement with glibc on 4*10^5 generated (format,input) pairs is checked by lib/sscanf_diff.py in setup)",
  "units are compiled with -D__NO_CTYPE so that isspace/isdigit are calls (glibc's macros index a table behind __ctype_b_loc())",
  "allocator = ledger model installed via p_mem_set_vtable (models/C16_alloc.c): 16/24-byte requests get typed pointer records, all other "
  "requests (strings) a char block of exactly MAX_LINE+1 bytes (larger requests excluded by assumption; cannot occur for lines <= MAX_LINE); "
  "stack buffers src_line/key/value keep their exact size; allocation never fails here (C18 covers failure)",
  "p_list_foreach body replaced by models/C16_foreach.c (same walk, calls the two pinifile.c destructors with their real one-argument "
  "signature): pinifile.c casts them to the two-argument PFunc, which CBMC's signature-based function-pointer resolution cannot follow",
  "memset of 16/24 bytes with 0 is modelled by word stores (p_malloc0 of the pointer records)",
  "grammar queries compare only files all of whose lines are inside the documented format; lines on which pinifile.h is silent are "
  "classified 'unspecified' by the reference (list in harness/C16_ref.h) and covered by the robustness queries only",
  "printf (P_ERROR/P_WARNING) has an empty body",
 ],
 "outside": [
  "lines longer than the shrunk buffer except in the fgets-split queries; the real 1024-byte limit itself",
  "more than one symbolic line per file (two short ones in the repeated-key query); files with more than 3 sections",
  "two sections with the same name; empty unquoted values ('k ='); blanks inside quotes; text after a closing quote; lines without '='; "
  "'[' lines not ending in ']' (all: unspecified by pinifile.h, robustness only)",
  "non-C locales; fopen/fgets/fclose themselves (model); UTF-16/32 content (the parser is byte/NUL-terminated-string based; only BOM skipping is exercised)",
  "p_strtod: only strings of <= 4 (quick) / 5 (thorough) characters; decimal exponents above 22 and mantissas above 4 digits are not compared; "
  "accuracy claim is a relative error <= 1e-14, not correct rounding",
  "heap string blocks are MAX_LINE+1 bytes regardless of the requested size: an overrun that stays inside the block is not seen (the stack buffers are exact)",
  "boolean getter: only the documented spellings true/TRUE/1/false/FALSE/0 are compared; list getter: value strings of <= 7 (quick) / 9 (thorough) characters",
  "allocation failure inside the parser (C18), leaks (C20)",
 ],
}
MANIFEST = {
 "level_text": "Bounded model checking of the real pinifile.c/pstring.c/plist.c/pmem.c: for a symbolic line of up to MAX_LINE arbitrary "
               "bytes placed in several concrete file contexts (before the first section, in a section, after keys, across an fgets split) "
               "the SAT solver decides memory safety (all CBMC pointer/bounds checks on exact-size stack buffers), termination within the "
               "unwinding bounds, consistency of the parsed object through the public API, and equality with an independent reference "
               "reader written from pinifile.h on every line inside the documented format; the typed getters are decided for all short "
               "value strings. Right level because the parser is a cascade of sscanf patterns whose corner cases (quotes vs. comment "
               "markers, '=' in comments, empty values, BOM look-alikes, line-length limit) are combinations of a handful of character "
               "classes per line: small enough to decide exhaustively per line, too many for hand-written tests.",
 "level_note": "Trusted: CBMC 6.11 + SAT back end; libc models (sscanf model differentially validated against glibc at setup); allocator "
               "model with fixed-size string blocks; p_list_foreach replaced by an equivalent direct-call walk; line buffers shrunk to 7/14 "
               "via the PLIBSYS_VERIF hook. Bounds: one symbolic line (any bytes) of <= 7/14 characters per file context, <= 3 sections, "
               "value strings <= 5/8 characters for getters.",
 "technique": "CBMC bounded symbolic execution of the real parser over a symbolic line vs. reference reader from the header documentation; libc models validated differentially",
 "design_ref": "DESIGN.md §3 C16",
}


def uw(L, nlines, nsec, nkey, extra=None):
    """per-loop bounds: L = longest C string seen by the string loops (line buffer content), nlines = fgets calls that
    return data + 1, nsec/nkey = list lengths + 1"""
    S = L + 2
    n = max(nsec, nkey)
    d = {"vm_sscanf.0": 4, "vm_sscanf.1": S, "vm_sscanf.2": S, "vm_sscanf.3": 3, "vm_sscanf.4": S, "vm_sscanf.5": 5, "vm_sscanf.6": S, "vm_sscanf.7": 10,
         # models of libc parsers/comparisons the unchanged sources do not call (an edit may): bounded by the string length
         "vm_scan_int.0": S, "vm_scan_int.1": S, "vm_scan_float.0": S, "vm_scan_float.1": S, "vm_scan_float.2": S, "vm_scan_float.3": S,
         "vm_scan_float.4": 24, "vm_strncmp.0": S, "vm_strcasecmp.0": S, "vm_strncasecmp.0": S,
         "vm_in_set.0": 4, "vm_fgets.0": S, "p_strchomp.0": S, "p_strchomp.1": S,
         "p_ini_file_parse.0": nlines + 1,
         "p_ini_file_keys.0": nsec, "p_ini_file_keys.1": nkey, "p_ini_file_sections.0": nsec,
         "p_ini_file_is_key_exists.0": nsec, "p_ini_file_is_key_exists.1": nkey, FIND + ".0": nsec, FIND + ".1": nkey,
         "p_ini_file_parameter_list.0": S,
         "p_list_free.0": n, "p_list_foreach.0": n, "p_list_append.0": n, "p_list_last.0": n, "p_list_length.0": n,
         "c16_consistent.0": nkey, "c16_consistent.1": nsec,
         "vm_strcpy.0": S, "vm_strcmp.0": S, "vm_memcpy.0": S + 1, "vm_strlen.0": S, "vm_memset.0": max(S + 1, 26),
         "vm_atoi.0": S, "vm_atoi.1": S, "vm_strchr.0": 24,
         "p_strtod.0": S, "p_strtod.1": S, "p_strtod.2": S, "p_strtod.3": 8, "p_strtod.4": 8, "p_strtod.5": 9}
    # harness loops need no entry: they are bounded by constants (list walks carry an explicit counter bound LBS/LBK)
    if extra:
        d.update(extra)
    return d


def mk(name, harness, maxline, defs, nlines, nsec, nkey, bounds, kf=None, timeout=900, funcs=None, L=None, extra_uw=None, mem_gb=10):
    base = ["__NO_CTYPE", "PLIBSYS_VERIF", "PLIBSYS_VERIF_INI_MAX_LINE=%d" % maxline, "VM_STRBLK=%d" % (maxline + 1), "ALPHA_ANY",
            "LBS=%d" % nsec, "LBK=%d" % nkey]
    b = dict(bounds)
    b.update({"P_INI_FILE_MAX_LINE": maxline, "string_block_bytes": maxline + 1, "symbolic_bytes": "any of 256 values (no new-line inside a line body)"})
    return Q(name, harness, units=UNITS, models=MODELS, defs=base + defs, includes=["models/redir_ini.h"], export_local=True,
             remove_bodies=["p_list_foreach"], unwind=BACKSTOP, unwindset=uw(L if L is not None else maxline, nlines, nsec, nkey, extra_uw),
             object_bits=12, kf=kf, funcs=funcs or FUNCS, bounds=b, timeout=timeout, mem_gb=mem_gb)


def S(s):
    """C string literal as a -D value"""
    return '"' + s.replace("\\", "\\\\").replace("\n", "\\n").replace('"', '\\"') + '"'


def robust(name, maxline, prefix, length, suffix="", filler=0, wit=(), nlines=4, nsec=3, nkey=3, nsym=None, timeout=900):
    defs = ["PREFIX=" + S(prefix), "SUFFIX=" + S(suffix)] + list(wit)
    if nsym is None:
        defs.append("LEN=%d" % length)
    else:
        defs.append("NSYM=%d" % nsym)
    if filler:
        defs.append("FILLER=%d" % filler)
    return mk("robust_" + name, "harness/C16_robust.c", maxline, defs, nlines, nsec, nkey,
              {"file": "%r + %d x 'a' + %s + %r" % (prefix, filler, ("one symbolic line body of %d bytes" % length) if nsym is None else
                                                    ("0..%d symbolic bytes incl. new-lines" % nsym), suffix)}, timeout=timeout)


def grammar(name, maxline, prefix, length, suffix="", extra=(), nlines=4, nsec=3, nkey=3, rns=2, rnk=2, kf=None, timeout=900):
    defs = ["PREFIX=" + S(prefix), "SUFFIX=" + S(suffix), "LEN=%d" % length, "RNS=%d" % rns, "RNK=%d" % rnk] + list(extra)
    return mk("grammar_" + name, "harness/C16_grammar.c", maxline, defs, nlines, nsec, nkey,
              {"file": "%r + symbolic line body of %d bytes + %r" % (prefix, length, suffix), "reference": "harness/C16_ref.h (from pinifile.h)"},
              kf=kf, timeout=timeout)


def queries(tier):
    quick = tier == "quick"
    M = 7 if quick else 14      # 14: string requests stay <= 15 bytes and cannot be confused with the 16-byte pointer records in models/C16_alloc.c
    T = 900 if quick else 3400
    qs = []
    # ---------------- (a) robustness: any bytes ----------------
    qs.append(robust("in_section", M, "[s]\n", M, wit=["WIT_KEYS=1", "WIT_NOSEC"], nlines=3, nsec=2, nkey=2, timeout=T))
    qs.append(robust("in_section_eol", M, "[s]\n", M - 1, suffix="\n", wit=["WIT_KEYS=1", "WIT_NOSEC"], nlines=3, nsec=2, nkey=2, timeout=T))
    qs.append(robust("after_key", M, "[s]\nk=v\n", M, wit=["WIT_KEYS=2"], nlines=4, nsec=3, nkey=3, timeout=T))
    qs.append(robust("first_line", M, "", M if quick else 10, suffix="\nk=v\n", wit=["WIT_KEYS=1", "WIT_NOSEC"], nlines=4, nsec=2, nkey=2, timeout=T))
    qs.append(robust("lines", M, "[s]\n", 0, nsym=3 if quick else 5, wit=["WIT_KEYS=1", "WIT_NOSEC"], nlines=(5 if quick else 7), nsec=3, nkey=(3 if quick else 4), timeout=T))
    # fgets split: filler line of MAX-1 / MAX / MAX+1 characters followed by a symbolic tail
    for fl in (M - 1, M, M + 1):
        qs.append(robust("split_filler%d" % fl, M, "[s]\n", 4, filler=fl, suffix="\n", wit=["WIT_SPLIT=4", "WIT_KEYS=1"], nlines=5, nsec=2, nkey=3, timeout=T))
    # ---------------- (b) documented grammar vs. reference reader ----------------
    qs.append(grammar("in_section", M, "[s]\n", M, extra=["WIT_KEYS=1", "WIT_NONE"], nlines=3, nsec=2, nkey=2, rns=2, rnk=1, timeout=T))
    qs.append(grammar("in_section_eol", M, "[s]\n", M - 1, extra=["EOL", "WIT_KEYS=1", "WIT_NONE"], nlines=3, nsec=2, nkey=2, rns=2, rnk=1, timeout=T))
    qs.append(grammar("after_key", M, "[s]\nk=v\n", M, extra=["WIT_KEYS=2"], nlines=4, nsec=2, nkey=3, rns=2, rnk=2, timeout=T))
    qs.append(grammar("second_section", M, "[s]\nk=v\n[t]\n", M if quick else 10, extra=["WIT_KEYS=2", "WIT_SECS=2"], nlines=5, nsec=3, nkey=2, rns=3, rnk=1, timeout=T))
    qs.append(grammar("before_first_section", M, "", 4 if quick else 8, suffix="[s]\nq=w\n", extra=["WIT_KEYS=1", "WIT_SECS=1"], nlines=4, nsec=2, nkey=2, rns=2, rnk=1, timeout=T))
    qs.append(grammar("header_then_key", M, "", 5 if quick else 8, suffix="q=w\n", extra=["WIT_KEYS=1", "WIT_NONE"], nlines=3, nsec=2, nkey=2, rns=1, rnk=1, timeout=T))
    qs.append(grammar("repeated_key", M, "[s]\n", 3 if quick else 5, extra=["NLS=2", "WIT_KEYS=2"], nlines=4, nsec=3, nkey=3, rns=3, rnk=2, timeout=T))
    qs.append(grammar("utf8_bom", M, "[s]\n", 3 if quick else 8, extra=["BOM", "EOL", "WIT_KEYS=1"], nlines=3, nsec=2, nkey=2, rns=2, rnk=1, timeout=T))
    # known findings: demonstration queries
    qs.append(grammar("kf_comment_line", M, "[s]\n", 4, extra=["EOL", "KF_DEMO=1"], nlines=3, nsec=2, nkey=2, rns=2, rnk=1, kf=KF1, timeout=T))
    qs.append(grammar("kf_quoted_empty_pair", M, "[s]\n", 6, extra=["EOL", "KF_DEMO=2"], nlines=3, nsec=2, nkey=2, rns=2, rnk=1, kf=KF2, timeout=T))
    # ---------------- (c) typed getters ----------------
    VL = 5 if quick else 8
    GF = ["p_ini_file_parameter_int", "p_ini_file_parameter_boolean", "p_ini_file_parameter_list", "p_ini_file_parameter_double",
          "p_ini_file_parameter_string", "pp_ini_file_find_parameter", "p_ini_file_parse", "p_strtod", "p_strchomp", "p_strdup"]
    for mode in ("INT", "BOOL", "LIST", "DOUBLE"):
        vl = {"BOOL": 5, "DOUBLE": 2, "LIST": 6 if quick else 9}.get(mode, VL)   # LIST: "{a b }" needs 6 characters, "{ a b }" 7
        MG = max(M, vl + 2)      # the line 'k=' + value must fit the line buffer
        qs.append(mk("getter_" + mode.lower(), "harness/C16_getters.c", MG, ["GET_" + mode, "VLEN=%d" % vl], 3, 2, max(3, vl // 2 + 2),
                     {"file": "'[s]\\nk=' + value of 1..%d bytes" % vl, "value": "any text the grammar stores verbatim"}, funcs=GF, timeout=T))
    SU = ["src/pstring.c", "src/pmem.c"]
    SM = ["models/C16_alloc.c", "models/verif.c", "models/cstring_model.c"]
    sdefs = ["__NO_CTYPE", "VM_STRBLK=16"]
    SMAX = 8 if quick else 12
    qs.append(Q("strchomp_len%d" % SMAX, "harness/C16_chomp.c", units=SU, models=SM, defs=sdefs + ["SMAX=%d" % SMAX], includes=["models/redir_ini.h"],
                unwind=BACKSTOP, unwindset=uw(SMAX, 1, 1, 1), object_bits=12, funcs=["p_strchomp", "p_strdup", "p_malloc0"],
                bounds={"string": "any bytes, length 0..%d" % SMAX}, timeout=T))
    DL = 4 if quick else 5
    for shape in range(1, DL + 1):
        if shape == DL - 1:
            continue      # marker in the last position: no exponent digits, never a number
        wit = ["WIT_POINT"] if shape == DL else (["WIT_EXP"] if shape <= DL - 3 else [])
        qs.append(Q("strtod_len%d_e%d" % (DL, shape), "harness/C16_strtod.c", units=SU, models=SM, defs=sdefs + ["DLEN=%d" % DL, "SHAPE=%d" % shape] + wit,
                    includes=["models/redir_ini.h"], unwind=BACKSTOP, unwindset=uw(DL, 1, 1, 1), object_bits=12, funcs=["p_strtod", "p_strchomp"],
                    bounds={"string": "all strings of length 0..%d over [0-9.eE+-]" % DL, "exponent_marker_at": shape if shape < DL else "none",
                            "compared": "<= 4 mantissa digits, |decimal exponent| <= 22, relative tolerance 1e-14"}, timeout=T))
    # long CONCRETE numerals (beyond 2^53 / 2^64, long fractions, leading zeros): constant-folded execution of the real code
    KL = 40     # line buffer for the getter variant: 'xx=' + 30-character numeral
    KU = uw(KL, 4, 2, 3, {"harness.0": 100, "harness.1": 100, "harness.2": 100, "harness.3": 100, "harness.4": 100})
    qs.append(Q("strtod_long_numerals", "harness/C16_strtod_kat.c", units=SU, models=SM + ["models/stdio_model.c"], defs=["__NO_CTYPE", "VM_STRBLK=41", "VM_NO_RECORDS", "VM_MEMSET_WORDS=0", "KAT_DIRECT"],
                includes=["models/redir_ini.h"], unwind=BACKSTOP, unwindset=KU, object_bits=12, funcs=["p_strtod", "p_strchomp"],
                bounds={"numerals": "77 concrete decimal numerals of 1..30 characters (table harness/C16_strtod_kat.h from glibc strtod)", "tolerance": "relative 1e-14"}, timeout=T))
    qs.append(Q("getter_double_long_numerals", "harness/C16_strtod_kat.c", units=UNITS, models=MODELS,
                defs=["__NO_CTYPE", "PLIBSYS_VERIF", "PLIBSYS_VERIF_INI_MAX_LINE=%d" % KL, "VM_STRBLK=%d" % (KL + 1), "VM_FILE_MAX=48", "VM_REC2_ALWAYS=1", "KAT_GETTER"],
                includes=["models/redir_ini.h"], export_local=True, remove_bodies=["p_list_foreach"], unwind=BACKSTOP, unwindset=KU, object_bits=12,
                funcs=["p_ini_file_parse", "p_ini_file_parameter_double", "p_strtod"],
                bounds={"file": "36 files '[s]' + 'key=<numeral>' with concrete numerals of up to 30 characters", "P_INI_FILE_MAX_LINE": KL, "tolerance": "relative 1e-14"}, timeout=T))
    if not quick:   # semi-symbolic: decided, but measured at 663 s under load - too slow for the quick tier
      qs.append(Q("strtod_repdigit_len24", "harness/C16_strtod_kat.c", units=SU, models=SM + ["models/stdio_model.c"], defs=["__NO_CTYPE", "VM_STRBLK=41", "VM_NO_RECORDS", "VM_MEMSET_WORDS=0", "KAT_REPDIGIT"],
                  includes=["models/redir_ini.h"], unwind=BACKSTOP, unwindset=uw(24, 1, 1, 1), object_bits=12, funcs=["p_strtod", "p_strchomp"],
                  bounds={"string": "n in 1..24 symbolic, n copies of one symbolic digit 1..9", "tolerance": "relative 1e-14 against d*(10^n-1)/9"}, timeout=T))
    return qs
